module verif/harness

go 1.26.0

require (
	github.com/onflow/crypto v0.0.0
	golang.org/x/crypto v0.36.0
)

require (
	github.com/btcsuite/btcd/btcec/v2 v2.3.4 // indirect
	github.com/davecgh/go-spew v1.1.1 // indirect
	github.com/decred/dcrd/dcrec/secp256k1/v4 v4.0.1 // indirect
	github.com/pmezard/go-difflib v1.0.0 // indirect
	github.com/stretchr/testify v1.10.0 // indirect
	golang.org/x/sys v0.31.0 // indirect
	gonum.org/v1/gonum v0.16.0 // indirect
	gopkg.in/yaml.v3 v3.0.1 // indirect
)

replace github.com/onflow/crypto => /repo
