module verif/harness

go 1.26.0

require github.com/onflow/crypto v0.0.0

require (
	github.com/davecgh/go-spew v1.1.1 // indirect
	github.com/pmezard/go-difflib v1.0.0 // indirect
	github.com/stretchr/testify v1.10.0 // indirect
	golang.org/x/crypto v0.36.0 // indirect
	gonum.org/v1/gonum v0.16.0 // indirect
	gopkg.in/yaml.v3 v3.0.1 // indirect
)

replace github.com/onflow/crypto => /repo
