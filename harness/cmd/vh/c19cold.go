package main

// C19 "cold start": the very first signature operations of a fresh process are issued by several
// goroutines at once (no sequential warm-up that would fill lazily initialised caches in key objects
// or in the per-algorithm singletons).  Runs in a child process; under the race detector the child is
// the race-enabled binary and its report goes to stderr, where the driver looks for it.

import (
	"bytes"
	"fmt"
	"os"
	"os/exec"
	"sync"

	"github.com/onflow/crypto"
	"github.com/onflow/crypto/hash"
)

func init() {
	if os.Getenv("VH_C19_COLD") == "" {
		return
	}
	seed := []byte(os.Getenv("VH_C19_COLD"))
	for len(seed) < 48 {
		seed = append(seed, seed...)
	}
	fail := func(f string, a ...any) {
		fmt.Printf("cold-mismatch: "+f+"\n", a...)
		os.Exit(0)
	}
	const G = 8
	algs := []crypto.SigningAlgorithm{crypto.ECDSAP256, crypto.ECDSASecp256k1, crypto.BLSBLS12381}
	sks := make([]crypto.PrivateKey, len(algs))
	pks := make([]crypto.PublicKey, len(algs))
	for i, a := range algs {
		sk, err := crypto.GeneratePrivateKey(a, seed[:40])
		if err != nil {
			fail("keygen %v: %v", a, err)
		}
		sks[i] = sk
		// public key objects decoded from bytes: never used before the goroutines start
		pk, err := crypto.DecodePublicKey(a, sk.PublicKey().Encode())
		if err != nil {
			fail("decode %v: %v", a, err)
		}
		pks[i] = pk
	}
	msg := []byte("cold start message")
	hasher := func(a crypto.SigningAlgorithm) hash.Hasher {
		if a == crypto.BLSBLS12381 {
			return crypto.NewExpandMsgXOFKMAC128("c19-cold")
		}
		return hash.NewSHA3_256()
	}
	pops := make([]crypto.Signature, G) // first use of the package-level PoP hasher: concurrent
	sigs := make([][]crypto.Signature, len(algs))
	for i := range sigs {
		sigs[i] = make([]crypto.Signature, G)
	}
	var wg sync.WaitGroup
	var mu sync.Mutex
	bad := ""
	start := make(chan struct{})
	// phase A: the first Sign calls of the process, all at once (per-goroutine hashers)
	for g := 0; g < G; g++ {
		wg.Add(1)
		go func(g int) {
			defer wg.Done()
			<-start
			i := g % len(algs)
			for j := 0; j < len(algs); j++ {
				k := (i + j) % len(algs)
				s, err := sks[k].Sign(msg, hasher(algs[k]))
				if err != nil {
					mu.Lock()
					bad = fmt.Sprintf("Sign %v: %v", algs[k], err)
					mu.Unlock()
					return
				}
				if j == 0 {
					sigs[k][g] = s
				}
				if algs[k] == crypto.BLSBLS12381 {
					pop, err := crypto.BLSGeneratePOP(sks[k])
					if err != nil {
						mu.Lock()
						bad = fmt.Sprintf("BLSGeneratePOP: %v", err)
						mu.Unlock()
						return
					}
					pops[g] = pop
				}
			}
		}(g)
	}
	close(start)
	wg.Wait()
	if bad != "" {
		fail("%s", bad)
	}
	for g := range pops {
		if !bytes.Equal(pops[g], pops[0]) || len(pops[g]) == 0 {
			fail("BLSGeneratePOP from goroutine %d differs: %x vs %x", g, pops[g], pops[0])
		}
	}
	// phase B: the first Verify calls of the process, all at once, on the decoded key objects
	start = make(chan struct{})
	for g := 0; g < G; g++ {
		wg.Add(1)
		go func(g int) {
			defer wg.Done()
			<-start
			if ok, err := crypto.BLSVerifyPOP(pks[len(algs)-1], pops[g]); !ok || err != nil {
				mu.Lock()
				bad = fmt.Sprintf("BLSVerifyPOP: %v %v", ok, err)
				mu.Unlock()
			}
			for k := range algs {
				for _, s := range sigs[k] {
					if s == nil {
						continue
					}
					ok, err := pks[k].Verify(s, msg, hasher(algs[k]))
					if !ok || err != nil {
						mu.Lock()
						bad = fmt.Sprintf("Verify %v: %v %v", algs[k], ok, err)
						mu.Unlock()
					}
				}
			}
		}(g)
	}
	close(start)
	wg.Wait()
	if bad != "" {
		fail("%s", bad)
	}
	fmt.Println("cold-ok")
	os.Exit(0)
}

// c19ColdRun starts the child and returns its verdict line
func c19ColdRun(seed string) string {
	cmd := exec.Command(os.Args[0])
	cmd.Env = append(os.Environ(), "VH_C19_COLD="+seed)
	var so bytes.Buffer
	cmd.Stdout = &so
	cmd.Stderr = os.Stderr // a race report of the child must reach the driver
	if err := cmd.Run(); err != nil {
		return "cold-child-failed: " + err.Error()
	}
	return string(bytes.TrimSpace(so.Bytes()))
}
