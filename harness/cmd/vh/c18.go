package main

// C18: the stateful BLS threshold-signature object.
// Sequential cases: an op sequence on a real inspector/participant, compared op by op
// with Model/ThresholdObj.v.  Concurrent cases: 2-8 goroutines share one object; every
// call is stamped (one atomic counter) at invocation and response; the Coq history
// checker must find a linearization.  Concurrent runs execute in a child process so
// that a Go runtime fatal error ("concurrent map writes") is an observation.

import (
	"time"
	"bytes"
	"encoding/json"
	"fmt"
	"math/rand/v2"
	"os"
	"os/exec"
	"strings"
	"sync"
	"sync/atomic"

	"github.com/onflow/crypto"
)

type c18Op struct {
	Op string `json:"op"`          // ta va hs es vs vts ss ts
	I  int    `json:"i,omitempty"` // signer index argument
	S  int    `json:"s,omitempty"` // share id (index into the share table)
	G  int    `json:"g,omitempty"` // vts: 0 group signature, 1 a genuine share, 2 garbage, 3 wrong length
}

type c18In struct {
	N           int       `json:"n"`
	T           int       `json:"t"`
	Seed        string    `json:"seed"`
	Msg         string    `json:"msg"`
	Participant bool      `json:"participant"`
	My          int       `json:"my"`
	Seq         []c18Op   `json:"seq,omitempty"`
	Threads     [][]c18Op `json:"threads,omitempty"`
}

type c18Share struct {
	id    int
	owner int
	kind  int
	b     []byte
}

type c18Env struct {
	violMu sync.Mutex
	viol   string // first contract violation seen by apply
	in     c18In
	insp   crypto.ThresholdSignatureInspector
	part   crypto.ThresholdSignatureParticipant
	shares []c18Share
	group  []byte
	pkG    crypto.PublicKey
	hasher interface{}
	sigArg [][]byte
}

type c18Res struct {
	Kind string `json:"k"` // b b2 sh sg
	B1   bool   `json:"b1,omitempty"`
	B2   bool   `json:"b2,omitempty"`
	Err  string `json:"e"`
	ID   int    `json:"id,omitempty"` // share id / signature id (-1: nil)
	Ver  bool   `json:"ver,omitempty"`
}

type c18Ev struct {
	Th   int    `json:"th"`
	Op   c18Op  `json:"op"`
	Res  c18Res `json:"res"`
	Inv  uint64 `json:"inv"`
	Resp uint64 `json:"resp"`
}

type c18ChildOut struct {
	Events []c18Ev `json:"events"`
	Probes []c18Ev `json:"probes"`
}

const c18Tag = "C18-harness"

func c18ShareTable(n int) (kinds []int, owners []int) {
	// ids: for each signer i: genuine (2i), wrong-message (2i+1); then 2 garbage, 4 wrong-length
	for i := 0; i < n; i++ {
		kinds = append(kinds, 0, 1)
		owners = append(owners, i, i)
	}
	kinds = append(kinds, 2, 2, 3, 3, 3, 3)
	owners = append(owners, 0, 0, 0, 0, 0, 0)
	return
}

func c18Setup(in c18In) (*c18Env, error) {
	env := &c18Env{in: in}
	sks, pks, pkG, err := crypto.BLSThresholdKeyGen(in.N, in.T, unhx(in.Seed))
	if err != nil {
		return nil, err
	}
	msg := unhx(in.Msg)
	other := append([]byte("other:"), msg...)
	hasher := crypto.NewExpandMsgXOFKMAC128(c18Tag)
	env.pkG = pkG
	kinds, owners := c18ShareTable(in.N)
	var genuine []crypto.Signature
	for i := 0; i < in.N; i++ {
		g, err := sks[i].Sign(msg, hasher)
		if err != nil {
			return nil, err
		}
		w, err := sks[i].Sign(other, hasher)
		if err != nil {
			return nil, err
		}
		genuine = append(genuine, g)
		env.shares = append(env.shares, c18Share{2 * i, i, 0, g}, c18Share{2*i + 1, i, 1, w})
	}
	base := 2 * in.N
	g1 := crypto.BLSInvalidSignature()
	g2 := bytes.Repeat([]byte{0xff}, crypto.SignatureLenBLSBLS12381)
	g2[0] = 0x9f // compressed, x >= p
	wl := [][]byte{{}, append([]byte{}, genuine[0][:47]...), append(append([]byte{}, genuine[0]...), 0), bytes.Repeat([]byte{1}, 96)}
	env.shares = append(env.shares, c18Share{base, 0, 2, g1}, c18Share{base + 1, 0, 2, g2})
	for j, b := range wl {
		env.shares = append(env.shares, c18Share{base + 2 + j, 0, 3, b})
	}
	for i, s := range env.shares {
		if s.kind != kinds[i] || s.owner != owners[i] {
			return nil, fmt.Errorf("share table mismatch")
		}
	}
	signers := make([]int, in.T+1)
	for i := range signers {
		signers[i] = i
	}
	grp, err := crypto.BLSReconstructThresholdSignature(in.N, in.T, genuine[:in.T+1], signers)
	if err != nil {
		return nil, err
	}
	ok, err := pkG.Verify(grp, msg, hasher)
	if err != nil || !ok {
		return nil, fmt.Errorf("group signature of the setup does not verify")
	}
	env.group = grp
	env.sigArg = [][]byte{grp, genuine[in.N-1], g1, wl[1]}
	if in.Participant {
		p, err := crypto.NewBLSThresholdSignatureParticipant(pkG, pks, in.T, in.My, sks[in.My], msg, c18Tag)
		if err != nil {
			return nil, err
		}
		env.part = p
		env.insp = p
	} else {
		p, err := crypto.NewBLSThresholdSignatureInspector(pkG, pks, in.T, msg, c18Tag)
		if err != nil {
			return nil, err
		}
		env.insp = p
	}
	return env, nil
}

func c18Err(err error) string {
	switch {
	case err == nil:
		return "ENone"
	case crypto.IsInvalidInputsError(err):
		return "EInvalidInputs"
	case crypto.IsDuplicatedSignerError(err):
		return "EDuplicated"
	case crypto.IsNotEnoughSharesError(err):
		return "ENotEnough"
	case crypto.IsInvalidSignatureError(err):
		return "EInvalidSig"
	}
	return "EOther"
}

func (env *c18Env) apply(o c18Op) c18Res {
	sh := func() []byte {
		b := env.shares[o.S].b
		return append(make([]byte, 0, len(b)), b...) // own copy per call
	}
	switch o.Op {
	case "ta":
		b, err := env.insp.TrustedAdd(o.I, sh())
		return c18Res{Kind: "b", B1: b, Err: c18Err(err)}
	case "va":
		v, e, err := env.insp.VerifyAndAdd(o.I, sh())
		return c18Res{Kind: "b2", B1: v, B2: e, Err: c18Err(err)}
	case "hs":
		b, err := env.insp.HasShare(o.I)
		return c18Res{Kind: "b", B1: b, Err: c18Err(err)}
	case "es":
		return c18Res{Kind: "b", B1: env.insp.EnoughShares(), Err: "ENone"}
	case "vs":
		b, err := env.insp.VerifyShare(o.I, sh())
		// VerifyShare is a pure check: true exactly for the genuine share of signer I, whatever is stored
		if want := o.I >= 0 && o.I < env.in.N && o.S == 2*o.I; err == nil && b != want {
			env.violMu.Lock()
			if env.viol == "" {
				env.viol = fmt.Sprintf("VerifyShare(%d, share #%d) = %v although that share is%s the genuine share of signer %d", o.I, o.S, b, map[bool]string{true: "", false: " not"}[want], o.I)
			}
			env.violMu.Unlock()
		}
		return c18Res{Kind: "b", B1: b, Err: c18Err(err)}
	case "vts":
		b, err := env.insp.VerifyThresholdSignature(env.sigArg[o.G])
		return c18Res{Kind: "b", B1: b, Err: c18Err(err)}
	case "ss":
		s, err := env.part.SignShare()
		id := -1
		for _, x := range env.shares {
			if bytes.Equal(x.b, s) {
				id = x.id
				break
			}
		}
		// the returned share is the caller's value: overwriting it must not reach any later SignShare
		for i := range s {
			s[i] ^= 0xA5
		}
		return c18Res{Kind: "sh", ID: id, Err: c18Err(err)}
	case "ts":
		s, err := env.insp.ThresholdSignature()
		r := c18Res{Kind: "sg", ID: -1, Err: c18Err(err)}
		if s != nil {
			r.ID = 1
			if bytes.Equal(s, env.group) {
				r.ID = 0
			}
			ok, verr := env.pkG.Verify(s, unhx(env.in.Msg), crypto.NewExpandMsgXOFKMAC128(c18Tag))
			r.Ver = ok && verr == nil
			if r.ID == 0 && !r.Ver || r.ID != 0 && r.Ver {
				r.ID = 2 // inconsistent: reported as a distinct signature
			}
		}
		return r
	}
	panic("unknown op " + o.Op)
}

// --- Coq terms ---
func (env *c18Env) coqShare(id int) string {
	s := env.shares[id]
	return fmt.Sprintf("(mkS %d %d %d %d)", s.id, s.owner, s.kind, len(s.b))
}

func coqZ(i int) string {
	if i < 0 {
		return fmt.Sprintf("(%d)%%Z", i)
	}
	return fmt.Sprintf("%d%%Z", i)
}

func (env *c18Env) coqOp(o c18Op) string {
	switch o.Op {
	case "ta":
		return fmt.Sprintf("(OpTrustedAdd %s %s)", coqZ(o.I), env.coqShare(o.S))
	case "va":
		return fmt.Sprintf("(OpVerifyAndAdd %s %s)", coqZ(o.I), env.coqShare(o.S))
	case "hs":
		return fmt.Sprintf("(OpHasShare %s)", coqZ(o.I))
	case "es":
		return "OpEnoughShares"
	case "vs":
		return fmt.Sprintf("(OpVerifyShare %s %s)", coqZ(o.I), env.coqShare(o.S))
	case "vts":
		return fmt.Sprintf("(OpVerifyThresholdSignature %d%%N)", o.G)
	case "ss":
		return "OpSignShare"
	}
	return "OpThresholdSignature"
}

func (env *c18Env) coqRes(r c18Res) string {
	switch r.Kind {
	case "b":
		return fmt.Sprintf("(RBool %s %s)", cqbool(r.B1), r.Err)
	case "b2":
		return fmt.Sprintf("(RBool2 %s %s %s)", cqbool(r.B1), cqbool(r.B2), r.Err)
	case "sh":
		if r.ID < 0 {
			return fmt.Sprintf("(RShare (mkS 9999 0 9 0) %s)", r.Err)
		}
		return fmt.Sprintf("(RShare %s %s)", env.coqShare(r.ID), r.Err)
	}
	if r.ID < 0 {
		return fmt.Sprintf("(RSig None %s)", r.Err)
	}
	return fmt.Sprintf("(RSig (Some %d%%N) %s)", r.ID, r.Err)
}

func (env *c18Env) probes() []c18Op {
	var ps []c18Op
	ps = append(ps, c18Op{Op: "es"})
	for i := 0; i < env.in.N; i++ {
		ps = append(ps, c18Op{Op: "hs", I: i})
	}
	ps = append(ps, c18Op{Op: "ts"}, c18Op{Op: "ts"}, c18Op{Op: "es"})
	return ps
}

// concurrent run (in the child process)
func c18RunConcurrent(in c18In) (c18ChildOut, error) {
	env, err := c18Setup(in)
	if err != nil {
		return c18ChildOut{}, err
	}
	var ctr atomic.Uint64
	var mu sync.Mutex
	var out c18ChildOut
	start := make(chan struct{})
	var wg sync.WaitGroup
	for th, ops := range in.Threads {
		wg.Add(1)
		go func(th int, ops []c18Op) {
			defer wg.Done()
			local := make([]c18Ev, 0, len(ops))
			<-start
			for _, o := range ops {
				inv := ctr.Add(1)
				r := env.apply(o)
				resp := ctr.Add(1)
				local = append(local, c18Ev{th, o, r, inv, resp})
			}
			mu.Lock()
			out.Events = append(out.Events, local...)
			mu.Unlock()
		}(th, ops)
	}
	// sequential prefix (pool preparation) before the goroutines are released
	for _, o := range in.Seq {
		inv := ctr.Add(1)
		r := env.apply(o)
		resp := ctr.Add(1)
		out.Events = append(out.Events, c18Ev{len(in.Threads), o, r, inv, resp})
	}
	close(start)
	wg.Wait()
	for _, o := range env.probes() {
		inv := ctr.Add(1)
		r := env.apply(o)
		resp := ctr.Add(1)
		out.Probes = append(out.Probes, c18Ev{len(in.Threads), o, r, inv, resp})
	}
	return out, nil
}

func init() {
	if os.Getenv("VH_C18_CHILD") != "" {
		var in c18In
		if err := json.NewDecoder(os.Stdin).Decode(&in); err != nil {
			fmt.Fprintln(os.Stderr, "child: bad input:", err)
			os.Exit(4)
		}
		out, err := c18RunConcurrent(in)
		if err != nil {
			fmt.Fprintln(os.Stderr, "child: setup:", err)
			os.Exit(5)
		}
		b, _ := json.Marshal(out)
		os.Stdout.Write(b)
		os.Exit(0)
	}
	register(&Prop{
		ID:        "C18",
		Header:    "From Coq Require Import ZArith NArith List.\nFrom V Require Import Model.ThresholdObj Model.LinCheck Corr.C18Corr.\nImport ListNotations.\n",
		Check:     "bad_ids",
		PropCheck: "prop_bad_ids",
		Gen:       c18Gen,
		Run:       c18Run,
		Rule:      "single-threaded op sequences on a real inspector/participant (valid, wrong-message, non-deserializable, wrong-length and duplicate shares, in- and out-of-range indices, fills around t / t+1 / t+2, final HasShare/EnoughShares/ThresholdSignature probes) and concurrent histories (2-8 goroutines, <= 9 stamped operations + sequential probes); forced schedules: all goroutines add the same signer at once (exactly one may succeed), the pool one share short and 3-5 goroutines adding distinct genuine shares at once (exactly one retained, EnoughShares / ThresholdSignature asked meanwhile), only state-free calls at once with pairwise different arguments (VerifyShare of distinct signers and share kinds, VerifyThresholdSignature of each kind, SignShare), a full genuine pool and the first reconstruction called from every goroutine at once; non-trivial if at least one share was accepted or rejected; distinct by (n, t, op list / thread assignment); every SignShare result is overwritten by the harness",
		RaceKinds: []string{"concurrent"},
		Shard:     25,
	})
}

func c18RandOp(r *rand.Rand, in c18In, nShares int, boundary bool) c18Op {
	idx := func() int {
		switch r.IntN(12) {
		case 0:
			return -1
		case 1:
			return in.N
		case 2:
			return in.N + 200
		case 3:
			// out of range as an int, in range after narrowing to a byte
			return []int{256, -256, 512, 65536}[r.IntN(4)] + r.IntN(in.N)
		}
		return r.IntN(in.N)
	}
	shareFor := func(i int) int {
		ii := i
		if ii < 0 || ii >= in.N {
			ii = r.IntN(in.N)
		}
		switch r.IntN(10) {
		case 0:
			return 2*ii + 1 // wrong message
		case 1:
			return 2 * r.IntN(in.N) // another signer's genuine share (maybe the right one)
		case 2:
			return 2*in.N + r.IntN(2) // garbage
		case 3:
			return 2*in.N + 2 + r.IntN(4) // wrong length
		}
		return 2 * ii
	}
	k := r.IntN(100)
	switch {
	case k < 28:
		i := idx()
		return c18Op{Op: "va", I: i, S: shareFor(i)}
	case k < 50:
		i := idx()
		s := shareFor(i)
		if boundary && r.IntN(3) > 0 && i >= 0 && i < in.N {
			s = 2 * i
		}
		return c18Op{Op: "ta", I: i, S: s}
	case k < 62:
		return c18Op{Op: "hs", I: idx()}
	case k < 70:
		return c18Op{Op: "es"}
	case k < 78:
		i := idx()
		return c18Op{Op: "vs", I: i, S: shareFor(i)}
	case k < 84:
		return c18Op{Op: "vts", G: r.IntN(4)}
	case k < 88 && in.Participant:
		return c18Op{Op: "ss"}
	}
	return c18Op{Op: "ts"}
}

func c18Params(r *rand.Rand) c18In {
	n := 2 + r.IntN(5)
	t := 1 + r.IntN(n-1)
	in := c18In{N: n, T: t, Seed: hx(rbytes(r, 32)), Msg: hx(rbytes(r, 1+r.IntN(40)))}
	if r.IntN(2) == 0 {
		in.Participant = true
		in.My = r.IntN(n)
	}
	return in
}

func c18Gen(tier string, r *rand.Rand) []Case {
	var cs []Case
	nseq, nfill, nconc := 60, 30, 110
	if tier == "thorough" {
		nseq, nfill, nconc = 500, 200, 1500
	}
	// fills: valid shares up to t-1 / t / t+1 / t+2 through either add, then everything else
	for k := 0; k < nfill; k++ {
		in := c18Params(r)
		perm := r.Perm(in.N)
		upto := in.T - 1 + r.IntN(4)
		if upto > in.N {
			upto = in.N
		}
		var ops []c18Op
		for j := 0; j < upto; j++ {
			i := perm[j]
			op := "va"
			if r.IntN(2) == 0 {
				op = "ta"
			}
			ops = append(ops, c18Op{Op: op, I: i, S: 2 * i})
			if r.IntN(3) == 0 {
				ops = append(ops, c18Op{Op: "es"})
			}
			if r.IntN(4) == 0 {
				ops = append(ops, c18Op{Op: "ts"})
			}
			if r.IntN(5) == 0 { // duplicate
				ops = append(ops, c18Op{Op: []string{"va", "ta"}[r.IntN(2)], I: i, S: 2 * i})
			}
		}
		ops = append(ops, c18Op{Op: "ts"})
		for j := 0; j < 4; j++ {
			ops = append(ops, c18RandOp(r, in, 2*in.N+6, true))
		}
		in.Seq = ops
		cs = append(cs, mkcase("seq-fill", in))
	}
	// an invalid share slipped in through TrustedAdd: reconstruction must fail, never cache
	for k := 0; k < nfill/2; k++ {
		in := c18Params(r)
		perm := r.Perm(in.N)
		bad := r.IntN(in.T + 1)
		var ops []c18Op
		for j := 0; j <= in.T; j++ {
			i := perm[j]
			s := 2 * i
			if j == bad {
				s = []int{2*i + 1, 2*in.N + r.IntN(2), 2*in.N + 2 + r.IntN(4), 2 * perm[(j+1)%in.N]}[r.IntN(4)]
			}
			ops = append(ops, c18Op{Op: "ta", I: i, S: s})
		}
		ops = append(ops, c18Op{Op: "es"}, c18Op{Op: "ts"}, c18Op{Op: "ts"})
		if in.T+1 < in.N {
			ops = append(ops, c18Op{Op: "va", I: perm[in.T+1], S: 2 * perm[in.T+1]}, c18Op{Op: "ts"})
		}
		in.Seq = ops
		cs = append(cs, mkcase("seq-trusted-invalid", in))
	}
	for k := 0; k < nseq; k++ {
		in := c18Params(r)
		m := 3 + r.IntN(14)
		for j := 0; j < m; j++ {
			in.Seq = append(in.Seq, c18RandOp(r, in, 2*in.N+6, false))
		}
		cs = append(cs, mkcase("seq-random", in))
	}
	// concurrent: <= 9 operations over 2..8 goroutines, concentrated at the t / t+1 boundary
	for k := 0; k < nconc; k++ {
		in := c18Params(r)
		g := 2 + r.IntN(7)
		total := g + r.IntN(10-g)
		if total > 9 {
			total = 9
		}
		in.Threads = make([][]c18Op, g)
		perm := r.Perm(in.N)
		for j := 0; j < total; j++ {
			var o c18Op
			switch r.IntN(10) {
			case 0, 1, 2, 3:
				i := perm[j%in.N]
				o = c18Op{Op: []string{"ta", "va"}[r.IntN(2)], I: i, S: 2 * i}
			case 4:
				o = c18Op{Op: "ts"}
			case 5:
				o = c18Op{Op: "es"}
			case 6:
				o = c18Op{Op: "hs", I: r.IntN(in.N)}
			default:
				o = c18RandOp(r, in, 2*in.N+6, true)
			}
			th := j % g
			if j >= g {
				th = r.IntN(g)
			}
			in.Threads[th] = append(in.Threads[th], o)
		}
		cs = append(cs, mkcase("concurrent", in))
	}
	// a full pool containing a well-formed but wrong share (TrustedAdd), then several goroutines
	// reconstruct at the same time: every call must fail, as it does sequentially
	for k := 0; k < nconc/6+2; k++ {
		in := c18Params(r)
		if in.T > 2 {
			in.T = 1 + r.IntN(2)
		}
		if in.N <= in.T+1 {
			in.N = in.T + 2
		}
		perm := r.Perm(in.N)
		bad := r.IntN(in.T + 1)
		for j := 0; j <= in.T; j++ {
			i := perm[j]
			s := 2 * i
			if j == bad {
				s = []int{2*i + 1, 2 * perm[in.T+1]}[r.IntN(2)] // wrong message / another signer's genuine share
			}
			in.Seq = append(in.Seq, c18Op{Op: "ta", I: i, S: s})
		}
		g := 2 + r.IntN(2)
		in.Threads = make([][]c18Op, g)
		for j := 0; j < 9-len(in.Seq); j++ {
			in.Threads[j%g] = append(in.Threads[j%g], c18Op{Op: "ts"})
		}
		cs = append(cs, mkcase("concurrent-reconstruct-invalid-pool", in))
	}
	// ---- rare schedules forced instead of left to the random assignment ----
	nforce := 14
	if tier == "thorough" {
		nforce = 150
	}
	small := func() c18In { // t in {1,2}, n = t+3 .. 6: room for several extra signers
		in := c18Params(r)
		in.T = 1 + r.IntN(2)
		in.N = in.T + 3 + r.IntN(4-in.T)
		if in.My >= in.N {
			in.My = r.IntN(in.N)
		}
		return in
	}
	addOp := func(i int) c18Op { return c18Op{Op: []string{"ta", "va"}[r.IntN(2)], I: i, S: 2 * i} }
	for k := 0; k < nforce; k++ {
		// (1) every goroutine adds the SAME signer at the same time (either add, the genuine share):
		// exactly one may succeed, the others are duplicates; one more goroutine asks HasShare
		in := small()
		perm := r.Perm(in.N)
		pre := r.IntN(in.T + 1) // 0..t shares already in the pool
		for j := 0; j < pre; j++ {
			in.Seq = append(in.Seq, addOp(perm[j]))
		}
		target := perm[pre]
		g := 2 + r.IntN(4)
		if pre+g+1 > 9 {
			g = 9 - pre - 1
		}
		in.Threads = make([][]c18Op, g+1)
		for j := 0; j < g; j++ {
			in.Threads[j] = []c18Op{addOp(target)}
		}
		in.Threads[g] = []c18Op{{Op: "hs", I: target}}
		cs = append(cs, mkcase("concurrent-same-signer", in))

		// (2) the pool is one share short; 3..5 goroutines add DISTINCT genuine shares at the same time, one
		// more asks EnoughShares / ThresholdSignature: exactly one add may be retained
		in = small()
		perm = r.Perm(in.N)
		for j := 0; j < in.T; j++ {
			in.Seq = append(in.Seq, addOp(perm[j]))
		}
		g = in.N - in.T
		if g > 5 {
			g = 5
		}
		in.Threads = make([][]c18Op, g+1)
		for j := 0; j < g; j++ {
			in.Threads[j] = []c18Op{addOp(perm[in.T+j])}
		}
		in.Threads[g] = []c18Op{{Op: []string{"es", "ts"}[r.IntN(2)]}}
		if in.T+g+1 < 9 {
			in.Threads[g] = append(in.Threads[g], c18Op{Op: "ts"})
		}
		cs = append(cs, mkcase("concurrent-last-slot", in))
	}
	for k := 0; k < nforce*2/3; k++ {
		// (3) only the calls documented as not touching the state, all at once and all different: VerifyShare of
		// distinct signers (genuine, another signer's, wrong message, garbage), VerifyThresholdSignature of each
		// kind of argument, SignShare; their answers do not depend on the schedule
		in := small()
		in.Participant, in.My = true, r.IntN(in.N)
		g := 4 + r.IntN(5)
		in.Threads = make([][]c18Op, g)
		for j := 0; j < g; j++ {
			i := j % in.N
			var o c18Op
			switch r.IntN(6) {
			case 0:
				o = c18Op{Op: "vts", G: j % 4}
			case 1:
				o = c18Op{Op: "ss"}
			case 2:
				o = c18Op{Op: "vs", I: i, S: []int{2*i + 1, 2 * ((i + 1) % in.N), 2 * in.N}[r.IntN(3)]}
			default:
				o = c18Op{Op: "vs", I: i, S: 2 * i}
			}
			in.Threads[j] = []c18Op{o}
		}
		if g < 9 {
			in.Threads[0] = append(in.Threads[0], c18Op{Op: "vts", G: 0})
		}
		cs = append(cs, mkcase("concurrent-stateless-calls", in))

		// (4) a full pool of genuine shares, then every goroutine reconstructs at the same time (the first
		// reconstruction is concurrent): one signature, the same for all, also afterwards
		in = small()
		perm := r.Perm(in.N)
		for j := 0; j <= in.T; j++ {
			in.Seq = append(in.Seq, addOp(perm[j]))
		}
		g = 2 + r.IntN(4)
		if in.T+1+g > 9 {
			g = 9 - in.T - 1
		}
		in.Threads = make([][]c18Op, g)
		for j := 0; j < g; j++ {
			in.Threads[j] = []c18Op{{Op: "ts"}}
		}
		if in.T+1+g < 9 && in.T+1 < in.N {
			in.Threads[g-1] = append(in.Threads[g-1], addOp(perm[in.T+1]))
		}
		cs = append(cs, mkcase("concurrent-first-reconstruction", in))
	}
	return cs
}

func c18Run(c Case) (Result, error) {
	var in c18In
	if err := json.Unmarshal(c.Input, &in); err != nil {
		return Result{}, err
	}
	env, err := c18Setup(in)
	if err != nil {
		return Result{}, err
	}
	my := "(mkS 9998 0 9 0)"
	if in.Participant {
		my = env.coqShare(2 * in.My)
	}
	nontrivial := false
	note := func(r c18Res) {
		if r.Err != "ENone" || r.B1 || r.ID >= 0 {
			nontrivial = true
		}
	}
	if len(in.Threads) == 0 {
		var items []string
		var obs []any
		ops := append(append([]c18Op{}, in.Seq...), env.probes()...)
		crashed := false
		for _, o := range ops {
			var r c18Res
			var p bool
			var msg string
			done := make(chan struct{})
			go func() {
				defer close(done)
				p, msg = catch(func() { r = env.apply(o) })
			}()
			select {
			case <-done:
			case <-time.After(hangTimeout(20 * time.Second)):
				noteHang()
				return Result{}, implViolation("call %d of the sequence (%+v) never returned (20 s): a lock is held or never released after the preceding calls %v", len(items), o, ops[:len(items)])
			}
			if p {
				crashed = true
				obs = append(obs, map[string]any{"op": o, "panic": msg})
				break
			}
			note(r)
			items = append(items, fmt.Sprintf("(%s, %s)", env.coqOp(o), env.coqRes(r)))
			obs = append(obs, map[string]any{"op": o, "res": r})
		}
		if env.viol != "" {
			return Result{}, implViolation("%s (after the calls %v)", env.viol, ops[:len(items)])
		}
		term := fmt.Sprintf("mkCase %d %d %s [%s] [] %s", in.N, in.T, my, strings.Join(items, "; "), cqbool(crashed))
		return Result{Coq: term, Key: string(c.Input), Nontrivial: nontrivial || crashed, Obs: obs}, nil
	}
	// under the race detector the history is run in-process (one detector runtime, no process start-up
	// per case); the child process is only for crash isolation
	if os.Getenv("VH_RACE") == "1" {
		errc := make(chan error, 1)
		go func() { _, e := c18RunConcurrent(in); errc <- e }()
		select {
		case err := <-errc:
			if err != nil {
				return Result{}, err
			}
		case <-time.After(hangTimeout(90 * time.Second)):
			noteHang()
			return Result{}, implViolation("the concurrent history did not complete within 90 s (threads %v): some call never returned", in.Threads)
		}
		return Result{Coq: fmt.Sprintf("mkCase %d %d %s [] [] false", in.N, in.T, my), Key: string(c.Input), Nontrivial: true}, nil
	}
	// concurrent: child process
	cmd := exec.Command(os.Args[0])
	cmd.Env = append(os.Environ(), "VH_C18_CHILD=1")
	cmd.Stdin = bytes.NewReader(c.Input)
	var so, se bytes.Buffer
	cmd.Stdout, cmd.Stderr = &so, &se
	runErr := cmd.Start()
	if runErr == nil {
		waitDone := make(chan error, 1)
		go func() { waitDone <- cmd.Wait() }()
		select {
		case runErr = <-waitDone:
		case <-time.After(hangTimeout(90 * time.Second)):
			noteHang()
			_ = cmd.Process.Kill()
			return Result{}, implViolation("the concurrent history did not complete within 90 s (threads %v): some call never returned", in.Threads)
		}
	}
	var out c18ChildOut
	if runErr != nil || json.Unmarshal(so.Bytes(), &out) != nil {
		first := strings.SplitN(strings.TrimSpace(se.String()), "\n", 2)[0]
		term := fmt.Sprintf("mkCase %d %d %s [] [] true", in.N, in.T, my)
		return Result{Coq: term, Key: string(c.Input), Nontrivial: true, Obs: map[string]any{"crashed": first, "err": fmt.Sprint(runErr)}}, nil
	}
	var evs []string
	for _, e := range append(append([]c18Ev{}, out.Events...), out.Probes...) {
		note(e.Res)
		evs = append(evs, fmt.Sprintf("mkEv %d %s %s %d %d", e.Th, env.coqOp(e.Op), env.coqRes(e.Res), e.Inv, e.Resp))
	}
	term := fmt.Sprintf("mkCase %d %d %s [] [%s] false", in.N, in.T, my, strings.Join(evs, "; "))
	return Result{Coq: term, Key: string(c.Input), Nontrivial: nontrivial, Obs: out}, nil
}
