package main

import (
	"bytes"
	"encoding/json"
	"fmt"
	"math/big"
	"math/rand/v2"
	"strings"

	"github.com/onflow/crypto"
	"github.com/onflow/crypto/hash"
)

type c06In struct {
	Mode    string  `json:"mode"` // keygen | lambda | error
	N       int     `json:"n"`
	T       int     `json:"t"`
	Seed    string  `json:"seed"`
	Subsets [][]int `json:"subsets,omitempty"` // signer index lists (0-based), in order
	// lambda mode
	Idx   []int  `json:"idx,omitempty"` // 0-based signer indices
	K     int    `json:"k,omitempty"`
	Sigma string `json:"sigma,omitempty"`
	// error mode
	Lens    []int `json:"lens,omitempty"`
	Signers []int `json:"signers,omitempty"`
	Salt    uint64 `json:"salt"`
	// message (hex) and tag; HasMsg = false: the defaults
	HasMsg bool   `json:"hasmsg,omitempty"`
	Msg    string `json:"msg,omitempty"`
	Tag    string `json:"tag,omitempty"`
	// lambda mode: all sigmas given explicitly (algebraic coincidences)
	Sigmas []string `json:"sigmas,omitempty"`
	// badshare mode: kind of the invalid share and its position in the list
	Bad string `json:"bad,omitempty"`
	Pos int    `json:"pos,omitempty"`
}

func init() {
	register(&Prop{
		ID:        "C06",
		Header:    "From Coq Require Import ZArith NArith List String.\nFrom V Require Import Lib.Hex Corr.C06Corr.\nImport ListNotations.\nOpen Scope string_scope.\n",
		Check:     "bad_ids",
		PropCheck: "prop_bad_ids",
		Gen:       c06Gen,
		Run:       c06Run,
		Rule:      "keygen cases (n,t,seed): private shares, group key, reconstruction from several signer subsets in several orders through the stateless and the stateful API; lambda cases: one Lagrange coefficient isolated by reconstructing from identity shares except one, signer sets straddling the 8-per-limb batches ({1..9}, {8,9}, {247..254}, descending, large t); error cases: sizes/thresholds out of range, count mismatch, not enough shares, duplicates, out-of-range indices, wrong-length shares, several defects in one call (which check wins), empty lists, defects past the first t+1 entries, sizes / thresholds / indices valid only modulo 256 or 2^16, n = 254 with t = 253; keygen cases also vary message (empty, 1 byte, 300 bytes), tag (empty, other) and seed length (32, 300), include n = 254, check that arguments stay unmodified, VerifyShare(i, share_j) iff i = j, duplicate adds, and the participant object (SignShare = the signer's signature, own share first, reconstruction equal to the stateless one, constructor errors incl. index +-256, foreign and non-BLS keys); lambda-coincidence: all shares equal, two equal, a pair P / -P, a set interpolating to the point at infinity, on signer sets {1,2,3}, {4..12}, {254,8,9}; bad-share: wrong signer, wrong message, random G1 point, non-G1 curve point, identity, bad header, x >= p at positions 0, 2 (read) and 3 (not read) of a list of 5 through the stateless API, VerifyAndAdd (refused, not retained, object still reaches the group signature) and TrustedAdd + ThresholdSignature three times (documented error class every time); constructor-errors: BLSThresholdKeyGen / NewBLSThresholdSignatureInspector / EnoughShares on out-of-range and modulo-256 sizes and thresholds, short and nil seeds, non-BLS keys at every position; cases dealt round-robin over the shards; distinct by input; duplicates (first and last added signer, both adds) and one further signer offered to a FULL pool before and after the reconstruction",
		Shard:     c06Shard,
	})
}

func c06Gen(tier string, r *rand.Rand) []Case {
	var cs []Case
	add := func(fam string, in c06In) { in.Salt = r.Uint64(); cs = append(cs, mkcase(fam, in)) }
	type nt struct{ n, t int }
	shapes := []nt{{2, 1}, {3, 1}, {3, 2}, {5, 2}, {6, 3}, {10, 4}}
	if tier == "thorough" {
		shapes = append(shapes, nt{7, 3}, nt{20, 10}, nt{40, 20}, nt{254, 1}, nt{254, 40}, nt{64, 63})
	}
	for si, s := range shapes {
		var subs [][]int
		// first t+1, last t+1, a random subset in random order, a superset (only first t+1 are used)
		first := make([]int, s.t+1)
		last := make([]int, s.t+1)
		for i := range first {
			first[i] = i
			last[i] = s.n - 1 - i
		}
		perm := r.Perm(s.n)
		subs = append(subs, first, last, perm[:s.t+1], perm)
		if s.n <= 6 && tier == "thorough" || s.n <= 3 {
			// all subsets of size t+1
			var rec func(start int, cur []int)
			rec = func(start int, cur []int) {
				if len(cur) == s.t+1 {
					subs = append(subs, append([]int{}, cur...))
					return
				}
				for i := start; i < s.n; i++ {
					rec(i+1, append(cur, i))
				}
			}
			rec(0, nil)
		}
		in := c06In{Mode: "keygen", N: s.n, T: s.t, Seed: hx(rbytes(r, 32+r.IntN(33))), Subsets: subs}
		// "every (n, t, seed, message, tag)": empty and long messages, other tags, seeds of 32 bytes exactly and long ones
		switch si {
		case 1:
			in.HasMsg, in.Msg, in.Tag, in.Seed = true, "", "threshold-tag", hx(rbytes(r, 32))
		case 3:
			in.HasMsg, in.Msg, in.Tag, in.Seed = true, hx(rbytes(r, 300)), "", hx(rbytes(r, 300))
		case 4:
			in.HasMsg, in.Msg, in.Tag = true, hx(rbytes(r, 1)), "another tag"
		}
		add("keygen", in)
	}
	if tier != "thorough" {
		// the largest group: indices up to 254 in key generation and in both reconstructions
		first := make([]int, 10)
		last := make([]int, 10)
		for i := range first {
			first[i], last[i] = i, 253-i
		}
		perm := r.Perm(254)
		add("keygen-max-size", c06In{Mode: "keygen", N: 254, T: 9, Seed: hx(rbytes(r, 48)), Subsets: [][]int{first, last, perm[:10]}})
	}
	// isolated coefficients, sets straddling the limb batches
	rng := func(a, b int) []int {
		var o []int
		if a <= b {
			for i := a; i <= b; i++ {
				o = append(o, i)
			}
		} else {
			for i := a; i >= b; i-- {
				o = append(o, i)
			}
		}
		return o
	}
	sets := [][]int{rng(0, 8), {7, 8}, rng(246, 253), rng(253, 240), rng(0, 16), {253, 0, 100, 7, 8, 9, 200, 1, 2, 3}}
	if tier == "thorough" {
		sets = append(sets, rng(0, 40), rng(253, 180), rng(100, 163))
	}
	for _, set := range sets {
		ks := []int{0, len(set) - 1, len(set) / 2}
		if tier == "thorough" {
			ks = rng(0, len(set)-1)
		}
		for _, k := range ks {
			sg := new(big.Int).Mod(new(big.Int).SetBytes(rbytes(r, 40)), new(big.Int).Sub(blsR, big.NewInt(1)))
			add("lambda", c06In{Mode: "lambda", Idx: set, K: k, Sigma: hx(fixed(sg.Add(sg, big.NewInt(1)), 32))})
		}
	}
	// algebraic coincidences among the shares: all equal (a constant polynomial), two equal, a pair P / -P,
	// and a set whose interpolation at 0 is the point at infinity
	rsc := func() *big.Int {
		v := new(big.Int).Mod(new(big.Int).SetBytes(rbytes(r, 40)), new(big.Int).Sub(blsR, big.NewInt(1)))
		return v.Add(v, big.NewInt(1))
	}
	for _, set := range [][]int{{0, 1, 2}, rng(3, 11), {253, 7, 8}} {
		m := len(set)
		mk := func(f func(j int, prev []*big.Int) *big.Int) []string {
			var vals []*big.Int
			var out []string
			for j := 0; j < m; j++ {
				v := f(j, vals)
				vals = append(vals, v)
				out = append(out, hx(fixed(v, 32)))
			}
			return out
		}
		c := rsc()
		add("lambda-coincidence", c06In{Mode: "lambda", Idx: set, Sigmas: mk(func(int, []*big.Int) *big.Int { return c })})
		add("lambda-coincidence", c06In{Mode: "lambda", Idx: set, Sigmas: mk(func(j int, prev []*big.Int) *big.Int {
			if j == m-1 {
				return prev[0]
			}
			return rsc()
		})})
		add("lambda-coincidence", c06In{Mode: "lambda", Idx: set, Sigmas: mk(func(j int, prev []*big.Int) *big.Int {
			if j == 1 {
				return new(big.Int).Sub(blsR, prev[0])
			}
			return rsc()
		})})
		// sum_j lambda_j sigma_j = 0: the last sigma is solved for
		lam := c06Lagrange(set)
		add("lambda-coincidence", c06In{Mode: "lambda", Idx: set, Sigmas: mk(func(j int, prev []*big.Int) *big.Int {
			if j < m-1 {
				return rsc()
			}
			acc := new(big.Int)
			for k, v := range prev {
				acc.Add(acc, new(big.Int).Mul(lam[k], v))
			}
			acc.Neg(acc)
			acc.Mul(acc, new(big.Int).ModInverse(lam[m-1], blsR))
			return acc.Mod(acc, blsR)
		})})
	}
	// every kind of invalid share at every position of the list (first, inside, last of the t+1 that are
	// read, and past them), through the stateless and the stateful API
	for _, kind := range []string{"wrong-signer", "wrong-message", "random-g1", "non-g1", "malformed-header", "malformed-x", "identity"} {
		npos := []int{0, 2, 3}
		if tier == "thorough" {
			npos = []int{0, 1, 2, 3, 4}
		}
		for _, pos := range npos {
			add("bad-share-"+kind, c06In{Mode: "badshare", N: 6, T: 2, Seed: hx(rbytes(r, 32)), Bad: kind, Pos: pos})
		}
	}
	// constructors and key generation: documented errors, also for sizes / thresholds / indices that are
	// valid only modulo 256, and keys of another algorithm at every position
	add("constructor-errors", c06In{Mode: "ctor", N: 5, T: 2, Seed: hx(rbytes(r, 32))})
	// documented errors of the stateless API
	add("error", c06In{Mode: "error", N: 1, T: 1, Lens: []int{48, 48}, Signers: []int{0, 1}})
	add("error", c06In{Mode: "error", N: 255, T: 1, Lens: []int{48, 48}, Signers: []int{0, 1}})
	add("error", c06In{Mode: "error", N: 3, T: 3, Lens: []int{48, 48}, Signers: []int{0, 1}})
	add("error", c06In{Mode: "error", N: 3, T: 0, Lens: []int{48, 48}, Signers: []int{0, 1}})
	add("error", c06In{Mode: "error", N: 4, T: 2, Lens: []int{48, 48, 48}, Signers: []int{0, 1}})
	add("error", c06In{Mode: "error", N: 4, T: 2, Lens: []int{48, 48}, Signers: []int{0, 1}})
	add("error", c06In{Mode: "error", N: 4, T: 1, Lens: []int{48, 48}, Signers: []int{1, 1}})
	add("error", c06In{Mode: "error", N: 4, T: 1, Lens: []int{48, 48}, Signers: []int{0, 4}})
	add("error", c06In{Mode: "error", N: 4, T: 1, Lens: []int{48, 48}, Signers: []int{-1, 2}})
	add("error", c06In{Mode: "error", N: 4, T: 1, Lens: []int{48, 47}, Signers: []int{0, 2}})
	// wrong lengths that cancel over the flattened list, and a wrong length exactly at position t / t+1
	for _, ls := range [][]int{{47, 49}, {49, 47}, {0, 96}, {96, 0}, {48, 49}, {48, 96}, {48, 0, 48}, {48, 48, 47}, {48, 47, 49}} {
		sg := []int{0, 2, 3}[:len(ls)]
		add("error-cancelling-lengths", c06In{Mode: "error", N: 4, T: 1, Lens: ls, Signers: sg})
	}
	add("error-cancelling-lengths", c06In{Mode: "error", N: 5, T: 2, Lens: []int{48, 48, 49}, Signers: []int{0, 2, 3}})
	add("error-cancelling-lengths", c06In{Mode: "error", N: 5, T: 2, Lens: []int{48, 48, 0, 48}, Signers: []int{0, 2, 3, 4}})
	add("error-cancelling-lengths", c06In{Mode: "error", N: 5, T: 2, Lens: []int{48, 48, 48, 49}, Signers: []int{0, 2, 3, 4}})
	// indices that are out of range as integers but whose low byte is a valid index (the library
	// narrows indices to a byte internally); the same list is first offered to the stateful API
	for _, big := range []int{256, 257, 259, 512 + 1, 65536 + 2, -256, -255, -254, 1 << 40, -(1 << 40) + 1} {
		add("error-wide-index", c06In{Mode: "error", N: 4, T: 1, Lens: []int{48, 48}, Signers: []int{big, 2}})
		add("error-wide-index", c06In{Mode: "error", N: 4, T: 1, Lens: []int{48, 48}, Signers: []int{0, big}})
	}
	// several defects in one call (which check wins is part of the contract), empty lists, defects past
	// the first t+1 entries, sizes and thresholds valid only modulo 256, the extreme valid configuration
	l48 := func(n int) []int {
		o := make([]int, n)
		for i := range o {
			o[i] = 48
		}
		return o
	}
	add("error-mixed", c06In{Mode: "error", N: 4, T: 1, Lens: []int{}, Signers: []int{}})
	add("error-mixed", c06In{Mode: "error", N: 4, T: 2, Lens: []int{48}, Signers: []int{0, 1}})
	add("error-mixed", c06In{Mode: "error", N: 4, T: 1, Lens: []int{48, 47}, Signers: []int{1, 1}})
	add("error-mixed", c06In{Mode: "error", N: 4, T: 1, Lens: []int{47, 48}, Signers: []int{1, 1}})
	add("error-mixed", c06In{Mode: "error", N: 4, T: 1, Lens: []int{48, 47}, Signers: []int{9, 1}})
	add("error-mixed", c06In{Mode: "error", N: 4, T: 1, Lens: []int{47, 48}, Signers: []int{1, 9}})
	add("error-mixed", c06In{Mode: "error", N: 4, T: 1, Lens: l48(3), Signers: []int{0, 1, 7}})
	add("error-mixed", c06In{Mode: "error", N: 4, T: 1, Lens: l48(3), Signers: []int{0, 1, -1}})
	add("error-mixed", c06In{Mode: "error", N: 4, T: 1, Lens: []int{48, 48, 5, 48}, Signers: []int{0, 1, 2, 2}})
	add("error-mixed", c06In{Mode: "error", N: 4, T: 1, Lens: []int{48, 48, 5, 48}, Signers: []int{0, 1, 2, 3}})
	add("error-mixed", c06In{Mode: "error", N: 4, T: 1, Lens: l48(5), Signers: []int{0, 1, 2, 3, 0}})
	add("error-mixed", c06In{Mode: "error", N: 1, T: 0, Lens: []int{47}, Signers: []int{5, 5}})
	add("error-mixed", c06In{Mode: "error", N: 4, T: 4, Lens: []int{48}, Signers: []int{0, 0}})
	for _, nt := range [][2]int{{260, 1}, {256 + 4, 257}, {4, 257}, {4, 256}, {-252, 1}, {4, -255}, {258, 2}, {65540, 1}, {0, 0}} {
		add("error-wide-size", c06In{Mode: "error", N: nt[0], T: nt[1], Lens: l48(3), Signers: []int{0, 1, 2}})
	}
	add("error", c06In{Mode: "error", N: 2, T: 1, Lens: l48(2), Signers: []int{1, 0}})
	add("error", c06In{Mode: "error", N: 254, T: 1, Lens: l48(2), Signers: []int{253, 0}})
	add("error", c06In{Mode: "error", N: 254, T: 1, Lens: l48(2), Signers: []int{254, 0}})
	add("error", c06In{Mode: "error", N: 254, T: 253, Lens: l48(253), Signers: rng(0, 252)})
	add("error", c06In{Mode: "error", N: 254, T: 253, Lens: l48(254), Signers: rng(253, 0)})
	add("error", c06In{Mode: "error", N: 254, T: 253, Lens: l48(254), Signers: append(rng(0, 252), 0)})
	add("error", c06In{Mode: "error", N: 4, T: 1, Lens: []int{0, 48}, Signers: []int{0, 2}})
	add("error", c06In{Mode: "error", N: 4, T: 1, Lens: []int{48, 48, 5}, Signers: []int{0, 2, 3}})
	add("error", c06In{Mode: "error", N: 4, T: 1, Lens: []int{48, 48, 48}, Signers: []int{0, 2, 2}})
	// the expensive cases (key generation, large signer sets) are contiguous in generation order: deal the
	// cases round-robin over the shards so that every Coq file gets its share of them
	nsh := (len(cs) + c06Shard - 1) / c06Shard
	buckets := make([][]Case, nsh)
	for i, c := range cs {
		buckets[i%nsh] = append(buckets[i%nsh], c)
	}
	var out []Case
	for _, b := range buckets {
		out = append(out, b...)
	}
	return out
}

const c06Shard = 8

// Lagrange coefficients at 0 for the 0-based signer indices (evaluation points idx+1), over F_r
func c06Lagrange(idx []int) []*big.Int {
	out := make([]*big.Int, len(idx))
	for j := range idx {
		num, den := big.NewInt(1), big.NewInt(1)
		xj := big.NewInt(int64(idx[j] + 1))
		for m := range idx {
			if m == j {
				continue
			}
			xm := big.NewInt(int64(idx[m] + 1))
			num.Mod(num.Mul(num, xm), blsR)
			den.Mod(den.Mul(den, new(big.Int).Sub(xm, xj)), blsR)
		}
		out[j] = num.Mod(num.Mul(num, new(big.Int).ModInverse(den, blsR)), blsR)
	}
	return out
}

func thrErrClass(err error) string {
	switch {
	case err == nil:
		return "ok"
	case crypto.IsInvalidInputsError(err):
		return "err-invalid-input"
	case crypto.IsNotEnoughSharesError(err):
		return "err-not-enough-shares"
	case crypto.IsDuplicatedSignerError(err):
		return "err-duplicated-signer"
	case crypto.IsInvalidSignatureError(err):
		return "err-invalid-signature"
	}
	return "err-other"
}

func c06Run(c Case) (Result, error) {
	var in c06In
	if err := json.Unmarshal(c.Input, &in); err != nil {
		return Result{}, err
	}
	rr := rand.New(rand.NewPCG(in.Salt, 0x06))
	tag := "threshold-tag"
	msg := []byte("c06 message")
	if in.HasMsg {
		tag, msg = in.Tag, unhx(in.Msg)
	}
	hs := crypto.NewExpandMsgXOFKMAC128(tag)
	one, _ := crypto.DecodePrivateKey(crypto.BLSBLS12381, fixed(big.NewInt(1), 32))
	hEnc, _ := one.Sign(msg, hs)
	zl := func(v []int) string {
		var s []string
		for _, x := range v {
			s = append(s, fmt.Sprintf("(%d)%%Z", x))
		}
		return cqlist(s)
	}
	switch in.Mode {
	case "keygen":
		sks, pks, gpk, err := crypto.BLSThresholdKeyGen(in.N, in.T, unhx(in.Seed))
		if err != nil {
			return Result{}, implViolation("BLSThresholdKeyGen(%d, %d, %d-byte seed) refused valid parameters: %v", in.N, in.T, len(unhx(in.Seed)), err)
		}
		consistent := true
		var why []string
		fail := func(s string) { consistent = false; why = append(why, s) }
		var priv []string
		var shares []crypto.Signature
		for i, sk := range sks {
			priv = append(priv, cqs(hx(sk.Encode())))
			if !sk.PublicKey().Equals(pks[i]) {
				fail("private share does not match its public share")
			}
			s, _ := sk.Sign(msg, hs)
			shares = append(shares, s)
		}
		var recons []string
		for _, sub := range in.Subsets {
			var sh []crypto.Signature
			for _, i := range sub {
				sh = append(sh, shares[i])
			}
			shCopy := make([][]byte, len(sh))
			for k := range sh {
				shCopy[k] = append([]byte{}, sh[k]...)
			}
			subCopy := append([]int{}, sub...)
			out, err := crypto.BLSReconstructThresholdSignature(in.N, in.T, sh, sub)
			if err != nil {
				return Result{}, implViolation("reconstruction failed: %v", err)
			}
			for k := range sh {
				if !bytes.Equal(sh[k], shCopy[k]) || sub[k] != subCopy[k] {
					return Result{}, implViolation("BLSReconstructThresholdSignature modified its arguments (entry %d)", k)
				}
			}
			if ok, _ := gpk.Verify(out, msg, hs); !ok {
				fail("reconstructed signature does not verify under the group key")
			}
			// stateful API on the same subset
			ts, err := crypto.NewBLSThresholdSignatureInspector(gpk, pks, in.T, msg, tag)
			if err != nil {
				return Result{}, implViolation("NewBLSThresholdSignatureInspector refused a valid group of %d with threshold %d: %v", in.N, in.T, err)
			}
			for k, i := range sub {
				if k > in.T {
					break
				}
				var e error
				if rr.IntN(2) == 0 {
					_, _, e = ts.VerifyAndAdd(i, shares[i])
				} else {
					_, e = ts.TrustedAdd(i, shares[i])
				}
				if e != nil {
					return Result{}, e
				}
			}
			out2, err := ts.ThresholdSignature()
			if err != nil || !bytes.Equal(out2, out) {
				fail("stateful reconstruction differs from the stateless one")
			}
			recons = append(recons, fmt.Sprintf("(%s, %s)", zl(sub), cqs(hx(out))))
		}
		// the participant object: its own share is the signer's signature, the reconstruction through it is
		// the same 48 bytes; constructor errors
		if why2 := c06Participant(in, rr, sks, pks, gpk, shares, msg, tag, hs); why2 != "" {
			return Result{}, implViolation("%s", why2)
		}
		// public shares are usable: VerifyShare(i, share_j) holds exactly for i = j
		if in.N <= 10 {
			insp, _ := crypto.NewBLSThresholdSignatureInspector(gpk, pks, in.T, msg, tag)
			for i := 0; i < in.N; i++ {
				for j := 0; j < in.N; j++ {
					if v, err := insp.VerifyShare(i, shares[j]); err != nil || v != (i == j) {
						return Result{}, implViolation("VerifyShare(%d, share of signer %d) = (%v, %v)", i, j, v, err)
					}
				}
			}
			// duplicates through either add
			_, _, _ = insp.VerifyAndAdd(0, shares[0])
			if _, err := insp.TrustedAdd(0, shares[0]); !crypto.IsDuplicatedSignerError(err) {
				return Result{}, implViolation("TrustedAdd of a signer already added returned %v", err)
			}
			if _, _, err := insp.VerifyAndAdd(0, shares[0]); !crypto.IsDuplicatedSignerError(err) {
				return Result{}, implViolation("VerifyAndAdd of a signer already added returned %v", err)
			}
			// ... whatever the duplicate carries: another signer's share, a malformed one, a wrong length
			malDup := append([]byte{}, shares[0]...)
			malDup[0] &= 0x7F
			for _, bad := range [][]byte{shares[1%in.N], malDup, shares[0][:47], nil} {
				if v, en, err := insp.VerifyAndAdd(0, bad); !crypto.IsDuplicatedSignerError(err) || v || en {
					return Result{}, implViolation("VerifyAndAdd of a signer already added, with a share that does not verify (%d bytes), returned (%v, %v, %v)", len(bad), v, en, err)
				}
				if _, err := insp.TrustedAdd(0, bad); !crypto.IsDuplicatedSignerError(err) {
					return Result{}, implViolation("TrustedAdd of a signer already added, with another share (%d bytes), returned %v", len(bad), err)
				}
			}
		}
		// stateful object: an invalid share added with TrustedAdd must produce an error, never a bad signature
		ts, _ := crypto.NewBLSThresholdSignatureInspector(gpk, pks, in.T, msg, tag)
		badShare, _ := sks[0].Sign([]byte("other message"), hs)
		for i := 0; i <= in.T; i++ {
			s := shares[i]
			if i == 0 {
				s = badShare
			}
			_, _ = ts.TrustedAdd(i, s)
		}
		// ... on the first call and on every later call (a failed reconstruction must not be cached)
		for call := 0; call < 3; call++ {
			if out, err := ts.ThresholdSignature(); err == nil {
				if ok, _ := gpk.Verify(out, msg, hs); !ok {
					fail(fmt.Sprintf("stateful object returned a signature that fails verification (call %d)", call+1))
				} else {
					fail("invalid share went unnoticed")
				}
			} else if !crypto.IsInvalidInputsError(err) {
				fail(fmt.Sprintf("invalid well-formed share: unexpected error class on call %d: %v", call+1, err))
			}
		}
		// same with a malformed (but correctly sized) share: errInvalidSignature every time
		ts3, _ := crypto.NewBLSThresholdSignatureInspector(gpk, pks, in.T, msg, tag)
		mal := append([]byte{}, shares[0]...)
		mal[0] &= 0x7F
		for i := 0; i <= in.T; i++ {
			s := shares[i]
			if i == 0 {
				s = mal
			}
			_, _ = ts3.TrustedAdd(i, s)
		}
		for call := 0; call < 2; call++ {
			if _, err := ts3.ThresholdSignature(); !crypto.IsInvalidSignatureError(err) {
				fail(fmt.Sprintf("malformed share: expected errInvalidSignature on call %d, got %v", call+1, err))
			}
		}
		// a successful reconstruction is stable across calls
		ts4, _ := crypto.NewBLSThresholdSignatureInspector(gpk, pks, in.T, msg, tag)
		for i := 0; i <= in.T; i++ {
			_, _ = ts4.TrustedAdd(i, shares[i])
		}
		// a signer already in a FULL pool is still reported as a duplicate by either add (first, last-added),
		// before and after the reconstruction; a further signer is accepted and changes nothing
		dupFull := func(when string) {
			for _, d := range []int{0, in.T} {
				if _, err := ts4.TrustedAdd(d, shares[d]); !crypto.IsDuplicatedSignerError(err) {
					fail(fmt.Sprintf("TrustedAdd of signer %d, already in the full pool (%s): %v", d, when, err))
				}
				if _, _, err := ts4.VerifyAndAdd(d, shares[d]); !crypto.IsDuplicatedSignerError(err) {
					fail(fmt.Sprintf("VerifyAndAdd of signer %d, already in the full pool (%s): %v", d, when, err))
				}
			}
			if in.T+1 < in.N {
				if en, err := ts4.TrustedAdd(in.T+1, shares[in.T+1]); err != nil || !en {
					fail(fmt.Sprintf("TrustedAdd of a further signer to a full pool (%s) = (%v, %v)", when, en, err))
				}
				if has, err := ts4.HasShare(in.T + 1); err != nil || has {
					fail(fmt.Sprintf("a share added to a full pool (%s) was retained: HasShare = (%v, %v)", when, has, err))
				}
			}
		}
		dupFull("before the reconstruction")
		o1, e1 := ts4.ThresholdSignature()
		dupFull("after the reconstruction")
		o2, e2 := ts4.ThresholdSignature()
		if e1 != nil || e2 != nil || !bytes.Equal(o1, o2) {
			fail("successful threshold signature not stable across calls")
		}
		// fewer than t+1 shares
		ts2, _ := crypto.NewBLSThresholdSignatureInspector(gpk, pks, in.T, msg, tag)
		for i := 0; i < in.T; i++ {
			_, _ = ts2.TrustedAdd(i, shares[i])
		}
		if _, err := ts2.ThresholdSignature(); !crypto.IsNotEnoughSharesError(err) {
			fail("fewer than t+1 shares must give a not-enough-shares error")
		}
		term := fmt.Sprintf("KeygenCase %d %d %s %s %s %s %s %s %s", in.N, in.T, cqs(in.Seed), cqs(hx(hEnc)), cqlist(priv),
			cqs(hx(gpk.Encode())), cqs(hx(pks[0].Encode())), cqlist(recons), cqbool(consistent))
		return Result{Coq: term, Key: string(c.Input), Nontrivial: true, Obs: map[string]any{"group_pk": hx(gpk.Encode()), "inconsistencies": why, "n_recons": len(recons)}}, nil
	case "lambda":
		// every share is [sigma_j]H for a known random sigma_j (identity shares are avoided: the
		// multi-scalar multiplication of the C layer is not meaningful on the point at infinity)
		var shares []crypto.Signature
		var idx1 []int
		var sig []string
		for j, i := range in.Idx {
			sg := new(big.Int).Mod(new(big.Int).SetBytes(rbytes(rr, 40)), new(big.Int).Sub(blsR, big.NewInt(1)))
			sg.Add(sg, big.NewInt(1))
			if j == in.K && in.Sigmas == nil {
				sg.SetBytes(unhx(in.Sigma))
			}
			if in.Sigmas != nil {
				sg.SetBytes(unhx(in.Sigmas[j]))
			}
			sk, err := crypto.DecodePrivateKey(crypto.BLSBLS12381, fixed(sg, 32))
			if err != nil {
				return Result{}, err
			}
			sh, _ := sk.Sign(msg, hs)
			shares = append(shares, sh)
			idx1 = append(idx1, i+1)
			sig = append(sig, cqs(hx(fixed(sg, 32))))
		}
		out, err := crypto.BLSReconstructThresholdSignature(254, len(in.Idx)-1, shares, in.Idx)
		if err != nil {
			return Result{}, implViolation("BLSReconstructThresholdSignature(254, %d, ...) refused valid shares of signers %v: %v", len(in.Idx)-1, in.Idx, err)
		}
		term := fmt.Sprintf("LambdaCase %s %s %s %s", cqs(hx(hEnc)), zl(idx1), cqlist(sig), cqs(hx(out)))
		return Result{Coq: term, Key: string(c.Input), Nontrivial: true, Obs: map[string]any{"out": hx(out)}}, nil
	case "error":
		sk, _ := crypto.GeneratePrivateKey(crypto.BLSBLS12381, rbytes(rr, 32))
		full, _ := sk.Sign(msg, hs)
		// the stateful API must refuse every out-of-range signer index with the invalid-input error
		if in.N >= 2 && in.T >= 1 && in.T < in.N && in.N <= 254 {
			if _, pkShares, gpk, err := crypto.BLSThresholdKeyGen(in.N, in.T, rbytes(rr, 32)); err == nil {
				if insp, err := crypto.NewBLSThresholdSignatureInspector(gpk, pkShares, in.T, msg, "c06-err"); err == nil {
					for _, idx := range in.Signers {
						if idx >= 0 && idx < in.N {
							continue
						}
						var e1, e2, e3, e4 error
						if p, m := catch(func() {
							_, e1 = insp.HasShare(idx)
							_, e2 = insp.VerifyShare(idx, full)
							_, e3 = insp.TrustedAdd(idx, full)
							_, _, e4 = insp.VerifyAndAdd(idx, full)
						}); p {
							return Result{}, implViolation("stateful threshold API panics on signer index %d: %s", idx, strings.Split(m, "\n")[0])
						}
						for k, e := range []error{e1, e2, e3, e4} {
							if !crypto.IsInvalidInputsError(e) {
								return Result{}, implViolation("%s(%d) on a group of %d returned %v, documented: invalid-input error", []string{"HasShare", "VerifyShare", "TrustedAdd", "VerifyAndAdd"}[k], idx, in.N, e)
							}
						}
					}
				}
			}
		}
		var shares []crypto.Signature
		var lens []string
		for _, l := range in.Lens {
			b := make([]byte, l)
			copy(b, full)
			shares = append(shares, b)
			lens = append(lens, fmt.Sprintf("%d%%nat", l))
		}
		var cls string
		if p, m := catch(func() {
			_, err := crypto.BLSReconstructThresholdSignature(in.N, in.T, shares, in.Signers)
			cls = thrErrClass(err)
		}); p {
			cls = "panic:" + strings.Split(m, "\n")[0]
		}
		term := fmt.Sprintf("ErrorCase (%d)%%Z (%d)%%Z %s %s %s", in.N, in.T, cqlist(lens), zl(in.Signers), cqs(cls))
		return Result{Coq: term, Key: string(c.Input), Nontrivial: true, Obs: map[string]any{"class": cls}}, nil
	case "badshare":
		return c06BadShare(c, in, rr, msg, tag, hs)
	case "ctor":
		return c06Ctor(c, in, rr, msg, tag, hs)
	}
	return Result{}, fmt.Errorf("unknown mode")
}

// ---------------------------------------------------------------------------------------------
// the participant object of the stateful API
func c06Participant(in c06In, rr *rand.Rand, sks []crypto.PrivateKey, pks []crypto.PublicKey, gpk crypto.PublicKey,
	shares []crypto.Signature, msg []byte, tag string, hs hash.Hasher) (complaint string) {
	if p, m := catch(func() {
		my := rr.IntN(in.N)
		part, err := crypto.NewBLSThresholdSignatureParticipant(gpk, pks, in.T, my, sks[my], msg, tag)
		if err != nil {
			complaint = fmt.Sprintf("NewBLSThresholdSignatureParticipant(index %d) failed: %v", my, err)
			return
		}
		own, err := part.SignShare()
		if err != nil || !bytes.Equal(own, shares[my]) {
			complaint = fmt.Sprintf("SignShare of participant %d returned (%x, %v), the signer's signature is %x", my, []byte(own), err, []byte(shares[my]))
			return
		}
		if v, err := part.VerifyShare(my, own); err != nil || !v {
			complaint = fmt.Sprintf("the participant's own share does not verify: (%v, %v)", v, err)
			return
		}
		// own share first, then others in descending order
		order := []int{my}
		for i := in.N - 1; i >= 0 && len(order) <= in.T; i-- {
			if i != my {
				order = append(order, i)
			}
		}
		var used []crypto.Signature
		for k, i := range order {
			s := shares[i]
			if i == my {
				s = own
			}
			used = append(used, s)
			var e error
			if k%2 == 0 {
				_, _, e = part.VerifyAndAdd(i, s)
			} else {
				_, e = part.TrustedAdd(i, s)
			}
			if e != nil {
				complaint = fmt.Sprintf("participant: adding the share of signer %d failed: %v", i, e)
				return
			}
		}
		out, err := part.ThresholdSignature()
		if err != nil {
			complaint = fmt.Sprintf("participant: ThresholdSignature failed: %v", err)
			return
		}
		ref, err := crypto.BLSReconstructThresholdSignature(in.N, in.T, used, order)
		if err != nil || !bytes.Equal(ref, out) {
			complaint = fmt.Sprintf("participant: threshold signature %x differs from the stateless reconstruction %x (%v)", []byte(out), []byte(ref), err)
			return
		}
		if v, err := gpk.Verify(out, msg, hs); err != nil || !v {
			complaint = "participant: threshold signature does not verify under the group key"
			return
		}
		if v, err := part.VerifyThresholdSignature(out); err != nil || !v {
			complaint = "participant: VerifyThresholdSignature rejects the object's own threshold signature"
			return
		}
		// constructor errors
		for _, bad := range []int{-1, in.N, in.N + 256, my + 256, my - 256, my + 65536} {
			if _, err := crypto.NewBLSThresholdSignatureParticipant(gpk, pks, in.T, bad, sks[my], msg, tag); !crypto.IsInvalidInputsError(err) {
				complaint = fmt.Sprintf("NewBLSThresholdSignatureParticipant with index %d (group of %d) returned %v, documented: invalid-input error", bad, in.N, err)
				return
			}
		}
		if _, err := crypto.NewBLSThresholdSignatureParticipant(gpk, pks, in.T, my, sks[(my+1)%in.N], msg, tag); !crypto.IsInvalidInputsError(err) {
			complaint = fmt.Sprintf("NewBLSThresholdSignatureParticipant with another participant's private key returned %v", err)
			return
		}
		ec, _ := crypto.GeneratePrivateKey(crypto.ECDSAP256, bytes.Repeat([]byte{7}, 32))
		if _, err := crypto.NewBLSThresholdSignatureParticipant(gpk, pks, in.T, my, ec, msg, tag); !crypto.IsNotBLSKeyError(err) {
			complaint = fmt.Sprintf("NewBLSThresholdSignatureParticipant with an ECDSA private key returned %v", err)
			return
		}
	}); p {
		return "participant object: panic: " + strings.Split(m, "\n")[0]
	}
	return complaint
}

// one invalid share of a given kind at a given position of a list of 5 (t = 2: three are read)
func c06BadShare(c Case, in c06In, rr *rand.Rand, msg []byte, tag string, hs hash.Hasher) (Result, error) {
	sks, pks, gpk, err := crypto.BLSThresholdKeyGen(in.N, in.T, unhx(in.Seed))
	if err != nil {
		return Result{}, implViolation("BLSThresholdKeyGen(%d, %d) refused valid parameters: %v", in.N, in.T, err)
	}
	const m = 5
	var shares []crypto.Signature
	for i := 0; i < in.N; i++ {
		s, _ := sks[i].Sign(msg, hs)
		shares = append(shares, s)
	}
	signers := []int{0, 1, 2, 3, 4}
	var bad []byte
	wellFormed := true
	switch in.Bad {
	case "wrong-signer":
		bad = shares[5]
	case "wrong-message":
		bad, _ = sks[in.Pos].Sign(append([]byte("x"), msg...), hs)
	case "random-g1":
		k, _ := crypto.GeneratePrivateKey(crypto.BLSBLS12381, rbytes(rr, 32))
		bad, _ = k.Sign(msg, hs)
	case "non-g1":
		for {
			b := rbytes(rr, 48)
			b[0] = (b[0] & 0x1F) | 0x80
			if _, err := crypto.AggregateBLSSignatures([]crypto.Signature{b}); err == nil {
				bad = b
				break
			}
		}
	case "identity":
		bad = make([]byte, 48)
		bad[0] = 0xC0
	case "malformed-header":
		bad = append([]byte{}, shares[in.Pos]...)
		bad[0] &= 0x7F
		wellFormed = false
	case "malformed-x":
		bad = bytes.Repeat([]byte{0xff}, 48)
		bad[0] = 0x9f
		wellFormed = false
	default:
		return Result{}, fmt.Errorf("unknown bad-share kind %q", in.Bad)
	}
	clean, err := crypto.BLSReconstructThresholdSignature(in.N, in.T, shares[:m], signers)
	cls := thrErrClass(err)
	if err != nil {
		return Result{}, implViolation("reconstruction from valid shares failed: %v", err)
	}
	if v, _ := gpk.Verify(clean, msg, hs); !v {
		return Result{}, implViolation("reconstruction from valid shares does not verify")
	}
	complaint := ""
	if p, pm := catch(func() {
		list := make([]crypto.Signature, m)
		for i := range list {
			list[i] = append([]byte{}, shares[i]...)
		}
		list[in.Pos] = append([]byte{}, bad...)
		out, err := crypto.BLSReconstructThresholdSignature(in.N, in.T, list, signers)
		switch {
		case in.Pos > in.T:
			if err != nil || !bytes.Equal(out, clean) {
				complaint = fmt.Sprintf("an invalid share past the first t+1 entries changed the result: (%x, %v)", []byte(out), err)
			}
		case !wellFormed:
			if !crypto.IsInvalidSignatureError(err) {
				complaint = fmt.Sprintf("stateless reconstruction with a malformed share returned (%x, %v), documented: errInvalidSignature", []byte(out), err)
			}
		default:
			if err != nil {
				complaint = fmt.Sprintf("stateless reconstruction with a well-formed wrong share returned %v", err)
			} else if v, verr := gpk.Verify(out, msg, hs); v || verr != nil {
				complaint = fmt.Sprintf("stateless reconstruction with a wrong share gives a signature that verifies (%v, %v)", v, verr)
			}
		}
		if complaint != "" || in.Pos > in.T {
			return
		}
		// stateful, verified adds: the invalid share is refused and not retained, the object still reaches
		// the group signature
		i1, _ := crypto.NewBLSThresholdSignatureInspector(gpk, pks, in.T, msg, tag)
		for i := 0; i <= in.T; i++ {
			if i == in.Pos {
				v, _, err := i1.VerifyAndAdd(i, append([]byte{}, bad...))
				if v || err != nil {
					complaint = fmt.Sprintf("VerifyAndAdd of an invalid share returned (%v, %v)", v, err)
					return
				}
				if has, _ := i1.HasShare(i); has {
					complaint = "VerifyAndAdd retained an invalid share"
					return
				}
				if v, err := i1.VerifyShare(i, append([]byte{}, bad...)); v || err != nil {
					complaint = fmt.Sprintf("VerifyShare of an invalid share returned (%v, %v)", v, err)
					return
				}
			}
			if v, _, err := i1.VerifyAndAdd(i, shares[i]); !v || err != nil {
				complaint = fmt.Sprintf("VerifyAndAdd of the valid share after the refused one returned (%v, %v)", v, err)
				return
			}
		}
		if out, err := i1.ThresholdSignature(); err != nil || !bytes.Equal(out, clean) {
			complaint = fmt.Sprintf("after refusing an invalid share the object returns (%x, %v), expected the group signature", []byte(out), err)
			return
		}
		// stateful, unverified adds: an error of the documented class on every call, never a signature
		i2, _ := crypto.NewBLSThresholdSignatureInspector(gpk, pks, in.T, msg, tag)
		for _, i := range []int{2, 0, 1} {
			s := shares[i]
			if i == in.Pos {
				s = append([]byte{}, bad...)
			}
			if _, err := i2.TrustedAdd(i, s); err != nil {
				complaint = fmt.Sprintf("TrustedAdd returned %v", err)
				return
			}
		}
		for call := 1; call <= 3; call++ {
			out, err := i2.ThresholdSignature()
			switch {
			case err == nil:
				v, _ := gpk.Verify(out, msg, hs)
				complaint = fmt.Sprintf("call %d: ThresholdSignature returned %x (verifies: %v) from a pool with an invalid share", call, []byte(out), v)
			case !wellFormed && !crypto.IsInvalidSignatureError(err):
				complaint = fmt.Sprintf("call %d: malformed share in the pool: %v, documented: errInvalidSignature", call, err)
			case wellFormed && !crypto.IsInvalidInputsError(err):
				complaint = fmt.Sprintf("call %d: wrong share in the pool: %v, documented: invalid-input error", call, err)
			}
			if complaint != "" {
				return
			}
		}
	}); p {
		return Result{}, implViolation("invalid share (%s at position %d): panic: %s", in.Bad, in.Pos, strings.Split(pm, "\n")[0])
	}
	if complaint != "" {
		return Result{}, implViolation("%s [kind %s, position %d, share %x]", complaint, in.Bad, in.Pos, bad)
	}
	term := fmt.Sprintf("ErrorCase (%d)%%Z (%d)%%Z [48%%nat; 48%%nat; 48%%nat; 48%%nat; 48%%nat] [0%%Z; 1%%Z; 2%%Z; 3%%Z; 4%%Z] %s", in.N, in.T, cqs(cls))
	return Result{Coq: term, Key: string(c.Input), Nontrivial: true, Obs: map[string]any{"bad": in.Bad, "pos": in.Pos, "share": hx(bad)}}, nil
}

// constructors, key generation and the stateless EnoughShares: documented errors
func c06Ctor(c Case, in c06In, rr *rand.Rand, msg []byte, tag string, hs hash.Hasher) (Result, error) {
	seed := unhx(in.Seed)
	complaint := ""
	if p, pm := catch(func() {
		for _, nt := range [][2]int{{0, 1}, {1, 1}, {1, 0}, {255, 1}, {256 + 5, 2}, {65536 + 5, 2}, {-5, 2}, {-251, 2}, {5, 0}, {5, 5}, {5, 6}, {5, -1}, {5, 256 + 2}, {5, -254}, {300, 256 + 2}} {
			a, b, g, err := crypto.BLSThresholdKeyGen(nt[0], nt[1], seed)
			if !crypto.IsInvalidInputsError(err) || a != nil || b != nil || g != nil {
				complaint = fmt.Sprintf("BLSThresholdKeyGen(%d, %d) returned error %v (keys nil: %v), documented: nil keys and an invalid-input error", nt[0], nt[1], err, a == nil && b == nil && g == nil)
				return
			}
		}
		for _, l := range []int{0, 1, 16, 31} {
			if _, _, _, err := crypto.BLSThresholdKeyGen(in.N, in.T, make([]byte, l)); !crypto.IsInvalidInputsError(err) {
				complaint = fmt.Sprintf("BLSThresholdKeyGen with a %d-byte seed returned %v", l, err)
				return
			}
		}
		if _, _, _, err := crypto.BLSThresholdKeyGen(in.N, in.T, nil); !crypto.IsInvalidInputsError(err) {
			complaint = fmt.Sprintf("BLSThresholdKeyGen with a nil seed returned %v", err)
			return
		}
		for _, nt := range [][2]int{{2, 1}, {254, 253}, {254, 1}} {
			a, b, g, err := crypto.BLSThresholdKeyGen(nt[0], nt[1], seed)
			if err != nil || len(a) != nt[0] || len(b) != nt[0] || g == nil {
				complaint = fmt.Sprintf("BLSThresholdKeyGen(%d, %d) failed: %v", nt[0], nt[1], err)
				return
			}
			for _, i := range []int{0, nt[0] - 1} {
				if !a[i].PublicKey().Equals(b[i]) {
					complaint = fmt.Sprintf("BLSThresholdKeyGen(%d, %d): private share %d does not match its public share", nt[0], nt[1], i)
					return
				}
			}
		}
		_, pks, gpk, err := crypto.BLSThresholdKeyGen(in.N, in.T, seed)
		if err != nil {
			complaint = "key generation failed: " + err.Error()
			return
		}
		rep := func(n int) []crypto.PublicKey {
			o := make([]crypto.PublicKey, n)
			for i := range o {
				o[i] = pks[i%len(pks)]
			}
			return o
		}
		for _, n := range []int{0, 1, 255, 256 + 5, 300} {
			if _, err := crypto.NewBLSThresholdSignatureInspector(gpk, rep(n), 1, msg, tag); !crypto.IsInvalidInputsError(err) && !(n <= 1) {
				complaint = fmt.Sprintf("NewBLSThresholdSignatureInspector with %d key shares returned %v", n, err)
				return
			} else if n <= 1 && !crypto.IsInvalidInputsError(err) {
				complaint = fmt.Sprintf("NewBLSThresholdSignatureInspector with %d key shares returned %v", n, err)
				return
			}
		}
		for _, t := range []int{0, -1, in.N, in.N + 1, 256 + 2, -254, 65536 + 1} {
			if _, err := crypto.NewBLSThresholdSignatureInspector(gpk, pks, t, msg, tag); !crypto.IsInvalidInputsError(err) {
				complaint = fmt.Sprintf("NewBLSThresholdSignatureInspector(threshold %d, %d shares) returned %v", t, in.N, err)
				return
			}
		}
		ec, _ := crypto.GeneratePrivateKey(crypto.ECDSASecp256k1, bytes.Repeat([]byte{9}, 32))
		for _, pos := range []int{0, in.N / 2, in.N - 1} {
			l := rep(in.N)
			l[pos] = ec.PublicKey()
			if _, err := crypto.NewBLSThresholdSignatureInspector(gpk, l, in.T, msg, tag); !crypto.IsNotBLSKeyError(err) {
				complaint = fmt.Sprintf("NewBLSThresholdSignatureInspector with an ECDSA key share at index %d returned %v", pos, err)
				return
			}
		}
		if _, err := crypto.NewBLSThresholdSignatureInspector(ec.PublicKey(), pks, in.T, msg, tag); !crypto.IsNotBLSKeyError(err) {
			complaint = fmt.Sprintf("NewBLSThresholdSignatureInspector with an ECDSA group key returned %v", err)
			return
		}
		// stateless EnoughShares
		for _, q := range []struct {
			t, k int
			want bool
			bad  bool
		}{{0, 5, false, true}, {-1, 5, false, true}, {-255, 5, false, true}, {2, 2, false, false}, {2, 3, true, false}, {1, 0, false, false}, {1, -5, false, false},
			{257, 2, false, false}, {257, 258, true, false}, {2, 256 + 1, true, false}, {300, 256 + 45, true, false}, {1, 2, true, false}} {
			got, err := crypto.EnoughShares(q.t, q.k)
			if q.bad && (!crypto.IsInvalidInputsError(err) || got) || !q.bad && (err != nil || got != q.want) {
				complaint = fmt.Sprintf("EnoughShares(%d, %d) = (%v, %v)", q.t, q.k, got, err)
				return
			}
		}
	}); p {
		return Result{}, implViolation("constructors: panic: %s", strings.Split(pm, "\n")[0])
	}
	if complaint != "" {
		return Result{}, implViolation("%s", complaint)
	}
	var cls string
	_, err := crypto.BLSReconstructThresholdSignature(in.N, in.T, nil, nil)
	cls = thrErrClass(err)
	term := fmt.Sprintf("ErrorCase (%d)%%Z (%d)%%Z [] [] %s", in.N, in.T, cqs(cls))
	return Result{Coq: term, Key: string(c.Input), Nontrivial: true, Obs: map[string]any{"class": cls}}, nil
}
