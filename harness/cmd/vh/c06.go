package main

import (
	"bytes"
	"encoding/json"
	"fmt"
	"math/big"
	"math/rand/v2"
	"strings"

	"github.com/onflow/crypto"
)

type c06In struct {
	Mode    string  `json:"mode"` // keygen | lambda | error
	N       int     `json:"n"`
	T       int     `json:"t"`
	Seed    string  `json:"seed"`
	Subsets [][]int `json:"subsets,omitempty"` // signer index lists (0-based), in order
	// lambda mode
	Idx   []int  `json:"idx,omitempty"` // 0-based signer indices
	K     int    `json:"k,omitempty"`
	Sigma string `json:"sigma,omitempty"`
	// error mode
	Lens    []int `json:"lens,omitempty"`
	Signers []int `json:"signers,omitempty"`
	Salt    uint64 `json:"salt"`
}

func init() {
	register(&Prop{
		ID:        "C06",
		Header:    "From Coq Require Import ZArith NArith List String.\nFrom V Require Import Lib.Hex Corr.C06Corr.\nImport ListNotations.\nOpen Scope string_scope.\n",
		Check:     "bad_ids",
		PropCheck: "prop_bad_ids",
		Gen:       c06Gen,
		Run:       c06Run,
		Rule:      "keygen cases (n,t,seed): private shares, group key, reconstruction from several signer subsets in several orders through the stateless and the stateful API; lambda cases: one Lagrange coefficient isolated by reconstructing from identity shares except one, signer sets straddling the 8-per-limb batches ({1..9}, {8,9}, {247..254}, descending, large t); error cases: sizes/thresholds out of range, count mismatch, not enough shares, duplicates, out-of-range indices, wrong-length shares; distinct by input",
		Shard:     3,
	})
}

func c06Gen(tier string, r *rand.Rand) []Case {
	var cs []Case
	add := func(fam string, in c06In) { in.Salt = r.Uint64(); cs = append(cs, mkcase(fam, in)) }
	type nt struct{ n, t int }
	shapes := []nt{{2, 1}, {3, 1}, {3, 2}, {5, 2}, {6, 3}, {10, 4}}
	if tier == "thorough" {
		shapes = append(shapes, nt{7, 3}, nt{20, 10}, nt{40, 20}, nt{254, 1}, nt{254, 40}, nt{64, 63})
	}
	for _, s := range shapes {
		var subs [][]int
		// first t+1, last t+1, a random subset in random order, a superset (only first t+1 are used)
		first := make([]int, s.t+1)
		last := make([]int, s.t+1)
		for i := range first {
			first[i] = i
			last[i] = s.n - 1 - i
		}
		perm := r.Perm(s.n)
		subs = append(subs, first, last, perm[:s.t+1], perm)
		if s.n <= 6 && tier == "thorough" || s.n <= 3 {
			// all subsets of size t+1
			var rec func(start int, cur []int)
			rec = func(start int, cur []int) {
				if len(cur) == s.t+1 {
					subs = append(subs, append([]int{}, cur...))
					return
				}
				for i := start; i < s.n; i++ {
					rec(i+1, append(cur, i))
				}
			}
			rec(0, nil)
		}
		add("keygen", c06In{Mode: "keygen", N: s.n, T: s.t, Seed: hx(rbytes(r, 32+r.IntN(33))), Subsets: subs})
	}
	// isolated coefficients, sets straddling the limb batches
	rng := func(a, b int) []int {
		var o []int
		if a <= b {
			for i := a; i <= b; i++ {
				o = append(o, i)
			}
		} else {
			for i := a; i >= b; i-- {
				o = append(o, i)
			}
		}
		return o
	}
	sets := [][]int{rng(0, 8), {7, 8}, rng(246, 253), rng(253, 240), rng(0, 16), {253, 0, 100, 7, 8, 9, 200, 1, 2, 3}}
	if tier == "thorough" {
		sets = append(sets, rng(0, 40), rng(253, 180), rng(100, 163))
	}
	for _, set := range sets {
		ks := []int{0, len(set) - 1, len(set) / 2}
		if tier == "thorough" {
			ks = rng(0, len(set)-1)
		}
		for _, k := range ks {
			sg := new(big.Int).Mod(new(big.Int).SetBytes(rbytes(r, 40)), new(big.Int).Sub(blsR, big.NewInt(1)))
			add("lambda", c06In{Mode: "lambda", Idx: set, K: k, Sigma: hx(fixed(sg.Add(sg, big.NewInt(1)), 32))})
		}
	}
	// documented errors of the stateless API
	add("error", c06In{Mode: "error", N: 1, T: 1, Lens: []int{48, 48}, Signers: []int{0, 1}})
	add("error", c06In{Mode: "error", N: 255, T: 1, Lens: []int{48, 48}, Signers: []int{0, 1}})
	add("error", c06In{Mode: "error", N: 3, T: 3, Lens: []int{48, 48}, Signers: []int{0, 1}})
	add("error", c06In{Mode: "error", N: 3, T: 0, Lens: []int{48, 48}, Signers: []int{0, 1}})
	add("error", c06In{Mode: "error", N: 4, T: 2, Lens: []int{48, 48, 48}, Signers: []int{0, 1}})
	add("error", c06In{Mode: "error", N: 4, T: 2, Lens: []int{48, 48}, Signers: []int{0, 1}})
	add("error", c06In{Mode: "error", N: 4, T: 1, Lens: []int{48, 48}, Signers: []int{1, 1}})
	add("error", c06In{Mode: "error", N: 4, T: 1, Lens: []int{48, 48}, Signers: []int{0, 4}})
	add("error", c06In{Mode: "error", N: 4, T: 1, Lens: []int{48, 48}, Signers: []int{-1, 2}})
	add("error", c06In{Mode: "error", N: 4, T: 1, Lens: []int{48, 47}, Signers: []int{0, 2}})
	// indices that are out of range as integers but whose low byte is a valid index (the library
	// narrows indices to a byte internally); the same list is first offered to the stateful API
	for _, big := range []int{256, 257, 259, 512 + 1, 65536 + 2, -256, -255, -254, 1 << 40, -(1 << 40) + 1} {
		add("error-wide-index", c06In{Mode: "error", N: 4, T: 1, Lens: []int{48, 48}, Signers: []int{big, 2}})
		add("error-wide-index", c06In{Mode: "error", N: 4, T: 1, Lens: []int{48, 48}, Signers: []int{0, big}})
	}
	add("error", c06In{Mode: "error", N: 4, T: 1, Lens: []int{0, 48}, Signers: []int{0, 2}})
	add("error", c06In{Mode: "error", N: 4, T: 1, Lens: []int{48, 48, 5}, Signers: []int{0, 2, 3}})
	add("error", c06In{Mode: "error", N: 4, T: 1, Lens: []int{48, 48, 48}, Signers: []int{0, 2, 2}})
	return cs
}

func thrErrClass(err error) string {
	switch {
	case err == nil:
		return "ok"
	case crypto.IsInvalidInputsError(err):
		return "err-invalid-input"
	case crypto.IsNotEnoughSharesError(err):
		return "err-not-enough-shares"
	case crypto.IsDuplicatedSignerError(err):
		return "err-duplicated-signer"
	case crypto.IsInvalidSignatureError(err):
		return "err-invalid-signature"
	}
	return "err-other"
}

func c06Run(c Case) (Result, error) {
	var in c06In
	if err := json.Unmarshal(c.Input, &in); err != nil {
		return Result{}, err
	}
	rr := rand.New(rand.NewPCG(in.Salt, 0x06))
	tag := "threshold-tag"
	msg := []byte("c06 message")
	hs := crypto.NewExpandMsgXOFKMAC128(tag)
	one, _ := crypto.DecodePrivateKey(crypto.BLSBLS12381, fixed(big.NewInt(1), 32))
	hEnc, _ := one.Sign(msg, hs)
	zl := func(v []int) string {
		var s []string
		for _, x := range v {
			s = append(s, fmt.Sprintf("(%d)%%Z", x))
		}
		return cqlist(s)
	}
	switch in.Mode {
	case "keygen":
		sks, pks, gpk, err := crypto.BLSThresholdKeyGen(in.N, in.T, unhx(in.Seed))
		if err != nil {
			return Result{}, err
		}
		consistent := true
		var why []string
		fail := func(s string) { consistent = false; why = append(why, s) }
		var priv []string
		var shares []crypto.Signature
		for i, sk := range sks {
			priv = append(priv, cqs(hx(sk.Encode())))
			if !sk.PublicKey().Equals(pks[i]) {
				fail("private share does not match its public share")
			}
			s, _ := sk.Sign(msg, hs)
			shares = append(shares, s)
		}
		var recons []string
		for _, sub := range in.Subsets {
			var sh []crypto.Signature
			for _, i := range sub {
				sh = append(sh, shares[i])
			}
			out, err := crypto.BLSReconstructThresholdSignature(in.N, in.T, sh, sub)
			if err != nil {
				return Result{}, implViolation("reconstruction failed: %v", err)
			}
			if ok, _ := gpk.Verify(out, msg, hs); !ok {
				fail("reconstructed signature does not verify under the group key")
			}
			// stateful API on the same subset
			ts, err := crypto.NewBLSThresholdSignatureInspector(gpk, pks, in.T, msg, tag)
			if err != nil {
				return Result{}, err
			}
			for k, i := range sub {
				if k > in.T {
					break
				}
				var e error
				if rr.IntN(2) == 0 {
					_, _, e = ts.VerifyAndAdd(i, shares[i])
				} else {
					_, e = ts.TrustedAdd(i, shares[i])
				}
				if e != nil {
					return Result{}, e
				}
			}
			out2, err := ts.ThresholdSignature()
			if err != nil || !bytes.Equal(out2, out) {
				fail("stateful reconstruction differs from the stateless one")
			}
			recons = append(recons, fmt.Sprintf("(%s, %s)", zl(sub), cqs(hx(out))))
		}
		// stateful object: an invalid share added with TrustedAdd must produce an error, never a bad signature
		ts, _ := crypto.NewBLSThresholdSignatureInspector(gpk, pks, in.T, msg, tag)
		badShare, _ := sks[0].Sign([]byte("other message"), hs)
		for i := 0; i <= in.T; i++ {
			s := shares[i]
			if i == 0 {
				s = badShare
			}
			_, _ = ts.TrustedAdd(i, s)
		}
		// ... on the first call and on every later call (a failed reconstruction must not be cached)
		for call := 0; call < 3; call++ {
			if out, err := ts.ThresholdSignature(); err == nil {
				if ok, _ := gpk.Verify(out, msg, hs); !ok {
					fail(fmt.Sprintf("stateful object returned a signature that fails verification (call %d)", call+1))
				} else {
					fail("invalid share went unnoticed")
				}
			} else if !crypto.IsInvalidInputsError(err) {
				fail(fmt.Sprintf("invalid well-formed share: unexpected error class on call %d: %v", call+1, err))
			}
		}
		// same with a malformed (but correctly sized) share: errInvalidSignature every time
		ts3, _ := crypto.NewBLSThresholdSignatureInspector(gpk, pks, in.T, msg, tag)
		mal := append([]byte{}, shares[0]...)
		mal[0] &= 0x7F
		for i := 0; i <= in.T; i++ {
			s := shares[i]
			if i == 0 {
				s = mal
			}
			_, _ = ts3.TrustedAdd(i, s)
		}
		for call := 0; call < 2; call++ {
			if _, err := ts3.ThresholdSignature(); !crypto.IsInvalidSignatureError(err) {
				fail(fmt.Sprintf("malformed share: expected errInvalidSignature on call %d, got %v", call+1, err))
			}
		}
		// a successful reconstruction is stable across calls
		ts4, _ := crypto.NewBLSThresholdSignatureInspector(gpk, pks, in.T, msg, tag)
		for i := 0; i <= in.T; i++ {
			_, _ = ts4.TrustedAdd(i, shares[i])
		}
		o1, e1 := ts4.ThresholdSignature()
		o2, e2 := ts4.ThresholdSignature()
		if e1 != nil || e2 != nil || !bytes.Equal(o1, o2) {
			fail("successful threshold signature not stable across calls")
		}
		// fewer than t+1 shares
		ts2, _ := crypto.NewBLSThresholdSignatureInspector(gpk, pks, in.T, msg, tag)
		for i := 0; i < in.T; i++ {
			_, _ = ts2.TrustedAdd(i, shares[i])
		}
		if _, err := ts2.ThresholdSignature(); !crypto.IsNotEnoughSharesError(err) {
			fail("fewer than t+1 shares must give a not-enough-shares error")
		}
		term := fmt.Sprintf("KeygenCase %d %d %s %s %s %s %s %s %s", in.N, in.T, cqs(in.Seed), cqs(hx(hEnc)), cqlist(priv),
			cqs(hx(gpk.Encode())), cqs(hx(pks[0].Encode())), cqlist(recons), cqbool(consistent))
		return Result{Coq: term, Key: string(c.Input), Nontrivial: true, Obs: map[string]any{"group_pk": hx(gpk.Encode()), "inconsistencies": why, "n_recons": len(recons)}}, nil
	case "lambda":
		// every share is [sigma_j]H for a known random sigma_j (identity shares are avoided: the
		// multi-scalar multiplication of the C layer is not meaningful on the point at infinity)
		var shares []crypto.Signature
		var idx1 []int
		var sig []string
		for j, i := range in.Idx {
			sg := new(big.Int).Mod(new(big.Int).SetBytes(rbytes(rr, 40)), new(big.Int).Sub(blsR, big.NewInt(1)))
			sg.Add(sg, big.NewInt(1))
			if j == in.K {
				sg.SetBytes(unhx(in.Sigma))
			}
			sk, err := crypto.DecodePrivateKey(crypto.BLSBLS12381, fixed(sg, 32))
			if err != nil {
				return Result{}, err
			}
			sh, _ := sk.Sign(msg, hs)
			shares = append(shares, sh)
			idx1 = append(idx1, i+1)
			sig = append(sig, cqs(hx(fixed(sg, 32))))
		}
		out, err := crypto.BLSReconstructThresholdSignature(254, len(in.Idx)-1, shares, in.Idx)
		if err != nil {
			return Result{}, err
		}
		term := fmt.Sprintf("LambdaCase %s %s %s %s", cqs(hx(hEnc)), zl(idx1), cqlist(sig), cqs(hx(out)))
		return Result{Coq: term, Key: string(c.Input), Nontrivial: true, Obs: map[string]any{"out": hx(out)}}, nil
	case "error":
		sk, _ := crypto.GeneratePrivateKey(crypto.BLSBLS12381, rbytes(rr, 32))
		full, _ := sk.Sign(msg, hs)
		// the stateful API must refuse every out-of-range signer index with the invalid-input error
		if in.N >= 2 && in.T >= 1 && in.T < in.N && in.N <= 254 {
			if _, pkShares, gpk, err := crypto.BLSThresholdKeyGen(in.N, in.T, rbytes(rr, 32)); err == nil {
				if insp, err := crypto.NewBLSThresholdSignatureInspector(gpk, pkShares, in.T, msg, "c06-err"); err == nil {
					for _, idx := range in.Signers {
						if idx >= 0 && idx < in.N {
							continue
						}
						var e1, e2, e3, e4 error
						if p, m := catch(func() {
							_, e1 = insp.HasShare(idx)
							_, e2 = insp.VerifyShare(idx, full)
							_, e3 = insp.TrustedAdd(idx, full)
							_, _, e4 = insp.VerifyAndAdd(idx, full)
						}); p {
							return Result{}, implViolation("stateful threshold API panics on signer index %d: %s", idx, strings.Split(m, "\n")[0])
						}
						for k, e := range []error{e1, e2, e3, e4} {
							if !crypto.IsInvalidInputsError(e) {
								return Result{}, implViolation("%s(%d) on a group of %d returned %v, documented: invalid-input error", []string{"HasShare", "VerifyShare", "TrustedAdd", "VerifyAndAdd"}[k], idx, in.N, e)
							}
						}
					}
				}
			}
		}
		var shares []crypto.Signature
		var lens []string
		for _, l := range in.Lens {
			b := make([]byte, l)
			copy(b, full)
			shares = append(shares, b)
			lens = append(lens, fmt.Sprintf("%d%%nat", l))
		}
		var cls string
		if p, m := catch(func() {
			_, err := crypto.BLSReconstructThresholdSignature(in.N, in.T, shares, in.Signers)
			cls = thrErrClass(err)
		}); p {
			cls = "panic:" + strings.Split(m, "\n")[0]
		}
		term := fmt.Sprintf("ErrorCase (%d)%%Z (%d)%%Z %s %s %s", in.N, in.T, cqlist(lens), zl(in.Signers), cqs(cls))
		return Result{Coq: term, Key: string(c.Input), Nontrivial: true, Obs: map[string]any{"class": cls}}, nil
	}
	return Result{}, fmt.Errorf("unknown mode")
}
