package main

// C10: DKG instances follow the documented single-use state machine.
// Call sequences are run on real NewFeldmanVSS / NewFeldmanVSSQual / NewJointFeldman
// instances with a recording DKGProcessor; per call the error class, Running() and the
// emitted events are observed.  The same sequence is run a second time on a fresh instance
// with the refused calls left out (differential check that refused calls are no-ops).

import (
	"encoding/json"
	"fmt"
	"math"
	"math/big"
	"math/rand/v2"
	"strings"

	"github.com/onflow/crypto"
)

type c10In struct {
	Proto  string     `json:"proto"` // vss | qual | joint
	N      int        `json:"n"`
	T      int        `json:"t"`
	My     int        `json:"my"`
	Dealer int        `json:"dealer"`
	Polys  [][]string `json:"polys"` // scripted polynomials (decimal coefficients), two per origin
	Calls  []dkgCall  `json:"calls"`
}

func init() {
	register(&Prop{
		ID:        "C10",
		Header:    "From Coq Require Import ZArith NArith List Bool String.\nFrom V Require Import Lib.ZHex Model.DkgVss Model.DkgQual Model.DkgJoint Corr.C10Corr.\nImport ListNotations.\nOpen Scope string_scope.\n",
		Check:     "bad_ids",
		PropCheck: "prop_bad_ids",
		Gen:       c10Gen,
		Run:       c10Run,
		Rule:      "call sequences over {Start(good/short seed), NextTimeout, End, Running, HandleBroadcastMsg, HandlePrivateMsg, ForceDisqualify} with in-range (dealer, other, self) and out-of-range indices and 20 message payload kinds, on the three protocols as dealer and non-dealer: all sequences up to a length bound over an 11-symbol alphabet plus weighted random sequences; directed families: every route to a disqualified dealer / invalid key (ForceDisqualify early and late, empty / nil / unknown-tag broadcast, malformed vector of three kinds, malformed complaint and answer, unreadable answer, missing vector, missing / wrong share unanswered or wrongly answered, wrong answer, answer before complaint, unanswered complaint, more than t complaints, Joint: every dealer / the own index) followed by the rest of the run with refused calls in every phase (End before the timeouts, Start while running, third NextTimeout, second End, handlers after End); out-of-range origins that equal the dealer / own / a third index after narrowing to 8, 16 or 32 bits (256+i, -256+i, 2^16+i, +-2^32+i, 2^40+i, MinInt64+i) and MinInt64 / MaxInt64 / +-2^31 / 2^32-1, carrying the dealer's real vector and share before the honest ones, in every phase; Start seeds of length nil, 0, 1, 31, 32, 33, 64, 257, 4096 as dealer and non-dealer; nil slices; runner-side: byte-slice arguments are unmodified after every call, the keys returned by End encode identically after all later calls of the run; non-trivial if at least one call was accepted and one refused; distinct by (protocol, n, t, role, call list); a refused Start carrying another valid / short / nil seed as dealer, followed by complaints (answers come from the accepted seed's polynomial)",
		Shard:     100,
	})
}

func c10NewInstance(in *c10In, p *dkgProc) (crypto.DKGState, error) {
	switch in.Proto {
	case "vss":
		return crypto.NewFeldmanVSS(in.N, in.T, in.My, p, in.Dealer)
	case "qual":
		return crypto.NewFeldmanVSSQual(in.N, in.T, in.My, p, in.Dealer)
	case "joint":
		return crypto.NewJointFeldman(in.N, in.T, in.My, p)
	}
	return nil, fmt.Errorf("unknown protocol %q", in.Proto)
}

func c10ParsePolys(in *c10In) [][]*big.Int {
	var ps [][]*big.Int
	for _, p := range in.Polys {
		var a []*big.Int
		for _, c := range p {
			z, ok := new(big.Int).SetString(c, 10)
			if !ok {
				panic("bad coefficient " + c)
			}
			dkgEncG2(z) // dictionary entry
			a = append(a, z)
		}
		ps = append(ps, a)
	}
	return ps
}

func c10Run(c Case) (Result, error) {
	var in c10In
	if err := json.Unmarshal(c.Input, &in); err != nil {
		return Result{}, err
	}
	scripted := c10ParsePolys(&in)
	p := &dkgProc{}
	d, err := c10NewInstance(&in, p)
	if err != nil {
		return Result{}, err
	}
	// polynomials whose sums End may return: first scripted polynomial of every origin, and
	// the own one once a Start with a good seed happened
	known := make([][]*big.Int, in.N)
	for o := 0; o < in.N && 2*o < len(scripted); o++ {
		known[o] = scripted[2*o]
	}
	ownIdx := in.Dealer
	if in.Proto == "joint" {
		ownIdx = in.My
	}
	var obs []dkgObs
	var terms []string
	accepted, refused := 0, 0
	// keys returned by an End, to be looked at again after the later calls of the same run (a Start after
	// End begins a new run, which the documentation leaves unspecified: checked just before it)
	var kept []dkgObs
	for _, call := range in.Calls {
		if call.Op == "start" {
			if err := dkgKeysStable(kept); err != nil {
				return Result{}, err
			}
			kept = nil
		}
		// the own polynomial becomes the seed's only if this Start is ACCEPTED (a refused Start with another
		// seed changes nothing); the step itself is translated with the tentative table
		tryKnown := known
		if call.Op == "start" && len(unhx(call.Seed)) >= crypto.KeyGenSeedMinLen && in.My == ownIdx {
			a, err := dkgPolyOfSeed(unhx(call.Seed), in.T)
			if err != nil {
				return Result{}, err
			}
			tryKnown = append([][]*big.Int{}, known...)
			tryKnown[ownIdx] = a
		}
		term, o, err := dkgStep(d, p, call, in.T, tryKnown)
		if err != nil {
			return Result{}, err
		}
		if dkgRefused(o) {
			refused++
		} else {
			accepted++
			known = tryKnown
		}
		terms = append(terms, term)
		obs = append(obs, o)
		if o.Class == "keys" {
			kept = append(kept, o)
		}
		if o.Class == "panic" {
			break
		}
	}
	if err := dkgKeysStable(kept); err != nil {
		return Result{}, err
	}
	// differential run: leave the refused calls out, everything else must be observed identically
	noop := true
	{
		p2 := &dkgProc{}
		d2, err := c10NewInstance(&in, p2)
		if err != nil {
			return Result{}, err
		}
		for i, o := range obs {
			if dkgRefused(o) {
				continue
			}
			o2 := dkgExec(d2, p2, in.Calls[i])
			if !dkgSameObs(o, o2) {
				noop = false
				break
			}
			if o.Class == "panic" {
				break
			}
		}
	}
	proto := map[string]int{"vss": 0, "qual": 1, "joint": 2}[in.Proto]
	term := fmt.Sprintf("mkCase %d%%N (mkCfg %d %d %d) %d %s\n   %s", proto, in.N, in.T, in.My, in.Dealer, cqbool(noop), cqlist(terms))
	return Result{Coq: term, Key: string(c.Input), Nontrivial: accepted > 0 && refused > 0,
		Obs: map[string]any{"calls": obs, "refused_calls_are_noops": noop}}, nil
}

// ---------------- generators ----------------

func c10RandScalar(r *rand.Rand) *big.Int {
	b := rbytes(r, 40)
	z := new(big.Int).SetBytes(b)
	z.Mod(z, new(big.Int).Sub(dkgR, big.NewInt(1)))
	return z.Add(z, big.NewInt(1))
}

func c10RandPoly(r *rand.Rand, t int) []*big.Int {
	a := make([]*big.Int, t+1)
	for i := range a {
		a[i] = c10RandScalar(r)
	}
	return a
}

type c10Ctx struct {
	in    *c10In
	polys [][]*big.Int // two per origin
	seed  []byte
}

func c10NewCtx(r *rand.Rand, proto string, n, t, my, dealer int) *c10Ctx {
	in := &c10In{Proto: proto, N: n, T: t, My: my, Dealer: dealer}
	cx := &c10Ctx{in: in, seed: rbytes(r, 32)}
	for o := 0; o < n; o++ {
		for k := 0; k < 2; k++ {
			a := c10RandPoly(r, t)
			cx.polys = append(cx.polys, a)
			var s []string
			for _, c := range a {
				s = append(s, c.String())
			}
			in.Polys = append(in.Polys, s)
		}
	}
	return cx
}

// the instance a message of origin o is about: the fixed dealer, or o itself in Joint-Feldman
func (cx *c10Ctx) dealerOf(o int) int {
	if cx.in.Proto == "joint" {
		return o
	}
	return cx.in.Dealer
}

var c10BcastKinds = []string{"vec", "vec", "vec2", "vec-badlen", "vec-badpoint", "vec-badvalue", "complaint", "complaint", "complaint-other", "complaint-badlen", "complaint-badidx",
	"answer", "answer", "answer-bad", "answer-zero", "answer-ger", "answer-badlen", "answer-badidx", "answer-me", "empty", "badtag", "sharetag"}
var c10PrivKinds = []string{"share", "share", "share", "share-bad", "share-zero", "share-ger", "share-badlen", "empty", "wrongtag"}

func (cx *c10Ctx) msg(r *rand.Rand, kind string, o int) []byte {
	in := cx.in
	if o < 0 || o >= in.N {
		o = in.Dealer
	}
	P := cx.polys[2*o]
	P2 := cx.polys[2*o+1]
	one := big.NewInt(1)
	other := r.IntN(in.N)
	switch kind {
	case "vec":
		return dkgMsgVec(P)
	case "vec2":
		return dkgMsgVec(P2)
	case "vec-badlen":
		return dkgMsgVec(P)[:1+dkgG2Len*(in.T+1)-1-r.IntN(3)]
	case "vec-badpoint":
		b := dkgMsgVec(P)
		b[1+dkgG2Len*in.T] = 0xE0 // header of the last point: compressed + infinity + sign
		return b
	case "vec-badvalue":
		b := dkgMsgVec(P)
		for i := 0; i < 48; i++ { // x.c1 >= p
			b[1+i] = 0xFF
		}
		b[1] = 0x9F
		return b
	case "complaint":
		return dkgMsgComplaint(cx.dealerOf(o))
	case "complaint-other":
		return dkgMsgComplaint(other)
	case "complaint-badlen":
		return []byte{dkgTagComplaint, byte(in.Dealer), 0}
	case "complaint-badidx":
		return dkgMsgComplaint(in.N + r.IntN(3))
	case "answer":
		return dkgMsgAnswer(other, dkgPeval(P, int64(other+1)))
	case "answer-me":
		return dkgMsgAnswer(in.My, dkgPeval(P, int64(in.My+1)))
	case "answer-bad":
		return dkgMsgAnswer(other, dkgMod(new(big.Int).Add(dkgPeval(P, int64(other+1)), one)))
	case "answer-zero":
		return dkgMsgAnswer(other, new(big.Int))
	case "answer-ger":
		return dkgMsgAnswer(other, new(big.Int).Add(dkgR, big.NewInt(int64(r.IntN(2)))))
	case "answer-badlen":
		return dkgMsgAnswer(other, dkgPeval(P, int64(other+1)))[:20+r.IntN(10)]
	case "answer-badidx":
		return dkgMsgAnswer(in.N+r.IntN(3), dkgPeval(P, 1))
	case "empty":
		return []byte{}
	case "badtag":
		return []byte{byte(4 + r.IntN(200)), 1, 2}
	case "sharetag":
		return dkgMsgShare(dkgPeval(P, int64(in.My+1)))
	case "share":
		return dkgMsgShare(dkgPeval(P, int64(in.My+1)))
	case "share-bad":
		return dkgMsgShare(dkgMod(new(big.Int).Add(dkgPeval(P, int64(in.My+1)), one)))
	case "share-zero":
		return dkgMsgShare(new(big.Int))
	case "share-ger":
		return dkgMsgShare(new(big.Int).Add(dkgR, big.NewInt(int64(r.IntN(2)))))
	case "share-badlen":
		return dkgMsgShare(dkgPeval(P, int64(in.My+1)))[:10+r.IntN(20)]
	case "wrongtag":
		return dkgMsgVec(P)
	}
	panic("unknown message kind " + kind)
}

func (cx *c10Ctx) inRange(r *rand.Rand) int {
	in := cx.in
	switch r.IntN(6) {
	case 0:
		return in.My
	case 1, 2, 3:
		if in.Proto != "joint" {
			return in.Dealer
		}
	}
	return r.IntN(in.N)
}

func (cx *c10Ctx) outOfRange(r *rand.Rand) int {
	// incl. values that are out of range as ints but equal a valid index (the dealer, me, another
	// participant) after narrowing to a byte
	l := []int{-1, cx.in.N, cx.in.N + 1, 255, 256, 300, -200, math.MinInt64, math.MaxInt64, math.MinInt32, math.MaxInt32, math.MaxUint32}
	for i := 0; i < cx.in.N; i++ {
		l = append(l, 256+i, -256+i, 65536+i, 1<<32+i, -(1<<32)+i)
	}
	return l[r.IntN(len(l))]
}

// an out-of-range value that equals the in-range index i after narrowing to 8, 16 or 32 bits
var c10Narrow = []int{256, -256, 1 << 32, 512, 65536, -(1 << 32), 1 << 40, math.MinInt64}

// out-of-range calls of the three kinds with origin v: a well-formed vector of the dealer, a well-formed share
// of the dealer for this participant, ForceDisqualify
func (cx *c10Ctx) outCalls(r *rand.Rand, v int) []dkgCall {
	P := cx.polys[2*cx.drive()]
	return []dkgCall{
		{Op: "bcast", Orig: v, Msg: hx(dkgMsgVec(P))},
		{Op: "priv", Orig: v, Msg: hx(dkgMsgShare(dkgPeval(P, int64(cx.in.My+1))))},
		{Op: "force", Orig: v},
	}
}

// Joint-Feldman: the honest vector and share of every dealer other than this participant and the driven one, so
// that End has enough qualified dealers to return keys
func (cx *c10Ctx) restHonest() []dkgCall {
	var l []dkgCall
	if cx.in.Proto != "joint" {
		return nil
	}
	for o := 0; o < cx.in.N; o++ {
		if o == cx.in.My || o == cx.drive() {
			continue
		}
		l = append(l, dkgCall{Op: "bcast", Orig: o, Msg: hx(dkgMsgVec(cx.polys[2*o]))},
			dkgCall{Op: "priv", Orig: o, Msg: hx(dkgMsgShare(dkgPeval(cx.polys[2*o], int64(cx.in.My+1))))})
	}
	return l
}

// symbols of the enumeration alphabet
var c10Alphabet = []string{"start", "start-short", "timeout", "end", "running", "bcast-in", "bcast-out", "priv-in", "priv-out", "force-in", "force-out"}

func (cx *c10Ctx) symbol(r *rand.Rand, sym string, random bool) dkgCall {
	in := cx.in
	src := in.Dealer
	if in.Proto == "joint" || src == in.My {
		src = (in.My + 1) % in.N
	}
	switch sym {
	case "start":
		return dkgCall{Op: "start", Seed: hx(cx.seed)}
	case "start-short":
		return dkgCall{Op: "start", Seed: hx(cx.seed[:3+r.IntN(20)])}
	case "timeout":
		return dkgCall{Op: "timeout"}
	case "end":
		return dkgCall{Op: "end"}
	case "running":
		return dkgCall{Op: "running"}
	case "bcast-in":
		if random {
			o := cx.inRange(r)
			c := dkgCall{Op: "bcast", Orig: o, Msg: hx(cx.msg(r, c10BcastKinds[r.IntN(len(c10BcastKinds))], o))}
			c.Nil = c.Msg == "" && r.IntN(2) == 0 // an empty message is a nil slice half of the time
			return c
		}
		return dkgCall{Op: "bcast", Orig: src, Msg: hx(cx.msg(r, "vec", src))}
	case "bcast-out":
		return dkgCall{Op: "bcast", Orig: cx.outOfRange(r), Msg: hx(cx.msg(r, "vec", -1))}
	case "priv-in":
		if random {
			o := cx.inRange(r)
			c := dkgCall{Op: "priv", Orig: o, Msg: hx(cx.msg(r, c10PrivKinds[r.IntN(len(c10PrivKinds))], o))}
			c.Nil = c.Msg == "" && r.IntN(2) == 0
			return c
		}
		return dkgCall{Op: "priv", Orig: src, Msg: hx(cx.msg(r, "share", src))}
	case "priv-out":
		return dkgCall{Op: "priv", Orig: cx.outOfRange(r), Msg: hx(cx.msg(r, "share", -1))}
	case "force-in":
		if random {
			return dkgCall{Op: "force", Orig: cx.inRange(r)}
		}
		return dkgCall{Op: "force", Orig: src}
	case "force-out":
		return dkgCall{Op: "force", Orig: cx.outOfRange(r)}
	}
	panic(sym)
}

func c10Gen(tier string, r *rand.Rand) []Case {
	var cs []Case
	protos := []string{"vss", "qual", "joint"}
	maxLen, nrand, randLen, nskel := 3, 300, 14, 300
	if tier == "thorough" {
		maxLen, nrand, randLen, nskel = 4, 3000, 40, 3000
	}
	// all sequences up to maxLen-1 over the alphabet and all sequences of length maxLen that begin
	// with Start, for the 3 protocols as dealer and non-dealer
	for _, proto := range protos {
		for role := 0; role < 2; role++ {
			n, t := 3, 1
			my, dealer := 1, 0
			if role == 0 {
				my, dealer = 1, 1
			}
			cx := c10NewCtx(r, proto, n, t, my, dealer)
			idx := make([]int, 0, maxLen)
			var rec func()
			rec = func() {
				if len(idx) > 0 {
					in := *cx.in
					for _, s := range idx {
						in.Calls = append(in.Calls, cx.symbol(r, c10Alphabet[s], false))
					}
					cs = append(cs, mkcase("enum-"+proto, in))
				}
				if len(idx) == maxLen || (len(idx) == maxLen-1 && idx[0] != 0) {
					return
				}
				for s := range c10Alphabet {
					idx = append(idx, s)
					rec()
					idx = idx[:len(idx)-1]
				}
			}
			rec()
		}
	}
	// protocol skeletons: Start, messages of phase 0, timeout, phase 1, timeout, phase 2, End, with
	// random payload kinds and refused calls interspersed
	for i := 0; i < nskel; i++ {
		proto := protos[i%3]
		n := 2 + r.IntN(4)
		t := 1 + r.IntN(n-1)
		my := r.IntN(n)
		dealer := my
		if i%2 == 1 {
			dealer = (my + 1 + r.IntN(n-1)) % n
		}
		cx := c10NewCtx(r, proto, n, t, my, dealer)
		in := *cx.in
		noise := func() {
			for r.IntN(5) == 0 {
				in.Calls = append(in.Calls, cx.symbol(r, c10Alphabet[r.IntN(len(c10Alphabet))], true))
			}
		}
		in.Calls = append(in.Calls, cx.symbol(r, "start", true))
		for ph := 0; ph < 3; ph++ {
			// phase 0 starts with the honest-looking vector and share of every other origin, shuffled in
			var items []dkgCall
			if ph == 0 {
				for o := 0; o < n; o++ {
					if o == my || (proto != "joint" && o != dealer) || r.IntN(6) == 0 {
						continue
					}
					items = append(items, dkgCall{Op: "bcast", Orig: o, Msg: hx(cx.msg(r, "vec", o))})
					if r.IntN(5) > 0 {
						items = append(items, dkgCall{Op: "priv", Orig: o, Msg: hx(cx.msg(r, "share", o))})
					}
				}
			}
			for k := r.IntN(4); k > 0; k-- {
				sym := "bcast-in"
				if ph == 0 && r.IntN(3) == 0 {
					sym = "priv-in"
				}
				items = append(items, cx.symbol(r, sym, true))
			}
			r.Shuffle(len(items), func(a, b int) { items[a], items[b] = items[b], items[a] })
			for _, it := range items {
				noise()
				in.Calls = append(in.Calls, it)
			}
			noise()
			if ph < 2 {
				in.Calls = append(in.Calls, cx.symbol(r, "timeout", true))
			}
		}
		in.Calls = append(in.Calls, cx.symbol(r, "end", true))
		noise()
		cs = append(cs, mkcase("skeleton-"+proto, in))
	}
	// directed sequences: the complete accepted run with one refused call inserted at every position
	for _, proto := range protos {
		for role := 0; role < 2; role++ {
			n := 3 + r.IntN(3)
			t := 1 + r.IntN(n-1)
			my := r.IntN(n)
			dealer := my
			if role == 1 {
				dealer = (my + 1 + r.IntN(n-1)) % n
			}
			cx := c10NewCtx(r, proto, n, t, my, dealer)
			base := []string{"start", "bcast-in", "priv-in", "timeout", "bcast-in", "timeout", "end", "end", "start", "timeout", "end"}
			for pos := 0; pos <= len(base); pos++ {
				for _, ins := range []string{"start", "start-short", "timeout", "end", "bcast-out", "priv-out", "force-out", "force-in", "running"} {
					in := *cx.in
					for i, s := range base {
						if i == pos {
							in.Calls = append(in.Calls, cx.symbol(r, ins, false))
						}
						in.Calls = append(in.Calls, cx.symbol(r, s, false))
					}
					if pos == len(base) {
						in.Calls = append(in.Calls, cx.symbol(r, ins, false))
					}
					cs = append(cs, mkcase("insert-"+proto, in))
				}
			}
		}
	}
	cs = append(cs, c10Directed(tier, r)...)
	// weighted random sequences with all payload kinds
	weights := []struct {
		sym string
		w   int
	}{{"start", 8}, {"start-short", 3}, {"timeout", 14}, {"end", 7}, {"running", 3}, {"bcast-in", 32}, {"bcast-out", 4}, {"priv-in", 16}, {"priv-out", 3}, {"force-in", 4}, {"force-out", 3}}
	tot := 0
	for _, w := range weights {
		tot += w.w
	}
	for i := 0; i < nrand; i++ {
		proto := protos[i%3]
		n := 2 + r.IntN(4)
		t := 1 + r.IntN(n-1)
		my := r.IntN(n)
		dealer := my
		if i%2 == 1 {
			dealer = (my + 1 + r.IntN(n-1)) % n
		}
		cx := c10NewCtx(r, proto, n, t, my, dealer)
		in := *cx.in
		l := 2 + r.IntN(randLen)
		if r.IntN(4) > 0 {
			in.Calls = append(in.Calls, cx.symbol(r, "start", true))
		}
		for j := 0; j < l; j++ {
			x := r.IntN(tot)
			for _, w := range weights {
				if x < w.w {
					in.Calls = append(in.Calls, cx.symbol(r, w.sym, true))
					break
				}
				x -= w.w
			}
		}
		cs = append(cs, mkcase("random-"+proto, in))
	}
	_ = strings.Join
	return cs
}

// ---------------- directed families (audit round) ----------------

// the instance whose dealer the directed families drive: the fixed dealer, or the next participant in Joint-Feldman
func (cx *c10Ctx) drive() int {
	if cx.in.Proto == "joint" {
		return (cx.in.My + 1) % cx.in.N
	}
	return cx.in.Dealer
}

func c10Directed(tier string, r *rand.Rand) []Case {
	var cs []Case
	thorough := tier == "thorough"
	protos := []string{"vss", "qual", "joint"}
	bc := func(o int, m []byte) dkgCall { return dkgCall{Op: "bcast", Orig: o, Msg: hx(m)} }
	pv := func(o int, m []byte) dkgCall { return dkgCall{Op: "priv", Orig: o, Msg: hx(m)} }
	to := dkgCall{Op: "timeout"}
	end := dkgCall{Op: "end"}
	newCx := func(proto string, role, n int) *c10Ctx {
		t := 1 + r.IntN(2)
		my := r.IntN(n)
		dealer := my
		if role == 1 {
			dealer = (my + 1 + r.IntN(n-1)) % n
		}
		return c10NewCtx(r, proto, n, t, my, dealer)
	}
	// ---- every route by which an instance comes to regard a dealer as disqualified (or, plain VSS, its key as
	// invalid), then the rest of the run with refused calls in every phase: out-of-range origins incl. values
	// that narrow to the dealer, a third NextTimeout, a second End, handlers after End ----
	for _, proto := range protos {
		for role := 0; role < 2; role++ {
			cx := newCx(proto, role, 5)
			in0 := cx.in
			n, t, my, d := in0.N, in0.T, in0.My, cx.drive()
			P := cx.polys[2*d]
			var others []int
			for i := 0; i < n; i++ {
				if i != my && i != d {
					others = append(others, i)
				}
			}
			vec, share := bc(d, dkgMsgVec(P)), pv(d, dkgMsgShare(dkgPeval(P, int64(my+1))))
			cmpl := func(from int) dkgCall { return bc(from, dkgMsgComplaint(d)) }
			ans := func(c int, delta int64) dkgCall {
				return bc(d, dkgMsgAnswer(c, dkgMod(new(big.Int).Add(dkgPeval(P, int64(c+1)), big.NewInt(delta)))))
			}
			type route struct {
				name   string
				p0, p1 []dkgCall // calls of phase 0 and of phase 1
			}
			routes := []route{
				{"force", []dkgCall{vec, share, {Op: "force", Orig: d}}, nil},
				{"force-first", []dkgCall{{Op: "force", Orig: d}, vec, share}, nil},
				{"force-late", []dkgCall{vec, share}, []dkgCall{{Op: "force", Orig: d}}},
				{"empty", []dkgCall{bc(d, nil), share}, nil},
				{"nil", []dkgCall{{Op: "bcast", Orig: d, Nil: true}, {Op: "priv", Orig: d, Nil: true}}, nil},
				{"badtag", []dkgCall{vec, bc(d, []byte{77, 1}), share}, nil},
				{"vec-badlen", []dkgCall{bc(d, cx.msg(r, "vec-badlen", d)), share}, nil},
				{"vec-badpoint", []dkgCall{share, bc(d, cx.msg(r, "vec-badpoint", d))}, nil},
				{"vec-badvalue", []dkgCall{bc(d, cx.msg(r, "vec-badvalue", d)), share}, nil},
				{"c-badlen", []dkgCall{vec, share, bc(d, []byte{dkgTagComplaint, byte(d), 0})}, nil},
				{"c-badidx", []dkgCall{vec, share}, []dkgCall{bc(d, dkgMsgComplaint(n+1))}},
				{"a-badlen", []dkgCall{vec, share, bc(d, dkgMsgAnswer(others[0], big.NewInt(5))[:20])}, nil},
				{"a-badidx", []dkgCall{vec, share}, []dkgCall{bc(d, dkgMsgAnswer(n, big.NewInt(5)))}},
				{"a-zero", []dkgCall{vec, share, bc(d, dkgMsgAnswer(others[0], new(big.Int)))}, nil},
				{"novec", []dkgCall{share}, []dkgCall{vec}},
				{"noshare-unanswered", []dkgCall{vec}, nil},
				{"badshare-unanswered", []dkgCall{pv(d, dkgMsgShare(big.NewInt(7))), vec}, nil},
				{"badshare-badanswer", []dkgCall{vec, pv(d, dkgMsgShare(big.NewInt(7)))}, []dkgCall{ans(my, 1)}},
				{"wrong-answer", []dkgCall{vec, share, cmpl(others[0])}, []dkgCall{ans(others[0], 1)}},
				{"answer-then-complaint", []dkgCall{ans(others[1], 3), vec, share}, []dkgCall{cmpl(others[1])}},
				{"unanswered", []dkgCall{vec, share}, []dkgCall{cmpl(others[0])}},
				{"late-vec-share", nil, []dkgCall{vec, share}},
			}
			var many []dkgCall
			for k := 0; k <= t && k < len(others); k++ {
				many = append(many, cmpl(others[k]), ans(others[k], 0))
			}
			routes = append(routes, route{"many-complaints", append([]dkgCall{vec, share}, many...), nil})
			if proto == "joint" {
				var all []dkgCall
				for i := 0; i < n; i++ {
					all = append(all, dkgCall{Op: "force", Orig: (my + i) % n})
				}
				routes = append(routes, route{"force-all", all, nil}, route{"force-self", []dkgCall{vec, share, {Op: "force", Orig: my}}, nil})
			}
			for ri, rt := range routes {
				if !thorough && role == 0 && proto != "joint" && ri%2 == 1 && rt.name != "many-complaints" {
					continue // messages "from the dealer" are this participant's own: a sample is enough
				}
				in := *in0
				outs := func() {
					v := cx.outOfRange(r)
					if r.IntN(2) == 0 {
						v = c10Narrow[r.IntN(len(c10Narrow))] + d
					}
					in.Calls = append(in.Calls, cx.outCalls(r, v)...)
				}
				in.Calls = append(in.Calls, cx.symbol(r, "start", false))
				if rt.name != "force-all" {
					in.Calls = append(in.Calls, cx.restHonest()...)
				}
				in.Calls = append(in.Calls, rt.p0...)
				outs()
				if proto != "vss" {
					in.Calls = append(in.Calls, end) // End before the timeouts: refused in the Qual-based protocols
				}
				in.Calls = append(in.Calls, to)
				in.Calls = append(in.Calls, rt.p1...)
				outs()
				in.Calls = append(in.Calls, cx.symbol(r, "start", false), to)
				outs()
				in.Calls = append(in.Calls, to, dkgCall{Op: "running"}, end, dkgCall{Op: "running"}, end, to, vec, share, dkgCall{Op: "force", Orig: d})
				outs()
				cs = append(cs, mkcase("route-"+proto, in))
			}
		}
	}
	// ---- out-of-range origins that ARE a valid index (the dealer, this participant, a third one) after narrowing
	// to 8 / 16 / 32 bits, carrying the dealer's real vector and share, BEFORE the honest messages: if one of them
	// is acted upon, the honest vector / share that follows is a duplicate and End differs ----
	ks := c10Narrow[:3]
	if thorough {
		ks = c10Narrow
	}
	for _, proto := range protos {
		for role := 0; role < 2; role++ {
			cx := newCx(proto, role, 3+r.IntN(3))
			n, my, d := cx.in.N, cx.in.My, cx.drive()
			P := cx.polys[2*d]
			third := (d + 1) % n
			if third == my {
				third = (third + 1) % n
			}
			for _, k := range ks {
				for _, i := range []int{d, my, third} {
					for ph := 0; ph < 3; ph++ {
						if !thorough && (ph+i)%3 != 0 && !(i == d && ph == 0) {
							continue
						}
						in := *cx.in
						in.Calls = append(in.Calls, cx.symbol(r, "start", false))
						hon := append(cx.restHonest(), bc(d, dkgMsgVec(P)), pv(d, dkgMsgShare(dkgPeval(P, int64(my+1)))))
						if ph == 0 {
							in.Calls = append(in.Calls, cx.outCalls(r, k+i)...)
						}
						in.Calls = append(in.Calls, hon...)
						in.Calls = append(in.Calls, to)
						if ph == 1 {
							in.Calls = append(in.Calls, cx.outCalls(r, k+i)...)
						}
						in.Calls = append(in.Calls, to)
						if ph == 2 {
							in.Calls = append(in.Calls, cx.outCalls(r, k+i)...)
						}
						in.Calls = append(in.Calls, end)
						cs = append(cs, mkcase("narrow-"+proto, in))
					}
				}
			}
		}
	}
	// ---- Start with seeds of every length around KeyGenSeedMinLen (nil, empty, 1, 31, 32, 33, long), as dealer
	// (refused below 32 bytes, and then every later call is refused) and as non-dealer (the seed is ignored) ----
	for _, proto := range protos {
		for role := 0; role < 2; role++ {
			for _, l := range []int{-1, 0, 1, 31, 32, 33, 64, 257, 4096} {
				if !thorough && role == 1 && proto != "joint" && l > 1 && l != 31 {
					continue
				}
				cx := newCx(proto, role, 3+r.IntN(2))
				d, my := cx.drive(), cx.in.My
				P := cx.polys[2*d]
				st := dkgCall{Op: "start", Nil: l < 0}
				if l > 0 {
					st.Seed = hx(rbytes(r, l))
				}
				in := *cx.in
				in.Calls = append([]dkgCall{st, {Op: "running"}}, cx.restHonest()...)
				in.Calls = append(in.Calls, bc(d, dkgMsgVec(P)), pv(d, dkgMsgShare(dkgPeval(P, int64(my+1)))), dkgCall{Op: "force", Orig: cx.in.N},
					to, to, end, st, cx.symbol(r, "start", false), st, to, to, end)
				cs = append(cs, mkcase("seedlen-"+proto, in))
			}
		}
	}
	// ---- a refused Start carrying ANOTHER valid seed (also a short one, nil), as dealer: the complaints that
	// follow are answered from the polynomial of the accepted Start ----
	for _, proto := range []string{"qual", "joint", "vss"} {
		for k, other := range [][]byte{rbytes(r, 32), rbytes(r, 48), rbytes(r, 5), nil} {
			cx := newCx(proto, 0, 4+r.IntN(2))
			my, n := cx.in.My, cx.in.N
			c1, c2 := (my+1)%n, (my+2)%n
			st2 := dkgCall{Op: "start", Seed: hx(other), Nil: other == nil}
			in := *cx.in
			in.Calls = append([]dkgCall{cx.symbol(r, "start", false), {Op: "running"}}, cx.restHonest()...)
			in.Calls = append(in.Calls, st2, bc(c1, dkgMsgComplaint(my)), st2, to, bc(c2, dkgMsgComplaint(my)), st2, to, end)
			cs = append(cs, mkcase(fmt.Sprintf("refused-start-other-seed-%s-%d", proto, k), in))
		}
	}
	return cs
}
