package main

import (
	"bytes"
	"encoding/json"
	"fmt"
	"math/big"
	"math/rand/v2"
	"strings"

	"github.com/onflow/crypto"
	"github.com/onflow/crypto/hash"
)

type c16In struct {
	Scalar string   `json:"scalar"`
	IdPk   bool     `json:"identity_pk,omitempty"`
	Tags   []string `json:"tags"` // application tags (hex) whose signatures of the pk bytes are offered as PoP
	Salt   uint64   `json:"salt"`
	// PkRoute: constructor of the verifying key object (see c01RoutePk); IdSrc: constructor of the identity key
	// (see c02IdentityKey; "zero-sk" = PublicKey() of the zero private key).  Scalar 00..00 = the zero private
	// key (aggregate of x and -x): its PoP is the identity signature and verifies under nothing.
	PkRoute string `json:"pk_route,omitempty"`
	IdSrc   string `json:"identity_src,omitempty"`
	// SkKind: "" = decoded scalar; "generated" (Scalar is the seed); "aggregated" (Scalar = sum of two halves)
	SkKind string `json:"sk_kind,omitempty"`
}

// the proof-of-possession hasher, rebuilt from the documented ciphersuite (not taken from the library)
func popHasherRef() hash.Hasher {
	h, err := hash.NewKMAC_128([]byte("BLS_POP_BLS12381G1_XOF:KMAC128_SSWU_RO_POP_"), []byte("H2C"), 128)
	if err != nil {
		panic(err)
	}
	return h
}

func init() {
	register(&Prop{
		ID:        "C16",
		Header:    "From Coq Require Import ZArith NArith List String.\nFrom V Require Import Lib.Hex Corr.C16Corr.\nImport ListNotations.\nOpen Scope string_scope.\n",
		Check:     "bad_ids",
		PropCheck: "prop_bad_ids",
		Gen:       c16Gen,
		Run:       c16Run,
		Rule:      "per key: the generated PoP and candidate strings offered to BLSVerifyPOP (the PoP itself, signatures of the public key bytes under application tags incl. empty, long, prefixes/suffixes of the PoP suite, PoP of another key, bit flips, identity, s+T) plus the converse (the PoP offered to Verify under each tag); keys 1, r-1, random, identity public key; added by the generator audit: 38 application tags (pieces, extensions, doublings, case / separator variants of both suite strings, the suites themselves, NUL and non-UTF8 bytes, lengths at the KMAC rate); the identity key from every constructor (constant, decoded, aggregated, removed, PublicKey() of the zero private key) and the zero private key itself (its PoP is the identity signature and verifies under nothing); the verifying key object from every constructor (decoded, compressed, aggregated, removed, ...) with BLSVerifyPOP as its FIRST use, generated and aggregated private keys, BLSGeneratePOP as the first use of a fresh private key object; wrong candidates offered BEFORE the genuine PoP and the genuine PoP again after all rejected ones; the other key's PoP verified under its own key first, ours under the other, the negated and a decoded copy of the right key; candidates negated, + order-3 point, x + p, all flag combinations, infinity with a stray byte, nil, empty, 49 and 96 bytes; runner-side: BLSGeneratePOP repeatable and its result unchanged, key encoding unchanged, non-BLS and nil keys refused with the typed error also with wrong-length candidates, no panic; distinct by input; limb-sparse private scalars decoded and aggregated; slices returned by Encode / EncodeCompressed (public key, both routes) and Encode (private key) overwritten before the PoP is generated and verified",
		Shard:     2,
	})
}

func c16Gen(tier string, r *rand.Rand) []Case {
	var cs []Case
	pop := "BLS_POP_BLS12381G1_XOF:KMAC128_SSWU_RO_POP_"
	sig := "BLS_SIG_BLS12381G1_XOF:KMAC128_SSWU_RO_POP_"
	h2c := "BLS12381G1_XOF:KMAC128_SSWU_RO_"
	tags := [][]byte{{}, []byte("a"), []byte("BLS_POP_"), []byte(pop), []byte(pop[:len(pop)-len(sig)+8]), []byte("BLS_"), rbytes(r, 1000),
		// crafted around the two suite strings: pieces, extensions, the suites themselves, doubled, case and
		// separator variants, NUL / non-UTF8 bytes, tags ending or starting like the other suite
		[]byte(sig), []byte(h2c), []byte(h2c + "POP_"), []byte("POP_"), []byte("BLS_POP_" + h2c), []byte("BLS_SIG_"), []byte("BLS_POP_" + sig),
		[]byte(pop + sig), []byte(pop + pop), []byte(sig + pop), []byte(pop[:len(pop)-1]), []byte(pop + "_"), []byte(pop[1:]), []byte("BLS_POP"), []byte("BLS_POP_BLS_SIG_"),
		[]byte("bls_pop_" + strings.ToLower(h2c) + "pop_"), []byte(strings.Replace(pop, "_", "-", -1)), []byte(pop + "\x00"), append([]byte{0}, []byte(pop)...), {0}, {0xff, 0xfe},
		[]byte(strings.Repeat("BLS_POP_", 21)), rbytes(r, 168-len(sig)), rbytes(r, 168-len(sig)-3), rbytes(r, 164), []byte(" " + pop), []byte(pop + " ")}
	var th []string
	for _, t := range tags {
		th = append(th, hx(t))
	}
	keys := []*big.Int{big.NewInt(1), new(big.Int).Sub(blsR, big.NewInt(1))}
	n := 3
	if tier == "thorough" {
		n = 30
	}
	for i := 0; i < n; i++ {
		k := new(big.Int).Mod(new(big.Int).SetBytes(rbytes(r, 40)), new(big.Int).Sub(blsR, big.NewInt(1)))
		keys = append(keys, k.Add(k, big.NewInt(1)))
	}
	for _, k := range keys {
		cs = append(cs, mkcase("key", c16In{Scalar: hx(fixed(k, 32)), Tags: th, Salt: r.Uint64()}))
	}
	cs = append(cs, mkcase("identity-pk", c16In{Scalar: hx(fixed(big.NewInt(5), 32)), IdPk: true, Tags: th[:2], Salt: r.Uint64()}))
	// the identity key from every constructor (the cached identity flag is all that refuses it: H_pop(enc O)
	// times zero is the identity signature), also as PublicKey() of the zero private key whose PoP is offered
	for _, src := range []string{"decoded", "aggregated", "removed", "zero-sk"} {
		cs = append(cs, mkcase("identity-pk", c16In{Scalar: hx(fixed(big.NewInt(5), 32)), IdPk: true, IdSrc: src, Tags: th[:3], Salt: r.Uint64()}))
	}
	cs = append(cs, mkcase("zero-private-key", c16In{Scalar: hx(make([]byte, 32)), Tags: th[:3], Salt: r.Uint64()}))
	// the verifying key object from every constructor (BLSVerifyPOP encodes the key: a key that was decoded,
	// aggregated or removed-from has never been encoded before), generated and aggregated private keys
	rk := func() string {
		k := new(big.Int).Mod(new(big.Int).SetBytes(rbytes(r, 40)), new(big.Int).Sub(blsR, big.NewInt(1)))
		return hx(fixed(k.Add(k, big.NewInt(1)), 32))
	}
	for i, rt := range []string{"decoded", "decoded-compressed", "agg-single", "agg-with-identity", "agg-split", "removed", "removed-identity", "via-encoded-sk"} {
		if tier != "thorough" && i%2 == 1 {
			continue
		}
		cs = append(cs, mkcase("pk-route", c16In{Scalar: rk(), PkRoute: rt, Tags: th[i : i+4], Salt: r.Uint64()}))
	}
	cs = append(cs, mkcase("sk-generated", c16In{Scalar: hx(rbytes(r, 48)), SkKind: "generated", Tags: th[3:6], Salt: r.Uint64()}))
	cs = append(cs, mkcase("sk-aggregated", c16In{Scalar: rk(), SkKind: "aggregated", Tags: th[5:8], PkRoute: "decoded", Salt: r.Uint64()}))
	// limb-sparse private scalars (zero low 64 / 128 / 192 bits), decoded and as the sum of two keys
	for i, sh := range []uint{64, 128, 192} {
		k := new(big.Int).Lsh(big.NewInt(int64(1+2*r.IntN(500))), sh)
		cs = append(cs, mkcase("sk-limb-sparse", c16In{Scalar: hx(fixed(k, 32)), Tags: th[i : i+2], Salt: r.Uint64()}))
		cs = append(cs, mkcase("sk-limb-sparse", c16In{Scalar: hx(fixed(k, 32)), SkKind: "aggregated", Tags: th[i+2 : i+4], PkRoute: "decoded", Salt: r.Uint64()}))
	}
	return cs
}

func c16Run(c Case) (Result, error) {
	var in c16In
	if err := json.Unmarshal(c.Input, &in); err != nil {
		return Result{}, err
	}
	rr := rand.New(rand.NewPCG(in.Salt, 0x16))
	// mkSk builds a FRESH private key object for the case (its public key not computed yet)
	scalarHex := in.Scalar
	mkSk := func() (crypto.PrivateKey, error) {
		switch {
		case in.SkKind == "generated":
			return crypto.GeneratePrivateKey(crypto.BLSBLS12381, unhx(in.Scalar))
		case new(big.Int).SetBytes(unhx(in.Scalar)).Sign() == 0:
			return c04ZeroKey(rand.New(rand.NewPCG(in.Salt, 0x1600)))
		case in.SkKind == "aggregated":
			sc := new(big.Int).SetBytes(unhx(in.Scalar))
			h := new(big.Int).Rsh(sc, 1)
			if h.Sign() == 0 {
				h.SetInt64(1)
			}
			a, e1 := crypto.DecodePrivateKey(crypto.BLSBLS12381, fixed(h, 32))
			b, e2 := crypto.DecodePrivateKey(crypto.BLSBLS12381, fixed(new(big.Int).Mod(new(big.Int).Sub(sc, h), blsR), 32))
			if e1 != nil || e2 != nil {
				return nil, fmt.Errorf("%v %v", e1, e2)
			}
			return crypto.AggregateBLSPrivateKeys([]crypto.PrivateKey{a, b})
		}
		return crypto.DecodePrivateKey(crypto.BLSBLS12381, unhx(in.Scalar))
	}
	sk, err := mkSk()
	if err != nil {
		return Result{}, err
	}
	scalarHex = hx(sk.Encode())
	scalar := new(big.Int).SetBytes(sk.Encode())
	// BLSGeneratePOP as the FIRST use of a fresh private key object
	skFresh, _ := mkSk()
	popFresh, errFresh := crypto.BLSGeneratePOP(skFresh)
	var pk crypto.PublicKey = sk.PublicKey()
	if in.PkRoute != "" && scalar.Sign() != 0 {
		if pk, err = c01RoutePk(in.PkRoute, sk, scalar, rr); err != nil {
			return Result{}, implViolation("public key through route %q: %v", in.PkRoute, err)
		}
	}
	if in.IdPk {
		if in.IdSrc == "zero-sk" {
			z, e := c04ZeroKey(rr)
			if e != nil {
				return Result{}, e
			}
			pk = z.PublicKey()
		} else if pk, err = c02IdentityKey(in.IdSrc, rr); err != nil {
			return Result{}, implViolation("identity key through route %q: %v", in.IdSrc, err)
		}
	}
	// the key object's FIRST use is BLSVerifyPOP (before anything encodes it) when it comes from a constructor
	var firstUse string
	if in.PkRoute != "" || in.IdSrc != "" {
		if p0, e := crypto.BLSGeneratePOP(sk); e == nil {
			ok, e2 := crypto.BLSVerifyPOP(pk, p0)
			firstUse = verdictClass(ok, e2)
		}
	}
	pkBytes := append([]byte{}, pk.Encode()...)
	// encodings handed out are the caller's values: overwriting them must not reach the key (BLSGeneratePOP and
	// BLSVerifyPOP hash the key's encoding)
	for _, e := range [][]byte{pk.Encode(), pk.EncodeCompressed(), sk.PublicKey().Encode(), sk.Encode()} {
		for i := range e {
			e[i] ^= 0x5a
		}
	}
	if !bytes.Equal(pk.Encode(), pkBytes) {
		return Result{}, implViolation("overwriting a slice returned by Encode() changed the key's encoding: %x, was %x", pk.Encode(), pkBytes)
	}
	one, _ := crypto.DecodePrivateKey(crypto.BLSBLS12381, fixed(big.NewInt(1), 32))
	ref := popHasherRef()
	hEnc, _ := one.Sign(pkBytes, ref) // H_pop(enc pk) as a point
	pop, err := crypto.BLSGeneratePOP(sk)
	if err != nil {
		return Result{}, err
	}
	signOut := pop
	if in.IdPk {
		// the PoP of sk is for sk's own key; for the identity-key group the "expected signature"
		// slot holds sk's signature of the identity key bytes under the PoP hasher
		signOut, _ = sk.Sign(pkBytes, ref)
	}
	type cand struct {
		Fam   string `json:"fam"`
		Bytes string `json:"bytes"`
		V     string `json:"verdict"`
	}
	var cands []cand
	add := func(fam string, b []byte) {
		ok, e := crypto.BLSVerifyPOP(pk, b)
		cands = append(cands, cand{fam, hx(b), verdictClass(ok, e)})
	}
	if errFresh != nil || !bytes.Equal(popFresh, pop) {
		return Result{}, implViolation("BLSGeneratePOP as the first use of a fresh private key object gives (%x, %v), %x after PublicKey() was called", popFresh, errFresh, pop)
	}
	popCopy := append([]byte{}, pop...)
	// wrong candidates BEFORE the first verification of the genuine PoP (verification keeps no memory)
	if !in.IdPk {
		fl0 := append([]byte{}, pop...)
		fl0[47] ^= 1
		add("bitflip-before-first-valid", fl0)
		add("nil-before-first-valid", nil)
	}
	add("pop", pop)
	if firstUse != "" && firstUse != cands[len(cands)-1].V {
		return Result{}, implViolation("BLSVerifyPOP as the first use of the key object (route %q%q) gave %s, later %s", in.PkRoute, in.IdSrc, firstUse, cands[len(cands)-1].V)
	}
	for _, th := range in.Tags {
		hs := crypto.NewExpandMsgXOFKMAC128(string(unhx(th)))
		s, _ := sk.Sign(pkBytes, hs)
		add("sig-of-pk-bytes", s)
		// converse: the PoP offered as a signature of the pk bytes (and of another message) under this tag
		for _, m := range [][]byte{pkBytes, {}} {
			ok, e := pk.Verify(pop, m, hs)
			if ok || e != nil {
				cands = append(cands, cand{"pop-as-sig", hx(pop), "pop-accepted-as-signature"})
			}
		}
	}
	k2, _ := crypto.GeneratePrivateKey(crypto.BLSBLS12381, rbytes(rr, 32))
	pop2, _ := crypto.BLSGeneratePOP(k2)
	// the other key's PoP is verified under ITS key first (true), then offered here; ours is offered there
	if ok, e := crypto.BLSVerifyPOP(k2.PublicKey(), pop2); !ok || e != nil {
		return Result{}, implViolation("the PoP of a generated key does not verify under its own key: (%v, %v)", ok, e)
	}
	add("pop-of-other-key", pop2)
	if scalar.Sign() != 0 && !bytes.Equal(k2.PublicKey().Encode(), sk.PublicKey().Encode()) {
		if ok, e := crypto.BLSVerifyPOP(k2.PublicKey(), pop); ok || e != nil {
			return Result{}, implViolation("the PoP of key %s verifies under the unrelated key %x: (%v, %v)", scalarHex, k2.PublicKey().Encode(), ok, e)
		}
		// ... and under the negated key, under a decoded copy of the right key it must verify
		ng, _ := crypto.DecodePrivateKey(crypto.BLSBLS12381, fixed(new(big.Int).Sub(blsR, scalar), 32))
		if ok, e := crypto.BLSVerifyPOP(ng.PublicKey(), pop); ok || e != nil {
			return Result{}, implViolation("the PoP of key %s verifies under the negated key: (%v, %v)", scalarHex, ok, e)
		}
		dec, e := crypto.DecodePublicKey(crypto.BLSBLS12381, sk.PublicKey().Encode())
		if e != nil {
			return Result{}, implViolation("the public key's encoding does not decode: %v", e)
		}
		for _, w := range [][]byte{pop2, pop, pop2} {
			ok, e := crypto.BLSVerifyPOP(dec, w)
			if e != nil || ok != bytes.Equal(w, pop) {
				return Result{}, implViolation("BLSVerifyPOP under a decoded copy of key %s on %x: (%v, %v)", scalarHex, w, ok, e)
			}
		}
	}
	if P, ok := e1DecompressSafe(pop); ok {
		add("negated", e1Compress(e1Neg(P)))
		add("plus-order-3", e1Compress(e1Add(P, e1SmallOrder(rr, 3))))
		if !P.inf {
			if x2 := new(big.Int).Add(P.x, blsP); x2.BitLen() <= 381 {
				b := fixed(x2, 48)
				b[0] |= pop[0] & 0xE0
				add("x-plus-p", b)
			}
		}
	}
	for _, f := range []byte{0x00, 0x20, 0x40, 0x60, 0xC0, 0xE0} {
		b := append([]byte{}, pop...)
		b[0] = (b[0] & 0x1F) | f
		if !bytes.Equal(b, pop) {
			add("flags", b)
		}
	}
	strayInf := append([]byte{0xC0}, make([]byte, 47)...)
	strayInf[47] = 1
	add("infinity-stray", strayInf)
	add("nil", nil)
	add("empty", []byte{})
	add("long-49", append(append([]byte{}, pop...), 0))
	add("long-96", append(append([]byte{}, pop...), pop...))
	fl := append([]byte{}, pop...)
	bit := rr.IntN(384)
	fl[bit/8] ^= 1 << (7 - bit%8)
	add("bitflip", fl)
	inf := make([]byte, 48)
	inf[0] = 0xC0
	add("identity-sig", inf)
	add("plusT", e1Compress(e1Add(e1Decompress(pop), e1Torsion(rr))))
	add("short", pop[:47])
	add("pop-again", pop) // after all the rejected candidates
	if again, e := crypto.BLSGeneratePOP(sk); e != nil || !bytes.Equal(again, popCopy) || !bytes.Equal(pop, popCopy) {
		return Result{}, implViolation("BLSGeneratePOP is not repeatable or its earlier result changed: first %x, held slice now %x, second call (%x, %v)", popCopy, pop, again, e)
	}
	if !bytes.Equal(pk.Encode(), pkBytes) {
		return Result{}, implViolation("the key's encoding changed during the case: %x, was %x", pk.Encode(), pkBytes)
	}
	// typed errors also with a nil key and together with a candidate of the wrong length
	for _, k := range []crypto.PublicKey{nil} {
		for _, cnd := range [][]byte{pop, pop[:47], nil} {
			var ok bool
			var e error
			if pn, m := catch(func() { ok, e = crypto.BLSVerifyPOP(k, cnd) }); pn {
				return Result{}, implViolation("BLSVerifyPOP panics on a nil key: %s", m)
			}
			if !crypto.IsNotBLSKeyError(e) || ok {
				return Result{}, implViolation("BLSVerifyPOP(nil key, %d-byte candidate) = (%v, %v)", len(cnd), ok, e)
			}
		}
	}
	{
		var e error
		var sg crypto.Signature
		if pn, m := catch(func() { sg, e = crypto.BLSGeneratePOP(nil) }); pn {
			return Result{}, implViolation("BLSGeneratePOP panics on a nil key: %s", m)
		}
		if !crypto.IsNotBLSKeyError(e) || sg != nil {
			return Result{}, implViolation("BLSGeneratePOP(nil) = (%x, %v)", sg, e)
		}
	}
	// non-BLS key
	ek, _ := crypto.GeneratePrivateKey(crypto.ECDSAP256, rbytes(rr, 32))
	if _, e := crypto.BLSGeneratePOP(ek); !crypto.IsNotBLSKeyError(e) {
		return Result{}, implViolation("BLSGeneratePOP accepted a non-BLS key")
	}
	for _, cnd := range [][]byte{pop, pop[:47], nil, make([]byte, 64)} {
		if ok, e := crypto.BLSVerifyPOP(ek.PublicKey(), cnd); !crypto.IsNotBLSKeyError(e) || ok {
			return Result{}, implViolation("BLSVerifyPOP(non-BLS key, %d-byte candidate) = (%v, %v)", len(cnd), ok, e)
		}
	}
	if !in.IdPk {
		ref2, _ := sk.Sign(pkBytes, ref)
		if !bytes.Equal(ref2, pop) {
			cands = append(cands, cand{"pop-differs-from-reference-hasher", hx(pop), "mismatch"})
		}
	}
	var items []string
	for _, cd := range cands {
		items = append(items, fmt.Sprintf("(%s, %s)", cqs(cd.Bytes), cqs(cd.V)))
	}
	term := fmt.Sprintf("SigCase %s %s %s %s %s", cqs(scalarHex), cqs(hx(hEnc)), cqbool(in.IdPk), cqs(hx(signOut)), cqlist(items))
	return Result{Coq: term, Key: string(c.Input), Nontrivial: true,
		Obs: map[string]any{"pop": hx(pop), "candidates": cands}}, nil
}
