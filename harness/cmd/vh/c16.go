package main

import (
	"bytes"
	"encoding/json"
	"fmt"
	"math/big"
	"math/rand/v2"

	"github.com/onflow/crypto"
	"github.com/onflow/crypto/hash"
)

type c16In struct {
	Scalar string   `json:"scalar"`
	IdPk   bool     `json:"identity_pk,omitempty"`
	Tags   []string `json:"tags"` // application tags (hex) whose signatures of the pk bytes are offered as PoP
	Salt   uint64   `json:"salt"`
}

// the proof-of-possession hasher, rebuilt from the documented ciphersuite (not taken from the library)
func popHasherRef() hash.Hasher {
	h, err := hash.NewKMAC_128([]byte("BLS_POP_BLS12381G1_XOF:KMAC128_SSWU_RO_POP_"), []byte("H2C"), 128)
	if err != nil {
		panic(err)
	}
	return h
}

func init() {
	register(&Prop{
		ID:        "C16",
		Header:    "From Coq Require Import ZArith NArith List String.\nFrom V Require Import Lib.Hex Corr.C16Corr.\nImport ListNotations.\nOpen Scope string_scope.\n",
		Check:     "bad_ids",
		PropCheck: "prop_bad_ids",
		Gen:       c16Gen,
		Run:       c16Run,
		Rule:      "per key: the generated PoP and candidate strings offered to BLSVerifyPOP (the PoP itself, signatures of the public key bytes under application tags incl. empty, long, prefixes/suffixes of the PoP suite, PoP of another key, bit flips, identity, s+T) plus the converse (the PoP offered to Verify under each tag); keys 1, r-1, random, identity public key; distinct by input",
		Shard:     2,
	})
}

func c16Gen(tier string, r *rand.Rand) []Case {
	var cs []Case
	pop := "BLS_POP_BLS12381G1_XOF:KMAC128_SSWU_RO_POP_"
	sig := "BLS_SIG_BLS12381G1_XOF:KMAC128_SSWU_RO_POP_"
	tags := [][]byte{{}, []byte("a"), []byte("BLS_POP_"), []byte(pop), []byte(pop[:len(pop)-len(sig)+8]), []byte("BLS_"), rbytes(r, 1000)}
	var th []string
	for _, t := range tags {
		th = append(th, hx(t))
	}
	keys := []*big.Int{big.NewInt(1), new(big.Int).Sub(blsR, big.NewInt(1))}
	n := 3
	if tier == "thorough" {
		n = 30
	}
	for i := 0; i < n; i++ {
		k := new(big.Int).Mod(new(big.Int).SetBytes(rbytes(r, 40)), new(big.Int).Sub(blsR, big.NewInt(1)))
		keys = append(keys, k.Add(k, big.NewInt(1)))
	}
	for _, k := range keys {
		cs = append(cs, mkcase("key", c16In{hx(fixed(k, 32)), false, th, r.Uint64()}))
	}
	cs = append(cs, mkcase("identity-pk", c16In{hx(fixed(big.NewInt(5), 32)), true, th[:2], r.Uint64()}))
	return cs
}

func c16Run(c Case) (Result, error) {
	var in c16In
	if err := json.Unmarshal(c.Input, &in); err != nil {
		return Result{}, err
	}
	rr := rand.New(rand.NewPCG(in.Salt, 0x16))
	sk, err := crypto.DecodePrivateKey(crypto.BLSBLS12381, unhx(in.Scalar))
	if err != nil {
		return Result{}, err
	}
	var pk crypto.PublicKey = sk.PublicKey()
	if in.IdPk {
		pk = crypto.IdentityBLSPublicKey()
	}
	pkBytes := pk.Encode()
	one, _ := crypto.DecodePrivateKey(crypto.BLSBLS12381, fixed(big.NewInt(1), 32))
	ref := popHasherRef()
	hEnc, _ := one.Sign(pkBytes, ref) // H_pop(enc pk) as a point
	pop, err := crypto.BLSGeneratePOP(sk)
	if err != nil {
		return Result{}, err
	}
	signOut := pop
	if in.IdPk {
		// the PoP of sk is for sk's own key; for the identity-key group the "expected signature"
		// slot holds sk's signature of the identity key bytes under the PoP hasher
		signOut, _ = sk.Sign(pkBytes, ref)
	}
	type cand struct {
		Fam   string `json:"fam"`
		Bytes string `json:"bytes"`
		V     string `json:"verdict"`
	}
	var cands []cand
	add := func(fam string, b []byte) {
		ok, e := crypto.BLSVerifyPOP(pk, b)
		cands = append(cands, cand{fam, hx(b), verdictClass(ok, e)})
	}
	add("pop", pop)
	for _, th := range in.Tags {
		hs := crypto.NewExpandMsgXOFKMAC128(string(unhx(th)))
		s, _ := sk.Sign(pkBytes, hs)
		add("sig-of-pk-bytes", s)
		// converse: the PoP offered as a signature of the pk bytes (and of another message) under this tag
		for _, m := range [][]byte{pkBytes, {}} {
			ok, e := pk.Verify(pop, m, hs)
			if ok || e != nil {
				cands = append(cands, cand{"pop-as-sig", hx(pop), "pop-accepted-as-signature"})
			}
		}
	}
	k2, _ := crypto.GeneratePrivateKey(crypto.BLSBLS12381, rbytes(rr, 32))
	pop2, _ := crypto.BLSGeneratePOP(k2)
	add("pop-of-other-key", pop2)
	fl := append([]byte{}, pop...)
	bit := rr.IntN(384)
	fl[bit/8] ^= 1 << (7 - bit%8)
	add("bitflip", fl)
	inf := make([]byte, 48)
	inf[0] = 0xC0
	add("identity-sig", inf)
	add("plusT", e1Compress(e1Add(e1Decompress(pop), e1Torsion(rr))))
	add("short", pop[:47])
	// non-BLS key
	ek, _ := crypto.GeneratePrivateKey(crypto.ECDSAP256, rbytes(rr, 32))
	if _, e := crypto.BLSGeneratePOP(ek); !crypto.IsNotBLSKeyError(e) {
		return Result{}, implViolation("BLSGeneratePOP accepted a non-BLS key")
	}
	if _, e := crypto.BLSVerifyPOP(ek.PublicKey(), pop); !crypto.IsNotBLSKeyError(e) {
		return Result{}, implViolation("BLSVerifyPOP accepted a non-BLS key")
	}
	if !in.IdPk {
		ref2, _ := sk.Sign(pkBytes, ref)
		if !bytes.Equal(ref2, pop) {
			cands = append(cands, cand{"pop-differs-from-reference-hasher", hx(pop), "mismatch"})
		}
	}
	var items []string
	for _, cd := range cands {
		items = append(items, fmt.Sprintf("(%s, %s)", cqs(cd.Bytes), cqs(cd.V)))
	}
	term := fmt.Sprintf("SigCase %s %s %s %s %s", cqs(in.Scalar), cqs(hx(hEnc)), cqbool(in.IdPk), cqs(hx(signOut)), cqlist(items))
	return Result{Coq: term, Key: string(c.Input), Nontrivial: true,
		Obs: map[string]any{"pop": hx(pop), "candidates": cands}}, nil
}
