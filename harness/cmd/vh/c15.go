package main

import (
	"encoding/binary"
	"encoding/json"
	"fmt"
	"math"
	"math/rand/v2"
	"strconv"
	"strings"

	"github.com/onflow/crypto/random"
	"golang.org/x/crypto/chacha20"
)

// C15 case: a ChaCha20 PRG (seed, customizer) and a list of sampling operations.
// genericPRG and randCore are unexported, so the real random.NewChacha20PRG object
// is driven; the tape the operations consumed is obtained independently from a
// second generator with the same seed by raw Read (C14: Reads concatenate).
type c15Op struct {
	Op string `json:"op"`          // uintn | perm | subperm | samples | shuffle | read | restore (continue on RestoreChacha20PRG(Store()))
	N  string `json:"n,omitempty"` // decimal; uint64 for uintn, int64 otherwise
	M  int64  `json:"m,omitempty"`
	K  int    `json:"k,omitempty"` // read size
}
type c15In struct {
	Seed string  `json:"seed"`
	Cust string  `json:"cust"`
	Ops  []c15Op `json:"ops"`
	// Start: when non-zero the generator is first moved to this byte position of its stream (a state with that
	// counter is restored); the tape is then the keystream from that position, computed independently
	Start uint64 `json:"start,omitempty"`
}

const c15TrackMax = 4000 // largest n for which the harness swaps a real identity slice

func init() {
	register(&Prop{
		ID:        "C15",
		Header:    "From Coq Require Import ZArith NArith List String.\nFrom V Require Import Lib.Hex Corr.C15Corr.\nImport ListNotations.\nOpen Scope string_scope.\n",
		Check:     "bad_ids",
		PropCheck: "prop_bad_ids",
		Gen:       c15Gen,
		Run:       c15Run,
		Rule:      "op sequences on random.NewChacha20PRG (UintN at n in {1,2,3,2^k,2^k+-1,2^64-1} and random n, large-then-small n so that stale uintnBuffer bytes matter, Permutation/SubPermutation/Samples/Shuffle for all (n,m) with n<=8 and random (n,m), Samples with huge n, negative and inconsistent sizes, UintN(0); the same mixes on generator objects obtained from RestoreChacha20PRG(Store()) between the operations; raw Reads of 0..65 bytes between the samplers; sizes at narrowing boundaries: Permutation / Shuffle / Samples whose counter crosses 2^8, 2^16, 2^32 inside one call, negative sizes whose low 8 / 16 / 32 bits are a small valid size, sample sizes exceeding the population by a multiple of 2^8 / 2^16 / 2^32; every slice returned by Permutation / SubPermutation (up to its capacity) is overwritten by the harness and re-read at the end - a later call must not write into it - and an error must come with a nil slice); every case is run twice with the same seed and ends with a raw 8-byte Read; a case is non-trivial if it consumed tape bytes or exercised an error/panic; distinct by (seed, customizer, op list); the same mixes on generators restored at byte positions 2^32-64 .. 2^38-4096 with the tape from x/crypto's ChaCha20 at that counter; checkpoints kept un-copied while the original generator draws and stores again",
		Shard:     16,
	})
}

func c15u64s(n uint64) string { return strconv.FormatUint(n, 10) }
func c15i64s(n int64) string  { return strconv.FormatInt(n, 10) }

func c15Gen(tier string, r *rand.Rand) []Case {
	var cs []Case
	th := tier == "thorough"
	mk := func(kind string, ops []c15Op) {
		cs = append(cs, mkcase(kind, c15In{Seed: hx(rbytes(r, 32)), Cust: hx(rbytes(r, r.IntN(13))), Ops: ops}))
	}
	un := func(n uint64) c15Op { return c15Op{Op: "uintn", N: c15u64s(n)} }

	// boundary values of n for UintN
	bnd := []uint64{1, 2, 3}
	for k := 1; k <= 63; k++ {
		p := uint64(1) << uint(k)
		bnd = append(bnd, p-1, p, p+1)
	}
	bnd = append(bnd, math.MaxUint64, math.MaxUint64-1)
	reps := 3
	if th {
		reps = 12
	}
	for i := 0; i < len(bnd); i += 6 {
		var ops []c15Op
		for j := i; j < i+6 && j < len(bnd); j++ {
			for k := 0; k < reps; k++ {
				ops = append(ops, un(bnd[j]))
			}
		}
		mk("uintn-boundary", ops)
	}
	// large n then small n: the high bytes of uintnBuffer are stale and must be masked
	nst := 60
	if th {
		nst = 300
	}
	for i := 0; i < nst; i++ {
		var ops []c15Op
		for j := 0; j < 5; j++ {
			big := bnd[len(bnd)-1-r.IntN(40)]
			small := bnd[r.IntN(60)]
			ops = append(ops, un(big), un(small), un(1), un(small+uint64(r.IntN(3))))
		}
		mk("uintn-stale-mix", ops)
	}
	// random n of random bit length
	nrn := 80
	if th {
		nrn = 600
	}
	for i := 0; i < nrn; i++ {
		var ops []c15Op
		for j := 0; j < 8; j++ {
			n := r.Uint64() >> uint(r.IntN(64))
			if n == 0 {
				n = 1
			}
			ops = append(ops, un(n), un(n))
		}
		mk("uintn-random", ops)
	}
	// UintN(0) panics and leaves the generator usable
	mk("uintn-zero", []c15Op{un(0), un(5), un(0), un(1 << 40)})
	mk("uintn-zero", []c15Op{un(300), un(0), un(300)})
	// all (n, m) with n <= 8 (and m = n+1: inconsistent)
	for n := int64(0); n <= 8; n++ {
		for m := int64(0); m <= n+1; m++ {
			ops := []c15Op{
				{Op: "subperm", N: c15i64s(n), M: m}, {Op: "samples", N: c15i64s(n), M: m},
				{Op: "perm", N: c15i64s(n)}, {Op: "shuffle", N: c15i64s(n)}, un(uint64(n) + 1),
			}
			rp := 2
			if th {
				rp = 6
			}
			for k := 0; k < rp; k++ {
				mk("small-n-m", ops)
			}
		}
	}
	// random (n, m)
	nr := 40
	maxn := 300
	if th {
		nr = 400
		maxn = 1000
	}
	for i := 0; i < nr; i++ {
		n := int64(1 + r.IntN(maxn))
		m := int64(r.IntN(int(n) + 1))
		ops := []c15Op{un(r.Uint64() | 1<<63), {Op: "perm", N: c15i64s(n)}, un(uint64(n)),
			{Op: "subperm", N: c15i64s(n), M: m}, {Op: "samples", N: c15i64s(n), M: m}, un(3), {Op: "shuffle", N: c15i64s(n)}}
		mk("random-n-m", ops)
	}
	// Samples over a huge population with few draws (O(m) time, no allocation in the library)
	for _, n := range []int64{1 << 31, 1<<40 + 3, 1 << 62, math.MaxInt64, 1<<32 - 1, 1<<56 + 1} {
		for _, m := range []int64{1, 3, 9} {
			mk("samples-huge-n", []c15Op{un(math.MaxUint64), {Op: "samples", N: c15i64s(n), M: m}, un(2)})
		}
	}
	// negative and inconsistent sizes; the generator state must be unchanged
	negs := []int64{-1, -2, -300, math.MinInt64, math.MinInt64 + 1}
	for _, a := range negs {
		mk("negative-args", []c15Op{
			{Op: "perm", N: c15i64s(a)}, {Op: "shuffle", N: c15i64s(a)},
			{Op: "subperm", N: c15i64s(a), M: a}, {Op: "subperm", N: "5", M: a}, {Op: "subperm", N: c15i64s(a), M: 0},
			{Op: "subperm", N: c15i64s(a), M: 2},
			{Op: "samples", N: c15i64s(a), M: a}, {Op: "samples", N: "5", M: a}, {Op: "samples", N: c15i64s(a), M: 0},
			{Op: "samples", N: c15i64s(a), M: 3},
			{Op: "subperm", N: "2", M: 5}, {Op: "samples", N: "2", M: 5}, {Op: "samples", N: "0", M: 0},
			un(7), {Op: "perm", N: "4"},
		})
	}
	// the generator object comes from the OTHER constructor: RestoreChacha20PRG(Store()) between the
	// operations (fresh uintnBuffer, fresh cipher object, same stream)
	rs := c15Op{Op: "restore"}
	nvr := 8
	if th {
		nvr = 100
	}
	for i := 0; i < nvr; i++ {
		n := int64(2 + r.IntN(60))
		m := int64(r.IntN(int(n) + 1))
		big := bnd[len(bnd)-1-r.IntN(40)]
		ops := []c15Op{rs, un(big), rs, un(bnd[r.IntN(60)]), un(257), rs, {Op: "perm", N: c15i64s(n)}, rs,
			{Op: "subperm", N: c15i64s(n), M: m}, {Op: "read", K: 1 + r.IntN(70)}, rs, {Op: "samples", N: c15i64s(n), M: m}, rs, rs,
			{Op: "shuffle", N: c15i64s(n)}, un(big | 1), rs}
		mk("via-restore", ops)
	}
	// raw reads (0, 1, 8, 65 bytes ...) between the samplers: they share one stream and one scratch buffer
	nri := 6
	if th {
		nri = 80
	}
	for i := 0; i < nri; i++ {
		rd := func() c15Op { return c15Op{Op: "read", K: []int{0, 1, 3, 8, 9, 64, 65}[r.IntN(7)]} }
		n := int64(1 + r.IntN(50))
		ops := []c15Op{un(1<<40 + uint64(i)), rd(), un(5), rd(), un(300), rd(), {Op: "perm", N: c15i64s(n)}, rd(),
			{Op: "samples", N: c15i64s(n), M: n / 2}, rd(), un(1), rd(), {Op: "subperm", N: c15i64s(n), M: n / 3}, un(math.MaxUint64)}
		mk("reads-interleaved", ops)
	}
	// deep stream positions: the same sampling mixes on a generator restored at byte positions around and
	// beyond 2^32 (more than 4 GiB drawn; the documented limit is 2^38), also through Store / Restore there
	for _, st := range []uint64{1<<32 - 64, 1<<32 - 1, 1 << 32, 1<<32 + 130, 5<<32 + 77, 1<<37 + 1, 1<<38 - 4096} {
		ops := []c15Op{un(1000), {Op: "perm", N: "5"}, {Op: "restore"}, un(1 << 40), {Op: "subperm", N: "9", M: 4}, {Op: "samples", N: "100", M: 3}, {Op: "read", K: 70}, {Op: "restore"}, {Op: "shuffle", N: "6"}}
		cs = append(cs, mkcase("deep-position", c15In{Seed: hx(rbytes(r, 32)), Cust: hx(rbytes(r, r.IntN(13))), Ops: ops, Start: st}))
	}
	// sizes at narrowing boundaries.  (1) the population counter i+1 resp. n-i crosses 2^8 / 2^16 / 2^32
	// inside one call; (2) negative sizes whose low 8 / 16 / 32 bits are a small valid size; (3) sample
	// sizes larger than the population by a multiple of 2^8 / 2^16 / 2^32
	for _, n := range []int64{255, 256, 257, 258} {
		mk("narrowing-sizes", []c15Op{{Op: "perm", N: c15i64s(n)}, {Op: "shuffle", N: c15i64s(n)}, {Op: "subperm", N: c15i64s(n), M: n - 254}, un(uint64(n))})
	}
	for _, n := range []int64{257, 258, 1<<16 + 1, 1<<16 + 2, 1<<32 + 1, 1<<32 + 2, 1 << 32, 1<<48 + 1} {
		mk("narrowing-sizes", []c15Op{{Op: "samples", N: c15i64s(n), M: 3}, un(uint64(n)), {Op: "samples", N: c15i64s(n), M: 0}, un(uint64(n) - 1)})
	}
	for _, w := range []int64{1 << 8, 1 << 16, 1 << 32} {
		a := -w + 4 // negative, low bits = 4
		mk("narrowing-sizes", []c15Op{
			{Op: "perm", N: c15i64s(a)}, {Op: "shuffle", N: c15i64s(a)}, {Op: "subperm", N: c15i64s(a), M: 0}, {Op: "subperm", N: c15i64s(a), M: 2},
			{Op: "samples", N: c15i64s(a), M: 0}, {Op: "samples", N: c15i64s(a), M: 2},
			{Op: "subperm", N: "5", M: -w + 2}, {Op: "samples", N: "5", M: -w + 2}, // negative m, low bits = 2
			{Op: "subperm", N: "5", M: w + 2}, {Op: "samples", N: "5", M: w + 2}, {Op: "subperm", N: "5", M: w}, {Op: "samples", N: "5", M: w}, // m > n, low bits <= n
			{Op: "subperm", N: "0", M: w}, {Op: "samples", N: "0", M: w},
			un(7), {Op: "perm", N: "4"},
		})
	}
	return cs
}

type c15Obs struct {
	Op    string   `json:"op"`
	Val   string   `json:"val,omitempty"`
	Out   []int    `json:"out,omitempty"`
	Swaps [][2]int `json:"swaps,omitempty"`
	Final []int    `json:"final,omitempty"`
	Err   string   `json:"err,omitempty"`
	Panic bool     `json:"panic,omitempty"`
}

func c15ErrClass(err error) int {
	if err == nil {
		return 0
	}
	s := err.Error()
	switch {
	case strings.Contains(s, "population size cannot be negative"):
		return 1
	case strings.Contains(s, "sample size cannot be negative"):
		return 2
	case strings.Contains(s, "cannot be larger than entire population"):
		return 3
	}
	return 99
}

func c15Z(n int64) string { return fmt.Sprintf("(%d)%%Z", n) }

func c15Zlist(l []int) string {
	s := make([]string, len(l))
	for i, x := range l {
		s[i] = strconv.Itoa(x)
	}
	return "[" + strings.Join(s, "; ") + "]%Z"
}

func c15Pairs(l [][2]int) string {
	s := make([]string, len(l))
	for i, x := range l {
		s[i] = fmt.Sprintf("(%d, %d)", x[0], x[1])
	}
	return "[" + strings.Join(s, "; ") + "]%Z"
}

// one run of the op list on a fresh generator; returns Coq op terms, observations, bytes consumed
func c15RunOnce(in c15In) ([]string, []c15Obs, uint64, bool, error) {
	prg, err := random.NewChacha20PRG(unhx(in.Seed), unhx(in.Cust))
	if err != nil {
		return nil, nil, 0, false, err
	}
	if in.Start != 0 {
		st := prg.Store()
		binary.LittleEndian.PutUint64(st[len(st)-8:], in.Start)
		if prg, err = random.RestoreChacha20PRG(st); err != nil {
			return nil, nil, 0, false, implViolation("RestoreChacha20PRG of a state at byte position %d failed: %v", in.Start, err)
		}
	}
	var terms []string
	var obs []c15Obs
	special := false
	// returned slices are values: the harness overwrites them right after looking at them (the caller owns
	// them) and looks again at the end: later calls on the generator must not have written into them
	type keptSlice struct {
		op  string
		raw []int
	}
	var kept []keptSlice
	var keptStates [][2]any
	keptIntact := func() error {
		for k, ks := range kept {
			for i, v := range ks.raw {
				if v != -1-i {
					return implViolation("the slice returned by call #%d (%s) was written to by a later call on the same generator (element %d)", k, ks.op, i)
				}
			}
		}
		return nil
	}
	ops := append(append([]c15Op{}, in.Ops...), c15Op{Op: "read", K: 8}) // trailing raw read: position check
	for _, op := range ops {
		switch op.Op {
		case "uintn":
			n, err := strconv.ParseUint(op.N, 10, 64)
			if err != nil {
				return nil, nil, 0, false, err
			}
			var v uint64
			p, _ := catch(func() { v = prg.UintN(n) })
			if p {
				special = true
				v = 0
			}
			terms = append(terms, fmt.Sprintf("OUintN %s %s %s", cqN(n), cqbool(p), cqN(v)))
			obs = append(obs, c15Obs{Op: "uintn", Val: c15u64s(v), Panic: p})
		case "perm", "subperm":
			n, err := strconv.ParseInt(op.N, 10, 64)
			if err != nil {
				return nil, nil, 0, false, err
			}
			var out []int
			var e error
			p, _ := catch(func() {
				if op.Op == "perm" {
					out, e = prg.Permutation(int(n))
				} else {
					out, e = prg.SubPermutation(int(n), int(op.M))
				}
			})
			cls := c15ErrClass(e)
			if p {
				cls, out = 98, nil
			}
			if cls != 0 {
				special = true
			}
			es := ""
			if e != nil {
				es = e.Error()
			}
			if op.Op == "perm" {
				terms = append(terms, fmt.Sprintf("OPerm %s %d%%N %s", c15Z(n), cls, c15Zlist(out)))
			} else {
				terms = append(terms, fmt.Sprintf("OSubPerm %s %s %d%%N %s", c15Z(n), c15Z(op.M), cls, c15Zlist(out)))
			}
			obs = append(obs, c15Obs{Op: op.Op, Out: append([]int{}, out...), Err: es, Panic: p})
			if e != nil && out != nil {
				return nil, nil, 0, false, implViolation("%s(%d, %d) returned an error (%v) together with a non-nil slice", op.Op, n, op.M, e)
			}
			// checked BEFORE the new result is overwritten: if the library hands out one internal buffer
			// again and again, the earlier results have just been overwritten by this call
			if err := keptIntact(); err != nil {
				return nil, nil, 0, false, err
			}
			for i := range out {
				out[i] = -1 - i
			}
			if full := out[:cap(out)]; len(full) > len(out) { // SubPermutation hands out a prefix: the rest is the caller's too
				for i := len(out); i < len(full); i++ {
					full[i] = -1 - i
				}
				out = full
			}
			kept = append(kept, keptSlice{op.Op, out})
		case "restore":
			// the checkpoint is a value: kept un-copied, compared at the end with what it read when taken; the
			// ORIGINAL generator draws once more and stores again before the restored one takes over
			ck := prg.Store()
			ckHex := hx(ck)
			keptStates = append(keptStates, [2]any{ck, ckHex})
			p2, err := random.RestoreChacha20PRG(ck)
			if err != nil {
				return nil, nil, 0, false, implViolation("RestoreChacha20PRG(Store()) failed: %v", err)
			}
			_ = prg.UintN(1 << 20)
			_ = prg.Store()
			if hx(ck) != ckHex {
				return nil, nil, 0, false, implViolation("the state returned by Store() changed from %s to %s after a later draw and Store() on the same generator", ckHex, hx(ck))
			}
			prg = p2
		case "samples", "shuffle":
			n, err := strconv.ParseInt(op.N, 10, 64)
			if err != nil {
				return nil, nil, 0, false, err
			}
			track := n <= c15TrackMax
			var data []int
			if track && n > 0 {
				data = make([]int, n)
				for i := range data {
					data[i] = i
				}
			}
			var rec [][2]int
			swap := func(i, j int) {
				rec = append(rec, [2]int{i, j})
				if i >= 0 && j >= 0 && i < len(data) && j < len(data) {
					data[i], data[j] = data[j], data[i]
				}
			}
			var e error
			p, _ := catch(func() {
				if op.Op == "samples" {
					e = prg.Samples(int(n), int(op.M), swap)
				} else {
					e = prg.Shuffle(int(n), swap)
				}
			})
			cls := c15ErrClass(e)
			if p {
				cls = 98
			}
			if cls != 0 {
				special = true
			}
			es := ""
			if e != nil {
				es = e.Error()
			}
			if op.Op == "samples" {
				terms = append(terms, fmt.Sprintf("OSamples %s %s %d%%N %s %s %s", c15Z(n), c15Z(op.M), cls, c15Pairs(rec), cqbool(track), c15Zlist(data)))
			} else {
				terms = append(terms, fmt.Sprintf("OShuffle %s %d%%N %s %s %s", c15Z(n), cls, c15Pairs(rec), cqbool(track), c15Zlist(data)))
			}
			o := c15Obs{Op: op.Op, Swaps: rec, Err: es, Panic: p}
			if len(data) <= 64 {
				o.Final = data
			}
			if len(rec) > 64 {
				o.Swaps = rec[:64]
			}
			obs = append(obs, o)
		case "read":
			buf := make([]byte, op.K)
			for i := range buf {
				buf[i] = byte(0x5A + i) // dirty buffer: Read must overwrite it
			}
			prg.Read(buf)
			terms = append(terms, fmt.Sprintf("ORead %d %s", op.K, cqs(hx(buf))))
			obs = append(obs, c15Obs{Op: "read", Val: hx(buf)})
		default:
			return nil, nil, 0, false, fmt.Errorf("unknown op %q", op.Op)
		}
	}
	if err := keptIntact(); err != nil {
		return nil, nil, 0, false, err
	}
	for k, ks := range keptStates {
		if hx(ks[0].([]byte)) != ks[1].(string) {
			return nil, nil, 0, false, implViolation("the state returned by Store() call #%d read %s when taken and %s at the end", k, ks[1], hx(ks[0].([]byte)))
		}
	}
	st := prg.Store()
	consumed := binary.LittleEndian.Uint64(st[len(st)-8:]) - in.Start
	return terms, obs, consumed, special, nil
}

func c15Run(c Case) (Result, error) {
	var in c15In
	if err := json.Unmarshal(c.Input, &in); err != nil {
		return Result{}, err
	}
	t1, obs, consumed, special, err := c15RunOnce(in)
	if err != nil {
		return Result{}, err
	}
	t2, _, _, _, err := c15RunOnce(in) // determinism: same seed, fresh generator
	if err != nil {
		return Result{}, err
	}
	if consumed > 1<<22 {
		return Result{}, fmt.Errorf("case consumed %d bytes", consumed)
	}
	// the tape, independently: raw keystream of another generator with the same seed
	g, err := random.NewChacha20PRG(unhx(in.Seed), unhx(in.Cust))
	if err != nil {
		return Result{}, err
	}
	tape := make([]byte, consumed)
	if in.Start == 0 {
		g.Read(tape)
	} else {
		// RFC 8439 keystream at that position from x/crypto's primitive (key and nonce as the generator stores them)
		st := g.Store()
		ci, err := chacha20.NewUnauthenticatedCipher(st[:32], st[32:44])
		if err != nil {
			return Result{}, err
		}
		ci.SetCounter(uint32(in.Start / 64))
		buf := make([]byte, in.Start%64+consumed)
		ci.XORKeyStream(buf, buf)
		tape = buf[in.Start%64:]
	}
	term := fmt.Sprintf("mkCase %s\n  %s\n  %s", cqs(hx(tape)), cqlist(t1), cqlist(t2))
	return Result{Coq: term, Key: string(c.Input), Nontrivial: consumed > 8 || special,
		Obs: map[string]any{"consumed": consumed, "ops": obs}}, nil
}
