package main

// C08: DKG qualification is fair.  Scenario generator for the network simulator of
// dkgsim.go (also used by C07): fault families of Byzantine dealers and complainers, with
// the verdict the property text prescribes (must_disq / must_fail / must_keys) computed
// from the scripted behaviour, never from the code.

import (
	"math/big"
	"math/rand/v2"
	"sort"
	"strconv"
)

const simHeader = "From Coq Require Import ZArith NArith List Bool String.\nFrom V Require Import Lib.ZHex Model.DkgVss Model.DkgQual Model.DkgJoint Corr.C10Corr Corr.DkgSimCorr.\nImport ListNotations.\nOpen Scope string_scope.\n"

func init() {
	register(&Prop{
		ID:        "C08",
		Header:    simHeader,
		Check:     "bad_ids",
		PropCheck: "c08_prop_bad_ids",
		Gen:       func(tier string, r *rand.Rand) []Case { return simGen(tier, r, "C08") },
		Run:       simRunJSON,
		Rule:      "network simulations (n real instances for the honest participants, scripted Byzantine participants, random admissible delivery orders): plain VSS vector kind x share kind x order; Qual/Joint dealer faults (vector kind x phase, share kind per receiver, answer kind per complainer, unsolicited answers, garbage broadcasts) and complainer faults (spurious / duplicate / late / malformed complaints), > t and exactly t complaints, order hints (share-first, vector-first, answers-first, complaints-first); non-trivial if an event was emitted; distinct by scenario",
		Shard:     12,
	})
}

func simPolyStrings(a []*big.Int) []string {
	var s []string
	for _, c := range a {
		s = append(s, c.String())
	}
	return s
}

var simBadShareKinds = map[string]bool{"omit": true, "bad": true, "trunc": true, "zero": true, "ger": true, "badlen": true, "wrongtag": true, "empty": true, "late": true}
var simBadAnswerKinds = map[string]bool{"omit": true, "bad": true, "zero": true, "ger": true, "badlen": true, "badidx": true}
var simBadVecKinds = map[string]bool{"omit": true, "badlen": true, "badpoint": true, "badvalue": true, "offcurve": true, "notg2": true}

// the dealers the property text says every honest participant must disqualify
func simMustDisq(in *simIn) []int {
	honest := map[int]bool{}
	for _, h := range in.Honest {
		honest[h] = true
	}
	var res []int
	for k := range in.Byz {
		b := &in.Byz[k]
		if in.Proto != "joint" && b.Idx != in.Dealer {
			continue
		}
		must := simBadVecKinds[b.Vec] || b.VecPhase >= 1 || len(b.Extra) > 0
		for _, c := range b.Complaints {
			if (c.Kind == "badlen" || c.Kind == "badidx") && c.Phase <= 1 {
				must = true
			}
		}
		for _, u := range b.Unsol {
			// a malformed answer is fatal whenever it arrives; an unreadable value only when it
			// is the first answer for that complainer (not decidable from the script alone)
			if u.Kind == "badlen" || u.Kind == "badidx" {
				must = true
			}
		}
		complainers := map[int]bool{}
		for _, p := range in.Honest {
			if simBadShareKinds[b.Shares[strconv.Itoa(p)]] {
				complainers[p] = true
				if simBadAnswerKinds[b.Answers[strconv.Itoa(p)]] {
					must = true
				}
				// "wrongly answered": the honest participant p will complain, and the dealer's FIRST
				// answer for p is wrong.  Answers broadcast in phase 0 precede the scripted reply to
				// the complaint in the dealer's own broadcast order (which every receiver preserves),
				// so if every phase-0 answer for p is a wrong one, the first answer is wrong whatever
				// the shuffle.
				n0, bad0 := 0, 0
				for _, u := range b.Unsol {
					if u.Phase == 0 && u.Complainer == p {
						n0++
						if u.Kind != "ok" {
							bad0++
						}
					}
				}
				if n0 > 0 && bad0 == n0 {
					must = true
				}
			}
		}
		for j := range in.Byz {
			c := &in.Byz[j]
			if c.Idx == b.Idx {
				continue
			}
			for _, cm := range c.Complaints {
				if cm.Against == b.Idx && (cm.Kind == "ok" || cm.Kind == "dup") && cm.Phase <= 1 {
					complainers[c.Idx] = true
				}
			}
		}
		if len(complainers) > in.T {
			must = true
		}
		if must {
			res = append(res, b.Idx)
		}
	}
	sort.Ints(res)
	return res
}

func simNewByz(r *rand.Rand, idx, t int) simByz {
	return simByz{Idx: idx, Poly: simPolyStrings(c10RandPoly(r, t)), Poly2: simPolyStrings(c10RandPoly(r, t)), Vec: "ok",
		Shares: map[string]string{}, Answers: map[string]string{}}
}

func simBase(r *rand.Rand, proto string, n, t, dealer int, byzIdx []int) *simIn {
	in := &simIn{Proto: proto, N: n, T: t, Dealer: dealer, Seeds: map[string]string{}, Sched: r.Uint64()}
	isByz := map[int]bool{}
	for _, b := range byzIdx {
		isByz[b] = true
		in.Byz = append(in.Byz, simNewByz(r, b, t))
	}
	for i := 0; i < n; i++ {
		if !isByz[i] {
			in.Honest = append(in.Honest, i)
			in.Seeds[strconv.Itoa(i)] = hx(rbytes(r, 32))
		}
	}
	return in
}

func simFinish(kind string, in *simIn) Case {
	in.MustDisq = simMustDisq(in)
	return mkcase(kind, in)
}

func pick(r *rand.Rand, l []string) string { return l[r.IntN(len(l))] }

var simHints = []string{"", "", "share-first", "vector-first", "vector-last", "answers-first", "complaints-first"}
var simVecKinds = []string{"ok", "omit", "badlen", "badpoint", "badvalue", "offcurve", "notg2", "dup"}
var simShareKinds = []string{"ok", "omit", "bad", "zero", "ger", "badlen", "wrongtag", "empty", "dup", "late"}
var simAnswerKinds = []string{"ok", "omit", "bad", "zero", "ger", "badlen", "badidx", "dup"}

// a random subset of size k of 0..n-1 (sorted)
func simSubset(r *rand.Rand, n, k int) []int {
	p := r.Perm(n)[:k]
	sort.Ints(p)
	return p
}

func simGen(tier string, r *rand.Rand, prop string) []Case {
	var cs []Case
	thorough := tier == "thorough"
	// ---- plain Feldman VSS: every vector kind x share kind x order (C08 only) ----
	if prop == "C08" {
		for _, vk := range simVecKinds {
			for _, sk := range []string{"ok", "omit", "bad", "zero", "ger", "badlen", "wrongtag", "empty", "dup"} {
				for _, hint := range []string{"share-first", "vector-first"} {
					if !thorough && (len(vk)+len(sk)+len(hint))%2 == 1 && vk != "ok" && sk != "ok" {
						continue
					}
					n := 3 + r.IntN(2)
					t := 1 + r.IntN(2)
					in := simBase(r, "vss", n, t, 0, []int{0})
					in.Honest = []int{1 + r.IntN(n-1)}
					in.Hint = hint
					in.Byz[0].Vec = vk
					in.Byz[0].Shares[strconv.Itoa(in.Honest[0])] = sk
					in.MustFail = simBadVecKinds[vk] || simBadShareKinds[sk]
					in.MustKeys = !in.MustFail
					cs = append(cs, mkcase("vss-"+vk+"-"+sk, in))
				}
			}
		}
	}
	if prop == "C08" {
		// a malformed LAST point and the share that matches the vector without it, both orders
		for rep := 0; rep < 6; rep++ {
			for _, vk := range []string{"badpoint", "badvalue", "offcurve", "notg2"} {
				for _, hint := range []string{"share-first", "vector-first"} {
					n := 3 + r.IntN(3)
					t := 1 + r.IntN(n-1)
					in := simBase(r, "vss", n, t, 0, []int{0})
					in.Honest = []int{1 + r.IntN(n-1)}
					in.Hint = hint
					in.Byz[0].Vec = vk
					in.Byz[0].Shares[strconv.Itoa(in.Honest[0])] = "trunc"
					in.MustFail = true
					cs = append(cs, mkcase("vss-trunc-"+vk, in))
				}
			}
		}
	}
	protos := []string{"qual", "joint"}
	conf := func() (int, int) {
		n := 3 + r.IntN(3)
		t := 1 + r.IntN((n-1)/2)
		return n, t
	}
	// ---- all honest: keys, nobody blamed ----
	for _, proto := range protos {
		for k := 0; k < 2; k++ {
			n, t := conf()
			in := simBase(r, proto, n, t, r.IntN(n), nil)
			in.MustKeys = true
			cs = append(cs, simFinish("honest-"+proto, in))
		}
	}
	// ---- one dealer fault at a time: every vector kind x phase, share kind, answer kind ----
	reps := 1
	if thorough {
		reps = 4
	}
	for rep := 0; rep < reps; rep++ {
		for _, proto := range protos {
			for _, vk := range simVecKinds {
				for ph := 0; ph < 2; ph++ {
					if vk == "omit" && ph == 1 {
						continue
					}
					n, t := conf()
					b := r.IntN(n)
					in := simBase(r, proto, n, t, b, []int{b})
					in.Byz[0].Vec, in.Byz[0].VecPhase = vk, ph
					in.Hint = pick(r, simHints)
					cs = append(cs, simFinish("vec-"+proto, in))
				}
			}
			for _, sk := range simShareKinds {
				for _, ak := range simAnswerKinds {
					if !thorough && rep == 0 && (len(sk)+len(ak))%3 == 0 && sk != "bad" && ak != "ok" {
						continue
					}
					n, t := conf()
					b := r.IntN(n)
					in := simBase(r, proto, n, t, b, []int{b})
					victim := in.Honest[r.IntN(len(in.Honest))]
					in.Byz[0].Shares[strconv.Itoa(victim)] = sk
					in.Byz[0].Answers[strconv.Itoa(victim)] = ak
					in.Hint = pick(r, simHints)
					cs = append(cs, simFinish("share-answer-"+proto, in))
				}
			}
			// garbage broadcasts and malformed complaints of the dealer, per phase
			for ph := 0; ph < 3; ph++ {
				for _, xk := range []string{"empty", "badtag", "sharetag", "c-badlen", "c-badidx"} {
					n, t := conf()
					b := r.IntN(n)
					in := simBase(r, proto, n, t, b, []int{b})
					if xk[0] == 'c' {
						in.Byz[0].Complaints = []simCmp{{Phase: ph, Against: b, Kind: xk[2:]}}
					} else {
						in.Byz[0].Extra = []simExtra{{Phase: ph, Kind: xk}}
					}
					cs = append(cs, simFinish("garbage-"+proto, in))
				}
			}
			// unsolicited answers (answer before complaint), for a victim that will complain and for a bystander
			for _, uk := range []string{"ok", "bad", "zero", "ger", "badlen", "badidx"} {
				for ph := 0; ph < 3; ph++ {
					n, t := conf()
					b := r.IntN(n)
					in := simBase(r, proto, n, t, b, []int{b})
					victim := in.Honest[r.IntN(len(in.Honest))]
					if r.IntN(2) == 0 {
						in.Byz[0].Shares[strconv.Itoa(victim)] = pick(r, []string{"bad", "omit", "badlen", "zero"})
					}
					in.Byz[0].Unsol = []simUns{{Phase: ph, Complainer: victim, Kind: uk}}
					in.Hint = pick(r, []string{"answers-first", "", "share-first", "vector-last"})
					cs = append(cs, simFinish("unsolicited-"+proto, in))
				}
			}
		}
	}
	// ---- answer before vector: a share that is malformed in format makes the victim complain before
	// it has the vector; the dealer's answer (right or wrong) is broadcast and delivered before its
	// vector, so the answer can only be checked when the vector finally arrives ----
	for _, proto := range protos {
		for _, sk := range []string{"empty", "wrongtag", "badlen", "zero", "ger"} {
			for _, uk := range []string{"ok", "bad", "zero", "badlen"} {
				if !thorough && (len(sk)+len(uk))%2 == 1 && uk != "ok" && uk != "bad" {
					continue
				}
				n, t := conf()
				b := r.IntN(n)
				in := simBase(r, proto, n, t, b, []int{b})
				victim := in.Honest[r.IntN(len(in.Honest))]
				in.Byz[0].Shares[strconv.Itoa(victim)] = sk
				in.Byz[0].Unsol = []simUns{{Phase: 0, Complainer: victim, Kind: uk}}
				in.Hint = "share-answer-vector"
				cs = append(cs, simFinish("answer-before-vector-"+proto, in))
			}
		}
	}
	// ---- Byzantine complainers against an honest dealer: spurious, duplicate, late, malformed ----
	for rep := 0; rep < reps; rep++ {
		for _, proto := range protos {
			for _, ck := range []string{"ok", "dup", "badlen", "badidx"} {
				for ph := 0; ph < 3; ph++ {
					n, t := conf()
					nb := 1 + r.IntN(t)
					byz := simSubset(r, n, nb)
					dealer := 0
					for dealer = 0; dealer < n; dealer++ {
						ok := true
						for _, b := range byz {
							if b == dealer {
								ok = false
							}
						}
						if ok {
							break
						}
					}
					in := simBase(r, proto, n, t, dealer, byz)
					for k := range in.Byz {
						against := dealer
						if proto == "joint" {
							against = in.Honest[r.IntN(len(in.Honest))]
						}
						in.Byz[k].Complaints = []simCmp{{Phase: ph, Against: against, Kind: ck}}
						if r.IntN(3) == 0 {
							in.Byz[k].Extra = []simExtra{{Phase: r.IntN(3), Kind: pick(r, []string{"empty", "badtag", "sharetag"})}}
						}
					}
					in.Hint = pick(r, simHints)
					if proto == "qual" {
						in.MustKeys = true // honest dealer, at most t complaints
					}
					cs = append(cs, simFinish("complainers-"+proto, in))
				}
			}
		}
	}
	// ---- more than t and exactly t complaints ----
	for rep := 0; rep < 2*reps; rep++ {
		for _, proto := range protos {
			for _, extra := range []int{0, 1} {
				n := 4 + r.IntN(2)
				t := 1 + r.IntN((n-1)/2)
				nb := 1 + r.IntN(t)
				byz := simSubset(r, n, nb)
				b := byz[0]
				in := simBase(r, proto, n, t, b, byz)
				want := t + extra // number of complainers
				got := 0
				for k := 1; k < len(in.Byz) && got < want; k++ {
					in.Byz[k].Complaints = []simCmp{{Phase: r.IntN(2), Against: b, Kind: "ok"}}
					got++
				}
				for _, p := range in.Honest {
					if got < want {
						in.Byz[0].Shares[strconv.Itoa(p)] = pick(r, []string{"bad", "omit", "zero", "badlen"})
						got++
					}
				}
				in.Hint = pick(r, simHints)
				kind := "exactly-t-"
				if extra == 1 {
					kind = "more-than-t-"
				}
				cs = append(cs, simFinish(kind+proto, in))
			}
		}
	}
	// ---- random mixtures ----
	nrand := 40
	if thorough {
		nrand = 1200
	}
	for i := 0; i < nrand; i++ {
		proto := protos[i%2]
		n := 3 + r.IntN(3)
		if thorough && r.IntN(4) == 0 {
			n = 6 + r.IntN(3)
		}
		t := 1 + r.IntN((n-1)/2)
		nb := r.IntN(t + 1)
		byz := simSubset(r, n, nb)
		dealer := r.IntN(n)
		in := simBase(r, proto, n, t, dealer, byz)
		for k := range in.Byz {
			b := &in.Byz[k]
			if r.IntN(3) == 0 {
				b.Vec = pick(r, simVecKinds)
			}
			if r.IntN(6) == 0 {
				b.VecPhase = 1
			}
			for _, p := range in.Honest {
				if r.IntN(3) == 0 {
					b.Shares[strconv.Itoa(p)] = pick(r, simShareKinds)
				}
				if r.IntN(3) == 0 {
					b.Answers[strconv.Itoa(p)] = pick(r, simAnswerKinds)
				}
			}
			if r.IntN(3) == 0 {
				b.Complaints = append(b.Complaints, simCmp{Phase: r.IntN(3), Against: r.IntN(n), Kind: pick(r, []string{"ok", "ok", "dup", "badlen", "badidx"})})
			}
			if r.IntN(5) == 0 {
				b.Unsol = append(b.Unsol, simUns{Phase: r.IntN(3), Complainer: r.IntN(n), Kind: pick(r, []string{"ok", "bad", "zero", "badlen"})})
			}
			if r.IntN(8) == 0 {
				b.Extra = append(b.Extra, simExtra{Phase: r.IntN(3), Kind: pick(r, []string{"empty", "badtag", "sharetag"})})
			}
		}
		in.Hint = pick(r, simHints)
		cs = append(cs, simFinish("random-"+proto, in))
	}
	return cs
}
