package main

// C08: DKG qualification is fair.  Scenario generator for the network simulator of
// dkgsim.go (also used by C07): fault families of Byzantine dealers and complainers, with
// the verdict the property text prescribes (must_disq / must_fail / must_keys) computed
// from the scripted behaviour, never from the code.

import (
	"math/big"
	"math/rand/v2"
	"sort"
	"strconv"
	"strings"
)

const simHeader = "From Coq Require Import ZArith NArith List Bool String.\nFrom V Require Import Lib.ZHex Model.DkgVss Model.DkgQual Model.DkgJoint Corr.C10Corr Corr.DkgSimCorr.\nImport ListNotations.\nOpen Scope string_scope.\n"

func init() {
	register(&Prop{
		ID:        "C08",
		Header:    simHeader,
		Check:     "bad_ids",
		PropCheck: "c08_prop_bad_ids",
		Gen:       func(tier string, r *rand.Rand) []Case { return simGen(tier, r, "C08") },
		Run:       simRunJSON,
		Rule:      "network simulations (n real instances for the honest participants, scripted Byzantine participants, random admissible delivery orders): plain VSS vector kind x share kind x order; Qual/Joint dealer faults (vector kind x phase, share kind per receiver, answer kind per complainer, unsolicited answers, garbage broadcasts) and complainer faults (spurious / duplicate / late / malformed complaints), > t and exactly t complaints, order hints (share-first, vector-first, answers-first, complaints-first); audit families: the vector defects at the first / a middle / the last position and all at once, one whole point too many / too few, points of E2 with a small-order component (a point of order 13, a G2 point plus it) first and last, the identical vector twice, wrong-then-right and right-twice shares and answers, shares / answers one byte too long, complaint / answer indices n and 255, a bare complaint tag, nil instead of empty messages; a vector whose defect (an order-13 shift of one coefficient) stays consistent with the share of the participant at evaluation point 13; a colluding Byzantine complainer answered in every way, also before its complaint; a different share defect per receiver and a different answer per complainer; polynomials with a root at a participant's point (its correct share is 0); two faulty dealers of different kinds and two dealers with one polynomial (Joint); thresholds t >= n/2 (n = 2..5); n = 254 with indices up to 253 (sampled receivers); plain VSS with an honest dealer and a Byzantine impostor; runner-side: byte-slice arguments unmodified after every call; non-trivial if an event was emitted; distinct by scenario; Horner coincidences in a participant's public share (x*A_t = +-A_{t-1}, x*acc = A_0) with an otherwise honest scripted dealer that counts as honest; 2..t complainers of which some are answered and some not, in every position; shares and answers equal to the negation r - s and to s + (r-1)/2; a dealer disqualified in round 1 that pre-answered a complaint and withholds that share; returned keys must be valid keys (oracle)",
		Shard:     12,
	})
}

func simPolyStrings(a []*big.Int) []string {
	var s []string
	for _, c := range a {
		s = append(s, c.String())
	}
	return s
}

var simBadShareKinds = map[string]bool{"omit": true, "bad": true, "trunc": true, "zero": true, "ger": true, "badlen": true, "wrongtag": true, "empty": true, "late": true,
	"badfirst": true, "long": true, "nil": true, "omit-latebad": true, "omit-lateok": true, "neg": true, "plus-r-half": true}
var simBadAnswerKinds = map[string]bool{"omit": true, "bad": true, "zero": true, "ger": true, "badlen": true, "badidx": true, "badfirst": true, "long": true, "idx255": true, "neg": true}
var simBadVecKinds = map[string]bool{"omit": true, "badlen": true, "badpoint": true, "badvalue": true, "offcurve": true, "notg2": true,
	"badpoint-first": true, "badvalue-last": true, "offcurve-first": true, "notg2-first": true, "offcurve-mid": true, "notg2-mid": true, "badpoint-mid": true,
	"allbad": true, "longer": true, "shorter": true, "order13": true, "g2plus13": true, "order13-first": true, "g2plus13-first": true, "g2plus13-c1": true, "g2pm13-pair": true}
var simBadComplaintKinds = map[string]bool{"badlen": true, "badidx": true, "idx255": true, "idxn": true, "empty": true}

// the dealers the property text says every honest participant must disqualify
func simMustDisq(in *simIn) []int {
	honest := map[int]bool{}
	for _, h := range in.Honest {
		honest[h] = true
	}
	// A scripted broadcast of phase ph lands in phase ph unless an EARLIER broadcast of the same sender lands later
	// (per-sender order is kept).  The only broadcasts a Byzantine sender emits outside its script are its replies to
	// complaints against it, and a reply may land as late as phase 2.  A deadline-bound message (a complaint) of x is
	// therefore certainly on time only if nobody ever complains against x.
	mayReply := func(x *simByz) bool {
		if in.Proto != "joint" && x.Idx != in.Dealer {
			return false // not a dealer: nobody's complaint is about it
		}
		for _, p := range in.Honest {
			if simBadShareKinds[x.Shares[strconv.Itoa(p)]] {
				return true
			}
		}
		for j := range in.Byz {
			if in.Byz[j].Idx == x.Idx {
				continue
			}
			for _, cm := range in.Byz[j].Complaints {
				if cm.Against == x.Idx {
					return true
				}
			}
		}
		return false
	}
	var res []int
	for k := range in.Byz {
		b := &in.Byz[k]
		if in.Proto != "joint" && b.Idx != in.Dealer {
			continue
		}
		must := simBadVecKinds[b.Vec] || b.VecPhase >= 1 || len(b.Extra) > 0
		for _, c := range b.Complaints {
			if simBadComplaintKinds[c.Kind] && c.Phase <= 1 && !mayReply(b) {
				must = true
			}
		}
		for _, u := range b.Unsol {
			// a malformed answer is fatal whenever it arrives; an unreadable value only when it
			// is the first answer for that complainer (not decidable from the script alone)
			if u.Kind == "badlen" || u.Kind == "badidx" || u.Kind == "long" || u.Kind == "idx255" {
				must = true
			}
		}
		// everybody whose complaint against b reaches every honest participant before the second timeout:
		// honest participants that got no usable share, Byzantine ones that say so
		complainers := map[int]bool{}
		for _, p := range in.Honest {
			if simBadShareKinds[b.Shares[strconv.Itoa(p)]] {
				complainers[p] = true
				// "wrongly answered": the honest participant p will complain, and the dealer's FIRST
				// answer for p is wrong.  Answers broadcast in phase 0 precede the scripted reply to
				// the complaint in the dealer's own broadcast order (which every receiver preserves),
				// so if every phase-0 answer for p is a wrong one, the first answer is wrong whatever
				// the shuffle.
				n0, bad0 := 0, 0
				for _, u := range b.Unsol {
					if u.Phase == 0 && u.Complainer == p {
						n0++
						if u.Kind != "ok" {
							bad0++
						}
					}
				}
				if n0 > 0 && bad0 == n0 {
					must = true
				}
			}
		}
		for j := range in.Byz {
			c := &in.Byz[j]
			if c.Idx == b.Idx {
				continue
			}
			for _, cm := range c.Complaints {
				if cm.Against == b.Idx && (cm.Kind == "ok" || cm.Kind == "dup") && cm.Phase <= 1 && !mayReply(c) {
					complainers[c.Idx] = true
				}
			}
		}
		// a complaint that is left unanswered or wrongly answered: whatever the order in which the dealer
		// emits them, EVERY answer it ever broadcasts for that complainer (the scripted reply and the
		// unsolicited ones) is wrong or missing, so the first one is
		for q := range complainers {
			kinds := []string{b.Answers[strconv.Itoa(q)]}
			for _, u := range b.Unsol {
				if u.Complainer == q {
					kinds = append(kinds, u.Kind)
				}
			}
			allBad := true
			for _, ak := range kinds {
				if !simBadAnswerKinds[ak] {
					allBad = false
				}
			}
			if allBad {
				must = true
			}
		}
		if len(complainers) > in.T {
			must = true
		}
		if must {
			res = append(res, b.Idx)
		}
	}
	sort.Ints(res)
	return res
}

func simNewByz(r *rand.Rand, idx, t int) simByz {
	return simByz{Idx: idx, Poly: simPolyStrings(c10RandPoly(r, t)), Poly2: simPolyStrings(c10RandPoly(r, t)), Vec: "ok",
		Shares: map[string]string{}, Answers: map[string]string{}}
}

func simBase(r *rand.Rand, proto string, n, t, dealer int, byzIdx []int) *simIn {
	in := &simIn{Proto: proto, N: n, T: t, Dealer: dealer, Seeds: map[string]string{}, Sched: r.Uint64()}
	isByz := map[int]bool{}
	for _, b := range byzIdx {
		isByz[b] = true
		in.Byz = append(in.Byz, simNewByz(r, b, t))
	}
	for i := 0; i < n; i++ {
		if !isByz[i] {
			in.Honest = append(in.Honest, i)
			in.Seeds[strconv.Itoa(i)] = hx(rbytes(r, 32))
		}
	}
	return in
}

func simFinish(kind string, in *simIn) Case {
	in.MustDisq = simMustDisq(in)
	return mkcase(kind, in)
}

func pick(r *rand.Rand, l []string) string { return l[r.IntN(len(l))] }

var simHints = []string{"", "", "share-first", "vector-first", "vector-last", "answers-first", "complaints-first"}
var simVecKinds = []string{"ok", "omit", "badlen", "badpoint", "badvalue", "offcurve", "notg2", "dup"}
var simShareKinds = []string{"ok", "omit", "bad", "zero", "ger", "badlen", "wrongtag", "empty", "dup", "late"}
var simAnswerKinds = []string{"ok", "omit", "bad", "zero", "ger", "badlen", "badidx", "dup"}

// kinds added by the generator audit: the same defects at other positions of the vector, several at once, a whole
// point too many / too few, exact duplicates, "wrong first, right second"
var simVecKinds2 = []string{"same", "badpoint-first", "badvalue-last", "offcurve-first", "notg2-first", "offcurve-mid", "notg2-mid", "badpoint-mid", "allbad", "longer", "shorter",
	"order13", "g2plus13", "order13-first", "g2plus13-first", "g2pm13-pair"}
var simShareKinds2 = []string{"badfirst", "twice", "long", "nil", "omit-latebad", "omit-lateok", "neg", "plus-r-half"}
var simAnswerKinds2 = []string{"badfirst", "long", "idx255", "neg"}

// a polynomial of degree t with P(x) = 0 (x != 0) and non-zero constant and leading coefficients
func simPolyWithRoot(r *rand.Rand, t int, x int64) []*big.Int {
	for {
		a := c10RandPoly(r, t)
		// a_0 := -(a_1 x + ... + a_t x^t)
		rest := append([]*big.Int{new(big.Int)}, a[1:]...)
		a[0] = dkgMod(new(big.Int).Neg(dkgPeval(rest, x)))
		if a[0].Sign() != 0 {
			return a
		}
	}
}

// a random subset of size k of 0..n-1 (sorted)
func simSubset(r *rand.Rand, n, k int) []int {
	p := r.Perm(n)[:k]
	sort.Ints(p)
	return p
}

func simGen(tier string, r *rand.Rand, prop string) []Case {
	var cs []Case
	thorough := tier == "thorough"
	// ---- plain Feldman VSS: every vector kind x share kind x order (C08 only) ----
	if prop == "C08" {
		for _, vk := range simVecKinds {
			for _, sk := range []string{"ok", "omit", "bad", "zero", "ger", "badlen", "wrongtag", "empty", "dup"} {
				for _, hint := range []string{"share-first", "vector-first"} {
					if !thorough && (len(vk)+len(sk)+len(hint))%2 == 1 && vk != "ok" && sk != "ok" {
						continue
					}
					n := 3 + r.IntN(2)
					t := 1 + r.IntN(2)
					in := simBase(r, "vss", n, t, 0, []int{0})
					in.Honest = []int{1 + r.IntN(n-1)}
					in.Hint = hint
					in.Byz[0].Vec = vk
					in.Byz[0].Shares[strconv.Itoa(in.Honest[0])] = sk
					in.MustFail = simBadVecKinds[vk] || simBadShareKinds[sk]
					in.MustKeys = !in.MustFail
					cs = append(cs, mkcase("vss-"+vk+"-"+sk, in))
				}
			}
		}
	}
	// cancelling small-order components on two commitments, seen by the participant whose evaluation
	// point is 1 (index 0): [1^0]T - [1^t]T vanishes, so its HONEST share matches the invalid vector
	for _, proto := range []string{"vss", "qual", "joint"} {
		if proto == "vss" && prop != "C08" {
			continue
		}
		for _, hint := range []string{"share-first", "vector-first"} {
			n := 3 + r.IntN(3)
			t := 1 + r.IntN((n-1)/2)
			in := simBase(r, proto, n, t, n-1, []int{n - 1})
			if proto == "vss" {
				in.Honest = []int{0}
				in.MustFail = true
			}
			in.Hint = hint
			in.Byz[0].Vec = "g2pm13-pair"
			cs = append(cs, simFinish("cancelling-pair-"+proto, in))
		}
	}
	if prop == "C08" {
		for _, vk := range simVecKinds2 {
			for i, sk := range []string{"ok", "bad"} {
				n := 3 + r.IntN(2)
				t := 1 + r.IntN(n-1)
				in := simBase(r, "vss", n, t, 0, []int{0})
				in.Honest = []int{1 + r.IntN(n-1)}
				in.Hint = []string{"share-first", "vector-first"}[(i+len(vk))%2]
				in.Byz[0].Vec = vk
				in.Byz[0].Shares[strconv.Itoa(in.Honest[0])] = sk
				in.MustFail = simBadVecKinds[vk] || simBadShareKinds[sk]
				in.MustKeys = !in.MustFail
				cs = append(cs, mkcase("vss-"+vk+"-"+sk, in))
			}
		}
		for _, sk := range simShareKinds2 {
			for _, hint := range []string{"share-first", "vector-first"} {
				in := simBase(r, "vss", 4, 2, 0, []int{0})
				in.Honest = []int{1 + r.IntN(3)}
				in.Hint = hint
				in.Byz[0].Shares[strconv.Itoa(in.Honest[0])] = sk
				in.MustFail = simBadShareKinds[sk]
				in.MustKeys = !in.MustFail
				cs = append(cs, mkcase("vss-ok-"+sk, in))
			}
		}
		// a vector that is invalid only through a small-order component which vanishes in the public key of the
		// participant with evaluation point 13: its share matches, the vector must be refused all the same
		for _, hint := range []string{"share-first", "vector-first"} {
			n := 13 + r.IntN(3)
			in := simBase(r, "vss", n, 2+r.IntN(2), 0, []int{0})
			in.Honest = []int{12}
			in.Hint = hint
			in.Byz[0].Vec = "g2plus13-c1"
			in.MustFail = true
			cs = append(cs, mkcase("vss-g2plus13-c1", in))
		}
		// an honest dealer (a real instance) while a Byzantine non-dealer poses as one: its vector, shares, complaints
		// and answers are not the dealer's and must change nothing
		for _, hint := range []string{"share-first", "vector-first", "vector-last", ""} {
			n := 3 + r.IntN(3)
			t := 1 + r.IntN(n-1)
			imp := 1 + r.IntN(n-1)
			in := simBase(r, "vss", n, t, 0, []int{imp})
			in.Hint = hint
			in.Byz[0].Vec = pick(r, []string{"ok", "badlen", "notg2", "dup"})
			for _, p := range in.Honest {
				in.Byz[0].Shares[strconv.Itoa(p)] = pick(r, []string{"ok", "bad", "empty", "dup"})
			}
			in.Byz[0].Unsol = []simUns{{Phase: 0, Complainer: in.Honest[len(in.Honest)-1], Kind: "ok"}}
			in.Byz[0].Complaints = []simCmp{{Phase: 0, Against: 0, Kind: "ok"}}
			in.MustKeys = true
			cs = append(cs, mkcase("vss-impostor", in))
		}
	}
	if prop == "C08" {
		// a malformed LAST point and the share that matches the vector without it, both orders
		for rep := 0; rep < 6; rep++ {
			for _, vk := range []string{"badpoint", "badvalue", "offcurve", "notg2"} {
				for _, hint := range []string{"share-first", "vector-first"} {
					n := 3 + r.IntN(3)
					t := 1 + r.IntN(n-1)
					in := simBase(r, "vss", n, t, 0, []int{0})
					in.Honest = []int{1 + r.IntN(n-1)}
					in.Hint = hint
					in.Byz[0].Vec = vk
					in.Byz[0].Shares[strconv.Itoa(in.Honest[0])] = "trunc"
					in.MustFail = true
					cs = append(cs, mkcase("vss-trunc-"+vk, in))
				}
			}
		}
	}
	protos := []string{"qual", "joint"}
	conf := func() (int, int) {
		n := 3 + r.IntN(3)
		t := 1 + r.IntN((n-1)/2)
		return n, t
	}
	// ---- all honest: keys, nobody blamed ----
	for _, proto := range protos {
		for k := 0; k < 2; k++ {
			n, t := conf()
			in := simBase(r, proto, n, t, r.IntN(n), nil)
			in.MustKeys = true
			cs = append(cs, simFinish("honest-"+proto, in))
		}
	}
	// ---- one dealer fault at a time: every vector kind x phase, share kind, answer kind ----
	reps := 1
	if thorough {
		reps = 4
	}
	for rep := 0; rep < reps; rep++ {
		for _, proto := range protos {
			for _, vk := range simVecKinds {
				for ph := 0; ph < 2; ph++ {
					if vk == "omit" && ph == 1 {
						continue
					}
					n, t := conf()
					b := r.IntN(n)
					in := simBase(r, proto, n, t, b, []int{b})
					in.Byz[0].Vec, in.Byz[0].VecPhase = vk, ph
					in.Hint = pick(r, simHints)
					cs = append(cs, simFinish("vec-"+proto, in))
				}
			}
			for _, sk := range simShareKinds {
				for _, ak := range simAnswerKinds {
					if !thorough && rep == 0 && (len(sk)+len(ak))%3 == 0 && sk != "bad" && ak != "ok" {
						continue
					}
					n, t := conf()
					b := r.IntN(n)
					in := simBase(r, proto, n, t, b, []int{b})
					victim := in.Honest[r.IntN(len(in.Honest))]
					in.Byz[0].Shares[strconv.Itoa(victim)] = sk
					in.Byz[0].Answers[strconv.Itoa(victim)] = ak
					in.Hint = pick(r, simHints)
					cs = append(cs, simFinish("share-answer-"+proto, in))
				}
			}
			// garbage broadcasts and malformed complaints of the dealer, per phase
			for ph := 0; ph < 3; ph++ {
				for _, xk := range []string{"empty", "badtag", "sharetag", "c-badlen", "c-badidx"} {
					n, t := conf()
					b := r.IntN(n)
					in := simBase(r, proto, n, t, b, []int{b})
					if xk[0] == 'c' {
						in.Byz[0].Complaints = []simCmp{{Phase: ph, Against: b, Kind: xk[2:]}}
					} else {
						in.Byz[0].Extra = []simExtra{{Phase: ph, Kind: xk}}
					}
					cs = append(cs, simFinish("garbage-"+proto, in))
				}
			}
			// unsolicited answers (answer before complaint), for a victim that will complain and for a bystander
			for _, uk := range []string{"ok", "bad", "zero", "ger", "badlen", "badidx"} {
				for ph := 0; ph < 3; ph++ {
					n, t := conf()
					b := r.IntN(n)
					in := simBase(r, proto, n, t, b, []int{b})
					victim := in.Honest[r.IntN(len(in.Honest))]
					if r.IntN(2) == 0 {
						in.Byz[0].Shares[strconv.Itoa(victim)] = pick(r, []string{"bad", "omit", "badlen", "zero"})
					}
					in.Byz[0].Unsol = []simUns{{Phase: ph, Complainer: victim, Kind: uk}}
					in.Hint = pick(r, []string{"answers-first", "", "share-first", "vector-last"})
					cs = append(cs, simFinish("unsolicited-"+proto, in))
				}
			}
		}
	}
	// ---- a dealer disqualified DURING round 1 (garbage broadcast) that also pre-answered a
	// complaint nobody made yet and withholds that participant's share: at the shares timeout the participant
	// builds its complaint and finds the stored answer - the verdict must stay "disqualified" for it as for
	// everybody else ----
	for _, proto := range protos {
		if proto == "vss" {
			continue
		}
		for _, how := range []string{"badtag", "empty", "sharetag"} {
			for _, sk := range []string{"omit", "late", "omit-lateok"} {
				n, t := conf()
				b := r.IntN(n)
				in := simBase(r, proto, n, t, b, []int{b})
				victim := in.Honest[r.IntN(len(in.Honest))]
				in.Byz[0].Shares[strconv.Itoa(victim)] = sk
				in.Byz[0].Unsol = []simUns{{Phase: 0, Complainer: victim, Kind: "ok"}}
				in.Byz[0].Extra = []simExtra{{Phase: 0, Kind: how}}
				in.Hint = pick(r, []string{"", "vector-first", "answers-first"})
				cs = append(cs, simFinish("disqualified-then-timeout-"+proto, in))
			}
		}
	}
	// ---- answer before vector: a share that is malformed in format makes the victim complain before
	// it has the vector; the dealer's answer (right or wrong) is broadcast and delivered before its
	// vector, so the answer can only be checked when the vector finally arrives ----
	for _, proto := range protos {
		for _, sk := range []string{"empty", "wrongtag", "badlen", "zero", "ger"} {
			for _, uk := range []string{"ok", "bad", "zero", "badlen"} {
				if !thorough && (len(sk)+len(uk))%2 == 1 && uk != "ok" && uk != "bad" {
					continue
				}
				n, t := conf()
				b := r.IntN(n)
				in := simBase(r, proto, n, t, b, []int{b})
				victim := in.Honest[r.IntN(len(in.Honest))]
				in.Byz[0].Shares[strconv.Itoa(victim)] = sk
				in.Byz[0].Unsol = []simUns{{Phase: 0, Complainer: victim, Kind: uk}}
				in.Hint = "share-answer-vector"
				cs = append(cs, simFinish("answer-before-vector-"+proto, in))
			}
		}
	}
	// ---- Byzantine complainers against an honest dealer: spurious, duplicate, late, malformed ----
	for rep := 0; rep < reps; rep++ {
		for _, proto := range protos {
			for _, ck := range []string{"ok", "dup", "badlen", "badidx"} {
				for ph := 0; ph < 3; ph++ {
					n, t := conf()
					nb := 1 + r.IntN(t)
					byz := simSubset(r, n, nb)
					dealer := 0
					for dealer = 0; dealer < n; dealer++ {
						ok := true
						for _, b := range byz {
							if b == dealer {
								ok = false
							}
						}
						if ok {
							break
						}
					}
					in := simBase(r, proto, n, t, dealer, byz)
					for k := range in.Byz {
						against := dealer
						if proto == "joint" {
							against = in.Honest[r.IntN(len(in.Honest))]
						}
						in.Byz[k].Complaints = []simCmp{{Phase: ph, Against: against, Kind: ck}}
						if r.IntN(3) == 0 {
							in.Byz[k].Extra = []simExtra{{Phase: r.IntN(3), Kind: pick(r, []string{"empty", "badtag", "sharetag"})}}
						}
					}
					in.Hint = pick(r, simHints)
					if proto == "qual" {
						in.MustKeys = true // honest dealer, at most t complaints
					}
					cs = append(cs, simFinish("complainers-"+proto, in))
				}
			}
		}
	}
	// ---- more than t and exactly t complaints ----
	for rep := 0; rep < 2*reps; rep++ {
		for _, proto := range protos {
			for _, extra := range []int{0, 1} {
				n := 4 + r.IntN(2)
				t := 1 + r.IntN((n-1)/2)
				nb := 1 + r.IntN(t)
				byz := simSubset(r, n, nb)
				b := byz[0]
				in := simBase(r, proto, n, t, b, byz)
				want := t + extra // number of complainers
				got := 0
				for k := 1; k < len(in.Byz) && got < want; k++ {
					in.Byz[k].Complaints = []simCmp{{Phase: r.IntN(2), Against: b, Kind: "ok"}}
					got++
				}
				for _, p := range in.Honest {
					if got < want {
						in.Byz[0].Shares[strconv.Itoa(p)] = pick(r, []string{"bad", "omit", "zero", "badlen"})
						got++
					}
				}
				in.Hint = pick(r, simHints)
				kind := "exactly-t-"
				if extra == 1 {
					kind = "more-than-t-"
				}
				cs = append(cs, simFinish(kind+proto, in))
			}
		}
	}
	cs = append(cs, simGenAudit(thorough, r)...)
	// ---- random mixtures ----
	nrand := 40
	if thorough {
		nrand = 1200
	}
	for i := 0; i < nrand; i++ {
		proto := protos[i%2]
		n := 3 + r.IntN(3)
		if thorough && r.IntN(4) == 0 {
			n = 6 + r.IntN(3)
		}
		t := 1 + r.IntN((n-1)/2)
		nb := r.IntN(t + 1)
		byz := simSubset(r, n, nb)
		dealer := r.IntN(n)
		in := simBase(r, proto, n, t, dealer, byz)
		for k := range in.Byz {
			b := &in.Byz[k]
			if r.IntN(3) == 0 {
				b.Vec = pick(r, simVecKinds)
			}
			if r.IntN(6) == 0 {
				b.VecPhase = 1
			}
			for _, p := range in.Honest {
				if r.IntN(3) == 0 {
					b.Shares[strconv.Itoa(p)] = pick(r, simShareKinds)
				}
				if r.IntN(3) == 0 {
					b.Answers[strconv.Itoa(p)] = pick(r, simAnswerKinds)
				}
			}
			if r.IntN(3) == 0 {
				b.Complaints = append(b.Complaints, simCmp{Phase: r.IntN(3), Against: r.IntN(n), Kind: pick(r, []string{"ok", "ok", "dup", "badlen", "badidx"})})
			}
			if r.IntN(5) == 0 {
				b.Unsol = append(b.Unsol, simUns{Phase: r.IntN(3), Complainer: r.IntN(n), Kind: pick(r, []string{"ok", "bad", "zero", "badlen"})})
			}
			if r.IntN(8) == 0 {
				b.Extra = append(b.Extra, simExtra{Phase: r.IntN(3), Kind: pick(r, []string{"empty", "badtag", "sharetag"})})
			}
		}
		in.Hint = pick(r, simHints)
		cs = append(cs, simFinish("random-"+proto, in))
	}
	return cs
}

// ---- families added by the generator audit (shared by C07 and C08) ----
func simGenAudit(thorough bool, r *rand.Rand) []Case {
	var cs []Case
	protos := []string{"qual", "joint"}
	reps := 1
	if thorough {
		reps = 4
	}
	key := strconv.Itoa
	for rep := 0; rep < reps; rep++ {
		for _, proto := range protos {
			// the new vector kinds, in time and late
			for i, vk := range simVecKinds2 {
				n := 3 + r.IntN(3)
				t := 1 + r.IntN((n-1)/2)
				if strings.HasSuffix(vk, "-mid") || vk == "allbad" {
					n, t = 5+r.IntN(2), 2
				}
				b := r.IntN(n)
				in := simBase(r, proto, n, t, b, []int{b})
				in.Byz[0].Vec, in.Byz[0].VecPhase = vk, 0
				if thorough && i%3 == 0 {
					in.Byz[0].VecPhase = 1
				}
				in.Hint = pick(r, simHints)
				cs = append(cs, simFinish("vec2-"+proto, in))
			}
			// the new share / answer kinds
			for _, sk := range simShareKinds2 {
				for _, ak := range []string{"ok", "bad"} {
					n, t := 3+r.IntN(3), 1
					b := r.IntN(n)
					in := simBase(r, proto, n, t, b, []int{b})
					victim := in.Honest[r.IntN(len(in.Honest))]
					in.Byz[0].Shares[key(victim)] = sk
					in.Byz[0].Answers[key(victim)] = ak
					in.Hint = pick(r, simHints)
					cs = append(cs, simFinish("share2-"+proto, in))
				}
			}
			for _, ak := range simAnswerKinds2 {
				for _, sk := range []string{"bad", "omit"} {
					n, t := 3+r.IntN(3), 1
					b := r.IntN(n)
					in := simBase(r, proto, n, t, b, []int{b})
					victim := in.Honest[r.IntN(len(in.Honest))]
					in.Byz[0].Shares[key(victim)] = sk
					in.Byz[0].Answers[key(victim)] = ak
					in.Hint = pick(r, simHints)
					cs = append(cs, simFinish("answer2-"+proto, in))
				}
			}
			// malformed complaints of the dealer with the boundary indices, per phase
			for ph := 0; ph < 3; ph++ {
				for _, ck := range []string{"idx255", "idxn", "empty"} {
					n, t := 3+r.IntN(3), 1
					b := r.IntN(n)
					in := simBase(r, proto, n, t, b, []int{b})
					in.Byz[0].Complaints = []simCmp{{Phase: ph, Against: b, Kind: ck}}
					cs = append(cs, simFinish("garbage2-"+proto, in))
				}
				{
					n, t := 3+r.IntN(3), 1
					b := r.IntN(n)
					in := simBase(r, proto, n, t, b, []int{b})
					in.Byz[0].Extra = []simExtra{{Phase: ph, Kind: "nil"}}
					cs = append(cs, simFinish("garbage2-"+proto, in))
				}
			}
			// ---- colluding complainer: a Byzantine participant complains against the Byzantine dealer, who answers
			// it in every way (right, wrong, unreadable, malformed, not at all, twice), also BEFORE the complaint ----
			for _, ak := range append(append([]string{}, simAnswerKinds...), simAnswerKinds2...) {
				for _, before := range []bool{false, true} {
					if before && (ak == "omit" || ak == "dup" || ak == "badfirst") {
						continue
					}
					if !thorough && before && len(ak)%2 == 0 {
						continue
					}
					n := 5 + r.IntN(2)
					t := 2
					byz := simSubset(r, n, 2)
					bi, ci := 0, 1
					if r.IntN(2) == 0 {
						bi, ci = 1, 0
					}
					in := simBase(r, proto, n, t, byz[bi], byz)
					b, c := &in.Byz[bi], &in.Byz[ci]
					c.Complaints = []simCmp{{Phase: r.IntN(2), Against: b.Idx, Kind: pick(r, []string{"ok", "ok", "dup"})}}
					if before {
						b.Unsol = []simUns{{Phase: 0, Complainer: c.Idx, Kind: ak}}
						b.Answers[key(c.Idx)] = "omit"
						c.Complaints[0].Phase = 1
					} else {
						b.Answers[key(c.Idx)] = ak
					}
					in.Hint = pick(r, simHints)
					cs = append(cs, simFinish("collude-"+proto, in))
				}
			}
			// ---- every honest receiver gets a different share defect, every complainer a different answer ----
			for k := 0; k < 3; k++ {
				n := 5 + r.IntN(2)
				t := 2
				b := r.IntN(n)
				in := simBase(r, proto, n, t, b, []int{b})
				sks := []string{"bad", "omit", "empty", "zero", "late", "badfirst", "ok", "dup", "twice"}
				aks := []string{"ok", "ok", "dup", "ok", "ok"}
				if k > 0 {
					aks = []string{"ok", "bad", "omit", "zero", "badfirst", "ok"}
				}
				off := r.IntN(len(sks))
				for i, p := range in.Honest {
					if k == 2 && i >= t { // at most t complainers
						break
					}
					in.Byz[0].Shares[key(p)] = sks[(off+i)%len(sks)]
					in.Byz[0].Answers[key(p)] = aks[(off+i)%len(aks)]
				}
				in.Hint = pick(r, simHints)
				cs = append(cs, simFinish("per-receiver-"+proto, in))
			}
			// ---- algebraic coincidences: the dealer's polynomial has a root at a participant's evaluation point (its
			// correct share is 0, which is not a valid share); the constant coefficient's commitment is published
			// as it is; the same polynomial used by two dealers ----
			for k := 0; k < 2; k++ {
				n := 3 + r.IntN(3)
				t := 1 + r.IntN((n-1)/2)
				b := r.IntN(n)
				in := simBase(r, proto, n, t, b, []int{b})
				victim := in.Honest[r.IntN(len(in.Honest))]
				in.Byz[0].Poly = simPolyStrings(simPolyWithRoot(r, t, int64(victim+1)))
				if k == 1 {
					in.Byz[0].Shares[key(victim)] = "omit"
				}
				in.Hint = pick(r, simHints)
				cs = append(cs, simFinish("zero-share-"+proto, in))
			}
			// ---- coincidences inside the Horner evaluation of the public share of one participant (evaluation point
			// x): x*A_t = A_{t-1} (the first addition is a doubling), x*A_t = -A_{t-1} (the accumulator passes
			// through the point at infinity), x*acc_1 = A_0 (the last addition is a doubling).  The dealer is
			// honest otherwise: everybody must accept it ----
			for k := 0; k < 3; k++ {
				n := 4 + r.IntN(3)
				t := 1 + r.IntN((n-1)/2)
				if k == 1 && t < 2 {
					t, n = 2, 5
				}
				b := r.IntN(n)
				in := simBase(r, proto, n, t, b, []int{b})
				victim := in.Honest[r.IntN(len(in.Honest))]
				x := big.NewInt(int64(victim + 1))
				a := c10RandPoly(r, t)
				switch k {
				case 0:
					a[t-1] = dkgMod(new(big.Int).Mul(x, a[t]))
				case 1:
					a[t-1] = dkgMod(new(big.Int).Neg(new(big.Int).Mul(x, a[t])))
				case 2:
					rest := append([]*big.Int{new(big.Int)}, a[1:]...)
					a[0] = dkgPeval(rest, int64(victim+1)) // = x * acc_1
				}
				in.Byz[0].Poly = simPolyStrings(a)
				in.ActsHonest, in.MustKeys = []int{b}, true
				in.Hint = pick(r, simHints)
				cs = append(cs, simFinish("horner-coincidence-"+proto, in))
			}
		}
		// ---- mixed complaints: 2..t complainers against one dealer, some answered correctly and some not at all /
		// wrongly (every assignment pattern, the unanswered one first, in the middle, last): whichever complaint an
		// implementation looks at last, the dealer is disqualified by everybody ----
		for _, proto := range []string{"qual", "joint"} {
			for k := 0; k < 8; k++ {
				t := 2 + k%2
				n := 2*t + 1 + r.IntN(2)
				b := r.IntN(n)
				in := simBase(r, proto, n, t, b, []int{b})
				nc := 2 + r.IntN(t-1)
				victims := simSubset(r, len(in.Honest), nc)
				badAt := k % nc
				for i, vi := range victims {
					v := in.Honest[vi]
					in.Byz[0].Shares[key(v)] = pick(r, []string{"bad", "omit", "badlen", "zero"})
					in.Byz[0].Answers[key(v)] = "ok"
					if i == badAt || (k >= 4 && r.IntN(3) == 0) {
						in.Byz[0].Answers[key(v)] = pick(r, []string{"omit", "omit", "bad"})
					}
				}
				in.Hint = pick(r, simHints)
				cs = append(cs, simFinish("mixed-complaints-"+proto, in))
			}
		}
		// ---- the same small-order shift in Feldman-VSS-Qual: only the participant with evaluation point 13 is simulated,
		// its share matches, nobody complains, and yet the dealer must be disqualified for its vector ----
		for _, hint := range []string{"share-first", "vector-first"} {
			in := simBase(r, "qual", 13+r.IntN(3), 2, 0, []int{0})
			in.Honest = []int{12}
			in.Hint = hint
			in.Byz[0].Vec = "g2plus13-c1"
			cs = append(cs, simFinish("small-order-qual", in))
		}
		// ---- Joint-Feldman with two faulty dealers of different kinds at once, and two dealers with the SAME polynomial ----
		for k := 0; k < 6; k++ {
			n := 5 + r.IntN(2)
			t := 2
			byz := simSubset(r, n, 2)
			in := simBase(r, "joint", n, t, 0, byz)
			a, b := &in.Byz[0], &in.Byz[1]
			switch k % 3 {
			case 0:
				a.Vec = pick(r, []string{"omit", "badlen", "notg2", "badpoint-first", "shorter"})
				v := in.Honest[r.IntN(len(in.Honest))]
				b.Shares[key(v)] = pick(r, []string{"bad", "omit", "empty"})
				b.Answers[key(v)] = pick(r, simAnswerKinds)
			case 1:
				for _, x := range []*simByz{a, b} {
					v := in.Honest[r.IntN(len(in.Honest))]
					x.Shares[key(v)] = pick(r, []string{"bad", "omit", "zero", "late"})
					x.Answers[key(v)] = pick(r, []string{"ok", "ok", "bad", "omit"})
				}
				a.Complaints = []simCmp{{Phase: r.IntN(2), Against: b.Idx, Kind: "ok"}}
				b.Answers[key(a.Idx)] = pick(r, simAnswerKinds)
			case 2:
				b.Poly = append([]string{}, a.Poly...)
				if r.IntN(2) == 0 {
					v := in.Honest[r.IntN(len(in.Honest))]
					a.Shares[key(v)] = "bad"
				}
			}
			in.Hint = pick(r, simHints)
			cs = append(cs, simFinish("two-dealers-joint", in))
		}
		// ---- thresholds at and above n/2 (the constructors accept any 1 <= t < n): the verdict rules do not depend
		// on n >= 2t+1, and Joint-Feldman's failure rule has its boundary there ----
		for _, proto := range protos {
			for _, nt := range [][2]int{{2, 1}, {3, 2}, {4, 2}, {4, 3}, {5, 3}} {
				n, t := nt[0], nt[1]
				for k := 0; k < 3; k++ {
					nb := k
					if nb > t || nb > n-1 {
						continue
					}
					byz := simSubset(r, n, nb)
					dealer := r.IntN(n)
					if nb > 0 {
						dealer = byz[0]
					}
					in := simBase(r, proto, n, t, dealer, byz)
					for i := range in.Byz {
						x := &in.Byz[i]
						switch r.IntN(3) {
						case 0:
							x.Vec = pick(r, []string{"omit", "badlen", "notg2"})
						case 1:
							v := in.Honest[r.IntN(len(in.Honest))]
							x.Shares[key(v)] = pick(r, []string{"bad", "omit"})
							x.Answers[key(v)] = pick(r, []string{"ok", "bad", "omit"})
						}
					}
					if nb == 0 {
						in.MustKeys = true
					}
					in.Hint = pick(r, simHints)
					cs = append(cs, simFinish("high-t-"+proto, in))
				}
			}
		}
		// ---- the largest group (n = 254): indices above 127 on the wire and in the evaluation points; only a sample
		// of the honest participants is simulated (the others stay silent, which is not a fault of the dealer) ----
		for k := 0; k < 2; k++ {
			n, t := 254, 1+k
			dealer := []int{253, 0}[k]
			in := simBase(r, "qual", n, t, dealer, []int{dealer})
			victim := []int{200, 253}[k]
			in.Honest = []int{[]int{0, 1}[k], 128 + r.IntN(60), victim}
			sort.Ints(in.Honest)
			in.Byz[0].Shares[key(victim)] = []string{"bad", "omit"}[k]
			in.Byz[0].Answers[key(victim)] = []string{"ok", "bad"}[k]
			in.Hint = pick(r, simHints)
			cs = append(cs, simFinish("big-n-qual", in))
		}
		{
			// honest dealer with index 253, a Byzantine complainer with index 252
			in := simBase(r, "qual", 254, 2, 253, []int{252})
			in.Honest = []int{0, 130, 253}
			in.Byz[0].Complaints = []simCmp{{Phase: 0, Against: 253, Kind: "ok"}}
			in.MustKeys = true
			cs = append(cs, simFinish("big-n-qual", in))
		}
	}
	return cs
}
