package main

// Minimal affine arithmetic on BLS12-381 E2 (y^2 = x^3 + 4(1+u) over F_p[u]/(u^2+1)) with math/big, used only to
// BUILD malformed verification vectors for the DKG simulator: points on the curve but outside G2 that have a
// small-order component (a point of order 13 alone, and a G2 point plus that point).  Never used as an oracle; the
// library itself is asked to confirm that what was built is "on the curve, not in the group".

import (
	"math/big"
	"strings"

	"github.com/onflow/crypto"
)

var dkgFpP, _ = new(big.Int).SetString("1a0111ea397fe69a4b1ba7b6434bacd764774b84f38512bf6730d2a0f6b0f6241eabfffeb153ffffb9feffffffffaaab", 16)

// cofactor of G2 in E2(F_p^2) = 13^2 * 23^2 * 2713 * 11953 * 262069 * (a 437-bit prime)
var dkgH2, _ = new(big.Int).SetString("5d543a95414e7f1091d50792876a202cd91de4547085abaa68a205b2e5a7ddfa628f1cb4d9e82ef21537e293a6691ae1616ec6e786f0c70cf1c38e31c7238e5", 16)

type fp2 struct{ a, b *big.Int } // a + b u

func fpm(x *big.Int) *big.Int { return x.Mod(x, dkgFpP) }
func f2(a, b int64) fp2       { return fp2{big.NewInt(a), big.NewInt(b)} }
func (x fp2) add(y fp2) fp2 {
	return fp2{fpm(new(big.Int).Add(x.a, y.a)), fpm(new(big.Int).Add(x.b, y.b))}
}
func (x fp2) sub(y fp2) fp2 {
	return fp2{fpm(new(big.Int).Sub(x.a, y.a)), fpm(new(big.Int).Sub(x.b, y.b))}
}
func (x fp2) mul(y fp2) fp2 {
	ac := new(big.Int).Mul(x.a, y.a)
	bd := new(big.Int).Mul(x.b, y.b)
	ad := new(big.Int).Mul(x.a, y.b)
	bc := new(big.Int).Mul(x.b, y.a)
	return fp2{fpm(ac.Sub(ac, bd)), fpm(ad.Add(ad, bc))}
}
func (x fp2) isZero() bool  { return x.a.Sign() == 0 && x.b.Sign() == 0 }
func (x fp2) eq(y fp2) bool { return x.sub(y).isZero() }
func (x fp2) inv() fp2 {
	n := new(big.Int).Mul(x.a, x.a)
	n.Add(n, new(big.Int).Mul(x.b, x.b))
	ni := new(big.Int).ModInverse(fpm(n), dkgFpP)
	return fp2{fpm(new(big.Int).Mul(x.a, ni)), fpm(new(big.Int).Neg(new(big.Int).Mul(x.b, ni)))}
}

func fpSqrtP(a *big.Int) *big.Int {
	e := new(big.Int).Rsh(new(big.Int).Add(dkgFpP, big.NewInt(1)), 2)
	c := new(big.Int).Exp(a, e, dkgFpP)
	if fpm(new(big.Int).Mul(c, c)).Cmp(new(big.Int).Mod(a, dkgFpP)) != 0 {
		return nil
	}
	return c
}

// a square root in F_p^2, nil if there is none (norm method; p = 3 mod 4)
func (x fp2) sqrt() *fp2 {
	if x.isZero() {
		z := f2(0, 0)
		return &z
	}
	n := new(big.Int).Mul(x.a, x.a)
	n.Add(n, new(big.Int).Mul(x.b, x.b))
	s := fpSqrtP(fpm(n))
	if s == nil {
		return nil
	}
	half := new(big.Int).ModInverse(big.NewInt(2), dkgFpP)
	for _, sg := range []*big.Int{s, new(big.Int).Neg(s)} {
		t := fpm(new(big.Int).Mul(new(big.Int).Add(x.a, sg), half))
		r0 := fpSqrtP(t)
		if r0 == nil {
			continue
		}
		if r0.Sign() == 0 {
			// x = b u with ... : the root is purely imaginary
			r1 := fpSqrtP(fpm(new(big.Int).Neg(x.a)))
			if r1 == nil {
				continue
			}
			c := fp2{new(big.Int), r1}
			if c.mul(c).eq(x) {
				return &c
			}
			continue
		}
		r1 := fpm(new(big.Int).Mul(x.b, new(big.Int).ModInverse(fpm(new(big.Int).Mul(big.NewInt(2), r0)), dkgFpP)))
		c := fp2{r0, r1}
		if c.mul(c).eq(x) {
			return &c
		}
	}
	return nil
}

type e2pt struct {
	x, y fp2
	inf  bool
}

var e2B = f2(4, 4)

func e2Add(p, q e2pt) e2pt {
	if p.inf {
		return q
	}
	if q.inf {
		return p
	}
	var lam fp2
	if p.x.eq(q.x) {
		if p.y.add(q.y).isZero() {
			return e2pt{inf: true}
		}
		lam = f2(3, 0).mul(p.x.mul(p.x)).mul(f2(2, 0).mul(p.y).inv())
	} else {
		lam = q.y.sub(p.y).mul(q.x.sub(p.x).inv())
	}
	x3 := lam.mul(lam).sub(p.x).sub(q.x)
	y3 := lam.mul(p.x.sub(x3)).sub(p.y)
	return e2pt{x3, y3, false}
}

func e2Mul(k *big.Int, p e2pt) e2pt {
	r := e2pt{inf: true}
	for i := k.BitLen() - 1; i >= 0; i-- {
		r = e2Add(r, r)
		if k.Bit(i) == 1 {
			r = e2Add(r, p)
		}
	}
	return r
}

// the point with the given x coordinate (either root), false if x^3 + b is not a square
func e2Lift(x fp2) (e2pt, bool) {
	y := x.mul(x).mul(x).add(e2B).sqrt()
	if y == nil {
		return e2pt{}, false
	}
	return e2pt{x, *y, false}, true
}

// the library's compressed encoding: x.a || x.b big endian (48 bytes each), 0x80 set; the sign bit is left clear
// (either root gives a point of the same subgroup membership, which is all that matters here)
func e2Enc(p e2pt) []byte {
	out := make([]byte, 96)
	p.x.a.FillBytes(out[:48])
	p.x.b.FillBytes(out[48:])
	out[0] |= 0x80
	return out
}

// x coordinate of a VALID compressed encoding produced by the library
func e2DecX(b []byte) fp2 {
	xa := append([]byte{}, b[:48]...)
	xa[0] &= 0x1F
	return fp2{new(big.Int).SetBytes(xa), new(big.Int).SetBytes(b[48:96])}
}

var dkgSmall = map[string][]byte{}

// "order13": a point of order 13 of E2; "g2plus13": a point of G2 plus a point of order 13.  Both are on the curve
// and outside G2; the library must say so (checked here, so that a wrong convention cannot go unnoticed).
func simSmallOrderPoint(kind string) []byte {
	if b, ok := dkgSmall[kind]; ok {
		return b
	}
	// a curve point outside G2 found by the simulator's search, lifted to affine coordinates
	q, ok := e2Lift(e2DecX(simBadPoint("notg2")))
	if !ok {
		panic("dkge2: the library's not-in-G2 point does not lift (coordinate convention?)")
	}
	// 13^2 divides the cofactor: remove the whole 13-part from the multiplier, then reduce to order 13
	k := new(big.Int).Mul(new(big.Int).Div(dkgH2, big.NewInt(169)), dkgR)
	t := e2Mul(k, q)
	for i := int64(2); t.inf && i < 40; i++ { // the 13-part of q may be trivial: try other points
		q2, ok := e2Lift(q.x.add(f2(i, 0)))
		if ok {
			t = e2Mul(k, q2)
		}
	}
	if !t.inf && !e2Mul(big.NewInt(13), t).inf {
		t = e2Mul(big.NewInt(13), t)
	}
	if t.inf || !e2Mul(big.NewInt(13), t).inf {
		panic("dkge2: no point of order 13 found")
	}
	var p e2pt
	switch kind {
	case "order13":
		p = t
	case "g2plus13":
		a, ok := e2Lift(e2DecX(dkgEncG2(big.NewInt(12345))))
		if !ok {
			panic("dkge2: a G2 point does not lift")
		}
		p = e2Add(a, t)
	default:
		panic("dkge2: kind " + kind)
	}
	enc := e2Enc(p)
	_, err := crypto.DecodePublicKey(crypto.BLSBLS12381, enc)
	if err == nil || !strings.Contains(err.Error(), "valid group") {
		panic("dkge2: the library does not classify the " + kind + " point as on the curve and outside G2: " + errString(err))
	}
	dkgSmall[kind] = enc
	return enc
}

func errString(err error) string {
	if err == nil {
		return "accepted"
	}
	return err.Error()
}

// ---- exact encodings (with the sign bit), needed when a malformed point must stay CONSISTENT with shares ----

func dkgBigHex(h string) *big.Int { z, _ := new(big.Int).SetString(h, 16); return z }

// the generator of G2 (draft-irtf-cfrg-pairing-friendly-curves)
var e2Gen = e2pt{
	x: fp2{dkgBigHex("024aa2b2f08f0a91260805272dc51051c6e47ad4fa403b02b4510b647ae3d1770bac0326a805bbefd48056c8c121bdb8"),
		dkgBigHex("13e02b6052719f607dacd3a088274f65596bd0d09920b61ab5da61bbdc7f5049334cf11213945d57e5ac7d055d042b7e")},
	y: fp2{dkgBigHex("0ce5d527727d6e118cc9cdc6da2e351aadfd9baa8cbdd3a76d429a695160d12c923ac9cc3baca289e193548608b82801"),
		dkgBigHex("0606c4a02ea734cc32acd2b02bc28b99cb3e287e85a763af267492ab572e99ab3f370d275cec1da1aaa9075ff05f79be")},
}

// is y "larger" than -y: rule 0 compares the u-coefficient first (ZCash), rule 1 the constant coefficient first
func e2Larger(y fp2, rule int) bool {
	ny := f2(0, 0).sub(y)
	hi, lo, nhi, nlo := y.b, y.a, ny.b, ny.a
	if rule == 1 {
		hi, lo, nhi, nlo = y.a, y.b, ny.a, ny.b
	}
	if c := hi.Cmp(nhi); c != 0 {
		return c > 0
	}
	return lo.Cmp(nlo) > 0
}

var e2SignRule = -1

// the compressed encoding of p as the library writes it; the sign rule is learnt from the library's own encodings
// of [1]G .. [6]G (computed here from the generator) and the result is cross-checked against them
func e2EncSigned(p e2pt) []byte {
	if e2SignRule < 0 {
		for rule := 0; rule < 2 && e2SignRule < 0; rule++ {
			ok := true
			for k := int64(1); k <= 6; k++ {
				q := e2Mul(big.NewInt(k), e2Gen)
				lib := dkgEncG2(big.NewInt(k))
				if !e2DecX(lib).eq(q.x) {
					panic("dkge2: [k]G computed here differs from the library's")
				}
				if (lib[0]&0x20 != 0) != e2Larger(q.y, rule) {
					ok = false
				}
			}
			if ok {
				e2SignRule = rule
			}
		}
		if e2SignRule < 0 {
			panic("dkge2: the sign convention of the library's G2 encoding was not recognised")
		}
	}
	out := e2Enc(p)
	if e2Larger(p.y, e2SignRule) {
		out[0] |= 0x20
	}
	return out
}

// the encoding of [s]G + T for a point T of order 13: outside G2, and 13 times it is [13 s]G
func simG2Plus13(s *big.Int) []byte { return simG2Plus13k(s, 1) }

// [s]G + [k]T for the point T of order 13 (k = 12 is [s]G - T)
func simG2Plus13k(s *big.Int, k int64) []byte {
	simSmallOrderPoint("order13")
	t, ok := e2Lift(e2DecX(dkgSmall["order13"]))
	if !ok {
		panic("dkge2: order-13 point does not lift")
	}
	a := e2Mul(dkgMod(s), e2Gen)
	if string(e2EncSigned(a)) != string(dkgEncG2(s)) {
		panic("dkge2: exact encoding of [s]G differs from the library's")
	}
	enc := e2EncSigned(e2Add(a, e2Mul(big.NewInt(k), t)))
	if _, err := crypto.DecodePublicKey(crypto.BLSBLS12381, enc); err == nil || !strings.Contains(err.Error(), "valid group") {
		panic("dkge2: [s]G + T is not classified as outside G2: " + errString(err))
	}
	return enc
}
