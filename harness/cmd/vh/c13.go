package main

import (
	"math"
	"encoding/json"
	"fmt"
	"math/rand/v2"

	"github.com/onflow/crypto/hash"
)

// C13 case: operations on ONE hasher object (or a one-shot helper).
type c13Op struct {
	Op   string `json:"op"`             // write | sum | reset | compute
	Data string `json:"data,omitempty"` // hex input of write / compute
	Nil  bool   `json:"nil,omitempty"`  // pass a nil slice (Data must be empty) instead of an empty one
}
type c13In struct {
	Alg     string  `json:"alg"` // sha3_256 sha3_384 keccak_256 sha2_256 sha2_384 kmac128 oneshot_sha3_256 oneshot_sha2_256
	Key     string  `json:"key,omitempty"`
	Cust    string  `json:"cust,omitempty"`
	OutSize int     `json:"outsize,omitempty"`
	Ops     []c13Op `json:"ops"`
	// Shadow: a SECOND object of the same type (same key/customizer slices for KMAC) and the one-shot
	// helpers are driven with unrelated data between the operations: objects must be independent
	Shadow bool `json:"shadow,omitempty"`
}

func init() {
	register(&Prop{
		ID:        "C13",
		Header:    "From Coq Require Import ZArith NArith List String.\nFrom V Require Import Lib.Hex Corr.C13Corr.\nImport ListNotations.\nOpen Scope string_scope.\n",
		Check:     "bad_ids",
		PropCheck: "prop_bad_ids",
		Gen:       c13Gen,
		Run:       c13Run,
		Rule:      "operation sequences (Write/SumHash/Reset/ComputeHash) on one hasher object: every single-write length 0..4*rate for the three sponge hashers (quick: stride + block boundaries), two-way splits around block boundaries, random interleavings incl. write-after-sum and double sum, KMAC128 key/customizer/output length sweeps with the bytepad-aligned key lengths 162..164 and 330..332, KMAC128 ComputeHash as well as SumHash at every output size, key length and output size of 8192 bytes (third byte of left_encode / right_encode), constructor rejections, SHA2 with write-after-sum, one-shot helpers (misaligned and nil input, dirty result buffer); for every hasher type: each of SumHash / Reset / ComputeHash / empty Write / nil Write as the FIRST operation on a new object, nil slices, random KMAC interleavings with empty writes, a second object of the same type (same key and customizer slices) and the one-shot helpers driven with unrelated data between the operations; the runner itself reports: Write not returning (len(p), nil), Size() / Algorithm() not matching the type and the digests, a message / key / customizer buffer modified by the library, a digest returned earlier that changes later, and it overwrites every caller buffer (message, key, customizer) as soon as the call it was passed to has returned; non-trivial if a digest was produced or a constructor rejected; distinct by (algorithm, key, customizer, output size, op list); negative output sizes whose multiple of 8 wraps (MinInt64, -2^62, -2^61)",
		Shard:     40,
	})
}

var c13Sponges = []struct {
	name string
	rate int
}{{"sha3_256", 136}, {"sha3_384", 104}, {"keccak_256", 136}}

func c13w(r *rand.Rand, n int) c13Op { return c13Op{Op: "write", Data: hx(rbytes(r, n))} }

func c13Gen(tier string, r *rand.Rand) []Case {
	th := tier == "thorough"
	var cs []Case
	add := func(kind string, in c13In) { cs = append(cs, mkcase(kind, in)) }

	// 1. every input length 0..4*rate in one write (fresh object, or after Reset on a dirty object)
	for ai, a := range c13Sponges {
		stride := 11
		if th {
			stride = 1
		}
		for l := 0; l <= 4*a.rate; l++ {
			m := l % a.rate
			boundary := m == 0 || m == 1 || m == a.rate-1
			if !boundary && (l+ai)%stride != 0 {
				continue
			}
			var ops []c13Op
			switch l % 3 {
			case 0: // fresh object with the -1 sentinel
			case 1: // dirty mid-write buffer, then Reset
				ops = append(ops, c13w(r, 1+r.IntN(a.rate-1)), c13Op{Op: "reset"})
			case 2: // explicit Reset on a fresh object
				ops = append(ops, c13Op{Op: "reset"})
			}
			ops = append(ops, c13w(r, l), c13Op{Op: "sum"})
			add("len-sweep", c13In{Alg: a.name, Ops: ops})
		}
	}
	// 2. two-way splits around block boundaries
	for _, a := range c13Sponges {
		totals := []int{a.rate - 1, a.rate, a.rate + 1, 2*a.rate - 1, 2 * a.rate, 2*a.rate + 1, 3*a.rate + 5}
		for ti, tot := range totals {
			splits := []int{0, 1, a.rate - 1, a.rate, a.rate + 1, 2*a.rate - 1, 2 * a.rate, tot - 1, tot}
			if th {
				splits = nil
				for s := 0; s <= tot; s++ {
					splits = append(splits, s)
				}
			}
			for si, s := range splits {
				if s < 0 || s > tot {
					continue
				}
				if !th && (si+ti)%2 != 0 {
					continue
				}
				msg := rbytes(r, tot)
				ops := []c13Op{}
				if (si+ti)%4 < 2 {
					ops = append(ops, c13Op{Op: "reset"})
				}
				ops = append(ops, c13Op{Op: "write", Data: hx(msg[:s])}, c13Op{Op: "write", Data: hx(msg[s:])}, c13Op{Op: "sum"})
				add("split", c13In{Alg: a.name, Ops: ops})
			}
		}
	}
	// 3. many-way splits and interleavings on one object
	nmix := 24
	if th {
		nmix = 400
	}
	for i := 0; i < nmix; i++ {
		a := c13Sponges[i%3]
		sizes := []int{0, 1, 7, 8, a.rate - 1, a.rate, a.rate + 1, 2 * a.rate, 2*a.rate + 3}
		var ops []c13Op
		n := 3 + r.IntN(6)
		for j := 0; j < n; j++ {
			sz := sizes[r.IntN(len(sizes))]
			if r.IntN(3) == 0 {
				sz = r.IntN(2*a.rate + 10)
			}
			switch r.IntN(8) {
			case 0:
				ops = append(ops, c13Op{Op: "sum"})
			case 1:
				ops = append(ops, c13Op{Op: "reset"})
			case 2:
				ops = append(ops, c13Op{Op: "compute", Data: hx(rbytes(r, sz))})
			case 3:
				ops = append(ops, c13Op{Op: "sum"}, c13Op{Op: "reset"})
			default:
				ops = append(ops, c13w(r, sz))
			}
		}
		ops = append(ops, c13Op{Op: "sum"})
		add("interleave", c13In{Alg: a.name, Ops: ops})
	}
	// history independence of ComputeHash: fresh / mid-write / post-sum / post-compute
	for _, a := range c13Sponges {
		x := rbytes(r, a.rate+3)
		c := c13Op{Op: "compute", Data: hx(x)}
		add("compute-history", c13In{Alg: a.name, Ops: []c13Op{c, c13w(r, 5), c, c13w(r, a.rate), c13Op{Op: "sum"}, c, c}})
	}

	// 4. KMAC128
	kmacOps := func(short bool) []c13Op {
		if short {
			return []c13Op{c13w(r, r.IntN(40)), c13Op{Op: "sum"}}
		}
		x := rbytes(r, 1+r.IntN(60))
		return []c13Op{c13w(r, r.IntN(50)), c13Op{Op: "sum"}, c13w(r, 1+r.IntN(200)), c13Op{Op: "sum"},
			c13Op{Op: "compute", Data: hx(x)}, c13Op{Op: "sum"}, c13Op{Op: "reset"}, c13Op{Op: "write", Data: hx(x)}, c13Op{Op: "sum"}}
	}
	// streaming side of KMAC: random interleavings of Write (incl. EMPTY writes), SumHash, Reset,
	// ComputeHash on one object, and the deterministic "empty write just before Reset" shape
	nKmacMix := 12
	if th {
		nKmacMix = 200
	}
	for i := 0; i < nKmacMix; i++ {
		var ops []c13Op
		n := 3 + r.IntN(7)
		for j := 0; j < n; j++ {
			switch r.IntN(9) {
			case 0:
				ops = append(ops, c13Op{Op: "sum"})
			case 1:
				ops = append(ops, c13Op{Op: "reset"})
			case 2:
				ops = append(ops, c13Op{Op: "compute", Data: hx(rbytes(r, r.IntN(200)))})
			case 3, 4:
				ops = append(ops, c13w(r, 0))
			case 5:
				ops = append(ops, c13w(r, 0), c13Op{Op: "reset"})
			default:
				ops = append(ops, c13w(r, []int{1, 7, 167, 168, 169, 40}[r.IntN(6)]))
			}
		}
		ops = append(ops, c13Op{Op: "sum"})
		add("kmac-interleave", c13In{Alg: "kmac128", Key: hx(rbytes(r, 16+r.IntN(40))), Cust: hx(rbytes(r, r.IntN(10))), OutSize: 32, Ops: ops})
	}
	for _, alg := range []string{"kmac128", "sha3_256", "sha3_384", "keccak_256", "sha2_256", "sha2_384"} {
		in := c13In{Alg: alg, Ops: []c13Op{c13w(r, 9), c13w(r, 0), c13Op{Op: "reset"}, c13w(r, 5), c13Op{Op: "sum"},
			c13w(r, 0), c13Op{Op: "reset"}, c13w(r, 0), c13Op{Op: "sum"}}}
		if alg == "kmac128" {
			in.Key, in.Cust, in.OutSize = hx(rbytes(r, 20)), hx(rbytes(r, 3)), 32
		}
		add("empty-write-then-reset", in)
	}
	keyLens := []int{16, 17, 32, 100, 161, 162, 163, 164, 165, 329, 330, 331, 332, 333, 400}
	if th {
		keyLens = nil
		for l := 16; l <= 400; l++ {
			keyLens = append(keyLens, l)
		}
		keyLens = append(keyLens, 498, 499, 500, 666, 667, 668)
	}
	for i, kl := range keyLens {
		add("kmac-keylen", c13In{Alg: "kmac128", Key: hx(rbytes(r, kl)), Cust: hx(rbytes(r, r.IntN(20))), OutSize: 32, Ops: kmacOps(i%5 != 0)})
	}
	custLens := []int{0, 1, 21, 31, 32, 100, 156, 157, 158, 200}
	if th {
		custLens = nil
		for l := 0; l <= 200; l++ {
			custLens = append(custLens, l)
		}
		custLens = append(custLens, 324, 325, 326)
	}
	for i, cl := range custLens {
		add("kmac-custlen", c13In{Alg: "kmac128", Key: hx(rbytes(r, 16+r.IntN(32))), Cust: hx(rbytes(r, cl)), OutSize: 16 + r.IntN(40), Ops: kmacOps(i%4 != 0)})
	}
	outLens := []int{0, 1, 31, 32, 33, 167, 168, 169, 336, 337, 1000}
	if th {
		outLens = nil
		for l := 0; l <= 1000; l++ {
			if l <= 340 || l%23 == 0 || l >= 990 {
				outLens = append(outLens, l)
			}
		}
	}
	for _, ol := range outLens {
		add("kmac-outlen", c13In{Alg: "kmac128", Key: hx(rbytes(r, 16+r.IntN(32))), Cust: hx(rbytes(r, r.IntN(20))), OutSize: ol,
			Ops: []c13Op{c13w(r, r.IntN(40)), {Op: "sum"}, {Op: "compute", Data: hx(rbytes(r, r.IntN(40)))}, {Op: "sum"}}})
	}
	// lengths at which left_encode / right_encode need a third byte (2^16 bits = 8192 bytes): key length
	// (encode_string of the key) and output size (right_encode(L)), through SumHash and through ComputeHash
	wideKeys, wideOuts := []int{8192}, []int{8192}
	if th {
		wideKeys, wideOuts = []int{8191, 8192, 8193, 8192 + 163}, []int{8191, 8192, 8193, 8192 + 168}
	}
	for i, kl := range wideKeys {
		ops := []c13Op{c13w(r, 5), {Op: "sum"}}
		if i%2 == 1 || th {
			ops = append(ops, c13Op{Op: "compute", Data: hx(rbytes(r, 9))})
		}
		add("kmac-encode-width", c13In{Alg: "kmac128", Key: hx(rbytes(r, kl)), Cust: hx(rbytes(r, 2)), OutSize: 32, Ops: ops})
	}
	for i, ol := range wideOuts {
		ops := []c13Op{c13w(r, 7), {Op: "sum"}}
		if i%2 == 0 {
			ops = []c13Op{{Op: "compute", Data: hx(rbytes(r, 7))}}
		}
		if th {
			ops = []c13Op{c13w(r, 7), {Op: "sum"}, {Op: "compute", Data: hx(rbytes(r, 7))}}
		}
		add("kmac-encode-width", c13In{Alg: "kmac128", Key: hx(rbytes(r, 16)), OutSize: ol, Ops: ops})
	}
	// NIST samples #1 and #2 shapes (key 40..5f, data 00 01 02 03)
	nk := make([]byte, 32)
	for i := range nk {
		nk[i] = byte(0x40 + i)
	}
	for _, cust := range []string{"", "My Tagged Application"} {
		add("kmac-nist", c13In{Alg: "kmac128", Key: hx(nk), Cust: hx([]byte(cust)), OutSize: 32,
			Ops: []c13Op{{Op: "write", Data: "00010203"}, {Op: "sum"}, {Op: "compute", Data: "00010203"}}})
	}
	// rejections
	for kl := 0; kl <= 15; kl++ {
		add("kmac-reject", c13In{Alg: "kmac128", Key: hx(rbytes(r, kl)), Cust: hx(rbytes(r, kl%3)), OutSize: 32})
	}
	for _, os := range []int{-1, -2, -32, -1 << 40, math.MinInt64, -1 << 62, -1 << 61, -1<<61 + 5, -1<<62 - 7, math.MinInt64 + 32} {
		add("kmac-reject", c13In{Alg: "kmac128", Key: hx(rbytes(r, 16+r.IntN(20))), OutSize: os})
	}
	add("kmac-reject", c13In{Alg: "kmac128", Key: hx(rbytes(r, 3)), OutSize: -5})

	// 4b. the FIRST operation on a never-used object is each of SumHash / Reset / ComputeHash / an empty or
	// nil Write (lazily initialised buffers), and nil slices where an empty one is allowed
	allAlgs := []string{"kmac128", "sha3_256", "sha3_384", "keccak_256", "sha2_256", "sha2_384"}
	mkIn := func(alg string, ops []c13Op) c13In {
		in := c13In{Alg: alg, Ops: ops}
		if alg == "kmac128" {
			in.Key, in.Cust, in.OutSize = hx(rbytes(r, 16+r.IntN(30))), hx(rbytes(r, r.IntN(5))), 1+r.IntN(60)
		}
		return in
	}
	nilw := c13Op{Op: "write", Nil: true}
	for _, alg := range allAlgs {
		add("first-op", mkIn(alg, []c13Op{{Op: "sum"}}))
		add("first-op", mkIn(alg, []c13Op{{Op: "reset"}, {Op: "sum"}}))
		add("first-op", mkIn(alg, []c13Op{{Op: "compute", Nil: true}, c13w(r, 3), {Op: "sum"}}))
		add("first-op", mkIn(alg, []c13Op{nilw, c13w(r, 0), {Op: "sum"}}))
		add("first-op", mkIn(alg, []c13Op{{Op: "sum"}, {Op: "sum"}, {Op: "reset"}, nilw, {Op: "sum"}}))
		add("first-op", mkIn(alg, []c13Op{{Op: "compute", Data: ""}, {Op: "reset"}, c13w(r, 136), nilw, {Op: "sum"}, {Op: "compute", Nil: true}}))
	}
	// 4c. two objects of one type (and the one-shot helpers) used in turn: no state is shared between them
	nsh := 1
	if th {
		nsh = 20
	}
	for i := 0; i < nsh; i++ {
		for _, alg := range allAlgs {
			ops := []c13Op{c13w(r, 1+r.IntN(150)), c13w(r, 136), {Op: "sum"}, {Op: "reset"}, c13w(r, r.IntN(300)), {Op: "sum"},
				{Op: "compute", Data: hx(rbytes(r, r.IntN(200)))}, {Op: "reset"}, c13w(r, 104), c13w(r, 1+r.IntN(7)), {Op: "sum"}}
			in := mkIn(alg, ops)
			in.Shadow = true
			add("two-objects", in)
		}
	}

	// 5. SHA2: random lengths, chunkings, write-after-sum
	nsha := 30
	if th {
		nsha = 400
	}
	for i := 0; i < nsha; i++ {
		alg := "sha2_256"
		blk := 64
		if i%2 == 1 {
			alg, blk = "sha2_384", 128
		}
		lens := []int{0, 1, blk - 9, blk - 8, blk - 1, blk, blk + 1, 2 * blk, r.IntN(3 * blk), r.IntN(5 * blk)}
		var ops []c13Op
		if i%3 == 0 {
			ops = append(ops, c13w(r, r.IntN(blk)), c13Op{Op: "reset"})
		}
		ops = append(ops, c13w(r, lens[r.IntN(len(lens))]), c13Op{Op: "sum"}, c13w(r, lens[r.IntN(len(lens))]), c13Op{Op: "sum"},
			c13Op{Op: "compute", Data: hx(rbytes(r, lens[r.IntN(len(lens))]))}, c13w(r, r.IntN(blk)), c13Op{Op: "sum"}, c13Op{Op: "reset"}, c13Op{Op: "sum"})
		add("sha2", c13In{Alg: alg, Ops: ops})
	}
	// 6. one-shot helpers
	one := []int{0, 1, 135, 136, 137, 271, 272, 273, 300, 408, 544, 1000}
	if th {
		one = nil
		for l := 0; l <= 2*136+2; l++ {
			one = append(one, l)
		}
	}
	for _, l := range one {
		add("oneshot", c13In{Alg: "oneshot_sha3_256", Ops: []c13Op{{Op: "compute", Data: hx(rbytes(r, l))}}})
		add("oneshot", c13In{Alg: "oneshot_sha2_256", Ops: []c13Op{{Op: "compute", Data: hx(rbytes(r, l))}}})
	}
	add("oneshot", c13In{Alg: "oneshot_sha3_256", Ops: []c13Op{{Op: "compute", Nil: true}}})
	add("oneshot", c13In{Alg: "oneshot_sha2_256", Ops: []c13Op{{Op: "compute", Nil: true}}})
	return cs
}

// c13Arg is the slice handed to the library for an operation's data: a misaligned private copy, or nil
func c13Arg(op c13Op, k int) []byte {
	if op.Nil {
		return nil
	}
	return misalign(unhx(op.Data), k)
}

func c13Scribble(b []byte) {
	for i := range b {
		b[i] ^= 0xA5
	}
}

func c13Run(c Case) (Result, error) {
	var in c13In
	if err := json.Unmarshal(c.Input, &in); err != nil {
		return Result{}, err
	}
	type obsOp struct {
		Op    string `json:"op"`
		Out   string `json:"out,omitempty"`
		Panic string `json:"panic,omitempty"`
	}
	var obs []obsOp
	key := string(c.Input)

	// one-shot helpers
	if in.Alg == "oneshot_sha3_256" || in.Alg == "oneshot_sha2_256" {
		if len(in.Ops) != 1 {
			return Result{}, fmt.Errorf("oneshot needs exactly one op")
		}
		x := c13Arg(in.Ops[0], len(in.Ops[0].Data)/2+1)
		var out [32]byte
		for i := range out {
			out[i] = 0xEE // dirty result buffer: the helper must overwrite all of it
		}
		ctor := "COneShotSHA3_256"
		p, msg := catch(func() {
			if in.Alg == "oneshot_sha3_256" {
				hash.ComputeSHA3_256(&out, x)
			} else {
				ctor = "COneShotSHA2_256"
				hash.ComputeSHA2_256(&out, x)
			}
		})
		if hx(x) != in.Ops[0].Data {
			return Result{}, implViolation("%s modified the caller's message buffer", in.Alg)
		}
		o := hx(out[:])
		if p {
			o = "" // a panic shows as a wrong (empty) output
		}
		obs = append(obs, obsOp{"oneshot", o, msg})
		return Result{Coq: fmt.Sprintf("%s %s %s", ctor, cqs(in.Ops[0].Data), cqs(o)), Key: key, Nontrivial: true, Obs: obs}, nil
	}

	var h, h2 hash.Hasher // h2: the shadow object (in.Shadow)
	var algTerm string
	wantSize, wantAlg := 0, hash.UnknownHashingAlgorithm
	switch in.Alg {
	case "sha3_256":
		h, h2, algTerm, wantSize, wantAlg = hash.NewSHA3_256(), hash.NewSHA3_256(), "ASha3_256", 32, hash.SHA3_256
	case "sha3_384":
		h, h2, algTerm, wantSize, wantAlg = hash.NewSHA3_384(), hash.NewSHA3_384(), "ASha3_384", 48, hash.SHA3_384
	case "keccak_256":
		h, h2, algTerm, wantSize, wantAlg = hash.NewKeccak_256(), hash.NewKeccak_256(), "AKeccak_256", 32, hash.Keccak_256
	case "sha2_256":
		h, h2, algTerm, wantSize, wantAlg = hash.NewSHA2_256(), hash.NewSHA2_256(), "ASha2_256", 32, hash.SHA2_256
	case "sha2_384":
		h, h2, algTerm, wantSize, wantAlg = hash.NewSHA2_384(), hash.NewSHA2_384(), "ASha2_384", 48, hash.SHA2_384
	case "kmac128":
		var err error
		var k hash.Hasher
		// customizer || key in ONE buffer, each view with spare capacity reaching into its neighbour
		// (an append on an argument inside the library would overwrite the other one)
		kb0, cb0 := unhx(in.Key), unhx(in.Cust)
		adj := make([]byte, len(cb0)+len(kb0)+8)
		copy(adj, cb0)
		copy(adj[len(cb0):], kb0)
		for i := len(cb0) + len(kb0); i < len(adj); i++ {
			adj[i] = 0xA5
		}
		custB, keyB := adj[:len(cb0)], adj[len(cb0):len(cb0)+len(kb0)]
		p, msg := catch(func() { k, err = hash.NewKMAC_128(keyB, custB, in.OutSize) })
		for i := len(cb0) + len(kb0); i < len(adj); i++ {
			if adj[i] != 0xA5 {
				return Result{}, implViolation("NewKMAC_128 wrote past the end of the caller's key")
			}
		}
		if p {
			return Result{}, implViolation("NewKMAC_128 panicked: %s", msg)
		}
		if hx(keyB) != in.Key || hx(custB) != in.Cust {
			return Result{}, implViolation("NewKMAC_128 modified the caller's key or customizer buffer")
		}
		ok := err == nil
		algTerm = fmt.Sprintf("(AKmac %s %s (%d)%%Z %s)", cqs(in.Key), cqs(in.Cust), in.OutSize, cqbool(ok))
		if !ok {
			if k != nil {
				return Result{}, implViolation("NewKMAC_128 returned an error (%v) together with a non-nil hasher", err)
			}
			return Result{Coq: fmt.Sprintf("CObj %s []", algTerm), Key: key, Nontrivial: true,
				Obs: map[string]any{"ctor_ok": false, "err": err.Error()}}, nil
		}
		if in.Shadow {
			h2, _ = hash.NewKMAC_128(keyB, custB, in.OutSize) // same argument slices as the first object
		}
		// the caller owns its key and customizer buffers: reusing them afterwards must not change the hasher
		c13Scribble(keyB)
		c13Scribble(custB)
		h, wantSize, wantAlg = k, in.OutSize, hash.KMAC128
	default:
		return Result{}, fmt.Errorf("unknown alg %q", in.Alg)
	}
	if h.Size() != wantSize || h.Algorithm() != wantAlg {
		return Result{}, implViolation("%s object reports Size() = %d, Algorithm() = %v; expected %d, %v", in.Alg, h.Size(), h.Algorithm(), wantSize, wantAlg)
	}
	// noise on the shadow object and the one-shot helpers, different at every step
	shadow := func(i int) {
		if !in.Shadow || h2 == nil {
			return
		}
		noise := make([]byte, 1+(i*53)%311)
		for j := range noise {
			noise[j] = byte(i*7 + j*13 + 1)
		}
		_, _ = h2.Write(noise)
		switch i % 4 {
		case 0:
			_ = h2.SumHash()
		case 1:
			_ = h2.ComputeHash(noise)
		case 2:
			h2.Reset()
		}
		var o32 [32]byte
		hash.ComputeSHA3_256(&o32, noise)
		hash.ComputeSHA2_256(&o32, noise)
	}

	var coqOps []string
	digests := 0
	// digests handed out are values: later operations on the hasher must not change them, and the
	// message buffer passed in must be left unmodified
	type keptDigest struct {
		raw []byte
		hex string
	}
	var keptOut []keptDigest
	argModified := false
	writeRet := ""
	for i, op := range in.Ops {
		var term, out string
		if op.Nil && op.Data != "" {
			return Result{}, fmt.Errorf("nil op with data")
		}
		shadow(i)
		p, msg := catch(func() {
			switch op.Op {
			case "write":
				arg := c13Arg(op, i)
				n, err := h.Write(arg)
				if (n != len(arg) || err != nil) && writeRet == "" {
					writeRet = fmt.Sprintf("Write of %d bytes returned (%d, %v)", len(arg), n, err)
				}
				if hx(arg) != op.Data {
					argModified = true
				}
				c13Scribble(arg) // the caller reuses its buffer after Write has returned
				term = "OWrite " + cqs(op.Data)
			case "sum":
				raw := h.SumHash()
				out = hx(raw)
				keptOut = append(keptOut, keptDigest{raw, out})
				term = "OSum " + cqs(out)
			case "reset":
				h.Reset()
				term = "OReset"
			case "compute":
				arg := c13Arg(op, i+3)
				raw := h.ComputeHash(arg)
				out = hx(raw)
				keptOut = append(keptOut, keptDigest{raw, out})
				if hx(arg) != op.Data {
					argModified = true
				}
				c13Scribble(arg)
				term = fmt.Sprintf("OCompute %s %s", cqs(op.Data), cqs(out))
			}
		})
		if p {
			switch op.Op {
			case "write":
				term = "OPanic (OWrite " + cqs(op.Data) + ")"
			case "sum":
				term = "OPanic (OSum \"\")"
			case "reset":
				term = "OPanic OReset"
			case "compute":
				term = "OPanic (OCompute " + cqs(op.Data) + " \"\")"
			}
			obs = append(obs, obsOp{op.Op, "", msg})
			coqOps = append(coqOps, term)
			break
		}
		if term == "" {
			return Result{}, fmt.Errorf("unknown op %q", op.Op)
		}
		if out != "" || op.Op == "sum" || op.Op == "compute" {
			digests++
		}
		obs = append(obs, obsOp{op.Op, out, ""})
		coqOps = append(coqOps, term)
	}
	if argModified {
		return Result{}, implViolation("Write / ComputeHash modified the caller's message buffer")
	}
	if writeRet != "" {
		return Result{}, implViolation("%s; the io.Writer contract of Hasher is (len(p), nil)", writeRet)
	}
	if h.Size() != wantSize {
		return Result{}, implViolation("Size() changed to %d after the operations (expected %d)", h.Size(), wantSize)
	}
	for k, kd := range keptOut {
		if hx(kd.raw) != kd.hex {
			return Result{}, implViolation("digest #%d returned earlier (%s) reads %s after later operations on the same hasher", k, kd.hex, hx(kd.raw))
		}
	}
	return Result{Coq: fmt.Sprintf("CObj %s %s", algTerm, cqlist(coqOps)), Key: key, Nontrivial: digests > 0,
		Obs: map[string]any{"ctor_ok": true, "ops": obs}}, nil
}

// misalign returns a copy of b that starts at an address with (addr mod 8) = k mod 8: the contents are
// the same, only the alignment of the caller's buffer differs (the unaligned xorIn reinterprets the
// buffer as 64-bit words)
func misalign(b []byte, k int) []byte {
	buf := make([]byte, len(b)+8)
	off := k % 8
	copy(buf[off:], b)
	return buf[off : off+len(b)]
}
