package main

import (
	"bytes"
	"encoding/json"
	"fmt"
	"math/big"
	"math/rand/v2"
	"strings"

	"github.com/onflow/crypto"
	"github.com/onflow/crypto/hash"
)

type c02Triple struct {
	Scalar string `json:"scalar"` // "00..00" = the identity public key
	Tag    string `json:"tag"`
	Msg    string `json:"msg"`
	Reuse  int    `json:"reuse"` // >= 0: reuse the key OBJECT of that earlier index (same object); -1: decode a fresh object
	// Out: when set, the hasher at this index is a fixed-output hasher returning these 128 bytes (chosen
	// hasher outputs: equal outputs for different messages, outputs whose curve images cancel)
	Out string `json:"out,omitempty"`
	// Src: route by which the public key OBJECT is obtained.  Non-zero scalar: "" = PublicKey() of the decoded
	// private key, decoded | agg-split | removed | agg-single.  Zero scalar (identity key): "" = the package
	// constant, decoded | aggregated | removed
	Src string `json:"src,omitempty"`
}
type c02In struct {
	Shape   string      `json:"shape"`
	Triples []c02Triple `json:"triples"`
	One     bool        `json:"one_message"` // VerifyBLSSignatureOneMessage (all triples share tag/msg of the first)
	Salt    uint64      `json:"salt"`
	// ShareHashers: triples with the same tag use ONE hasher object (the usual calling pattern)
	ShareHashers bool `json:"share_hashers,omitempty"`
}

func init() {
	register(&Prop{
		ID:        "C02",
		Header:    "From Coq Require Import ZArith NArith List String.\nFrom V Require Import Lib.Hex Corr.C02Corr.\nImport ListNotations.\nOpen Scope string_scope.\n",
		Check:     "bad_ids",
		PropCheck: "prop_bad_ids",
		Gen:       c02Gen,
		Run:       c02Run,
		Rule:      "lists of (key, message, hasher) triples in shapes that force each internal grouping (all distinct, all equal, few messages/many keys, few keys/many messages, exact ties), duplicated pairs, the same key as one object / as two decoded objects, pk and -pk on one message, identity key at each position and from every constructor (constant, decoded, aggregated, removed; first, last, middle; only identity keys) through both APIs, non-identity key objects through every route (decoded, aggregate of two halves / of one key, removed from an aggregate) and the same point held by objects from different routes, per-index tags, one hasher object shared by all triples of a tag, fixed-output hashers with chosen outputs (hashes under one key that cancel H / -H, alone, next to another key and across groups; equal outputs for different messages; equal halves), doubling inside a key group and inside a hash group, cancelling keys under the per-key grouping, groups of unequal sizes in both groupings, more than 256 triples (one message incl. the one-message API, three keys, ONE key with more than 256 messages, all distinct), n=1; candidate signatures: honest aggregate, one altered share, aggregate+torsion (random and order 3), negated, bit flip, wrong length, nil, infinity with a stray byte, compression flag cleared, the honest aggregate again after the rejected ones; the runner also checks every candidate on permuted triples, n=1 against Verify, the one-message API against Verify under AggregateBLSPublicKeys and on permuted keys, typed errors each with a valid and with a non-parsing signature (nil hasher and hashers of size 0/64/127/129/256 at first/last/middle index, non-BLS and nil keys at each of these, all nine ways the list lengths can differ, nil and empty key lists) for both APIs, and that keys, messages and signature are unmodified; distinct by input",
		Shard:     2,
	})
}

func c02Gen(tier string, r *rand.Rand) []Case {
	var cs []Case
	rs := func() string {
		k := new(big.Int).Mod(new(big.Int).SetBytes(rbytes(r, 40)), new(big.Int).Sub(blsR, big.NewInt(1)))
		return hx(fixed(k.Add(k, big.NewInt(1)), 32))
	}
	neg := func(s string) string {
		return hx(fixed(new(big.Int).Sub(blsR, new(big.Int).SetBytes(unhx(s))), 32))
	}
	zero := hx(make([]byte, 32))
	maxN := 6
	reps := 1
	if tier == "thorough" {
		maxN, reps = 24, 6
	}
	tr := func(sc, tag, msg string, reuse int) c02Triple {
		return c02Triple{Scalar: sc, Tag: tag, Msg: msg, Reuse: reuse}
	}
	add := func(shape string, ts []c02Triple, one bool) {
		cs = append(cs, mkcase(shape, c02In{Shape: shape, Triples: ts, One: one, Salt: r.Uint64()}))
	}
	addShared := func(shape string, ts []c02Triple, one bool) {
		cs = append(cs, mkcase(shape, c02In{Shape: shape, Triples: ts, One: one, Salt: r.Uint64(), ShareHashers: true}))
	}
	// fixed hasher outputs: a random one and its "negative" (both halves negated mod p: the curve image is
	// the negated point), used to make the hashes under one key cancel
	rndOut := func() (string, string) {
		u0 := new(big.Int).Mod(new(big.Int).SetBytes(rbytes(r, 64)), blsP)
		u1 := new(big.Int).Mod(new(big.Int).SetBytes(rbytes(r, 64)), blsP)
		pos := append(fixed(u0, 64), fixed(u1, 64)...)
		ng := append(fixed(new(big.Int).Sub(blsP, u0), 64), fixed(new(big.Int).Sub(blsP, u1), 64)...)
		return hx(pos), hx(ng)
	}
	// more than 256 triples (index arithmetic of the C layer): few messages / many keys, many messages /
	// few keys, all distinct
	for _, sh := range []string{"large-one-message", "large-few-keys", "large-one-key", "large-all-distinct"} {
		n := 257 + r.IntN(20)
		if tier != "thorough" && sh == "large-all-distinct" {
			continue
		}
		keys := []string{rs(), rs(), rs()}
		var ts []c02Triple
		for i := 0; i < n; i++ {
			switch sh {
			case "large-one-message":
				ts = append(ts, c02Triple{Scalar: rs(), Tag: "t", Msg: hx([]byte("large")), Reuse: -1})
			case "large-few-keys":
				ts = append(ts, c02Triple{Scalar: keys[i%3], Tag: "t", Msg: hx([]byte(fmt.Sprintf("large-%d", i))), Reuse: -1})
			case "large-one-key":
				// more than 256 hashes under ONE key (per-key grouping, one group count above a byte) and a
				// second key with a single message
				k := keys[0]
				if i == n/2 {
					k = keys[1]
				}
				ts = append(ts, c02Triple{Scalar: k, Tag: "t", Msg: hx([]byte(fmt.Sprintf("large-%d", i))), Reuse: -1})
			default:
				ts = append(ts, c02Triple{Scalar: rs(), Tag: "t", Msg: hx([]byte(fmt.Sprintf("large-%d", i))), Reuse: -1})
			}
		}
		add(sh, ts, false)
	}
	for rep := 0; rep < reps; rep++ {
		n := 2 + r.IntN(maxN-1)
		msg := func(i int) string { return hx([]byte(fmt.Sprintf("m%d-%d", rep, i))) }
		// all distinct keys and messages (tie: #hashes = #keys -> per-key path)
		var ts []c02Triple
		for i := 0; i < n; i++ {
			ts = append(ts, c02Triple{Scalar: rs(), Tag: "t", Msg: msg(i), Reuse: -1})
		}
		add("all-distinct", ts, false)
		// one message, many keys (per-message path)
		ts = nil
		for i := 0; i < n; i++ {
			ts = append(ts, c02Triple{Scalar: rs(), Tag: "t", Msg: msg(0), Reuse: -1})
		}
		add("one-message-many-keys", ts, false)
		add("one-message-api", ts, true)
		// one key, many messages (per-key path), same object reused
		k := rs()
		ts = []c02Triple{tr(k, "t", msg(0), -1)}
		for i := 1; i < n; i++ {
			ts = append(ts, c02Triple{Scalar: k, Tag: "t", Msg: msg(i), Reuse: 0})
		}
		add("one-key-many-messages", ts, false)
		// the same key decoded twice: distinct objects for the key map
		ts = []c02Triple{tr(k, "t", msg(0), -1), tr(k, "t", msg(1), -1), tr(k, "t", msg(0), -1)}
		add("same-key-two-objects", ts, false)
		// duplicated (key, message) pairs
		k2 := rs()
		ts = []c02Triple{tr(k, "t", msg(0), -1), tr(k2, "t", msg(1), -1), tr(k, "t", msg(0), 0), tr(k2, "t", msg(1), 1)}
		add("duplicate-pairs", ts, false)
		// pk and -pk on one message: the pair cancels
		ts = []c02Triple{tr(k, "t", msg(0), -1), tr(neg(k), "t", msg(0), -1), tr(k2, "t", msg(1), -1)}
		add("cancelling-keys", ts, false)
		ts = []c02Triple{tr(k, "t", msg(0), -1), tr(neg(k), "t", msg(0), -1)}
		add("cancelling-keys-only", ts, false)
		add("cancelling-keys-one-message-api", ts, true)
		// per-index tags
		ts = nil
		for i := 0; i < n; i++ {
			ts = append(ts, tr(rs(), fmt.Sprintf("tag%d", i%2), msg(i%2), -1))
		}
		add("per-index-tags", ts, false)
		// ONE message under different per-index hashers (tags): H_i(m) differs although the message bytes agree
		ts = nil
		for i := 0; i < n; i++ {
			ts = append(ts, tr(rs(), fmt.Sprintf("tag%d", i%2), msg(0), -1))
		}
		add("same-message-different-tags", ts, false)
		ts = []c02Triple{tr(k, "tagA", msg(0), -1), tr(k2, "tagB", msg(0), -1)}
		add("same-message-different-tags", ts, false)
		ts = []c02Triple{tr(k, "tagA", msg(0), -1), tr(k2, "tagB", msg(1), -1), tr(k, "tagC", msg(0), 0)}
		add("same-message-different-tags", ts, false)
		// few messages / many keys with a tie broken each way
		ts = nil
		for i := 0; i < n; i++ {
			ts = append(ts, c02Triple{Scalar: rs(), Tag: "t", Msg: msg(i % 2), Reuse: -1})
		}
		add("two-messages", ts, false)
		// identity key at each position
		pos := r.IntN(n)
		ts = nil
		for i := 0; i < n; i++ {
			s := rs()
			if i == pos {
				s = zero
			}
			ts = append(ts, c02Triple{Scalar: s, Tag: "t", Msg: msg(i), Reuse: -1})
		}
		add("identity-key", ts, false)
		// the identity key from EVERY constructor (each fills the cached identity flag on its own), first, last
		// and in the middle, through both APIs
		for j, src := range []string{"", "decoded", "aggregated", "removed"} {
			at := []int{0, n - 1, n / 2, 0}[j]
			ts = nil
			for i := 0; i < n; i++ {
				t := tr(rs(), "t", msg(i), -1)
				if i == at {
					t.Scalar, t.Src = zero, src
				}
				ts = append(ts, t)
			}
			add("identity-key-"+map[string]string{"": "constant"}[src]+src, ts, false)
			if j%2 == 1 {
				add("identity-key-"+src+"-one-message-api", ts, true)
			}
		}
		ts = []c02Triple{{Scalar: zero, Tag: "t", Msg: msg(0), Reuse: -1, Src: "decoded"}, {Scalar: zero, Tag: "t", Msg: msg(1), Reuse: -1, Src: "removed"}}
		add("identity-keys-only", ts, false)
		add("identity-keys-only-one-message-api", ts, true)
		// non-identity key objects through every route (decoded bytes, aggregate of two halves, removal from
		// an aggregate, aggregate of one key); the SAME point held by objects from different routes
		ts = nil
		for i, src := range []string{"decoded", "agg-split", "removed", "agg-single", ""} {
			ts = append(ts, c02Triple{Scalar: rs(), Tag: "t", Msg: msg(i % 3), Reuse: -1, Src: src})
		}
		add("key-routes", ts, false)
		add("key-routes-one-message-api", ts, true)
		ts = nil
		for i, src := range []string{"", "decoded", "agg-split", "removed"} {
			ts = append(ts, c02Triple{Scalar: k, Tag: "t", Msg: msg(i % 2), Reuse: -1, Src: src})
		}
		ts = append(ts, tr(k2, "t", msg(2), -1))
		add("same-point-different-routes", ts, false)
		// one hasher OBJECT for all triples / per tag (the usual calling pattern)
		ts = nil
		for i := 0; i < n+1; i++ {
			ts = append(ts, tr(rs(), fmt.Sprintf("tag%d", i%2), msg(i%3), -1))
		}
		addShared("shared-hasher-objects", ts, false)
		// doubling inside a group: the same key twice on one message with more keys than messages (one pairing
		// per message, the key sum doubles), and under one key the same message twice (hash sum doubles)
		ts = []c02Triple{tr(k, "t", msg(0), -1), tr(k, "t", msg(0), -1), tr(k2, "t", msg(0), -1)}
		add("doubling-per-message", ts, false)
		ts = []c02Triple{tr(k, "t", msg(0), -1), tr(k, "t", msg(0), 0), tr(k, "t", msg(1), 0), tr(k2, "t", msg(2), -1), tr(k2, "t", msg(3), -1)}
		add("doubling-per-key", ts, false)
		// cancelling keys while the grouping is per key (tie: 3 keys, 3 messages)
		ts = []c02Triple{tr(k, "t", msg(0), -1), tr(neg(k), "t", msg(0), -1), tr(k2, "t", msg(1), -1), tr(k2, "t", msg(2), 2)}
		add("cancelling-keys-per-key", ts, false)
		// chosen hasher outputs: the hashes under ONE key cancel (H and -H), alone and next to another key;
		// equal hasher outputs for different messages (one hash group); equal halves (doubling in map_to_G1)
		po, ng := rndOut()
		po2, _ := rndOut()
		fx := func(sc, out, m string, reuse int) c02Triple {
			return c02Triple{Scalar: sc, Tag: "t", Msg: m, Reuse: reuse, Out: out}
		}
		ts = []c02Triple{fx(k, po, msg(0), -1), fx(k, ng, msg(1), 0), fx(k2, po2, msg(2), -1), tr(k2, "t", msg(3), 2)}
		add("cancelling-hashes-per-key", ts, false)
		ts = []c02Triple{fx(k, po, msg(0), -1), fx(k, ng, msg(1), 0)}
		add("cancelling-hashes-only", ts, false)
		ts = []c02Triple{fx(k, po, msg(0), -1), fx(k2, ng, msg(1), -1), fx(rs(), po, msg(2), -1), fx(rs(), ng, msg(3), -1), fx(rs(), po2, msg(4), -1)}
		add("cancelling-hashes-per-message", ts, false)
		ts = []c02Triple{fx(k, po, msg(0), -1), fx(k2, po, msg(1), -1), fx(rs(), po, msg(2), -1), fx(rs(), po2, msg(0), -1)}
		add("equal-hashes-different-messages", ts, false)
		eq := po[:128] + po[:128]
		ts = []c02Triple{fx(k, eq, msg(0), -1), fx(k2, eq, msg(0), -1), tr(rs(), "t", msg(0), -1)}
		add("equal-halves-hasher-output", ts, false)
		// groups of unequal sizes in both groupings (the largest group is not the first one)
		ts = nil
		for i, g := range []int{0, 1, 1, 1, 2, 2} {
			_ = i
			ts = append(ts, tr(rs(), "t", msg(g), -1))
		}
		add("uneven-groups-per-message", ts, false)
		ks3 := []string{rs(), rs(), rs()}
		ts = nil
		first := map[int]int{}
		for i, g := range []int{0, 1, 1, 1, 2, 2, 1} {
			ru := -1
			if f, ok := first[g]; ok {
				ru = f
			} else {
				first[g] = i
			}
			ts = append(ts, tr(ks3[g], "t", msg(i), ru))
		}
		add("uneven-groups-per-key", ts, false)
		// n = 1
		add("single", []c02Triple{tr(rs(), "t", msg(0), -1)}, false)
		add("single-one-message-api", []c02Triple{tr(rs(), "t", msg(0), -1)}, true)
	}
	return cs
}

// c02IdentityKey returns an identity public key OBJECT built through the named route.
func c02IdentityKey(src string, rr *rand.Rand) (crypto.PublicKey, error) {
	switch src {
	case "decoded":
		return crypto.DecodePublicKey(crypto.BLSBLS12381, crypto.IdentityBLSPublicKey().Encode())
	case "aggregated", "removed":
		x := new(big.Int).Mod(new(big.Int).SetBytes(rbytes(rr, 40)), new(big.Int).Sub(blsR, big.NewInt(1)))
		x.Add(x, big.NewInt(1))
		a, e1 := crypto.DecodePrivateKey(crypto.BLSBLS12381, fixed(x, 32))
		b, e2 := crypto.DecodePrivateKey(crypto.BLSBLS12381, fixed(new(big.Int).Sub(blsR, x), 32))
		if e1 != nil || e2 != nil {
			return nil, fmt.Errorf("%v %v", e1, e2)
		}
		if src == "aggregated" {
			return crypto.AggregateBLSPublicKeys([]crypto.PublicKey{a.PublicKey(), b.PublicKey()})
		}
		ag, err := crypto.AggregateBLSPublicKeys([]crypto.PublicKey{a.PublicKey(), a.PublicKey()})
		if err != nil {
			return nil, err
		}
		return crypto.RemoveBLSPublicKeys(ag, []crypto.PublicKey{a.PublicKey(), a.PublicKey()})
	}
	return crypto.IdentityBLSPublicKey(), nil
}

func c02Run(c Case) (Result, error) {
	var in c02In
	if err := json.Unmarshal(c.Input, &in); err != nil {
		return Result{}, err
	}
	rr := rand.New(rand.NewPCG(in.Salt, 0x02))
	if strings.HasPrefix(in.Shape, "large-") {
		// more than 256 triples: judged by the runner (honest aggregate accepted, one altered share
		// rejected, in both groupings); the Coq evaluation then runs on the first two triples
		var pks []crypto.PublicKey
		var msgs [][]byte
		var hashers []hash.Hasher
		var sigs []crypto.Signature
		for _, t := range in.Triples {
			sk, err := crypto.DecodePrivateKey(crypto.BLSBLS12381, unhx(t.Scalar))
			if err != nil {
				return Result{}, err
			}
			hs := crypto.NewExpandMsgXOFKMAC128(t.Tag)
			sg, _ := sk.Sign(unhx(t.Msg), hs)
			pks, msgs, hashers, sigs = append(pks, sk.PublicKey()), append(msgs, unhx(t.Msg)), append(hashers, hs), append(sigs, sg)
		}
		agg, _ := crypto.AggregateBLSSignatures(sigs)
		if ok, e := crypto.VerifyBLSSignatureManyMessages(pks, agg, msgs, hashers); !ok || e != nil {
			return Result{}, implViolation("%s: honest aggregate of %d signatures rejected (%v, %v)", in.Shape, len(sigs), ok, e)
		}
		for _, pos := range []int{0, 255, 256, len(sigs) - 1} {
			bad := append([]crypto.Signature{}, sigs...)
			k7, _ := crypto.DecodePrivateKey(crypto.BLSBLS12381, fixed(big.NewInt(7), 32))
			alt, _ := k7.Sign([]byte("other"), hashers[pos])
			bad[pos] = alt
			ab, _ := crypto.AggregateBLSSignatures(bad)
			if ok, _ := crypto.VerifyBLSSignatureManyMessages(pks, ab, msgs, hashers); ok {
				return Result{}, implViolation("%s: aggregate with the share at position %d of %d replaced is accepted", in.Shape, pos, len(sigs))
			}
		}
		if in.Shape == "large-one-message" {
			if ok, e := crypto.VerifyBLSSignatureOneMessage(pks, agg, msgs[0], hashers[0]); !ok || e != nil {
				return Result{}, implViolation("%s: VerifyBLSSignatureOneMessage rejects the honest aggregate of %d signatures (%v, %v)", in.Shape, len(sigs), ok, e)
			}
			if ok, _ := crypto.VerifyBLSSignatureOneMessage(pks[1:], agg, msgs[0], hashers[0]); ok {
				return Result{}, implViolation("%s: VerifyBLSSignatureOneMessage accepts the aggregate of %d signatures under %d of the keys", in.Shape, len(sigs), len(sigs)-1)
			}
			if ok, _ := crypto.VerifyBLSSignatureOneMessage(append(pks[256:257:257], pks...), agg, msgs[0], hashers[0]); ok {
				return Result{}, implViolation("%s: VerifyBLSSignatureOneMessage accepts the aggregate with key 256 counted twice", in.Shape)
			}
		}
		sub := in
		sub.Shape, sub.Triples = "all-distinct", in.Triples[:2]
		b, _ := json.Marshal(sub)
		res, err := c02Run(Case{Kind: c.Kind, Input: b})
		res.Key = string(c.Input)
		return res, err
	}
	one, _ := crypto.DecodePrivateKey(crypto.BLSBLS12381, fixed(big.NewInt(1), 32))
	var pks []crypto.PublicKey
	var msgs [][]byte
	var hashers []hash.Hasher
	var sigs []crypto.Signature
	var coqT []string
	var coqS []string
	var hEnc0 []byte
	sharedHashers := map[string]hash.Hasher{}
	for i, t := range in.Triples {
		tag, msg := t.Tag, unhx(t.Msg)
		if in.One {
			tag, msg = in.Triples[0].Tag, unhx(in.Triples[0].Msg)
		}
		var hs hash.Hasher
		switch {
		case t.Out != "" && !in.One:
			hs = &fixedHasher{unhx(t.Out)}
		case in.ShareHashers && sharedHashers[tag] != nil:
			hs = sharedHashers[tag]
		default:
			hs = crypto.NewExpandMsgXOFKMAC128(tag)
			sharedHashers[tag] = hs
		}
		var pk crypto.PublicKey
		sc := new(big.Int).SetBytes(unhx(t.Scalar))
		hEnc, _ := one.Sign(msg, hs)
		if i == 0 {
			hEnc0 = hEnc
		}
		if sc.Sign() == 0 {
			var err error
			pk, err = c02IdentityKey(t.Src, rr)
			if err != nil {
				return Result{}, implViolation("identity key through route %q: %v", t.Src, err)
			}
		} else {
			sk, err := crypto.DecodePrivateKey(crypto.BLSBLS12381, unhx(t.Scalar))
			if err != nil {
				return Result{}, err
			}
			if t.Reuse >= 0 && t.Reuse < len(pks) {
				pk = pks[t.Reuse]
			} else if t.Src != "" {
				pk, err = c01RoutePk(t.Src, sk, sc, rr)
				if err != nil {
					return Result{}, implViolation("public key through route %q: %v", t.Src, err)
				}
			} else {
				pk = sk.PublicKey()
			}
			s, _ := sk.Sign(msg, hs)
			sigs = append(sigs, s)
		}
		pks, msgs, hashers = append(pks, pk), append(msgs, msg), append(hashers, hs)
		coqT = append(coqT, fmt.Sprintf("(%s, %s)", cqs(t.Scalar), cqs(hx(hEnc))))
		coqS = append(coqS, cqs(t.Scalar))
	}
	verify := func(b []byte, p []crypto.PublicKey, m [][]byte, h []hash.Hasher) string {
		if in.One {
			ok, e := crypto.VerifyBLSSignatureOneMessage(p, b, m[0], h[0])
			return verdictClass(ok, e)
		}
		ok, e := crypto.VerifyBLSSignatureManyMessages(p, b, m, h)
		return verdictClass(ok, e)
	}
	type cand struct {
		Fam, Bytes, V string
	}
	var cands []cand
	add := func(fam string, b []byte) { cands = append(cands, cand{fam, hx(b), verify(b, pks, msgs, hashers)}) }
	inf := make([]byte, 48)
	inf[0] = 0xC0
	agg := inf
	if len(sigs) > 0 {
		agg, _ = crypto.AggregateBLSSignatures(sigs)
	}
	// snapshots for "arguments are read only"
	var pkEnc0 [][]byte
	var msgs0 [][]byte
	for i := range pks {
		pkEnc0 = append(pkEnc0, pks[i].Encode())
		msgs0 = append(msgs0, append([]byte{}, msgs[i]...))
	}
	agg0 := append([]byte{}, agg...)
	add("honest-aggregate", agg)
	if P, ok := e1DecompressSafe(agg); ok {
		add("negated", e1Compress(e1Neg(P)))
		add("plus-torsion", e1Compress(e1Add(P, e1Torsion(rr))))
		add("plus-torsion-order-3", e1Compress(e1Add(P, e1SmallOrder(rr, 3))))
	}
	if len(sigs) > 0 {
		// one share altered: replace by a signature on another message
		k3, _ := crypto.GeneratePrivateKey(crypto.BLSBLS12381, rbytes(rr, 32))
		alt, _ := k3.Sign([]byte("other"), hashers[0])
		bad := append([]crypto.Signature{}, sigs...)
		bad[rr.IntN(len(bad))] = alt
		ab, _ := crypto.AggregateBLSSignatures(bad)
		add("one-altered-share", ab)
	}
	fl := append([]byte{}, agg...)
	bit := rr.IntN(384)
	fl[bit/8] ^= 1 << (7 - bit%8)
	add("bitflip", fl)
	add("identity-signature", inf)
	add("short", agg[:47])
	add("long", append(append([]byte{}, agg...), 0))
	stray := append([]byte{}, inf...)
	stray[1+rr.IntN(47)] = byte(1 + rr.IntN(255))
	add("infinity-stray-byte", stray)
	nc := append([]byte{}, agg...)
	nc[0] &= 0x7F
	add("compression-flag-cleared", nc)
	add("nil-signature", nil)
	add("honest-aggregate-again", agg) // after the rejected candidates: verification keeps no state
	// implementation-level invariances and typed errors
	consistent := true
	var why []string
	fail := func(s string) { consistent = false; why = append(why, s) }
	ek, _ := crypto.GeneratePrivateKey(crypto.ECDSAP256, rbytes(rr, 32))
	malformed := append([]byte{}, agg...)
	malformed[0] &= 0x7F
	n := len(pks)
	positions := []int{0}
	if n > 1 {
		positions = append(positions, n-1)
	}
	if n > 2 {
		positions = append(positions, n/2)
	}
	if in.One {
		// VerifyBLSSignatureOneMessage = Verify under the aggregated key, for every candidate; independent of
		// the order of the keys; documented typed errors, each with otherwise valid arguments, at every
		// position, and together with a signature that does not parse (judged here: OneCase carries no flag)
		aggPk, err := crypto.AggregateBLSPublicKeys(pks)
		if err != nil {
			return Result{}, implViolation("AggregateBLSPublicKeys failed on valid keys: %v", err)
		}
		perm := rr.Perm(n)
		var pp []crypto.PublicKey
		for _, i := range perm {
			pp = append(pp, pks[i])
		}
		for _, cd := range cands {
			var b []byte
			if cd.Fam != "nil-signature" {
				b = unhx(cd.Bytes)
			}
			ok, e := aggPk.Verify(b, msgs[0], hashers[0])
			if v := verdictClass(ok, e); v != cd.V {
				return Result{}, implViolation("VerifyBLSSignatureOneMessage gives %s, Verify under AggregateBLSPublicKeys gives %s (candidate %s %s)", cd.V, v, cd.Fam, cd.Bytes)
			}
			if v := verify(b, pp, msgs, hashers); v != cd.V {
				return Result{}, implViolation("VerifyBLSSignatureOneMessage gives %s, %s with the keys permuted %v (candidate %s %s)", cd.V, v, perm, cd.Fam, cd.Bytes)
			}
		}
		for _, sg := range [][]byte{agg, malformed, agg[:47], nil} {
			if _, e := crypto.VerifyBLSSignatureOneMessage(pks, sg, msgs[0], nil); !crypto.IsNilHasherError(e) {
				return Result{}, implViolation("VerifyBLSSignatureOneMessage, nil hasher, %d-byte signature %x: error %v", len(sg), sg, e)
			}
			for _, sz := range []int{0, 64, 127, 129, 256} {
				if ok, e := crypto.VerifyBLSSignatureOneMessage(pks, sg, msgs[0], &fixedHasher{make([]byte, sz)}); !crypto.IsInvalidHasherSizeError(e) || ok {
					return Result{}, implViolation("VerifyBLSSignatureOneMessage, hasher of size %d, %d-byte signature %x: (%v, %v)", sz, len(sg), sg, ok, e)
				}
			}
			for _, l := range [][]crypto.PublicKey{nil, {}} {
				if ok, e := crypto.VerifyBLSSignatureOneMessage(l, sg, msgs[0], hashers[0]); !crypto.IsBLSAggregateEmptyListError(e) || ok {
					return Result{}, implViolation("VerifyBLSSignatureOneMessage, empty key list, %d-byte signature: (%v, %v)", len(sg), ok, e)
				}
			}
			for _, pos := range positions {
				for _, foreign := range []crypto.PublicKey{ek.PublicKey(), nil} {
					bp := append([]crypto.PublicKey{}, pks...)
					bp[pos] = foreign
					var ok bool
					var e error
					if pn, m := catch(func() { ok, e = crypto.VerifyBLSSignatureOneMessage(bp, sg, msgs[0], hashers[0]) }); pn {
						return Result{}, implViolation("VerifyBLSSignatureOneMessage panics with a non-BLS key (%v) at index %d of %d: %s", foreign, pos, n, m)
					}
					if !crypto.IsNotBLSKeyError(e) || ok {
						return Result{}, implViolation("VerifyBLSSignatureOneMessage, non-BLS key (%v) at index %d of %d, %d-byte signature: (%v, %v)", foreign, pos, n, len(sg), ok, e)
					}
				}
			}
		}
	}
	if !in.One {
		if n == 1 {
			// one triple: the documented behaviour is that of pk.Verify
			for _, cd := range cands {
				var b []byte
				if cd.Fam != "nil-signature" {
					b = unhx(cd.Bytes)
				}
				ok, e := pks[0].Verify(b, msgs[0], hashers[0])
				if v := verdictClass(ok, e); v != cd.V {
					fail(fmt.Sprintf("one triple: VerifyBLSSignatureManyMessages gives %s, Verify gives %s on candidate %s", cd.V, v, cd.Fam))
				}
			}
		}
		// typed errors at every position, each with a valid and with a non-parsing 48-byte signature
		for _, sg := range [][]byte{agg, malformed} {
			for _, pos := range positions {
				bh := append([]hash.Hasher{}, hashers...)
				bh[pos] = nil
				if ok, e := crypto.VerifyBLSSignatureManyMessages(pks, sg, msgs, bh); !crypto.IsNilHasherError(e) || ok {
					fail(fmt.Sprintf("nil hasher at index %d of %d not reported (%v, %v)", pos, n, ok, e))
				}
				for _, sz := range []int{0, 127, 129, 256} {
					bh[pos] = &fixedHasher{make([]byte, sz)}
					if ok, e := crypto.VerifyBLSSignatureManyMessages(pks, sg, msgs, bh); !crypto.IsInvalidHasherSizeError(e) || ok {
						fail(fmt.Sprintf("hasher of size %d at index %d of %d not reported (%v, %v)", sz, pos, n, ok, e))
					}
				}
				allNonId := true
				for _, t := range in.Triples[:pos] {
					if new(big.Int).SetBytes(unhx(t.Scalar)).Sign() == 0 {
						allNonId = false // an identity key earlier in the list decides first
					}
				}
				for _, foreign := range []crypto.PublicKey{ek.PublicKey(), nil} {
					bp := append([]crypto.PublicKey{}, pks...)
					bp[pos] = foreign
					var ok bool
					var e error
					if pn, m := catch(func() { ok, e = crypto.VerifyBLSSignatureManyMessages(bp, sg, msgs, hashers) }); pn {
						fail(fmt.Sprintf("panic with a non-BLS key (%v) at index %d of %d: %s", foreign, pos, n, m))
					} else if allNonId && (!crypto.IsNotBLSKeyError(e) || ok) {
						fail(fmt.Sprintf("non-BLS key (%v) at index %d of %d not reported (%v, %v)", foreign, pos, n, ok, e))
					}
				}
			}
			// every way the three lists can differ in length
			longer := func() ([]crypto.PublicKey, [][]byte, []hash.Hasher) {
				return append(append([]crypto.PublicKey{}, pks...), pks[0]), append(append([][]byte{}, msgs...), msgs[0]), append(append([]hash.Hasher{}, hashers...), hashers[0])
			}
			lp, lm, lh := longer()
			type trio struct {
				p []crypto.PublicKey
				m [][]byte
				h []hash.Hasher
			}
			for i, tr := range []trio{{lp, msgs, hashers}, {pks, lm, hashers}, {pks, msgs, lh}, {lp, lm, hashers}, {lp, msgs, lh}, {pks, lm, lh},
				{pks, nil, nil}, {pks, msgs, nil}, {pks, nil, hashers}} {
				if ok, e := crypto.VerifyBLSSignatureManyMessages(tr.p, sg, tr.m, tr.h); !crypto.IsInvalidInputsError(e) || ok {
					fail(fmt.Sprintf("list lengths %d/%d/%d (variant %d) not reported as invalid input (%v, %v)", len(tr.p), len(tr.m), len(tr.h), i, ok, e))
				}
			}
			for _, l := range [][]crypto.PublicKey{nil, {}} {
				if ok, e := crypto.VerifyBLSSignatureManyMessages(l, sg, msgs, hashers); !crypto.IsBLSAggregateEmptyListError(e) || ok {
					fail(fmt.Sprintf("empty key list with %d messages not reported (%v, %v)", n, ok, e))
				}
			}
		}
		perm := rr.Perm(len(pks))
		var pp []crypto.PublicKey
		var pm [][]byte
		var ph []hash.Hasher
		for _, i := range perm {
			pp, pm, ph = append(pp, pks[i]), append(pm, msgs[i]), append(ph, hashers[i])
		}
		for _, cd := range cands {
			if cd.Fam != "nil-signature" && verify(unhx(cd.Bytes), pp, pm, ph) != cd.V {
				fail(fmt.Sprintf("verdict on candidate %s depends on the order of the triples (permutation %v)", cd.Fam, perm))
			}
		}
		if _, e := crypto.VerifyBLSSignatureManyMessages(pks, agg, msgs[:len(msgs)-1], hashers); !crypto.IsInvalidInputsError(e) && len(pks) > 1 {
			fail("length mismatch (messages) not reported as invalid input")
		}
		if _, e := crypto.VerifyBLSSignatureManyMessages(pks, agg, msgs, hashers[:len(hashers)-1]); !crypto.IsInvalidInputsError(e) && len(pks) > 1 {
			fail("length mismatch (hashers) not reported as invalid input")
		}
		if _, e := crypto.VerifyBLSSignatureManyMessages(nil, agg, nil, nil); !crypto.IsBLSAggregateEmptyListError(e) {
			fail("empty list not reported")
		}
		if ok, e := crypto.VerifyBLSSignatureManyMessages(nil, agg[:47], nil, nil); ok || e != nil {
			fail("wrong-length signature with empty lists must be (false, nil)")
		}
		bh := append([]hash.Hasher{}, hashers...)
		bh[len(bh)-1] = nil
		if _, e := crypto.VerifyBLSSignatureManyMessages(pks, agg, msgs, bh); !crypto.IsNilHasherError(e) {
			fail("nil hasher not reported")
		}
		bh[len(bh)-1] = &fixedHasher{make([]byte, 64)}
		if _, e := crypto.VerifyBLSSignatureManyMessages(pks, agg, msgs, bh); !crypto.IsInvalidHasherSizeError(e) {
			fail("wrong-size hasher not reported")
		}
		bp := append([]crypto.PublicKey{}, pks...)
		bp[0] = ek.PublicKey()
		if _, e := crypto.VerifyBLSSignatureManyMessages(bp, agg, msgs, hashers); !crypto.IsNotBLSKeyError(e) {
			fail("non-BLS key not reported")
		}
	}
	// arguments are read only
	for i := range pks {
		if !bytes.Equal(pks[i].Encode(), pkEnc0[i]) || !bytes.Equal(msgs[i], msgs0[i]) {
			return Result{}, implViolation("verification modified its arguments: key %d now %x (was %x), message %d now %x (was %x)", i, pks[i].Encode(), pkEnc0[i], i, msgs[i], msgs0[i])
		}
	}
	if !bytes.Equal(agg, agg0) {
		return Result{}, implViolation("verification modified the signature argument: %x, was %x", agg, agg0)
	}
	var items []string
	for _, cd := range cands {
		items = append(items, fmt.Sprintf("(%s, %s)", cqs(cd.Bytes), cqs(cd.V)))
	}
	var term string
	if in.One {
		term = fmt.Sprintf("OneCase %s %s %s", cqlist(coqS), cqs(hx(hEnc0)), cqlist(items))
	} else {
		term = fmt.Sprintf("ManyCase %s %s %s", cqlist(coqT), cqlist(items), cqbool(consistent))
	}
	return Result{Coq: term, Key: string(c.Input), Nontrivial: len(in.Triples) >= 1,
		Obs: map[string]any{"candidates": cands, "inconsistencies": why}}, nil
}
