package main

import (
	"strings"
	"encoding/json"
	"fmt"
	"math/big"
	"math/rand/v2"

	"github.com/onflow/crypto"
	"github.com/onflow/crypto/hash"
)

type c02Triple struct {
	Scalar string `json:"scalar"` // "00..00" = the identity public key
	Tag    string `json:"tag"`
	Msg    string `json:"msg"`
	Reuse  int    `json:"reuse"` // >= 0: reuse the key OBJECT of that earlier index (same object); -1: decode a fresh object
}
type c02In struct {
	Shape   string      `json:"shape"`
	Triples []c02Triple `json:"triples"`
	One     bool        `json:"one_message"` // VerifyBLSSignatureOneMessage (all triples share tag/msg of the first)
	Salt    uint64      `json:"salt"`
}

func init() {
	register(&Prop{
		ID:        "C02",
		Header:    "From Coq Require Import ZArith NArith List String.\nFrom V Require Import Lib.Hex Corr.C02Corr.\nImport ListNotations.\nOpen Scope string_scope.\n",
		Check:     "bad_ids",
		PropCheck: "prop_bad_ids",
		Gen:       c02Gen,
		Run:       c02Run,
		Rule:      "lists of (key, message, hasher) triples in shapes that force each internal grouping (all distinct, all equal, few messages/many keys, few keys/many messages, exact ties), duplicated pairs, the same key as one object / as two decoded objects, pk and -pk on one message, identity key at each position, per-index tags, n=1; candidate signatures: honest aggregate, one altered share, aggregate+torsion, negated, bit flip, wrong length; the runner also checks permuted triples, typed errors (length mismatch, empty, bad hashers, non-BLS keys) on the implementation; distinct by input",
		Shard:     2,
	})
}

func c02Gen(tier string, r *rand.Rand) []Case {
	var cs []Case
	rs := func() string {
		k := new(big.Int).Mod(new(big.Int).SetBytes(rbytes(r, 40)), new(big.Int).Sub(blsR, big.NewInt(1)))
		return hx(fixed(k.Add(k, big.NewInt(1)), 32))
	}
	neg := func(s string) string {
		return hx(fixed(new(big.Int).Sub(blsR, new(big.Int).SetBytes(unhx(s))), 32))
	}
	zero := hx(make([]byte, 32))
	maxN := 6
	reps := 1
	if tier == "thorough" {
		maxN, reps = 24, 6
	}
	add := func(shape string, ts []c02Triple, one bool) {
		cs = append(cs, mkcase(shape, c02In{shape, ts, one, r.Uint64()}))
	}
	// more than 256 triples (index arithmetic of the C layer): few messages / many keys, many messages /
	// few keys, all distinct
	for _, sh := range []string{"large-one-message", "large-few-keys", "large-all-distinct"} {
		n := 257 + r.IntN(20)
		if tier != "thorough" && sh == "large-all-distinct" {
			continue
		}
		keys := []string{rs(), rs(), rs()}
		var ts []c02Triple
		for i := 0; i < n; i++ {
			switch sh {
			case "large-one-message":
				ts = append(ts, c02Triple{rs(), "t", hx([]byte("large")), -1})
			case "large-few-keys":
				ts = append(ts, c02Triple{keys[i%3], "t", hx([]byte(fmt.Sprintf("large-%d", i))), -1})
			default:
				ts = append(ts, c02Triple{rs(), "t", hx([]byte(fmt.Sprintf("large-%d", i))), -1})
			}
		}
		add(sh, ts, false)
	}
	for rep := 0; rep < reps; rep++ {
		n := 2 + r.IntN(maxN-1)
		msg := func(i int) string { return hx([]byte(fmt.Sprintf("m%d-%d", rep, i))) }
		// all distinct keys and messages (tie: #hashes = #keys -> per-key path)
		var ts []c02Triple
		for i := 0; i < n; i++ {
			ts = append(ts, c02Triple{rs(), "t", msg(i), -1})
		}
		add("all-distinct", ts, false)
		// one message, many keys (per-message path)
		ts = nil
		for i := 0; i < n; i++ {
			ts = append(ts, c02Triple{rs(), "t", msg(0), -1})
		}
		add("one-message-many-keys", ts, false)
		add("one-message-api", ts, true)
		// one key, many messages (per-key path), same object reused
		k := rs()
		ts = []c02Triple{{k, "t", msg(0), -1}}
		for i := 1; i < n; i++ {
			ts = append(ts, c02Triple{k, "t", msg(i), 0})
		}
		add("one-key-many-messages", ts, false)
		// the same key decoded twice: distinct objects for the key map
		ts = []c02Triple{{k, "t", msg(0), -1}, {k, "t", msg(1), -1}, {k, "t", msg(0), -1}}
		add("same-key-two-objects", ts, false)
		// duplicated (key, message) pairs
		k2 := rs()
		ts = []c02Triple{{k, "t", msg(0), -1}, {k2, "t", msg(1), -1}, {k, "t", msg(0), 0}, {k2, "t", msg(1), 1}}
		add("duplicate-pairs", ts, false)
		// pk and -pk on one message: the pair cancels
		ts = []c02Triple{{k, "t", msg(0), -1}, {neg(k), "t", msg(0), -1}, {k2, "t", msg(1), -1}}
		add("cancelling-keys", ts, false)
		ts = []c02Triple{{k, "t", msg(0), -1}, {neg(k), "t", msg(0), -1}}
		add("cancelling-keys-only", ts, false)
		add("cancelling-keys-one-message-api", ts, true)
		// per-index tags
		ts = nil
		for i := 0; i < n; i++ {
			ts = append(ts, c02Triple{rs(), fmt.Sprintf("tag%d", i%2), msg(i % 2), -1})
		}
		add("per-index-tags", ts, false)
		// ONE message under different per-index hashers (tags): H_i(m) differs although the message bytes agree
		ts = nil
		for i := 0; i < n; i++ {
			ts = append(ts, c02Triple{rs(), fmt.Sprintf("tag%d", i%2), msg(0), -1})
		}
		add("same-message-different-tags", ts, false)
		ts = []c02Triple{{k, "tagA", msg(0), -1}, {k2, "tagB", msg(0), -1}}
		add("same-message-different-tags", ts, false)
		ts = []c02Triple{{k, "tagA", msg(0), -1}, {k2, "tagB", msg(1), -1}, {k, "tagC", msg(0), 0}}
		add("same-message-different-tags", ts, false)
		// few messages / many keys with a tie broken each way
		ts = nil
		for i := 0; i < n; i++ {
			ts = append(ts, c02Triple{rs(), "t", msg(i % 2), -1})
		}
		add("two-messages", ts, false)
		// identity key at each position
		pos := r.IntN(n)
		ts = nil
		for i := 0; i < n; i++ {
			s := rs()
			if i == pos {
				s = zero
			}
			ts = append(ts, c02Triple{s, "t", msg(i), -1})
		}
		add("identity-key", ts, false)
		// n = 1
		add("single", []c02Triple{{rs(), "t", msg(0), -1}}, false)
		add("single-one-message-api", []c02Triple{{rs(), "t", msg(0), -1}}, true)
	}
	return cs
}

func c02Run(c Case) (Result, error) {
	var in c02In
	if err := json.Unmarshal(c.Input, &in); err != nil {
		return Result{}, err
	}
	rr := rand.New(rand.NewPCG(in.Salt, 0x02))
	if strings.HasPrefix(in.Shape, "large-") {
		// more than 256 triples: judged by the runner (honest aggregate accepted, one altered share
		// rejected, in both groupings); the Coq evaluation then runs on the first two triples
		var pks []crypto.PublicKey
		var msgs [][]byte
		var hashers []hash.Hasher
		var sigs []crypto.Signature
		for _, t := range in.Triples {
			sk, err := crypto.DecodePrivateKey(crypto.BLSBLS12381, unhx(t.Scalar))
			if err != nil {
				return Result{}, err
			}
			hs := crypto.NewExpandMsgXOFKMAC128(t.Tag)
			sg, _ := sk.Sign(unhx(t.Msg), hs)
			pks, msgs, hashers, sigs = append(pks, sk.PublicKey()), append(msgs, unhx(t.Msg)), append(hashers, hs), append(sigs, sg)
		}
		agg, _ := crypto.AggregateBLSSignatures(sigs)
		if ok, e := crypto.VerifyBLSSignatureManyMessages(pks, agg, msgs, hashers); !ok || e != nil {
			return Result{}, implViolation("%s: honest aggregate of %d signatures rejected (%v, %v)", in.Shape, len(sigs), ok, e)
		}
		for _, pos := range []int{0, 255, 256, len(sigs) - 1} {
			bad := append([]crypto.Signature{}, sigs...)
			k7, _ := crypto.DecodePrivateKey(crypto.BLSBLS12381, fixed(big.NewInt(7), 32))
			alt, _ := k7.Sign([]byte("other"), hashers[pos])
			bad[pos] = alt
			ab, _ := crypto.AggregateBLSSignatures(bad)
			if ok, _ := crypto.VerifyBLSSignatureManyMessages(pks, ab, msgs, hashers); ok {
				return Result{}, implViolation("%s: aggregate with the share at position %d of %d replaced is accepted", in.Shape, pos, len(sigs))
			}
		}
		// swapped shares between positions i and i+256 (same message or not): still the same sum
		sub := in
		sub.Shape, sub.Triples = "all-distinct", in.Triples[:2]
		b, _ := json.Marshal(sub)
		res, err := c02Run(Case{Kind: c.Kind, Input: b})
		res.Key = string(c.Input)
		return res, err
	}
	one, _ := crypto.DecodePrivateKey(crypto.BLSBLS12381, fixed(big.NewInt(1), 32))
	var pks []crypto.PublicKey
	var msgs [][]byte
	var hashers []hash.Hasher
	var sigs []crypto.Signature
	var coqT []string
	var coqS []string
	var hEnc0 []byte
	for i, t := range in.Triples {
		tag, msg := t.Tag, unhx(t.Msg)
		if in.One {
			tag, msg = in.Triples[0].Tag, unhx(in.Triples[0].Msg)
		}
		hs := crypto.NewExpandMsgXOFKMAC128(tag)
		var pk crypto.PublicKey
		sc := new(big.Int).SetBytes(unhx(t.Scalar))
		hEnc, _ := one.Sign(msg, hs)
		if i == 0 {
			hEnc0 = hEnc
		}
		if sc.Sign() == 0 {
			pk = crypto.IdentityBLSPublicKey()
		} else {
			sk, err := crypto.DecodePrivateKey(crypto.BLSBLS12381, unhx(t.Scalar))
			if err != nil {
				return Result{}, err
			}
			if t.Reuse >= 0 && t.Reuse < len(pks) {
				pk = pks[t.Reuse]
			} else {
				pk = sk.PublicKey()
			}
			s, _ := sk.Sign(msg, hs)
			sigs = append(sigs, s)
		}
		pks, msgs, hashers = append(pks, pk), append(msgs, msg), append(hashers, hs)
		coqT = append(coqT, fmt.Sprintf("(%s, %s)", cqs(t.Scalar), cqs(hx(hEnc))))
		coqS = append(coqS, cqs(t.Scalar))
	}
	verify := func(b []byte, p []crypto.PublicKey, m [][]byte, h []hash.Hasher) string {
		if in.One {
			ok, e := crypto.VerifyBLSSignatureOneMessage(p, b, m[0], h[0])
			return verdictClass(ok, e)
		}
		ok, e := crypto.VerifyBLSSignatureManyMessages(p, b, m, h)
		return verdictClass(ok, e)
	}
	type cand struct {
		Fam, Bytes, V string
	}
	var cands []cand
	add := func(fam string, b []byte) { cands = append(cands, cand{fam, hx(b), verify(b, pks, msgs, hashers)}) }
	inf := make([]byte, 48)
	inf[0] = 0xC0
	agg := inf
	if len(sigs) > 0 {
		agg, _ = crypto.AggregateBLSSignatures(sigs)
	}
	add("honest-aggregate", agg)
	P := e1Decompress(agg)
	add("negated", e1Compress(e1Neg(P)))
	add("plus-torsion", e1Compress(e1Add(P, e1Torsion(rr))))
	if len(sigs) > 0 {
		// one share altered: replace by a signature on another message
		k3, _ := crypto.GeneratePrivateKey(crypto.BLSBLS12381, rbytes(rr, 32))
		alt, _ := k3.Sign([]byte("other"), hashers[0])
		bad := append([]crypto.Signature{}, sigs...)
		bad[rr.IntN(len(bad))] = alt
		ab, _ := crypto.AggregateBLSSignatures(bad)
		add("one-altered-share", ab)
	}
	fl := append([]byte{}, agg...)
	bit := rr.IntN(384)
	fl[bit/8] ^= 1 << (7 - bit%8)
	add("bitflip", fl)
	add("identity-signature", inf)
	add("short", agg[:47])
	add("long", append(append([]byte{}, agg...), 0))
	// implementation-level invariances and typed errors
	consistent := true
	var why []string
	fail := func(s string) { consistent = false; why = append(why, s) }
	if !in.One {
		perm := rr.Perm(len(pks))
		var pp []crypto.PublicKey
		var pm [][]byte
		var ph []hash.Hasher
		for _, i := range perm {
			pp, pm, ph = append(pp, pks[i]), append(pm, msgs[i]), append(ph, hashers[i])
		}
		for _, cd := range cands[:3] {
			if verify(unhx(cd.Bytes), pp, pm, ph) != cd.V {
				fail("verdict depends on the order of the triples")
			}
		}
		if _, e := crypto.VerifyBLSSignatureManyMessages(pks, agg, msgs[:len(msgs)-1], hashers); !crypto.IsInvalidInputsError(e) && len(pks) > 1 {
			fail("length mismatch (messages) not reported as invalid input")
		}
		if _, e := crypto.VerifyBLSSignatureManyMessages(pks, agg, msgs, hashers[:len(hashers)-1]); !crypto.IsInvalidInputsError(e) && len(pks) > 1 {
			fail("length mismatch (hashers) not reported as invalid input")
		}
		if _, e := crypto.VerifyBLSSignatureManyMessages(nil, agg, nil, nil); !crypto.IsBLSAggregateEmptyListError(e) {
			fail("empty list not reported")
		}
		if ok, e := crypto.VerifyBLSSignatureManyMessages(nil, agg[:47], nil, nil); ok || e != nil {
			fail("wrong-length signature with empty lists must be (false, nil)")
		}
		bh := append([]hash.Hasher{}, hashers...)
		bh[len(bh)-1] = nil
		if _, e := crypto.VerifyBLSSignatureManyMessages(pks, agg, msgs, bh); !crypto.IsNilHasherError(e) {
			fail("nil hasher not reported")
		}
		bh[len(bh)-1] = &fixedHasher{make([]byte, 64)}
		if _, e := crypto.VerifyBLSSignatureManyMessages(pks, agg, msgs, bh); !crypto.IsInvalidHasherSizeError(e) {
			fail("wrong-size hasher not reported")
		}
		ek, _ := crypto.GeneratePrivateKey(crypto.ECDSAP256, rbytes(rr, 32))
		bp := append([]crypto.PublicKey{}, pks...)
		bp[0] = ek.PublicKey()
		if _, e := crypto.VerifyBLSSignatureManyMessages(bp, agg, msgs, hashers); !crypto.IsNotBLSKeyError(e) {
			fail("non-BLS key not reported")
		}
	}
	var items []string
	for _, cd := range cands {
		items = append(items, fmt.Sprintf("(%s, %s)", cqs(cd.Bytes), cqs(cd.V)))
	}
	var term string
	if in.One {
		term = fmt.Sprintf("OneCase %s %s %s", cqlist(coqS), cqs(hx(hEnc0)), cqlist(items))
	} else {
		term = fmt.Sprintf("ManyCase %s %s %s", cqlist(coqT), cqlist(items), cqbool(consistent))
	}
	return Result{Coq: term, Key: string(c.Input), Nontrivial: len(in.Triples) >= 1,
		Obs: map[string]any{"candidates": cands, "inconsistencies": why}}, nil
}
