package main

import (
	"bytes"
	"encoding/json"
	"fmt"
	"math/big"
	"math/rand/v2"
	"sort"
	"strings"
	"sync"

	"github.com/onflow/crypto"
	"github.com/onflow/crypto/hash"
)

// fixedHasher returns a chosen output whatever the input (a legal hash.Hasher of size 128)
type fixedHasher struct{ out []byte }

func (f *fixedHasher) Algorithm() hash.HashingAlgorithm { return hash.UnknownHashingAlgorithm }
func (f *fixedHasher) Size() int                        { return len(f.out) }
func (f *fixedHasher) ComputeHash([]byte) hash.Hash     { return append([]byte{}, f.out...) }
func (f *fixedHasher) Write(p []byte) (int, error)      { return len(p), nil }
func (f *fixedHasher) SumHash() hash.Hash               { return append([]byte{}, f.out...) }
func (f *fixedHasher) Reset()                           {}

type hasherSpec struct {
	Kind string `json:"kind"` // kmac | fixed | nil | size
	Tag  string `json:"tag,omitempty"`
	Out  string `json:"out,omitempty"`
	N    int    `json:"n,omitempty"`
	// Dirty: bytes written to the (kmac) hasher object before it is handed to Sign / Verify; ComputeHash is
	// documented not to depend on (nor to change) the streaming state
	Dirty string `json:"dirty,omitempty"`
}

func (h hasherSpec) build() hash.Hasher {
	switch h.Kind {
	case "kmac":
		k := crypto.NewExpandMsgXOFKMAC128(h.Tag)
		if h.Dirty != "" {
			_, _ = k.Write(unhx(h.Dirty))
		}
		return k
	case "fixed":
		return &fixedHasher{unhx(h.Out)}
	case "size":
		return &fixedHasher{make([]byte, h.N)}
	}
	return nil
}

type c01In struct {
	KeyKind string   `json:"key_kind"` // scalar | generated | aggregated
	Scalar  string   `json:"scalar,omitempty"`
	Seed    string   `json:"seed,omitempty"`
	Parts   []string `json:"parts,omitempty"`
	IdPk    bool     `json:"identity_pk,omitempty"`
	IdSrc   string   `json:"identity_src,omitempty"` // constant | decoded | aggregated | removed
	// PkRoute: how the (non-identity) public key OBJECT used for verification is obtained from sk:
	// "" = sk.PublicKey(); decoded | decoded-compressed | agg-single | agg-with-identity | agg-split |
	// removed | removed-identity | via-encoded-sk
	PkRoute string     `json:"pk_route,omitempty"`
	NilMsg  bool       `json:"nil_msg,omitempty"` // pass a nil slice as the message
	Hasher  hasherSpec `json:"hasher"`
	Msg     string     `json:"msg"`
	Derive  []string   `json:"derive"`
	Raw     []string   `json:"raw,omitempty"` // literal candidate byte strings
	Salt    uint64     `json:"salt"`
}

func init() {
	register(&Prop{
		ID:        "C01",
		Header:    "From Coq Require Import ZArith NArith List String.\nFrom V Require Import Lib.Hex Corr.C01Corr.\nImport ListNotations.\nOpen Scope string_scope.\n",
		Check:     "bad_ids",
		PropCheck: "prop_bad_ids",
		Gen:       c01Gen,
		Run:       c01Run,
		Rule:      "groups (key, hasher, message) with a list of candidate signature strings: the valid one, single-bit flips, negation, s+T for cofactor-torsion T (random and small order), s+delta with delta in G1, x>=p, all flag combinations, infinity variants, other message/key/tag, lengths 0..200; keys 1, 2, r-1, generated, decoded, aggregated (incl. sums to 0) and the identity public key; KMAC and fixed-output hashers (halves all-0xff, >= p, equal halves, halves congruent mod p, a half 0 or a multiple of p, SSWU exceptional u with Z u^2 = -1, u1 = -u0); every group carries the 128-byte hasher output and the model map_to_G1 of it is compared with H(m) (for KMAC the output itself is recomputed from tag and message); nil and wrong-size hashers (sizes 0, 1, 64, 127, 129, 255, 256, 1024), each also together with every other defect of the call (nil / empty / 47- / 49- / 96-byte, valid and identity signature, identity key from the constant and from the decoder; nil, empty and long message for Sign): the typed hasher error must win (judged by the runner); the verifying key OBJECT through every route (PublicKey(), DecodePublicKey, DecodePublicKeyCompressed, aggregation of one key / with identity keys / of two halves of the scalar, RemoveBLSPublicKeys from an aggregate and of identity keys, re-decoded private key) for generated, r-1 and aggregated keys, each must encode and behave like PublicKey(); empty, 420-byte, multi-byte/NUL tags, nil and empty messages, message lengths around the KMAC rate, a hasher object with pending written bytes; every group also offers the nil signature and the valid signature a second time after the rejected ones; runner-side: Sign repeatable and its earlier result unchanged, message, candidate bytes and hasher streaming state unmodified. distinct by the full group; non-trivial if at least one candidate has the right length; limb-sparse private scalars (zero low 64 / 128 / 192 bits, one non-zero limb) decoded and as the sum of two ordinary keys; signatures with a tiny x coordinate (16 leading zero bits, found by a deterministic search at generation time) offered with x + p",
		Shard:     3,
	})
}

// e1DecompressSafe is e1Decompress for bytes that may not encode a point: ok is false when the
// length is wrong, the compression flag is missing, x >= p, an infinity encoding has stray bits
// or x^3 + 4 is not a square.
func e1DecompressSafe(b []byte) (pt e1pt, ok bool) {
	if len(b) != 48 || b[0]&0x80 == 0 {
		return e1pt{}, false
	}
	if b[0]&0x40 != 0 {
		if b[0] != 0xC0 {
			return e1pt{}, false
		}
		for _, x := range b[1:] {
			if x != 0 {
				return e1pt{}, false
			}
		}
		return e1pt{inf: true}, true
	}
	xb := append([]byte{}, b...)
	xb[0] &= 0x1F
	x := new(big.Int).SetBytes(xb)
	if x.Cmp(blsP) >= 0 {
		return e1pt{}, false
	}
	y := fpSqrt(fpAdd(fpMul(fpMul(x, x), x), e1B))
	if y == nil {
		return e1pt{}, false
	}
	half := new(big.Int).Rsh(new(big.Int).Sub(blsP, big.NewInt(1)), 1)
	if (y.Cmp(half) > 0) != (b[0]&0x20 != 0) {
		y = fpSub(big.NewInt(0), y)
	}
	return e1pt{x, y, false}, true
}

func bigHex(s string) *big.Int { x, _ := new(big.Int).SetString(s, 16); return x }

func c01Gen(tier string, r *rand.Rand) []Case {
	var cs []Case
	thorough := tier == "thorough"
	rm1 := new(big.Int).Sub(blsR, big.NewInt(1))
	// every group gets all eight header-bit patterns on its own valid signature: which patterns are
	// distinguishable depends on the sign bit of that signature, so one fixed group is not enough
	baseDerive := []string{"valid", "negated", "plusT", "plusT3", "plusDelta", "xgep", "othermsg", "otherkey", "othertag", "infinity",
		"flags:0", "flags:1", "flags:2", "flags:3", "flags:4", "flags:5", "flags:6", "flags:7"}
	flips := func(n int) []string {
		var d []string
		for i := 0; i < n; i++ {
			d = append(d, fmt.Sprintf("bitflip:%d", r.IntN(384)))
		}
		return d
	}
	allFlips := func() []string {
		var d []string
		for i := 0; i < 384; i++ {
			d = append(d, fmt.Sprintf("bitflip:%d", i))
		}
		return d
	}
	flags := []string{}
	for f := 0; f < 8; f++ {
		flags = append(flags, fmt.Sprintf("flags:%d", f))
	}
	lens := []string{"len:0", "len:1", "len:47", "len:49", "len:96"}
	if thorough {
		lens = nil
		for l := 0; l <= 200; l++ {
			lens = append(lens, fmt.Sprintf("len:%d", l))
		}
	}
	mk := func(fam string, in c01In) {
		in.Salt = r.Uint64()
		cs = append(cs, mkcase(fam, in))
	}
	msgs := [][]byte{{}, []byte("a"), rbytes(r, 33), rbytes(r, 300)}
	// edge scalars
	for i, k := range []*big.Int{big.NewInt(1), big.NewInt(2), rm1} {
		d := append(append([]string{}, baseDerive...), flips(4)...)
		if i == 0 {
			d = append(d, flags...)
			d = append(d, lens...)
		}
		mk("key-edge", c01In{KeyKind: "scalar", Scalar: hx(fixed(k, 32)), Hasher: hasherSpec{Kind: "kmac", Tag: "edge"}, Msg: hx(msgs[i%len(msgs)]), Derive: d})
	}
	n := 4
	if thorough {
		n = 40
	}
	for i := 0; i < n; i++ {
		d := append(append([]string{}, baseDerive...), flips(6)...)
		if thorough && i == 0 {
			d = append(append([]string{}, baseDerive...), allFlips()...)
		}
		mk("key-generated", c01In{KeyKind: "generated", Seed: hx(rbytes(r, 32+r.IntN(40))), Hasher: hasherSpec{Kind: "kmac", Tag: fmt.Sprintf("tag-%d", r.IntN(1000))}, Msg: hx(rbytes(r, r.IntN(200))), Derive: d})
	}
	// aggregated keys, including a sum that is 0 mod r
	a := new(big.Int).Mod(new(big.Int).SetBytes(rbytes(r, 32)), blsR)
	b := new(big.Int).Mod(new(big.Int).SetBytes(rbytes(r, 32)), blsR)
	if a.Sign() == 0 {
		a.SetInt64(5)
	}
	if b.Sign() == 0 {
		b.SetInt64(7)
	}
	mk("key-aggregated", c01In{KeyKind: "aggregated", Parts: []string{hx(fixed(a, 32)), hx(fixed(b, 32))}, Hasher: hasherSpec{Kind: "kmac", Tag: "agg"}, Msg: hx([]byte("agg")), Derive: append(append([]string{}, baseDerive...), flips(3)...)})
	mk("key-aggregated-zero", c01In{KeyKind: "aggregated", Parts: []string{hx(fixed(a, 32)), hx(fixed(new(big.Int).Sub(blsR, a), 32))}, Hasher: hasherSpec{Kind: "kmac", Tag: "agg"}, Msg: hx([]byte("agg0")), Derive: []string{"valid", "infinity", "plusT", "otherkey"}})
	// limb-sparse scalars (a 64-bit, 128-bit or 192-bit low part that is zero; a single non-zero limb; all
	// limbs equal): a zero test or a comparison that looks at one limb only treats them as 0 or as equal.
	// Each is used as a decoded key and as the SUM of two ordinary keys (aggregation never decodes it).
	{
		one := big.NewInt(1)
		sparse := []*big.Int{}
		for _, sh := range []uint{64, 128, 192} {
			sparse = append(sparse, new(big.Int).Lsh(one, sh), new(big.Int).Lsh(big.NewInt(int64(3+r.IntN(1000))), sh))
		}
		sparse = append(sparse, new(big.Int).Lsh(new(big.Int).SetUint64(r.Uint64()|1), 64), new(big.Int).Lsh(big.NewInt(1), 32),
			new(big.Int).Add(new(big.Int).Lsh(one, 192), one), new(big.Int).Sub(new(big.Int).Lsh(one, 64), one))
		for i, k := range sparse {
			k.Mod(k, blsR)
			d := append([]string{}, baseDerive...)
			mk("key-limb-sparse", c01In{KeyKind: "scalar", Scalar: hx(fixed(k, 32)), Hasher: hasherSpec{Kind: "kmac", Tag: "sparse"}, Msg: hx(msgs[i%len(msgs)]), Derive: d})
			x := new(big.Int).Mod(new(big.Int).SetBytes(rbytes(r, 32)), blsR)
			if x.Sign() == 0 || x.Cmp(k) == 0 {
				x.SetInt64(11)
			}
			y := new(big.Int).Mod(new(big.Int).Sub(k, x), blsR)
			mk("key-limb-sparse-agg", c01In{KeyKind: "aggregated", Parts: []string{hx(fixed(x, 32)), hx(fixed(y, 32))}, Hasher: hasherSpec{Kind: "kmac", Tag: "sparse"}, Msg: hx(msgs[(i+1)%len(msgs)]), Derive: d})
		}
	}
	// signatures whose x coordinate is tiny (its 16 leading bits are zero): x + p is then only just above p, the
	// second encoding of the same residue that a coarse "is it reduced" test lets through.  The messages are
	// found by search (about 1 signature in 75 000), deterministically, on all cores
	for i, m := range c01SmallXMessages(3) {
		d := []string{"valid", "xgep", "negated", "flags:5"}
		mk("signature-small-x", c01In{KeyKind: "scalar", Scalar: hx(fixed(big.NewInt(c01SmallXKey), 32)), Hasher: hasherSpec{Kind: "kmac", Tag: c01SmallXTag}, Msg: hx(m), Derive: d})
		_ = i
	}
	// identity public key
	// the identity public key obtained in every way the package can produce one (the cached identity
	// flag must be right for each of them)
	for _, src := range []string{"constant", "decoded", "aggregated", "removed"} {
		mk("identity-pk", c01In{KeyKind: "scalar", Scalar: hx(fixed(big.NewInt(3), 32)), IdPk: true, IdSrc: src, Hasher: hasherSpec{Kind: "kmac", Tag: "id"}, Msg: hx([]byte("id")), Derive: []string{"valid", "infinity", "negated", "plusT"}})
	}
	// fixed-output hashers: halves all 0xff, >= p, zero
	ff := make([]byte, 128)
	for i := range ff {
		ff[i] = 0xff
	}
	pp := make([]byte, 128)
	copy(pp[16:64], fixed(blsP, 48))
	copy(pp[80:128], fixed(new(big.Int).Add(blsP, big.NewInt(1)), 48))
	for _, out := range [][]byte{ff, pp, make([]byte, 128), rbytes(r, 128)} {
		mk("hasher-fixed", c01In{KeyKind: "generated", Seed: hx(rbytes(r, 32)), Hasher: hasherSpec{Kind: "fixed", Out: hx(out)}, Msg: "", Derive: append(append([]string{}, baseDerive...), flips(2)...)})
	}
	// hash-to-curve edge inputs (the two 64-byte halves of the hasher output are reduced mod p to
	// u0, u1): u0 = u1 (the addition on E1' is a doubling and needs the curve's a), halves congruent
	// mod p but different integers, a half that is 0 / a multiple of p, the SSWU exceptional inputs
	// u = 0 and u = +-sqrt(-1/Z), u1 = -u0 (the sum on E1' is the point at infinity), halves >= p
	half := func(x *big.Int) []byte { return fixed(x, 64) }
	cat := func(a, b []byte) []byte { return append(append([]byte{}, a...), b...) }
	rnd64 := func() *big.Int { return new(big.Int).SetBytes(rbytes(r, 64)) }
	modp := func(x *big.Int) *big.Int { return new(big.Int).Mod(x, blsP) }
	excU := new(big.Int).ModSqrt(modp(new(big.Int).Neg(new(big.Int).ModInverse(big.NewInt(11), blsP))), blsP) // u^2 = -1/Z
	var h2c [][]byte
	e := rnd64()
	h2c = append(h2c, cat(half(e), half(e))) // equal halves
	sm := modp(rnd64())
	h2c = append(h2c, cat(half(sm), half(sm)))                         // equal halves < p
	h2c = append(h2c, cat(half(sm), half(new(big.Int).Add(sm, blsP)))) // congruent, different integers
	k := new(big.Int).Mul(blsP, new(big.Int).SetBytes(rbytes(r, 15)))
	h2c = append(h2c, cat(half(new(big.Int).Add(sm, k)), half(sm)))           // congruent, large multiple
	h2c = append(h2c, cat(half(new(big.Int)), half(rnd64())))                 // u0 = 0
	h2c = append(h2c, cat(half(rnd64()), half(new(big.Int))))                 // u1 = 0
	h2c = append(h2c, cat(half(blsP), half(rnd64())))                         // u0 = p = 0 mod p
	h2c = append(h2c, cat(half(k), half(k)))                                  // both multiples of p
	h2c = append(h2c, cat(half(excU), half(rnd64())))                         // Z u0^2 = -1
	h2c = append(h2c, cat(half(rnd64()), half(new(big.Int).Sub(blsP, excU)))) // Z u1^2 = -1
	h2c = append(h2c, cat(half(excU), half(excU)))                            // both exceptional and equal
	h2c = append(h2c, cat(half(excU), half(new(big.Int))))                    // both exceptional, different
	h2c = append(h2c, cat(half(sm), half(new(big.Int).Sub(blsP, sm))))        // u1 = -u0: sum is infinity
	h2c = append(h2c, cat(half(new(big.Int).Add(sm, blsP)), half(modp(new(big.Int).Neg(new(big.Int).Add(sm, blsP))))))
	h2c = append(h2c, cat(half(big.NewInt(1)), half(big.NewInt(1)))) // u0 = u1 = 1
	h2c = append(h2c, cat(half(new(big.Int).Sub(blsP, big.NewInt(1))), half(new(big.Int).Add(blsP, big.NewInt(1)))))
	if thorough {
		for i := 0; i < 12; i++ {
			x := rnd64()
			h2c = append(h2c, cat(half(x), half(modp(x))))
			h2c = append(h2c, cat(half(modp(x)), half(new(big.Int).Sub(blsP, modp(x)))))
		}
	}
	for _, out := range h2c {
		mk("hasher-h2c", c01In{KeyKind: "generated", Seed: hx(rbytes(r, 32)), Hasher: hasherSpec{Kind: "fixed", Out: hx(out)}, Msg: "", Derive: []string{"valid", "negated", "infinity", "plusT"}})
	}
	// the public key OBJECT obtained through every route the package offers (each constructor fills the
	// cached identity flag and the point on its own), then USED for verification; keys r-1, generated and
	// aggregated
	routes := []string{"decoded", "decoded-compressed", "agg-single", "agg-with-identity", "agg-split", "removed", "removed-identity", "via-encoded-sk"}
	for i, rt := range routes {
		in := c01In{KeyKind: "generated", Seed: hx(rbytes(r, 32)), PkRoute: rt, Hasher: hasherSpec{Kind: "kmac", Tag: "route"},
			Msg: hx(rbytes(r, 1+r.IntN(40))), Derive: []string{"valid", "negated", "plusT", "otherkey", "infinity"}}
		switch i % 4 {
		case 1:
			in.KeyKind, in.Seed, in.Scalar = "scalar", "", hx(fixed(rm1, 32))
		case 2:
			in.KeyKind, in.Seed, in.Parts = "aggregated", "", []string{hx(fixed(a, 32)), hx(fixed(b, 32)), hx(fixed(a, 32))}
		}
		mk("pk-route", in)
	}
	// domain tags and messages at the edges: empty tag, a tag longer than two KMAC rate blocks, a tag with
	// multi-byte and NUL characters, nil / empty message, message lengths around the KMAC rate (168) and
	// around rate minus the 3-byte right_encode trailer; a hasher object with pending written bytes
	// (ComputeHash is documented to be independent of the streaming state)
	longTag := strings.Repeat("flow-long-domain-tag/", 20)
	type tm struct {
		tag    string
		msg    []byte
		nilMsg bool
		dirty  []byte
	}
	tms := []tm{{"", []byte("empty tag"), false, nil}, {longTag, rbytes(r, 10), false, nil}, {"t\u00e9\u0000g", rbytes(r, 165), false, nil},
		{"rate", rbytes(r, 168), false, nil}, {"rate", nil, true, nil}, {"", nil, true, nil}, {"dirty", rbytes(r, 20), false, rbytes(r, 50)}}
	if thorough {
		for _, l := range []int{164, 166, 167, 169, 335, 336, 337, 4096} {
			tms = append(tms, tm{"rate", rbytes(r, l), false, nil})
		}
		tms = append(tms, tm{"dirty", rbytes(r, 168), false, rbytes(r, 168)}, tm{longTag + longTag, nil, true, rbytes(r, 1)})
	}
	for _, t := range tms {
		mk("tag-msg-edge", c01In{KeyKind: "generated", Seed: hx(rbytes(r, 32)), Hasher: hasherSpec{Kind: "kmac", Tag: t.tag, Dirty: hx(t.dirty)},
			Msg: hx(t.msg), NilMsg: t.nilMsg, Derive: []string{"valid", "othermsg", "othertag", "infinity"}})
	}
	// hasher guards
	mk("hasher-nil", c01In{KeyKind: "scalar", Scalar: hx(fixed(big.NewInt(9), 32)), Hasher: hasherSpec{Kind: "nil"}, Msg: "00"})
	for _, sz := range []int{0, 1, 64, 127, 129, 255, 256, 1024} {
		mk("hasher-size", c01In{KeyKind: "scalar", Scalar: hx(fixed(big.NewInt(9), 32)), Hasher: hasherSpec{Kind: "size", N: sz}, Msg: "00"})
	}
	return cs
}

func verdictClass(ok bool, err error) string {
	switch {
	case err == nil && ok:
		return "true"
	case err == nil:
		return "false"
	case crypto.IsNilHasherError(err):
		return "err-nil-hasher"
	case crypto.IsInvalidHasherSizeError(err):
		return "err-hasher-size"
	case crypto.IsInvalidInputsError(err):
		return "err-invalid-input"
	}
	return "err-other"
}

func c01Key(in c01In) (crypto.PrivateKey, *big.Int, error) {
	switch in.KeyKind {
	case "scalar":
		sk, err := crypto.DecodePrivateKey(crypto.BLSBLS12381, unhx(in.Scalar))
		return sk, new(big.Int).SetBytes(unhx(in.Scalar)), err
	case "generated":
		sk, err := crypto.GeneratePrivateKey(crypto.BLSBLS12381, unhx(in.Seed))
		if err != nil {
			return nil, nil, err
		}
		return sk, new(big.Int).SetBytes(sk.Encode()), nil
	case "aggregated":
		var keys []crypto.PrivateKey
		sum := new(big.Int)
		for _, p := range in.Parts {
			k, err := crypto.DecodePrivateKey(crypto.BLSBLS12381, unhx(p))
			if err != nil {
				return nil, nil, err
			}
			keys = append(keys, k)
			sum.Add(sum, new(big.Int).SetBytes(unhx(p)))
		}
		sk, err := crypto.AggregateBLSPrivateKeys(keys)
		return sk, sum.Mod(sum, blsR), err
	}
	return nil, nil, fmt.Errorf("unknown key kind")
}

// c01RoutePk builds a public key object for the private key sk (scalar != 0) through the named route.
func c01RoutePk(route string, sk crypto.PrivateKey, scalar *big.Int, rr *rand.Rand) (crypto.PublicKey, error) {
	base := sk.PublicKey()
	idDec, err := crypto.DecodePublicKey(crypto.BLSBLS12381, crypto.IdentityBLSPublicKey().Encode())
	if err != nil {
		return nil, err
	}
	switch route {
	case "decoded":
		return crypto.DecodePublicKey(crypto.BLSBLS12381, base.Encode())
	case "decoded-compressed":
		return crypto.DecodePublicKeyCompressed(crypto.BLSBLS12381, base.EncodeCompressed())
	case "agg-single":
		return crypto.AggregateBLSPublicKeys([]crypto.PublicKey{base})
	case "agg-with-identity":
		return crypto.AggregateBLSPublicKeys([]crypto.PublicKey{crypto.IdentityBLSPublicKey(), base, idDec})
	case "agg-split":
		for {
			x := new(big.Int).Mod(new(big.Int).SetBytes(rbytes(rr, 40)), blsR)
			y := new(big.Int).Mod(new(big.Int).Sub(scalar, x), blsR)
			if x.Sign() == 0 || y.Sign() == 0 {
				continue
			}
			kx, e1 := crypto.DecodePrivateKey(crypto.BLSBLS12381, fixed(x, 32))
			ky, e2 := crypto.DecodePrivateKey(crypto.BLSBLS12381, fixed(y, 32))
			if e1 != nil || e2 != nil {
				return nil, fmt.Errorf("agg-split: %v %v", e1, e2)
			}
			return crypto.AggregateBLSPublicKeys([]crypto.PublicKey{kx.PublicKey(), ky.PublicKey()})
		}
	case "removed":
		k2, err := crypto.GeneratePrivateKey(crypto.BLSBLS12381, rbytes(rr, 32))
		if err != nil {
			return nil, err
		}
		ag, err := crypto.AggregateBLSPublicKeys([]crypto.PublicKey{k2.PublicKey(), base})
		if err != nil {
			return nil, err
		}
		return crypto.RemoveBLSPublicKeys(ag, []crypto.PublicKey{k2.PublicKey()})
	case "removed-identity":
		return crypto.RemoveBLSPublicKeys(base, []crypto.PublicKey{idDec, crypto.IdentityBLSPublicKey()})
	case "via-encoded-sk":
		sk2, err := crypto.DecodePrivateKey(crypto.BLSBLS12381, sk.Encode())
		if err != nil {
			return nil, err
		}
		return sk2.PublicKey(), nil
	}
	return nil, fmt.Errorf("unknown pk route %q", route)
}

func c01Run(c Case) (Result, error) {
	var in c01In
	if err := json.Unmarshal(c.Input, &in); err != nil {
		return Result{}, err
	}
	rr := rand.New(rand.NewPCG(in.Salt, 0x51))
	sk, scalar, err := c01Key(in)
	if err != nil {
		return Result{}, err
	}
	var pk crypto.PublicKey = sk.PublicKey()
	if in.IdPk {
		pk = crypto.IdentityBLSPublicKey()
		neg, _ := crypto.DecodePrivateKey(crypto.BLSBLS12381, fixed(new(big.Int).Sub(blsR, scalar), 32))
		switch in.IdSrc {
		case "decoded":
			pk, err = crypto.DecodePublicKey(crypto.BLSBLS12381, crypto.IdentityBLSPublicKey().Encode())
		case "aggregated":
			pk, err = crypto.AggregateBLSPublicKeys([]crypto.PublicKey{sk.PublicKey(), neg.PublicKey()})
		case "removed":
			pk, err = crypto.RemoveBLSPublicKeys(sk.PublicKey(), []crypto.PublicKey{sk.PublicKey()})
		}
		if err != nil {
			return Result{}, err
		}
	}
	if in.PkRoute != "" && !in.IdPk {
		pk, err = c01RoutePk(in.PkRoute, sk, scalar, rr)
		if err != nil {
			return Result{}, implViolation("public key through route %s: %v", in.PkRoute, err)
		}
		if !bytes.Equal(pk.Encode(), sk.PublicKey().Encode()) || !pk.Equals(sk.PublicKey()) || !sk.PublicKey().Equals(pk) {
			return Result{}, implViolation("public key through route %s is %x, PublicKey() of the private key is %x (Equals: %v)", in.PkRoute, pk.Encode(), sk.PublicKey().Encode(), pk.Equals(sk.PublicKey()))
		}
	}
	hs := in.Hasher.build()
	msg := unhx(in.Msg)
	if in.NilMsg {
		msg = nil
	}
	if in.Hasher.Kind == "nil" || in.Hasher.Kind == "size" {
		_, errS := sk.Sign(msg, hs)
		okV, errV := pk.Verify(make([]byte, 48), msg, hs)
		size := -1
		if in.Hasher.Kind == "size" {
			size = in.Hasher.N
		}
		// the hasher error is documented unconditionally: it must win over every other defect of the call
		// (wrong-length / nil / malformed signature, identity public key from any constructor)
		want := verdictClass(okV, errV)
		k5, _ := crypto.DecodePrivateKey(crypto.BLSBLS12381, fixed(big.NewInt(5), 32))
		goodSig, _ := k5.Sign(msg, crypto.NewExpandMsgXOFKMAC128("x"))
		idDec, _ := crypto.DecodePublicKey(crypto.BLSBLS12381, crypto.IdentityBLSPublicKey().Encode())
		for pi, p := range []crypto.PublicKey{pk, crypto.IdentityBLSPublicKey(), idDec} {
			for _, sg := range [][]byte{nil, {}, make([]byte, 47), goodSig, append([]byte{0xC0}, make([]byte, 47)...), make([]byte, 49), make([]byte, 96)} {
				var ok bool
				var e error
				if pn, m := catch(func() { ok, e = p.Verify(sg, msg, hs) }); pn {
					return Result{}, implViolation("Verify panics with hasher %+v, key #%d, signature %x: %s", in.Hasher, pi, sg, m)
				}
				if got := verdictClass(ok, e); got != want || ok {
					return Result{}, implViolation("Verify with hasher %+v, key #%d (0 = regular, 1/2 = identity), signature %x (%d bytes): %s, but %s with a 48-byte zero signature under the regular key", in.Hasher, pi, sg, len(sg), got, want)
				}
			}
		}
		for _, m := range [][]byte{nil, {}, make([]byte, 500)} {
			if sg, e := sk.Sign(m, hs); verdictClass(false, e) != verdictClass(false, errS) || sg != nil {
				return Result{}, implViolation("Sign with hasher %+v on a %d-byte message: (%x, %v), but %v on the case message", in.Hasher, len(m), sg, e, errS)
			}
		}
		term := fmt.Sprintf("HasherCase (%d)%%Z %s %s", size, cqs(verdictClass(false, errS)), cqs(verdictClass(okV, errV)))
		return Result{Coq: term, Key: string(c.Input), Nontrivial: true, Obs: map[string]any{"sign": verdictClass(false, errS), "verify": verdictClass(okV, errV)}}, nil
	}
	one, _ := crypto.DecodePrivateKey(crypto.BLSBLS12381, fixed(big.NewInt(1), 32))
	hEnc, err := one.Sign(msg, hs)
	if err != nil {
		return Result{}, err
	}
	var sum0 []byte
	if in.Hasher.Kind == "kmac" {
		sum0 = hs.SumHash()
	}
	valid, err := sk.Sign(msg, hs)
	if err != nil {
		return Result{}, err
	}
	validCopy, msgCopy := append([]byte{}, valid...), append([]byte{}, msg...)
	type cand struct {
		Fam   string `json:"fam"`
		Bytes string `json:"bytes"`
		V     string `json:"verdict"`
	}
	var cands []cand
	nontrivial := false
	add := func(fam string, b []byte) {
		var ok bool
		var e error
		bc := append([]byte{}, b...)
		if p, m := catch(func() { ok, e = pk.Verify(b, msg, hs) }); p {
			cands = append(cands, cand{fam, hx(b), "panic:" + m})
			return
		}
		if !bytes.Equal(b, bc) {
			cands = append(cands, cand{fam, hx(bc), "signature-argument-modified"})
			return
		}
		if len(b) == 48 {
			nontrivial = true
		}
		cands = append(cands, cand{fam, hx(b), verdictClass(ok, e)})
	}
	// the library's outputs are never trusted to be points: when Sign's output or H(m) does not
	// decompress (a broken hash-to-curve returns off-curve coordinates), the candidates derived
	// from the point are skipped and the group is still emitted; the Coq side then flags it
	sp, spOK := e1DecompressSafe(valid)
	hp, hpOK := e1DecompressSafe(hEnc)
	needsPoint := map[string]bool{"negated": true, "plusT": true, "plusT3": true, "plusDelta": true, "xgep": true}
	for _, d := range in.Derive {
		if needsPoint[d] && !(spOK && hpOK) {
			continue
		}
		switch {
		case d == "valid":
			add(d, valid)
		case d == "negated":
			add(d, e1Compress(e1Neg(sp)))
		case d == "plusT":
			add(d, e1Compress(e1Add(sp, e1Torsion(rr))))
		case d == "plusT3":
			add(d, e1Compress(e1Add(sp, e1SmallOrder(rr, 3))))
			add("plusT11", e1Compress(e1Add(sp, e1SmallOrder(rr, 11))))
		case d == "plusDelta":
			delta := e1Mul(big.NewInt(int64(1+rr.IntN(1000))), hp)
			add(d, e1Compress(e1Add(sp, delta)))
		case d == "xgep":
			// x + p (same residue, non-reduced coordinate) if it fits in 381 bits
			if !sp.inf {
				x2 := new(big.Int).Add(sp.x, blsP)
				if x2.BitLen() <= 381 {
					b := fixed(x2, 48)
					b[0] |= valid[0] & 0xE0
					add(d, b)
				} else {
					b := fixed(blsP, 48)
					b[0] |= 0x80
					add(d, b)
				}
			}
		case d == "othermsg":
			s2, _ := sk.Sign(append(append([]byte{}, msg...), 0x01), hs)
			add(d, s2)
		case d == "otherkey":
			k2, _ := crypto.GeneratePrivateKey(crypto.BLSBLS12381, rbytes(rr, 32))
			s2, _ := k2.Sign(msg, hs)
			add(d, s2)
		case d == "othertag":
			s2, _ := sk.Sign(msg, crypto.NewExpandMsgXOFKMAC128("another-tag"))
			add(d, s2)
		case d == "infinity":
			inf := make([]byte, 48)
			inf[0] = 0xC0
			add(d, inf)
			for _, pos := range []int{1, 24, 47} {
				b := append([]byte{}, inf...)
				b[pos] = byte(1 + rr.IntN(255))
				add("infinity-stray", b)
			}
		case strings.HasPrefix(d, "bitflip:"):
			var bit int
			fmt.Sscanf(d, "bitflip:%d", &bit)
			b := append([]byte{}, valid...)
			b[bit/8] ^= 1 << (7 - bit%8)
			add("bitflip", b)
		case strings.HasPrefix(d, "flags:"):
			var f int
			fmt.Sscanf(d, "flags:%d", &f)
			b := append([]byte{}, valid...)
			b[0] = (b[0] & 0x1F) | byte(f<<5)
			add("flags", b)
		case strings.HasPrefix(d, "len:"):
			var l int
			fmt.Sscanf(d, "len:%d", &l)
			b := make([]byte, l)
			copy(b, valid)
			if l > 48 {
				copy(b[48:], rbytes(rr, l-48))
			}
			add("length", b)
		}
	}
	for _, raw := range in.Raw {
		add("raw", unhx(raw))
	}
	if len(in.Derive) > 0 {
		add("nil-signature", nil)
		// the valid signature once more after all the rejected candidates (verification keeps no state)
		add("valid-again", valid)
	}
	// results are values and arguments are read only: the signature returned first is still what Sign
	// returns now, the message and (for the library's hasher) the hasher's streaming state are untouched
	if again, e := sk.Sign(msg, hs); e != nil || !bytes.Equal(again, validCopy) || !bytes.Equal(valid, validCopy) {
		return Result{}, implViolation("Sign is not repeatable / its earlier result changed: first %x, held slice now %x, second call %x (%v)", validCopy, valid, again, e)
	}
	if !bytes.Equal(msg, msgCopy) || (in.NilMsg && msg != nil) {
		return Result{}, implViolation("Sign / Verify modified the message argument")
	}
	if sum0 != nil && !bytes.Equal(sum0, hs.SumHash()) {
		return Result{}, implViolation("Sign / Verify changed the streaming state of the hasher (documented read only for the library's KMAC hasher)")
	}
	var items []string
	for _, cd := range cands {
		items = append(items, fmt.Sprintf("(%s, %s)", cqs(cd.Bytes), cqs(cd.V)))
	}
	// the hasher's output for the message (what map_to_G1 receives) and, for the library's own
	// hasher, the tag and message it is computed from
	hout := []byte(hs.ComputeHash(msg))
	hsrc := "HFixed"
	if in.Hasher.Kind == "kmac" {
		hsrc = fmt.Sprintf("(HKmac %s %s)", cqs(hx([]byte(in.Hasher.Tag))), cqs(hx(msg)))
	}
	term := fmt.Sprintf("SigCaseH %s %s %s %s %s %s %s", cqs(hx(fixed(scalar, 32))), cqs(hx(hEnc)), cqbool(in.IdPk), cqs(hx(valid)), cqlist(items), hsrc, cqs(hx(hout)))
	return Result{Coq: term, Key: string(c.Input), Nontrivial: nontrivial,
		Obs: map[string]any{"scalar": hx(fixed(scalar, 32)), "H": hx(hEnc), "hasher_output": hx(hout), "sign": hx(valid), "candidates": cands}}, nil
}

const c01SmallXKey = 0x5eed
const c01SmallXTag = "small-x"

// c01SmallXMessages searches messages "small-x <i>" (i = 0, 1, ...) whose signature under the key c01SmallXKey
// has an x coordinate below 0xe0 * 2^360 (bytes 0 and 1 zero apart from the flags); it returns the first `want`
// of them in the order of i, or fewer when 600 000 candidates were not enough / the library does not sign.
func c01SmallXMessages(want int) [][]byte {
	sk, err := crypto.DecodePrivateKey(crypto.BLSBLS12381, fixed(big.NewInt(c01SmallXKey), 32))
	if err != nil {
		return nil
	}
	const G, chunk = 16, 65536
	var hits []int
	for base := 0; base < 600000 && len(hits) < want; base += chunk {
		var mu sync.Mutex
		var wg sync.WaitGroup
		for g := 0; g < G; g++ {
			wg.Add(1)
			go func(g int) {
				defer wg.Done()
				defer func() { _ = recover() }()
				hs := crypto.NewExpandMsgXOFKMAC128(c01SmallXTag)
				for i := base + g; i < base+chunk; i += G {
					sg, err := sk.Sign([]byte(fmt.Sprintf("small-x %d", i)), hs)
					if err == nil && len(sg) == 48 && sg[0]&0x1f == 0 && sg[1] == 0 && sg[2] < 0xe0 {
						mu.Lock()
						hits = append(hits, i)
						mu.Unlock()
					}
				}
			}(g)
		}
		wg.Wait()
	}
	sort.Ints(hits)
	if len(hits) > want {
		hits = hits[:want]
	}
	var out [][]byte
	for _, i := range hits {
		out = append(out, []byte(fmt.Sprintf("small-x %d", i)))
	}
	return out
}
