package main

// Deterministic single-threaded network simulator for the DKG properties C08 and C07:
// real NewFeldmanVSS / NewFeldmanVSSQual / NewJointFeldman instances for the honest
// participants, scripted Byzantine participants, admissible delivery orders (per-sender FIFO
// for broadcasts, every broadcast lands in the same phase at every honest receiver, every
// message of a phase is delivered before the corresponding NextTimeout).  The schedule is
// drawn from a PRNG seeded by the case, so a case replays exactly.

import (
	"encoding/json"
	"fmt"
	"math/big"
	"math/rand/v2"
	"sort"
	"strconv"
	"strings"

	"github.com/onflow/crypto"
)

type simUns struct {
	Phase      int    `json:"phase"`
	Complainer int    `json:"complainer"`
	Kind       string `json:"kind"` // ok | bad | zero | ger | badlen | badidx
}
type simCmp struct {
	Phase   int    `json:"phase"`
	Against int    `json:"against"`
	Kind    string `json:"kind"` // ok | dup | badlen | badidx | idx255 | idxn | empty
}
type simExtra struct {
	Phase int    `json:"phase"`
	Kind  string `json:"kind"` // empty | badtag | sharetag
}
type simByz struct {
	Idx        int               `json:"idx"`
	Poly       []string          `json:"poly"`
	Poly2      []string          `json:"poly2"`
	Vec        string            `json:"vec"` // ok | omit | badlen | badpoint | badvalue | offcurve | notg2 | dup
	VecPhase   int               `json:"vec_phase"`
	Shares     map[string]string `json:"shares"`  // honest receiver -> ok | omit | bad | zero | ger | badlen | wrongtag | empty | dup | late
	Answers    map[string]string `json:"answers"` // complainer -> ok | omit | bad | zero | ger | badlen | badidx | dup
	Unsol      []simUns          `json:"unsolicited,omitempty"`
	Complaints []simCmp          `json:"complaints,omitempty"`
	Extra      []simExtra        `json:"extra,omitempty"`
}
type simIn struct {
	Proto    string            `json:"proto"` // vss | qual | joint
	N        int               `json:"n"`
	T        int               `json:"t"`
	Dealer   int               `json:"dealer"`
	Honest   []int             `json:"honest"`
	Seeds    map[string]string `json:"seeds"`
	Byz      []simByz          `json:"byz"`
	Sched    uint64            `json:"sched"`
	Hint     string            `json:"hint,omitempty"` // share-first | vector-first | answers-first | complaints-first
	MustDisq []int             `json:"must_disq,omitempty"`
	MustFail bool              `json:"must_fail,omitempty"`
	MustKeys bool              `json:"must_keys,omitempty"`
	// scripted participants whose script is exactly an honest run (for some polynomial): the property counts them as honest
	ActsHonest []int `json:"acts_honest,omitempty"`
}

type simMsg struct {
	from  int
	bcast bool
	data  []byte
	land  int
	seq   int
}

type simNode struct {
	idx   int
	inst  crypto.DKGState
	proc  *dkgProc
	terms []string
	obs   []dkgObs
	pend  []*simMsg
	next  map[int]int // per sender: next broadcast sequence number to deliver
	nextP map[int]int // per sender: next private message number to deliver
	seqP  map[int]int // per sender: number of private messages queued for this node
}

type simRun struct {
	in       *simIn
	r        *rand.Rand
	nodes    map[int]*simNode
	order    []int
	byz      map[int]*simByz
	bpoly    map[int][]*big.Int
	bpoly2   map[int][]*big.Int
	known    [][]*big.Int
	seq      map[int]int
	lastLand map[int]int
	phase    int
	answered map[string]bool
	err      error
}

func simParsePoly(p []string) []*big.Int {
	var a []*big.Int
	for _, c := range p {
		z, ok := new(big.Int).SetString(c, 10)
		if !ok {
			panic("bad coefficient " + c)
		}
		dkgEncG2(z)
		a = append(a, z)
	}
	return a
}

// an encoding that deserialises to a point of E2 which is off the curve / outside G2,
// found by varying the x coordinate of a valid encoding and asking the library
var simBadPoints = map[string][]byte{}

func simBadPoint(kind string) []byte {
	if b, ok := simBadPoints[kind]; ok {
		return b
	}
	base := append([]byte{}, dkgEncG2(big.NewInt(7))...)
	for i := 1; i < 4000; i++ {
		c := append([]byte{}, base...)
		c[dkgG2Len-1] = byte(int(c[dkgG2Len-1]) + i)
		c[dkgG2Len-2] = byte(int(c[dkgG2Len-2]) + i>>8)
		_, err := crypto.DecodePublicKey(crypto.BLSBLS12381, c)
		if err == nil {
			continue
		}
		msg := err.Error()
		if kind == "offcurve" && strings.Contains(msg, "not a point on curve") {
			simBadPoints[kind] = c
			return c
		}
		if kind == "notg2" && strings.Contains(msg, "valid group") {
			simBadPoints[kind] = c
			return c
		}
	}
	panic("no " + kind + " point found")
}

func (b *simByz) vecBytes(kind string, P, P2 []*big.Int, t int) [][]byte {
	v := dkgMsgVec(P)
	last := 1 + dkgG2Len*t
	switch kind {
	case "ok":
		return [][]byte{v}
	case "omit":
		return nil
	case "badlen":
		return [][]byte{v[:len(v)-1]}
	case "badpoint":
		v[last] = 0xE0
		return [][]byte{v}
	case "badvalue":
		for i := 0; i < 48; i++ {
			v[1+i] = 0xFF
		}
		v[1] = 0x9F
		return [][]byte{v}
	case "offcurve", "notg2":
		copy(v[last:], simBadPoint(kind))
		return [][]byte{v}
	case "dup":
		return [][]byte{v, dkgMsgVec(P2)}
	case "same": // the identical vector twice
		return [][]byte{v, append([]byte{}, v...)}
	case "badpoint-first": // the same defects at the first and at a middle position of the vector
		v[1] = 0xE0
		return [][]byte{v}
	case "badvalue-last":
		for i := 0; i < 48; i++ {
			v[last+i] = 0xFF
		}
		v[last] = 0x9F
		return [][]byte{v}
	case "offcurve-first", "notg2-first":
		copy(v[1:], simBadPoint(strings.TrimSuffix(kind, "-first")))
		return [][]byte{v}
	case "offcurve-mid", "notg2-mid", "badpoint-mid":
		mid := 1 + dkgG2Len*(t/2)
		if kind == "badpoint-mid" {
			v[mid] = 0xE0
		} else {
			copy(v[mid:], simBadPoint(strings.TrimSuffix(kind, "-mid")))
		}
		return [][]byte{v}
	case "allbad": // every point malformed in a different way
		for k := 0; k <= t; k++ {
			switch k % 3 {
			case 0:
				copy(v[1+dkgG2Len*k:], simBadPoint("notg2"))
			case 1:
				v[1+dkgG2Len*k] = 0xE0
			case 2:
				copy(v[1+dkgG2Len*k:], simBadPoint("offcurve"))
			}
		}
		return [][]byte{v}
	case "order13", "g2plus13": // on the curve, outside G2, with a small-order component (last position)
		copy(v[last:], simSmallOrderPoint(kind))
		return [][]byte{v}
	case "order13-first", "g2plus13-first":
		copy(v[1:], simSmallOrderPoint(strings.TrimSuffix(kind, "-first")))
		return [][]byte{v}
	case "g2plus13-c1":
		// the commitment of the coefficient of X is shifted by a point of order 13: the vector is invalid, but the public
		// key it yields for a participant whose evaluation point is a multiple of 13 is the honest one, so that
		// participant's (honest) share matches
		if t < 1 {
			panic("g2plus13-c1 needs t >= 1")
		}
		copy(v[1+dkgG2Len:], simG2Plus13(P[1]))
		return [][]byte{v}
	case "g2pm13-pair":
		// two commitments leave G2 by opposite small-order components: their SUM (and the sum of the
		// whole vector) is in G2, each of the two points is not
		if t < 1 {
			panic("g2pm13-pair needs t >= 1")
		}
		copy(v[1:], simG2Plus13k(P[0], 1))
		copy(v[last:], simG2Plus13k(P[t], 12))
		return [][]byte{v}
	case "longer": // one more point than t+1
		return [][]byte{append(v, dkgEncG2(big.NewInt(11))...)}
	case "shorter": // one point less
		return [][]byte{v[:last]}
	}
	panic("vector kind " + kind)
}

func simShareBytes(kind string, P []*big.Int, to int) [][]byte {
	s := dkgPeval(P, int64(to+1))
	ok := dkgMsgShare(s)
	switch kind {
	case "ok", "late":
		return [][]byte{ok}
	case "omit-latebad": // nothing in time; a well-formed WRONG share after the complaint has been answered
		return [][]byte{dkgMsgShare(dkgMod(new(big.Int).Add(s, big.NewInt(9))))}
	case "omit-lateok": // nothing in time; the right share after the complaint has been answered
		return [][]byte{ok}
	case "omit":
		return nil
	case "bad":
		return [][]byte{dkgMsgShare(dkgMod(new(big.Int).Add(s, big.NewInt(1))))}
	case "neg": // the exact negation r - s: [r - s] g2 = -[s] g2 has the same x coordinate as the right public share
		return [][]byte{dkgMsgShare(dkgMod(new(big.Int).Neg(s)))}
	case "plus-r-half": // s + (r-1)/2: another structured relation to the right share
		return [][]byte{dkgMsgShare(dkgMod(new(big.Int).Add(s, new(big.Int).Rsh(dkgR, 1))))}
	case "trunc":
		// the share that matches the vector with its last coefficient dropped (what a reader that
		// stops at a malformed last point is left with)
		return [][]byte{dkgMsgShare(dkgPeval(P[:len(P)-1], int64(to+1)))}
	case "zero":
		return [][]byte{dkgMsgShare(new(big.Int))}
	case "ger":
		return [][]byte{dkgMsgShare(new(big.Int).Add(dkgR, big.NewInt(3)))}
	case "badlen":
		return [][]byte{ok[:20]}
	case "wrongtag":
		return [][]byte{append([]byte{dkgTagVec}, ok[1:]...)}
	case "empty":
		return [][]byte{{}}
	case "nil": // a nil slice instead of an empty one
		return [][]byte{nil}
	case "dup":
		return [][]byte{ok, dkgMsgShare(dkgMod(new(big.Int).Add(s, big.NewInt(5))))}
	case "badfirst": // a wrong share, then the right one (only the first counts)
		return [][]byte{dkgMsgShare(dkgMod(new(big.Int).Add(s, big.NewInt(5)))), ok}
	case "twice": // the right share twice
		return [][]byte{ok, append([]byte{}, ok...)}
	case "long": // one byte too many
		return [][]byte{append(append([]byte{}, ok...), 0)}
	}
	panic("share kind " + kind)
}

func simAnswerBytes(kind string, P []*big.Int, c int, n int) [][]byte {
	s := dkgPeval(P, int64(c+1))
	ok := dkgMsgAnswer(c, s)
	switch kind {
	case "ok":
		return [][]byte{ok}
	case "omit":
		return nil
	case "bad":
		return [][]byte{dkgMsgAnswer(c, dkgMod(new(big.Int).Add(s, big.NewInt(1))))}
	case "neg": // the exact negation of the right share
		return [][]byte{dkgMsgAnswer(c, dkgMod(new(big.Int).Neg(s)))}
	case "zero":
		return [][]byte{dkgMsgAnswer(c, new(big.Int))}
	case "ger":
		return [][]byte{dkgMsgAnswer(c, new(big.Int).Add(dkgR, big.NewInt(1)))}
	case "badlen":
		return [][]byte{ok[:len(ok)-2]}
	case "badidx":
		return [][]byte{dkgMsgAnswer(n+1, s)}
	case "dup":
		return [][]byte{ok, dkgMsgAnswer(c, dkgMod(new(big.Int).Add(s, big.NewInt(9))))}
	case "badfirst": // a wrong answer, then the right one (only the first counts)
		return [][]byte{dkgMsgAnswer(c, dkgMod(new(big.Int).Add(s, big.NewInt(9)))), ok}
	case "long":
		return [][]byte{append(append([]byte{}, ok...), 0)}
	case "idx255":
		return [][]byte{dkgMsgAnswer(255, s)}
	}
	panic("answer kind " + kind)
}

func (sr *simRun) isHonest(i int) bool { _, ok := sr.nodes[i]; return ok }

// a broadcast enters the network: same landing phase at every honest receiver
func (sr *simRun) broadcast(from int, data []byte, land int) {
	if land < sr.lastLand[from] {
		land = sr.lastLand[from]
	}
	if land < sr.phase {
		land = sr.phase
	}
	sr.lastLand[from] = land
	m := &simMsg{from: from, bcast: true, data: data, land: land, seq: sr.seq[from]}
	sr.seq[from]++
	for _, p := range sr.order {
		if p != from {
			sr.nodes[p].pend = append(sr.nodes[p].pend, m)
		}
	}
	// Byzantine dealers see every complaint at once and react as scripted
	if len(data) == 2 && data[0] == dkgTagComplaint {
		against := int(data[1])
		if b, ok := sr.byz[against]; ok && (sr.in.Proto == "joint" || against == sr.in.Dealer) && from != against {
			key := fmt.Sprintf("%d/%d", against, from)
			if !sr.answered[key] {
				sr.answered[key] = true
				kind := b.Answers[strconv.Itoa(from)]
				if kind == "" {
					kind = "ok"
				}
				for _, a := range simAnswerBytes(kind, sr.bpoly[against], from, sr.in.N) {
					sr.broadcast(against, a, land+sr.r.IntN(3-min(land, 2)))
				}
			}
		}
	}
}

func (sr *simRun) private(from, to int, data []byte, land int) {
	if nd, ok := sr.nodes[to]; ok {
		if land < sr.phase {
			land = sr.phase
		}
		nd.pend = append(nd.pend, &simMsg{from: from, bcast: false, data: data, land: land, seq: nd.seqP[from]})
		nd.seqP[from]++
	}
}

// the outputs of an honest participant enter the network
func (sr *simRun) collect(nd *simNode, ev []dkgEvent) {
	for _, e := range ev {
		switch e.Kind {
		case "send":
			sr.private(nd.idx, e.Target, unhx(e.Data), sr.phase)
		case "bcast":
			data := unhx(e.Data)
			land := sr.phase
			if len(data) > 0 {
				switch data[0] {
				case dkgTagComplaint: // honest complaints arrive before the second timeout
					land = sr.phase + sr.r.IntN(2)
					if land > 1 {
						land = 1
					}
				case dkgTagAnswer: // honest answers arrive before End
					land = sr.phase + sr.r.IntN(2)
					if land > 2 {
						land = 2
					}
				}
			}
			sr.broadcast(nd.idx, data, land)
		}
	}
}

func (sr *simRun) call(nd *simNode, c dkgCall) {
	if sr.err != nil {
		return
	}
	term, o, err := dkgStep(nd.inst, nd.proc, c, sr.in.T, sr.known)
	if err != nil {
		sr.err = err
		return
	}
	nd.terms = append(nd.terms, term)
	nd.obs = append(nd.obs, o)
	sr.collect(nd, o.Events)
}

// scripted messages of the Byzantine participants for the phase that begins
func (sr *simRun) byzPhase(ph int) {
	in := sr.in
	var idxs []int
	for i := range sr.byz {
		idxs = append(idxs, i)
	}
	sort.Ints(idxs)
	for _, i := range idxs {
		b := sr.byz[i]
		P, P2 := sr.bpoly[i], sr.bpoly2[i]
		type item struct {
			bcast bool
			to    int
			data  []byte
		}
		// messages that belong together (a duplicate after its original) keep their order
		var groups [][]item
		if b.VecPhase == ph {
			var g []item
			for _, v := range b.vecBytes(b.Vec, P, P2, in.T) {
				g = append(g, item{true, 0, v})
			}
			groups = append(groups, g)
		}
		for _, p := range sr.order {
			kind := b.Shares[strconv.Itoa(p)]
			if kind == "" {
				kind = "ok"
			}
			veryLate := kind == "omit-latebad" || kind == "omit-lateok"
			if (kind == "late" && ph == 1) || (veryLate && ph == 2) || (kind != "late" && !veryLate && ph == 0) {
				var g []item
				for _, s := range simShareBytes(kind, P, p) {
					g = append(g, item{false, p, s})
				}
				groups = append(groups, g)
			}
		}
		for _, u := range b.Unsol {
			if u.Phase == ph {
				var g []item
				for _, a := range simAnswerBytes(u.Kind, P, u.Complainer, in.N) {
					g = append(g, item{true, 0, a})
				}
				groups = append(groups, g)
			}
		}
		for _, c := range b.Complaints {
			if c.Phase != ph {
				continue
			}
			switch c.Kind {
			case "ok":
				groups = append(groups, []item{{true, 0, dkgMsgComplaint(c.Against)}})
			case "dup":
				groups = append(groups, []item{{true, 0, dkgMsgComplaint(c.Against)}, {true, 0, dkgMsgComplaint(c.Against)}})
			case "badlen":
				groups = append(groups, []item{{true, 0, []byte{dkgTagComplaint, byte(c.Against), 1}}})
			case "badidx":
				groups = append(groups, []item{{true, 0, dkgMsgComplaint(in.N + 2)}})
			case "idx255":
				groups = append(groups, []item{{true, 0, dkgMsgComplaint(255)}})
			case "idxn": // the smallest index that is out of range
				groups = append(groups, []item{{true, 0, dkgMsgComplaint(in.N)}})
			case "empty": // the complaint tag alone
				groups = append(groups, []item{{true, 0, []byte{dkgTagComplaint}}})
			}
		}
		for _, x := range b.Extra {
			if x.Phase != ph {
				continue
			}
			switch x.Kind {
			case "empty":
				groups = append(groups, []item{{true, 0, []byte{}}})
			case "nil":
				groups = append(groups, []item{{true, 0, nil}})
			case "badtag":
				groups = append(groups, []item{{true, 0, []byte{77, 1}}})
			case "sharetag":
				groups = append(groups, []item{{true, 0, dkgMsgShare(big.NewInt(5))}})
			}
		}
		// a Byzantine sender may emit its messages in any order
		sr.r.Shuffle(len(groups), func(x, y int) { groups[x], groups[y] = groups[y], groups[x] })
		if in.Hint == "answers-first" || in.Hint == "share-answer-vector" {
			isAns := func(g []item) bool {
				return len(g) > 0 && g[0].bcast && len(g[0].data) > 0 && g[0].data[0] == dkgTagAnswer
			}
			sort.SliceStable(groups, func(x, y int) bool { return isAns(groups[x]) && !isAns(groups[y]) })
		}
		for _, g := range groups {
			for _, it := range g {
				if it.bcast {
					sr.broadcast(i, it.data, ph)
				} else {
					sr.private(i, it.to, it.data, ph)
				}
			}
		}
	}
}

func simPrio(hint string, m *simMsg) int {
	tag := -1
	if len(m.data) > 0 {
		tag = int(m.data[0])
	}
	switch hint {
	case "share-first":
		if !m.bcast {
			return 0
		}
	case "vector-first":
		if m.bcast && tag == dkgTagVec {
			return 0
		}
	case "vector-last":
		if m.bcast && tag == dkgTagVec {
			return 2
		}
	case "answers-first":
		if m.bcast && tag == dkgTagAnswer {
			return 0
		}
	case "share-answer-vector":
		// the private share, then the dealer's answers, then everything else, the vector last
		switch {
		case !m.bcast:
			return 0
		case tag == dkgTagAnswer:
			return 1
		case tag == dkgTagVec:
			return 3
		}
		return 2
	case "complaints-first":
		if m.bcast && tag == dkgTagComplaint {
			return 0
		}
	}
	return 1
}

// delivers every message that lands in the current phase, in a random admissible order
func (sr *simRun) deliverPhase() {
	for sr.err == nil {
		type cand struct {
			nd *simNode
			k  int
		}
		var cands []cand
		best := 99
		for _, p := range sr.order {
			nd := sr.nodes[p]
			for k, m := range nd.pend {
				if m.land != sr.phase {
					continue
				}
				if m.bcast && m.seq != nd.next[m.from] {
					continue // per-sender FIFO
				}
				if !m.bcast && m.seq != nd.nextP[m.from] {
					continue // the private channel of one sender keeps its order too
				}
				pr := simPrio(sr.in.Hint, m)
				if pr < best {
					best = pr
					cands = cands[:0]
				}
				if pr == best {
					cands = append(cands, cand{nd, k})
				}
			}
		}
		if len(cands) == 0 {
			// anything that should have landed but is blocked by FIFO is a simulator bug
			for _, p := range sr.order {
				for _, m := range sr.nodes[p].pend {
					if m.land == sr.phase {
						sr.err = fmt.Errorf("simulator: message from %d blocked in phase %d", m.from, sr.phase)
					}
				}
			}
			return
		}
		c := cands[sr.r.IntN(len(cands))]
		m := c.nd.pend[c.k]
		c.nd.pend = append(c.nd.pend[:c.k:c.k], c.nd.pend[c.k+1:]...)
		if m.bcast {
			c.nd.next[m.from]++
			sr.call(c.nd, dkgCall{Op: "bcast", Orig: m.from, Msg: hx(m.data), Nil: m.data == nil})
		} else {
			c.nd.nextP[m.from]++
			sr.call(c.nd, dkgCall{Op: "priv", Orig: m.from, Msg: hx(m.data), Nil: m.data == nil})
		}
	}
}

// C07, last sentence: on success the key objects End returned must WORK: every honest participant's private
// share signs verifiably under its public share (taken from another participant's result), and any t+1
// shares reconstruct a threshold signature that verifies under the group key.  Only judged when every honest
// participant returned keys with the same encodings (disagreement is the Coq oracle's business).
func simKeysBehave(sr *simRun) error {
	in := sr.in
	type res struct {
		x  crypto.PrivateKey
		Y  crypto.PublicKey
		ys []crypto.PublicKey
	}
	var rs []res
	for _, p := range sr.order {
		nd := sr.nodes[p]
		o := nd.obs[len(nd.obs)-1]
		if o.Class != "keys" {
			return nil
		}
		if err := dkgKeysStable(nd.obs); err != nil {
			return err
		}
		rs = append(rs, res{o.keys[0].(crypto.PrivateKey), o.keys[1].(crypto.PublicKey), o.keys[2].([]crypto.PublicKey)})
	}
	if len(rs) == 0 {
		return nil
	}
	for _, q := range rs[1:] {
		if !q.Y.Equals(rs[0].Y) || len(q.ys) != len(rs[0].ys) || len(q.ys) != in.N {
			return nil
		}
		for j := range q.ys {
			if !q.ys[j].Equals(rs[0].ys[j]) {
				return nil
			}
		}
	}
	msg := []byte("dkg simulation")
	kmac := crypto.NewExpandMsgXOFKMAC128("dkg-sim")
	var shares []crypto.Signature
	var signers []int
	for k, p := range sr.order {
		sig, err := rs[k].x.Sign(msg, kmac)
		if err != nil {
			return implViolation("participant %d: the private share returned by End cannot sign: %v", p, err)
		}
		other := rs[(k+1)%len(rs)]
		ok, err := other.ys[p].Verify(sig, msg, kmac)
		if err != nil || !ok {
			return implViolation("participant %d: signature by the private share returned by End does not verify under public share %d as returned to participant %d (%v, %v)", p, p, sr.order[(k+1)%len(rs)], ok, err)
		}
		shares = append(shares, sig)
		signers = append(signers, p)
	}
	if len(shares) < in.T+1 {
		return nil
	}
	var first crypto.Signature
	for _, lo := range []int{0, len(shares) - (in.T + 1)} {
		ts, err := crypto.BLSReconstructThresholdSignature(in.N, in.T, shares[lo:lo+in.T+1], signers[lo:lo+in.T+1])
		if err != nil {
			return implViolation("threshold reconstruction from the shares of participants %v fails: %v", signers[lo:lo+in.T+1], err)
		}
		ok, err := rs[0].Y.Verify(ts, msg, kmac)
		if err != nil || !ok {
			return implViolation("the threshold signature of participants %v does not verify under the group key returned by End (%v, %v)", signers[lo:lo+in.T+1], ok, err)
		}
		if first == nil {
			first = ts
		} else if string(first) != string(ts) {
			return implViolation("two sets of t+1 participants reconstruct different threshold signatures")
		}
	}
	return nil
}

func simRunCase(in *simIn, behave bool) (string, map[string]any, bool, error) {
	sr := &simRun{in: in, r: rand.New(rand.NewPCG(in.Sched, 0xd1b54a32d192ed03)), nodes: map[int]*simNode{}, byz: map[int]*simByz{},
		bpoly: map[int][]*big.Int{}, bpoly2: map[int][]*big.Int{}, seq: map[int]int{}, lastLand: map[int]int{}, answered: map[string]bool{}}
	dkgEncG2(new(big.Int))
	sr.known = make([][]*big.Int, in.N)
	for k := range in.Byz {
		b := &in.Byz[k]
		sr.byz[b.Idx] = b
		sr.bpoly[b.Idx] = simParsePoly(b.Poly)
		sr.bpoly2[b.Idx] = simParsePoly(b.Poly2)
		sr.known[b.Idx] = sr.bpoly[b.Idx]
	}
	sr.order = append([]int{}, in.Honest...)
	sort.Ints(sr.order)
	for _, p := range sr.order {
		proc := &dkgProc{}
		var inst crypto.DKGState
		var err error
		switch in.Proto {
		case "vss":
			inst, err = crypto.NewFeldmanVSS(in.N, in.T, p, proc, in.Dealer)
		case "qual":
			inst, err = crypto.NewFeldmanVSSQual(in.N, in.T, p, proc, in.Dealer)
		case "joint":
			inst, err = crypto.NewJointFeldman(in.N, in.T, p, proc)
		default:
			err = fmt.Errorf("unknown protocol %q", in.Proto)
		}
		if err != nil {
			return "", nil, false, err
		}
		sr.nodes[p] = &simNode{idx: p, inst: inst, proc: proc, next: map[int]int{}, nextP: map[int]int{}, seqP: map[int]int{}}
		if in.Proto == "joint" || p == in.Dealer {
			a, err := dkgPolyOfSeed(unhx(in.Seeds[strconv.Itoa(p)]), in.T)
			if err != nil {
				return "", nil, false, err
			}
			sr.known[p] = a
		}
	}
	// phase 0
	sr.phase = 0
	for _, p := range sr.order {
		sr.call(sr.nodes[p], dkgCall{Op: "start", Seed: in.Seeds[strconv.Itoa(p)]})
	}
	sr.byzPhase(0)
	sr.deliverPhase()
	if in.Proto != "vss" {
		for ph := 1; ph <= 2; ph++ {
			sr.phase = ph
			for _, p := range sr.order {
				sr.call(sr.nodes[p], dkgCall{Op: "timeout"})
			}
			sr.byzPhase(ph)
			sr.deliverPhase()
		}
	}
	for _, p := range sr.order {
		sr.call(sr.nodes[p], dkgCall{Op: "end"})
	}
	if sr.err != nil {
		return "", nil, false, sr.err
	}
	if behave && in.Proto != "vss" {
		if err := simKeysBehave(sr); err != nil {
			return "", nil, false, err
		}
	}
	var parts []string
	obs := map[string]any{}
	events := 0
	for _, p := range sr.order {
		nd := sr.nodes[p]
		parts = append(parts, fmt.Sprintf("mkP %d %s", p, cqlist(nd.terms)))
		obs[strconv.Itoa(p)] = nd.obs
		for _, o := range nd.obs {
			events += len(o.Events)
		}
	}
	proto := map[string]int{"vss": 0, "qual": 1, "joint": 2}[in.Proto]
	nat := func(l []int) string {
		s := make([]string, len(l))
		for i, x := range l {
			s[i] = fmt.Sprintf("%d%%nat", x)
		}
		return "[" + strings.Join(s, "; ") + "]"
	}
	term := fmt.Sprintf("mkSim %d%%N %d %d %d %s %s %s %s\n  [%s]", proto, in.N, in.T, in.Dealer, nat(append(append([]int{}, sr.order...), in.ActsHonest...)), nat(in.MustDisq),
		cqbool(in.MustFail), cqbool(in.MustKeys), strings.Join(parts, ";\n   "))
	return term, obs, events > 0, nil
}

func simRunJSON(c Case) (Result, error) { return simRunWith(c, false) }

// C07 also makes the returned key objects work (simKeysBehave)
func simRunBehave(c Case) (Result, error) { return simRunWith(c, true) }

func simRunWith(c Case, behave bool) (Result, error) {
	var in simIn
	if err := json.Unmarshal(c.Input, &in); err != nil {
		return Result{}, err
	}
	term, obs, nontrivial, err := simRunCase(&in, behave)
	if err != nil {
		return Result{}, err
	}
	return Result{Coq: term, Key: string(c.Input), Nontrivial: nontrivial, Obs: obs}, nil
}
