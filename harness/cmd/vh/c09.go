package main

// C09 - "no exported function panics or corrupts memory on untrusted input": the hostile stream.
// Every exported function of onflow/crypto (root package, hash, random) that takes byte strings,
// lengths, indices or lists is called under recover() with hostile arguments, ONE call per case
// (DKG / inspector / hasher / PRG: one scenario per case, only the LAST call is observed), and the
// outcome class is recorded.  Coq term of a case:
//     mkCase "<api>" [facts] "<skel>" [env] "<obs>"
//
// FIELDS
//   api   exported function or method that was called (Go style; "hash." / "random." prefix for those
//         packages; methods as "<type>.<Method>" with the concrete type of the sources).
//   facts integer facts about the arguments and the situation (listed below, API by API).  Convention:
//         the fact named after a byte-slice / string / list parameter is its LENGTH, after an integer
//         or enum parameter its VALUE (never clamped: MinInt64 is (-9223372036854775808)), after an
//         interface / callback parameter 1 (non-nil) or 0 (nil).  Derived facts contain a dot.
//         ("nil.iface", 1) is present iff a nil interface value (key, hasher, processor) or nil callback
//         was passed, directly or as a list element: documented exception, the call may panic.
//         Facts listed under "post:" are observed AFTER the call and come last.
//   skel  key of Generated/RiskSkel.v (risk_table) of the function that validates the call, "" if none.
//   env   known entries of that skeleton's environment: slice name -> length, integer name -> value,
//         interface name -> 0/1, receiver fields ("s.size", "s.running", "pk.isIdentity" ...), and oracle
//         entries whose value is certain ("ok:=sk.(*prKeyBLSBLS12381)" = result of the type assertion,
//         "msg[0]" = first message byte, "nil?s.thresholdSignature").  Only entries known for sure.
//   obs   "ok" | "true" | "false" | "err-invalid-inputs" | "err-invalid-signature" | "err-not-bls-key" |
//         "err-nil-hasher" | "err-hasher-size" | "err-empty-list" | "err-duplicated-signer" |
//         "err-not-enough-shares" | "err-dkg-failure" | "err-dkg-transition" | "err-other" |
//         "PANIC: <message, double quotes removed, non-ASCII replaced by ?, at most 80 characters>".
//         The error predicates are tried in the order above.  Functions without error or verdict: "ok".
//         "PANIC: (setup) ..." = a panic while building valid material or bringing an instance to its phase
//         (never expected).
//
// COMMON DERIVED FACTS
//   list of public keys under parameter P (pks, keys, keysToRemove, sharePublicKeys):
//       (P, n) (P.nonbls, number of elements that are not *pubKeyBLSBLS12381: ECDSA keys and nil elements)
//       (P.firstnonbls, index of the first one or -1) (P.nil, number of nil elements)
//       (P.identity, number of identity BLS keys)
//   list of signatures under parameter P (sigs, shares):
//       (P, n) (P.badlen, number of elements whose length is not 48) (P.firstbad, index of the first or -1)
//       (P.nil, number of nil elements)
//   hasher parameter P (kmac, alg): (P, 0|1) (P.size, Size() of the hasher, -1 for nil)
//   "X.genuine" = 1 iff X is, at its exact length, a signature really produced by the matching private
//       key(s) on the same data with the same hasher (so that a "true" verdict is legitimate);
//       a "true" verdict with X.genuine = 0 is only legitimate for SignatureFormatCheck-like predicates.
//
// API BY API (api: facts | skel [env])
//   SigningAlgorithm.String: f | "SigningAlgorithm.String" [f]
//   hash.HashingAlgorithm.String: h | same [h]
//   E2PolynomialImages (nil, nil only): out A | same [out A]
//   DecodePrivateKey / DecodePublicKey: algo input;  DecodePublicKeyCompressed: algo data
//       skel algo=1: "blsBLS12381Algo.decodePrivateKey" [privateKeyBytes] / ".decodePublicKey" [publicKeyBytes] /
//       ".decodePublicKeyCompressed" [publicKeyBytes];  algo=2,3: "" [];  otherwise the API itself [algo input|data]
//   GeneratePrivateKey: algo seed | algo=1 "blsBLS12381Algo.generatePrivateKey" [ikm]; 2,3
//       "ecdsaAlgo.generatePrivateKey" [seed]; otherwise "GeneratePrivateKey" [algo seed]
//   SignatureFormatCheck: algo s s.genuine | same [algo s]
//   prKeyBLSBLS12381.Sign: key.algo(=1) data kmac kmac.size | same [data kmac]
//   prKeyECDSA.Sign: key.algo(2|3) data alg alg.size | same [data alg]
//   pubKeyBLSBLS12381.Verify: key.algo s data kmac kmac.size s.genuine pk.isIdentity | same [s data kmac pk.isIdentity]
//   pubKeyECDSA.Verify: key.algo sig data alg alg.size sig.genuine pk.isIdentity(=0) | same [sig data alg]
//   BLSGeneratePOP: sk.nonbls | same ["ok:=sk.(*prKeyBLSBLS12381)"]
//   BLSVerifyPOP: pk.nonbls pk.isIdentity s s.genuine | same [s "ok:=pk.(*pubKeyBLSBLS12381)"]
//   AggregateBLSSignatures: sigs.* | same [sigs]
//   AggregateBLSPrivateKeys: keys keys.nonbls keys.firstnonbls keys.nil | same [keys]
//   AggregateBLSPublicKeys: keys.* | same [keys]
//   RemoveBLSPublicKeys: aggKey.nonbls keysToRemove.* | same [keysToRemove "ok:=aggKey.(*pubKeyBLSBLS12381)"]
//   VerifyBLSSignatureOneMessage: pks.* s message kmac kmac.size s.genuine | same [pks s message kmac]
//       (s.genuine: aggregate of the genuine signatures of all non-identity keys, all keys being BLS, hasher "xof")
//   VerifyBLSSignatureManyMessages: pks.* s messages kmac(=number of hashers) kmac.nil kmac.badsize
//       (non-nil, Size() != 128) kmac.firstbad (first nil or bad-size hasher, -1) s.genuine | same [pks s messages kmac]
//   BatchVerifyBLSSignaturesOneMessage: pks.* sigs.* message kmac kmac.size; post: ret (length of the returned
//       slice) ret.true (number of true verdicts) | same [pks sigs message kmac].  obs "true" iff no error and
//       all verdicts true (and at least one), "false" iff no error otherwise.
//   IsBLSSignatureIdentity: s s.identity (1 iff s = c0 00^47) | same [s]
//   SPOCKProve: sk.nonbls data kmac kmac.size | same [data kmac]
//   SPOCKVerifyAgainstData: pk.nonbls pk.isIdentity proof data kmac kmac.size proof.genuine | same [proof data kmac]
//   SPOCKVerify: pk1.nonbls pk2.nonbls pk1.isIdentity pk2.isIdentity proof1 proof2 proofs.genuine | same
//       [proof1 proof2 "ok1:=pk1.(*pubKeyBLSBLS12381)" "ok2:=..." blsPk1.isIdentity blsPk2.isIdentity]
//   BLSThresholdKeyGen: size threshold seed | same [size threshold seed]
//   EnoughShares: threshold sharesNumber | same [threshold sharesNumber]
//   BLSReconstructThresholdSignature: size threshold shares.* signers shares.badlen.head (bad lengths among
//       positions i <= threshold) signers.firstoor (index of the first signer outside [0,size), -1)
//       signers.firstdup (index of the first repeated signer value, -1) | same [size threshold shares signers]
//   NewBLSThresholdSignatureInspector: groupPublicKey.nonbls sharePublicKeys.* threshold message dsTag |
//       same [sharePublicKeys threshold message dsTag]
//   NewBLSThresholdSignatureParticipant: the same + myIndex myPrivateKey.nonbls myPrivateKey.match (1 iff the
//       private key is the one of sharePublicKeys[myIndex]) | same [... myIndex "ok:=myPrivateKey.(*prKeyBLSBLS12381)"]
//   blsThresholdSignatureInspector.{VerifyShare,HasShare,TrustedAdd,VerifyAndAdd,ThresholdSignature,EnoughShares}
//       (valid inspector of a (size, threshold) group; "pre" shares were added with TrustedAdd before the call):
//       size threshold pre (number of shares in the pool) pre.badlen (of which length != 48) pre.forged (48 bytes
//       but not the genuine share of that signer) [orig pre.has (1 iff orig is in range and in the pool)]
//       [share share.genuine (genuine share of signer orig)] |
//       same [s.size s.threshold s.publicKeyShares s.shares orig share] (ThresholdSignature: + s.thresholdSignature = 0,
//       "nil?s.thresholdSignature" = 1).  VerifyAndAdd: the verdict is the FIRST boolean.
//   hash.NewKMAC_128: key customizer outputSize | same [key customizer outputSize]
//   hash.ComputeSHA3_256 / hash.ComputeSHA2_256: result(=32) data | same [result data]
//   hash.<type>.<Write|ComputeHash|SumHash|Reset|Size>, type in sha2_256Algo, sha2_384Algo, spongeState (SHA3-256,
//       SHA3-384, Keccak-256), kmac128; the observed call is the last of a sequence on a fresh hasher:
//       algo (HashingAlgorithm of the hasher) size (Size()) pre (number of earlier calls) pre.sum (SumHash calls since
//       the last Reset) pre.compute (ComputeHash calls) pre.written (bytes written since the last Reset/ComputeHash)
//       [p (Write) | data (ComputeHash)] | "hash.<type>.<Method>" when it has a skeleton, else "" ;
//       env [p|data, k.outputSize (kmac128), d.rate/d.outputLen or s.rate/s.outputLen (spongeState)]
//   random.NewChacha20PRG: seed customizer | same [seed customizer]
//   random.RestoreChacha20PRG: stateBytes counter (LE64 of bytes 44..51 when 52 bytes, else -1) | same [stateBytes]
//   random.chachaCore.Read / random.genericPRG.{UintN,Permutation,SubPermutation,Shuffle,Samples} on a valid PRG:
//       restored (1 iff built with RestoreChacha20PRG) counter (bytes already output) then
//       Read: buffer | [buffer c.bytesCounter];  UintN: n (unsigned) | [n];  Permutation: n | [n];
//       SubPermutation: n m | [n m];  Shuffle: n swap | [n swap];  Samples: n m swap | [n m swap]
//   NewFeldmanVSS / NewFeldmanVSSQual: size threshold myIndex dealerIndex processor | "newDKGCommon"
//       [size threshold myIndex dealerIndex processor];  NewJointFeldman: size threshold myIndex processor |
//       "newDKGCommon" [... dealerIndex = 0]
//   DKG scenarios: <type>.<HandleBroadcastMsg|HandlePrivateMsg|ForceDisqualify|Start|End|NextTimeout>, type in
//       feldmanVSSstate (proto 0), feldmanVSSQualState (1; its Start is feldmanVSSstate.Start), JointFeldmanState (2);
//       plain Feldman VSS NextTimeout is dkgCommon.NextTimeout:
//       proto size threshold myIndex dealerIndex (-1 for Joint) phase (0 before Start, 1 started, 2 one timeout,
//       3 two timeouts, 4 after End) warm (1 iff the honest vector and share of the dealer(s) were delivered right
//       after Start) pre (number of extra calls made after reaching the phase, before the observed call: the
//       two-call scenarios) running (Running() just before the call) then
//       handlers: orig msg tag (first byte, -1 if empty) idx (second byte, -1) bcast (1 HandleBroadcastMsg, 0 private);
//       ForceDisqualify: participant;  Start: seed;
//       post: cb.privatesend cb.broadcast cb.disqualify cb.flag (DKGProcessor callbacks made by THAT call)
//       | same [s.size s.threshold s.myIndex, s.dealerIndex s.running (proto 0,1) or s.jointRunning (proto 2),
//       orig msg "msg[0]" | participant | seed]

import (
	"encoding/binary"
	"encoding/json"
	"fmt"
	"math"
	"math/big"
	"math/rand/v2"
	"runtime/debug"
	"strconv"
	"strings"
	"sync"

	"github.com/onflow/crypto"
	"github.com/onflow/crypto/hash"
	"github.com/onflow/crypto/random"
)

const (
	c09Max = 1 << 16 // no byte string, list or allocation-size argument is ever larger
	// c09Finding is the key of the recorded known finding (known_findings.txt): a generator restored
	// within reach of the 2^38-byte keystream limit panics inside golang.org/x/crypto/chacha20
	// ("chacha20: counter overflow") on the read that crosses it.
	c09Finding = "prg-counter-overflow"
)

// ---- case input (JSON) ----
// f selects the handler (an API name or a scenario family); the meaning of the other fields
// depends on f and is given at each handler.  Byte strings are written as "byte specs"
// (c09Bytes), keys as "key specs" (c09Priv / c09Pub), hashers as "hasher specs" (c09Hasher).
type c09In struct {
	F   string   `json:"f"`
	A   []int64  `json:"a,omitempty"`   // integer arguments
	U   []uint64 `json:"u,omitempty"`   // unsigned arguments (UintN)
	B   []string `json:"b,omitempty"`   // byte-string arguments (byte specs)
	K   []string `json:"k,omitempty"`   // key / callback specs
	L   []string `json:"l,omitempty"`   // first list argument  (["<nil>"] = nil list, absent = empty non-nil list)
	M   []string `json:"m,omitempty"`   // second list argument
	HL  []string `json:"hl,omitempty"`  // list of hasher specs
	H   string   `json:"h,omitempty"`   // hasher spec
	S   uint64   `json:"s,omitempty"`   // seed of derived material (threshold keys, DKG seeds, PRG seed)
	Ops []string `json:"ops,omitempty"` // method name / op sequence
	D   *c09Dkg  `json:"d,omitempty"`   // DKG scenario
	// Tag: "finding" = probe of the recorded known finding prg-counter-overflow (the case carries
	// Case.Finding; the oracle flags ONLY the panic "chacha20: counter overflow" on it);
	// "shadow" = the same input again without Case.Finding: the oracle tolerates exactly that
	// panic there and flags any other one.  Facts ("finding.prg-counter-overflow",1) resp.
	// ("shadow.prg-counter-overflow",1).
	Tag string `json:"tag,omitempty"`
}

type c09DkgOp struct {
	Op   string `json:"op"`             // bcast | priv | force | start | end | timeout
	Orig int64  `json:"orig,omitempty"` // origin / participant
	Msg  string `json:"msg,omitempty"`  // byte spec of the message / seed
}

type c09Dkg struct {
	Proto   int        `json:"proto"` // 0 FeldmanVSS, 1 FeldmanVSSQual, 2 JointFeldman
	N       int        `json:"n"`
	T       int        `json:"t"`
	My      int        `json:"my"`
	Dealer  int        `json:"dealer"` // -1 for JointFeldman
	Phase   int        `json:"phase"`  // 0 before Start, 1 started, 2 one timeout, 3 two timeouts, 4 after End
	Warm    bool       `json:"warm,omitempty"`
	NilProc bool       `json:"nilproc,omitempty"`
	Pre     []c09DkgOp `json:"pre,omitempty"` // calls made after reaching the phase and before the observed call
	Op      c09DkgOp   `json:"call"`
}

// ---- result builder ----
type c09KV struct{ K, V string }

type c09Res struct {
	api, skel, obs string
	facts, env     []c09KV
	called         bool
	nilIface       bool
}

func c09Z(v int64) string {
	if v < 0 {
		return fmt.Sprintf("(%d)", v)
	}
	return strconv.FormatInt(v, 10)
}

func (r *c09Res) F(k string, v int64) { r.facts = append(r.facts, c09KV{k, c09Z(v)}) }
func (r *c09Res) FU(k string, v uint64) {
	r.facts = append(r.facts, c09KV{k, strconv.FormatUint(v, 10)})
}
func (r *c09Res) E(k string, v int64)   { r.env = append(r.env, c09KV{k, c09Z(v)}) }
func (r *c09Res) EU(k string, v uint64) { r.env = append(r.env, c09KV{k, strconv.FormatUint(v, 10)}) }
func c09b2i(b bool) int64 {
	if b {
		return 1
	}
	return 0
}

func c09Clean(msg string) string {
	var sb strings.Builder
	for _, c := range msg {
		switch {
		case c == '"':
		case c < 32 || c > 126:
			sb.WriteByte('?')
		default:
			sb.WriteRune(c)
		}
	}
	s := sb.String()
	if len(s) > 80 {
		s = s[:80]
	}
	return s
}

// the observed call: f returns the outcome class
func (r *c09Res) call(f func() string) {
	if r.nilIface {
		r.F("nil.iface", 1)
	}
	r.called = true
	var cls string
	p, msg := catch(func() { cls = f() })
	if p {
		r.obs = "PANIC: " + c09Clean(msg)
	} else {
		r.obs = cls
	}
}

func c09ErrClass(err error) string {
	switch {
	case err == nil:
		return "ok"
	case crypto.IsInvalidInputsError(err):
		return "err-invalid-inputs"
	case crypto.IsInvalidSignatureError(err):
		return "err-invalid-signature"
	case crypto.IsNotBLSKeyError(err):
		return "err-not-bls-key"
	case crypto.IsNilHasherError(err):
		return "err-nil-hasher"
	case crypto.IsInvalidHasherSizeError(err):
		return "err-hasher-size"
	case crypto.IsBLSAggregateEmptyListError(err):
		return "err-empty-list"
	case crypto.IsDuplicatedSignerError(err):
		return "err-duplicated-signer"
	case crypto.IsNotEnoughSharesError(err):
		return "err-not-enough-shares"
	case crypto.IsDKGFailureError(err):
		return "err-dkg-failure"
	case crypto.IsDKGInvalidStateTransitionError(err):
		return "err-dkg-transition"
	}
	return "err-other"
}

func c09BoolClass(b bool, err error) string {
	if err != nil {
		return c09ErrClass(err)
	}
	if b {
		return "true"
	}
	return "false"
}

func (r *c09Res) coq() string {
	kv := func(l []c09KV) string {
		it := make([]string, len(l))
		for i, p := range l {
			it[i] = fmt.Sprintf("(%s, %s)", cqs(p.K), p.V)
		}
		return cqlist(it)
	}
	return fmt.Sprintf("mkCase %s %s %s %s %s", cqs(r.api), kv(r.facts), cqs(r.skel), kv(r.env), cqs(r.obs))
}

// ---- derived material ----
func c09SeedBytes(seed uint64, n int) []byte {
	return rbytes(rand.New(rand.NewPCG(seed, 0xc09c09c09)), n)
}

var c09SkCache = map[string]crypto.PrivateKey{}

// a key spec is "<base>" or "<base>@<route>": base names the key VALUE ("nil" | "id" | "bls.<seed>" | "nbls.<seed>"
// (the negation r - sk of bls.<seed>) | "p256.<seed>" | "k1.<seed>"), route the constructor the OBJECT comes from
// (c09Priv / c09Pub).  Every route yields the same key value as the base.
func c09Base(spec string) (string, string) {
	if i := strings.IndexByte(spec, '@'); i >= 0 {
		return spec[:i], spec[i+1:]
	}
	return spec, ""
}

func c09KeyAlgo(spec string) int {
	spec, _ = c09Base(spec)
	switch {
	case spec == "id" || strings.HasPrefix(spec, "bls.") || strings.HasPrefix(spec, "nbls."):
		return 1
	case strings.HasPrefix(spec, "p256."):
		return 2
	case strings.HasPrefix(spec, "k1."):
		return 3
	}
	return 0
}

// the identity BLS public key (through any route)
func c09IsID(spec string) bool { b, _ := c09Base(spec); return b == "id" }

// a BLS key whose private key the harness has (through any route)
func c09IsGen(spec string) bool {
	b, _ := c09Base(spec)
	return strings.HasPrefix(b, "bls.") || strings.HasPrefix(b, "nbls.")
}

func c09SameKey(a, b string) bool { x, _ := c09Base(a); y, _ := c09Base(b); return x == y }

var c09BlsR, _ = new(big.Int).SetString("73eda753299d7d483339d80809a1d80553bda402fffe5bfeffffffff00000001", 16)

// key specs: "nil" | "bls.<seed>" | "p256.<seed>" | "k1.<seed>" (GeneratePrivateKey on 32 bytes derived
// from the seed) | "nbls.<seed>" (DecodePrivateKey of r - sk); public keys also "id" (IdentityBLSPublicKey).
// private-key routes: "@dec" (DecodePrivateKey of the encoding), "@agg" (AggregateBLSPrivateKeys of the key alone)
func c09Priv(spec string) (crypto.PrivateKey, error) {
	if spec == "nil" {
		return nil, nil
	}
	base, route := c09Base(spec)
	sk, ok := c09SkCache[base]
	if !ok {
		a := c09KeyAlgo(base)
		i := strings.IndexByte(base, '.')
		if a == 0 || base == "id" || i < 0 {
			return nil, fmt.Errorf("bad private key spec %q", spec)
		}
		seed, err := strconv.ParseUint(base[i+1:], 10, 64)
		if err != nil {
			return nil, err
		}
		if strings.HasPrefix(base, "nbls.") {
			pos, err := c09Priv(base[1:])
			if err != nil {
				return nil, err
			}
			neg := new(big.Int).Sub(c09BlsR, new(big.Int).SetBytes(pos.Encode()))
			sk, err = crypto.DecodePrivateKey(crypto.BLSBLS12381, neg.FillBytes(make([]byte, 32)))
			if err != nil {
				return nil, err
			}
		} else {
			sk, err = crypto.GeneratePrivateKey(crypto.SigningAlgorithm(a), c09SeedBytes(seed, 32))
			if err != nil {
				return nil, err
			}
		}
		c09SkCache[base] = sk
	}
	switch route {
	case "":
		return sk, nil
	case "dec":
		return crypto.DecodePrivateKey(sk.Algorithm(), sk.Encode())
	case "agg":
		return crypto.AggregateBLSPrivateKeys([]crypto.PrivateKey{sk})
	}
	return nil, fmt.Errorf("bad private key route in %q", spec)
}

// public-key routes (a FRESH object every time, nothing cached in it yet): "" (PublicKey() of the private key, resp.
// IdentityBLSPublicKey), "@dec" (DecodePublicKey of Encode), "@decc" (DecodePublicKeyCompressed of EncodeCompressed),
// "@agg" (AggregateBLSPublicKeys of the key alone), "@aggid" (of the key and the identity key), "@rem" (RemoveBLSPublicKeys
// of another key from the aggregate of both); for "id" also "@cancel" (aggregate of a key and its negation)
func c09Pub(spec string) (crypto.PublicKey, error) {
	if spec == "nil" {
		return nil, nil
	}
	base, route := c09Base(spec)
	var pk crypto.PublicKey
	if base == "id" {
		pk = crypto.IdentityBLSPublicKey()
	} else {
		sk, err := c09Priv(base)
		if err != nil {
			return nil, err
		}
		pk = sk.PublicKey()
	}
	other := func() (crypto.PublicKey, error) { return c09Pub("bls.4242") }
	switch route {
	case "":
		return pk, nil
	case "dec":
		return crypto.DecodePublicKey(pk.Algorithm(), pk.Encode())
	case "decc":
		return crypto.DecodePublicKeyCompressed(pk.Algorithm(), pk.EncodeCompressed())
	case "agg":
		return crypto.AggregateBLSPublicKeys([]crypto.PublicKey{pk})
	case "aggid":
		return crypto.AggregateBLSPublicKeys([]crypto.PublicKey{crypto.IdentityBLSPublicKey(), pk})
	case "rem":
		o, err := other()
		if err != nil {
			return nil, err
		}
		agg, err := crypto.AggregateBLSPublicKeys([]crypto.PublicKey{o, pk})
		if err != nil {
			return nil, err
		}
		return crypto.RemoveBLSPublicKeys(agg, []crypto.PublicKey{o})
	case "cancel":
		if base != "id" {
			break
		}
		a, err := c09Pub("bls.4243")
		if err != nil {
			return nil, err
		}
		b, err := c09Pub("nbls.4243")
		if err != nil {
			return nil, err
		}
		return crypto.AggregateBLSPublicKeys([]crypto.PublicKey{a, b})
	}
	return nil, fmt.Errorf("bad public key route in %q", spec)
}

const c09Tag = "c09-tag"

// hasher specs: "nil" | "xof" (NewExpandMsgXOFKMAC128) | "kmac<N>" (KMAC128, 16-byte key, output N) |
// "sha2_256" | "sha2_384" | "sha3_256" | "sha3_384" | "keccak"
func c09Hasher(spec string) (hash.Hasher, error) {
	switch spec {
	case "nil":
		return nil, nil
	case "xof":
		return crypto.NewExpandMsgXOFKMAC128(c09Tag), nil
	case "sha2_256":
		return hash.NewSHA2_256(), nil
	case "sha2_384":
		return hash.NewSHA2_384(), nil
	case "sha3_256":
		return hash.NewSHA3_256(), nil
	case "sha3_384":
		return hash.NewSHA3_384(), nil
	case "keccak":
		return hash.NewKeccak_256(), nil
	}
	if strings.HasPrefix(spec, "kmac") {
		n, err := strconv.Atoi(spec[4:])
		if err != nil || n < 0 || n > c09Max {
			return nil, fmt.Errorf("bad hasher spec %q", spec)
		}
		h, err := hash.NewKMAC_128(c09SeedBytes(7, 16), nil, n)
		if err != nil {
			return nil, err
		}
		return h, nil
	}
	return nil, fmt.Errorf("bad hasher spec %q", spec)
}

func (r *c09Res) hasherFacts(name string, h hash.Hasher) {
	if h == nil {
		r.F(name, 0)
		r.F(name+".size", -1)
		r.nilIface = true
		return
	}
	r.F(name, 1)
	r.F(name+".size", int64(h.Size()))
}

// genuine BLS signature of the key bls.<seed> on msg under the "xof" hasher
var c09SigCache = map[string][]byte{}

func c09Genuine(keyspec string, msg []byte, hspec string) ([]byte, error) {
	ck := ""
	if len(msg) <= 64 {
		ck = keyspec + "|" + hspec + "|" + hx(msg)
		if s, ok := c09SigCache[ck]; ok {
			return append([]byte{}, s...), nil
		}
	}
	kb, _ := c09Base(keyspec) // the key value signs; the route of a public-key spec has no private counterpart
	sk, err := c09Priv(kb)
	if err != nil || sk == nil {
		return nil, fmt.Errorf("no key for a genuine signature: %q %v", keyspec, err)
	}
	h, err := c09Hasher(hspec)
	if err != nil {
		return nil, err
	}
	s, err := sk.Sign(msg, h)
	if err != nil {
		return nil, err
	}
	if ck != "" {
		c09SigCache[ck] = append([]byte{}, s...)
	}
	return s, nil
}

// ---- byte specs ----
// spec   := "nil" | atoms [ "/" LEN ]          ("/LEN": truncate or zero-extend to LEN bytes)
// atoms  := atom { "+" atom }
// atom   := "e" (empty) | "z<N>" (zeros) | "o<N>" (0xff) | "r<N>.<seed>" (pseudo-random) | "x<hex>" |
//
//	"g<k>.<seed>" (k valid G2 encodings: public keys of bls.<seed>, bls.<seed+1>, ...) |
//	"s.<seed>" (valid non-zero scalar: encoding of the private key bls.<seed>) |
//	"K:<keyspec>" (Encode of the public key) | "C:<keyspec>" (EncodeCompressed) |
//	"P:<keyspec>" (Encode of the private key) | a handler-specific atom (upper case, see handlers)
type c09Resolver func(atom string) ([]byte, bool, error)

func c09Atom(a string, res c09Resolver) ([]byte, error) {
	if res != nil {
		if b, ok, err := res(a); err != nil {
			return nil, err
		} else if ok {
			return b, nil
		}
	}
	num := func(s string) (int, error) {
		n, err := strconv.Atoi(s)
		if err != nil || n < 0 || n > c09Max {
			return 0, fmt.Errorf("bad size in byte spec atom %q", a)
		}
		return n, nil
	}
	switch {
	case a == "e" || a == "nil":
		return []byte{}, nil
	case strings.HasPrefix(a, "K:"), strings.HasPrefix(a, "C:"):
		pk, err := c09Pub(a[2:])
		if err != nil || pk == nil {
			return nil, fmt.Errorf("bad atom %q: %v", a, err)
		}
		if a[0] == 'C' {
			return pk.EncodeCompressed(), nil
		}
		return pk.Encode(), nil
	case strings.HasPrefix(a, "P:"):
		sk, err := c09Priv(a[2:])
		if err != nil || sk == nil {
			return nil, fmt.Errorf("bad atom %q: %v", a, err)
		}
		return sk.Encode(), nil
	case strings.HasPrefix(a, "s."):
		return c09Atom("P:bls."+a[2:], nil)
	case strings.HasPrefix(a, "z"), strings.HasPrefix(a, "o"):
		n, err := num(a[1:])
		if err != nil {
			return nil, err
		}
		b := make([]byte, n)
		if a[0] == 'o' {
			for i := range b {
				b[i] = 0xff
			}
		}
		return b, nil
	case strings.HasPrefix(a, "x"):
		return hexDecode(a[1:])
	case strings.HasPrefix(a, "r"), strings.HasPrefix(a, "g"):
		i := strings.IndexByte(a, '.')
		if i < 0 {
			return nil, fmt.Errorf("bad atom %q", a)
		}
		n, err := num(a[1:i])
		if err != nil {
			return nil, err
		}
		seed, err := strconv.ParseUint(a[i+1:], 10, 64)
		if err != nil {
			return nil, err
		}
		if a[0] == 'r' {
			return c09SeedBytes(seed, n), nil
		}
		if n > 512 {
			return nil, fmt.Errorf("too many points in %q", a)
		}
		var out []byte
		for k := 0; k < n; k++ {
			pk, err := c09Pub(fmt.Sprintf("bls.%d", seed+uint64(k)))
			if err != nil {
				return nil, err
			}
			out = append(out, pk.Encode()...)
		}
		return out, nil
	}
	return nil, fmt.Errorf("unknown byte spec atom %q", a)
}

func hexDecode(s string) (b []byte, err error) {
	p, msg := catch(func() { b = unhx(s) })
	if p {
		return nil, fmt.Errorf("bad hex %q: %s", s, msg)
	}
	return b, nil
}

func c09Bytes(spec string, res c09Resolver) ([]byte, error) {
	if spec == "nil" {
		return nil, nil
	}
	size := -1
	if i := strings.LastIndexByte(spec, '/'); i >= 0 {
		n, err := strconv.Atoi(spec[i+1:])
		if err != nil || n < 0 || n > c09Max {
			return nil, fmt.Errorf("bad resize in byte spec %q", spec)
		}
		size, spec = n, spec[:i]
	}
	out := []byte{}
	for _, a := range strings.Split(spec, "+") {
		b, err := c09Atom(a, res)
		if err != nil {
			return nil, err
		}
		out = append(out, b...)
	}
	if size >= 0 {
		if len(out) >= size {
			out = out[:size]
		} else {
			out = append(out, make([]byte, size-len(out))...)
		}
	}
	if len(out) > c09Max {
		return nil, fmt.Errorf("byte spec %q is larger than %d bytes", spec, c09Max)
	}
	return out, nil
}

func (in *c09In) b(i int, res c09Resolver) ([]byte, error) {
	if i >= len(in.B) {
		return nil, fmt.Errorf("%s: missing byte argument %d", in.F, i)
	}
	return c09Bytes(in.B[i], res)
}
func (in *c09In) a(i int) (int64, error) {
	if i >= len(in.A) {
		return 0, fmt.Errorf("%s: missing integer argument %d", in.F, i)
	}
	return in.A[i], nil
}
func (in *c09In) k(i int) (string, error) {
	if i >= len(in.K) {
		return "", fmt.Errorf("%s: missing key argument %d", in.F, i)
	}
	return in.K[i], nil
}

// list argument: (items, isNil)
func c09List(l []string) ([]string, bool) {
	if len(l) == 1 && l[0] == "<nil>" {
		return nil, true
	}
	return l, false
}

// allocation-size guard for integer arguments that the callee uses as a size
func c09Guard(v int64) error {
	if v > c09Max {
		return fmt.Errorf("refusing allocation-size argument %d > %d", v, c09Max)
	}
	return nil
}

// list of public keys with its facts under the parameter name
func (r *c09Res) pubList(name string, l []string) ([]crypto.PublicKey, error) {
	items, isNil := c09List(l)
	var pks []crypto.PublicKey
	if !isNil {
		pks = make([]crypto.PublicKey, 0, len(items))
	}
	nonbls, first, nils, ident := 0, -1, 0, 0
	for i, s := range items {
		pk, err := c09Pub(s)
		if err != nil {
			return nil, err
		}
		pks = append(pks, pk)
		if c09KeyAlgo(s) != 1 {
			nonbls++
			if first < 0 {
				first = i
			}
		}
		if s == "nil" {
			nils++
			r.nilIface = true
		}
		if s == "id" {
			ident++
		}
	}
	r.F(name, int64(len(pks)))
	r.F(name+".nonbls", int64(nonbls))
	r.F(name+".firstnonbls", int64(first))
	r.F(name+".nil", int64(nils))
	r.F(name+".identity", int64(ident))
	return pks, nil
}

// list of signatures with its facts under the parameter name
func (r *c09Res) sigList(name string, l []string, res c09Resolver) ([]crypto.Signature, error) {
	items, isNil := c09List(l)
	var sigs []crypto.Signature
	if !isNil {
		sigs = make([]crypto.Signature, 0, len(items))
	}
	bad, first, nils := 0, -1, 0
	for i, s := range items {
		b, err := c09Bytes(s, res)
		if err != nil {
			return nil, err
		}
		sigs = append(sigs, b)
		if len(b) != 48 {
			bad++
			if first < 0 {
				first = i
			}
		}
		if b == nil {
			nils++
		}
	}
	r.F(name, int64(len(sigs)))
	r.F(name+".badlen", int64(bad))
	r.F(name+".firstbad", int64(first))
	r.F(name+".nil", int64(nils))
	return sigs, nil
}

// ---- registration and runner ----
var c09Once sync.Once

type c09Handler func(in *c09In, r *c09Res) error

var c09Handlers = map[string]c09Handler{}

func init() {
	register(&Prop{
		ID:        "C09",
		Header:    "From Coq Require Import ZArith List String.\nFrom V Require Import Corr.C09Corr.\nImport ListNotations.\nOpen Scope string_scope.\nOpen Scope Z_scope.\n",
		Check:     "bad_ids",
		PropCheck: "prop_bad_ids",
		Gen:       c09Gen,
		Run:       c09Run,
		Rule:      "hostile stream: every exported function taking byte strings, lengths, indices or lists is called under recover() with nil / empty / one-short / exact / one-long / 64 KiB byte strings, negative / zero / boundary / huge integers, undefined enum values, mismatched and holed lists, non-BLS and nil keys, and every DKG handler with every tag x length x origin at every protocol phase; audit families (c09x.go): key OBJECTS from every constructor (PublicKey(), DecodePublicKey, DecodePublicKeyCompressed, aggregation alone / with the identity, removal, cancelling pair; DecodePrivateKey, AggregateBLSPrivateKeys) used in every API that takes a key, Equals between all kinds; cancelling / doubled keys and signatures in every aggregate and multi-signature API; several defects in one call (signature length x hasher x key kind products, random mixtures of bad keys / signatures / hashers / messages / signers / parameters); integers valid only after narrowing to 8, 16, 32 bits (256+k, -256+k, 2^16+k, +-2^32+k, MinInt64+k) through every index / size / threshold argument incl. DKG origins per phase; lists of 255, 256, 257, 300 entries and groups of 254; inspector histories (TrustedAdd / VerifyAndAdd / VerifyShare / ThresholdSignature preludes incl. failed calls and repeated ThresholdSignature, object built by either constructor), VerifyThresholdSignature, SignShare, NewExpandMsgXOFKMAC128 with hostile tags, Hash.Equal / Hex / String, Signature.String / Bytes, EncodePermutation, PRG read histories; DKG message SEQUENCES with the dealers' real vectors, shares and complaint answers: every order of up to three of eight message kinds followed by the rest of the run, and random sequences (a panic anywhere in the sequence is reported); one observed call per case; a case is non-trivial when the call was made; distinct by the JSON input",
		Shard:     720,
	})
}

func c09Run(c Case) (Result, error) {
	c09Once.Do(func() { debug.SetMemoryLimit(2 << 30) })
	var in c09In
	if err := json.Unmarshal(c.Input, &in); err != nil {
		return Result{}, err
	}
	h, ok := c09Handlers[in.F]
	if !ok {
		return Result{}, fmt.Errorf("C09: unknown family %q", in.F)
	}
	r := &c09Res{api: in.F}
	var herr error
	p, msg := catch(func() { herr = h(&in, r) })
	if p {
		// a panic outside the observed call: while building the (valid) material or bringing
		// an instance to its phase.  Never expected; reported as a panic of the case.
		if r.nilIface && !r.called {
			r.F("nil.iface", 1)
		}
		r.called = true
		r.obs = "PANIC: (setup) " + c09Clean(msg)
		if len(r.obs) > 87 {
			r.obs = r.obs[:87]
		}
	} else if herr != nil {
		return Result{}, fmt.Errorf("C09 %s: %v", in.F, herr)
	}
	if !r.called {
		return Result{}, fmt.Errorf("C09 %s: handler made no call", in.F)
	}
	obs := map[string]any{"api": r.api, "obs": r.obs, "skel": r.skel}
	fm := map[string]string{}
	for _, f := range r.facts {
		fm[f.K] = f.V
	}
	obs["facts"] = fm
	return Result{Coq: r.coq(), Key: string(c.Input), Nontrivial: r.called, Obs: obs}, nil
}

// =====================================================================================
// handlers, part 1: enums, key decoding / generation, signing, verification, PoP
// =====================================================================================
func init() {
	// a = [value]
	c09Handlers["SigningAlgorithm.String"] = func(in *c09In, r *c09Res) error {
		v, err := in.a(0)
		if err != nil {
			return err
		}
		r.F("f", v)
		r.skel = "SigningAlgorithm.String"
		r.E("f", v)
		r.call(func() string { _ = crypto.SigningAlgorithm(v).String(); return "ok" })
		return nil
	}
	c09Handlers["hash.HashingAlgorithm.String"] = func(in *c09In, r *c09Res) error {
		v, err := in.a(0)
		if err != nil {
			return err
		}
		r.F("h", v)
		r.skel = "hash.HashingAlgorithm.String"
		r.E("h", v)
		r.call(func() string { _ = hash.HashingAlgorithm(v).String(); return "ok" })
		return nil
	}
	// a = [algo], b = [input]
	for _, name := range []string{"DecodePrivateKey", "DecodePublicKey", "DecodePublicKeyCompressed"} {
		name := name
		c09Handlers[name] = func(in *c09In, r *c09Res) error {
			algo, err := in.a(0)
			if err != nil {
				return err
			}
			b, err := in.b(0, nil)
			if err != nil {
				return err
			}
			par := "input"
			if name == "DecodePublicKeyCompressed" {
				par = "data"
			}
			r.F("algo", algo)
			r.F(par, int64(len(b)))
			switch {
			case algo == 1 && name == "DecodePrivateKey":
				r.skel = "blsBLS12381Algo.decodePrivateKey"
				r.E("privateKeyBytes", int64(len(b)))
			case algo == 1 && name == "DecodePublicKey":
				r.skel = "blsBLS12381Algo.decodePublicKey"
				r.E("publicKeyBytes", int64(len(b)))
			case algo == 1:
				r.skel = "blsBLS12381Algo.decodePublicKeyCompressed"
				r.E("publicKeyBytes", int64(len(b)))
			case algo == 2 || algo == 3:
				r.skel = "" // ECDSA decoders: lengths are compared with opaque curve parameters
			default:
				r.skel = name
				r.E("algo", algo)
				r.E(par, int64(len(b)))
			}
			r.call(func() string {
				var err error
				switch name {
				case "DecodePrivateKey":
					_, err = crypto.DecodePrivateKey(crypto.SigningAlgorithm(algo), b)
				case "DecodePublicKey":
					_, err = crypto.DecodePublicKey(crypto.SigningAlgorithm(algo), b)
				default:
					_, err = crypto.DecodePublicKeyCompressed(crypto.SigningAlgorithm(algo), b)
				}
				return c09ErrClass(err)
			})
			return nil
		}
	}
	// a = [algo], b = [seed]
	c09Handlers["GeneratePrivateKey"] = func(in *c09In, r *c09Res) error {
		algo, err := in.a(0)
		if err != nil {
			return err
		}
		b, err := in.b(0, nil)
		if err != nil {
			return err
		}
		r.F("algo", algo)
		r.F("seed", int64(len(b)))
		switch algo {
		case 1:
			r.skel = "blsBLS12381Algo.generatePrivateKey"
			r.E("ikm", int64(len(b)))
		case 2, 3:
			r.skel = "ecdsaAlgo.generatePrivateKey"
			r.E("seed", int64(len(b)))
		default:
			r.skel = "GeneratePrivateKey"
			r.E("algo", algo)
			r.E("seed", int64(len(b)))
		}
		r.call(func() string {
			_, err := crypto.GeneratePrivateKey(crypto.SigningAlgorithm(algo), b)
			return c09ErrClass(err)
		})
		return nil
	}
	// a = [algo], b = [s]; atom "G" = genuine signature of p256.1 / k1.1 (by algo; p256.1 otherwise) on 16 bytes under SHA2-256
	c09Handlers["SignatureFormatCheck"] = func(in *c09In, r *c09Res) error {
		algo, err := in.a(0)
		if err != nil {
			return err
		}
		genuine := false
		b, err := in.b(0, func(a string) ([]byte, bool, error) {
			if a != "G" {
				return nil, false, nil
			}
			ks := "p256.1"
			if algo == 3 {
				ks = "k1.1"
			}
			genuine = true
			s, err := c09Genuine(ks, c09SeedBytes(3, 16), "sha2_256")
			return s, true, err
		})
		if err != nil {
			return err
		}
		r.F("algo", algo)
		r.F("s", int64(len(b)))
		r.F("s.genuine", c09b2i(genuine && len(b) == 64))
		r.skel = "SignatureFormatCheck"
		r.E("algo", algo)
		r.E("s", int64(len(b)))
		r.call(func() string {
			return c09BoolClass(crypto.SignatureFormatCheck(crypto.SigningAlgorithm(algo), b))
		})
		return nil
	}
	// k = [private key spec], b = [data], h = hasher
	c09Handlers["Sign"] = func(in *c09In, r *c09Res) error {
		ks, err := in.k(0)
		if err != nil {
			return err
		}
		sk, err := c09Priv(ks)
		if err != nil || sk == nil {
			return fmt.Errorf("Sign needs a key: %v", err)
		}
		data, err := in.b(0, nil)
		if err != nil {
			return err
		}
		h, err := c09Hasher(in.H)
		if err != nil {
			return err
		}
		algo := c09KeyAlgo(ks)
		hp := "kmac"
		if algo == 1 {
			r.api, r.skel = "prKeyBLSBLS12381.Sign", "prKeyBLSBLS12381.Sign"
		} else {
			r.api, r.skel, hp = "prKeyECDSA.Sign", "prKeyECDSA.Sign", "alg"
		}
		r.F("key.algo", int64(algo))
		r.F("data", int64(len(data)))
		r.hasherFacts(hp, h)
		r.E("data", int64(len(data)))
		r.E(hp, c09b2i(h != nil))
		r.call(func() string { _, err := sk.Sign(data, h); return c09ErrClass(err) })
		return nil
	}
	// k = [public key spec], b = [signature, data], h = hasher;
	// atom "G" = genuine signature of the key (bls.1 for "id") on data under the case's hasher ("xof" / "sha2_256" if that fails)
	c09Handlers["Verify"] = func(in *c09In, r *c09Res) error {
		ks, err := in.k(0)
		if err != nil {
			return err
		}
		pk, err := c09Pub(ks)
		if err != nil || pk == nil {
			return fmt.Errorf("Verify needs a key: %v", err)
		}
		data, err := in.b(1, nil)
		if err != nil {
			return err
		}
		h, err := c09Hasher(in.H)
		if err != nil {
			return err
		}
		algo := c09KeyAlgo(ks)
		genuine := false
		sig, err := in.b(0, func(a string) ([]byte, bool, error) {
			if a != "G" {
				return nil, false, nil
			}
			sks := ks
			if c09IsID(ks) {
				sks = "bls.1"
			}
			if s, err := c09Genuine(sks, data, in.H); err == nil {
				genuine = !c09IsID(ks)
				return s, true, nil
			}
			hs := "xof"
			if algo != 1 {
				hs = "sha2_256"
			}
			s, err := c09Genuine(sks, data, hs)
			return s, true, err
		})
		if err != nil {
			return err
		}
		sp, hp := "s", "kmac"
		exact := 48
		if algo == 1 {
			r.api, r.skel = "pubKeyBLSBLS12381.Verify", "pubKeyBLSBLS12381.Verify"
		} else {
			r.api, r.skel, sp, hp, exact = "pubKeyECDSA.Verify", "pubKeyECDSA.Verify", "sig", "alg", 64
		}
		r.F("key.algo", int64(algo))
		r.F(sp, int64(len(sig)))
		r.F("data", int64(len(data)))
		r.hasherFacts(hp, h)
		r.F(sp+".genuine", c09b2i(genuine && len(sig) == exact))
		r.F("pk.isIdentity", c09b2i(c09IsID(ks)))
		r.E(sp, int64(len(sig)))
		r.E("data", int64(len(data)))
		r.E(hp, c09b2i(h != nil))
		if algo == 1 {
			r.E("pk.isIdentity", c09b2i(c09IsID(ks)))
		}
		r.call(func() string { return c09BoolClass(pk.Verify(sig, data, h)) })
		return nil
	}
	// k = [private key spec]
	c09Handlers["BLSGeneratePOP"] = func(in *c09In, r *c09Res) error {
		ks, err := in.k(0)
		if err != nil {
			return err
		}
		sk, err := c09Priv(ks)
		if err != nil {
			return err
		}
		r.F("sk.nonbls", c09b2i(c09KeyAlgo(ks) != 1))
		r.nilIface = ks == "nil"
		r.skel = "BLSGeneratePOP"
		r.E("ok:=sk.(*prKeyBLSBLS12381)", c09b2i(c09KeyAlgo(ks) == 1))
		r.call(func() string { _, err := crypto.BLSGeneratePOP(sk); return c09ErrClass(err) })
		return nil
	}
	// k = [public key spec], b = [s]; atom "POP" = BLSGeneratePOP of the key (bls.1 when the key is not a generated BLS key)
	c09Handlers["BLSVerifyPOP"] = func(in *c09In, r *c09Res) error {
		ks, err := in.k(0)
		if err != nil {
			return err
		}
		pk, err := c09Pub(ks)
		if err != nil {
			return err
		}
		genuine := false
		s, err := in.b(0, func(a string) ([]byte, bool, error) {
			if a != "POP" {
				return nil, false, nil
			}
			sks := ks
			if !c09IsGen(ks) {
				sks = "bls.1"
			} else {
				genuine = true
			}
			sks, _ = c09Base(sks)
			sk, err := c09Priv(sks)
			if err != nil {
				return nil, true, err
			}
			p, err := crypto.BLSGeneratePOP(sk)
			return p, true, err
		})
		if err != nil {
			return err
		}
		r.F("pk.nonbls", c09b2i(c09KeyAlgo(ks) != 1))
		r.F("pk.isIdentity", c09b2i(c09IsID(ks)))
		r.F("s", int64(len(s)))
		r.F("s.genuine", c09b2i(genuine && len(s) == 48))
		r.nilIface = ks == "nil"
		r.skel = "BLSVerifyPOP"
		r.E("s", int64(len(s)))
		r.E("ok:=pk.(*pubKeyBLSBLS12381)", c09b2i(c09KeyAlgo(ks) == 1))
		r.call(func() string { return c09BoolClass(crypto.BLSVerifyPOP(pk, s)) })
		return nil
	}
	// no arguments: E2PolynomialImages(nil, nil) (the slices are of an unexported type)
	c09Handlers["E2PolynomialImages"] = func(in *c09In, r *c09Res) error {
		r.F("out", 0)
		r.F("A", 0)
		r.skel = "E2PolynomialImages"
		r.E("out", 0)
		r.E("A", 0)
		r.call(func() string { crypto.E2PolynomialImages(nil, nil); return "ok" })
		return nil
	}
}

// =====================================================================================
// handlers, part 2: aggregation, multi-signature verification, SPoCK
// =====================================================================================

// resolver of signature atoms in a list context:
//
//	"S<seed>"  genuine signature of bls.<seed> on msg under "xof";  "N<seed>" the same by nbls.<seed> (its inverse)
//	"I<i>"     genuine signature of the i-th key of keys (bls.1 when that key is not a generated BLS key)
func c09SigResolver(msg func(i int) []byte, keys []string) c09Resolver {
	return func(a string) ([]byte, bool, error) {
		if len(a) < 2 || (a[0] != 'S' && a[0] != 'I' && a[0] != 'N') {
			return nil, false, nil
		}
		n, err := strconv.ParseUint(a[1:], 10, 64)
		if err != nil {
			return nil, false, nil
		}
		ks := fmt.Sprintf("bls.%d", n)
		if a[0] == 'N' { // signature of the negated key: the inverse of S<seed>
			ks = fmt.Sprintf("nbls.%d", n)
		}
		mi := 0
		if a[0] == 'I' {
			ks = "bls.1"
			if int(n) < len(keys) && c09IsGen(keys[n]) {
				ks = keys[n]
			}
			mi = int(n)
		}
		s, err := c09Genuine(ks, msg(mi), "xof")
		return s, true, err
	}
}

// "A" = aggregate of the genuine signatures of all generated BLS keys of the list (message i for key i)
func c09AggResolver(msg func(i int) []byte, keys []string, genuine *bool) c09Resolver {
	return func(a string) ([]byte, bool, error) {
		if a != "A" {
			return nil, false, nil
		}
		var sigs []crypto.Signature
		all := len(keys) > 0
		for i, k := range keys {
			if c09IsID(k) {
				continue // the identity key contributes nothing
			}
			if !c09IsGen(k) {
				all = false
				continue
			}
			s, err := c09Genuine(k, msg(i), "xof")
			if err != nil {
				return nil, true, err
			}
			sigs = append(sigs, s)
		}
		if len(sigs) == 0 {
			s, err := c09Genuine("bls.1", msg(0), "xof")
			return s, true, err
		}
		agg, err := crypto.AggregateBLSSignatures(sigs)
		*genuine = all
		return agg, true, err
	}
}

func init() {
	// l = signature specs (atoms S<seed>)
	c09Handlers["AggregateBLSSignatures"] = func(in *c09In, r *c09Res) error {
		msg := c09SeedBytes(11, 20)
		sigs, err := r.sigList("sigs", in.L, c09SigResolver(func(int) []byte { return msg }, nil))
		if err != nil {
			return err
		}
		r.skel = "AggregateBLSSignatures"
		r.E("sigs", int64(len(sigs)))
		r.call(func() string { _, err := crypto.AggregateBLSSignatures(sigs); return c09ErrClass(err) })
		return nil
	}
	// l = private key specs
	c09Handlers["AggregateBLSPrivateKeys"] = func(in *c09In, r *c09Res) error {
		items, isNil := c09List(in.L)
		var sks []crypto.PrivateKey
		if !isNil {
			sks = []crypto.PrivateKey{}
		}
		nonbls, first, nils := 0, -1, 0
		for i, s := range items {
			sk, err := c09Priv(s)
			if err != nil {
				return err
			}
			sks = append(sks, sk)
			if c09KeyAlgo(s) != 1 {
				nonbls++
				if first < 0 {
					first = i
				}
			}
			if s == "nil" {
				nils++
				r.nilIface = true
			}
		}
		r.F("keys", int64(len(sks)))
		r.F("keys.nonbls", int64(nonbls))
		r.F("keys.firstnonbls", int64(first))
		r.F("keys.nil", int64(nils))
		r.skel = "AggregateBLSPrivateKeys"
		r.E("keys", int64(len(sks)))
		r.call(func() string { _, err := crypto.AggregateBLSPrivateKeys(sks); return c09ErrClass(err) })
		return nil
	}
	// l = public key specs
	c09Handlers["AggregateBLSPublicKeys"] = func(in *c09In, r *c09Res) error {
		pks, err := r.pubList("keys", in.L)
		if err != nil {
			return err
		}
		r.skel = "AggregateBLSPublicKeys"
		r.E("keys", int64(len(pks)))
		r.call(func() string { _, err := crypto.AggregateBLSPublicKeys(pks); return c09ErrClass(err) })
		return nil
	}
	// k = [aggKey], l = keysToRemove
	c09Handlers["RemoveBLSPublicKeys"] = func(in *c09In, r *c09Res) error {
		ks, err := in.k(0)
		if err != nil {
			return err
		}
		agg, err := c09Pub(ks)
		if err != nil {
			return err
		}
		r.F("aggKey.nonbls", c09b2i(c09KeyAlgo(ks) != 1))
		if ks == "nil" {
			r.nilIface = true
		}
		pks, err := r.pubList("keysToRemove", in.L)
		if err != nil {
			return err
		}
		r.skel = "RemoveBLSPublicKeys"
		r.E("keysToRemove", int64(len(pks)))
		r.E("ok:=aggKey.(*pubKeyBLSBLS12381)", c09b2i(c09KeyAlgo(ks) == 1))
		r.call(func() string { _, err := crypto.RemoveBLSPublicKeys(agg, pks); return c09ErrClass(err) })
		return nil
	}
	// l = pks, b = [s, message], h = hasher; atom "A"
	c09Handlers["VerifyBLSSignatureOneMessage"] = func(in *c09In, r *c09Res) error {
		pks, err := r.pubList("pks", in.L)
		if err != nil {
			return err
		}
		msg, err := in.b(1, nil)
		if err != nil {
			return err
		}
		items, _ := c09List(in.L)
		genuine := false
		s, err := in.b(0, c09AggResolver(func(int) []byte { return msg }, items, &genuine))
		if err != nil {
			return err
		}
		h, err := c09Hasher(in.H)
		if err != nil {
			return err
		}
		r.F("s", int64(len(s)))
		r.F("message", int64(len(msg)))
		r.hasherFacts("kmac", h)
		r.F("s.genuine", c09b2i(genuine && len(s) == 48 && in.H == "xof"))
		r.skel = "VerifyBLSSignatureOneMessage"
		r.E("pks", int64(len(pks)))
		r.E("s", int64(len(s)))
		r.E("message", int64(len(msg)))
		r.E("kmac", c09b2i(h != nil))
		r.call(func() string { return c09BoolClass(crypto.VerifyBLSSignatureOneMessage(pks, s, msg, h)) })
		return nil
	}
	// l = pks, b = [s], m = messages (byte specs), hl = hashers; atom "A"
	c09Handlers["VerifyBLSSignatureManyMessages"] = func(in *c09In, r *c09Res) error {
		pks, err := r.pubList("pks", in.L)
		if err != nil {
			return err
		}
		mitems, mnil := c09List(in.M)
		var msgs [][]byte
		if !mnil {
			msgs = [][]byte{}
		}
		for _, ms := range mitems {
			b, err := c09Bytes(ms, nil)
			if err != nil {
				return err
			}
			msgs = append(msgs, b)
		}
		hitems, hnil := c09List(in.HL)
		var hs []hash.Hasher
		if !hnil {
			hs = []hash.Hasher{}
		}
		hn, hbad, hfirst, allxof := 0, 0, -1, true
		for i, sp := range hitems {
			h, err := c09Hasher(sp)
			if err != nil {
				return err
			}
			hs = append(hs, h)
			if sp != "xof" {
				allxof = false
			}
			isbad := false
			if h == nil {
				hn++
				isbad = true
				r.nilIface = true
			} else if h.Size() != 128 {
				hbad++
				isbad = true
			}
			if isbad && hfirst < 0 {
				hfirst = i
			}
		}
		items, _ := c09List(in.L)
		genuine := false
		s, err := in.b(0, c09AggResolver(func(i int) []byte {
			if i < len(msgs) {
				return msgs[i]
			}
			return nil
		}, items, &genuine))
		if err != nil {
			return err
		}
		r.F("s", int64(len(s)))
		r.F("messages", int64(len(msgs)))
		r.F("kmac", int64(len(hs)))
		r.F("kmac.nil", int64(hn))
		r.F("kmac.badsize", int64(hbad))
		r.F("kmac.firstbad", int64(hfirst))
		r.F("s.genuine", c09b2i(genuine && len(s) == 48 && allxof && len(msgs) == len(pks) && len(hs) == len(pks)))
		r.skel = "VerifyBLSSignatureManyMessages"
		r.E("pks", int64(len(pks)))
		r.E("s", int64(len(s)))
		r.E("messages", int64(len(msgs)))
		r.E("kmac", int64(len(hs)))
		r.call(func() string { return c09BoolClass(crypto.VerifyBLSSignatureManyMessages(pks, s, msgs, hs)) })
		return nil
	}
	// l = pks, m = sigs (atoms S<seed>, I<i>), b = [message], h = hasher.
	// Post-call facts: ("ret", length of the returned slice), ("ret.true", number of true verdicts).
	c09Handlers["BatchVerifyBLSSignaturesOneMessage"] = func(in *c09In, r *c09Res) error {
		pks, err := r.pubList("pks", in.L)
		if err != nil {
			return err
		}
		msg, err := in.b(0, nil)
		if err != nil {
			return err
		}
		items, _ := c09List(in.L)
		sigs, err := r.sigList("sigs", in.M, c09SigResolver(func(int) []byte { return msg }, items))
		if err != nil {
			return err
		}
		h, err := c09Hasher(in.H)
		if err != nil {
			return err
		}
		r.F("message", int64(len(msg)))
		r.hasherFacts("kmac", h)
		r.skel = "BatchVerifyBLSSignaturesOneMessage"
		r.E("pks", int64(len(pks)))
		r.E("sigs", int64(len(sigs)))
		r.E("message", int64(len(msg)))
		r.E("kmac", c09b2i(h != nil))
		var ret []bool
		r.call(func() string {
			var err error
			ret, err = crypto.BatchVerifyBLSSignaturesOneMessage(pks, sigs, msg, h)
			if err != nil {
				return c09ErrClass(err)
			}
			all := len(ret) > 0
			for _, b := range ret {
				all = all && b
			}
			return c09BoolClass(all, nil)
		})
		nt := 0
		for _, b := range ret {
			if b {
				nt++
			}
		}
		r.F("ret", int64(len(ret)))
		r.F("ret.true", int64(nt))
		return nil
	}
	// b = [s]
	c09Handlers["IsBLSSignatureIdentity"] = func(in *c09In, r *c09Res) error {
		s, err := in.b(0, nil)
		if err != nil {
			return err
		}
		isID := len(s) == 48 && s[0] == 0xC0
		for i := 1; i < len(s); i++ {
			isID = isID && s[i] == 0
		}
		r.F("s", int64(len(s)))
		r.F("s.identity", c09b2i(isID))
		r.skel = "IsBLSSignatureIdentity"
		r.E("s", int64(len(s)))
		r.call(func() string { return c09BoolClass(crypto.IsBLSSignatureIdentity(s), nil) })
		return nil
	}
	// k = [sk], b = [data], h = hasher
	c09Handlers["SPOCKProve"] = func(in *c09In, r *c09Res) error {
		ks, err := in.k(0)
		if err != nil {
			return err
		}
		sk, err := c09Priv(ks)
		if err != nil {
			return err
		}
		data, err := in.b(0, nil)
		if err != nil {
			return err
		}
		h, err := c09Hasher(in.H)
		if err != nil {
			return err
		}
		r.F("sk.nonbls", c09b2i(c09KeyAlgo(ks) != 1))
		r.F("data", int64(len(data)))
		r.hasherFacts("kmac", h)
		if ks == "nil" {
			r.nilIface = true
		}
		r.skel = "SPOCKProve"
		r.E("data", int64(len(data)))
		r.E("kmac", c09b2i(h != nil))
		r.call(func() string { _, err := crypto.SPOCKProve(sk, data, h); return c09ErrClass(err) })
		return nil
	}
	// k = [pk], b = [proof, data], h = hasher; atom "G" = genuine proof of the key (bls.1 if not a generated BLS key) under "xof"
	c09Handlers["SPOCKVerifyAgainstData"] = func(in *c09In, r *c09Res) error {
		ks, err := in.k(0)
		if err != nil {
			return err
		}
		pk, err := c09Pub(ks)
		if err != nil {
			return err
		}
		data, err := in.b(1, nil)
		if err != nil {
			return err
		}
		genuine := false
		proof, err := in.b(0, func(a string) ([]byte, bool, error) {
			if a != "G" {
				return nil, false, nil
			}
			sks := "bls.1"
			if c09IsGen(ks) {
				sks, genuine = ks, true
			}
			s, err := c09Genuine(sks, data, "xof")
			return s, true, err
		})
		if err != nil {
			return err
		}
		h, err := c09Hasher(in.H)
		if err != nil {
			return err
		}
		r.F("pk.nonbls", c09b2i(c09KeyAlgo(ks) != 1))
		r.F("pk.isIdentity", c09b2i(c09IsID(ks)))
		r.F("proof", int64(len(proof)))
		r.F("data", int64(len(data)))
		r.hasherFacts("kmac", h)
		r.F("proof.genuine", c09b2i(genuine && len(proof) == 48 && in.H == "xof"))
		if ks == "nil" {
			r.nilIface = true
		}
		r.skel = "SPOCKVerifyAgainstData"
		r.E("proof", int64(len(proof)))
		r.E("data", int64(len(data)))
		r.E("kmac", c09b2i(h != nil))
		r.call(func() string { return c09BoolClass(crypto.SPOCKVerifyAgainstData(pk, proof, data, h)) })
		return nil
	}
	// k = [pk1, pk2], b = [proof1, proof2, data]; atoms "G1" / "G2" = genuine proofs of pk1 / pk2 on data
	c09Handlers["SPOCKVerify"] = func(in *c09In, r *c09Res) error {
		if len(in.K) < 2 {
			return fmt.Errorf("two keys needed")
		}
		pk1, err := c09Pub(in.K[0])
		if err != nil {
			return err
		}
		pk2, err := c09Pub(in.K[1])
		if err != nil {
			return err
		}
		data, err := in.b(2, nil)
		if err != nil {
			return err
		}
		lastKey := ""
		res := func(a string) ([]byte, bool, error) {
			if a != "G1" && a != "G2" {
				return nil, false, nil
			}
			i := int(a[1] - '1')
			sks := "bls.1"
			if c09IsGen(in.K[i]) {
				sks = in.K[i]
			}
			lastKey = sks
			s, err := c09Genuine(sks, data, "xof")
			return s, true, err
		}
		p1, err := in.b(0, res)
		if err != nil {
			return err
		}
		g1 := lastKey != "" && lastKey == in.K[0] // a genuine proof of the key it is presented with
		lastKey = ""
		p2, err := in.b(1, res)
		if err != nil {
			return err
		}
		g2 := lastKey != "" && lastKey == in.K[1]
		r.F("pk1.nonbls", c09b2i(c09KeyAlgo(in.K[0]) != 1))
		r.F("pk2.nonbls", c09b2i(c09KeyAlgo(in.K[1]) != 1))
		r.F("pk1.isIdentity", c09b2i(c09IsID(in.K[0])))
		r.F("pk2.isIdentity", c09b2i(c09IsID(in.K[1])))
		r.F("proof1", int64(len(p1)))
		r.F("proof2", int64(len(p2)))
		r.F("proofs.genuine", c09b2i(g1 && g2 && len(p1) == 48 && len(p2) == 48))
		if in.K[0] == "nil" || in.K[1] == "nil" {
			r.nilIface = true
		}
		r.skel = "SPOCKVerify"
		r.E("proof1", int64(len(p1)))
		r.E("proof2", int64(len(p2)))
		r.E("ok1:=pk1.(*pubKeyBLSBLS12381)", c09b2i(c09KeyAlgo(in.K[0]) == 1))
		r.E("ok2:=pk2.(*pubKeyBLSBLS12381)", c09b2i(c09KeyAlgo(in.K[1]) == 1))
		if c09KeyAlgo(in.K[0]) == 1 && c09KeyAlgo(in.K[1]) == 1 {
			r.E("blsPk1.isIdentity", c09b2i(c09IsID(in.K[0])))
			r.E("blsPk2.isIdentity", c09b2i(c09IsID(in.K[1])))
		}
		r.call(func() string { return c09BoolClass(crypto.SPOCKVerify(pk1, p1, pk2, p2)) })
		return nil
	}
}

// =====================================================================================
// handlers, part 3: threshold signatures
// =====================================================================================
const c09TSMsg = "c09 threshold message"

type c09TSKeys struct {
	sks []crypto.PrivateKey
	pks []crypto.PublicKey
	gpk crypto.PublicKey
}

var c09TSCache = map[string]*c09TSKeys{}

func c09TSGroup(n, t int, seed uint64) (*c09TSKeys, error) {
	key := fmt.Sprintf("%d/%d/%d", n, t, seed)
	if g, ok := c09TSCache[key]; ok {
		return g, nil
	}
	sks, pks, gpk, err := crypto.BLSThresholdKeyGen(n, t, c09SeedBytes(seed, 32))
	if err != nil {
		return nil, err
	}
	g := &c09TSKeys{sks, pks, gpk}
	c09TSCache[key] = g
	return g, nil
}

// "V<i>" = genuine share of participant i of the group on c09TSMsg (hasher NewExpandMsgXOFKMAC128(c09Tag))
func c09ShareResolver(g *c09TSKeys, used *int) c09Resolver {
	return func(a string) ([]byte, bool, error) {
		if len(a) < 2 || a[0] != 'V' {
			return nil, false, nil
		}
		i, err := strconv.Atoi(a[1:])
		if err != nil {
			return nil, false, nil
		}
		if i < 0 || i >= len(g.sks) {
			return nil, true, fmt.Errorf("no participant %d", i)
		}
		if used != nil {
			*used = i
		}
		s, err := g.sks[i].Sign([]byte(c09TSMsg), crypto.NewExpandMsgXOFKMAC128(c09Tag))
		return s, true, err
	}
}

func init() {
	// a = [size, threshold], b = [seed]
	c09Handlers["BLSThresholdKeyGen"] = func(in *c09In, r *c09Res) error {
		if len(in.A) < 2 {
			return fmt.Errorf("two integers needed")
		}
		seed, err := in.b(0, nil)
		if err != nil {
			return err
		}
		n, t := in.A[0], in.A[1]
		r.F("size", n)
		r.F("threshold", t)
		r.F("seed", int64(len(seed)))
		r.skel = "BLSThresholdKeyGen"
		r.E("size", n)
		r.E("threshold", t)
		r.E("seed", int64(len(seed)))
		r.call(func() string {
			_, _, _, err := crypto.BLSThresholdKeyGen(int(n), int(t), seed)
			return c09ErrClass(err)
		})
		return nil
	}
	// a = [threshold, sharesNumber]
	c09Handlers["EnoughShares"] = func(in *c09In, r *c09Res) error {
		if len(in.A) < 2 {
			return fmt.Errorf("two integers needed")
		}
		r.F("threshold", in.A[0])
		r.F("sharesNumber", in.A[1])
		r.skel = "EnoughShares"
		r.E("threshold", in.A[0])
		r.E("sharesNumber", in.A[1])
		r.call(func() string { return c09BoolClass(crypto.EnoughShares(int(in.A[0]), int(in.A[1]))) })
		return nil
	}
	// a = [size, threshold], l = shares (atoms V<i>: genuine shares of an (8, clamp(threshold,1,7)) group of seed s),
	// m = signers (decimal integers)
	c09Handlers["BLSReconstructThresholdSignature"] = func(in *c09In, r *c09Res) error {
		if len(in.A) < 2 {
			return fmt.Errorf("two integers needed")
		}
		n, t := in.A[0], in.A[1]
		gt := 2
		if t >= 1 && t <= 7 {
			gt = int(t)
		}
		g, err := c09TSGroup(8, gt, in.S)
		if err != nil {
			return err
		}
		r.F("size", n)
		r.F("threshold", t)
		shares, err := r.sigList("shares", in.L, c09ShareResolver(g, nil))
		if err != nil {
			return err
		}
		sitems, snil := c09List(in.M)
		var signers []int
		if !snil {
			signers = []int{}
		}
		firstoor, firstdup := -1, -1
		seen := map[int64]bool{}
		for i, s := range sitems {
			v, err := strconv.ParseInt(s, 10, 64)
			if err != nil {
				return err
			}
			signers = append(signers, int(v))
			if (v < 0 || v >= n) && firstoor < 0 {
				firstoor = i
			}
			if seen[v] && firstdup < 0 {
				firstdup = i
			}
			seen[v] = true
		}
		head := 0
		for i, s := range shares {
			if int64(i) <= t && len(s) != 48 {
				head++
			}
		}
		r.F("signers", int64(len(signers)))
		r.F("shares.badlen.head", int64(head))
		r.F("signers.firstoor", int64(firstoor))
		r.F("signers.firstdup", int64(firstdup))
		r.skel = "BLSReconstructThresholdSignature"
		r.E("size", n)
		r.E("threshold", t)
		r.E("shares", int64(len(shares)))
		r.E("signers", int64(len(signers)))
		r.call(func() string {
			_, err := crypto.BLSReconstructThresholdSignature(int(n), int(t), shares, signers)
			return c09ErrClass(err)
		})
		return nil
	}
	// k = [groupPublicKey, (myPrivateKey)], l = sharePublicKeys, a = [threshold, (myIndex)], b = [message, dsTag]
	for _, name := range []string{"NewBLSThresholdSignatureInspector", "NewBLSThresholdSignatureParticipant"} {
		name := name
		part := name == "NewBLSThresholdSignatureParticipant"
		c09Handlers[name] = func(in *c09In, r *c09Res) error {
			gks, err := in.k(0)
			if err != nil {
				return err
			}
			gpk, err := c09Pub(gks)
			if err != nil {
				return err
			}
			t, err := in.a(0)
			if err != nil {
				return err
			}
			msg, err := in.b(0, nil)
			if err != nil {
				return err
			}
			tag, err := in.b(1, nil)
			if err != nil {
				return err
			}
			r.F("groupPublicKey.nonbls", c09b2i(c09KeyAlgo(gks) != 1))
			if gks == "nil" {
				r.nilIface = true
			}
			pks, err := r.pubList("sharePublicKeys", in.L)
			if err != nil {
				return err
			}
			r.F("threshold", t)
			r.F("message", int64(len(msg)))
			r.F("dsTag", int64(len(tag)))
			r.skel = name
			r.E("sharePublicKeys", int64(len(pks)))
			r.E("threshold", t)
			r.E("message", int64(len(msg)))
			r.E("dsTag", int64(len(tag)))
			if !part {
				r.call(func() string {
					_, err := crypto.NewBLSThresholdSignatureInspector(gpk, pks, int(t), msg, string(tag))
					return c09ErrClass(err)
				})
				return nil
			}
			my, err := in.a(1)
			if err != nil {
				return err
			}
			sks, err := in.k(1)
			if err != nil {
				return err
			}
			sk, err := c09Priv(sks)
			if err != nil {
				return err
			}
			items, _ := c09List(in.L)
			match := my >= 0 && my < int64(len(items)) && c09SameKey(items[my], sks) && sks != "nil"
			r.F("myIndex", my)
			r.F("myPrivateKey.nonbls", c09b2i(c09KeyAlgo(sks) != 1))
			r.F("myPrivateKey.match", c09b2i(match))
			if sks == "nil" {
				r.nilIface = true
			}
			r.E("myIndex", my)
			r.E("ok:=myPrivateKey.(*prKeyBLSBLS12381)", c09b2i(c09KeyAlgo(sks) == 1))
			r.call(func() string {
				_, err := crypto.NewBLSThresholdSignatureParticipant(gpk, pks, int(t), int(my), sk, msg, string(tag))
				return c09ErrClass(err)
			})
			return nil
		}
	}
	// inspector methods on a valid inspector of the (size, threshold) group of seed s over c09TSMsg:
	// ops = [method], a = [size, threshold, orig], b = [share], l = shares added beforehand with TrustedAdd ("<idx>:<spec>")
	// atoms "V<i>" = genuine share of participant i
	c09Handlers["insp"] = func(in *c09In, r *c09Res) error {
		if len(in.Ops) != 1 || len(in.A) < 2 {
			return fmt.Errorf("method and group needed")
		}
		n, t := int(in.A[0]), int(in.A[1])
		g, err := c09TSGroup(n, t, in.S)
		if err != nil {
			return err
		}
		insp, err := crypto.NewBLSThresholdSignatureInspector(g.gpk, g.pks, t, []byte(c09TSMsg), c09Tag)
		if err != nil {
			return err
		}
		// shares added beforehand
		pre, _ := c09List(in.L)
		added := map[int]bool{}
		preBad, preForged := 0, 0
		for _, p := range pre {
			i := strings.IndexByte(p, ':')
			if i < 0 {
				return fmt.Errorf("bad pre-added share %q", p)
			}
			idx, err := strconv.Atoi(p[:i])
			if err != nil {
				return err
			}
			used := -1
			sh, err := c09Bytes(p[i+1:], c09ShareResolver(g, &used))
			if err != nil {
				return err
			}
			_, _ = insp.TrustedAdd(idx, sh)
			if idx >= 0 && idx < n && !added[idx] && len(added) < t+1 {
				added[idx] = true
				if len(sh) != 48 {
					preBad++
				} else if used != idx {
					preForged++
				}
			}
		}
		meth := in.Ops[0]
		r.api = "blsThresholdSignatureInspector." + meth
		r.skel = r.api
		r.F("size", int64(n))
		r.F("threshold", int64(t))
		r.F("pre", int64(len(added)))
		r.F("pre.badlen", int64(preBad))
		r.F("pre.forged", int64(preForged))
		r.E("s.size", int64(n))
		r.E("s.threshold", int64(t))
		r.E("s.publicKeyShares", int64(n))
		r.E("s.shares", int64(len(added)))
		if meth == "ThresholdSignature" {
			r.E("s.thresholdSignature", 0)
			r.E("nil?s.thresholdSignature", 1)
			r.call(func() string { _, err := insp.ThresholdSignature(); return c09ErrClass(err) })
			return nil
		}
		if meth == "EnoughShares" {
			r.call(func() string { return c09BoolClass(insp.EnoughShares(), nil) })
			return nil
		}
		orig, err := in.a(2)
		if err != nil {
			return err
		}
		r.F("orig", orig)
		r.F("pre.has", c09b2i(orig >= 0 && orig < int64(n) && added[int(orig)]))
		r.E("orig", orig)
		if meth == "HasShare" {
			r.call(func() string { return c09BoolClass(insp.HasShare(int(orig))) })
			return nil
		}
		used := -1
		share, err := in.b(0, c09ShareResolver(g, &used))
		if err != nil {
			return err
		}
		r.F("share", int64(len(share)))
		r.F("share.genuine", c09b2i(used >= 0 && int64(used) == orig && len(share) == 48))
		r.E("share", int64(len(share)))
		switch meth {
		case "VerifyShare":
			r.call(func() string { return c09BoolClass(insp.VerifyShare(int(orig), share)) })
		case "TrustedAdd":
			r.call(func() string { return c09BoolClass(insp.TrustedAdd(int(orig), share)) })
		case "VerifyAndAdd":
			r.call(func() string { v, _, err := insp.VerifyAndAdd(int(orig), share); return c09BoolClass(v, err) })
		default:
			return fmt.Errorf("unknown inspector method %q", meth)
		}
		return nil
	}
}

// =====================================================================================
// handlers, part 4: hash and random packages
// =====================================================================================
type c09HashInfo struct {
	typ          string
	rate, outLen int
}

func c09HashInfoOf(spec string) c09HashInfo {
	switch spec {
	case "sha2_256":
		return c09HashInfo{"sha2_256Algo", 0, 32}
	case "sha2_384":
		return c09HashInfo{"sha2_384Algo", 0, 48}
	case "sha3_256":
		return c09HashInfo{"spongeState", 136, 32}
	case "sha3_384":
		return c09HashInfo{"spongeState", 104, 48}
	case "keccak":
		return c09HashInfo{"spongeState", 136, 32}
	}
	return c09HashInfo{"kmac128", 0, -1}
}

// methods that have a skeleton in Generated/RiskSkel.v
var c09HashSkels = map[string]bool{
	"hash.kmac128.ComputeHash": true, "hash.kmac128.Reset": true, "hash.kmac128.Size": true, "hash.kmac128.SumHash": true,
	"hash.sha2_256Algo.ComputeHash": true, "hash.sha2_256Algo.SumHash": true,
	"hash.sha2_384Algo.ComputeHash": true, "hash.sha2_384Algo.SumHash": true,
	"hash.spongeState.ComputeHash": true, "hash.spongeState.Reset": true, "hash.spongeState.Size": true,
	"hash.spongeState.SumHash": true, "hash.spongeState.Write": true,
}

func init() {
	// b = [key, customizer], a = [outputSize]
	c09Handlers["hash.NewKMAC_128"] = func(in *c09In, r *c09Res) error {
		key, err := in.b(0, nil)
		if err != nil {
			return err
		}
		cust, err := in.b(1, nil)
		if err != nil {
			return err
		}
		n, err := in.a(0)
		if err != nil {
			return err
		}
		if err := c09Guard(n); err != nil {
			return err
		}
		r.F("key", int64(len(key)))
		r.F("customizer", int64(len(cust)))
		r.F("outputSize", n)
		r.skel = "hash.NewKMAC_128"
		r.E("key", int64(len(key)))
		r.E("customizer", int64(len(cust)))
		r.E("outputSize", n)
		r.call(func() string { _, err := hash.NewKMAC_128(key, cust, int(n)); return c09ErrClass(err) })
		return nil
	}
	// b = [data]
	for _, name := range []string{"hash.ComputeSHA3_256", "hash.ComputeSHA2_256"} {
		name := name
		c09Handlers[name] = func(in *c09In, r *c09Res) error {
			data, err := in.b(0, nil)
			if err != nil {
				return err
			}
			r.F("result", 32)
			r.F("data", int64(len(data)))
			r.skel = name
			r.E("result", 32)
			r.E("data", int64(len(data)))
			var res [32]byte
			r.call(func() string {
				if name == "hash.ComputeSHA3_256" {
					hash.ComputeSHA3_256(&res, data)
				} else {
					hash.ComputeSHA2_256(&res, data)
				}
				return "ok"
			})
			return nil
		}
	}
	// h = constructor spec, ops = sequence of "W:<spec>" (Write) | "C:<spec>" (ComputeHash) | "S" (SumHash) |
	// "R" (Reset) | "Z" (Size); the LAST op is the observed call, the others are its prelude
	c09Handlers["hasher"] = func(in *c09In, r *c09Res) error {
		h, err := c09Hasher(in.H)
		if err != nil || h == nil {
			return fmt.Errorf("hasher needed: %v", err)
		}
		if len(in.Ops) == 0 {
			return fmt.Errorf("ops needed")
		}
		info := c09HashInfoOf(in.H)
		if info.outLen < 0 {
			info.outLen = h.Size()
		}
		preSum, preWritten, preCompute := 0, 0, 0
		do := func(op string) (func(), string, int, error) {
			switch op[0] {
			case 'W', 'C':
				if len(op) < 3 || op[1] != ':' {
					return nil, "", 0, fmt.Errorf("bad op %q", op)
				}
				b, err := c09Bytes(op[2:], nil)
				if err != nil {
					return nil, "", 0, err
				}
				if op[0] == 'W' {
					return func() { _, _ = h.Write(b) }, "Write", len(b), nil
				}
				return func() { _ = h.ComputeHash(b) }, "ComputeHash", len(b), nil
			case 'S':
				return func() { _ = h.SumHash() }, "SumHash", -1, nil
			case 'R':
				return func() { h.Reset() }, "Reset", -1, nil
			case 'Z':
				return func() { _ = h.Size() }, "Size", -1, nil
			}
			return nil, "", 0, fmt.Errorf("bad op %q", op)
		}
		for _, op := range in.Ops[:len(in.Ops)-1] {
			f, m, n, err := do(op)
			if err != nil {
				return err
			}
			f()
			switch m {
			case "Write":
				preWritten += n
			case "SumHash":
				preSum++
			case "ComputeHash":
				preCompute++
				preWritten = 0
			case "Reset":
				preWritten, preSum = 0, 0
			}
		}
		f, m, n, err := do(in.Ops[len(in.Ops)-1])
		if err != nil {
			return err
		}
		r.api = "hash." + info.typ + "." + m
		if c09HashSkels[r.api] {
			r.skel = r.api
		}
		r.F("algo", int64(h.Algorithm()))
		r.F("size", int64(info.outLen))
		r.F("pre", int64(len(in.Ops)-1))
		r.F("pre.sum", int64(preSum))
		r.F("pre.compute", int64(preCompute))
		r.F("pre.written", int64(preWritten))
		switch m {
		case "Write":
			r.F("p", int64(n))
			r.E("p", int64(n))
		case "ComputeHash":
			r.F("data", int64(n))
			r.E("data", int64(n))
		}
		if r.skel != "" {
			switch info.typ {
			case "kmac128":
				r.E("k.outputSize", int64(info.outLen))
			case "spongeState":
				rc := "s."
				if m == "Write" || m == "Reset" || m == "Size" {
					rc = "d."
				}
				r.E(rc+"rate", int64(info.rate))
				r.E(rc+"outputLen", int64(info.outLen))
			}
		}
		r.call(func() string { f(); return "ok" })
		return nil
	}
	// b = [seed, customizer]
	c09Handlers["random.NewChacha20PRG"] = func(in *c09In, r *c09Res) error {
		seed, err := in.b(0, nil)
		if err != nil {
			return err
		}
		cust, err := in.b(1, nil)
		if err != nil {
			return err
		}
		r.F("seed", int64(len(seed)))
		r.F("customizer", int64(len(cust)))
		r.skel = "random.NewChacha20PRG"
		r.E("seed", int64(len(seed)))
		r.E("customizer", int64(len(cust)))
		r.call(func() string { _, err := random.NewChacha20PRG(seed, cust); return c09ErrClass(err) })
		return nil
	}
	// b = [stateBytes]
	c09Handlers["random.RestoreChacha20PRG"] = func(in *c09In, r *c09Res) error {
		st, err := in.b(0, nil)
		if err != nil {
			return err
		}
		r.F("stateBytes", int64(len(st)))
		if len(st) == 52 {
			r.FU("counter", binary.LittleEndian.Uint64(st[44:]))
		} else {
			r.F("counter", -1)
		}
		r.skel = "random.RestoreChacha20PRG"
		r.E("stateBytes", int64(len(st)))
		r.call(func() string { _, err := random.RestoreChacha20PRG(st); return c09ErrClass(err) })
		return nil
	}
	// methods of a valid PRG: ops = [method]; the PRG is NewChacha20PRG(32 bytes of seed s, "c09") or, when b[1] is
	// given, RestoreChacha20PRG(b[1]).  Read: b = [buffer]; UintN: u = [n]; Permutation: a = [n];
	// SubPermutation: a = [n, m]; Shuffle: a = [n], k = [swap]; Samples: a = [n, m], k = [swap]  (swap: "noop" | "nil")
	c09Handlers["prg"] = func(in *c09In, r *c09Res) error {
		if len(in.Ops) != 1 {
			return fmt.Errorf("method needed")
		}
		var prg random.Rand
		ctr := uint64(0)
		restored := len(in.B) >= 2
		if restored {
			st, err := in.b(1, nil)
			if err != nil {
				return err
			}
			p, err := random.RestoreChacha20PRG(st)
			if err != nil {
				return err
			}
			prg = p
			ctr = binary.LittleEndian.Uint64(st[44:])
		} else {
			p, err := random.NewChacha20PRG(c09SeedBytes(in.S, 32), []byte("c09"))
			if err != nil {
				return err
			}
			prg = p
		}
		// l = earlier reads "R<n>" on the same generator (an empty buffer for n = 0)
		for _, op := range in.L {
			n, err := strconv.Atoi(strings.TrimPrefix(op, "R"))
			if err != nil || !strings.HasPrefix(op, "R") || n < 0 || n > c09Max {
				return fmt.Errorf("bad PRG prelude op %q", op)
			}
			prg.Read(make([]byte, n))
			ctr += uint64(n)
		}
		meth := in.Ops[0]
		r.api = "random.genericPRG." + meth
		if meth == "Read" {
			r.api = "random.chachaCore.Read"
		}
		r.skel = r.api
		r.F("restored", c09b2i(restored))
		r.FU("counter", ctr)
		if len(in.L) > 0 {
			r.F("prelude", int64(len(in.L)))
		}
		switch in.Tag {
		case "finding":
			r.F("finding.prg-counter-overflow", 1)
		case "shadow":
			r.F("shadow.prg-counter-overflow", 1)
		}
		swapOf := func() (func(i, j int), error) {
			ks, err := in.k(0)
			if err != nil {
				return nil, err
			}
			if ks == "nil" {
				r.nilIface = true
				r.F("swap", 0)
				r.E("swap", 0)
				return nil, nil
			}
			r.F("swap", 1)
			r.E("swap", 1)
			return func(i, j int) {}, nil
		}
		ints := func(k int, names ...string) ([]int64, error) {
			if len(in.A) < k {
				return nil, fmt.Errorf("%d integers needed", k)
			}
			for i, nm := range names {
				r.F(nm, in.A[i])
				r.E(nm, in.A[i])
			}
			return in.A, nil
		}
		switch meth {
		case "Read":
			buf, err := in.b(0, nil)
			if err != nil {
				return err
			}
			r.F("buffer", int64(len(buf)))
			r.E("buffer", int64(len(buf)))
			r.EU("c.bytesCounter", ctr)
			r.call(func() string { prg.Read(buf); return "ok" })
		case "UintN":
			if len(in.U) < 1 {
				return fmt.Errorf("unsigned argument needed")
			}
			r.FU("n", in.U[0])
			r.EU("n", in.U[0])
			r.call(func() string { _ = prg.UintN(in.U[0]); return "ok" })
		case "Permutation":
			a, err := ints(1, "n")
			if err != nil {
				return err
			}
			if err := c09Guard(a[0]); err != nil {
				return err
			}
			r.call(func() string { _, err := prg.Permutation(int(a[0])); return c09ErrClass(err) })
		case "SubPermutation":
			a, err := ints(2, "n", "m")
			if err != nil {
				return err
			}
			if err := c09Guard(a[0]); err != nil {
				return err
			}
			r.call(func() string { _, err := prg.SubPermutation(int(a[0]), int(a[1])); return c09ErrClass(err) })
		case "Shuffle":
			a, err := ints(1, "n")
			if err != nil {
				return err
			}
			if err := c09Guard(a[0]); err != nil {
				return err
			}
			sw, err := swapOf()
			if err != nil {
				return err
			}
			r.call(func() string { return c09ErrClass(prg.Shuffle(int(a[0]), sw)) })
		case "Samples":
			a, err := ints(2, "n", "m")
			if err != nil {
				return err
			}
			if err := c09Guard(a[0]); err != nil {
				return err
			}
			sw, err := swapOf()
			if err != nil {
				return err
			}
			r.call(func() string { return c09ErrClass(prg.Samples(int(a[0]), int(a[1]), sw)) })
		default:
			return fmt.Errorf("unknown PRG method %q", meth)
		}
		return nil
	}
}

// =====================================================================================
// handlers, part 5: DKG constructors and message scenarios
// =====================================================================================

// counting processor: never panics
type c09Proc struct{ ps, bc, dq, fl int }

func (p *c09Proc) PrivateSend(int, []byte)     { p.ps++ }
func (p *c09Proc) Broadcast([]byte)            { p.bc++ }
func (p *c09Proc) Disqualify(int, string)      { p.dq++ }
func (p *c09Proc) FlagMisbehavior(int, string) { p.fl++ }

var c09ProtoType = [3]string{"feldmanVSSstate", "feldmanVSSQualState", "JointFeldmanState"}

func c09NewDKG(proto, n, t, my, dealer int, pr crypto.DKGProcessor) (crypto.DKGState, error) {
	switch proto {
	case 0:
		return crypto.NewFeldmanVSS(n, t, my, pr, dealer)
	case 1:
		return crypto.NewFeldmanVSSQual(n, t, my, pr, dealer)
	case 2:
		return crypto.NewJointFeldman(n, t, my, pr)
	}
	return nil, fmt.Errorf("unknown protocol %d", proto)
}

// the honest messages of dealer j (a FeldmanVSSQual dealer; plain Feldman VSS uses the same formats):
// its verification vector and its share for every participant
type c09Dealt struct {
	vec    []byte
	shares map[int][]byte
}

var c09DealtCache = map[string]*c09Dealt{}

func c09Deal(n, t, j int, seed uint64) (*c09Dealt, error) {
	key := fmt.Sprintf("%d/%d/%d/%d", n, t, j, seed)
	if d, ok := c09DealtCache[key]; ok {
		return d, nil
	}
	p := &dkgProc{}
	st, err := crypto.NewFeldmanVSSQual(n, t, j, p, j)
	if err != nil {
		return nil, err
	}
	if err := st.Start(c09SeedBytes(seed, 32)); err != nil {
		return nil, err
	}
	d := &c09Dealt{shares: map[int][]byte{}}
	for _, e := range p.take() {
		switch e.Kind {
		case "send":
			d.shares[e.Target] = unhx(e.Data)
		case "bcast":
			d.vec = unhx(e.Data)
		}
	}
	c09DealtCache[key] = d
	return d, nil
}

// atoms of DKG messages that carry the real material of dealer j of the scenario (dealt from seed s+1+j, as the
// "warm" deliveries): "DV<j>" its vector message, "DS<j>" its share message for this participant, "DA<j>.<c>" its
// (right) complaint answer for complainer c, "DB<j>.<c>" a well-formed wrong answer
func c09DkgResolver(d *c09Dkg, seed uint64) c09Resolver {
	return func(a string) ([]byte, bool, error) {
		if len(a) < 3 || a[0] != 'D' || !strings.ContainsRune("VSAB", rune(a[1])) {
			return nil, false, nil
		}
		f := strings.Split(a[2:], ".")
		j, err := strconv.Atoi(f[0])
		if err != nil || j < 0 || j >= d.N {
			return nil, false, nil
		}
		dl, err := c09Deal(d.N, d.T, j, seed+1+uint64(j))
		if err != nil {
			return nil, true, err
		}
		switch a[1] {
		case 'V':
			return append([]byte{}, dl.vec...), true, nil
		case 'S':
			if sh, ok := dl.shares[d.My]; ok {
				return append([]byte{}, sh...), true, nil
			}
			return append([]byte{0}, c09SeedBytes(seed, 32)...), true, nil // the dealer sends itself nothing
		}
		if len(f) != 2 {
			return nil, false, nil
		}
		c, err := strconv.Atoi(f[1])
		if err != nil || c < 0 || c > 255 {
			return nil, false, nil
		}
		ans := []byte{3, byte(c)}
		if sh, ok := dl.shares[c]; ok {
			ans = append(ans, sh[1:]...)
		} else {
			ans = append(ans, c09SeedBytes(seed+7, 32)...)
			ans[2] &= 0x3f
		}
		if a[1] == 'B' {
			ans[len(ans)-1] ^= 1
		}
		return ans, true, nil
	}
}

func c09DkgApply(st crypto.DKGState, op c09DkgOp, res c09Resolver) (func() error, []byte, error) {
	var msg []byte
	if op.Op == "bcast" || op.Op == "priv" || op.Op == "start" {
		b, err := c09Bytes(op.Msg, res)
		if err != nil {
			return nil, nil, err
		}
		msg = b
	}
	switch op.Op {
	case "bcast":
		return func() error { return st.HandleBroadcastMsg(int(op.Orig), msg) }, msg, nil
	case "priv":
		return func() error { return st.HandlePrivateMsg(int(op.Orig), msg) }, msg, nil
	case "force":
		return func() error { return st.ForceDisqualify(int(op.Orig)) }, nil, nil
	case "start":
		return func() error { return st.Start(msg) }, msg, nil
	case "end":
		return func() error { _, _, _, err := st.End(); return err }, nil, nil
	case "timeout":
		return func() error { return st.NextTimeout() }, nil, nil
	}
	return nil, nil, fmt.Errorf("unknown DKG op %q", op.Op)
}

func init() {
	// ops = [constructor], a = [size, threshold, myIndex, dealerIndex], k = [processor: "rec" | "nil"]
	c09Handlers["dkg.ctor"] = func(in *c09In, r *c09Res) error {
		if len(in.Ops) != 1 || len(in.A) < 4 {
			return fmt.Errorf("constructor and four integers needed")
		}
		ks, err := in.k(0)
		if err != nil {
			return err
		}
		var pr crypto.DKGProcessor
		if ks == "nil" {
			r.nilIface = true
		} else {
			pr = &c09Proc{}
		}
		n, t, my, dl := in.A[0], in.A[1], in.A[2], in.A[3]
		r.api = in.Ops[0]
		r.F("size", n)
		r.F("threshold", t)
		r.F("myIndex", my)
		if r.api == "NewJointFeldman" {
			dl = 0
		} else {
			r.F("dealerIndex", dl)
		}
		r.F("processor", c09b2i(pr != nil))
		r.skel = "newDKGCommon"
		r.E("size", n)
		r.E("threshold", t)
		r.E("myIndex", my)
		r.E("dealerIndex", dl)
		r.E("processor", c09b2i(pr != nil))
		r.call(func() string {
			var err error
			switch r.api {
			case "NewFeldmanVSS":
				_, err = crypto.NewFeldmanVSS(int(n), int(t), int(my), pr, int(dl))
			case "NewFeldmanVSSQual":
				_, err = crypto.NewFeldmanVSSQual(int(n), int(t), int(my), pr, int(dl))
			case "NewJointFeldman":
				_, err = crypto.NewJointFeldman(int(n), int(t), int(my), pr)
			default:
				panic("c09: unknown constructor " + r.api)
			}
			return c09ErrClass(err)
		})
		return nil
	}
	// d = scenario: a FRESH instance is brought to d.phase (Start with 32 bytes derived from seed s; NextTimeout;
	// End; errors ignored), with d.warm the honest messages of the dealer(s) (seed s+1+j for dealer j) are delivered
	// right after Start, then the d.pre calls are made, the counters are reset and d.call is observed.
	c09Handlers["dkg"] = func(in *c09In, r *c09Res) error {
		d := in.D
		if d == nil || d.Proto < 0 || d.Proto > 2 {
			return fmt.Errorf("scenario needed")
		}
		proc := &c09Proc{}
		var pr crypto.DKGProcessor = proc
		if d.NilProc {
			pr = nil
			r.nilIface = true
		}
		st, err := c09NewDKG(d.Proto, d.N, d.T, d.My, d.Dealer, pr)
		if err != nil {
			return err
		}
		if d.Phase >= 1 {
			_ = st.Start(c09SeedBytes(in.S, 32))
			if d.Warm {
				for j := 0; j < d.N; j++ {
					if j == d.My || (d.Proto != 2 && j != d.Dealer) {
						continue
					}
					dl, err := c09Deal(d.N, d.T, j, in.S+1+uint64(j))
					if err != nil {
						return err
					}
					_ = st.HandleBroadcastMsg(j, dl.vec)
					_ = st.HandlePrivateMsg(j, dl.shares[d.My])
				}
			}
		}
		if d.Phase >= 2 && d.Phase <= 3 || d.Phase == 4 && d.Proto != 0 {
			_ = st.NextTimeout()
		}
		if d.Phase >= 3 && d.Proto != 0 {
			_ = st.NextTimeout()
		}
		if d.Phase == 4 {
			_, _, _, _ = st.End()
		}
		dres := c09DkgResolver(d, in.S)
		for _, op := range d.Pre {
			f, _, err := c09DkgApply(st, op, dres)
			if err != nil {
				return err
			}
			_ = f()
		}
		running := st.Running()
		f, msg, err := c09DkgApply(st, d.Op, dres)
		if err != nil {
			return err
		}
		meth := map[string]string{"bcast": "HandleBroadcastMsg", "priv": "HandlePrivateMsg", "force": "ForceDisqualify",
			"start": "Start", "end": "End", "timeout": "NextTimeout"}[d.Op.Op]
		typ := c09ProtoType[d.Proto]
		if d.Op.Op == "start" && d.Proto == 1 {
			typ = "feldmanVSSstate" // promoted method
		}
		if d.Op.Op == "timeout" && d.Proto == 0 {
			typ = "dkgCommon"
		}
		r.api = typ + "." + meth
		r.skel = r.api
		r.F("proto", int64(d.Proto))
		r.F("size", int64(d.N))
		r.F("threshold", int64(d.T))
		r.F("myIndex", int64(d.My))
		r.F("dealerIndex", int64(d.Dealer))
		r.F("phase", int64(d.Phase))
		r.F("warm", c09b2i(d.Warm))
		r.F("pre", int64(len(d.Pre)))
		r.F("running", c09b2i(running))
		r.E("s.size", int64(d.N))
		r.E("s.threshold", int64(d.T))
		r.E("s.myIndex", int64(d.My))
		if d.Proto == 2 {
			r.E("s.jointRunning", c09b2i(running))
		} else {
			r.E("s.dealerIndex", int64(d.Dealer))
			r.E("s.running", c09b2i(running))
		}
		switch d.Op.Op {
		case "bcast", "priv":
			tag, idx := int64(-1), int64(-1)
			if len(msg) > 0 {
				tag = int64(msg[0])
				r.E("msg[0]", tag)
			}
			if len(msg) > 1 {
				idx = int64(msg[1])
			}
			r.F("orig", d.Op.Orig)
			r.F("msg", int64(len(msg)))
			r.F("tag", tag)
			r.F("idx", idx)
			r.F("bcast", c09b2i(d.Op.Op == "bcast"))
			r.E("orig", d.Op.Orig)
			r.E("msg", int64(len(msg)))
		case "force":
			r.F("participant", d.Op.Orig)
			r.E("participant", d.Op.Orig)
		case "start":
			r.F("seed", int64(len(msg)))
			r.E("seed", int64(len(msg)))
		}
		*proc = c09Proc{}
		r.call(func() string { return c09ErrClass(f()) })
		r.F("cb.privatesend", int64(proc.ps))
		r.F("cb.broadcast", int64(proc.bc))
		r.F("cb.disqualify", int64(proc.dq))
		r.F("cb.flag", int64(proc.fl))
		return nil
	}
}

// =====================================================================================
// generator
// =====================================================================================
type c09G struct {
	r        *rand.Rand
	thorough bool
	cs       []Case
}

func (g *c09G) add(kind string, in c09In) { g.cs = append(g.cs, mkcase(kind, in)) }
func (g *c09G) seed() uint64              { return g.r.Uint64() >> 20 }
func (g *c09G) rnd(n int) string          { return fmt.Sprintf("r%d.%d", n, g.seed()) }
func (g *c09G) pick(l []string) string    { return l[g.r.IntN(len(l))] }
func c09bls(i int) string                 { return fmt.Sprintf("bls.%d", i) }
func c09nstr(n int, f func(int) string) []string {
	l := make([]string, n)
	for i := range l {
		l[i] = f(i)
	}
	return l
}

// byte string of length n: nil for -1, random otherwise
func (g *c09G) bl(n int) string {
	switch {
	case n < 0:
		return "nil"
	case n == 0:
		return "e"
	}
	return g.rnd(n)
}

const (
	c09MinI = math.MinInt64
	c09MaxI = math.MaxInt64
)

var c09Algos = []int64{-1, 0, 1, 2, 3, 4, 9, 99}

func c09Gen(tier string, r *rand.Rand) []Case {
	g := &c09G{r: r, thorough: tier == "thorough"}
	g.enums()
	g.keys()
	g.signVerify()
	g.aggregate()
	g.multi()
	g.spock()
	g.threshold()
	g.inspector()
	g.hashes()
	g.prg()
	g.dkgCtors()
	g.dkg()
	g.audit()
	g.probes()
	return g.cs
}

func (g *c09G) enums() {
	for _, v := range []int64{c09MinI, -1, 0, 1, 2, 3, 4, 9, 99, c09MaxI} {
		g.add("enum", c09In{F: "SigningAlgorithm.String", A: []int64{v}})
	}
	for _, v := range []int64{c09MinI, -1, 0, 1, 2, 3, 4, 5, 6, 7, 9, 99, c09MaxI} {
		g.add("enum", c09In{F: "hash.HashingAlgorithm.String", A: []int64{v}})
	}
	g.add("e2poly", c09In{F: "E2PolynomialImages"})
}

func (g *c09G) keys() {
	keyOf := map[int64]string{1: "bls.1", 2: "p256.1", 3: "k1.1"}
	type fam struct {
		f    string
		lens []int
		enc  string // atom prefix of the valid encoding
		ok   int    // the valid length for BLS (ECDSA: 32 / 64 / 33)
	}
	fams := []fam{
		{"DecodePrivateKey", []int{-1, 0, 1, 31, 32, 33, 47, 48, 49, 64, 96, c09Max}, "P:", 32},
		{"DecodePublicKey", []int{-1, 0, 1, 32, 33, 63, 64, 65, 95, 96, 97, c09Max}, "K:", 96},
		{"DecodePublicKeyCompressed", []int{-1, 0, 1, 32, 33, 34, 47, 48, 95, 96, 97, c09Max}, "C:", 96},
	}
	for _, fm := range fams {
		for _, a := range c09Algos {
			for _, n := range fm.lens {
				g.add("decode", c09In{F: fm.f, A: []int64{a}, B: []string{g.bl(n)}})
			}
			ks, ok := keyOf[a]
			if !ok {
				ks = "bls.2"
			}
			ekind := fm.enc
			okLen := fm.ok
			if a == 2 || a == 3 {
				okLen = map[string]int{"P:": 32, "K:": 64, "C:": 33}[fm.enc]
			}
			if fm.enc == "C:" && !ok {
				ekind = "K:"
			}
			enc := ekind + ks
			for _, n := range []int{okLen - 1, okLen, okLen + 1} {
				g.add("decode-valid", c09In{F: fm.f, A: []int64{a}, B: []string{fmt.Sprintf("%s/%d", enc, n)}})
				g.add("decode-zero", c09In{F: fm.f, A: []int64{a}, B: []string{fmt.Sprintf("z%d", n)}})
				g.add("decode-ones", c09In{F: fm.f, A: []int64{a}, B: []string{fmt.Sprintf("o%d", n)}})
			}
		}
	}
	// BLS infinity encodings
	for _, s := range []string{"xc0+z95", "xc0+z94+x01", "xc0+z94", "xc0+z96", "x40+z95", "xe0+z95", "x80+z95"} {
		g.add("decode-inf", c09In{F: "DecodePublicKey", A: []int64{1}, B: []string{s}})
		g.add("decode-inf", c09In{F: "DecodePublicKeyCompressed", A: []int64{1}, B: []string{s}})
	}
	for _, a := range c09Algos {
		for _, n := range []int{-1, 0, 31, 32, 33, 256, 257, c09Max} {
			g.add("keygen", c09In{F: "GeneratePrivateKey", A: []int64{a}, B: []string{g.bl(n)}})
		}
		for _, n := range []int{-1, 0, 1, 47, 48, 49, 63, 64, 65, c09Max} {
			g.add("sigformat", c09In{F: "SignatureFormatCheck", A: []int64{a}, B: []string{g.bl(n)}})
		}
		for _, s := range []string{"G", "G/63", "G/65", "z64", "o64", "z32+G/64"} {
			g.add("sigformat", c09In{F: "SignatureFormatCheck", A: []int64{a}, B: []string{s}})
		}
	}
	if g.thorough {
		for i := 0; i < 1500; i++ {
			fm := fams[g.r.IntN(3)]
			a := c09Algos[g.r.IntN(len(c09Algos))]
			if g.r.IntN(3) > 0 {
				a = int64(1 + g.r.IntN(3))
			}
			g.add("decode-rand", c09In{F: fm.f, A: []int64{a}, B: []string{g.bl(g.r.IntN(200) - 1)}})
		}
		for i := 0; i < 300; i++ {
			a := c09Algos[g.r.IntN(len(c09Algos))]
			g.add("keygen-rand", c09In{F: "GeneratePrivateKey", A: []int64{a}, B: []string{g.bl(g.r.IntN(300) - 1)}})
			g.add("sigformat-rand", c09In{F: "SignatureFormatCheck", A: []int64{a}, B: []string{g.bl(g.r.IntN(130) - 1)}})
		}
	}
}

var c09HasherSpecs = []string{"nil", "xof", "kmac127", "kmac128", "kmac129", "kmac0", "kmac31", "kmac32", "sha2_256", "sha3_256", "sha2_384", "sha3_384", "keccak"}

func (g *c09G) signVerify() {
	keys := []string{"bls.1", "p256.1", "k1.1"}
	datas := []int{-1, 0, c09Max}
	for _, k := range keys {
		for _, dn := range datas {
			for _, h := range c09HasherSpecs {
				g.add("sign", c09In{F: "Sign", K: []string{k}, B: []string{g.bl(dn)}, H: h})
			}
		}
	}
	vkeys := []string{"bls.1", "id", "p256.1", "k1.1"}
	for _, k := range vkeys {
		good := "xof"
		if c09KeyAlgo(k) != 1 {
			good = "sha2_256"
		}
		for _, n := range []int{-1, 0, 1, 47, 48, 49, 63, 64, 65, c09Max} {
			g.add("verify-len", c09In{F: "Verify", K: []string{k}, B: []string{g.bl(n), g.rnd(16)}, H: good})
		}
		for _, s := range []string{"G", "G/47", "G/49", "G/63", "G/65", "z48", "z64", "o48", "o64", "xc0+z47", "xe0+z47"} {
			g.add("verify-sig", c09In{F: "Verify", K: []string{k}, B: []string{s, g.rnd(16)}, H: good})
		}
		for _, h := range c09HasherSpecs {
			for _, s := range []string{"G", "r48.5", "r64.5"} {
				for _, dn := range []int{-1, c09Max} {
					if !g.thorough && dn > 0 && s != "G" {
						continue
					}
					g.add("verify-hasher", c09In{F: "Verify", K: []string{k}, B: []string{s, g.bl(dn)}, H: h})
				}
			}
		}
	}
	for _, k := range []string{"bls.1", "p256.1", "k1.1", "nil"} {
		g.add("pop", c09In{F: "BLSGeneratePOP", K: []string{k}})
	}
	for _, k := range []string{"bls.1", "bls.2", "id", "p256.1", "k1.1", "nil"} {
		for _, s := range []string{"nil", "e", "r1.1", "r47.1", "r48.1", "r49.1", "r65536.1", "POP", "POP/47", "POP/49", "z48", "xc0+z47", "o48"} {
			g.add("pop", c09In{F: "BLSVerifyPOP", K: []string{k}, B: []string{s}})
		}
	}
	if g.thorough {
		for i := 0; i < 1200; i++ {
			k := vkeys[g.r.IntN(len(vkeys))]
			s := g.bl(g.r.IntN(100) - 1)
			if g.r.IntN(3) == 0 {
				s = fmt.Sprintf("G/%d", 40+g.r.IntN(30))
			}
			g.add("verify-rand", c09In{F: "Verify", K: []string{k}, B: []string{s, g.bl(g.r.IntN(300) - 1)}, H: g.pick(c09HasherSpecs)})
		}
		for i := 0; i < 300; i++ {
			g.add("sign-rand", c09In{F: "Sign", K: []string{g.pick(keys)}, B: []string{g.bl(g.r.IntN(300) - 1)}, H: g.pick(c09HasherSpecs)})
		}
	}
}

// hostile shapes of a list of n elements: good(i) everywhere except bad at one position
func c09Holes(n int, good func(int) string, bads []string, pos []int) [][]string {
	var out [][]string
	for _, b := range bads {
		for _, p := range pos {
			if p < 0 || p >= n {
				continue
			}
			l := c09nstr(n, good)
			l[p] = b
			out = append(out, l)
		}
	}
	return out
}

var c09BadSigs = []string{"nil", "e", "r1.3", "r47.3", "r49.3", "r65536.3", "r48.3", "z48", "xc0+z47"}

func (g *c09G) aggregate() {
	gs := func(i int) string { return fmt.Sprintf("S%d", i+1) }
	lists := [][]string{{"<nil>"}, nil, {"nil"}, {"e"}, {"S1"}, {"S1", "S2", "S3"}, {"S1", "S1"}, {"xc0+z47"}, {"xc0+z47", "S1"},
		{"r48.1", "r48.2"}, c09nstr(64, gs), {"nil", "nil"}}
	lists = append(lists, c09Holes(3, gs, c09BadSigs, []int{0, 1, 2})...)
	for _, l := range lists {
		g.add("agg-sigs", c09In{F: "AggregateBLSSignatures", L: l})
	}
	kl := [][]string{{"<nil>"}, nil, {"nil"}, {"bls.1"}, {"bls.1", "bls.2", "bls.3"}, {"bls.1", "bls.1"}, {"p256.1"}, {"k1.1"},
		c09nstr(254, func(i int) string { return c09bls(1000 + i) })}
	kl = append(kl, c09Holes(3, func(i int) string { return c09bls(i + 1) }, []string{"p256.1", "k1.1", "nil"}, []int{0, 1, 2})...)
	for _, l := range kl {
		g.add("agg-sk", c09In{F: "AggregateBLSPrivateKeys", L: l})
		g.add("agg-pk", c09In{F: "AggregateBLSPublicKeys", L: l})
	}
	for _, l := range [][]string{{"id"}, {"id", "bls.1"}, {"bls.1", "id", "id"}} {
		g.add("agg-pk", c09In{F: "AggregateBLSPublicKeys", L: l})
	}
	rl := [][]string{{"<nil>"}, nil, {"bls.1"}, {"bls.2", "bls.3"}, {"p256.1", "bls.2"}, {"bls.2", "k1.1"}, {"bls.2", "nil", "bls.3"}, {"nil"}, {"id"}, {"bls.1", "bls.1"}}
	for _, k := range []string{"bls.1", "id", "p256.1", "k1.1", "nil"} {
		for _, l := range rl {
			g.add("remove-pk", c09In{F: "RemoveBLSPublicKeys", K: []string{k}, L: l})
		}
	}
	for _, s := range []string{"nil", "e", "r1.1", "r47.1", "z48", "xc0+z47", "xc0+z46+x01", "r48.1", "xc0+z48", "r65536.1", "x40+z47"} {
		g.add("sig-identity", c09In{F: "IsBLSSignatureIdentity", B: []string{s}})
	}
	if g.thorough {
		for i := 0; i < 400; i++ {
			n := g.r.IntN(8)
			l := c09nstr(n, func(i int) string {
				if g.r.IntN(4) == 0 {
					return g.pick(c09BadSigs)
				}
				return gs(g.r.IntN(6))
			})
			g.add("agg-sigs-rand", c09In{F: "AggregateBLSSignatures", L: l})
			kk := c09nstr(n, func(i int) string {
				if g.r.IntN(5) == 0 {
					return g.pick([]string{"p256.1", "k1.1", "nil", "id"})
				}
				return c09bls(1 + g.r.IntN(6))
			})
			g.add("agg-pk-rand", c09In{F: "AggregateBLSPublicKeys", L: kk})
			g.add("remove-pk-rand", c09In{F: "RemoveBLSPublicKeys", K: []string{g.pick([]string{"bls.1", "id", "p256.1", "nil"})}, L: kk})
		}
	}
}

func (g *c09G) multi() {
	pkl := [][]string{{"<nil>"}, nil, {"bls.1"}, {"bls.1", "bls.2", "bls.3"}, {"p256.1", "bls.2", "bls.3"}, {"bls.1", "bls.2", "k1.1"},
		{"bls.1", "nil", "bls.3"}, {"nil"}, {"id"}, {"bls.1", "id"}, {"bls.1", "bls.1"}}
	sigs := []string{"A", "A/47", "A/49", "nil", "e", "r48.9", "z48", "xc0+z47", "r65536.9"}
	for _, l := range pkl {
		for _, s := range sigs {
			g.add("one-msg", c09In{F: "VerifyBLSSignatureOneMessage", L: l, B: []string{s, g.rnd(24)}, H: "xof"})
		}
	}
	for _, h := range c09HasherSpecs {
		for _, mn := range []int{-1, 0, c09Max} {
			g.add("one-msg-hasher", c09In{F: "VerifyBLSSignatureOneMessage", L: pkl[3], B: []string{"A", g.bl(mn)}, H: h})
		}
	}
	// many messages
	msgs := func(n int) []string {
		return c09nstr(n, func(i int) string { return fmt.Sprintf("r%d.%d", 8+i, 100+i) })
	}
	xofs := func(n int) []string { return c09nstr(n, func(int) string { return "xof" }) }
	for _, l := range pkl {
		n := len(l)
		if l != nil && l[0] == "<nil>" {
			n = 0
		}
		for _, s := range []string{"A", "A/47", "r48.9", "nil"} {
			g.add("many-msg", c09In{F: "VerifyBLSSignatureManyMessages", L: l, B: []string{s}, M: msgs(n), HL: xofs(n)})
		}
	}
	three := pkl[3]
	for _, dm := range []int{-3, -1, 0, 1} {
		for _, dh := range []int{-3, -1, 0, 1} {
			g.add("many-msg-lens", c09In{F: "VerifyBLSSignatureManyMessages", L: three, B: []string{"A"}, M: msgs(3 + dm), HL: xofs(3 + dh)})
		}
	}
	g.add("many-msg-lens", c09In{F: "VerifyBLSSignatureManyMessages", L: three, B: []string{"A"}, M: []string{"<nil>"}, HL: []string{"<nil>"}})
	g.add("many-msg-lens", c09In{F: "VerifyBLSSignatureManyMessages", L: []string{"<nil>"}, B: []string{"A"}, M: []string{"<nil>"}, HL: []string{"<nil>"}})
	for _, hl := range c09Holes(3, func(int) string { return "xof" }, []string{"nil", "kmac127", "kmac129", "kmac0", "sha2_256", "sha3_384"}, []int{0, 1, 2}) {
		g.add("many-msg-hashers", c09In{F: "VerifyBLSSignatureManyMessages", L: three, B: []string{"A"}, M: msgs(3), HL: hl})
	}
	for _, ml := range [][]string{{"nil", "nil", "nil"}, {"e", "r8.1", "r65536.2"}, {"r8.1", "r8.1", "r8.1"}, {"r8.1", "r8.1", "r9.2"}} {
		g.add("many-msg-msgs", c09In{F: "VerifyBLSSignatureManyMessages", L: three, B: []string{"A"}, M: ml, HL: xofs(3)})
		g.add("many-msg-msgs", c09In{F: "VerifyBLSSignatureManyMessages", L: []string{"bls.1", "bls.1", "bls.2"}, B: []string{"A"}, M: ml, HL: xofs(3)})
	}
	// batch
	is := func(n int) []string { return c09nstr(n, func(i int) string { return fmt.Sprintf("I%d", i) }) }
	for _, l := range pkl {
		n := len(l)
		if l != nil && l[0] == "<nil>" {
			n = 0
		}
		g.add("batch", c09In{F: "BatchVerifyBLSSignaturesOneMessage", L: l, M: is(n), B: []string{g.rnd(24)}, H: "xof"})
	}
	for _, d := range []int{-3, -1, 1, 2} {
		g.add("batch-lens", c09In{F: "BatchVerifyBLSSignaturesOneMessage", L: three, M: is(3 + d), B: []string{g.rnd(24)}, H: "xof"})
	}
	g.add("batch-lens", c09In{F: "BatchVerifyBLSSignaturesOneMessage", L: three, M: []string{"<nil>"}, B: []string{"nil"}, H: "xof"})
	g.add("batch-lens", c09In{F: "BatchVerifyBLSSignaturesOneMessage", L: []string{"<nil>"}, M: is(2), B: []string{"nil"}, H: "xof"})
	for _, sl := range c09Holes(3, func(i int) string { return fmt.Sprintf("I%d", i) }, c09BadSigs, []int{0, 1, 2}) {
		g.add("batch-sigs", c09In{F: "BatchVerifyBLSSignaturesOneMessage", L: three, M: sl, B: []string{g.rnd(24)}, H: "xof"})
	}
	g.add("batch-sigs", c09In{F: "BatchVerifyBLSSignaturesOneMessage", L: three, M: []string{"nil", "e", "r47.1"}, B: []string{"e"}, H: "xof"})
	g.add("batch-sigs", c09In{F: "BatchVerifyBLSSignaturesOneMessage", L: three, M: []string{"I1", "I0", "I2"}, B: []string{"e"}, H: "xof"})
	for _, h := range c09HasherSpecs {
		g.add("batch-hasher", c09In{F: "BatchVerifyBLSSignaturesOneMessage", L: three, M: is(3), B: []string{g.bl(c09Max)}, H: h})
	}
	if g.thorough {
		for i := 0; i < 500; i++ {
			n := g.r.IntN(6)
			l := c09nstr(n, func(int) string {
				if g.r.IntN(6) == 0 {
					return g.pick([]string{"p256.1", "k1.1", "nil", "id"})
				}
				return c09bls(1 + g.r.IntN(4))
			})
			m := n
			if g.r.IntN(4) == 0 {
				m = g.r.IntN(7)
			}
			sl := c09nstr(m, func(i int) string {
				if g.r.IntN(4) == 0 {
					return g.pick(c09BadSigs)
				}
				return fmt.Sprintf("I%d", i)
			})
			g.add("batch-rand", c09In{F: "BatchVerifyBLSSignaturesOneMessage", L: l, M: sl, B: []string{g.bl(g.r.IntN(40) - 1)}, H: g.pick(c09HasherSpecs[:5])})
			hl := c09nstr(m, func(int) string {
				if g.r.IntN(6) == 0 {
					return g.pick(c09HasherSpecs)
				}
				return "xof"
			})
			g.add("many-rand", c09In{F: "VerifyBLSSignatureManyMessages", L: l, B: []string{g.pick(sigs)}, M: msgs(g.r.IntN(7)), HL: hl})
			g.add("one-rand", c09In{F: "VerifyBLSSignatureOneMessage", L: l, B: []string{g.pick(sigs), g.bl(g.r.IntN(40) - 1)}, H: g.pick(c09HasherSpecs[:5])})
		}
	}
}

func (g *c09G) spock() {
	hs := []string{"xof", "nil", "kmac127", "kmac129", "sha2_256"}
	for _, k := range []string{"bls.1", "p256.1", "k1.1", "nil"} {
		for _, dn := range []int{-1, 0, c09Max} {
			g.add("spock-prove", c09In{F: "SPOCKProve", K: []string{k}, B: []string{g.bl(dn)}, H: "xof"})
		}
		for _, h := range hs[1:] {
			g.add("spock-prove", c09In{F: "SPOCKProve", K: []string{k}, B: []string{g.rnd(10)}, H: h})
		}
	}
	proofs := []string{"G", "G/47", "G/49", "nil", "e", "r48.4", "z48", "xc0+z47", "r65536.4"}
	for _, k := range []string{"bls.1", "id", "p256.1", "k1.1", "nil"} {
		for _, p := range proofs {
			g.add("spock-data", c09In{F: "SPOCKVerifyAgainstData", K: []string{k}, B: []string{p, g.rnd(10)}, H: "xof"})
		}
		for _, h := range hs[1:] {
			g.add("spock-data", c09In{F: "SPOCKVerifyAgainstData", K: []string{k}, B: []string{"G", "nil"}, H: h})
		}
	}
	ks := []string{"bls.1", "bls.2", "id", "p256.1", "nil"}
	for _, k1 := range ks {
		for _, k2 := range ks {
			g.add("spock-verify", c09In{F: "SPOCKVerify", K: []string{k1, k2}, B: []string{"G1", "G2", "r10.1"}})
		}
	}
	p1s := []string{"G1", "G1/47", "G1/49", "nil", "e", "r48.4", "xc0+z47", "r65536.4"}
	for _, p1 := range p1s {
		for _, p2 := range []string{"G2", "G2/49", "nil", "xc0+z47"} {
			g.add("spock-verify", c09In{F: "SPOCKVerify", K: []string{"bls.1", "bls.2"}, B: []string{p1, p2, "r10.1"}})
			if g.thorough {
				g.add("spock-verify", c09In{F: "SPOCKVerify", K: []string{"bls.1", "bls.1"}, B: []string{p2, p1, "r10.1"}})
			}
		}
	}
}

func c09itoa(l []int64) []string {
	s := make([]string, len(l))
	for i, v := range l {
		s[i] = strconv.FormatInt(v, 10)
	}
	return s
}

// hostile integers around a size
func c09Around(n int64) []int64 {
	l := []int64{c09MinI, -1, 0, n - 1, n, n + 1, 255, 256, c09MaxI}
	var out []int64
	seen := map[int64]bool{}
	for _, v := range l {
		if !seen[v] {
			seen[v] = true
			out = append(out, v)
		}
	}
	return out
}

func (g *c09G) threshold() {
	// key generation
	sizes := []int64{c09MinI, -1, 0, 1, 2, 3, 254, 255, 256, c09MaxI}
	for _, n := range sizes {
		ths := []int64{c09MinI, -1, 0, 1, n - 1, n, c09MaxI}
		if n == c09MinI {
			ths = []int64{c09MinI, -1, 0, 1, c09MaxI}
		}
		for _, t := range ths {
			if !g.thorough && n == 254 && t > 1 && t < 254 {
				continue // one expensive valid generation is enough in the quick tier
			}
			g.add("ts-keygen", c09In{F: "BLSThresholdKeyGen", A: []int64{n, t}, B: []string{g.rnd(32)}})
		}
	}
	for _, sl := range []int{-1, 0, 31, 32, 33, c09Max} {
		g.add("ts-keygen-seed", c09In{F: "BLSThresholdKeyGen", A: []int64{3, 1}, B: []string{g.bl(sl)}})
		g.add("ts-keygen-seed", c09In{F: "BLSThresholdKeyGen", A: []int64{0, 0}, B: []string{g.bl(sl)}})
	}
	for _, t := range []int64{c09MinI, -1, 0, 1, 2, c09MaxI} {
		for _, k := range []int64{c09MinI, -1, 0, 1, 2, 3, c09MaxI} {
			g.add("enough", c09In{F: "EnoughShares", A: []int64{t, k}})
		}
	}
	// stateless reconstruction
	vs := func(n int) []string { return c09nstr(n, func(i int) string { return fmt.Sprintf("V%d", i) }) }
	sg := func(n int) []string { return c09nstr(n, func(i int) string { return strconv.Itoa(i) }) }
	seed := g.seed()
	for _, n := range []int64{c09MinI, -1, 0, 1, 2, 8, 254, 255, c09MaxI} {
		for _, t := range []int64{c09MinI, -1, 0, 1, 2, n - 1, n, c09MaxI} {
			g.add("ts-rec-params", c09In{F: "BLSReconstructThresholdSignature", A: []int64{n, t}, L: vs(3), M: sg(3), S: seed})
		}
	}
	for _, t := range []int{1, 2} {
		n := int64(8)
		pos := []int{0, 1, t, t + 1, t + 2}
		for _, l := range c09Holes(t+3, func(i int) string { return fmt.Sprintf("V%d", i) }, c09BadSigs, pos) {
			g.add("ts-rec-shares", c09In{F: "BLSReconstructThresholdSignature", A: []int64{n, int64(t)}, L: l, M: sg(t + 3), S: seed})
		}
		for _, l := range c09Holes(t+1, func(i int) string { return fmt.Sprintf("V%d", i) }, []string{"nil", "e", "r47.1", "r49.1"}, []int{0, t}) {
			g.add("ts-rec-shares", c09In{F: "BLSReconstructThresholdSignature", A: []int64{n, int64(t)}, L: l, M: sg(t + 1), S: seed})
		}
		for _, bad := range []int64{c09MinI, -1, 8, 9, 255, 256, 257, c09MaxI} {
			for _, p := range pos {
				if !g.thorough && p == 1 {
					continue
				}
				s := sg(t + 3)
				s[p] = strconv.FormatInt(bad, 10)
				g.add("ts-rec-signers", c09In{F: "BLSReconstructThresholdSignature", A: []int64{n, int64(t)}, L: vs(t + 3), M: s, S: seed})
			}
		}
		for _, p := range [][2]int{{0, 1}, {0, t}, {t, t + 1}, {t + 1, t + 2}, {0, t + 2}} {
			s := sg(t + 3)
			s[p[1]] = s[p[0]]
			g.add("ts-rec-dup", c09In{F: "BLSReconstructThresholdSignature", A: []int64{n, int64(t)}, L: vs(t + 3), M: s, S: seed})
		}
		for _, d := range [][2]int{{0, 0}, {t, t}, {t + 1, t}, {t, t + 1}, {t + 1, t + 2}, {t + 2, t + 1}, {t + 1, 0}, {0, t + 1}} {
			g.add("ts-rec-lens", c09In{F: "BLSReconstructThresholdSignature", A: []int64{n, int64(t)}, L: vs(d[0]), M: sg(d[1]), S: seed})
		}
		g.add("ts-rec-lens", c09In{F: "BLSReconstructThresholdSignature", A: []int64{n, int64(t)}, L: []string{"<nil>"}, M: []string{"<nil>"}, S: seed})
		g.add("ts-rec-lens", c09In{F: "BLSReconstructThresholdSignature", A: []int64{n, int64(t)}, L: vs(t + 1), M: []string{"<nil>"}, S: seed})
		g.add("ts-rec-lens", c09In{F: "BLSReconstructThresholdSignature", A: []int64{n, int64(t)}, L: []string{"<nil>"}, M: sg(t + 1), S: seed})
		g.add("ts-rec-good", c09In{F: "BLSReconstructThresholdSignature", A: []int64{n, int64(t)}, L: vs(t + 1), M: sg(t + 1), S: seed})
		g.add("ts-rec-good", c09In{F: "BLSReconstructThresholdSignature", A: []int64{n, int64(t)}, L: vs(8), M: sg(8), S: seed})
		g.add("ts-rec-rand", c09In{F: "BLSReconstructThresholdSignature", A: []int64{n, int64(t)}, L: c09nstr(t+1, func(i int) string { return fmt.Sprintf("r48.%d", i) }), M: sg(t + 1), S: seed})
	}
	if g.thorough {
		for i := 0; i < 800; i++ {
			t := 1 + g.r.IntN(3)
			k := g.r.IntN(t + 4)
			l := c09nstr(k, func(i int) string {
				if g.r.IntN(5) == 0 {
					return g.pick(c09BadSigs)
				}
				return fmt.Sprintf("V%d", i%8)
			})
			ks := k
			if g.r.IntN(6) == 0 {
				ks = g.r.IntN(t + 5)
			}
			s := c09nstr(ks, func(i int) string {
				switch g.r.IntN(8) {
				case 0:
					return strconv.FormatInt(c09Around(8)[g.r.IntN(9)], 10)
				case 1:
					return strconv.Itoa(g.r.IntN(8))
				}
				return strconv.Itoa(i % 8)
			})
			n := int64(8)
			if g.r.IntN(8) == 0 {
				n = int64(g.r.IntN(6))
			}
			g.add("ts-rec-mix", c09In{F: "BLSReconstructThresholdSignature", A: []int64{n, int64(t)}, L: l, M: s, S: seed})
		}
	}
	// constructors
	keysN := func(n int) []string { return c09nstr(n, func(i int) string { return c09bls(1000 + i) }) }
	for _, n := range []int{0, 1, 2, 3, 254, 255} {
		for _, t := range []int64{c09MinI, -1, 0, 1, int64(n) - 1, int64(n), c09MaxI} {
			l := keysN(n)
			g.add("insp-ctor", c09In{F: "NewBLSThresholdSignatureInspector", K: []string{"bls.1"}, L: l, A: []int64{t}, B: []string{g.rnd(10), "x633039"}})
		}
	}
	g.add("insp-ctor", c09In{F: "NewBLSThresholdSignatureInspector", K: []string{"bls.1"}, L: []string{"<nil>"}, A: []int64{1}, B: []string{"nil", "e"}})
	five := func(i int) string { return c09bls(1000 + i) }
	for _, l := range c09Holes(5, five, []string{"p256.1", "k1.1", "nil", "id"}, []int{0, 2, 4}) {
		g.add("insp-ctor-keys", c09In{F: "NewBLSThresholdSignatureInspector", K: []string{"bls.1"}, L: l, A: []int64{2}, B: []string{g.rnd(10), "x633039"}})
		g.add("part-ctor-keys", c09In{F: "NewBLSThresholdSignatureParticipant", K: []string{"bls.1", c09bls(1001)}, L: l, A: []int64{2, 1}, B: []string{g.rnd(10), "x633039"}})
	}
	for _, gk := range []string{"p256.1", "k1.1", "nil", "id"} {
		g.add("insp-ctor-keys", c09In{F: "NewBLSThresholdSignatureInspector", K: []string{gk}, L: keysN(5), A: []int64{2}, B: []string{g.rnd(10), "x633039"}})
		g.add("part-ctor-keys", c09In{F: "NewBLSThresholdSignatureParticipant", K: []string{gk, c09bls(1001)}, L: keysN(5), A: []int64{2, 1}, B: []string{g.rnd(10), "x633039"}})
	}
	for _, mt := range [][2]string{{"nil", "e"}, {"e", "nil"}, {g.bl(c09Max), g.bl(c09Max)}, {"r5.1", "o300"}} {
		g.add("insp-ctor-msg", c09In{F: "NewBLSThresholdSignatureInspector", K: []string{"bls.1"}, L: keysN(5), A: []int64{2}, B: []string{mt[0], mt[1]}})
		g.add("part-ctor-msg", c09In{F: "NewBLSThresholdSignatureParticipant", K: []string{"bls.1", c09bls(1001)}, L: keysN(5), A: []int64{2, 1}, B: []string{mt[0], mt[1]}})
	}
	for _, n := range []int{0, 1, 2, 5, 254, 255} {
		for _, my := range c09Around(int64(n)) {
			sk := "bls.1"
			if my >= 0 && my < int64(n) {
				sk = c09bls(1000 + int(my))
			}
			g.add("part-ctor", c09In{F: "NewBLSThresholdSignatureParticipant", K: []string{"bls.1", sk}, L: keysN(n), A: []int64{1, my}, B: []string{g.rnd(10), "x633039"}})
		}
		for _, t := range []int64{c09MinI, -1, 0, int64(n) - 1, int64(n), c09MaxI} {
			g.add("part-ctor", c09In{F: "NewBLSThresholdSignatureParticipant", K: []string{"bls.1", c09bls(1000)}, L: keysN(n), A: []int64{t, 0}, B: []string{g.rnd(10), "x633039"}})
		}
	}
	for _, sk := range []string{"p256.1", "k1.1", "nil", "bls.1", c09bls(1002)} {
		for _, my := range []int64{-1, 1, 5} {
			g.add("part-ctor-sk", c09In{F: "NewBLSThresholdSignatureParticipant", K: []string{"bls.1", sk}, L: keysN(5), A: []int64{2, my}, B: []string{g.rnd(10), "x633039"}})
		}
	}
}

func (g *c09G) inspector() {
	groups := [][2]int{{5, 2}, {2, 1}}
	if g.thorough {
		groups = append(groups, [2]int{9, 3}, [2]int{3, 2})
	}
	for gi, gr := range groups {
		n, t := gr[0], gr[1]
		seed := g.seed()
		origs := c09Around(int64(n))
		for _, o := range origs {
			g.add("insp-has", c09In{F: "insp", Ops: []string{"HasShare"}, A: []int64{int64(n), int64(t), o}, S: seed})
			vi := 0
			if o >= 0 && o < int64(n) {
				vi = int(o)
			}
			wi := (vi + 1) % n
			shares := []string{"nil", "e", "r47.1", "r48.1", fmt.Sprintf("V%d", vi), fmt.Sprintf("V%d/47", vi), fmt.Sprintf("V%d/49", vi), "r49.1", "r65536.1",
				fmt.Sprintf("V%d", wi), "xc0+z47"}
			for si, sh := range shares {
				for mi, m := range []string{"VerifyShare", "TrustedAdd", "VerifyAndAdd"} {
					if gi > 0 && !g.thorough && (si+mi)%3 != 0 {
						continue
					}
					g.add("insp-call", c09In{F: "insp", Ops: []string{m}, A: []int64{int64(n), int64(t), o}, B: []string{sh}, S: seed})
				}
			}
		}
		// with shares added beforehand: duplicates, enough shares already
		pre1 := []string{"0:V0"}
		full := c09nstr(t+1, func(i int) string { return fmt.Sprintf("%d:V%d", i, i) })
		for _, pre := range [][]string{pre1, full} {
			for _, o := range []int64{0, int64(n) - 1, int64(n), -1, 256} {
				g.add("insp-pre", c09In{F: "insp", Ops: []string{"HasShare"}, A: []int64{int64(n), int64(t), o}, L: pre, S: seed})
				for _, m := range []string{"TrustedAdd", "VerifyAndAdd", "VerifyShare"} {
					for _, sh := range []string{"V0", fmt.Sprintf("V%d", n-1), "r47.1", "nil"} {
						g.add("insp-pre", c09In{F: "insp", Ops: []string{m}, A: []int64{int64(n), int64(t), o}, B: []string{sh}, L: pre, S: seed})
					}
				}
			}
		}
		// ThresholdSignature after TrustedAdd of threshold+1 shares, some of a wrong length
		ts := func(pre []string) {
			g.add("insp-thresholdsig", c09In{F: "insp", Ops: []string{"ThresholdSignature"}, A: []int64{int64(n), int64(t)}, L: pre, S: seed})
		}
		good := func(i int) string { return fmt.Sprintf("%d:V%d", i, i) }
		ts(full)
		ts(full[:t])
		ts(nil)
		ts(c09nstr(t+1, func(i int) string { return fmt.Sprintf("%d:V%d", n-1-i, n-1-i) }))
		for _, bad := range []string{"nil", "e", "r1.1", "r47.1", "r49.1", "r48.1", "V0/47", "V0/49", "xc0+z47", "r65536.1"} {
			for p := 0; p <= t; p++ {
				l := c09nstr(t+1, good)
				l[p] = fmt.Sprintf("%d:%s", p, bad)
				ts(l)
			}
			ts(c09nstr(t+1, func(i int) string { return fmt.Sprintf("%d:%s", i, bad) }))
		}
		ts(c09nstr(t+1, func(i int) string { return fmt.Sprintf("%d:V%d", i, (i+1)%n) })) // well-formed shares of other signers
		g.add("insp-enough", c09In{F: "insp", Ops: []string{"EnoughShares"}, A: []int64{int64(n), int64(t)}, L: full, S: seed})
	}
	if g.thorough {
		for i := 0; i < 1500; i++ {
			n, t := 5, 2
			k := g.r.IntN(t + 3)
			pre := c09nstr(k, func(i int) string {
				sh := fmt.Sprintf("V%d", i%n)
				if g.r.IntN(3) == 0 {
					sh = g.pick([]string{"nil", "e", "r1.1", "r47.1", "r49.1", "r48.1", "V1/47"})
				}
				return fmt.Sprintf("%d:%s", c09Around(int64(n))[g.r.IntN(9)]%300, sh)
			})
			for j := range pre {
				if g.r.IntN(2) == 0 {
					pre[j] = fmt.Sprintf("%d:%s", g.r.IntN(n), pre[j][strings.IndexByte(pre[j], ':')+1:])
				}
			}
			m := g.pick([]string{"VerifyShare", "TrustedAdd", "VerifyAndAdd", "HasShare", "ThresholdSignature"})
			o := c09Around(int64(n))[g.r.IntN(9)]
			if g.r.IntN(2) == 0 {
				o = int64(g.r.IntN(n))
			}
			sh := g.pick([]string{"nil", "e", "r47.1", "r48.1", "V0", "V1", "V4", "V2/49", "r49.1"})
			g.add("insp-mix", c09In{F: "insp", Ops: []string{m}, A: []int64{int64(n), int64(t), o}, B: []string{sh}, L: pre, S: 77})
		}
	}
}

func (g *c09G) hashes() {
	keyLens := []int{-1, 0, 15, 16, 17, 167, 168, c09Max}
	outs := []int64{-1, c09MinI, 0, 1, 128, c09Max}
	for _, kl := range keyLens {
		for _, o := range outs {
			g.add("kmac-ctor", c09In{F: "hash.NewKMAC_128", B: []string{g.bl(kl), "nil"}, A: []int64{o}})
		}
	}
	for _, cl := range []int{0, 12, c09Max} {
		for _, kl := range []int{15, 16, 168} {
			for _, o := range []int64{-1, 0, 128} {
				g.add("kmac-ctor", c09In{F: "hash.NewKMAC_128", B: []string{g.bl(kl), g.bl(cl)}, A: []int64{o}})
			}
		}
	}
	for _, n := range []int{-1, 0, 1, 135, 136, 137, c09Max} {
		g.add("hash-pure", c09In{F: "hash.ComputeSHA3_256", B: []string{g.bl(n)}})
		g.add("hash-pure", c09In{F: "hash.ComputeSHA2_256", B: []string{g.bl(n)}})
	}
	ctors := []string{"sha2_256", "sha2_384", "sha3_256", "sha3_384", "keccak", "kmac128", "kmac0", "kmac1", "kmac65536"}
	long := fmt.Sprintf("r%d.1", c09Max)
	seqs := [][]string{
		{"W:nil"}, {"W:e"}, {"W:r1.1"}, {"W:" + long}, {"C:nil"}, {"C:e"}, {"C:r1.1"}, {"C:" + long}, {"S"}, {"R"}, {"Z"},
		{"S", "S"}, {"S", "W:r10.1"}, {"S", "W:" + long}, {"S", "W:nil"}, {"S", "S", "S"}, {"S", "W:r10.1", "S"},
		{"W:r135.1", "W:r1.1", "S"}, {"W:r136.1", "S"}, {"W:r103.1", "S"}, {"W:r104.1", "S"}, {"W:r137.1", "S", "S"},
		{"C:r10.1", "W:r10.1", "S"}, {"R", "S"}, {"W:" + long, "R", "W:r1.1", "S"}, {"S", "C:r5.1"}, {"C:r5.1", "S"},
		{"S", "R"}, {"S", "R", "W:r200.1", "S"}, {"W:r200.1", "C:r200.1"}, {"S", "Z"},
	}
	for _, c := range ctors {
		for _, s := range seqs {
			g.add("hasher-seq", c09In{F: "hasher", H: c, Ops: s})
		}
	}
	if g.thorough {
		for i := 0; i < 2500; i++ {
			k := 1 + g.r.IntN(7)
			ops := c09nstr(k, func(int) string {
				switch g.r.IntN(7) {
				case 0:
					return "S"
				case 1:
					return "R"
				case 2:
					return "C:" + g.bl(g.r.IntN(300)-1)
				case 3:
					return "Z"
				}
				return "W:" + g.bl(g.r.IntN(300)-1)
			})
			g.add("hasher-mix", c09In{F: "hasher", H: g.pick(ctors[:8]), Ops: ops})
		}
	}
}

func (g *c09G) prg() {
	for _, sl := range []int{-1, 0, 31, 32, 33, c09Max} {
		for _, cl := range []int{-1, 0, 12, 13, c09Max} {
			g.add("prg-ctor", c09In{F: "random.NewChacha20PRG", B: []string{g.bl(sl), g.bl(cl)}})
		}
	}
	for _, n := range []int{-1, 0, 51, 52, 53, c09Max} {
		g.add("prg-restore", c09In{F: "random.RestoreChacha20PRG", B: []string{g.bl(n)}})
	}
	ctrs := []uint64{0, 63, 64, 1<<32 - 1, 1 << 32, (1<<32 - 1) * 64, (1<<32-1)*64 + 63, 1 << 38, 1<<38 + 5, 1 << 63, math.MaxUint64}
	st := func(c uint64) string {
		b := make([]byte, 8)
		binary.LittleEndian.PutUint64(b, c)
		return g.rnd(44) + "+x" + hx(b)
	}
	for _, c := range ctrs {
		g.add("prg-restore", c09In{F: "random.RestoreChacha20PRG", B: []string{st(c)}})
	}
	// reads: fresh generator and generators restored far from the 2^38-byte end of the keystream
	for _, n := range []int{-1, 0, 1, 64, 65, c09Max} {
		g.add("prg-read", c09In{F: "prg", Ops: []string{"Read"}, B: []string{g.bl(n)}, S: g.seed()})
		for _, c := range []uint64{63, 1 << 20, 1<<38 + 5, 1 << 63} {
			g.add("prg-read", c09In{F: "prg", Ops: []string{"Read"}, B: []string{g.bl(n), st(c)}})
		}
	}
	for _, n := range []uint64{0, 1, 2, 255, 256, 1 << 32, 1 << 63, math.MaxUint64} {
		g.add("prg-uintn", c09In{F: "prg", Ops: []string{"UintN"}, U: []uint64{n}, S: g.seed()})
	}
	ns := []int64{c09MinI, -1, 0, 1, 5, c09Max}
	ms := []int64{c09MinI, -1, 0, 1, 5, 6, c09Max, c09MaxI}
	for _, n := range ns {
		g.add("prg-perm", c09In{F: "prg", Ops: []string{"Permutation"}, A: []int64{n}, S: g.seed()})
		for _, sw := range []string{"noop", "nil"} {
			g.add("prg-shuffle", c09In{F: "prg", Ops: []string{"Shuffle"}, A: []int64{n}, K: []string{sw}, S: g.seed()})
		}
		for _, m := range ms {
			g.add("prg-subperm", c09In{F: "prg", Ops: []string{"SubPermutation"}, A: []int64{n, m}, S: g.seed()})
			g.add("prg-samples", c09In{F: "prg", Ops: []string{"Samples"}, A: []int64{n, m}, K: []string{"noop"}, S: g.seed()})
			if m <= 1 {
				g.add("prg-samples", c09In{F: "prg", Ops: []string{"Samples"}, A: []int64{n, m}, K: []string{"nil"}, S: g.seed()})
			}
		}
	}
	if g.thorough {
		for i := 0; i < 600; i++ {
			n := int64(g.r.IntN(40)) - 3
			m := int64(g.r.IntN(45)) - 3
			g.add("prg-mix", c09In{F: "prg", Ops: []string{g.pick([]string{"SubPermutation", "Samples"})}, A: []int64{n, m}, K: []string{"noop"}, S: g.seed()})
			g.add("prg-mix", c09In{F: "prg", Ops: []string{"UintN"}, U: []uint64{g.r.Uint64() >> g.r.IntN(64)}, S: g.seed()})
			g.add("prg-mix", c09In{F: "prg", Ops: []string{"Read"}, B: []string{g.bl(g.r.IntN(200) - 1)}, S: g.seed()})
		}
	}
}

func (g *c09G) dkgCtors() {
	sizes := []int64{-1, 0, 1, 2, 254, 255}
	if g.thorough {
		sizes = []int64{c09MinI, -1, 0, 1, 2, 3, 254, 255, 256, c09MaxI}
	}
	for _, ct := range []string{"NewFeldmanVSS", "NewFeldmanVSSQual", "NewJointFeldman"} {
		for _, n := range sizes {
			ths := []int64{-1, 0, 1, n - 1, n}
			if g.thorough {
				ths = append(ths, c09MinI, c09MaxI)
			}
			for _, t := range ths {
				g.add("dkg-ctor", c09In{F: "dkg.ctor", Ops: []string{ct}, A: []int64{n, t, 0, 0}, K: []string{"rec"}})
			}
		}
		for _, n := range []int64{5, 254} {
			for _, md := range [][2]int64{{-1, 0}, {0, -1}, {0, 0}, {n - 1, n - 1}, {n, 0}, {0, n}, {c09MinI, 0}, {c09MaxI, 0}, {0, c09MinI}, {0, c09MaxI}, {255, 0}, {256, 256}} {
				g.add("dkg-ctor-index", c09In{F: "dkg.ctor", Ops: []string{ct}, A: []int64{n, 2, md[0], md[1]}, K: []string{"rec"}})
			}
		}
		g.add("dkg-ctor-nilproc", c09In{F: "dkg.ctor", Ops: []string{ct}, A: []int64{3, 1, 0, 1}, K: []string{"nil"}})
		g.add("dkg-ctor-nilproc", c09In{F: "dkg.ctor", Ops: []string{ct}, A: []int64{0, 0, 0, 0}, K: []string{"nil"}})
	}
}

// ---- DKG scenarios ----
type c09Cx struct {
	g                       *c09G
	proto, n, t, my, dealer int
	phase                   int
	warm                    bool
	seed                    uint64
	other, main             int // another in-range index (neither my nor dealer); the most relevant sender
}

func (cx *c09Cx) sc(kind string, op c09DkgOp, pre ...c09DkgOp) {
	d := &c09Dkg{Proto: cx.proto, N: cx.n, T: cx.t, My: cx.my, Dealer: cx.dealer, Phase: cx.phase, Warm: cx.warm, Pre: pre, Op: op}
	cx.g.add(kind, c09In{F: "dkg", D: d, S: cx.seed})
}

func (cx *c09Cx) msg(kind string, bcast bool, orig int64, spec string) {
	op := "priv"
	if bcast {
		op = "bcast"
	}
	cx.sc(kind, c09DkgOp{Op: op, Orig: orig, Msg: spec})
}

func (cx *c09Cx) origins() []int64 {
	l := []int64{c09MinI, -1, 0, int64(cx.my), int64(cx.dealer), int64(cx.other), int64(cx.n - 1), int64(cx.n), int64(cx.n + 1), 255, 256, c09MaxI}
	seen := map[int64]bool{}
	var out []int64
	for _, v := range l {
		if !seen[v] {
			seen[v] = true
			out = append(out, v)
		}
	}
	return out
}

// exact payload size of a tag (0 if the tag has none)
func (cx *c09Cx) exact(tag int) int {
	switch tag {
	case 0:
		return 32
	case 1:
		return 96 * (cx.t + 1)
	case 2:
		return 1
	case 3:
		return 33
	}
	return 0
}

func c09Tagged(tag int, payload string) string {
	if payload == "" {
		return fmt.Sprintf("x%02x", tag)
	}
	return fmt.Sprintf("x%02x+%s", tag, payload)
}

func (cx *c09Cx) payload(n int, kind int) string {
	switch {
	case n == 0:
		return ""
	case kind == 1:
		return fmt.Sprintf("z%d", n)
	case kind == 2:
		return fmt.Sprintf("o%d", n)
	}
	return cx.g.rnd(n)
}

// the natural channel of a tag: private for shares, broadcast otherwise
func c09Chan(tag int) bool { return tag != 0 }

func (cx *c09Cx) grid(full bool) {
	g := cx.g
	main := int64(cx.main)
	for _, bc := range []bool{true, false} {
		cx.msg("dkg-empty", bc, main, "e")
		cx.msg("dkg-empty", bc, main, "nil")
	}
	for tag := 0; tag <= 3; tag++ {
		ex := cx.exact(tag)
		lens := []int{0, 1, ex - 1, ex, ex + 1, 1 << 12}
		seen := map[int]bool{}
		for _, n := range lens {
			if n < 0 || seen[n] {
				continue
			}
			seen[n] = true
			cx.msg("dkg-grid", c09Chan(tag), main, c09Tagged(tag, cx.payload(n, 0)))
			if n == ex || (full && n > 0) {
				cx.msg("dkg-grid-zero", c09Chan(tag), main, c09Tagged(tag, cx.payload(n, 1)))
			}
			if full && n > 0 {
				cx.msg("dkg-grid-ones", c09Chan(tag), main, c09Tagged(tag, cx.payload(n, 2)))
			}
		}
		// well-formed content
		var valid string
		switch tag {
		case 0:
			valid = fmt.Sprintf("x00+s.%d", 50+g.r.IntN(20))
		case 1:
			valid = fmt.Sprintf("x01+g%d.%d", cx.t+1, 60+g.r.IntN(20))
		case 2:
			valid = fmt.Sprintf("x02+x%02x", cx.dealerOr(cx.other))
		case 3:
			valid = fmt.Sprintf("x03+x%02x+s.%d", cx.other, 50+g.r.IntN(20))
		}
		cx.msg("dkg-wellformed", c09Chan(tag), main, valid)
		cx.msg("dkg-crosschannel", !c09Chan(tag), main, valid)
		if full {
			cx.msg("dkg-wellformed", c09Chan(tag), int64(cx.other), valid)
			cx.msg("dkg-crosschannel", !c09Chan(tag), int64(cx.other), c09Tagged(tag, cx.payload(ex, 0)))
		}
	}
	// a vector whose last point is malformed, a share / answer that is not a scalar of F_r*
	cx.msg("dkg-badcontent", true, main, fmt.Sprintf("x01+g%d.60+xe0+z95", cx.t))
	cx.msg("dkg-badcontent", false, main, "x00+o32")
	cx.msg("dkg-badcontent", true, main, fmt.Sprintf("x03+x%02x+o32", cx.other))
}

func (cx *c09Cx) dealerOr(d int) int {
	if cx.dealer >= 0 {
		return cx.dealer
	}
	return d
}

func (cx *c09Cx) otherTags(tags []int, full bool) {
	for i, tag := range tags {
		bc := i%2 == 0
		cx.msg("dkg-tag", bc, int64(cx.main), c09Tagged(tag, ""))
		if full || i%3 == 0 {
			cx.msg("dkg-tag", !bc, int64(cx.main), c09Tagged(tag, cx.payload(1, 0)))
		}
		if (full && i%16 == 0) || (!full && i%4 == 1) {
			cx.msg("dkg-tag", bc, int64(cx.main), c09Tagged(tag, cx.payload(1<<12, 0)))
		}
	}
}

func (cx *c09Cx) originSweep(full bool) {
	vec := fmt.Sprintf("x01+g%d.70", cx.t+1)
	share := "x00+s.71"
	for i, o := range cx.origins() {
		if full || i%2 == 0 {
			cx.msg("dkg-origin", true, o, vec)
		}
		if full || i%2 == 1 {
			cx.msg("dkg-origin", false, o, share)
		}
		if full {
			cx.msg("dkg-origin", true, o, "e")
			cx.msg("dkg-origin", false, o, c09Tagged(2, "x00"))
			cx.msg("dkg-origin", true, o, c09Tagged(9, ""))
		}
	}
}

func (cx *c09Cx) idxSweep(full bool) {
	idxs := []int{0, cx.my, cx.dealerOr(cx.other), cx.n - 1, cx.n, cx.n + 1, 254, 255}
	seen := map[int]bool{}
	origs := []int{cx.main, cx.other}
	if full && cx.dealer >= 0 {
		origs = append(origs, cx.dealer, cx.my)
	}
	for _, ix := range idxs {
		if seen[ix] {
			continue
		}
		seen[ix] = true
		so := map[int]bool{}
		for oi, o := range origs {
			if so[o] {
				continue
			}
			so[o] = true
			cx.msg("dkg-idx", true, int64(o), fmt.Sprintf("x02+x%02x", ix))
			if full || oi == 0 {
				cx.msg("dkg-idx", true, int64(o), fmt.Sprintf("x03+x%02x+s.72", ix))
			}
			if full {
				cx.msg("dkg-idx", true, int64(o), fmt.Sprintf("x03+x%02x+z32", ix))
				cx.msg("dkg-idx", false, int64(o), fmt.Sprintf("x02+x%02x", ix))
			}
		}
	}
}

func (cx *c09Cx) calls() {
	for _, p := range c09Around(int64(cx.n)) {
		cx.sc("dkg-force", c09DkgOp{Op: "force", Orig: p})
	}
	if cx.dealer >= 0 {
		cx.sc("dkg-force", c09DkgOp{Op: "force", Orig: int64(cx.dealer)})
	}
	for _, s := range []string{"nil", "e", "r15.1", "r31.1", "r32.1", "r33.1"} {
		cx.sc("dkg-start", c09DkgOp{Op: "start", Msg: s})
	}
	cx.sc("dkg-end", c09DkgOp{Op: "end"})
	cx.sc("dkg-timeout", c09DkgOp{Op: "timeout"})
}

func (g *c09G) dkg() {
	tags := []int{4, 5, 7, 127, 128, 254, 255}
	reps := 1
	if g.thorough {
		tags = tags[:0]
		for t := 4; t < 256; t++ {
			tags = append(tags, t)
		}
		reps = 2
	}
	combo := 0
	for rep := 0; rep < reps; rep++ {
		for proto := 0; proto < 3; proto++ {
			for role := 0; role < 2; role++ {
				phases := []int{0, 1, 2, 3, 4}
				if proto == 0 {
					phases = []int{0, 1, 4}
				}
				for _, phase := range phases {
					for _, warm := range []bool{false, true} {
						n := 3 + (combo+rep)%3
						t := 1 + (combo+rep)%2
						cx := &c09Cx{g: g, proto: proto, n: n, t: t, phase: phase, warm: warm, seed: g.seed()}
						if proto == 2 {
							cx.my, cx.dealer = role, -1
							cx.other = 2
							cx.main = cx.other
						} else {
							cx.dealer = (combo + 1) % n
							if role == 0 {
								cx.my = cx.dealer
							} else {
								cx.my = (cx.dealer + 1) % n
							}
							cx.other = (cx.dealer + 2) % n
							if cx.other == cx.my {
								cx.other = (cx.other + 1) % n
							}
							cx.main = cx.dealer
							if role == 0 {
								cx.main = cx.other
							}
						}
						if warm && (phase < 1 || phase > 3 || (proto != 2 && role == 0)) {
							continue
						}
						combo++
						full := g.thorough
						if phase == 0 || phase == 4 {
							// not running: every call is refused at once; a reduced sweep
							for tag := 0; tag <= 3; tag++ {
								cx.msg("dkg-idle", c09Chan(tag), int64(cx.main), c09Tagged(tag, cx.payload(cx.exact(tag), 0)))
							}
							cx.msg("dkg-idle", true, int64(cx.main), "e")
							cx.msg("dkg-idle", false, int64(cx.main), "nil")
							cx.msg("dkg-idle", true, -1, "x01")
							cx.msg("dkg-idle", false, int64(cx.n), "x00")
							cx.msg("dkg-idle", true, int64(cx.my), c09Tagged(255, ""))
							if full {
								cx.grid(false)
								cx.originSweep(false)
							}
							cx.calls()
							continue
						}
						cx.grid(full)
						cx.otherTags(tags, full)
						cx.originSweep(full)
						if proto != 0 || full {
							cx.idxSweep(full)
						} else {
							cx.msg("dkg-idx", true, int64(cx.main), fmt.Sprintf("x02+x%02x", cx.dealer))
							cx.msg("dkg-idx", true, int64(cx.main), fmt.Sprintf("x03+x%02x+s.72", cx.other))
						}
						if !warm || full {
							cx.calls()
						}
						if full {
							// random mixes
							for i := 0; i < 150; i++ {
								tag := g.r.IntN(256)
								if g.r.IntN(2) == 0 {
									tag = g.r.IntN(4)
								}
								ln := g.r.IntN(3*96 + 40)
								if g.r.IntN(3) == 0 {
									ln = cx.exact(tag%4) + g.r.IntN(3) - 1
									if ln < 0 {
										ln = 0
									}
								}
								os := cx.origins()
								o := os[g.r.IntN(len(os))]
								if g.r.IntN(2) == 0 {
									o = int64(g.r.IntN(cx.n))
								}
								cx.msg("dkg-mix", g.r.IntN(2) == 0, o, c09Tagged(tag, cx.payload(ln, g.r.IntN(4))))
							}
						}
					}
				}
			}
		}
	}
	// two-call scenarios that were defects of earlier revisions
	for _, phase := range []int{1} {
		// plain Feldman VSS: wrong-size vector from the dealer, then a well-sized share
		cx := &c09Cx{g: g, proto: 0, n: 4, t: 2, my: 1, dealer: 0, other: 2, main: 0, phase: phase, seed: g.seed()}
		for _, vec := range []string{"x01", "x01+z95", "x01+g2.60", "x01+g4.60", "x01+g2.60+z1"} {
			for _, sh := range []string{"x00+s.55", "x00+r32.1", "x00+z32"} {
				cx.sc("dkg-two", c09DkgOp{Op: "priv", Orig: 0, Msg: sh}, c09DkgOp{Op: "bcast", Orig: 0, Msg: vec})
			}
			cx.sc("dkg-two", c09DkgOp{Op: "end"}, c09DkgOp{Op: "bcast", Orig: 0, Msg: vec}, c09DkgOp{Op: "priv", Orig: 0, Msg: "x00+s.55"})
		}
		// invalid last point then a share; share first then a bad vector
		cx.sc("dkg-two", c09DkgOp{Op: "priv", Orig: 0, Msg: "x00+s.55"}, c09DkgOp{Op: "bcast", Orig: 0, Msg: "x01+g2.60+xe0+z95"})
		cx.sc("dkg-two", c09DkgOp{Op: "bcast", Orig: 0, Msg: "x01+z95"}, c09DkgOp{Op: "priv", Orig: 0, Msg: "x00+s.55"})
		cx.sc("dkg-two", c09DkgOp{Op: "bcast", Orig: 0, Msg: "x01+g3.60"}, c09DkgOp{Op: "priv", Orig: 0, Msg: "x00+s.55"})
		// Qual (and Joint): malformed share then vector
		for _, proto := range []int{1, 2} {
			q := &c09Cx{g: g, proto: proto, n: 4, t: 2, my: 1, dealer: 0, other: 2, main: 0, phase: phase, seed: g.seed()}
			if proto == 2 {
				q.dealer = -1
			}
			for _, sh := range []string{"e", "x00", "x00+z31", "x00+o32", "x07+r32.1", "x00+r33.1"} {
				for _, vec := range []string{"x01+g3.60", "x01+z288", "x01+z95", "x01+g2.60+xe0+z95"} {
					q.sc("dkg-two", c09DkgOp{Op: "bcast", Orig: 0, Msg: vec}, c09DkgOp{Op: "priv", Orig: 0, Msg: sh})
				}
			}
			// an unsolicited answer, then the complaint it answers; then timeouts and End
			q.sc("dkg-two", c09DkgOp{Op: "bcast", Orig: 2, Msg: "x02+x00"}, c09DkgOp{Op: "bcast", Orig: 0, Msg: "x03+x02+s.72"})
			q.sc("dkg-two", c09DkgOp{Op: "end"}, c09DkgOp{Op: "bcast", Orig: 0, Msg: "x03+x02+s.72"}, c09DkgOp{Op: "timeout"}, c09DkgOp{Op: "timeout"})
			q.sc("dkg-two", c09DkgOp{Op: "timeout"}, c09DkgOp{Op: "bcast", Orig: 0, Msg: "x03+x01+s.72"}, c09DkgOp{Op: "priv", Orig: 0, Msg: "x00+z31"})
		}
	}
	// Qual / plain / Joint dealer: Start with a short seed (refused), then messages from another participant
	for proto := 0; proto < 3; proto++ {
		d := &c09Cx{g: g, proto: proto, n: 4, t: 2, my: 0, dealer: 0, other: 2, main: 2, phase: 0, seed: g.seed()}
		if proto == 2 {
			d.dealer = -1
		}
		for _, s := range []string{"e", "r15.1", "r31.1"} {
			pre := c09DkgOp{Op: "start", Msg: s}
			d.sc("dkg-two", c09DkgOp{Op: "bcast", Orig: 2, Msg: "x02+x00"}, pre)
			d.sc("dkg-two", c09DkgOp{Op: "priv", Orig: 2, Msg: "x00+s.55"}, pre)
			d.sc("dkg-two", c09DkgOp{Op: "force", Orig: 0}, pre)
			d.sc("dkg-two", c09DkgOp{Op: "timeout"}, pre)
			d.sc("dkg-two", c09DkgOp{Op: "end"}, pre)
			d.sc("dkg-two", c09DkgOp{Op: "start", Msg: "r32.1"}, pre)
		}
	}
	// nil processor (documented exception): calls that reach a callback
	for proto := 0; proto < 3; proto++ {
		dl := 0
		if proto == 2 {
			dl = -1
		}
		mk := func(op c09DkgOp, my int) {
			g.add("dkg-nilproc", c09In{F: "dkg", S: g.seed(), D: &c09Dkg{Proto: proto, N: 3, T: 1, My: my, Dealer: dl, Phase: 0, NilProc: true,
				Pre: []c09DkgOp{{Op: "start", Msg: "r32.1"}}, Op: op}})
		}
		if proto != 2 { // a Joint-Feldman participant is a dealer: Start itself reaches a callback
			mk(c09DkgOp{Op: "bcast", Orig: 0, Msg: "e"}, 1)
			mk(c09DkgOp{Op: "priv", Orig: 0, Msg: "x07"}, 1)
		}
		g.add("dkg-nilproc", c09In{F: "dkg", S: g.seed(), D: &c09Dkg{Proto: proto, N: 3, T: 1, My: 0, Dealer: dl, Phase: 0, NilProc: true,
			Op: c09DkgOp{Op: "start", Msg: "r32.1"}}})
	}
}

// the recorded known finding prg-counter-overflow: each input is generated twice, once tagged
// (Case.Finding, Tag "finding") and once as its untagged shadow (Tag "shadow"), see c09In.Tag
func (g *c09G) probes() {
	st := func(c uint64) string {
		b := make([]byte, 8)
		binary.LittleEndian.PutUint64(b, c)
		return "r44.1+x" + hx(b)
	}
	both := func(in c09In) {
		in.Tag = "finding"
		c := mkcase("probe-prg-overflow", in)
		c.Finding = c09Finding
		g.cs = append(g.cs, c)
		in.Tag = "shadow"
		g.cs = append(g.cs, mkcase("probe-prg-overflow-shadow", in))
	}
	// a generator restored at the last block of the 2^38-byte keystream: the next reads overflow
	// the 32-bit block counter of golang.org/x/crypto/chacha20, which panics
	for _, c := range []uint64{(1<<32 - 1) * 64, (1<<32-1)*64 + 63, 1<<38 - 1} {
		for _, n := range []int{1, 64, 65, 129} {
			both(c09In{F: "prg", Ops: []string{"Read"}, B: []string{g.bl(n), st(c)}})
		}
		both(c09In{F: "prg", Ops: []string{"UintN"}, U: []uint64{1 << 40}, B: []string{"nil", st(c)}})
	}
}
