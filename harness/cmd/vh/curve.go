package main

// Minimal affine arithmetic on BLS12-381 E1 with math/big, used only to BUILD
// adversarial inputs (points outside G1, s+T, negations). Never used as an oracle:
// expected results are always computed by the Gallina model.

import (
	"math/big"
	"math/rand/v2"
)

type e1pt struct {
	x, y *big.Int
	inf  bool
}

var e1B = big.NewInt(4)

func fpAdd(a, b *big.Int) *big.Int { return new(big.Int).Mod(new(big.Int).Add(a, b), blsP) }
func fpSub(a, b *big.Int) *big.Int { return new(big.Int).Mod(new(big.Int).Sub(a, b), blsP) }
func fpMul(a, b *big.Int) *big.Int { return new(big.Int).Mod(new(big.Int).Mul(a, b), blsP) }
func fpInv(a *big.Int) *big.Int    { return new(big.Int).ModInverse(a, blsP) }

func e1Neg(p e1pt) e1pt {
	if p.inf {
		return p
	}
	return e1pt{new(big.Int).Set(p.x), fpSub(big.NewInt(0), p.y), false}
}

func e1Add(p, q e1pt) e1pt {
	if p.inf {
		return q
	}
	if q.inf {
		return p
	}
	var lam *big.Int
	if p.x.Cmp(q.x) == 0 {
		if fpAdd(p.y, q.y).Sign() == 0 {
			return e1pt{inf: true}
		}
		lam = fpMul(fpMul(big.NewInt(3), fpMul(p.x, p.x)), fpInv(fpMul(big.NewInt(2), p.y)))
	} else {
		lam = fpMul(fpSub(q.y, p.y), fpInv(fpSub(q.x, p.x)))
	}
	x3 := fpSub(fpSub(fpMul(lam, lam), p.x), q.x)
	y3 := fpSub(fpMul(lam, fpSub(p.x, x3)), p.y)
	return e1pt{x3, y3, false}
}

func e1Mul(k *big.Int, p e1pt) e1pt {
	r := e1pt{inf: true}
	for i := k.BitLen() - 1; i >= 0; i-- {
		r = e1Add(r, r)
		if k.Bit(i) == 1 {
			r = e1Add(r, p)
		}
	}
	return r
}

// square root in F_p (p = 3 mod 4); nil if a is not a square
func fpSqrt(a *big.Int) *big.Int {
	e := new(big.Int).Rsh(new(big.Int).Add(blsP, big.NewInt(1)), 2)
	c := new(big.Int).Exp(a, e, blsP)
	if fpMul(c, c).Cmp(new(big.Int).Mod(a, blsP)) != 0 {
		return nil
	}
	return c
}

func e1Compress(p e1pt) []byte {
	out := make([]byte, 48)
	if p.inf {
		out[0] = 0xC0
		return out
	}
	copy(out, fixed(p.x, 48))
	out[0] |= 0x80
	half := new(big.Int).Rsh(new(big.Int).Sub(blsP, big.NewInt(1)), 1)
	if p.y.Cmp(half) > 0 {
		out[0] |= 0x20
	}
	return out
}

// decompress a VALID compressed encoding produced by the library
func e1Decompress(b []byte) e1pt {
	if b[0]&0x40 != 0 {
		return e1pt{inf: true}
	}
	xb := append([]byte{}, b...)
	xb[0] &= 0x1F
	x := new(big.Int).SetBytes(xb)
	y := fpSqrt(fpAdd(fpMul(fpMul(x, x), x), e1B))
	if y == nil {
		panic("e1Decompress: not on curve")
	}
	half := new(big.Int).Rsh(new(big.Int).Sub(blsP, big.NewInt(1)), 1)
	if (y.Cmp(half) > 0) != (b[0]&0x20 != 0) {
		y = fpSub(big.NewInt(0), y)
	}
	return e1pt{x, y, false}
}

// a random curve point (almost surely outside G1)
func e1Random(r *rand.Rand) e1pt {
	for {
		x := new(big.Int).Mod(new(big.Int).SetBytes(rbytes(r, 48)), blsP)
		y := fpSqrt(fpAdd(fpMul(fpMul(x, x), x), e1B))
		if y != nil {
			return e1pt{x, y, false}
		}
	}
}

// a point of the cofactor torsion: [r]Q for random Q (order divides h1, outside G1 unless infinity)
func e1Torsion(r *rand.Rand) e1pt {
	for {
		t := e1Mul(blsR, e1Random(r))
		if !t.inf {
			return t
		}
	}
}

// torsion point of small order: multiply by cofactor / small factor. h1 = 3 * 11^2 * 10177^2 * 859267^2 * 52437899^2
var e1H1, _ = new(big.Int).SetString("396c8c005555e1568c00aaab0000aaab", 16)

func e1SmallOrder(r *rand.Rand, order int64) e1pt {
	k := new(big.Int).Div(e1H1, big.NewInt(order))
	for i := 0; i < 64; i++ {
		t := e1Mul(k, e1Torsion(r))
		if !t.inf {
			return t
		}
	}
	return e1Torsion(r)
}
