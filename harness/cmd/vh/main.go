// vh: correspondence harness. For a property it generates structured inputs,
// runs the real onflow/crypto on them and writes Coq "cases" files in which the
// Gallina model is evaluated on the same inputs and compared with what the
// implementation returned.
package main

import (
	"sync/atomic"
	"time"
	"errors"
	"encoding/json"
	"flag"
	"fmt"
	"math/rand/v2"
	"os"
	"path/filepath"
	"sort"
	"strings"
)

// Case is one correspondence case: a JSON-serialisable input, re-runnable.
type Case struct {
	Kind  string          `json:"kind"`  // generator family
	Input json.RawMessage `json:"input"` // property specific
	// Finding is set by generators on probe cases that compare the implementation
	// with a reference specification where a known, recorded deviation exists.
	Finding string `json:"finding,omitempty"`
}

// Result of running the implementation on a case.
type Result struct {
	Coq        string // Coq term of the property's case type (input + observed)
	Key        string // canonical key for distinctness counting
	Nontrivial bool
	Obs        any // observed implementation behaviour (for replay files)
}

type Prop struct {
	ID     string
	Header string // Coq imports for the cases file
	Check  string // Coq function : list (N * case) -> list N   (ids where model and implementation disagree)
	PropCheck string // Coq function : list (N * case) -> list N (ids where the implementation's observed behaviour violates the property's specification-level oracle)
	Gen    func(tier string, r *rand.Rand) []Case
	Run    func(c Case) (Result, error)
	Rule   string
	Shard  int // cases per Coq file
	// RaceKinds: when the harness runs under the race detector (VH_RACE=1) only cases whose Kind has one
	// of these prefixes are executed (nil = all): the sequential families have nothing to race with
	RaceKinds []string
	// CaseTimeout: a case that has not returned after this long is reported as a failing input
	// ("never returned": deadlock or unbounded loop in the library); default 180 s
	CaseTimeout time.Duration
}

var props = map[string]*Prop{}

func register(p *Prop) { props[p.ID] = p }

type Meta struct {
	Property    string         `json:"property"`
	Tier        string         `json:"tier"`
	Seed        uint64         `json:"seed"`
	Evaluations int            `json:"evaluations"`
	Distinct    int            `json:"distinct_nontrivial"`
	Rule        string         `json:"rule"`
	Kinds       map[string]int `json:"kinds"`
	Samples     []any          `json:"samples"`
	Files       []string       `json:"files"`
	Cases       []CaseRec      `json:"cases"`
	// cases on which the harness itself observed the implementation contradicting the documented
	// contract (typed error, panic, ...): concrete property failures, no Coq term needed
	ContractViolations []int `json:"contract_violations"`
}

// ImplViolation is returned by a Run function when the IMPLEMENTATION (not the harness) misbehaved on
// this case in a way the harness can judge directly (documented typed error missing, panic, output
// that cannot be represented).  The driver reports the case as a concrete failing input.
type ImplViolation struct{ Msg string }

func (e *ImplViolation) Error() string { return e.Msg }
func implViolation(format string, a ...any) error {
	return &ImplViolation{Msg: fmt.Sprintf(format, a...)}
}

type CaseRec struct {
	ID   int  `json:"id"`
	Case Case `json:"case"`
	Obs  any  `json:"obs"`
}

func main() {
	if len(os.Args) < 2 {
		fmt.Fprintln(os.Stderr, "usage: vh <Cxx> [-tier quick|thorough] [-seed n] [-out dir] [-replay file]")
		os.Exit(2)
	}
	id := os.Args[1]
	fs := flag.NewFlagSet("vh", flag.ExitOnError)
	tier := fs.String("tier", "quick", "")
	seed := fs.Uint64("seed", 1, "")
	out := fs.String("out", ".", "")
	replay := fs.String("replay", "", "")
	_ = fs.Parse(os.Args[2:])
	p, ok := props[id]
	if !ok {
		fmt.Fprintln(os.Stderr, "unknown property", id)
		os.Exit(2)
	}
	var cases []Case
	if *replay != "" {
		b, err := os.ReadFile(*replay)
		if err != nil {
			panic(err)
		}
		var rp struct {
			Cases []Case `json:"cases"`
		}
		if err := json.Unmarshal(b, &rp); err != nil {
			panic(err)
		}
		cases = rp.Cases
	} else {
		// corpus first
		corp, _ := filepath.Glob(filepath.Join(filepath.Dir(*out), "..", "corpus", id+"-*.json"))
		sort.Strings(corp)
		for _, f := range corp {
			b, err := os.ReadFile(f)
			if err != nil {
				continue
			}
			var rp struct {
				Cases []Case `json:"cases"`
			}
			if json.Unmarshal(b, &rp) == nil {
				cases = append(cases, rp.Cases...)
			}
		}
		r := rand.New(rand.NewPCG(*seed, 0x9e3779b97f4a7c15))
		cases = append(cases, p.Gen(*tier, r)...)
		if os.Getenv("VH_RACE") == "1" && p.RaceKinds != nil {
			var keep []Case
			for _, c := range cases {
				for _, pre := range p.RaceKinds {
					if strings.HasPrefix(c.Kind, pre) {
						keep = append(keep, c)
						break
					}
				}
			}
			cases = keep
		}
	}
	meta := Meta{Property: id, Tier: *tier, Seed: *seed, Rule: p.Rule, Kinds: map[string]int{}}
	seen := map[string]bool{}
	shard := p.Shard
	if shard == 0 {
		shard = 200
	}
	var cur []string
	flush := func() {
		if len(cur) == 0 {
			return
		}
		name := fmt.Sprintf("cases_%s_%d.v", id, len(meta.Files))
		var sb strings.Builder
		sb.WriteString(p.Header)
		sb.WriteString("\nDefinition cases := [\n")
		sb.WriteString(strings.Join(cur, ";\n"))
		sb.WriteString("\n].\n")
		pc := p.PropCheck
		if pc == "" {
			pc = "(fun _ => @nil N)"
		}
		sb.WriteString("Definition mism := Eval vm_compute in (" + p.Check + " cases, " + pc + " cases).\nPrint mism.\n")
		if err := os.WriteFile(filepath.Join(*out, name), []byte(sb.String()), 0o644); err != nil {
			panic(err)
		}
		meta.Files = append(meta.Files, name)
		cur = nil
	}
	for i, c := range cases {
		var res Result
		var err error
		{
			to := p.CaseTimeout
			if to == 0 {
				to = 180 * time.Second
			}
			type rr struct {
				r Result
				e error
			}
			ch := make(chan rr, 1)
			go func() { r, e := p.Run(c); ch <- rr{r, e} }()
			select {
			case x := <-ch:
				res, err = x.r, x.e
			case <-time.After(hangTimeout(to)):
				noteHang()
				err = implViolation("the case did not return within %v: a call into the library never returns (deadlock or unbounded loop)", to)
			}
		}
		if err != nil {
			// On the unchanged library no Run function returns an error (every check is green), so an
			// error here means the library refused or mishandled an input the harness built as valid,
			// or contradicted the documented contract: in both cases this case is the failing input.
			msg := "the library did not let the harness complete this case: " + err.Error()
			var iv *ImplViolation
			if errors.As(err, &iv) {
				msg = iv.Msg
			}
			fmt.Fprintf(os.Stderr, "case %d: %s\n", i, msg)
			meta.Evaluations++
			meta.Kinds[c.Kind]++
			meta.ContractViolations = append(meta.ContractViolations, i)
			meta.Cases = append(meta.Cases, CaseRec{ID: i, Case: c, Obs: map[string]any{"contract_violation": msg}})
			continue
		}
		meta.Evaluations++
		meta.Kinds[c.Kind]++
		if res.Nontrivial && !seen[res.Key] {
			seen[res.Key] = true
			meta.Distinct++
		}
		if len(meta.Samples) < 3 || (i%97 == 0 && len(meta.Samples) < 6) {
			meta.Samples = append(meta.Samples, map[string]any{"kind": c.Kind, "input": c.Input, "observed": res.Obs})
		}
		meta.Cases = append(meta.Cases, CaseRec{ID: i, Case: c, Obs: res.Obs})
		cur = append(cur, fmt.Sprintf("(%d%%N, %s)", i, res.Coq))
		if len(cur) >= shard {
			flush()
		}
	}
	flush()
	b, _ := json.Marshal(meta)
	if err := os.WriteFile(filepath.Join(*out, id+".meta.json"), b, 0o644); err != nil {
		panic(err)
	}
	fmt.Printf("%s: %d cases, %d distinct non-trivial, %d files\n", id, meta.Evaluations, meta.Distinct, len(meta.Files))
}

// Once a call into the library has hung, later hangs are recognised quickly: the first one is given
// the full patience, the following ones a few seconds (a blocked call never returns anyway), so that a
// deadlock repeated in hundreds of generated cases does not take hours to report.
var hangs atomic.Int32

func noteHang() { hangs.Add(1) }
func hangTimeout(full time.Duration) time.Duration {
	switch n := hangs.Load(); {
	case n == 0:
		return full
	case n < 3:
		return 5 * time.Second
	}
	return 2 * time.Second
}
