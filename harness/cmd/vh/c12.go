package main

import (
	"encoding/json"
	"fmt"
	"math/big"
	"math/rand/v2"
	"sync"

	"github.com/onflow/crypto"
)

// C12 case: kind "keygen" = GeneratePrivateKey(alg, seed), kind "decode" = DecodePrivateKey(alg, bytes).
type c12In struct {
	Op   string `json:"op"`  // keygen | decode
	Alg  string `json:"alg"` // bls | p256 | k1
	In   string `json:"in"`  // hex seed / private key bytes
	WantPK bool `json:"pk"`  // record the public key (ECDSA; costs one model scalar multiplication)
	Conc   int  `json:"conc,omitempty"` // keygen: also call from 16 goroutines, Conc times each ("identical on every call")
	Mask   int  `json:"mask,omitempty"` // blspk: bit i set = PublicKey() was called on input key i before aggregation
}

func init() {
	register(&Prop{
		ID:        "C12",
		Header:    "From Coq Require Import ZArith NArith List String.\nFrom V Require Import Lib.Hex Corr.C12Corr.\nImport ListNotations.\nOpen Scope string_scope.\n",
		Check:     "bad_ids",
		PropCheck: "prop_bad_ids",
		Gen:       c12Gen,
		Run:       c12Run,
		Rule:      "GeneratePrivateKey on seeds of every length 0..300 (all-zero, all-0xff, random contents) for BLS, P-256, secp256k1, each called twice; DecodePrivateKey on edge scalars (1, 2, n-1, n, 0, leading zero bytes) with the public key compared to scalar*G; a case is non-trivial if a key was produced or the input was rejected; distinct by (op, alg, input)",
		RaceKinds: []string{"keygen-concurrent"},
		Shard:     25,
	})
}

func c12Algo(a string) crypto.SigningAlgorithm {
	switch a {
	case "bls":
		return crypto.BLSBLS12381
	case "p256":
		return crypto.ECDSAP256
	default:
		return crypto.ECDSASecp256k1
	}
}

var c12Orders = map[string]string{
	"p256": "ffffffff00000000ffffffffffffffffbce6faada7179e84f3b9cac2fc632551",
	"k1":   "fffffffffffffffffffffffffffffffebaaedce6af48a03bbfd25e8cd0364141",
}

func c12Gen(tier string, r *rand.Rand) []Case {
	var cs []Case
	algs := []string{"bls", "p256", "k1"}
	boundary := map[int]bool{0: true, 1: true, 16: true, 31: true, 32: true, 33: true, 47: true, 48: true, 49: true, 55: true, 56: true, 63: true, 64: true, 65: true,
		119: true, 120: true, 127: true, 128: true, 129: true, 255: true, 256: true, 257: true, 258: true, 300: true}
	fill := func(n int, v byte) []byte {
		b := make([]byte, n)
		for i := range b {
			b[i] = v
		}
		return b
	}
	npk := 0
	for l := 0; l <= 300; l++ {
		for ai, a := range algs {
			// quick: a stride of 3 over the lengths with the algorithm rotating, all three
			// algorithms at the boundary lengths; thorough: everything
			pick := l%3 == 0 && (l/3)%3 == ai
			if tier != "thorough" && !boundary[l] && !pick {
				continue
			}
			wantPK := a != "bls" && l >= 32 && l <= 256 && (boundary[l] || (tier == "thorough" && l%4 == 0))
			if tier != "thorough" && wantPK && npk >= 12 {
				wantPK = false
			}
			if wantPK {
				npk++
			}
			cs = append(cs, mkcase("keygen-random", c12In{"keygen", a, hx(rbytes(r, l)), wantPK, 0, 0}))
			if tier == "thorough" || boundary[l] || (pick && l%4 == 0) {
				cs = append(cs, mkcase("keygen-zero", c12In{"keygen", a, hx(fill(l, 0)), false, 0, 0}))
				cs = append(cs, mkcase("keygen-ff", c12In{"keygen", a, hx(fill(l, 0xff)), false, 0, 0}))
			}
		}
	}
	// "identical on every call" also when the calls overlap: bursts of concurrent key generations,
	// every result compared with the sequential one (folded into the second-call observation)
	for i, a := range []string{"bls", "bls", "bls", "p256", "k1"} {
		n := 20000
		if a != "bls" {
			n = 300
		}
		if tier == "thorough" {
			n *= 4
		}
		cs = append(cs, mkcase("keygen-concurrent", c12In{"keygen", a, hx(rbytes(r, 32+i*7)), false, n, 0}))
	}
	// BLS public keys of decoded and aggregated private keys: "whether generated, decoded or aggregated,
	// the public key equals the private scalar times the generator".  Every subset of the inputs has had
	// its public key computed (and cached) before the aggregation.
	{
		one := func(n int) []byte {
			var b []byte
			for i := 0; i < n; i++ {
				x := rbytes(r, 32)
				x[0] &= 0x3f // below r
				b = append(b, x...)
			}
			return b
		}
		cs = append(cs, mkcase("blspk-decoded", c12In{Op: "blspk", Alg: "bls", In: hx(one(1))}))
		cs = append(cs, mkcase("blspk-decoded", c12In{Op: "blspk", Alg: "bls", In: hx(one(1)), Mask: 1}))
		for _, n := range []int{2, 3} {
			keys := one(n)
			for mask := 0; mask < 1<<n; mask++ {
				if tier != "thorough" && n == 3 && mask%3 == 1 {
					continue
				}
				cs = append(cs, mkcase("blspk-aggregated", c12In{Op: "blspk", Alg: "bls", In: hx(keys), Mask: mask}))
			}
		}
		if tier == "thorough" {
			keys := one(5)
			for _, mask := range []int{0, 1, 16, 21, 30, 31} {
				cs = append(cs, mkcase("blspk-aggregated", c12In{Op: "blspk", Alg: "bls", In: hx(keys), Mask: mask}))
			}
		}
	}
	// the repository's pinned vectors
	for _, a := range algs {
		cs = append(cs, mkcase("keygen-pinned", c12In{"keygen", a, "00112233445566778899aabbccddeeff00112233445566778899aabbccddeeff", a != "bls", 0, 0}))
	}
	// DecodePrivateKey on edge scalars; public key = scalar * G
	for _, a := range []string{"p256", "k1"} {
		n, _ := new(big.Int).SetString(c12Orders[a], 16)
		var scalars []*big.Int
		for _, v := range []int64{0, 1, 2, 3, 255, 256, 65537} {
			scalars = append(scalars, big.NewInt(v))
		}
		for _, d := range []int64{-2, -1, 0, 1} {
			scalars = append(scalars, new(big.Int).Add(n, big.NewInt(d)))
		}
		scalars = append(scalars, new(big.Int).Lsh(big.NewInt(1), 128), new(big.Int).Lsh(big.NewInt(0xab), 240),
			new(big.Int).Sub(new(big.Int).Lsh(big.NewInt(1), 256), big.NewInt(1)))
		nr := 4
		if tier == "thorough" {
			nr = 60
		}
		for i := 0; i < nr; i++ {
			b := rbytes(r, 32)
			// leading zero bytes (the d.Bytes() concern)
			for j := 0; j < i%5; j++ {
				b[j] = 0
			}
			scalars = append(scalars, new(big.Int).SetBytes(b))
		}
		for _, s := range scalars {
			if s.BitLen() > 256 {
				continue
			}
			cs = append(cs, mkcase("decode-scalar", c12In{"decode", a, hx(s.FillBytes(make([]byte, 32))), true, 0, 0}))
		}
		for _, l := range []int{0, 31, 33} {
			cs = append(cs, mkcase("decode-length", c12In{"decode", a, hx(rbytes(r, l)), false, 0, 0}))
		}
	}
	return cs
}

func c12Run(c Case) (Result, error) {
	var in c12In
	if err := json.Unmarshal(c.Input, &in); err != nil {
		return Result{}, err
	}
	alg := c12Algo(in.Alg)
	input := unhx(in.In)
	if in.Op == "blspk" {
		return c12BlsPK(c, in, input)
	}
	var sk, sk2 crypto.PrivateKey
	var err, err2 error
	kind := 0
	var pmsg string
	panicked, pmsg := catch(func() {
		if in.Op == "keygen" {
			sk, err = crypto.GeneratePrivateKey(alg, input)
			// second call on a fresh copy of the seed
			sk2, err2 = crypto.GeneratePrivateKey(alg, append([]byte{}, input...))
		} else {
			kind = 1
			sk, err = crypto.DecodePrivateKey(alg, input)
			sk2, err2 = crypto.DecodePrivateKey(alg, append([]byte{}, input...))
		}
	})
	if panicked {
		return Result{}, implViolation("panic in key construction: %s", pmsg)
	}
	concBad, concVal, concNote := false, "", ""
	if in.Conc > 0 && err == nil && err2 == nil {
		// concurrent burst; the first result that differs from the sequential key replaces the
		// second-call observation (a panic in a goroutine is reported as such)
		want := hx(sk.Encode())
		var mu sync.Mutex
		var wg sync.WaitGroup
		diff, cpanic := "", ""
		for g := 0; g < 16; g++ {
			wg.Add(1)
			go func() {
				defer wg.Done()
				defer func() {
					if e := recover(); e != nil {
						mu.Lock()
						cpanic = fmt.Sprint(e)
						mu.Unlock()
					}
				}()
				for k := 0; k < in.Conc; k++ {
					s, e := crypto.GeneratePrivateKey(alg, append([]byte{}, input...))
					got := "error"
					if e == nil {
						got = hx(s.Encode())
					}
					if got != want {
						mu.Lock()
						diff = got
						mu.Unlock()
						return
					}
				}
			}()
		}
		wg.Wait()
		if cpanic != "" {
			concBad, concNote = true, "panic in a concurrent call: "+cpanic
		} else if diff != "" {
			concBad, concNote = true, "a concurrent call returned "+diff
			if diff != "error" {
				concVal = diff
			}
		}
	}
	ok := err == nil
	invalid := err != nil && crypto.IsInvalidInputsError(err)
	skHex, sk2Hex, pkHex := "", "", ""
	idem := false
	if ok {
		skHex = hx(sk.Encode())
		if err2 == nil {
			sk2Hex = hx(sk2.Encode())
		}
		if concBad {
			sk2Hex = concVal
		}
		p1 := sk.PublicKey()
		p2 := sk.PublicKey()
		q := sk2
		idem = p1 == p2 && p1.Equals(p2) && p2.Equals(p1) && err2 == nil && sk.Equals(q) && q.Equals(sk) &&
			q.PublicKey().Equals(p1) && hx(p1.Encode()) == hx(p2.Encode())
		if in.WantPK && in.Alg != "bls" {
			pkHex = hx(p1.Encode())
		}
	}
	algc := map[string]string{"bls": "ABls", "p256": "AP256", "k1": "AK1"}[in.Alg]
	term := fmt.Sprintf("mkCase %d%%N %s %s %s %s %s %s %s %s", kind, algc, cqs(in.In), cqbool(ok), cqbool(invalid),
		cqs(skHex), cqs(sk2Hex), cqs(pkHex), cqbool(idem))
	return Result{Coq: term, Key: string(c.Input), Nontrivial: true,
		Obs: map[string]any{"ok": ok, "invalid_input_error": invalid, "sk": skHex, "sk_second_call": sk2Hex, "pk": pkHex, "pubkey_idempotent": idem, "concurrent_calls": 16 * in.Conc, "concurrent_note": concNote}}, nil
}

// c12BlsPK: the BLS public key of a decoded or aggregated private key, with PublicKey() already
// called on the inputs selected by the mask.
func c12BlsPK(c Case, in c12In, input []byte) (Result, error) {
	n := len(input) / 32
	mk := func(callPK func(i int) bool) (crypto.PrivateKey, error) {
		var sks []crypto.PrivateKey
		for i := 0; i < n; i++ {
			k, err := crypto.DecodePrivateKey(crypto.BLSBLS12381, input[32*i:32*i+32])
			if err != nil {
				return nil, fmt.Errorf("harness: scalar %d not decodable: %v", i, err)
			}
			if callPK(i) {
				_ = k.PublicKey()
			}
			sks = append(sks, k)
		}
		if n == 1 {
			return sks[0], nil
		}
		return crypto.AggregateBLSPrivateKeys(sks)
	}
	var key, key2 crypto.PrivateKey
	var err, err2 error
	panicked, pmsg := catch(func() {
		key, err = mk(func(i int) bool { return in.Mask>>i&1 == 1 })
		key2, err2 = mk(func(int) bool { return true })
	})
	if panicked {
		return Result{}, implViolation("panic in BLS key aggregation: %s", pmsg)
	}
	if err != nil || err2 != nil {
		return Result{}, implViolation("decoding/aggregating valid BLS private keys failed: %v %v", err, err2)
	}
	p1, p2 := key.PublicKey(), key.PublicKey()
	idem := p1.Equals(p2) && p2.Equals(p1) && hx(p1.Encode()) == hx(p2.Encode()) && key.Equals(key2) &&
		key2.PublicKey().Equals(p1) && hx(key2.PublicKey().Encode()) == hx(p1.Encode())
	term := fmt.Sprintf("mkCase 2%%N ABls %s true false %s %s %s %s", cqs(in.In), cqs(hx(key.Encode())), cqs(hx(key2.Encode())), cqs(hx(p1.Encode())), cqbool(idem))
	return Result{Coq: term, Key: string(c.Input), Nontrivial: true,
		Obs: map[string]any{"sk": hx(key.Encode()), "pk": hx(p1.Encode()), "pubkey_consistent": idem, "mask": in.Mask, "keys": n}}, nil
}
