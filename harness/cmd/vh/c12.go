package main

import (
	"os"
	"bytes"
	"encoding/json"
	"fmt"
	"math/big"
	"math/rand/v2"
	"sync"

	"github.com/onflow/crypto"
)

// C12 case: kind "keygen" = GeneratePrivateKey(alg, seed), kind "decode" = DecodePrivateKey(alg, bytes).
type c12In struct {
	Op   string `json:"op"`  // keygen | decode
	Alg  string `json:"alg"` // bls | p256 | k1
	In   string `json:"in"`  // hex seed / private key bytes
	WantPK bool `json:"pk"`  // record the public key (ECDSA; costs one model scalar multiplication)
	Conc   int  `json:"conc,omitempty"` // keygen: also call from 16 goroutines, Conc times each ("identical on every call")
	Mask   int  `json:"mask,omitempty"` // blspk: bit i set = PublicKey() was called on input key i before aggregation
	Route  string `json:"route,omitempty"` // blspk: "generated" = In is a seed, the key under test comes from GeneratePrivateKey
}

func init() {
	register(&Prop{
		ID:        "C12",
		Header:    "From Coq Require Import ZArith NArith List String.\nFrom V Require Import Lib.Hex Corr.C12Corr.\nImport ListNotations.\nOpen Scope string_scope.\n",
		Check:     "bad_ids",
		PropCheck: "prop_bad_ids",
		Gen:       c12Gen,
		Run:       c12Run,
		Rule:      "GeneratePrivateKey on seeds of every length 0..300 (all-zero, all-0xff, random contents) for BLS, P-256, secp256k1, each called twice; DecodePrivateKey on edge scalars (1, 2, n-1, n, 0, leading zero bytes) with the public key compared to scalar*G; seed lengths in range only modulo 256 (287..1124; modulo 2^16 judged by the runner), nil seed, the seed passed as a window of a larger buffer that must stay untouched, unsupported algorithm values (0, 4, 256+alg, -1) for GeneratePrivateKey / DecodePrivateKey, Encode() results scribbled over (results are values); BLS public keys compared with [scalar] g2 for GENERATED keys, for decoded keys at the ends of the range (1, 2, r-1, 2^64, 2^254) and for aggregated keys with coincidences (k + (r-k) = 0: the identity key, k + k, sums 1 and r-1, three keys) under several cache masks, each also compared with the identity key and re-decoded; cases dealt round-robin over the shards; a case is non-trivial if a key was produced or the input was rejected; distinct by (op, alg, input); concurrent bursts also generate keys of the other two algorithms from other seeds at the same time",
		RaceKinds: []string{"keygen-concurrent"},
		Shard:     c12Shard,
	})
}

func c12Algo(a string) crypto.SigningAlgorithm {
	switch a {
	case "bls":
		return crypto.BLSBLS12381
	case "p256":
		return crypto.ECDSAP256
	default:
		return crypto.ECDSASecp256k1
	}
}

var c12Orders = map[string]string{
	"p256": "ffffffff00000000ffffffffffffffffbce6faada7179e84f3b9cac2fc632551",
	"k1":   "fffffffffffffffffffffffffffffffebaaedce6af48a03bbfd25e8cd0364141",
}

func c12Gen(tier string, r *rand.Rand) []Case {
	var cs []Case
	algs := []string{"bls", "p256", "k1"}
	boundary := map[int]bool{0: true, 1: true, 16: true, 31: true, 32: true, 33: true, 47: true, 48: true, 49: true, 55: true, 56: true, 63: true, 64: true, 65: true,
		119: true, 120: true, 127: true, 128: true, 129: true, 255: true, 256: true, 257: true, 258: true, 300: true}
	fill := func(n int, v byte) []byte {
		b := make([]byte, n)
		for i := range b {
			b[i] = v
		}
		return b
	}
	npk := 0
	for l := 0; l <= 300; l++ {
		for ai, a := range algs {
			// quick: a stride of 3 over the lengths with the algorithm rotating, all three
			// algorithms at the boundary lengths; thorough: everything
			pick := l%3 == 0 && (l/3)%3 == ai
			if tier != "thorough" && !boundary[l] && !pick {
				continue
			}
			wantPK := a != "bls" && l >= 32 && l <= 256 && (boundary[l] || (tier == "thorough" && l%4 == 0))
			if tier != "thorough" && wantPK && npk >= 12 {
				wantPK = false
			}
			if wantPK {
				npk++
			}
			cs = append(cs, mkcase("keygen-random", c12In{Op: "keygen", Alg: a, In: hx(rbytes(r, l)), WantPK: wantPK, Conc: 0}))
			if tier == "thorough" || boundary[l] || (pick && l%4 == 0) {
				cs = append(cs, mkcase("keygen-zero", c12In{Op: "keygen", Alg: a, In: hx(fill(l, 0)), WantPK: false, Conc: 0}))
				cs = append(cs, mkcase("keygen-ff", c12In{Op: "keygen", Alg: a, In: hx(fill(l, 0xff)), WantPK: false, Conc: 0}))
			}
		}
	}
	// "identical on every call" also when the calls overlap: bursts of concurrent key generations,
	// every result compared with the sequential one (folded into the second-call observation)
	for i, a := range []string{"bls", "bls", "bls", "p256", "k1"} {
		n := 20000
		if a != "bls" {
			n = 300
		}
		if tier == "thorough" {
			n *= 4
		}
		cs = append(cs, mkcase("keygen-concurrent", c12In{Op: "keygen", Alg: a, In: hx(rbytes(r, 32+i*7)), WantPK: false, Conc: n}))
	}
	// BLS public keys of decoded and aggregated private keys: "whether generated, decoded or aggregated,
	// the public key equals the private scalar times the generator".  Every subset of the inputs has had
	// its public key computed (and cached) before the aggregation.
	{
		one := func(n int) []byte {
			var b []byte
			for i := 0; i < n; i++ {
				x := rbytes(r, 32)
				x[0] &= 0x3f // below r
				b = append(b, x...)
			}
			return b
		}
		cs = append(cs, mkcase("blspk-decoded", c12In{Op: "blspk", Alg: "bls", In: hx(one(1))}))
		cs = append(cs, mkcase("blspk-decoded", c12In{Op: "blspk", Alg: "bls", In: hx(one(1)), Mask: 1}))
		for _, n := range []int{2, 3} {
			keys := one(n)
			for mask := 0; mask < 1<<n; mask++ {
				if tier != "thorough" && n == 3 && mask%3 == 1 {
					continue
				}
				cs = append(cs, mkcase("blspk-aggregated", c12In{Op: "blspk", Alg: "bls", In: hx(keys), Mask: mask}))
			}
		}
		if tier == "thorough" {
			keys := one(5)
			for _, mask := range []int{0, 1, 16, 21, 30, 31} {
				cs = append(cs, mkcase("blspk-aggregated", c12In{Op: "blspk", Alg: "bls", In: hx(keys), Mask: mask}))
			}
		}
	}
	// seed lengths that are in range only modulo 256 (and, judged by the runner, modulo 2^16)
	for _, l := range []int{256 + 31, 256 + 32, 256 + 48, 256 + 64, 512, 512 + 32, 1024 + 100} {
		for _, a := range algs {
			cs = append(cs, mkcase("keygen-wide-length", c12In{Op: "keygen", Alg: a, In: hx(rbytes(r, l))}))
		}
	}
	// the BLS public key of GENERATED keys, and of decoded / aggregated keys at the ends of the scalar range and
	// with algebraic coincidences (equal keys, sum 0 = the identity key, sum 1, sum r-1)
	{
		for _, l := range []int{32, 33, 64, 256} {
			cs = append(cs, mkcase("blspk-generated", c12In{Op: "blspk", Alg: "bls", In: hx(rbytes(r, l)), Route: "generated"}))
		}
		f32 := func(x *big.Int) []byte { return x.FillBytes(make([]byte, 32)) }
		rm := func(d int64) *big.Int { return new(big.Int).Sub(blsR, big.NewInt(d)) }
		for i, x := range []*big.Int{big.NewInt(1), big.NewInt(2), rm(1), new(big.Int).Lsh(big.NewInt(1), 64), new(big.Int).Lsh(big.NewInt(1), 254)} {
			cs = append(cs, mkcase("blspk-decoded-edge", c12In{Op: "blspk", Alg: "bls", In: hx(f32(x)), Mask: i % 2}))
		}
		k := new(big.Int).SetBytes(rbytes(r, 31))
		for i, pair := range [][]*big.Int{{k, new(big.Int).Sub(blsR, k)}, {k, k}, {rm(1), big.NewInt(1)}, {rm(1), big.NewInt(2)}, {rm(2), big.NewInt(1)}, {rm(1), rm(1)},
			{k, new(big.Int).Sub(blsR, k), k}, {big.NewInt(1), big.NewInt(1), rm(2)}} {
			var b []byte
			for _, x := range pair {
				b = append(b, f32(x)...)
			}
			masks := []int{0, 1<<len(pair) - 1, 1 + i%2}
			if tier == "thorough" {
				masks = nil
				for mk := 0; mk < 1<<len(pair); mk++ {
					masks = append(masks, mk)
				}
			}
			for _, mk := range masks {
				cs = append(cs, mkcase("blspk-aggregated-coincidence", c12In{Op: "blspk", Alg: "bls", In: hx(b), Mask: mk}))
			}
		}
	}
	// the repository's pinned vectors
	for _, a := range algs {
		cs = append(cs, mkcase("keygen-pinned", c12In{Op: "keygen", Alg: a, In: "00112233445566778899aabbccddeeff00112233445566778899aabbccddeeff", WantPK: a != "bls", Conc: 0}))
	}
	// DecodePrivateKey on edge scalars; public key = scalar * G
	for _, a := range []string{"p256", "k1"} {
		n, _ := new(big.Int).SetString(c12Orders[a], 16)
		var scalars []*big.Int
		for _, v := range []int64{0, 1, 2, 3, 255, 256, 65537} {
			scalars = append(scalars, big.NewInt(v))
		}
		for _, d := range []int64{-2, -1, 0, 1} {
			scalars = append(scalars, new(big.Int).Add(n, big.NewInt(d)))
		}
		scalars = append(scalars, new(big.Int).Lsh(big.NewInt(1), 128), new(big.Int).Lsh(big.NewInt(0xab), 240),
			new(big.Int).Sub(new(big.Int).Lsh(big.NewInt(1), 256), big.NewInt(1)))
		nr := 4
		if tier == "thorough" {
			nr = 60
		}
		for i := 0; i < nr; i++ {
			b := rbytes(r, 32)
			// leading zero bytes (the d.Bytes() concern)
			for j := 0; j < i%5; j++ {
				b[j] = 0
			}
			scalars = append(scalars, new(big.Int).SetBytes(b))
		}
		for _, s := range scalars {
			if s.BitLen() > 256 {
				continue
			}
			cs = append(cs, mkcase("decode-scalar", c12In{Op: "decode", Alg: a, In: hx(s.FillBytes(make([]byte, 32))), WantPK: true, Conc: 0}))
		}
		for _, l := range []int{0, 31, 33} {
			cs = append(cs, mkcase("decode-length", c12In{Op: "decode", Alg: a, In: hx(rbytes(r, l)), WantPK: false, Conc: 0}))
		}
	}
	// the cases with a scalar multiplication for the Coq evaluator are contiguous in generation order: deal
	// the cases round-robin over the shards
	nsh := (len(cs) + c12Shard - 1) / c12Shard
	buckets := make([][]Case, nsh)
	for i, c := range cs {
		buckets[i%nsh] = append(buckets[i%nsh], c)
	}
	var out []Case
	for _, b := range buckets {
		out = append(out, b...)
	}
	return out
}

const c12Shard = 25

func c12Run(c Case) (Result, error) {
	var in c12In
	if err := json.Unmarshal(c.Input, &in); err != nil {
		return Result{}, err
	}
	alg := c12Algo(in.Alg)
	input := unhx(in.In)
	if in.Op == "blspk" {
		return c12BlsPK(c, in, input)
	}
	var sk, sk2 crypto.PrivateKey
	var err, err2 error
	kind := 0
	var pmsg string
	complaint := ""
	panicked, pmsg := catch(func() {
		if in.Op == "keygen" {
			// the seed is a window of a larger buffer (spare capacity on both sides): nothing may be written
			buf := bytes.Repeat([]byte{0xA5}, len(input)+64)
			copy(buf[16:], input)
			ref := append([]byte{}, buf...)
			sk, err = crypto.GeneratePrivateKey(alg, buf[16:16+len(input)])
			if !bytes.Equal(buf, ref) {
				complaint = "GeneratePrivateKey wrote to the caller's seed buffer"
			}
			// ... and the buffer is the caller's again afterwards: overwritten before the key is looked at
			for i := range buf {
				buf[i] ^= 0x3c
			}
			// second call on a fresh copy of the seed
			sk2, err2 = crypto.GeneratePrivateKey(alg, append([]byte{}, input...))
			if len(input) == 0 {
				if k, e := crypto.GeneratePrivateKey(alg, nil); k != nil || !crypto.IsInvalidInputsError(e) {
					complaint = fmt.Sprintf("GeneratePrivateKey(nil seed) returned %v", e)
				}
			}
			if len(input) > 256 && len(input)%256 >= 32 {
				// the same modulo 2^16 and 2^32 would need seeds too long for a Coq literal: judged here
				for _, l := range []int{65536 + len(input)%256, 65536 * 3 + 32} {
					if k, e := crypto.GeneratePrivateKey(alg, make([]byte, l)); k != nil || !crypto.IsInvalidInputsError(e) {
						complaint = fmt.Sprintf("GeneratePrivateKey with a %d-byte seed returned %v, documented: invalid-input error", l, e)
					}
				}
			}
			// algorithms the package does not support
			for _, other := range []crypto.SigningAlgorithm{crypto.UnknownSigningAlgorithm, crypto.SigningAlgorithm(4), crypto.SigningAlgorithm(256 + int(alg)), crypto.SigningAlgorithm(-1)} {
				if k, e := crypto.GeneratePrivateKey(other, input); k != nil || !crypto.IsInvalidInputsError(e) {
					complaint = fmt.Sprintf("GeneratePrivateKey(algorithm %d) returned %v, documented: invalid-input error", int(other), e)
				}
				if k, e := crypto.DecodePrivateKey(other, input); k != nil || !crypto.IsInvalidInputsError(e) {
					complaint = fmt.Sprintf("DecodePrivateKey(algorithm %d) returned %v, documented: invalid-input error", int(other), e)
				}
			}
		} else {
			kind = 1
			in1 := append([]byte{}, input...)
			sk, err = crypto.DecodePrivateKey(alg, in1)
			for i := range in1 {
				in1[i] ^= 0x3c // the decoded key is a value: its input buffer is overwritten
			}
			sk2, err2 = crypto.DecodePrivateKey(alg, append([]byte{}, input...))
		}
	})
	if panicked {
		return Result{}, implViolation("panic in key construction: %s", pmsg)
	}
	if complaint != "" {
		return Result{}, implViolation("%s (input %s)", complaint, in.In)
	}
	concBad, concVal, concNote := false, "", ""
	if in.Conc > 0 && err == nil && err2 == nil {
		// concurrent burst; the first result that differs from the sequential key replaces the
		// second-call observation (a panic in a goroutine is reported as such)
		want := hx(sk.Encode())
		// half of the goroutines generate keys of the OTHER algorithms from other seeds at the same time
		// (state shared between algorithms, e.g. a scratch value kept at package level, shows up here only)
		type other struct {
			alg  crypto.SigningAlgorithm
			seed []byte
			want string
		}
		var others []other
		for i, oa := range []crypto.SigningAlgorithm{crypto.ECDSAP256, crypto.ECDSASecp256k1, crypto.BLSBLS12381} {
			seed := make([]byte, 48+i)
			for j := range seed {
				seed[j] = byte(j*7+i) ^ input[j%len(input)]
			}
			if k, e := crypto.GeneratePrivateKey(oa, seed); e == nil {
				others = append(others, other{oa, seed, hx(k.Encode())})
			}
		}
		var mu sync.Mutex
		var wg sync.WaitGroup
		diff, cpanic, cother := "", "", ""
		for g := 0; g < 8 && len(others) > 0; g++ {
			wg.Add(1)
			o := others[g%len(others)]
			go func() {
				defer wg.Done()
				defer func() {
					if e := recover(); e != nil {
						mu.Lock()
						cpanic = fmt.Sprint(e)
						mu.Unlock()
					}
				}()
				for k := 0; k < in.Conc; k++ {
					s, e := crypto.GeneratePrivateKey(o.alg, append([]byte{}, o.seed...))
					if e != nil || hx(s.Encode()) != o.want {
						mu.Lock()
						cother = fmt.Sprintf("GeneratePrivateKey(%v, %x) run next to key generation of another algorithm returned a different key (err %v)", o.alg, o.seed, e)
						mu.Unlock()
						return
					}
				}
			}()
		}
		for g := 0; g < 16; g++ {
			wg.Add(1)
			go func() {
				defer wg.Done()
				defer func() {
					if e := recover(); e != nil {
						mu.Lock()
						cpanic = fmt.Sprint(e)
						mu.Unlock()
					}
				}()
				for k := 0; k < in.Conc; k++ {
					s, e := crypto.GeneratePrivateKey(alg, append([]byte{}, input...))
					got := "error"
					if e == nil {
						got = hx(s.Encode())
					}
					if got != want {
						mu.Lock()
						diff = got
						mu.Unlock()
						return
					}
				}
			}()
		}
		wg.Wait()
		if cother != "" {
			return Result{}, implViolation("%s", cother)
		}
		if cpanic != "" {
			concBad, concNote = true, "panic in a concurrent call: "+cpanic
		} else if diff != "" {
			concBad, concNote = true, "a concurrent call returned "+diff
			if diff != "error" {
				concVal = diff
			}
		}
	}
	ok := err == nil
	invalid := err != nil && crypto.IsInvalidInputsError(err)
	skHex, sk2Hex, pkHex := "", "", ""
	idem := false
	if ok {
		skHex = hx(sk.Encode())
		if err2 == nil {
			sk2Hex = hx(sk2.Encode())
		}
		if concBad {
			sk2Hex = concVal
		}
		p1 := sk.PublicKey()
		// results are values: scribbling over a returned encoding must not change the key
		e1, pe1 := sk.Encode(), p1.Encode()
		for i := range e1 {
			e1[i] ^= 0xff
		}
		for i := range pe1 {
			pe1[i] ^= 0xff
		}
		if hx(sk.Encode()) != skHex || hx(p1.Encode()) == hx(pe1) {
			return Result{}, implViolation("Encode() returns a slice that aliases the key's state (input %s)", in.In)
		}
		p2 := sk.PublicKey()
		q := sk2
		idem = p1 == p2 && p1.Equals(p2) && p2.Equals(p1) && err2 == nil && sk.Equals(q) && q.Equals(sk) &&
			q.PublicKey().Equals(p1) && hx(p1.Encode()) == hx(p2.Encode())
		if in.WantPK && in.Alg != "bls" {
			pkHex = hx(p1.Encode())
		}
	}
	algc := map[string]string{"bls": "ABls", "p256": "AP256", "k1": "AK1"}[in.Alg]
	term := fmt.Sprintf("mkCase %d%%N %s %s %s %s %s %s %s %s", kind, algc, cqs(in.In), cqbool(ok), cqbool(invalid),
		cqs(skHex), cqs(sk2Hex), cqs(pkHex), cqbool(idem))
	return Result{Coq: term, Key: string(c.Input), Nontrivial: true,
		Obs: map[string]any{"ok": ok, "invalid_input_error": invalid, "sk": skHex, "sk_second_call": sk2Hex, "pk": pkHex, "pubkey_idempotent": idem, "concurrent_calls": 16 * in.Conc, "concurrent_note": concNote}}, nil
}

// c12BlsPK: the BLS public key of a decoded or aggregated private key, with PublicKey() already
// called on the inputs selected by the mask.
func c12BlsPK(c Case, in c12In, input []byte) (Result, error) {
	n := len(input) / 32
	mk := func(callPK func(i int) bool) (crypto.PrivateKey, error) {
		var sks []crypto.PrivateKey
		for i := 0; i < n; i++ {
			k, err := crypto.DecodePrivateKey(crypto.BLSBLS12381, input[32*i:32*i+32])
			if err != nil {
				return nil, fmt.Errorf("harness: scalar %d not decodable: %v", i, err)
			}
			if callPK(i) {
				_ = k.PublicKey()
			}
			sks = append(sks, k)
		}
		if n == 1 {
			return sks[0], nil
		}
		return crypto.AggregateBLSPrivateKeys(sks)
	}
	var key, key2 crypto.PrivateKey
	var err, err2 error
	panicked, pmsg := catch(func() {
		if in.Route == "generated" {
			// the key under test is the object returned by GeneratePrivateKey; its scalar is what it encodes to
			key, err = crypto.GeneratePrivateKey(crypto.BLSBLS12381, input)
			key2, err2 = crypto.GeneratePrivateKey(crypto.BLSBLS12381, append([]byte{}, input...))
			if err == nil && err2 == nil {
				_ = key2.PublicKey()
				in.In = hx(key.Encode())
			}
			return
		}
		key, err = mk(func(i int) bool { return in.Mask>>i&1 == 1 })
		key2, err2 = mk(func(int) bool { return true })
	})
	if panicked {
		return Result{}, implViolation("panic in BLS key aggregation: %s", pmsg)
	}
	if err != nil || err2 != nil {
		return Result{}, implViolation("decoding/aggregating valid BLS private keys failed: %v %v", err, err2)
	}
	// the FIRST PublicKey() calls on fresh key objects, several at once (a cache that is published
	// before it is filled hands out a half-written key): every caller must get the key that a
	// sequential call returns.  Skipped under the race detector: the cache itself is filled without
	// synchronisation in the unchanged library (see DESIGN.md, observations).
	if os.Getenv("VH_RACE") != "1" {
		want := hx(key2.PublicKey().Encode())
		for trial := 0; trial < 6; trial++ {
			var fresh crypto.PrivateKey
			var err error
			if in.Route == "generated" {
				fresh, err = crypto.GeneratePrivateKey(crypto.BLSBLS12381, append([]byte{}, input...))
			} else {
				fresh, err = mk(func(i int) bool { return false })
			}
			if err != nil {
				break
			}
			var wg sync.WaitGroup
			got := make([]string, 8)
			start := make(chan struct{})
			for g := range got {
				wg.Add(1)
				go func(g int) {
					defer wg.Done()
					<-start
					got[g] = hx(fresh.PublicKey().Encode())
				}(g)
			}
			close(start)
			wg.Wait()
			for g := range got {
				if got[g] != want {
					return Result{}, implViolation("first PublicKey() calls made concurrently on a fresh key: goroutine %d got %s, a sequential call gives %s", g, got[g], want)
				}
			}
		}
	}
	p1, p2 := key.PublicKey(), key.PublicKey()
	idem := p1.Equals(p2) && p2.Equals(p1) && hx(p1.Encode()) == hx(p2.Encode()) && key.Equals(key2) &&
		key2.PublicKey().Equals(p1) && hx(key2.PublicKey().Encode()) == hx(p1.Encode())
	// a key object behaves as its point: the identity key is recognised by the package, any other is not
	zero := new(big.Int).SetBytes(key.Encode()).Sign() == 0
	if p1.Equals(crypto.IdentityBLSPublicKey()) != zero || crypto.IdentityBLSPublicKey().Equals(p1) != zero {
		return Result{}, implViolation("public key of the private key %x: Equals(identity key) = %v", key.Encode(), !zero)
	}
	if dk, err := crypto.DecodePublicKey(crypto.BLSBLS12381, p1.Encode()); err != nil || !dk.Equals(p1) {
		return Result{}, implViolation("public key %x of the private key %x does not decode to an Equal key: %v", p1.Encode(), key.Encode(), err)
	}
	term := fmt.Sprintf("mkCase 2%%N ABls %s true false %s %s %s %s", cqs(in.In), cqs(hx(key.Encode())), cqs(hx(key2.Encode())), cqs(hx(p1.Encode())), cqbool(idem))
	return Result{Coq: term, Key: string(c.Input), Nontrivial: true,
		Obs: map[string]any{"sk": hx(key.Encode()), "pk": hx(p1.Encode()), "pubkey_consistent": idem, "mask": in.Mask, "keys": n}}, nil
}
