package main

// C09, generator audit: entry points the hostile stream did not call (VerifyThresholdSignature, SignShare,
// NewExpandMsgXOFKMAC128 with hostile tags, Equals between keys of every kind, hash.Hash.Equal / Hex / String,
// Signature.Bytes / String, random.EncodePermutation), stateful inspector histories (any prelude of TrustedAdd /
// VerifyAndAdd / ThresholdSignature / VerifyShare calls, failed ones included, before the observed call; the object
// built by either constructor), PRG histories, and the input families of the audit checklist:
// key objects from every constructor, several defects in one call, integers that are valid only after narrowing,
// cancelling keys and signatures, DKG message SEQUENCES with consistent content.
//
// New apis (facts | skel):
//   blsThresholdSignatureInspector.VerifyThresholdSignature: size threshold pre pre.badlen pre.forged
//       thresholdSignature thresholdSignature.genuine (1 iff it is the group signature on the inspector's message) | ""
//   blsThresholdSignatureParticipant.SignShare: size threshold pre ... | ""
//   inspector methods after a prelude ("inspseq"): the facts of "insp" plus prelude (number of prelude calls),
//       prelude.sig (1 iff a prelude ThresholdSignature call returned a signature), via.participant (1 iff the object
//       was built by NewBLSThresholdSignatureParticipant)
//   NewExpandMsgXOFKMAC128: domainTag data (the hasher is used once: ComputeHash) | ""
//   pubKeyBLSBLS12381.Equals / pubKeyECDSA.Equals / prKeyBLSBLS12381.Equals / prKeyECDSA.Equals: other.algo (0 nil)
//       same (1 iff same key value) | ""   obs true / false; "true" needs same = 1
//   hash.Hash.Equal: h input same | "";  hash.Hash.Hex, hash.Hash.String, Signature.String, Signature.Bytes: h | s | ""
//   random.EncodePermutation: perm | ""

import (
	"fmt"
	"math"
	"strconv"
	"strings"

	"github.com/onflow/crypto"
	"github.com/onflow/crypto/hash"
	"github.com/onflow/crypto/random"
)

func init() {
	// inspector history: a = [size, threshold, orig], s = group seed, k = ["insp" | "part:<i>"],
	// l = prelude ops "T:<idx>:<spec>" (TrustedAdd) | "V:<idx>:<spec>" (VerifyAndAdd) | "S" (ThresholdSignature) |
	// "Y:<idx>:<spec>" (VerifyShare) | "H:<idx>" (HasShare) | "C:<spec>" (VerifyThresholdSignature) | "E" (EnoughShares),
	// ops = [observed method], b = [share | candidate signature]; atoms "V<i>" genuine share, "GS" the group signature
	c09Handlers["inspseq"] = func(in *c09In, r *c09Res) error {
		if len(in.Ops) != 1 || len(in.A) < 2 {
			return fmt.Errorf("method and group needed")
		}
		n, t := int(in.A[0]), int(in.A[1])
		g, err := c09TSGroup(n, t, in.S)
		if err != nil {
			return err
		}
		var insp crypto.ThresholdSignatureInspector
		var part crypto.ThresholdSignatureParticipant
		via := "insp"
		if len(in.K) > 0 {
			via = in.K[0]
		}
		if strings.HasPrefix(via, "part:") {
			i, err := strconv.Atoi(via[5:])
			if err != nil || i < 0 || i >= n {
				return fmt.Errorf("bad participant %q", via)
			}
			part, err = crypto.NewBLSThresholdSignatureParticipant(g.gpk, g.pks, t, i, g.sks[i], []byte(c09TSMsg), c09Tag)
			if err != nil {
				return err
			}
			insp = part
		} else {
			insp, err = crypto.NewBLSThresholdSignatureInspector(g.gpk, g.pks, t, []byte(c09TSMsg), c09Tag)
			if err != nil {
				return err
			}
		}
		groupSig := func() ([]byte, error) {
			var shares []crypto.Signature
			var signers []int
			for i := 0; i <= t; i++ {
				s, err := g.sks[i].Sign([]byte(c09TSMsg), crypto.NewExpandMsgXOFKMAC128(c09Tag))
				if err != nil {
					return nil, err
				}
				shares = append(shares, s)
				signers = append(signers, i)
			}
			return crypto.BLSReconstructThresholdSignature(n, t, shares, signers)
		}
		usedGS := false
		resolver := func(used *int) c09Resolver {
			sr := c09ShareResolver(g, used)
			return func(a string) ([]byte, bool, error) {
				if a == "GS" {
					usedGS = true
					b, err := groupSig()
					return b, true, err
				}
				return sr(a)
			}
		}
		// expected pool, maintained as the documentation describes it
		type entry struct{ badlen, forged bool }
		pool := map[int]entry{}
		preSig := false
		add := func(idx int, sh []byte, used int, verified bool) {
			if idx < 0 || idx >= n || len(pool) >= t+1 {
				return
			}
			if _, dup := pool[idx]; dup {
				return
			}
			genuine := used == idx && len(sh) == 48
			if verified && !genuine {
				return
			}
			pool[idx] = entry{badlen: len(sh) != 48, forged: len(sh) == 48 && !genuine}
		}
		for _, op := range in.L {
			f := strings.SplitN(op, ":", 3)
			switch {
			case op == "S":
				if s, err := insp.ThresholdSignature(); err == nil && s != nil {
					preSig = true
				}
			case op == "E":
				_ = insp.EnoughShares()
			case f[0] == "H" && len(f) == 2:
				idx, err := strconv.Atoi(f[1])
				if err != nil {
					return err
				}
				_, _ = insp.HasShare(idx)
			case f[0] == "C" && len(f) == 2:
				b, err := c09Bytes(f[1], resolver(nil))
				if err != nil {
					return err
				}
				_, _ = insp.VerifyThresholdSignature(b)
			case (f[0] == "T" || f[0] == "V" || f[0] == "Y") && len(f) == 3:
				idx, err := strconv.Atoi(f[1])
				if err != nil {
					return err
				}
				used := -1
				sh, err := c09Bytes(f[2], resolver(&used))
				if err != nil {
					return err
				}
				switch f[0] {
				case "T":
					_, _ = insp.TrustedAdd(idx, sh)
					add(idx, sh, used, false)
				case "V":
					_, _, _ = insp.VerifyAndAdd(idx, sh)
					add(idx, sh, used, true)
				case "Y":
					_, _ = insp.VerifyShare(idx, sh)
				}
			default:
				return fmt.Errorf("bad prelude op %q", op)
			}
		}
		preBad, preForged := 0, 0
		for _, e := range pool {
			if e.badlen {
				preBad++
			}
			if e.forged {
				preForged++
			}
		}
		meth := in.Ops[0]
		r.api = "blsThresholdSignatureInspector." + meth
		r.F("size", int64(n))
		r.F("threshold", int64(t))
		r.F("pre", int64(len(pool)))
		r.F("pre.badlen", int64(preBad))
		r.F("pre.forged", int64(preForged))
		r.F("prelude", int64(len(in.L)))
		r.F("prelude.sig", c09b2i(preSig))
		r.F("via.participant", c09b2i(part != nil))
		switch meth {
		case "ThresholdSignature":
			r.call(func() string { _, err := insp.ThresholdSignature(); return c09ErrClass(err) })
			return nil
		case "EnoughShares":
			r.call(func() string { return c09BoolClass(insp.EnoughShares(), nil) })
			return nil
		case "SignShare":
			if part == nil {
				return fmt.Errorf("SignShare needs a participant object")
			}
			r.api = "blsThresholdSignatureParticipant.SignShare"
			r.call(func() string { _, err := part.SignShare(); return c09ErrClass(err) })
			return nil
		case "VerifyThresholdSignature":
			cand, err := in.b(0, resolver(nil))
			if err != nil {
				return err
			}
			r.F("thresholdSignature", int64(len(cand)))
			r.F("thresholdSignature.genuine", c09b2i(usedGS && len(cand) == 48 && in.B[0] == "GS"))
			r.call(func() string { return c09BoolClass(insp.VerifyThresholdSignature(cand)) })
			return nil
		}
		orig, err := in.a(2)
		if err != nil {
			return err
		}
		_, has := pool[int(orig)]
		r.F("orig", orig)
		r.F("pre.has", c09b2i(orig >= 0 && orig < int64(n) && has))
		if meth == "HasShare" {
			r.call(func() string { return c09BoolClass(insp.HasShare(int(orig))) })
			return nil
		}
		used := -1
		share, err := in.b(0, resolver(&used))
		if err != nil {
			return err
		}
		r.F("share", int64(len(share)))
		r.F("share.genuine", c09b2i(used >= 0 && int64(used) == orig && len(share) == 48))
		switch meth {
		case "VerifyShare":
			r.call(func() string { return c09BoolClass(insp.VerifyShare(int(orig), share)) })
		case "TrustedAdd":
			r.call(func() string { return c09BoolClass(insp.TrustedAdd(int(orig), share)) })
		case "VerifyAndAdd":
			r.call(func() string { v, _, err := insp.VerifyAndAdd(int(orig), share); return c09BoolClass(v, err) })
		default:
			return fmt.Errorf("unknown inspector method %q", meth)
		}
		return nil
	}
	// b = [domainTag, data]
	c09Handlers["NewExpandMsgXOFKMAC128"] = func(in *c09In, r *c09Res) error {
		tag, err := in.b(0, nil)
		if err != nil {
			return err
		}
		data, err := in.b(1, nil)
		if err != nil {
			return err
		}
		r.F("domainTag", int64(len(tag)))
		r.F("data", int64(len(data)))
		r.call(func() string {
			h := crypto.NewExpandMsgXOFKMAC128(string(tag))
			if len(h.ComputeHash(data)) != h.Size() {
				return "err-other"
			}
			return "ok"
		})
		return nil
	}
	// ops = ["pub" | "priv"], k = [receiver, other]
	c09Handlers["Equals"] = func(in *c09In, r *c09Res) error {
		if len(in.Ops) != 1 || len(in.K) < 2 {
			return fmt.Errorf("kind and two keys needed")
		}
		a, b := in.K[0], in.K[1]
		typ := map[int]string{1: "BLSBLS12381", 2: "ECDSA", 3: "ECDSA"}[c09KeyAlgo(a)]
		if typ == "" {
			return fmt.Errorf("the receiver must be a key")
		}
		r.F("other.algo", int64(c09KeyAlgo(b)))
		r.F("same", c09b2i(c09SameKey(a, b)))
		r.nilIface = b == "nil"
		if in.Ops[0] == "pub" {
			x, err := c09Pub(a)
			if err != nil {
				return err
			}
			y, err := c09Pub(b)
			if err != nil {
				return err
			}
			r.api = "pubKey" + typ + ".Equals"
			r.call(func() string { return c09BoolClass(x.Equals(y), nil) })
			return nil
		}
		x, err := c09Priv(a)
		if err != nil {
			return err
		}
		y, err := c09Priv(b)
		if err != nil {
			return err
		}
		r.api = "prKey" + typ + ".Equals"
		r.call(func() string { return c09BoolClass(x.Equals(y), nil) })
		return nil
	}
	// ops = [Equal | Hex | String | SigString | SigBytes], b = [h, (input)]
	c09Handlers["bytesmeth"] = func(in *c09In, r *c09Res) error {
		if len(in.Ops) != 1 {
			return fmt.Errorf("method needed")
		}
		h, err := in.b(0, nil)
		if err != nil {
			return err
		}
		switch in.Ops[0] {
		case "Equal":
			o, err := in.b(1, nil)
			if err != nil {
				return err
			}
			r.api = "hash.Hash.Equal"
			r.F("h", int64(len(h)))
			r.F("input", int64(len(o)))
			r.F("same", c09b2i(string(h) == string(o)))
			r.call(func() string { return c09BoolClass(hash.Hash(h).Equal(hash.Hash(o)), nil) })
		case "Hex":
			r.api = "hash.Hash.Hex"
			r.F("h", int64(len(h)))
			r.call(func() string { _ = hash.Hash(h).Hex(); return "ok" })
		case "String":
			r.api = "hash.Hash.String"
			r.F("h", int64(len(h)))
			r.call(func() string { _ = hash.Hash(h).String(); return "ok" })
		case "SigString":
			r.api = "Signature.String"
			r.F("s", int64(len(h)))
			r.call(func() string { _ = crypto.Signature(h).String(); return "ok" })
		case "SigBytes":
			r.api = "Signature.Bytes"
			r.F("s", int64(len(h)))
			r.call(func() string { _ = crypto.Signature(h).Bytes(); return "ok" })
		default:
			return fmt.Errorf("unknown method %q", in.Ops[0])
		}
		return nil
	}
	// l = the list (decimal integers; ["<nil>"] = nil)
	c09Handlers["random.EncodePermutation"] = func(in *c09In, r *c09Res) error {
		items, isNil := c09List(in.L)
		var perm []int
		if !isNil {
			perm = []int{}
		}
		for _, s := range items {
			v, err := strconv.ParseInt(s, 10, 64)
			if err != nil {
				return err
			}
			perm = append(perm, int(v))
		}
		r.F("perm", int64(len(perm)))
		r.call(func() string { _ = random.EncodePermutation(perm); return "ok" })
		return nil
	}
}

// hostile integers around a size, plus the values that equal an in-range index k after narrowing to 8, 16 or 32 bits
func c09Narrowed(n int64) []int64 {
	l := c09Around(n)
	for _, k := range []int64{0, 1, n - 1} {
		if k < 0 {
			continue
		}
		l = append(l, 256+k, -256+k, 65536+k, 1<<32+k, -(1<<32)+k, math.MinInt64+k)
	}
	l = append(l, math.MaxInt32, math.MinInt32, math.MaxUint32, 256+n, 1<<32+n)
	seen := map[int64]bool{}
	var out []int64
	for _, v := range l {
		if !seen[v] {
			seen[v] = true
			out = append(out, v)
		}
	}
	return out
}

var c09PubRoutes = []string{"", "@dec", "@decc", "@agg", "@aggid", "@rem"}
var c09IDRoutes = []string{"id", "id@dec", "id@decc", "id@agg", "id@aggid", "id@rem", "id@cancel"}

// (f) lists longer than 255 / 256 entries and the largest groups (indices above 127 and next to 255)
func (g *c09G) auditLarge() {
	gs := func(i int) string { return fmt.Sprintf("S%d", 1+i%7) }
	ns := []int{256, 257}
	if g.thorough {
		ns = []int{255, 256, 257, 300}
	}
	for _, n := range ns {
		g.add("large-agg", c09In{F: "AggregateBLSSignatures", L: c09nstr(n, gs)})
		l := c09nstr(n, gs)
		l[n-1] = "r47.3"
		g.add("large-agg", c09In{F: "AggregateBLSSignatures", L: l})
		keys := c09nstr(n, func(i int) string { return c09bls(1000 + i%40) })
		g.add("large-agg", c09In{F: "AggregateBLSPublicKeys", L: keys})
		g.add("large-agg", c09In{F: "AggregateBLSPrivateKeys", L: keys})
		g.add("large-agg", c09In{F: "RemoveBLSPublicKeys", K: []string{"bls.1"}, L: keys})
		bad := append([]string{}, keys...)
		bad[256%n] = "p256.1"
		g.add("large-agg", c09In{F: "AggregateBLSPublicKeys", L: bad})
		one := c09nstr(n, func(i int) string { return c09bls(1 + i%3) })
		is := c09nstr(n, func(i int) string { return fmt.Sprintf("I%d", i) })
		g.add("large-batch", c09In{F: "BatchVerifyBLSSignaturesOneMessage", L: one, M: is, B: []string{"r24.1"}, H: "xof"})
		is2 := append([]string{}, is...)
		is2[n-1], is2[0] = "r47.1", "nil"
		g.add("large-batch", c09In{F: "BatchVerifyBLSSignaturesOneMessage", L: one, M: is2, B: []string{"r24.1"}, H: "xof"})
		g.add("large-batch", c09In{F: "BatchVerifyBLSSignaturesOneMessage", L: one, M: is[:n-256+255], B: []string{"r24.1"}, H: "xof"})
		g.add("large-multi", c09In{F: "VerifyBLSSignatureOneMessage", L: one, B: []string{"A", "r24.1"}, H: "xof"})
		if n >= 257 {
			msgs := c09nstr(n, func(i int) string { return fmt.Sprintf("r9.%d", 100+i%5) })
			xofs := c09nstr(n, func(int) string { return "xof" })
			g.add("large-multi", c09In{F: "VerifyBLSSignatureManyMessages", L: one, B: []string{"A"}, M: msgs, HL: xofs})
			g.add("large-multi", c09In{F: "VerifyBLSSignatureManyMessages", L: one, B: []string{"A"}, M: msgs[:256], HL: xofs})
			hl := append([]string{}, xofs...)
			hl[256] = "nil"
			g.add("large-multi", c09In{F: "VerifyBLSSignatureManyMessages", L: one, B: []string{"A"}, M: msgs, HL: hl})
		}
	}
	// stateless reconstruction with 254 distinct signers and with more entries than there are participants
	for _, k := range []int{254, 255, 256, 257, 300} {
		sh := c09nstr(k, func(i int) string { return fmt.Sprintf("V%d", i%8) })
		sg := c09nstr(k, func(i int) string { return strconv.Itoa(i % 254) })
		g.add("large-rec", c09In{F: "BLSReconstructThresholdSignature", A: []int64{254, 2}, L: sh, M: sg, S: 5})
		g.add("large-rec", c09In{F: "BLSReconstructThresholdSignature", A: []int64{254, 253}, L: sh, M: sg, S: 5})
		sg2 := c09nstr(k, strconv.Itoa) // signers 254, 255, 256 ... are out of range, 256+i narrows to i
		g.add("large-rec", c09In{F: "BLSReconstructThresholdSignature", A: []int64{254, 2}, L: sh, M: sg2, S: 5})
	}
	// the largest threshold group: signer indices 253, 254, 255, 256 and their narrowings
	for _, o := range []int64{0, 127, 128, 252, 253, 254, 255, 256, 256 + 253, 509, 510, -3, -256 + 253, 1<<32 + 253} {
		pre := []string{"T:253:V253", "T:128:V128"}
		g.add("large-insp", c09In{F: "inspseq", Ops: []string{"HasShare"}, A: []int64{254, 2, o}, L: pre, S: 3})
		for _, m := range []string{"VerifyShare", "TrustedAdd", "VerifyAndAdd"} {
			sh := "V253"
			if o >= 0 && o < 254 {
				sh = fmt.Sprintf("V%d", o)
			}
			g.add("large-insp", c09In{F: "inspseq", Ops: []string{m}, A: []int64{254, 2, o}, B: []string{sh}, L: pre, S: 3})
		}
	}
	g.add("large-insp", c09In{F: "inspseq", Ops: []string{"ThresholdSignature"}, A: []int64{254, 2}, L: []string{"T:253:V253", "T:128:V128", "T:0:V0"}, S: 3})
	g.add("large-insp", c09In{F: "inspseq", Ops: []string{"ThresholdSignature"}, A: []int64{254, 2}, L: []string{"T:253:V253", "T:128:V127", "T:0:V0"}, S: 3})
	// the largest DKG group: every tag from the participants 253 / 128, complaint and answer indices 253, 254, 255
	for proto := 0; proto < 3; proto++ {
		for _, role := range []int{0, 1} {
			cx := &c09Cx{g: g, proto: proto, n: 254, t: 2, my: 253, dealer: 128, other: 200, main: 128, phase: 1, seed: g.seed()}
			if role == 0 {
				cx.my, cx.dealer, cx.main = 128, 128, 253
			}
			if proto == 2 {
				cx.dealer = -1
			}
			cx.originSweep(false)
			cx.idxSweep(false)
			cx.msg("large-dkg", true, int64(cx.main), fmt.Sprintf("DV%d", cx.main))
			cx.msg("large-dkg", false, int64(cx.main), fmt.Sprintf("DS%d", cx.main))
			cx.sc("large-dkg", c09DkgOp{Op: "end"}, c09DkgOp{Op: "bcast", Orig: int64(cx.main), Msg: fmt.Sprintf("DV%d", cx.main)},
				c09DkgOp{Op: "priv", Orig: int64(cx.main), Msg: fmt.Sprintf("DS%d", cx.main)}, c09DkgOp{Op: "bcast", Orig: 200, Msg: fmt.Sprintf("x02+x%02x", cx.main)},
				c09DkgOp{Op: "timeout"}, c09DkgOp{Op: "bcast", Orig: int64(cx.main), Msg: fmt.Sprintf("DA%d.200", cx.main)}, c09DkgOp{Op: "timeout"})
			for _, p := range []int64{252, 253, 254, 255, 256, 256 + 253, -3} {
				cx.sc("large-dkg", c09DkgOp{Op: "force", Orig: p})
			}
		}
	}
}

func (g *c09G) audit() {
	g.auditLarge()
	g.auditKeys()
	g.auditMixed()
	g.auditNarrow()
	g.auditInspector()
	g.auditMisc()
	g.auditDkgSeq()
}

// (a) every key object from every constructor, then USED
func (g *c09G) auditKeys() {
	var pubs []string
	for _, b := range []string{"bls.1", "nbls.1", "p256.1", "k1.1"} {
		for _, rt := range c09PubRoutes {
			if c09KeyAlgo(b) != 1 && rt != "" && rt != "@dec" && rt != "@decc" {
				continue
			}
			pubs = append(pubs, b+rt)
		}
	}
	pubs = append(pubs, c09IDRoutes...)
	for _, k := range pubs {
		good := "xof"
		if c09KeyAlgo(k) != 1 {
			good = "sha2_256"
		}
		for _, s := range []string{"G", "G/47", "nil", "xc0+z47", "r48.5", "r64.5"} {
			g.add("route-verify", c09In{F: "Verify", K: []string{k}, B: []string{s, g.rnd(16)}, H: good})
		}
		g.add("route-verify", c09In{F: "Verify", K: []string{k}, B: []string{"G", "nil"}, H: "nil"})
		g.add("route-verify", c09In{F: "Verify", K: []string{k}, B: []string{"G", "e"}, H: "kmac127"})
		if c09KeyAlgo(k) == 1 {
			for _, s := range []string{"POP", "POP/47", "xc0+z47", "nil"} {
				g.add("route-pop", c09In{F: "BLSVerifyPOP", K: []string{k}, B: []string{s}})
			}
			for _, p := range []string{"G", "G/49", "xc0+z47", "e"} {
				g.add("route-spock", c09In{F: "SPOCKVerifyAgainstData", K: []string{k}, B: []string{p, g.rnd(10)}, H: "xof"})
				g.add("route-spock", c09In{F: "SPOCKVerify", K: []string{k, "bls.2@dec"}, B: []string{c09SpockAtom(p, 1), "G2", "r10.1"}})
				g.add("route-spock", c09In{F: "SPOCKVerify", K: []string{"bls.2", k}, B: []string{"G1", c09SpockAtom(p, 2), "r10.1"}})
			}
			g.add("route-agg", c09In{F: "AggregateBLSPublicKeys", L: []string{k}})
			g.add("route-agg", c09In{F: "AggregateBLSPublicKeys", L: []string{"bls.2", k, "bls.3@dec"}})
			g.add("route-agg", c09In{F: "AggregateBLSPublicKeys", L: []string{k, k}})
			g.add("route-remove", c09In{F: "RemoveBLSPublicKeys", K: []string{k}, L: []string{k}})
			g.add("route-remove", c09In{F: "RemoveBLSPublicKeys", K: []string{k}, L: []string{"bls.2@decc", k}})
			g.add("route-remove", c09In{F: "RemoveBLSPublicKeys", K: []string{"bls.2"}, L: []string{k}})
			g.add("route-multi", c09In{F: "VerifyBLSSignatureOneMessage", L: []string{k, "bls.2"}, B: []string{"A", g.rnd(24)}, H: "xof"})
			g.add("route-multi", c09In{F: "VerifyBLSSignatureOneMessage", L: []string{k}, B: []string{"A/47", g.rnd(24)}, H: "xof"})
			g.add("route-multi", c09In{F: "VerifyBLSSignatureManyMessages", L: []string{"bls.2", k}, B: []string{"A"}, M: []string{"r8.100", "r9.101"}, HL: []string{"xof", "xof"}})
			g.add("route-multi", c09In{F: "BatchVerifyBLSSignaturesOneMessage", L: []string{"bls.2", k}, M: []string{"I0", "I1"}, B: []string{g.rnd(24)}, H: "xof"})
			g.add("route-multi", c09In{F: "BatchVerifyBLSSignaturesOneMessage", L: []string{k}, M: []string{"r47.1"}, B: []string{g.rnd(24)}, H: "xof"})
			g.add("route-ctor", c09In{F: "NewBLSThresholdSignatureInspector", K: []string{k}, L: []string{"bls.1000", k, "bls.1002"}, A: []int64{1}, B: []string{g.rnd(10), "x633039"}})
		}
		for _, o := range []string{k, "bls.1", "bls.2@dec", "p256.1", "k1.1@decc", "id", "id@cancel", "nil"} {
			g.add("route-equals", c09In{F: "Equals", Ops: []string{"pub"}, K: []string{k, o}})
		}
	}
	for _, b := range []string{"bls.1", "nbls.1", "p256.1", "k1.1"} {
		for _, rt := range []string{"", "@dec", "@agg"} {
			if rt == "@agg" && c09KeyAlgo(b) != 1 {
				continue
			}
			k := b + rt
			for _, h := range []string{"xof", "sha2_256", "nil", "kmac127", "kmac31"} {
				g.add("route-sign", c09In{F: "Sign", K: []string{k}, B: []string{g.rnd(20)}, H: h})
			}
			g.add("route-sign", c09In{F: "BLSGeneratePOP", K: []string{k}})
			g.add("route-sign", c09In{F: "SPOCKProve", K: []string{k}, B: []string{g.rnd(10)}, H: "xof"})
			g.add("route-agg", c09In{F: "AggregateBLSPrivateKeys", L: []string{k, "bls.2"}})
			g.add("route-agg", c09In{F: "AggregateBLSPrivateKeys", L: []string{k}})
			for _, o := range []string{k, b, "bls.2@dec", "p256.1@dec", "k1.1", "nil"} {
				g.add("route-equals", c09In{F: "Equals", Ops: []string{"priv"}, K: []string{k, o}})
			}
			if c09KeyAlgo(b) == 1 {
				g.add("route-ctor", c09In{F: "NewBLSThresholdSignatureParticipant", K: []string{"bls.1", k}, L: []string{"bls.1000", b + "@dec", "bls.1002"}, A: []int64{1, 1}, B: []string{g.rnd(10), "x633039"}})
			}
		}
	}
	// (e) cancelling keys and signatures, doubled keys: the sums pass through the identity / a doubling
	for _, l := range [][]string{{"bls.1", "nbls.1"}, {"nbls.1", "bls.1"}, {"bls.1", "nbls.1", "bls.2"}, {"bls.2", "bls.1", "nbls.1"}, {"bls.1", "bls.1", "nbls.1", "nbls.1"},
		{"bls.1", "bls.1"}, {"bls.1", "bls.1", "bls.1"}, {"id", "id"}, {"bls.1", "nbls.1", "id"}} {
		g.add("cancel", c09In{F: "AggregateBLSPublicKeys", L: l})
		if !strings.Contains(strings.Join(l, ","), "id") { // there is no identity private key
			g.add("cancel", c09In{F: "AggregateBLSPrivateKeys", L: l})
		}
		g.add("cancel", c09In{F: "RemoveBLSPublicKeys", K: []string{"bls.1"}, L: l})
		g.add("cancel", c09In{F: "RemoveBLSPublicKeys", K: []string{"id@cancel"}, L: l})
		g.add("cancel", c09In{F: "VerifyBLSSignatureOneMessage", L: l, B: []string{"A", g.rnd(24)}, H: "xof"})
		g.add("cancel", c09In{F: "VerifyBLSSignatureOneMessage", L: l, B: []string{"xc0+z47", g.rnd(24)}, H: "xof"})
		same := c09nstr(len(l), func(int) string { return "r8.100" })
		diff := c09nstr(len(l), func(i int) string { return fmt.Sprintf("r%d.%d", 8+i, 100+i) })
		xofs := c09nstr(len(l), func(int) string { return "xof" })
		for _, ms := range [][]string{same, diff} {
			g.add("cancel", c09In{F: "VerifyBLSSignatureManyMessages", L: l, B: []string{"A"}, M: ms, HL: xofs})
			// (the identity signature is what "A" resolves to when the keys cancel: then it IS the genuine aggregate
			// and the pairing product holds, so it is not offered as a literal with genuine = 0)
		}
		g.add("cancel", c09In{F: "BatchVerifyBLSSignaturesOneMessage", L: l, M: c09nstr(len(l), func(i int) string { return fmt.Sprintf("I%d", i) }), B: []string{g.rnd(24)}, H: "xof"})
	}
	for _, l := range [][]string{{"S1", "N1"}, {"N1", "S1"}, {"S1", "N1", "S2"}, {"S1", "S1"}, {"S1", "S1", "N1", "N1"}, {"xc0+z47", "xc0+z47"}, {"xc0+z47", "S1", "N1"}, {"S2", "xc0+z47", "xc0+z47"}} {
		g.add("cancel", c09In{F: "AggregateBLSSignatures", L: l})
	}
	g.add("cancel", c09In{F: "SPOCKVerify", K: []string{"bls.1", "nbls.1"}, B: []string{"G1", "G2", "r10.1"}})
	g.add("cancel", c09In{F: "SPOCKVerify", K: []string{"bls.1", "bls.1@dec"}, B: []string{"G1", "G2", "r10.1"}})
	g.add("cancel", c09In{F: "SPOCKVerify", K: []string{"bls.1", "bls.1"}, B: []string{"r47.4", "r47.4", "r10.1"}})
	g.add("cancel", c09In{F: "SPOCKVerify", K: []string{"id", "id@cancel"}, B: []string{"xc0+z47", "xc0+z47", "r10.1"}})
}

// "G", "G/49" -> "G1", "G1/49" (the genuine-proof atom of SPOCKVerify names the key)
func c09SpockAtom(p string, i int) string {
	if strings.HasPrefix(p, "G") {
		return fmt.Sprintf("G%d%s", i, p[1:])
	}
	return p
}

// (c), (i): several defects in one call, every documented error together with others (which check wins is decided
// by the regenerated skeleton, the property oracle accepts any documented class of a defect that is present)
func (g *c09G) auditMixed() {
	nmix := 60
	if g.thorough {
		nmix = 1500
	}
	keyPool := []string{"bls.1", "bls.2", "bls.3@dec", "nbls.1", "id", "id@cancel", "p256.1", "k1.1@dec", "nil"}
	wk := func() string {
		if g.r.IntN(3) == 0 {
			return g.pick(keyPool)
		}
		return c09bls(1 + g.r.IntN(4))
	}
	badHash := []string{"nil", "kmac127", "kmac129", "kmac0", "kmac31", "sha2_256", "sha3_384", "keccak"}
	wh := func(good string) string {
		if g.r.IntN(3) == 0 {
			return g.pick(badHash)
		}
		return good
	}
	// signature length x hasher x key for the single-key verifiers (both refusals at once)
	for _, k := range []string{"bls.1", "bls.1@dec", "id", "id@dec", "p256.1", "k1.1", "p256.1@decc"} {
		for _, s := range []string{"nil", "e", "r1.1", "G/47", "G/49", "G/63", "G/65", "r65536.2", "G"} {
			for _, h := range badHash {
				if !g.thorough && (len(s)+len(h)+len(k))%3 != 0 {
					continue
				}
				g.add("mix-verify", c09In{F: "Verify", K: []string{k}, B: []string{s, g.bl(g.r.IntN(3) - 1)}, H: h})
			}
		}
	}
	for _, k := range []string{"bls.1", "id", "id@rem", "p256.1", "k1.1", "nil"} {
		for _, p := range []string{"G", "G/47", "nil", "e", "xc0+z47", "r65536.4"} {
			for _, h := range badHash[:5] {
				if !g.thorough && (len(p)+len(h)+len(k))%2 != 0 {
					continue
				}
				g.add("mix-spock", c09In{F: "SPOCKVerifyAgainstData", K: []string{k}, B: []string{p, g.bl(g.r.IntN(3) - 1)}, H: h})
			}
		}
		for _, h := range badHash[:5] {
			if !c09IsID(k) { // there is no identity private key
				g.add("mix-spock", c09In{F: "SPOCKProve", K: []string{k}, B: []string{g.bl(g.r.IntN(3) - 1)}, H: h})
			}
		}
		for _, k2 := range []string{"bls.2", "id@agg", "k1.1", "nil"} {
			for _, p := range [][2]string{{"G1/47", "G2"}, {"G1", "nil"}, {"e", "e"}, {"xc0+z47", "G2/49"}, {"r65536.4", "r1.1"}} {
				g.add("mix-spock", c09In{F: "SPOCKVerify", K: []string{k, k2}, B: []string{p[0], p[1], "r10.1"}})
			}
		}
	}
	for i := 0; i < nmix; i++ {
		n := g.r.IntN(6)
		l := c09nstr(n, func(int) string { return wk() })
		sigs := []string{"A", "A", "A/47", "A/49", "nil", "e", "r48.9", "z48", "xc0+z47", "r65536.9"}
		g.add("mix-one", c09In{F: "VerifyBLSSignatureOneMessage", L: l, B: []string{g.pick(sigs), g.bl(g.r.IntN(40) - 1)}, H: wh("xof")})
		m := n
		if g.r.IntN(4) == 0 {
			m = g.r.IntN(7)
		}
		hn := n
		if g.r.IntN(4) == 0 {
			hn = g.r.IntN(7)
		}
		msgs := c09nstr(m, func(i int) string {
			if g.r.IntN(3) == 0 {
				return "r8.100" // repeated messages
			}
			return g.pick([]string{"nil", "e", fmt.Sprintf("r%d.%d", 8+i, 100+i)})
		})
		g.add("mix-many", c09In{F: "VerifyBLSSignatureManyMessages", L: l, B: []string{g.pick(sigs)}, M: msgs, HL: c09nstr(hn, func(int) string { return wh("xof") })})
		sn := n
		if g.r.IntN(4) == 0 {
			sn = g.r.IntN(7)
		}
		sl := c09nstr(sn, func(i int) string {
			if g.r.IntN(3) == 0 {
				return g.pick(c09BadSigs)
			}
			return fmt.Sprintf("I%d", i)
		})
		g.add("mix-batch", c09In{F: "BatchVerifyBLSSignaturesOneMessage", L: l, M: sl, B: []string{g.bl(g.r.IntN(40) - 1)}, H: wh("xof")})
		g.add("mix-agg", c09In{F: "AggregateBLSPublicKeys", L: l})
		g.add("mix-agg", c09In{F: "AggregateBLSPrivateKeys", L: c09nstr(n, func(int) string {
			return g.pick([]string{"bls.1", "bls.2@dec", "nbls.1", "bls.3@agg", "p256.1", "k1.1@dec", "nil", "bls.1"})
		})})
		g.add("mix-agg", c09In{F: "RemoveBLSPublicKeys", K: []string{wk()}, L: l})
		g.add("mix-agg", c09In{F: "AggregateBLSSignatures", L: c09nstr(n, func(int) string {
			if g.r.IntN(3) == 0 {
				return g.pick(c09BadSigs)
			}
			return g.pick([]string{"S1", "S2", "N1", "S1", "xc0+z47"})
		})})
		// threshold reconstruction: bad shares, bad signers, duplicates and bad parameters together
		t := 1 + g.r.IntN(3)
		k := g.r.IntN(t + 4)
		shares := c09nstr(k, func(i int) string {
			if g.r.IntN(4) == 0 {
				return g.pick(c09BadSigs)
			}
			return fmt.Sprintf("V%d", i%8)
		})
		ks := k
		if g.r.IntN(5) == 0 {
			ks = g.r.IntN(t + 5)
		}
		nar := c09Narrowed(8)
		signers := c09nstr(ks, func(i int) string {
			switch g.r.IntN(6) {
			case 0:
				return strconv.FormatInt(nar[g.r.IntN(len(nar))], 10)
			case 1:
				return strconv.Itoa(g.r.IntN(8))
			}
			return strconv.Itoa(i % 8)
		})
		size := int64(8)
		if g.r.IntN(6) == 0 {
			size = nar[g.r.IntN(len(nar))]
		}
		thr := int64(t)
		if g.r.IntN(8) == 0 {
			thr = nar[g.r.IntN(len(nar))]
		}
		g.add("mix-rec", c09In{F: "BLSReconstructThresholdSignature", A: []int64{size, thr}, L: shares, M: signers, S: 5})
	}
}

// (f) integers that are in range only after narrowing, through every API that takes an index, a size or a threshold
func (g *c09G) auditNarrow() {
	vs := func(n int) []string { return c09nstr(n, func(i int) string { return fmt.Sprintf("V%d", i) }) }
	for _, v := range c09Narrowed(8) {
		// signer index at the first, a middle and the last position
		for _, p := range []int{0, 1, 3} {
			s := []string{"0", "1", "2", "3"}
			s[p] = strconv.FormatInt(v, 10)
			g.add("narrow-rec", c09In{F: "BLSReconstructThresholdSignature", A: []int64{8, 2}, L: vs(4), M: s, S: 5})
		}
		g.add("narrow-rec", c09In{F: "BLSReconstructThresholdSignature", A: []int64{v, 2}, L: vs(3), M: []string{"0", "1", "2"}, S: 5})
		g.add("narrow-rec", c09In{F: "BLSReconstructThresholdSignature", A: []int64{8, v}, L: vs(3), M: []string{"0", "1", "2"}, S: 5})
		g.add("narrow-keygen", c09In{F: "BLSThresholdKeyGen", A: []int64{v, 1}, B: []string{g.rnd(32)}})
		g.add("narrow-keygen", c09In{F: "BLSThresholdKeyGen", A: []int64{8, v}, B: []string{g.rnd(32)}})
		g.add("narrow-enough", c09In{F: "EnoughShares", A: []int64{v, 3}})
		g.add("narrow-enough", c09In{F: "EnoughShares", A: []int64{2, v}})
		keys := c09nstr(8, func(i int) string { return c09bls(1000 + i) })
		g.add("narrow-ctor", c09In{F: "NewBLSThresholdSignatureInspector", K: []string{"bls.1"}, L: keys, A: []int64{v}, B: []string{g.rnd(10), "x633039"}})
		sk := "bls.1000"
		if v >= 0 && v < 8 {
			sk = c09bls(1000 + int(v))
		}
		g.add("narrow-ctor", c09In{F: "NewBLSThresholdSignatureParticipant", K: []string{"bls.1", sk}, L: keys, A: []int64{2, v}, B: []string{g.rnd(10), "x633039"}})
		g.add("narrow-ctor", c09In{F: "NewBLSThresholdSignatureParticipant", K: []string{"bls.1", "bls.1001"}, L: keys, A: []int64{v, 1}, B: []string{g.rnd(10), "x633039"}})
		for ci, ct := range []string{"NewFeldmanVSS", "NewFeldmanVSSQual", "NewJointFeldman"} {
			if !g.thorough && int(uint64(v)%3) != ci { // one constructor per value in the quick tier
				continue
			}
			for _, a := range [][]int64{{v, 2, 0, 0}, {8, v, 0, 0}, {8, 2, v, 0}, {8, 2, 0, v}} {
				if ct == "NewJointFeldman" && a[3] != 0 {
					continue
				}
				g.add("narrow-dkgctor", c09In{F: "dkg.ctor", Ops: []string{ct}, A: a, K: []string{"rec"}})
			}
		}
	}
	for _, v := range c09Narrowed(5) {
		pre := []string{"T:0:V0", "T:1:V1"}
		for _, m := range []string{"HasShare", "VerifyShare", "TrustedAdd", "VerifyAndAdd"} {
			for _, sh := range []string{"V0", "V1", "V4", "r47.1"} {
				if m == "HasShare" && sh != "V0" {
					continue
				}
				if !g.thorough && sh == "V4" {
					continue
				}
				g.add("narrow-insp", c09In{F: "inspseq", Ops: []string{m}, A: []int64{5, 2, v}, B: []string{sh}, L: pre, S: 9})
			}
		}
	}
	// DKG: origins / participants that narrow to the dealer, to this participant, to a third one, in every running phase
	for proto := 0; proto < 3; proto++ {
		for _, phase := range []int{1, 2, 3} {
			if proto == 0 && phase > 1 {
				continue
			}
			n, t, my, dealer := 5, 2, 1, 3
			cx := &c09Cx{g: g, proto: proto, n: n, t: t, my: my, dealer: dealer, other: 4, main: dealer, phase: phase, seed: g.seed()}
			if proto == 2 {
				cx.dealer = -1
			}
			ks := []int64{256, -256, 1 << 32}
			if g.thorough {
				ks = append(ks, 65536, -(1 << 32), math.MinInt64)
			}
			for _, k := range ks {
				for _, i := range []int64{int64(dealer), int64(my), 4} {
					cx.msg("narrow-dkg", true, k+i, fmt.Sprintf("x01+g%d.70", t+1))
					cx.msg("narrow-dkg", false, k+i, "x00+s.71")
					cx.msg("narrow-dkg", true, k+i, "x02+x03")
					cx.sc("narrow-dkg", c09DkgOp{Op: "force", Orig: k + i})
				}
			}
		}
	}
}

// (d) stateful inspector: histories with failed calls, repeated ThresholdSignature, both constructors
func (g *c09G) auditInspector() {
	n, t := 5, 2
	seed := uint64(9)
	vias := []string{"insp", "part:0", "part:4"}
	full := []string{"T:0:V0", "T:1:V1", "T:2:V2"}
	forged := []string{"T:0:V0", "T:1:V2", "T:2:V2"}   // a well-formed share of another signer
	short := []string{"T:0:V0", "T:1:V1/47", "T:2:V2"} // a share of the wrong length in the pool
	verified := []string{"V:0:V0", "V:1:V1", "V:2:V2"}
	mixed := []string{"V:0:V1", "T:9:V0", "V:0:V0", "T:0:V0", "Y:1:V1", "T:1:V1", "H:1", "E", "V:2:r47.1", "V:2:V2"}
	for _, via := range vias {
		for pi, pre := range [][]string{nil, full, forged, short, verified, mixed, full[:2]} {
			for _, reps := range []int{0, 1, 2} { // ThresholdSignature called that many times before the observed call
				l := append([]string{}, pre...)
				for k := 0; k < reps; k++ {
					l = append(l, "S")
				}
				g.add("insp-hist", c09In{F: "inspseq", Ops: []string{"ThresholdSignature"}, A: []int64{int64(n), int64(t)}, K: []string{via}, L: l, S: seed})
				if reps == 1 || g.thorough {
					// ... and a failed ThresholdSignature is followed by more shares and another attempt
					l2 := append(append([]string{}, l...), "T:3:V3", "T:4:V4", "S")
					g.add("insp-hist", c09In{F: "inspseq", Ops: []string{"ThresholdSignature"}, A: []int64{int64(n), int64(t)}, K: []string{via}, L: l2, S: seed})
					for _, m := range []string{"TrustedAdd", "VerifyAndAdd", "VerifyShare"} {
						for _, sh := range []string{"V3", "V0", "r47.1", "nil"} {
							if !g.thorough && (pi+len(sh)+len(m))%2 != 0 {
								continue
							}
							g.add("insp-hist", c09In{F: "inspseq", Ops: []string{m}, A: []int64{int64(n), int64(t), 3}, B: []string{sh}, K: []string{via}, L: l, S: seed})
						}
					}
					g.add("insp-hist", c09In{F: "inspseq", Ops: []string{"HasShare"}, A: []int64{int64(n), int64(t), 1}, K: []string{via}, L: l, S: seed})
					g.add("insp-hist", c09In{F: "inspseq", Ops: []string{"EnoughShares"}, A: []int64{int64(n), int64(t)}, K: []string{via}, L: l, S: seed})
				}
			}
		}
		for _, c := range []string{"GS", "GS/47", "GS/49", "nil", "e", "r1.1", "r48.1", "V0", "z48", "xc0+z47", "xe0+z47", "o48", "r65536.1"} {
			for _, pre := range [][]string{nil, append(append([]string{}, full...), "S")} {
				g.add("insp-verifyts", c09In{F: "inspseq", Ops: []string{"VerifyThresholdSignature"}, A: []int64{int64(n), int64(t)}, B: []string{c}, K: []string{via}, L: pre, S: seed})
			}
		}
		if via != "insp" {
			g.add("insp-signshare", c09In{F: "inspseq", Ops: []string{"SignShare"}, A: []int64{int64(n), int64(t)}, K: []string{via}, S: seed})
			g.add("insp-signshare", c09In{F: "inspseq", Ops: []string{"SignShare"}, A: []int64{int64(n), int64(t)}, K: []string{via}, L: append(append([]string{}, forged...), "S"), S: seed})
		}
	}
	if g.thorough {
		ops := []string{"T:0:V0", "T:1:V1", "T:2:V2", "T:3:V3", "V:0:V0", "V:1:V1", "V:4:V4", "T:1:V2", "V:2:V1", "T:2:r47.1", "T:3:nil", "T:7:V0", "T:-1:V0", "T:256:V0",
			"S", "S", "E", "H:1", "H:9", "Y:1:V1", "Y:1:r49.1", "C:GS", "C:r47.1"}
		for i := 0; i < 1500; i++ {
			l := c09nstr(g.r.IntN(9), func(int) string { return g.pick(ops) })
			m := g.pick([]string{"ThresholdSignature", "ThresholdSignature", "TrustedAdd", "VerifyAndAdd", "VerifyShare", "HasShare", "VerifyThresholdSignature", "EnoughShares"})
			o := int64(g.r.IntN(n))
			if g.r.IntN(4) == 0 {
				nar := c09Narrowed(int64(n))
				o = nar[g.r.IntN(len(nar))]
			}
			sh := g.pick([]string{"V0", "V1", "V2", "V3", "V4", "GS", "r47.1", "nil", "r48.1"})
			g.add("insp-hist-rand", c09In{F: "inspseq", Ops: []string{m}, A: []int64{int64(n), int64(t), o}, B: []string{sh}, K: []string{g.pick(vias)}, L: l, S: seed})
		}
	}
}

func (g *c09G) auditMisc() {
	for _, tl := range []int{-1, 0, 1, 15, 16, 17, 127, 128, 167, 168, 169, 255, 256, 257, 1000, c09Max} {
		for _, dl := range []int{-1, 0, 200} {
			g.add("xof-ctor", c09In{F: "NewExpandMsgXOFKMAC128", B: []string{g.bl(tl), g.bl(dl)}})
		}
	}
	g.add("xof-ctor", c09In{F: "NewExpandMsgXOFKMAC128", B: []string{"x424c535f5349475f424c53313233383147315f584f463a4b4d41433132385f535357555f524f5f4e554c5f", "e"}})
	g.add("xof-ctor", c09In{F: "NewExpandMsgXOFKMAC128", B: []string{"z300", "e"}})
	g.add("xof-ctor", c09In{F: "NewExpandMsgXOFKMAC128", B: []string{"o300", "e"}})
	hs := []string{"nil", "e", "r1.1", "r32.1", "r32.2", "r48.1", "r65536.1", "z32"}
	for _, a := range hs {
		for _, b := range hs {
			g.add("bytes-meth", c09In{F: "bytesmeth", Ops: []string{"Equal"}, B: []string{a, b}})
		}
		for _, m := range []string{"Hex", "String", "SigString", "SigBytes"} {
			g.add("bytes-meth", c09In{F: "bytesmeth", Ops: []string{m}, B: []string{a}})
		}
	}
	big := strconv.FormatInt(math.MaxInt64, 10)
	small := strconv.FormatInt(math.MinInt64, 10)
	perms := [][]string{{"<nil>"}, nil, {"0"}, {"1"}, {"-1"}, {"0", "1", "2"}, {"2", "1", "0"}, {"5", "5", "5"}, {big, small}, {small, big, "0"}, {"-1", "-2", "-3", "-4"},
		c09nstr(20, strconv.Itoa), c09nstr(21, strconv.Itoa), c09nstr(22, func(i int) string { return strconv.Itoa(21 - i) }), c09nstr(300, func(i int) string { return strconv.Itoa(299 - i) }),
		c09nstr(1000, func(i int) string { return big })}
	for _, p := range perms {
		g.add("encode-perm", c09In{F: "random.EncodePermutation", L: p})
	}
	// PRG histories: reads of every size class (also empty and nil buffers), then the observed call
	pres := [][]string{{"R0"}, {"R1"}, {"R64"}, {"R1", "R0", "R63"}, {"R7", "R1", "R8", "R9"}}
	if g.thorough {
		pres = append(pres, []string{"R63"}, []string{"R65"}, []string{"R64", "R64", "R1"}, []string{"R65536"})
	}
	for _, pre := range pres {
		for _, n := range []int{-1, 0, 1, 63, 64, 65} {
			g.add("prg-hist", c09In{F: "prg", Ops: []string{"Read"}, B: []string{g.bl(n)}, L: pre, S: g.seed()})
		}
		for _, n := range []uint64{1, 2, 255, 256, 257, 1 << 32, 1<<32 + 1, 1 << 63, math.MaxUint64} {
			g.add("prg-hist", c09In{F: "prg", Ops: []string{"UintN"}, U: []uint64{n}, L: pre, S: g.seed()})
		}
		for _, nm := range [][2]int64{{0, 0}, {1, 1}, {5, 0}, {5, 5}, {5, 6}, {300, 3}, {-1, -1}, {256, 256}, {257, 1}} {
			g.add("prg-hist", c09In{F: "prg", Ops: []string{"SubPermutation"}, A: []int64{nm[0], nm[1]}, L: pre, S: g.seed()})
			g.add("prg-hist", c09In{F: "prg", Ops: []string{"Samples"}, A: []int64{nm[0], nm[1]}, K: []string{"noop"}, L: pre, S: g.seed()})
		}
		g.add("prg-hist", c09In{F: "prg", Ops: []string{"Permutation"}, A: []int64{257}, L: pre, S: g.seed()})
		g.add("prg-hist", c09In{F: "prg", Ops: []string{"Shuffle"}, A: []int64{257}, K: []string{"noop"}, L: pre, S: g.seed()})
	}
	// KMAC and constructors: sizes at the narrowing boundaries that are affordable
	for _, o := range []int64{255, 256, 257, 65535, 65536} {
		g.add("kmac-ctor", c09In{F: "hash.NewKMAC_128", B: []string{g.bl(16), "nil"}, A: []int64{o}})
		g.add("hasher-seq", c09In{F: "hasher", H: fmt.Sprintf("kmac%d", o), Ops: []string{"W:r200.1", "S", "S"}})
	}
	for _, kl := range []int{161, 162, 163, 164, 255, 256, 257, 329, 330, 331, 332} {
		g.add("kmac-ctor", c09In{F: "hash.NewKMAC_128", B: []string{g.bl(kl), g.bl(g.r.IntN(40))}, A: []int64{32}})
	}
}

// (j) DKG message SEQUENCES with consistent content: the real vector / shares / complaint answers of dealers (atoms
// DV<j>, DS<j>, DA<j>.<c> right answer, DB<j>.<c> wrong answer, resolved against the dealt material of the case),
// complaints, malformed pieces, timeouts and ForceDisqualify in random orders; every call of the sequence runs under
// recover (a panic in the prelude is reported as "PANIC: (setup)"), the last call is the observed one
func (g *c09G) auditDkgSeq() {
	// directed: every order of up to three of {vector, share, third-party complaint, right / wrong answer to it, a
	// malformed share (this participant complains), an answer to this participant, first timeout}, then what is left
	// of the run up to End, for Feldman-VSS-Qual and Joint-Feldman
	for _, proto := range []int{1, 2} {
		n, t, my, dealer, c := 4, 2, 1, 0, 2
		cx := &c09Cx{g: g, proto: proto, n: n, t: t, my: my, dealer: dealer, phase: 1, seed: g.seed()}
		if proto == 2 {
			cx.dealer = -1
		}
		el := []c09DkgOp{
			{Op: "bcast", Orig: int64(dealer), Msg: "DV0"},
			{Op: "priv", Orig: int64(dealer), Msg: "DS0"},
			{Op: "bcast", Orig: int64(c), Msg: "x02+x00"},
			{Op: "bcast", Orig: int64(dealer), Msg: fmt.Sprintf("DA0.%d", c)},
			{Op: "bcast", Orig: int64(dealer), Msg: fmt.Sprintf("DB0.%d", c)},
			{Op: "priv", Orig: int64(dealer), Msg: "x00+z31"},
			{Op: "bcast", Orig: int64(dealer), Msg: fmt.Sprintf("DA0.%d", my)},
			{Op: "timeout"},
		}
		maxLen := 3
		if proto == 2 && !g.thorough {
			maxLen = 2
		}
		var rec func(seq []int)
		rec = func(seq []int) {
			if len(seq) > 0 {
				var ops []c09DkgOp
				tos := 0
				for _, i := range seq {
					ops = append(ops, el[i])
					if el[i].Op == "timeout" {
						tos++
					}
				}
				for ; tos < 2; tos++ {
					ops = append(ops, c09DkgOp{Op: "timeout"})
				}
				cx.sc("dkg-perm", c09DkgOp{Op: "end"}, ops...)
			}
			if len(seq) == maxLen {
				return
			}
			for i := range el {
				used := false
				for _, j := range seq {
					used = used || j == i
				}
				if !used {
					rec(append(append([]int{}, seq...), i))
				}
			}
		}
		rec(nil)
	}
	nseq := 240
	if g.thorough {
		nseq = 6000
	}
	for i := 0; i < nseq; i++ {
		proto := 1 + i%2
		if i%8 == 7 {
			proto = 0
		}
		n := 3 + g.r.IntN(3)
		t := 1 + g.r.IntN(n-1)
		if t > 2 {
			t = 2
		}
		my := g.r.IntN(n)
		dealer := (my + 1 + g.r.IntN(n-1)) % n
		if g.r.IntN(4) == 0 {
			dealer = my
		}
		cx := &c09Cx{g: g, proto: proto, n: n, t: t, my: my, dealer: dealer, phase: 1, seed: g.seed()}
		d := dealer
		if proto == 2 {
			cx.dealer = -1
			d = (my + 1) % n
		}
		anyone := func() int64 {
			if g.r.IntN(10) == 0 {
				nar := c09Narrowed(int64(n))
				return nar[g.r.IntN(len(nar))]
			}
			return int64(g.r.IntN(n))
		}
		dl := func() int { // a dealer: the dealer, or anybody in Joint-Feldman
			if proto == 2 && g.r.IntN(2) == 0 {
				return g.r.IntN(n)
			}
			return d
		}
		one := func() c09DkgOp {
			j := dl()
			c := g.r.IntN(n)
			switch g.r.IntN(16) {
			case 0, 1:
				return c09DkgOp{Op: "bcast", Orig: int64(j), Msg: fmt.Sprintf("DV%d", j)}
			case 2, 3:
				return c09DkgOp{Op: "priv", Orig: int64(j), Msg: fmt.Sprintf("DS%d", j)}
			case 4, 5:
				return c09DkgOp{Op: "bcast", Orig: int64(c), Msg: fmt.Sprintf("x02+x%02x", j)}
			case 6:
				return c09DkgOp{Op: "bcast", Orig: int64(j), Msg: fmt.Sprintf("DA%d.%d", j, c)}
			case 7:
				return c09DkgOp{Op: "bcast", Orig: int64(j), Msg: fmt.Sprintf("DB%d.%d", j, c)}
			case 8:
				return c09DkgOp{Op: "timeout"}
			case 9:
				return c09DkgOp{Op: "force", Orig: anyone()}
			case 10:
				return c09DkgOp{Op: "priv", Orig: int64(j), Msg: g.pick([]string{"e", "nil", "x00", "x00+z32", "x00+o32", "x00+r31.1", "x07+r32.1", fmt.Sprintf("DS%d+x00", j)})}
			case 11:
				return c09DkgOp{Op: "bcast", Orig: int64(j), Msg: g.pick([]string{"e", "x01", fmt.Sprintf("DV%d/%d", j, 96*(t+1)), fmt.Sprintf("DV%d+x00", j), fmt.Sprintf("x01+g%d.60+xe0+z95", t),
					"x02", "x02+xff", fmt.Sprintf("x03+x%02x", c), fmt.Sprintf("x03+xff+s.72"), fmt.Sprintf("x03+x%02x+z32", c), fmt.Sprintf("x03+x%02x+o32", c), "x09+r5.1"})}
			case 12:
				// the same content from somebody who is not the dealer / over the other channel / from out of range
				return c09DkgOp{Op: g.pick([]string{"bcast", "priv"}), Orig: anyone(), Msg: g.pick([]string{fmt.Sprintf("DV%d", j), fmt.Sprintf("DS%d", j), fmt.Sprintf("DA%d.%d", j, c), fmt.Sprintf("x02+x%02x", j)})}
			case 13:
				return c09DkgOp{Op: "start", Msg: g.pick([]string{"r32.1", "r31.1", "e"})}
			case 14:
				return c09DkgOp{Op: "end"}
			}
			return c09DkgOp{Op: "bcast", Orig: int64(c), Msg: fmt.Sprintf("x02+x%02x", g.r.IntN(n+2))}
		}
		k := 2 + g.r.IntN(9)
		ops := make([]c09DkgOp, k)
		for q := range ops {
			ops[q] = one()
		}
		// the observed call: half of the time the End of the run (after the timeouts that are still missing)
		if g.r.IntN(2) == 0 {
			ops = append(ops, c09DkgOp{Op: "timeout"}, c09DkgOp{Op: "timeout"}, c09DkgOp{Op: "end"})
		}
		cx.sc("dkg-seq", ops[len(ops)-1], ops[:len(ops)-1]...)
	}
}
