package main

// C19: read-only / thread-safe operations.
// A case is a mix of the listed operations over shared BLS/ECDSA keys, messages,
// signatures and ONE shared KMAC128 hasher.  Phase 1 runs every operation alone and
// takes a snapshot of the whole shared environment (key encodings, messages,
// signatures, hasher state probe) before and after it.  Phase 2 runs the same
// operations from 2-8 goroutines (each several times) and compares every result with
// the sequential one; the environment snapshot is taken again afterwards.

import (
	"crypto/sha256"
	"encoding/json"
	"fmt"
	"math/rand/v2"
	"strings"
	"bytes"
	"sync"

	"github.com/onflow/crypto"
	"github.com/onflow/crypto/hash"
)

type c19Op struct {
	Op string `json:"op"` // kmac blssign blsverify pop spock spockdata agg1 aggn batch ecsign ecverify
	K  int    `json:"k"`  // key index
	K2 int    `json:"k2,omitempty"`
	M  int    `json:"m"` // message index
	S  int    `json:"s"` // signature selector: 0 matching, 1 other key's, 2 invalid encoding, 3 wrong length
}

type c19In struct {
	Seed string   `json:"seed"`
	NBLS int      `json:"nbls"`
	NEC  int      `json:"nec"`
	Msgs []string `json:"msgs"`
	Ops  []c19Op  `json:"ops"`
	G    int      `json:"g"`   // goroutines
	Rep  int      `json:"rep"` // repetitions per op in the concurrent phase
}

type c19Env struct {
	in     c19In
	kmac   hash.Hasher
	sks    []crypto.PrivateKey
	pks    []crypto.PublicKey
	pops   []crypto.Signature
	ecsk   []crypto.PrivateKey
	ecpk   []crypto.PublicKey
	ecalg  []int
	msgs   [][]byte
	sigs   [][]crypto.Signature // [key][msg] BLS
	ecsigs [][]crypto.Signature // [key][msg] ECDSA
	bad    []crypto.Signature   // invalid encoding, wrong length
	stressKmac hash.Hasher
	stressBLS  hash.Hasher
	stressBLS2 hash.Hasher // a second shared hasher with another tag (per-index hashers)

	mu   sync.Mutex
	viol string // first contract violation the harness can judge by itself (argument modified, ...)
	kept []c19Kept
}

// results handed out by Sign / ComputeHash are values: kept un-copied, looked at again at the end
type c19Kept struct {
	what string
	raw  []byte
	hex  string
}

func (env *c19Env) fail(f string, a ...any) {
	env.mu.Lock()
	if env.viol == "" {
		env.viol = fmt.Sprintf(f, a...)
	}
	env.mu.Unlock()
}

func (env *c19Env) keep(what string, raw []byte) {
	env.mu.Lock()
	if len(env.kept) < 400 {
		env.kept = append(env.kept, c19Kept{what, raw, hx(raw)})
	}
	env.mu.Unlock()
}

func (env *c19Env) checkKept() {
	env.mu.Lock()
	defer env.mu.Unlock()
	for _, k := range env.kept {
		if hx(k.raw) != k.hex && env.viol == "" {
			env.viol = fmt.Sprintf("the result of an earlier %s (%s) reads %s after later calls: results are not fresh buffers", k.what, k.hex, hx(k.raw))
		}
	}
}

var (
	c19ColdMu      sync.Mutex
	c19ColdFailure string
)

func init() {
	register(&Prop{
		ID:        "C19",
		Header:    "From Coq Require Import NArith List String.\nFrom V Require Import Corr.C19Corr.\nImport ListNotations.\nOpen Scope string_scope.\n",
		Check:     "bad_ids",
		PropCheck: "prop_bad_ids",
		Gen:       c19Gen,
		Run:       c19Run,
		Rule:      "mixes of the listed operations (KMAC ComputeHash, BLS Sign/Verify, PoP generation and verification through the package-level PoP hasher, SPoCK, aggregate and batch verification, ECDSA Sign/Verify) over shared keys, messages (random, and the shapes empty / 1 byte / one cSHAKE block / 5000 bytes), valid/foreign/malformed signatures and one shared KMAC128 hasher; snapshot of every shared object before/after each operation run alone, then 2-8 (some cases 16 and 33) goroutines x repetitions compared with the sequential results; the list arguments (keys, messages, hashers, signatures) are checked element by element after every call, signatures / digests handed out are kept un-copied and re-read at the end; stress: distinct short inputs on one shared hasher, aggregate verification with repeated keys and hashers that differ per index, FIRST USE by 8 goroutines at once of key objects fresh from every constructor (decoded, aggregated, removed-from, derived, identity; BLS public and private, ECDSA public and private on both curves) by PoP / Encode / Verify / Sign / SPoCK / aggregate / batch verification and of a new KMAC128 hasher; cold: the same in a child process with nothing warmed up, incl. the package-level PoP hasher; the whole workload is repeated under the race detector; non-trivial if at least one operation returned a signature or true; distinct by (seed, op list, goroutines); signature aggregation from every goroutine at once after failed aggregations (invalid point, wrong length, empty list); invalid signatures of five kinds (x >= p, x = p, outside G1, no curve point); per-goroutine KMAC128 hashers of 32 / 48 / 64 / 200 bytes (digests and ECDSA verification through them) next to the shared 128-byte ones",
		Shard:     60,
	})
}

func c19Setup(in c19In) (*c19Env, error) {
	env := &c19Env{in: in}
	env.stressKmac, _ = hash.NewKMAC_128([]byte("0123456789abcdef0123456789abcdef"), []byte("c19"), 32)
	env.stressBLS = crypto.NewExpandMsgXOFKMAC128("c19-stress")
	env.stressBLS2 = crypto.NewExpandMsgXOFKMAC128("c19-stress-2")
	r := rand.New(rand.NewPCG(uint64(len(in.Seed)), 77))
	seed := unhx(in.Seed)
	env.kmac = crypto.NewExpandMsgXOFKMAC128("C19-harness")
	for _, m := range in.Msgs {
		env.msgs = append(env.msgs, unhx(m))
	}
	mk := func(i int) []byte {
		s := append([]byte{}, seed...)
		s[0] ^= byte(i + 1)
		s[1] ^= byte(i * 7)
		return s
	}
	for i := 0; i < in.NBLS; i++ {
		sk, err := crypto.GeneratePrivateKey(crypto.BLSBLS12381, mk(i))
		if err != nil {
			return nil, err
		}
		env.sks = append(env.sks, sk)
		env.pks = append(env.pks, sk.PublicKey())
		pop, err := crypto.BLSGeneratePOP(sk)
		if err != nil {
			return nil, err
		}
		env.pops = append(env.pops, pop)
		var row []crypto.Signature
		for _, m := range env.msgs {
			s, err := sk.Sign(m, env.kmac)
			if err != nil {
				return nil, err
			}
			row = append(row, s)
		}
		env.sigs = append(env.sigs, row)
	}
	for i := 0; i < in.NEC; i++ {
		alg := crypto.ECDSAP256
		if i%2 == 1 {
			alg = crypto.ECDSASecp256k1
		}
		sk, err := crypto.GeneratePrivateKey(alg, mk(100+i))
		if err != nil {
			return nil, err
		}
		env.ecsk = append(env.ecsk, sk)
		env.ecpk = append(env.ecpk, sk.PublicKey())
		var row []crypto.Signature
		for _, m := range env.msgs {
			s, err := sk.Sign(m, hash.NewSHA2_256())
			if err != nil {
				return nil, err
			}
			row = append(row, s)
		}
		env.ecsigs = append(env.ecsigs, row)
	}
	env.bad = []crypto.Signature{crypto.BLSInvalidSignature(), make([]byte, 17)}
	// right length and a well-formed header, refused at a later stage of parsing: x >= p (all ones; x = p), a
	// curve point outside G1 (a genuine signature plus a cofactor-torsion point), x of no curve point
	ff := bytes.Repeat([]byte{0xff}, 48)
	ff[0] = 0x9f
	xp := blsP.FillBytes(make([]byte, 48))
	xp[0] |= 0x80
	env.bad = append(env.bad, ff, xp)
	tr := rand.New(rand.NewPCG(7, uint64(len(in.Seed))))
	env.bad = append(env.bad, e1Compress(e1Add(e1Decompress(env.sigs[0][0]), e1Torsion(tr))))
	for d := byte(1); d != 0; d++ {
		c := append([]byte{}, env.sigs[0][0]...)
		c[47] ^= d
		if _, err := crypto.AggregateBLSSignatures([]crypto.Signature{c}); err != nil {
			env.bad = append(env.bad, c)
			break
		}
	}
	_ = r
	return env, nil
}

func d8(b []byte) string {
	h := sha256.Sum256(b)
	return hx(h[:8])
}

// snapshot of every shared object; returns component digests
func (env *c19Env) snapshot() []string {
	var c []string
	// hasher: SumHash depends on everything absorbed so far; ComputeHash on a fixed probe
	c = append(c, "kmac.state:"+d8(env.kmac.SumHash()), "kmac.probe:"+d8(env.kmac.ComputeHash([]byte("probe"))), fmt.Sprintf("kmac.size:%d", env.kmac.Size()))
	for i := range env.sks {
		c = append(c, fmt.Sprintf("blssk%d:%s", i, d8(env.sks[i].Encode())), fmt.Sprintf("blspk%d:%s", i, d8(env.pks[i].Encode())),
			fmt.Sprintf("pop%d:%s", i, d8(env.pops[i])))
		for j := range env.msgs {
			c = append(c, fmt.Sprintf("sig%d_%d:%s", i, j, d8(env.sigs[i][j])))
		}
	}
	for i := range env.ecsk {
		c = append(c, fmt.Sprintf("ecsk%d:%s", i, d8(env.ecsk[i].Encode())), fmt.Sprintf("ecpk%d:%s", i, d8(env.ecpk[i].Encode())))
		for j := range env.msgs {
			c = append(c, fmt.Sprintf("ecsig%d_%d:%s", i, j, d8(env.ecsigs[i][j])))
		}
	}
	for j, m := range env.msgs {
		c = append(c, fmt.Sprintf("msg%d:%s", j, d8(m)))
	}
	for j, b := range env.bad {
		c = append(c, fmt.Sprintf("bad%d:%s", j, d8(b)))
	}
	return c
}

func snapDigest(c []string) string { return d8([]byte(strings.Join(c, "|"))) }

func snapDiff(a, b []string) []string {
	var d []string
	for i := range a {
		if i < len(b) && a[i] != b[i] {
			d = append(d, a[i]+" -> "+b[i])
		}
	}
	return d
}

func (env *c19Env) blsSig(o c19Op) crypto.Signature {
	switch o.S {
	case 1:
		return env.sigs[(o.K+1)%len(env.sks)][o.M]
	case 0:
		return env.sigs[o.K][o.M]
	}
	return env.bad[(o.S-2)%len(env.bad)]
}

// run one operation; the result is canonicalised to a string
func (env *c19Env) apply(o c19Op) string {
	res := func(b bool, err error) string {
		if err != nil {
			return "err:" + fmt.Sprintf("%T", err)
		}
		return fmt.Sprint(b)
	}
	nb := len(env.sks)
	switch o.Op {
	case "cold":
		if r := c19ColdRun(env.in.Seed); r != "cold-ok" {
			c19ColdMu.Lock()
			c19ColdFailure = r
			c19ColdMu.Unlock()
			return r
		}
		return "cold-ok"
	case "stress":
		// many goroutines, DISTINCT short inputs, one shared hasher / key: every call must return what it
		// returns alone (a shared scratch buffer inside the hasher would mix the inputs up)
		const G, R = 8, 150
		bad := 0
		var mu sync.Mutex
		var wg sync.WaitGroup
		// per-goroutine KMAC128 hashers of DIFFERENT output sizes (32, 48, 64, 200 bytes) run next to the shared
		// 128-byte ones: their digests, and ECDSA verification through them, are what they are alone
		ownSizes := []int{32, 48, 64, 200}
		ownKey := []byte("0123456789abcdef0123456789abcdef")
		ownMsg := []byte("per-goroutine hasher")
		var ownWant [][]byte
		var ownSig []crypto.Signature
		for _, sz := range ownSizes {
			hk, _ := hash.NewKMAC_128(ownKey, []byte("c19-own"), sz)
			ownWant = append(ownWant, hk.ComputeHash(ownMsg))
			sg, _ := env.ecsk[0].Sign(ownMsg, hk)
			ownSig = append(ownSig, sg)
		}
		for g := 0; g < G; g++ {
			wg.Add(1)
			go func(g int) {
				defer wg.Done()
				own, _ := hash.NewKMAC_128(ownKey, []byte("c19-own"), ownSizes[g%4])
				for r := 0; r < 40; r++ {
					okE, errE := env.ecpk[0].Verify(ownSig[g%4], ownMsg, own)
					if !bytes.Equal(own.ComputeHash(ownMsg), ownWant[g%4]) || !okE || errE != nil {
						mu.Lock()
						bad++
						mu.Unlock()
					}
				}
				for _, l := range []int{1, 8, 20, 32, 44} {
					m := make([]byte, l)
					for i := range m {
						m[i] = byte(g*31 + i + l)
					}
					fresh, _ := hash.NewKMAC_128([]byte("0123456789abcdef0123456789abcdef"), []byte("c19"), 32)
					want := fresh.ComputeHash(m)
					wantSig, _ := env.sks[0].Sign(m, crypto.NewExpandMsgXOFKMAC128("c19-stress"))
					for r := 0; r < R; r++ {
						if !bytes.Equal(env.stressKmac.ComputeHash(m), want) || (r%5 == 0 && !bytes.Equal(own.ComputeHash(ownMsg), ownWant[g%4])) {
							mu.Lock()
							bad++
							mu.Unlock()
						}
						if r%30 == 0 {
							sg, _ := env.sks[0].Sign(m, env.stressBLS)
							// every goroutine its own key: PoP generation shares the package-level PoP hasher
							kk := g % len(env.sks)
							pp, _ := crypto.BLSGeneratePOP(env.sks[kk])
							if !bytes.Equal(sg, wantSig) || !bytes.Equal(pp, env.pops[kk]) {
								mu.Lock()
								bad++
								mu.Unlock()
							}
						}
					}
				}
			}(g)
		}
		wg.Wait()
		// aggregate verification with REPEATED keys (several messages per key: the per-key grouping sums
		// hash images) and with repeated messages, many calls at once, each on its own valid job
		type job struct {
			pks  []crypto.PublicKey
			msgs [][]byte
			hs   []hash.Hasher
			sig  crypto.Signature
			parts []crypto.Signature
		}
		var jobs []job
		for g := 0; g < G; g++ {
			a, b := env.sks[0], env.sks[len(env.sks)-1]
			var j job
			var sigs []crypto.Signature
			for i := 0; i < 6; i++ {
				k := a
				if i%2 == 1 {
					k = b
				}
				m := []byte(fmt.Sprintf("job %d message %d", g, i/2*2+i%2*(g%2)))
				hh := env.stressBLS
				if (i+g)%3 == 0 {
					hh = env.stressBLS2 // the hashers differ per index (also for equal messages)
				}
				sg, _ := k.Sign(m, hh)
				sigs = append(sigs, sg)
				j.pks, j.msgs, j.hs = append(j.pks, k.PublicKey()), append(j.msgs, m), append(j.hs, hh)
			}
			j.sig, _ = crypto.AggregateBLSSignatures(sigs)
			j.parts = sigs
			if ok, err := crypto.VerifyBLSSignatureManyMessages(j.pks, j.sig, j.msgs, j.hs); !ok || err != nil {
				return "stress-job-invalid-when-alone"
			}
			jobs = append(jobs, j)
		}
		// the aggregation feeding those verifications, after FAILED aggregations (a right-length string that
		// is not a point, a wrong length, an empty list): every goroutine aggregates its own list and must get
		// what it gets alone (scratch memory recycled by an error path would be shared here)
		for round := 0; round < 4; round++ {
			_, _ = crypto.AggregateBLSSignatures([]crypto.Signature{jobs[0].sig, env.bad[0]})
			_, _ = crypto.AggregateBLSSignatures([]crypto.Signature{env.bad[0]})
			_, _ = crypto.AggregateBLSSignatures([]crypto.Signature{jobs[1].sig, env.bad[1]})
			_, _ = crypto.AggregateBLSSignatures(nil)
			startA := make(chan struct{})
			for g := 0; g < G; g++ {
				wg.Add(1)
				go func(j job) {
					defer wg.Done()
					<-startA
					for r := 0; r < 25; r++ {
						a, err := crypto.AggregateBLSSignatures(j.parts)
						if err != nil || !bytes.Equal(a, j.sig) {
							mu.Lock()
							bad++
							mu.Unlock()
						}
					}
				}(jobs[g])
			}
			close(startA)
			wg.Wait()
		}
		for g := 0; g < G; g++ {
			wg.Add(1)
			go func(j job) {
				defer wg.Done()
				for r := 0; r < 12; r++ {
					if ok, err := crypto.VerifyBLSSignatureManyMessages(j.pks, j.sig, j.msgs, j.hs); !ok || err != nil {
						mu.Lock()
						bad++
						mu.Unlock()
					}
				}
			}(jobs[g])
		}
		wg.Wait()
		// FIRST USE: key objects fresh from every constructor (decoded, aggregated, removed-from, derived
		// from a private key) are touched for the first time by several goroutines at once; any lazily
		// filled field inside the object is then written concurrently
		pkb, popb := env.pks[0].Encode(), env.pops[0]
		skb := env.sks[0].Encode()
		msg := []byte("first use")
		sigAlone, _ := env.sks[0].Sign(msg, env.stressBLS)
		for trial := 0; trial < 40; trial++ {
			fresh, err := crypto.DecodePublicKey(crypto.BLSBLS12381, pkb)
			if err != nil {
				return "stress-decode-failed"
			}
			agg, _ := crypto.AggregateBLSPublicKeys([]crypto.PublicKey{env.pks[0], env.pks[len(env.pks)-1]})
			one, err := crypto.RemoveBLSPublicKeys(agg, []crypto.PublicKey{env.pks[len(env.pks)-1]})
			if err != nil {
				return "stress-remove-failed"
			}
			fsk, _ := crypto.DecodePrivateKey(crypto.BLSBLS12381, skb)
			// PublicKey() of a private key is not among the operations C19 lists (it fills a cache in
			// the private key without synchronisation): derive the key object before the goroutines start
			fpk := fsk.PublicKey()
			start := make(chan struct{})
			for g := 0; g < G; g++ {
				wg.Add(1)
				go func(g int) {
					defer wg.Done()
					<-start
					var ok bool
					var err error
					var enc []byte
					switch g % 4 {
					case 0:
						ok, err = crypto.BLSVerifyPOP(fresh, popb)
					case 1:
						enc = fresh.Encode()
						ok = bytes.Equal(enc, pkb)
					case 2:
						ok, err = crypto.BLSVerifyPOP(one, popb) // same point as pks[0], another object
					case 3:
						ok, err = fpk.Verify(sigAlone, msg, env.stressBLS)
					}
					if !ok || err != nil {
						mu.Lock()
						bad++
						mu.Unlock()
					}
				}(g)
			}
			close(start)
			wg.Wait()
			if trial%4 != 0 {
				continue
			}
			// second wave, other first uses: a decoded PRIVATE key whose first use is concurrent Sign; fresh
			// key objects first used by SPoCK / aggregate / batch verification; decoded ECDSA keys (both
			// curves) first used by concurrent Sign / Verify; a new KMAC128 hasher whose first use is
			// concurrent ComputeHash; the identity key
			fsk2, _ := crypto.DecodePrivateKey(crypto.BLSBLS12381, skb)
			var fr [4]crypto.PublicKey
			for i := range fr {
				fr[i], _ = crypto.DecodePublicKey(crypto.BLSBLS12381, pkb)
			}
			idk := crypto.IdentityBLSPublicKey()
			fk, _ := hash.NewKMAC_128([]byte("0123456789abcdef0123456789abcdef"), []byte("c19"), 32)
			wantK := env.stressKmac.ComputeHash(msg)
			type ecFresh struct {
				sk  crypto.PrivateKey
				pk  crypto.PublicKey
				sig crypto.Signature
			}
			var ecf []ecFresh
			for k := range env.ecsk {
				alg := env.ecsk[k].Algorithm()
				dsk, e1 := crypto.DecodePrivateKey(alg, env.ecsk[k].Encode())
				dpk, e2 := crypto.DecodePublicKey(alg, env.ecpk[k].Encode())
				if e1 != nil || e2 != nil {
					return "stress-ecdsa-decode-failed"
				}
				ecf = append(ecf, ecFresh{dsk, dpk, env.ecsigs[k][0]})
			}
			start = make(chan struct{})
			for g := 0; g < G; g++ {
				wg.Add(1)
				go func(g int) {
					defer wg.Done()
					<-start
					ok, err := true, error(nil)
					switch g % 8 {
					case 0, 4:
						var sg crypto.Signature
						sg, err = fsk2.Sign(msg, env.stressBLS)
						ok = bytes.Equal(sg, sigAlone)
					case 1:
						ok, err = crypto.SPOCKVerify(fr[0], sigAlone, fr[1], sigAlone)
					case 2:
						ok, err = crypto.VerifyBLSSignatureOneMessage([]crypto.PublicKey{fr[2]}, sigAlone, msg, env.stressBLS)
					case 3:
						var bs []bool
						bs, err = crypto.BatchVerifyBLSSignaturesOneMessage([]crypto.PublicKey{fr[3], fr[3]}, []crypto.Signature{sigAlone, popb}, msg, env.stressBLS)
						ok = len(bs) == 2 && bs[0] && !bs[1]
					case 5:
						for _, e := range ecf {
							v, verr := e.pk.Verify(e.sig, env.msgs[0], hash.NewSHA2_256())
							if !v || verr != nil {
								ok, err = v, verr
							}
						}
					case 6:
						for _, e := range ecf {
							sg, serr := e.sk.Sign(msg, hash.NewSHA3_256())
							if serr != nil {
								ok, err = false, serr
								continue
							}
							if v, verr := e.pk.Verify(sg, msg, hash.NewSHA3_256()); !v || verr != nil {
								ok, err = v, verr
							}
						}
					case 7:
						ok = bytes.Equal(fk.ComputeHash(msg), wantK)
						if v, verr := idk.Verify(sigAlone, msg, env.stressBLS); v || verr != nil {
							ok, err = false, verr
						}
						if v, verr := crypto.BLSVerifyPOP(idk, popb); v || verr != nil {
							ok, err = false, verr
						}
					}
					if !ok || err != nil {
						mu.Lock()
						bad++
						mu.Unlock()
					}
				}(g)
			}
			close(start)
			wg.Wait()
		}
		if bad > 0 {
			return fmt.Sprintf("stress-mismatch:%d", bad)
		}
		return "stress-ok"
	case "kmac":
		h := env.kmac.ComputeHash(env.msgs[o.M])
		env.keep("KMAC128 ComputeHash", h)
		return hx(h)
	case "blssign":
		s, err := env.sks[o.K].Sign(env.msgs[o.M], env.kmac)
		if err != nil {
			return "err"
		}
		env.keep("BLS Sign", s)
		return hx(s)
	case "popgen":
		// BLS Sign of the key bytes under the package-level PoP hasher, which BLSVerifyPOP shares
		s, err := crypto.BLSGeneratePOP(env.sks[o.K])
		if err != nil {
			return "err"
		}
		env.keep("BLSGeneratePOP", s)
		return hx(s)
	case "blsverify":
		return res(env.pks[o.K].Verify(env.blsSig(o), env.msgs[o.M], env.kmac))
	case "pop":
		p := env.pops[o.K]
		if o.S == 1 {
			p = env.pops[(o.K+1)%nb]
		} else if o.S >= 2 {
			p = env.bad[(o.S-2)%len(env.bad)]
		}
		return res(crypto.BLSVerifyPOP(env.pks[o.K], p))
	case "spock":
		p2 := env.sigs[o.K2%nb][o.M]
		if o.S == 1 {
			p2 = env.sigs[o.K2%nb][(o.M+1)%len(env.msgs)]
		} else if o.S >= 2 {
			p2 = env.bad[(o.S-2)%len(env.bad)]
		}
		return res(crypto.SPOCKVerify(env.pks[o.K], env.sigs[o.K][o.M], env.pks[o.K2%nb], p2))
	case "spockdata":
		return res(crypto.SPOCKVerifyAgainstData(env.pks[o.K], env.blsSig(o), env.msgs[o.M], env.kmac))
	case "agg1":
		var ss []crypto.Signature
		for i := 0; i < nb; i++ {
			ss = append(ss, env.sigs[i][o.M])
		}
		agg, err := crypto.AggregateBLSSignatures(ss)
		if err != nil {
			return "err"
		}
		if o.S == 1 {
			agg = env.sigs[0][o.M]
		} else if o.S >= 2 {
			agg = env.bad[(o.S-2)%len(env.bad)]
		}
		pks := append([]crypto.PublicKey{}, env.pks...)
		aggCopy := hx(agg)
		r := res(crypto.VerifyBLSSignatureOneMessage(pks, agg, env.msgs[o.M], env.kmac))
		for i := range pks {
			if pks[i] != env.pks[i] {
				env.fail("VerifyBLSSignatureOneMessage changed the caller's key list (position %d)", i)
			}
		}
		if hx(agg) != aggCopy {
			env.fail("VerifyBLSSignatureOneMessage modified the signature argument")
		}
		return r
	case "aggn":
		var ss []crypto.Signature
		var ms [][]byte
		var hs []hash.Hasher
		for i := 0; i < nb; i++ {
			j := (o.M + i*o.K2) % len(env.msgs)
			ss = append(ss, env.sigs[i][j])
			ms = append(ms, env.msgs[j])
			hs = append(hs, env.kmac)
		}
		agg, err := crypto.AggregateBLSSignatures(ss)
		if err != nil {
			return "err"
		}
		if o.S == 1 {
			agg = env.sigs[0][o.M]
		} else if o.S >= 2 {
			agg = env.bad[(o.S-2)%len(env.bad)]
		}
		pks := append([]crypto.PublicKey{}, env.pks...)
		msCopy := append([][]byte{}, ms...)
		r := res(crypto.VerifyBLSSignatureManyMessages(pks, agg, ms, hs))
		for i := range pks {
			if pks[i] != env.pks[i] || hs[i] != env.kmac || len(ms[i]) != len(msCopy[i]) || (len(ms[i]) > 0 && &ms[i][0] != &msCopy[i][0]) {
				env.fail("VerifyBLSSignatureManyMessages changed the caller's key / message / hasher lists (position %d)", i)
			}
		}
		return r
	case "batch":
		var ss []crypto.Signature
		for i := 0; i < nb; i++ {
			s := env.sigs[i][o.M]
			if o.S != 0 && i == o.K {
				s = env.blsSig(c19Op{K: i, M: o.M, S: o.S})
			}
			ss = append(ss, s)
		}
		pks := append([]crypto.PublicKey{}, env.pks...)
		ssCopy := append([]crypto.Signature{}, ss...)
		bs, err := crypto.BatchVerifyBLSSignaturesOneMessage(pks, ss, env.msgs[o.M], env.kmac)
		for i := range pks {
			if pks[i] != env.pks[i] || len(ss[i]) != len(ssCopy[i]) || (len(ss[i]) > 0 && &ss[i][0] != &ssCopy[i][0]) {
				env.fail("BatchVerifyBLSSignaturesOneMessage changed the caller's key / signature lists (position %d)", i)
			}
		}
		if err != nil {
			return "err"
		}
		return fmt.Sprint(bs)
	case "ecsign":
		// randomized signature: the result is canonicalised to "verifies under the public key"
		k := o.K % len(env.ecsk)
		s, err := env.ecsk[k].Sign(env.msgs[o.M], hash.NewSHA3_256())
		if err != nil {
			return "err"
		}
		ok, err := env.ecpk[k].Verify(s, env.msgs[o.M], hash.NewSHA3_256())
		return fmt.Sprintf("len%d:%s", len(s), res(ok, err))
	case "ecverify":
		k := o.K % len(env.ecsk)
		s := env.ecsigs[k][o.M]
		if o.S == 1 {
			s = env.ecsigs[k][(o.M+1)%len(env.msgs)]
		} else if o.S == 3 {
			s = env.bad[1]
		}
		return res(env.ecpk[k].Verify(s, env.msgs[o.M], hash.NewSHA2_256()))
	}
	panic("unknown op " + o.Op)
}

var c19Kinds = []string{"kmac", "blssign", "blsverify", "pop", "spock", "spockdata", "agg1", "aggn", "batch", "ecsign", "ecverify", "popgen"}

func c19Gen(tier string, r *rand.Rand) []Case {
	n := 36
	if tier == "thorough" {
		n = 400
	}
	var cs []Case
	for k := 0; k < n; k++ {
		in := c19In{Seed: hx(rbytes(r, 48)), NBLS: 2 + r.IntN(3), NEC: 2, G: 2 + r.IntN(7), Rep: 2 + r.IntN(3)}
		nm := 2 + r.IntN(3)
		for j := 0; j < nm; j++ {
			in.Msgs = append(in.Msgs, hx(rbytes(r, r.IntN(200))))
		}
		if k%4 == 2 {
			// message shapes: empty, one byte, exactly one cSHAKE128 block, many blocks
			in.Msgs, nm = []string{"", hx(rbytes(r, 1)), hx(rbytes(r, 168)), hx(rbytes(r, 5000))}, 4
		}
		if k%12 == 5 {
			in.G, in.Rep = []int{16, 33}[k/12%2], 2 // more goroutines than processors
		}
		nops := 6 + r.IntN(8)
		for j := 0; j < nops; j++ {
			kind := c19Kinds[r.IntN(len(c19Kinds))]
			if j < len(c19Kinds) && k%3 == 0 {
				kind = c19Kinds[(j+k)%len(c19Kinds)] // every kind appears regularly
			}
			s := 0
			if r.IntN(3) == 0 {
				s = r.IntN(8)
			}
			in.Ops = append(in.Ops, c19Op{Op: kind, K: r.IntN(in.NBLS), K2: r.IntN(in.NBLS), M: r.IntN(nm), S: s})
		}
		if k%3 == 0 {
			in.Ops = append(in.Ops, c19Op{Op: "stress"})
		}
		if k%6 == 1 {
			in.Ops = append(in.Ops, c19Op{Op: "cold"})
		}
		cs = append(cs, mkcase("mix", in))
	}
	return cs
}

func c19Run(c Case) (Result, error) {
	var in c19In
	if err := json.Unmarshal(c.Input, &in); err != nil {
		return Result{}, err
	}
	env, err := c19Setup(in)
	if err != nil {
		return Result{}, err
	}
	type opObs struct {
		Op      c19Op    `json:"op"`
		Seq     string   `json:"seq"`
		Conc    string   `json:"conc"`
		Changed []string `json:"changed,omitempty"`
	}
	obs := make([]opObs, len(in.Ops))
	var items []string
	before := make([]string, len(in.Ops))
	after := make([]string, len(in.Ops))
	nontrivial := false
	env0 := env.snapshot()
	// phase 1: alone
	for i, o := range in.Ops {
		b := env.snapshot()
		var r string
		if p, msg := catch(func() { r = env.apply(o) }); p {
			r = "panic:" + msg
		}
		a := env.snapshot()
		before[i], after[i] = snapDigest(b), snapDigest(a)
		obs[i] = opObs{Op: o, Seq: r, Changed: snapDiff(b, a)}
		if strings.HasPrefix(r, "true") || len(r) >= 96 || strings.Contains(r, "true") {
			nontrivial = true
		}
	}
	// phase 2: concurrently, every op Rep times, spread over G goroutines
	type job struct{ op, rep int }
	var jobs []job
	for rep := 0; rep < in.Rep; rep++ {
		for i := range in.Ops {
			jobs = append(jobs, job{i, rep})
		}
	}
	results := make([][]string, len(in.Ops))
	for i := range results {
		results[i] = make([]string, in.Rep)
	}
	var wg sync.WaitGroup
	start := make(chan struct{})
	for g := 0; g < in.G; g++ {
		wg.Add(1)
		go func(g int) {
			defer wg.Done()
			<-start
			for j := g; j < len(jobs); j += in.G {
				jb := jobs[j]
				var r string
				if p, msg := catch(func() { r = env.apply(in.Ops[jb.op]) }); p {
					r = "panic:" + msg
				}
				results[jb.op][jb.rep] = r
			}
		}(g)
	}
	close(start)
	wg.Wait()
	env1 := env.snapshot()
	for i := range in.Ops {
		conc := results[i][0]
		for _, r := range results[i][1:] {
			if r != conc {
				conc = "MISMATCH(" + conc + " / " + r + ")"
				break
			}
		}
		obs[i].Conc = conc
		sq, cc := obs[i].Seq, conc
		if len(sq) > 40 {
			sq = d8([]byte(sq))
		}
		if len(cc) > 40 {
			cc = d8([]byte(cc))
		}
		items = append(items, fmt.Sprintf("mkOp %s %s %s %s %s", cqs(in.Ops[i].Op), cqs(before[i]), cqs(after[i]), cqs(sq), cqs(cc)))
	}
	env.checkKept()
	if env.viol != "" {
		return Result{}, implViolation("%s", env.viol)
	}
	c19ColdMu.Lock()
	cf := c19ColdFailure
	c19ColdFailure = ""
	c19ColdMu.Unlock()
	if cf != "" {
		return Result{}, implViolation("first signature operations of a fresh process issued concurrently: %s", cf)
	}
	term := fmt.Sprintf("mkCase %s %s %s", cqlist(items), cqs(snapDigest(env0)), cqs(snapDigest(env1)))
	return Result{Coq: term, Key: string(c.Input), Nontrivial: nontrivial,
		Obs: map[string]any{"ops": obs, "env_changed_after_concurrent_phase": snapDiff(env0, env1), "goroutines": in.G, "rep": in.Rep}}, nil
}
