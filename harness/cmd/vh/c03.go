package main

import (
	"bytes"
	"encoding/json"
	"fmt"
	"math/big"
	"math/rand/v2"

	"github.com/onflow/crypto"
	"github.com/onflow/crypto/hash"
)

type c03Leaf struct {
	// good | idkey | 48-byte strings that are no G1 encoding: badsig-header | badsig-torsion | badsig-order3 (the
	// point (0, 2) of order 3) | badsig-plus-order3 | badsig-infstray (C0 with a stray byte) | badsig-xgep (x = p)
	// | badsig-offcurve; wrong lengths (api mode only): badsig-length (47) | badsig-nil | badsig-empty |
	// badsig-long (49) | badsig-96
	Kind  string `json:"kind"`
	Sigma string `json:"sigma"` // scalar the signature is made with (hex, 32 bytes); may be 0 = identity signature
	X     string `json:"x"`     // key scalar; 0 = the identity public key
	// Src: route by which the key OBJECT is obtained (see c01RoutePk / c02IdentityKey); "" = PublicKey() of the
	// decoded private key, resp. the package's identity constant
	Src string `json:"src,omitempty"`
}
type c03In struct {
	Mode   string    `json:"mode"` // hook | api
	Leaves []c03Leaf `json:"leaves"`
	Seed   string    `json:"seed,omitempty"` // hook: 16 bytes per leaf
	Salt   uint64    `json:"salt"`
	// message and hasher (defaults: tag "batch", message "c03 message"); Out = fixed-output hasher
	Tag    string `json:"tag,omitempty"`
	Msg    string `json:"msg,omitempty"`
	NilMsg bool   `json:"nil_msg,omitempty"`
	Out    string `json:"out,omitempty"`
}

// c03WrongLength: kinds whose signature has not 48 bytes (the Go layer pre-marks them; not expressible in hook mode)
var c03WrongLength = map[string]bool{"badsig-length": true, "badsig-nil": true, "badsig-empty": true, "badsig-long": true, "badsig-96": true}

func init() {
	register(&Prop{
		ID:        "C03",
		Header:    "From Coq Require Import ZArith NArith List String.\nFrom V Require Import Lib.Hex Corr.C03Corr.\nImport ListNotations.\nOpen Scope string_scope.\n",
		Check:     "bad_ids",
		PropCheck: "prop_bad_ids",
		Gen:       c03Gen,
		Run:       c03Run,
		Rule:      "hook mode (bls_batch_verify with chosen coefficients): every subset of invalid positions for n up to the tier bound with all coefficients 1, swapped pairs, s_i+d / s_j-d and three-way cancellations inside one subtree and across subtrees, identity keys and signatures, malformed and non-G1 signatures at every position, random seeds, n up to 33; api mode (BatchVerifyBLSSignaturesOneMessage, internal randomness): the same families plus wrong-length signatures, compared index by index with individual verification; batches of 257 (300) entries with swapped / cancelling pairs at distance 256, 255, 1; added by the generator audit, in both modes where expressible: a batch of one entry of every kind; every kind of invalid entry (wrong well-formed signature, identity key from every constructor, identity signature, identity signature under an identity key, compression flag cleared, s+T, the order-3 point, s + order-3 point, infinity with a stray byte, x = p, x off the curve, lengths nil / 0 / 47 / 49 / 96) at the first, a middle and the last position; random mixtures of all kinds in one batch; batches without a valid entry; key objects from every constructor (decoded, aggregated, removed); the same (key, signature) pair at several indices, a key and its negative, one signature under two keys; hook seeds all 0xff / equal at every index / differing in the last byte; empty tag, nil and long message, fixed-output hashers (all zero, equal halves); the runner checks the typed errors (empty and nil lists, both length mismatches, nil hasher, hashers of size 0/127/129/256, non-BLS key at every index, nil key) alone and together with a short signature or an identity key: documented error, one result per signature, all false; the first result slice is unchanged after later calls, a second call returns the same, keys and signatures are unmodified, no panic; distinct by input; non-trivial when at least one leaf is invalid or n >= 2; offsets w_i*D whose moments vanish (sum w = 0, sum i w = 0, sum i^2 w = 0) at several shifts",
		Shard:     40,
	})
}

func c03Gen(tier string, r *rand.Rand) []Case {
	var cs []Case
	maxExh := 5
	nrand := 20
	if tier == "thorough" {
		maxExh, nrand = 7, 300
	}
	rsc := func() *big.Int {
		k := new(big.Int).Mod(new(big.Int).SetBytes(rbytes(r, 40)), new(big.Int).Sub(blsR, big.NewInt(2)))
		return k.Add(k, big.NewInt(1))
	}
	h32 := func(k *big.Int) string { return hx(fixed(new(big.Int).Mod(k, blsR), 32)) }
	good := func(x *big.Int) c03Leaf { return c03Leaf{Kind: "good", Sigma: h32(x), X: h32(x)} }
	off := func(x, d *big.Int) c03Leaf {
		return c03Leaf{Kind: "good", Sigma: h32(new(big.Int).Add(x, d)), X: h32(x)}
	}
	add := func(fam, mode string, lv []c03Leaf, seed []byte) {
		cs = append(cs, mkcase(fam, c03In{Mode: mode, Leaves: lv, Seed: hx(seed), Salt: r.Uint64()}))
	}
	addIn := func(fam string, in c03In) {
		in.Salt = r.Uint64()
		cs = append(cs, mkcase(fam, in))
	}
	zeroSeed := func(n int) []byte { return make([]byte, 16*n) }
	// exhaustive subsets of invalid positions, all coefficients 1
	for n := 1; n <= maxExh; n++ {
		for mask := 0; mask < 1<<n; mask++ {
			var lv []c03Leaf
			for i := 0; i < n; i++ {
				x := rsc()
				if mask>>i&1 == 1 {
					lv = append(lv, off(x, rsc()))
				} else {
					lv = append(lv, good(x))
				}
			}
			add("subsets-rho1", "hook", lv, zeroSeed(n))
			if mask%5 == 0 {
				add("subsets-api", "api", lv, nil)
			}
		}
	}
	// batches longer than 256 (index arithmetic in the C layer must not be narrower than int): a swapped
	// pair at distance 256 / 255 / 1 and a cancelling pair s_i+d, s_j-d at distance 256, compared index by
	// index with individual verification (too long for the Coq tree evaluation: judged by the runner)
	for _, n := range []int{257, 300} {
		if tier != "thorough" && n == 300 {
			continue
		}
		for _, dist := range []int{256, 255, 1} {
			lv := make([]c03Leaf, n)
			xs := make([]*big.Int, n)
			for i := range lv {
				xs[i] = rsc()
				lv[i] = good(xs[i])
			}
			i := r.IntN(n - dist)
			j := i + dist
			if r.IntN(2) == 0 {
				lv[i], lv[j] = c03Leaf{Kind: "good", Sigma: h32(xs[j]), X: h32(xs[i])}, c03Leaf{Kind: "good", Sigma: h32(xs[i]), X: h32(xs[j])}
			} else {
				d := rsc()
				lv[i], lv[j] = off(xs[i], d), off(xs[j], new(big.Int).Sub(blsR, d))
			}
			add("api-large", "api-large", lv, nil)
		}
	}
	// offsets w_i * D whose moments vanish: sum w_i = 0, sum i w_i = 0 (, sum i^2 w_i = 0).  Coefficients that
	// are constant, affine or quadratic in the index (instead of independent) let these cancel in the root
	// aggregate although every altered signature is invalid on its own
	{
		type mc struct {
			idx []int
			w   []int64
		}
		pats := []mc{{[]int{0, 1, 2}, []int64{1, -2, 1}}, {[]int{0, 1, 3}, []int64{2, -3, 1}}, {[]int{0, 2, 4}, []int64{1, -2, 1}},
			{[]int{0, 1, 2, 3}, []int64{1, -3, 3, -1}}, {[]int{0, 1}, []int64{1, -1}}, {[]int{0, 1, 2, 3, 4}, []int64{1, -4, 6, -4, 1}}}
		for pi, pt := range pats {
			for _, shift := range []int{0, 1, 5} {
				n := pt.idx[len(pt.idx)-1] + shift + 1 + r.IntN(3)
				if pi%2 == 1 && shift == 5 {
					n += 9 // crosses the 8-per-limb batches of the C layer
				}
				d := rsc()
				lv := make([]c03Leaf, n)
				for i := range lv {
					lv[i] = good(rsc())
				}
				for k, ix := range pt.idx {
					x, _ := new(big.Int).SetString(lv[ix+shift].X, 16)
					wd := new(big.Int).Mul(big.NewInt(pt.w[k]), d)
					lv[ix+shift] = off(x, wd.Mod(wd, blsR))
				}
				add("moment-cancel", "api", lv, nil)
			}
		}
	}
	// every assignment of {valid, wrong but well formed, malformed (right length), outside G1} to the
	// positions, n <= 4: malformed entries are pre-marked INVALID by the C layer and must stay so even when
	// the descent reaches their leaf because a sibling is wrong
	kinds3 := []string{"good", "off", "badsig-header", "badsig-torsion"}
	maxK := 3
	if tier == "thorough" {
		maxK = 4
	}
	for n := 2; n <= maxK; n++ {
		total := 1
		for i := 0; i < n; i++ {
			total *= len(kinds3)
		}
		for code := 0; code < total; code++ {
			var lv []c03Leaf
			c := code
			nbad := 0
			for i := 0; i < n; i++ {
				x := rsc()
				switch kinds3[c%len(kinds3)] {
				case "good":
					lv = append(lv, good(x))
				case "off":
					lv = append(lv, off(x, rsc()))
				default:
					lv = append(lv, c03Leaf{Kind: kinds3[c%len(kinds3)], Sigma: h32(x), X: h32(x)})
					nbad++
				}
				c /= len(kinds3)
			}
			if nbad == 0 {
				continue // covered by the subsets family
			}
			add("mixed-kinds", "hook", lv, rbytes(r, 16*n))
			if code%3 == 0 {
				add("mixed-kinds-api", "api", lv, nil)
			}
		}
	}
	// adversarial cancellations (fool the tree only when all coefficients are equal)
	for _, n := range []int{2, 3, 4, 5, 7, 8, 9, 16, 17, 33} {
		if tier != "thorough" && n > 9 {
			continue
		}
		xs := make([]*big.Int, n)
		for i := range xs {
			xs[i] = rsc()
		}
		base := func() []c03Leaf {
			var lv []c03Leaf
			for _, x := range xs {
				lv = append(lv, good(x))
			}
			return lv
		}
		d := rsc()
		nd := new(big.Int).Sub(blsR, d)
		for _, pr := range [][2]int{{0, 1}, {0, n - 1}, {n / 2, n - 1}} {
			i, j := pr[0], pr[1]
			if i == j {
				continue
			}
			lv := base()
			lv[i], lv[j] = off(xs[i], d), off(xs[j], nd)
			add("cancel-pair", "hook", lv, zeroSeed(n))
			add("cancel-pair-random-seed", "hook", lv, rbytes(r, 16*n))
			add("cancel-pair-api", "api", lv, nil)
			// swapped signatures
			lv = base()
			lv[i], lv[j] = c03Leaf{Kind: "good", Sigma: h32(xs[j]), X: h32(xs[i])}, c03Leaf{Kind: "good", Sigma: h32(xs[i]), X: h32(xs[j])}
			add("swapped", "hook", lv, zeroSeed(n))
			add("swapped-api", "api", lv, nil)
		}
		if n >= 3 {
			d2 := rsc()
			d3 := new(big.Int).Mod(new(big.Int).Neg(new(big.Int).Add(d, d2)), blsR)
			lv := base()
			lv[0], lv[1], lv[n-1] = off(xs[0], d), off(xs[1], d2), off(xs[n-1], d3)
			add("cancel-three", "hook", lv, zeroSeed(n))
			add("cancel-three-api", "api", lv, nil)
		}
		// malformed / non-G1 / identity at each position (quick: one position)
		for pos := 0; pos < n; pos++ {
			if tier != "thorough" && pos != n/2 && pos != 0 && pos != n-1 {
				continue
			}
			for _, k := range []string{"badsig-header", "badsig-torsion", "idkey"} {
				lv := base()
				lv[pos] = c03Leaf{Kind: k, Sigma: h32(xs[pos]), X: h32(xs[pos])}
				if k == "idkey" {
					lv[pos].X = h32(big.NewInt(0))
				}
				add(k, "hook", lv, rbytes(r, 16*n))
				add(k+"-api", "api", lv, nil)
			}
			lv := base()
			lv[pos] = c03Leaf{Kind: "badsig-length", Sigma: h32(xs[pos]), X: h32(xs[pos])}
			add("badsig-length-api", "api", lv, nil)
			lv = base()
			lv[pos] = c03Leaf{Kind: "good", Sigma: h32(big.NewInt(0)), X: h32(xs[pos])} // identity signature
			add("identity-signature", "hook", lv, rbytes(r, 16*n))
			add("identity-signature-api", "api", lv, nil)
		}
	}
	// ---- families added by the generator audit ----
	allKinds := []string{"good", "off", "idkey", "idsig", "idkey-idsig", "badsig-header", "badsig-torsion", "badsig-order3", "badsig-plus-order3", "badsig-infstray",
		"badsig-xgep", "badsig-offcurve", "badsig-length", "badsig-nil", "badsig-empty", "badsig-long", "badsig-96"}
	idSrcs := []string{"", "decoded", "aggregated", "removed"}
	keySrcs := []string{"", "decoded", "agg-split", "removed", "agg-single", "agg-with-identity"}
	leafOf := func(kind string, x *big.Int) c03Leaf {
		switch kind {
		case "good":
			return good(x)
		case "off":
			return off(x, rsc())
		case "idkey":
			return c03Leaf{Kind: "idkey", Sigma: h32(x), X: h32(big.NewInt(0)), Src: idSrcs[r.IntN(len(idSrcs))]}
		case "idsig":
			return c03Leaf{Kind: "good", Sigma: h32(big.NewInt(0)), X: h32(x)}
		case "idkey-idsig":
			// the identity signature under an identity key: the pairing equation holds trivially, only the
			// explicit refusal of identity keys makes it invalid
			return c03Leaf{Kind: "idkey", Sigma: h32(big.NewInt(0)), X: h32(big.NewInt(0)), Src: idSrcs[r.IntN(len(idSrcs))]}
		}
		return c03Leaf{Kind: kind, Sigma: h32(x), X: h32(x)}
	}
	hookable := func(lv []c03Leaf) bool {
		for _, l := range lv {
			if c03WrongLength[l.Kind] {
				return false
			}
		}
		return true
	}
	both := func(fam string, lv []c03Leaf) {
		if hookable(lv) {
			add(fam, "hook", lv, rbytes(r, 16*len(lv)))
		}
		add(fam+"-api", "api", lv, nil)
	}
	// a batch of ONE entry of every kind (the tree is a single leaf)
	for _, k := range allKinds {
		both("single-entry", []c03Leaf{leafOf(k, rsc())})
	}
	// every kind of invalid entry (also the wrong lengths nil / 0 / 49 / 96, infinity with a stray byte, x = p,
	// off-curve x, the order-3 point) at the first, a middle and the last position of otherwise valid batches
	for _, n := range []int{2, 5, 8} {
		for ki, k := range allKinds[2:] {
			for pi, pos := range []int{0, n / 2, n - 1} {
				if tier != "thorough" && (ki+pi)%3 != n%3 {
					continue
				}
				var lv []c03Leaf
				for i := 0; i < n; i++ {
					lv = append(lv, good(rsc()))
				}
				lv[pos] = leafOf(k, rsc())
				both("one-invalid-kind", lv)
			}
		}
	}
	// random mixtures of ALL kinds in one batch
	nmix := 24
	if tier == "thorough" {
		nmix = 400
	}
	for i := 0; i < nmix; i++ {
		n := 2 + r.IntN(9)
		var lv []c03Leaf
		for j := 0; j < n; j++ {
			k := allKinds[r.IntN(len(allKinds))]
			if r.IntN(3) == 0 {
				k = "good"
			}
			lv = append(lv, leafOf(k, rsc()))
		}
		both("all-kinds-mix", lv)
	}
	// batches without a single valid entry: all wrong, all malformed, all identity keys (from every constructor),
	// all identity signatures, all wrong lengths
	for _, ks := range [][]string{{"off"}, {"badsig-header", "badsig-torsion"}, {"idkey"}, {"idsig"}, {"idkey-idsig"}, {"badsig-nil", "badsig-length", "badsig-long"}, {"idkey", "badsig-nil"}} {
		for _, n := range []int{2, 3, 5} {
			if tier != "thorough" && n == 3 {
				continue
			}
			var lv []c03Leaf
			for i := 0; i < n; i++ {
				lv = append(lv, leafOf(ks[i%len(ks)], rsc()))
			}
			if (ks[0] == "idkey" || ks[0] == "idkey-idsig") && len(ks) == 1 {
				for i := range lv {
					lv[i].Src = idSrcs[i%len(idSrcs)]
				}
			}
			both("no-valid-entry", lv)
		}
	}
	// key OBJECTS from every constructor, valid and with one wrong signature; the identity key from every
	// constructor at every position of a batch of 4
	{
		var lv []c03Leaf
		for _, src := range keySrcs {
			l := good(rsc())
			l.Src = src
			lv = append(lv, l)
		}
		both("key-routes", lv)
		lv2 := append([]c03Leaf{}, lv...)
		w := off(rsc(), rsc())
		w.Src = "removed"
		lv2[2] = w
		both("key-routes", lv2)
		for pos, src := range idSrcs {
			lv := []c03Leaf{good(rsc()), good(rsc()), good(rsc()), good(rsc())}
			lv[pos] = c03Leaf{Kind: "idkey", Sigma: h32(rsc()), X: h32(big.NewInt(0)), Src: src}
			both("identity-key-routes", lv)
			lv = append([]c03Leaf{}, lv...)
			lv[(pos+1)%4] = off(rsc(), rsc())
			both("identity-key-routes", lv)
			lv = append([]c03Leaf{}, lv...)
			lv[pos].Sigma = h32(big.NewInt(0)) // ... holding the identity signature
			both("identity-key-routes", lv)
			both("identity-key-routes", []c03Leaf{lv[pos]})
			both("identity-key-routes", []c03Leaf{lv[pos], lv[pos]})
		}
	}
	// coincidences: the same (key, signature) pair at several indices, valid and wrong; a key and its negative
	// with matching signatures (both valid, every aggregate of the two is the identity); the same wrong
	// signature under two different keys
	{
		x, y, d := rsc(), rsc(), rsc()
		nx := new(big.Int).Sub(blsR, x)
		both("duplicates", []c03Leaf{good(x), good(x), good(y), good(x)})
		both("duplicates", []c03Leaf{off(x, d), good(y), off(x, d)})
		both("negated-pair", []c03Leaf{good(x), good(nx)})
		both("negated-pair", []c03Leaf{good(y), good(x), good(nx), good(y)})
		both("negated-pair", []c03Leaf{good(x), off(nx, d), good(y)})
		both("negated-pair", []c03Leaf{{Kind: "good", Sigma: h32(x), X: h32(nx)}, {Kind: "good", Sigma: h32(nx), X: h32(x)}}) // crossed: both wrong, sum valid
		both("same-signature-two-keys", []c03Leaf{good(x), {Kind: "good", Sigma: h32(x), X: h32(y)}, good(y)})
	}
	// seeds of chosen shape (hook): all 0xff (coefficient 2^128), the same coefficient at every index (a
	// cancelling pair then fools any aggregate containing both), coefficients differing in the last byte only
	for _, n := range []int{2, 5, 9} {
		xs := make([]*big.Int, n)
		var lv []c03Leaf
		for i := range xs {
			xs[i] = rsc()
			lv = append(lv, good(xs[i]))
		}
		d := rsc()
		lv[0], lv[n-1] = off(xs[0], d), off(xs[n-1], new(big.Int).Sub(blsR, d))
		ff := make([]byte, 16*n)
		for i := range ff {
			ff[i] = 0xff
		}
		same := make([]byte, 0, 16*n)
		one16 := rbytes(r, 16)
		last := make([]byte, 0, 16*n)
		for i := 0; i < n; i++ {
			same = append(same, one16...)
			l := append([]byte{}, one16...)
			l[15] += byte(i)
			last = append(last, l...)
		}
		add("seed-shapes", "hook", lv, ff)
		add("seed-shapes", "hook", lv, same)
		add("seed-shapes", "hook", lv, last)
	}
	// messages and hashers: empty tag, nil / empty / long message, fixed-output hashers (all zero: H is the
	// image of u = 0; equal halves: the two map_to_curve points coincide)
	{
		eq := rbytes(r, 64)
		variants := []c03In{{Tag: "-"}, {NilMsg: true}, {Msg: hx(rbytes(r, 500))}, {Out: hx(make([]byte, 128))}, {Out: hx(append(append([]byte{}, eq...), eq...))}}
		for vi, v := range variants {
			xs := []*big.Int{rsc(), rsc(), rsc()}
			d := rsc()
			lv := []c03Leaf{good(xs[0]), off(xs[1], d), good(xs[2])}
			if vi%2 == 0 {
				lv[2] = off(xs[2], new(big.Int).Sub(blsR, d))
			}
			v.Leaves = lv
			v.Mode, v.Seed = "hook", hx(make([]byte, 16*len(lv)))
			addIn("message-hasher", v)
			v.Mode, v.Seed = "api", ""
			addIn("message-hasher-api", v)
		}
	}
	for i := 0; i < nrand; i++ {
		n := 1 + r.IntN(12)
		var lv []c03Leaf
		for j := 0; j < n; j++ {
			x := rsc()
			switch r.IntN(5) {
			case 0:
				lv = append(lv, off(x, rsc()))
			default:
				lv = append(lv, good(x))
			}
		}
		add("random", "hook", lv, rbytes(r, 16*n))
	}
	return cs
}

func c03Run(c Case) (Result, error) {
	var in c03In
	if err := json.Unmarshal(c.Input, &in); err != nil {
		return Result{}, err
	}
	rr := rand.New(rand.NewPCG(in.Salt, 0x03))
	tag := in.Tag
	switch tag {
	case "":
		tag = "batch"
	case "-":
		tag = ""
	}
	var hs hash.Hasher = crypto.NewExpandMsgXOFKMAC128(tag)
	if in.Out != "" {
		hs = &fixedHasher{unhx(in.Out)}
	}
	msg := []byte("c03 message")
	if in.Msg != "" {
		msg = unhx(in.Msg)
	}
	if in.NilMsg {
		msg = nil
	}
	var pks []crypto.PublicKey
	var sigs []crypto.Signature
	var coqL []string
	var pre []string
	anyInvalid := false
	for _, lf := range in.Leaves {
		sg := new(big.Int).SetBytes(unhx(lf.Sigma))
		x := new(big.Int).SetBytes(unhx(lf.X))
		var pk crypto.PublicKey
		if x.Sign() == 0 {
			var err error
			if pk, err = c02IdentityKey(lf.Src, rr); err != nil {
				return Result{}, implViolation("identity key through route %q: %v", lf.Src, err)
			}
		} else {
			sk, err := crypto.DecodePrivateKey(crypto.BLSBLS12381, unhx(lf.X))
			if err != nil {
				return Result{}, err
			}
			pk = sk.PublicKey()
			if lf.Src != "" {
				if pk, err = c01RoutePk(lf.Src, sk, x, rr); err != nil {
					return Result{}, implViolation("public key through route %q: %v", lf.Src, err)
				}
			}
		}
		var s []byte
		if sg.Sign() == 0 {
			s = make([]byte, 48)
			s[0] = 0xC0
		} else {
			sk, err := crypto.DecodePrivateKey(crypto.BLSBLS12381, unhx(lf.Sigma))
			if err != nil {
				return Result{}, err
			}
			s, _ = sk.Sign(msg, hs)
		}
		term := fmt.Sprintf("LGood %s %s", cqBigZ(sg), cqBigZ(x))
		premarked := x.Sign() == 0
		switch lf.Kind {
		case "badsig-header":
			s = append([]byte{}, s...)
			s[0] &= 0x7F
		case "badsig-torsion":
			s = e1Compress(e1Add(e1Decompress(s), e1Torsion(rr)))
		case "badsig-length":
			s = s[:47]
		case "badsig-nil":
			s = nil
		case "badsig-empty":
			s = []byte{}
		case "badsig-long":
			s = append(append([]byte{}, s...), 0)
		case "badsig-96":
			s = append(append([]byte{}, s...), s...)
		case "badsig-order3":
			s = make([]byte, 48) // the point (0, 2): on the curve, of order 3
			s[0] = 0x80
		case "badsig-plus-order3":
			if P, ok := e1DecompressSafe(s); ok {
				s = e1Compress(e1Add(P, e1SmallOrder(rr, 3)))
			} else {
				s = make([]byte, 48)
				s[0] = 0x80
			}
		case "badsig-infstray":
			s = make([]byte, 48)
			s[0] = 0xC0
			s[1+rr.IntN(47)] = byte(1 + rr.IntN(255))
		case "badsig-xgep":
			s = fixed(blsP, 48)
			s[0] |= 0x80
		case "badsig-offcurve":
			for {
				xx := new(big.Int).Mod(new(big.Int).SetBytes(rbytes(rr, 48)), blsP)
				if fpSqrt(fpAdd(fpMul(fpMul(xx, xx), xx), e1B)) == nil {
					s = fixed(xx, 48)
					s[0] |= 0x80
					break
				}
			}
		}
		if lf.Kind != "good" && lf.Kind != "idkey" {
			term = fmt.Sprintf("LBadSig %s", cqBigZ(x))
			premarked = premarked || c03WrongLength[lf.Kind]
		}
		if c03WrongLength[lf.Kind] && in.Mode == "hook" {
			return Result{}, fmt.Errorf("wrong-length signature in hook mode")
		}
		if sg.Cmp(x) != 0 || lf.Kind != "good" {
			anyInvalid = true
		}
		pks, sigs = append(pks, pk), append(sigs, s)
		coqL = append(coqL, term)
		pre = append(pre, cqbool(premarked))
	}
	n := len(pks)
	if in.Mode == "hook" {
		var flat []byte
		for _, s := range sigs {
			flat = append(flat, s...)
		}
		seed := unhx(in.Seed)
		h := hs.ComputeHash(msg)
		res, err := crypto.VerifBatchVerifyC(pks, flat, h, seed)
		if err != nil {
			return Result{}, err
		}
		cv, ci := crypto.VerifResultCodes()
		var rhos, obs []string
		obs = append(obs, fmt.Sprintf("%d%%N", cv), fmt.Sprintf("%d%%N", ci))
		for i := 0; i < n; i++ {
			rho := new(big.Int).SetBytes(seed[16*i : 16*i+16])
			rho.Add(rho, big.NewInt(1))
			rhos = append(rhos, cqBigZ(rho))
			obs = append(obs, fmt.Sprintf("%d%%N", res[i]))
		}
		term := fmt.Sprintf("HookCase %s %s %s", cqlist(coqL), cqlist(rhos), cqlist(obs))
		return Result{Coq: term, Key: string(c.Input), Nontrivial: anyInvalid || n >= 2, Obs: map[string]any{"results": fmt.Sprint(res)}}, nil
	}
	// snapshots: arguments are read only, results are values
	var pkEnc0, sigs0 [][]byte
	for i := range pks {
		pkEnc0 = append(pkEnc0, pks[i].Encode())
		sigs0 = append(sigs0, append([]byte{}, sigs[i]...))
	}
	var out []bool
	var err error
	if pn, m := catch(func() { out, err = crypto.BatchVerifyBLSSignaturesOneMessage(pks, sigs, msg, hs) }); pn {
		return Result{}, implViolation("BatchVerifyBLSSignaturesOneMessage panics on a batch of %d: %s", n, m)
	}
	if err != nil {
		return Result{}, implViolation("BatchVerifyBLSSignaturesOneMessage returns an error on BLS keys, a 128-byte hasher and %d signatures: %v", n, err)
	}
	if len(out) != n {
		return Result{}, implViolation("BatchVerifyBLSSignaturesOneMessage returned %d results for %d signatures", len(out), n)
	}
	out0 := append([]bool{}, out...)
	// typed errors: every returned boolean false
	allFalse := func(v []bool) bool {
		for _, b := range v {
			if b {
				return false
			}
		}
		return true
	}
	if v, e := crypto.BatchVerifyBLSSignaturesOneMessage(nil, nil, msg, hs); !crypto.IsBLSAggregateEmptyListError(e) || !allFalse(v) {
		return Result{}, implViolation("empty list: unexpected result")
	}
	if v, e := crypto.BatchVerifyBLSSignaturesOneMessage(pks, append(append([]crypto.Signature{}, sigs...), sigs[0]), msg, hs); !crypto.IsInvalidInputsError(e) || !allFalse(v) || len(v) != n+1 {
		return Result{}, implViolation("length mismatch: unexpected result")
	}
	if v, e := crypto.BatchVerifyBLSSignaturesOneMessage(pks, sigs, msg, nil); !crypto.IsNilHasherError(e) || !allFalse(v) {
		return Result{}, implViolation("nil hasher: unexpected result")
	}
	ek, _ := crypto.GeneratePrivateKey(crypto.ECDSAP256, rbytes(rr, 32))
	for pos := 0; pos < n; pos++ {
		bp := append([]crypto.PublicKey{}, pks...)
		bp[pos] = ek.PublicKey()
		if v, e := crypto.BatchVerifyBLSSignaturesOneMessage(bp, sigs, msg, hs); !crypto.IsNotBLSKeyError(e) || !allFalse(v) || len(v) != n {
			return Result{}, implViolation("non-BLS key at index %d of %d: error %v, results %v (documented: notBLSKey error, every result false)", pos, n, e, v)
		}
	}
	// the other documented input errors, each alone (otherwise valid arguments) and together with further
	// defects of the call: always an error of the documented type, one result per signature, every result false
	type errCall struct {
		what string
		p    []crypto.PublicKey
		s    []crypto.Signature
		h    hash.Hasher
		is   func(error) bool
	}
	shortSigs := append([]crypto.Signature{}, sigs...)
	shortSigs[0] = []byte{0xC0}
	nilKeys := append([]crypto.PublicKey{}, pks...)
	nilKeys[n-1] = nil
	idFirst := append([]crypto.PublicKey{crypto.IdentityBLSPublicKey()}, pks[1:]...)
	calls := []errCall{
		{"hasher of size 127", pks, sigs, &fixedHasher{make([]byte, 127)}, crypto.IsInvalidHasherSizeError},
		{"hasher of size 129", pks, sigs, &fixedHasher{make([]byte, 129)}, crypto.IsInvalidHasherSizeError},
		{"hasher of size 0", pks, sigs, &fixedHasher{nil}, crypto.IsInvalidHasherSizeError},
		{"hasher of size 256 and a short signature", pks, shortSigs, &fixedHasher{make([]byte, 256)}, crypto.IsInvalidHasherSizeError},
		{"nil hasher and an identity key", idFirst, sigs, nil, crypto.IsNilHasherError},
		{"nil hasher and a short signature", pks, shortSigs, nil, crypto.IsNilHasherError},
		{"nil key at the last index", nilKeys, sigs, hs, crypto.IsNotBLSKeyError},
		{"nil key at the last index and a short signature", nilKeys, shortSigs, hs, crypto.IsNotBLSKeyError},
		{"one key fewer than signatures", pks[:n-1], sigs, hs, func(e error) bool {
			return (n > 1 && crypto.IsInvalidInputsError(e)) || (n == 1 && crypto.IsBLSAggregateEmptyListError(e))
		}},
		{"one signature fewer than keys", pks, sigs[:n-1], hs, crypto.IsInvalidInputsError},
		{"no signatures", pks, nil, hs, crypto.IsInvalidInputsError},
		{"no keys", nil, sigs, hs, crypto.IsBLSAggregateEmptyListError},
		{"no keys, nil hasher", []crypto.PublicKey{}, sigs, nil, func(e error) bool { return crypto.IsBLSAggregateEmptyListError(e) || crypto.IsNilHasherError(e) }},
	}
	for _, cl := range calls {
		var v []bool
		var e error
		if pn, m := catch(func() { v, e = crypto.BatchVerifyBLSSignaturesOneMessage(cl.p, cl.s, msg, cl.h) }); pn {
			return Result{}, implViolation("%s (batch of %d): panic %s", cl.what, n, m)
		}
		if e == nil || !cl.is(e) || !allFalse(v) || len(v) != len(cl.s) {
			return Result{}, implViolation("%s (batch of %d): error %v, results %v (documented: the typed error, %d results, all false)", cl.what, n, e, v, len(cl.s))
		}
	}
	// the result returned first is a value: the calls above must not have changed it; the call is repeatable
	for i := range out {
		if out[i] != out0[i] {
			return Result{}, implViolation("the result slice of an earlier call changed at index %d after later calls (was %v, is %v)", i, out0, out)
		}
	}
	if again, e := crypto.BatchVerifyBLSSignaturesOneMessage(pks, sigs, msg, hs); e != nil || fmt.Sprint(again) != fmt.Sprint(out0) {
		return Result{}, implViolation("a second call on the same batch of %d returns %v, %v; the first returned %v", n, again, e, out0)
	}
	for i := range pks {
		if !bytes.Equal(pks[i].Encode(), pkEnc0[i]) || !bytes.Equal(sigs[i], sigs0[i]) {
			return Result{}, implViolation("BatchVerifyBLSSignaturesOneMessage modified its arguments at index %d", i)
		}
	}
	if in.Mode == "api-large" {
		for i := range out {
			ind, _ := pks[i].Verify(sigs[i], msg, hs)
			if ind != out[i] {
				return Result{}, implViolation("batch of %d: index %d reported %v by BatchVerifyBLSSignaturesOneMessage, %v by Verify", n, i, out[i], ind)
			}
		}
		return Result{Coq: "ApiCase [] [] []", Key: string(c.Input), Nontrivial: true, Obs: map[string]any{"n": n, "agrees_with_individual_verification": true}}, nil
	}
	var obs []string
	for i := range out {
		obs = append(obs, cqbool(out[i]))
		// cross-check with the library's own individual verification
		ind, _ := pks[i].Verify(sigs[i], msg, hs)
		if ind != out[i] {
			// the property is exactly this equality; which side is wrong is for the Coq oracle to say
			// when it can, but the disagreement itself is already a failing input
			return Result{}, implViolation("index %d of %d (leaf kind %s, signature of %d bytes): BatchVerifyBLSSignaturesOneMessage says %v, Verify says %v", i, n, in.Leaves[i].Kind, len(sigs[i]), out[i], ind)
		}
	}
	term := fmt.Sprintf("ApiCase %s %s %s", cqlist(coqL), cqlist(pre), cqlist(obs))
	return Result{Coq: term, Key: string(c.Input), Nontrivial: anyInvalid || n >= 2, Obs: map[string]any{"results": fmt.Sprint(out)}}, nil
}

func cqBigZ(x *big.Int) string { return fmt.Sprintf("(%s)%%Z", x.String()) }
