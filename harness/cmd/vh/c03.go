package main

import (
	"encoding/json"
	"fmt"
	"math/big"
	"math/rand/v2"

	"github.com/onflow/crypto"
)

type c03Leaf struct {
	Kind  string `json:"kind"`  // good | badsig-header | badsig-torsion | badsig-length | idkey
	Sigma string `json:"sigma"` // scalar the signature is made with (hex, 32 bytes); may be 0 = identity signature
	X     string `json:"x"`     // key scalar; 0 = the identity public key
}
type c03In struct {
	Mode   string    `json:"mode"` // hook | api
	Leaves []c03Leaf `json:"leaves"`
	Seed   string    `json:"seed,omitempty"` // hook: 16 bytes per leaf
	Salt   uint64    `json:"salt"`
}

func init() {
	register(&Prop{
		ID:        "C03",
		Header:    "From Coq Require Import ZArith NArith List String.\nFrom V Require Import Lib.Hex Corr.C03Corr.\nImport ListNotations.\nOpen Scope string_scope.\n",
		Check:     "bad_ids",
		PropCheck: "prop_bad_ids",
		Gen:       c03Gen,
		Run:       c03Run,
		Rule:      "hook mode (bls_batch_verify with chosen coefficients): every subset of invalid positions for n up to the tier bound with all coefficients 1, swapped pairs, s_i+d / s_j-d and three-way cancellations inside one subtree and across subtrees, identity keys and signatures, malformed and non-G1 signatures at every position, random seeds, n up to 33; api mode (BatchVerifyBLSSignaturesOneMessage, internal randomness): the same families plus wrong-length signatures, compared index by index with individual verification; typed errors checked by the runner; distinct by input; non-trivial when at least one leaf is invalid or n >= 2",
		Shard:     40,
	})
}

func c03Gen(tier string, r *rand.Rand) []Case {
	var cs []Case
	maxExh := 5
	nrand := 20
	if tier == "thorough" {
		maxExh, nrand = 7, 300
	}
	rsc := func() *big.Int {
		k := new(big.Int).Mod(new(big.Int).SetBytes(rbytes(r, 40)), new(big.Int).Sub(blsR, big.NewInt(2)))
		return k.Add(k, big.NewInt(1))
	}
	h32 := func(k *big.Int) string { return hx(fixed(new(big.Int).Mod(k, blsR), 32)) }
	good := func(x *big.Int) c03Leaf { return c03Leaf{"good", h32(x), h32(x)} }
	off := func(x, d *big.Int) c03Leaf { return c03Leaf{"good", h32(new(big.Int).Add(x, d)), h32(x)} }
	add := func(fam, mode string, lv []c03Leaf, seed []byte) {
		cs = append(cs, mkcase(fam, c03In{mode, lv, hx(seed), r.Uint64()}))
	}
	zeroSeed := func(n int) []byte { return make([]byte, 16*n) }
	// exhaustive subsets of invalid positions, all coefficients 1
	for n := 1; n <= maxExh; n++ {
		for mask := 0; mask < 1<<n; mask++ {
			var lv []c03Leaf
			for i := 0; i < n; i++ {
				x := rsc()
				if mask>>i&1 == 1 {
					lv = append(lv, off(x, rsc()))
				} else {
					lv = append(lv, good(x))
				}
			}
			add("subsets-rho1", "hook", lv, zeroSeed(n))
			if mask%5 == 0 {
				add("subsets-api", "api", lv, nil)
			}
		}
	}
	// batches longer than 256 (index arithmetic in the C layer must not be narrower than int): a swapped
	// pair at distance 256 / 255 / 1 and a cancelling pair s_i+d, s_j-d at distance 256, compared index by
	// index with individual verification (too long for the Coq tree evaluation: judged by the runner)
	for _, n := range []int{257, 300} {
		if tier != "thorough" && n == 300 {
			continue
		}
		for _, dist := range []int{256, 255, 1} {
			lv := make([]c03Leaf, n)
			xs := make([]*big.Int, n)
			for i := range lv {
				xs[i] = rsc()
				lv[i] = good(xs[i])
			}
			i := r.IntN(n - dist)
			j := i + dist
			if r.IntN(2) == 0 {
				lv[i], lv[j] = c03Leaf{"good", h32(xs[j]), h32(xs[i])}, c03Leaf{"good", h32(xs[i]), h32(xs[j])}
			} else {
				d := rsc()
				lv[i], lv[j] = off(xs[i], d), off(xs[j], new(big.Int).Sub(blsR, d))
			}
			add("api-large", "api-large", lv, nil)
		}
	}
	// every assignment of {valid, wrong but well formed, malformed (right length), outside G1} to the
	// positions, n <= 4: malformed entries are pre-marked INVALID by the C layer and must stay so even when
	// the descent reaches their leaf because a sibling is wrong
	kinds3 := []string{"good", "off", "badsig-header", "badsig-torsion"}
	maxK := 3
	if tier == "thorough" {
		maxK = 4
	}
	for n := 2; n <= maxK; n++ {
		total := 1
		for i := 0; i < n; i++ {
			total *= len(kinds3)
		}
		for code := 0; code < total; code++ {
			var lv []c03Leaf
			c := code
			nbad := 0
			for i := 0; i < n; i++ {
				x := rsc()
				switch kinds3[c%len(kinds3)] {
				case "good":
					lv = append(lv, good(x))
				case "off":
					lv = append(lv, off(x, rsc()))
				default:
					lv = append(lv, c03Leaf{kinds3[c%len(kinds3)], h32(x), h32(x)})
					nbad++
				}
				c /= len(kinds3)
			}
			if nbad == 0 {
				continue // covered by the subsets family
			}
			add("mixed-kinds", "hook", lv, rbytes(r, 16*n))
			if code%3 == 0 {
				add("mixed-kinds-api", "api", lv, nil)
			}
		}
	}
	// adversarial cancellations (fool the tree only when all coefficients are equal)
	for _, n := range []int{2, 3, 4, 5, 7, 8, 9, 16, 17, 33} {
		if tier != "thorough" && n > 9 {
			continue
		}
		xs := make([]*big.Int, n)
		for i := range xs {
			xs[i] = rsc()
		}
		base := func() []c03Leaf {
			var lv []c03Leaf
			for _, x := range xs {
				lv = append(lv, good(x))
			}
			return lv
		}
		d := rsc()
		nd := new(big.Int).Sub(blsR, d)
		for _, pr := range [][2]int{{0, 1}, {0, n - 1}, {n / 2, n - 1}} {
			i, j := pr[0], pr[1]
			if i == j {
				continue
			}
			lv := base()
			lv[i], lv[j] = off(xs[i], d), off(xs[j], nd)
			add("cancel-pair", "hook", lv, zeroSeed(n))
			add("cancel-pair-random-seed", "hook", lv, rbytes(r, 16*n))
			add("cancel-pair-api", "api", lv, nil)
			// swapped signatures
			lv = base()
			lv[i], lv[j] = c03Leaf{"good", h32(xs[j]), h32(xs[i])}, c03Leaf{"good", h32(xs[i]), h32(xs[j])}
			add("swapped", "hook", lv, zeroSeed(n))
			add("swapped-api", "api", lv, nil)
		}
		if n >= 3 {
			d2 := rsc()
			d3 := new(big.Int).Mod(new(big.Int).Neg(new(big.Int).Add(d, d2)), blsR)
			lv := base()
			lv[0], lv[1], lv[n-1] = off(xs[0], d), off(xs[1], d2), off(xs[n-1], d3)
			add("cancel-three", "hook", lv, zeroSeed(n))
			add("cancel-three-api", "api", lv, nil)
		}
		// malformed / non-G1 / identity at each position (quick: one position)
		for pos := 0; pos < n; pos++ {
			if tier != "thorough" && pos != n/2 {
				continue
			}
			for _, k := range []string{"badsig-header", "badsig-torsion", "idkey"} {
				lv := base()
				lv[pos] = c03Leaf{k, h32(xs[pos]), h32(xs[pos])}
				if k == "idkey" {
					lv[pos].X = h32(big.NewInt(0))
				}
				add(k, "hook", lv, rbytes(r, 16*n))
				add(k+"-api", "api", lv, nil)
			}
			lv := base()
			lv[pos] = c03Leaf{"badsig-length", h32(xs[pos]), h32(xs[pos])}
			add("badsig-length-api", "api", lv, nil)
			lv = base()
			lv[pos] = c03Leaf{"good", h32(big.NewInt(0)), h32(xs[pos])} // identity signature
			add("identity-signature", "hook", lv, rbytes(r, 16*n))
			add("identity-signature-api", "api", lv, nil)
		}
	}
	for i := 0; i < nrand; i++ {
		n := 1 + r.IntN(12)
		var lv []c03Leaf
		for j := 0; j < n; j++ {
			x := rsc()
			switch r.IntN(5) {
			case 0:
				lv = append(lv, off(x, rsc()))
			default:
				lv = append(lv, good(x))
			}
		}
		add("random", "hook", lv, rbytes(r, 16*n))
	}
	return cs
}

func c03Run(c Case) (Result, error) {
	var in c03In
	if err := json.Unmarshal(c.Input, &in); err != nil {
		return Result{}, err
	}
	rr := rand.New(rand.NewPCG(in.Salt, 0x03))
	hs := crypto.NewExpandMsgXOFKMAC128("batch")
	msg := []byte("c03 message")
	var pks []crypto.PublicKey
	var sigs []crypto.Signature
	var coqL []string
	var pre []string
	anyInvalid := false
	for _, lf := range in.Leaves {
		sg := new(big.Int).SetBytes(unhx(lf.Sigma))
		x := new(big.Int).SetBytes(unhx(lf.X))
		var pk crypto.PublicKey
		if x.Sign() == 0 {
			pk = crypto.IdentityBLSPublicKey()
		} else {
			sk, err := crypto.DecodePrivateKey(crypto.BLSBLS12381, unhx(lf.X))
			if err != nil {
				return Result{}, err
			}
			pk = sk.PublicKey()
		}
		var s []byte
		if sg.Sign() == 0 {
			s = make([]byte, 48)
			s[0] = 0xC0
		} else {
			sk, err := crypto.DecodePrivateKey(crypto.BLSBLS12381, unhx(lf.Sigma))
			if err != nil {
				return Result{}, err
			}
			s, _ = sk.Sign(msg, hs)
		}
		term := fmt.Sprintf("LGood %s %s", cqBigZ(sg), cqBigZ(x))
		premarked := x.Sign() == 0
		switch lf.Kind {
		case "badsig-header":
			s = append([]byte{}, s...)
			s[0] &= 0x7F
			term = fmt.Sprintf("LBadSig %s", cqBigZ(x))
		case "badsig-torsion":
			s = e1Compress(e1Add(e1Decompress(s), e1Torsion(rr)))
			term = fmt.Sprintf("LBadSig %s", cqBigZ(x))
		case "badsig-length":
			s = s[:47]
			term = fmt.Sprintf("LBadSig %s", cqBigZ(x))
			premarked = true
		}
		if sg.Cmp(x) != 0 || lf.Kind != "good" {
			anyInvalid = true
		}
		pks, sigs = append(pks, pk), append(sigs, s)
		coqL = append(coqL, term)
		pre = append(pre, cqbool(premarked))
	}
	n := len(pks)
	if in.Mode == "hook" {
		var flat []byte
		for _, s := range sigs {
			flat = append(flat, s...)
		}
		seed := unhx(in.Seed)
		h := hs.ComputeHash(msg)
		res, err := crypto.VerifBatchVerifyC(pks, flat, h, seed)
		if err != nil {
			return Result{}, err
		}
		cv, ci := crypto.VerifResultCodes()
		var rhos, obs []string
		obs = append(obs, fmt.Sprintf("%d%%N", cv), fmt.Sprintf("%d%%N", ci))
		for i := 0; i < n; i++ {
			rho := new(big.Int).SetBytes(seed[16*i : 16*i+16])
			rho.Add(rho, big.NewInt(1))
			rhos = append(rhos, cqBigZ(rho))
			obs = append(obs, fmt.Sprintf("%d%%N", res[i]))
		}
		term := fmt.Sprintf("HookCase %s %s %s", cqlist(coqL), cqlist(rhos), cqlist(obs))
		return Result{Coq: term, Key: string(c.Input), Nontrivial: anyInvalid || n >= 2, Obs: map[string]any{"results": fmt.Sprint(res)}}, nil
	}
	out, err := crypto.BatchVerifyBLSSignaturesOneMessage(pks, sigs, msg, hs)
	if err != nil {
		return Result{}, err
	}
	// typed errors: every returned boolean false
	allFalse := func(v []bool) bool {
		for _, b := range v {
			if b {
				return false
			}
		}
		return true
	}
	if v, e := crypto.BatchVerifyBLSSignaturesOneMessage(nil, nil, msg, hs); !crypto.IsBLSAggregateEmptyListError(e) || !allFalse(v) {
		return Result{}, implViolation("empty list: unexpected result")
	}
	if v, e := crypto.BatchVerifyBLSSignaturesOneMessage(pks, append(append([]crypto.Signature{}, sigs...), sigs[0]), msg, hs); !crypto.IsInvalidInputsError(e) || !allFalse(v) || len(v) != n+1 {
		return Result{}, implViolation("length mismatch: unexpected result")
	}
	if v, e := crypto.BatchVerifyBLSSignaturesOneMessage(pks, sigs, msg, nil); !crypto.IsNilHasherError(e) || !allFalse(v) {
		return Result{}, implViolation("nil hasher: unexpected result")
	}
	ek, _ := crypto.GeneratePrivateKey(crypto.ECDSAP256, rbytes(rr, 32))
	for pos := 0; pos < n; pos++ {
		bp := append([]crypto.PublicKey{}, pks...)
		bp[pos] = ek.PublicKey()
		if v, e := crypto.BatchVerifyBLSSignaturesOneMessage(bp, sigs, msg, hs); !crypto.IsNotBLSKeyError(e) || !allFalse(v) || len(v) != n {
			return Result{}, implViolation("non-BLS key at index %d of %d: error %v, results %v (documented: notBLSKey error, every result false)", pos, n, e, v)
		}
	}
	if in.Mode == "api-large" {
		for i := range out {
			ind, _ := pks[i].Verify(sigs[i], msg, hs)
			if ind != out[i] {
				return Result{}, implViolation("batch of %d: index %d reported %v by BatchVerifyBLSSignaturesOneMessage, %v by Verify", n, i, out[i], ind)
			}
		}
		return Result{Coq: "ApiCase [] [] []", Key: string(c.Input), Nontrivial: true, Obs: map[string]any{"n": n, "agrees_with_individual_verification": true}}, nil
	}
	var obs []string
	for i := range out {
		obs = append(obs, cqbool(out[i]))
		// cross-check with the library's own individual verification
		ind, _ := pks[i].Verify(sigs[i], msg, hs)
		if ind != out[i] {
			obs[len(obs)-1] = cqbool(!ind) // force a visible disagreement with the oracle as well
		}
	}
	term := fmt.Sprintf("ApiCase %s %s %s", cqlist(coqL), cqlist(pre), cqlist(obs))
	return Result{Coq: term, Key: string(c.Input), Nontrivial: anyInvalid || n >= 2, Obs: map[string]any{"results": fmt.Sprint(out)}}, nil
}


func cqBigZ(x *big.Int) string { return fmt.Sprintf("(%s)%%Z", x.String()) }
