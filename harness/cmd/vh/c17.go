package main

import (
	"bytes"
	"encoding/json"
	"fmt"
	"math/big"
	"math/rand/v2"
	"strings"

	"github.com/onflow/crypto"
	"github.com/onflow/crypto/hash"
)

type c17In struct {
	Sk1   string `json:"sk1"`
	Sk2   string `json:"sk2"`
	Data1 string `json:"data1"`
	Data2 string `json:"data2"`
	Tag   string `json:"tag"`
	Mode  string `json:"mode"` // how the two proofs are derived
	Salt  uint64 `json:"salt"`
	// IdSrc: constructor of the identity key(s) in the id-* modes ("" constant | decoded | aggregated | removed |
	// zero-sk); PkRoute: constructor of the non-identity key objects ("" = PublicKey(), see c01RoutePk)
	IdSrc   string `json:"identity_src,omitempty"`
	PkRoute string `json:"pk_route,omitempty"`
}

func init() {
	register(&Prop{
		ID:        "C17",
		Header:    "From Coq Require Import ZArith NArith List String.\nFrom V Require Import Lib.Hex Corr.C17Corr.\nImport ListNotations.\nOpen Scope string_scope.\n",
		Check:     "bad_ids",
		PropCheck: "prop_bad_ids",
		Gen:       c17Gen,
		Run:       c17Run,
		Rule:      "pairs of (key, proof): honest proofs over equal / different data, equal / distinct / negated keys, both proofs scaled by a common factor, one or both negated, identity keys, identity proofs, p+T outside G1, malformed and wrong-length proofs, proofs attributed to another key; each case also evaluated with the pairs swapped; added by the generator audit: identity keys from every constructor (decoded, aggregated, removed, PublicKey() of the zero private key) in first, second and both positions, also with the identity proof on the same / the other side and with malformed, short, nil and non-G1 proofs; non-identity key objects from every constructor; edge keys 1, 2, r-1 in every combination; nil / empty / 47 / 49 / 96-byte proofs in one and both positions, infinity with a stray byte, the 0xE0 header, sign flag on the second proof, the order-3 point (one, both, both under one key), two different defects in one call, x = p with an off-curve x, one proof under two keys, p and -p under one key, proofs under different tags, proofs scaled by r and by different factors, the honest pair after five rejected pairs on the same key objects; runner-side: not-a-BLS-key error for a foreign or nil key in EITHER position whatever the proofs (wrong length, nil, malformed) and the other key (regular, identity, foreign, nil), SPOCKProve = Sign and SPOCKVerifyAgainstData = Verify on the full product of keys (incl. identity), proofs (valid, other, malformed, non-G1, identity, short, nil, long), data (incl. nil) and hashers (nil, 127, 129 bytes, other tag), SPOCKVerify repeatable, arguments unmodified, no panic; distinct by the full input",
		Shard:     4,
	})
}

func c17Gen(tier string, r *rand.Rand) []Case {
	modes := []string{"honest", "different-data", "scaled", "neg-both", "neg-one", "id-key1", "id-key2", "id-proofs", "id-proof1", "plusT1", "plusT2",
		"malformed1", "short1", "long2", "other-key", "same-key", "neg-key", "swapped-proofs", "bitflip1", "flags1", "xgep2",
		"plusT-minusT", "plusT-plusT", "same-key-same-malformed", "same-key-same-plusT", "same-key-same-offcurve", "same-key-same-valid", "same-key-two-objects-same-plusT",
		"id-both", "id-both-different-data", "id-both-one-id-proof", "id-both-decoded"}
	var cs []Case
	reps := 1
	if tier == "thorough" {
		reps = 12
	}
	// ---- families added by the generator audit ----
	rk := func() *big.Int {
		k := new(big.Int).Mod(new(big.Int).SetBytes(rbytes(r, 40)), new(big.Int).Sub(blsR, big.NewInt(1)))
		return k.Add(k, big.NewInt(1))
	}
	mk := func(fam, mode string, k1, k2 *big.Int, idSrc, route string) {
		d1 := rbytes(r, r.IntN(64))
		d2 := append(append([]byte{}, d1...), 0x01)
		cs = append(cs, mkcase(fam, c17In{Sk1: hx(fixed(k1, 32)), Sk2: hx(fixed(k2, 32)), Data1: hx(d1), Data2: hx(d2), Tag: fmt.Sprintf("spock-%d", r.IntN(100)),
			Mode: mode, Salt: r.Uint64(), IdSrc: idSrc, PkRoute: route}))
	}
	rm1 := new(big.Int).Sub(blsR, big.NewInt(1))
	for rep := 0; rep < reps; rep++ {
		// identity keys from every constructor, alone, both, and together with identity / malformed / short proofs
		// (an identity key with the identity proof on its side makes the pairing equation hold for ANY other pair)
		for i, src := range []string{"decoded", "aggregated", "removed", "zero-sk"} {
			mk("identity-routes", []string{"id-key1", "id-key2", "id-both", "id-both-different-data"}[i], rk(), rk(), src, "")
			mk("identity-routes", []string{"id-key1-id-proof1", "id-key2-id-proof2", "id-key1-id-proof2", "id-both-id-proofs"}[i], rk(), rk(), src, "")
		}
		for _, m := range []string{"id-key1-id-proof1", "id-key2-id-proof2", "id-key1-id-proof2", "id-both-id-proofs", "id-key1-malformed2", "id-key2-short1", "id-key1-plusT1", "id-key2-nil2"} {
			mk("identity-mixed", m, rk(), rk(), "", "")
		}
		// non-identity key objects from every constructor
		for i, rt := range []string{"decoded", "decoded-compressed", "agg-single", "agg-with-identity", "agg-split", "removed", "removed-identity", "via-encoded-sk"} {
			mk("key-routes", []string{"honest", "different-data", "same-key", "plusT2"}[i%4], rk(), rk(), "", rt)
		}
		// edge keys 1, 2, r-1 (pk = g2, -g2) in every combination with a random key
		for _, pr := range [][2]*big.Int{{big.NewInt(1), rk()}, {rk(), big.NewInt(1)}, {big.NewInt(1), rm1}, {rm1, rm1}, {big.NewInt(2), big.NewInt(1)}, {big.NewInt(1), big.NewInt(1)}} {
			mk("edge-keys", "honest", pr[0], pr[1], "", "")
			mk("edge-keys", "different-data", pr[0], pr[1], "", "")
		}
		// more proof shapes and mixtures of two defects
		for _, m := range []string{"nil1", "nil2", "nil-both", "empty-both", "short-both", "long1", "len96-2", "infstray1", "infstray1-id2@1", "infstray1-id2@24", "infstray1-id2@40", "infstray1-id2@41", "infstray1-id2@44", "infstray1-id2@47",
			"infstray-both@41", "infstray-both@47", "infstray-both@8", "header-e0-2", "flags2", "order3-1", "order3-both",
			"same-key-same-order3", "malformed1-plusT2", "plusT1-malformed2", "short1-plusT2", "malformed-both", "xgep1-offcurve2", "offcurve1", "same-proof-different-keys",
			"neg-one-same-key", "different-tag", "scaled-by-zero", "scaled-differently", "honest-after-failures"} {
			k1 := rk()
			k2 := rk()
			if strings.HasPrefix(m, "same-key") || m == "neg-one-same-key" {
				k2.Set(k1)
			}
			mk("proof-shapes", m, k1, k2, "", "")
		}
	}
	for i := 0; i < reps; i++ {
		for _, m := range modes {
			k1 := new(big.Int).Mod(new(big.Int).SetBytes(rbytes(r, 40)), new(big.Int).Sub(blsR, big.NewInt(1)))
			k1.Add(k1, big.NewInt(1))
			k2 := new(big.Int).Mod(new(big.Int).SetBytes(rbytes(r, 40)), new(big.Int).Sub(blsR, big.NewInt(1)))
			k2.Add(k2, big.NewInt(1))
			if strings.HasPrefix(m, "same-key") {
				k2.Set(k1)
			}
			if m == "neg-key" {
				k2.Sub(blsR, k1)
			}
			d1 := rbytes(r, r.IntN(64))
			d2 := append(append([]byte{}, d1...), 0x01)
			cs = append(cs, mkcase(m, c17In{Sk1: hx(fixed(k1, 32)), Sk2: hx(fixed(k2, 32)), Data1: hx(d1), Data2: hx(d2), Tag: fmt.Sprintf("spock-%d", r.IntN(100)), Mode: m, Salt: r.Uint64()}))
		}
	}
	return cs
}

func c17Run(c Case) (Result, error) {
	var in c17In
	if err := json.Unmarshal(c.Input, &in); err != nil {
		return Result{}, err
	}
	rr := rand.New(rand.NewPCG(in.Salt, 0x17))
	sk1, err := crypto.DecodePrivateKey(crypto.BLSBLS12381, unhx(in.Sk1))
	if err != nil {
		return Result{}, err
	}
	sk2, err := crypto.DecodePrivateKey(crypto.BLSBLS12381, unhx(in.Sk2))
	if err != nil {
		return Result{}, err
	}
	var hs hash.Hasher = crypto.NewExpandMsgXOFKMAC128(in.Tag)
	d1, d2 := unhx(in.Data1), unhx(in.Data2)
	p1, err := crypto.SPOCKProve(sk1, d1, hs)
	if err != nil {
		return Result{}, err
	}
	p2, err := crypto.SPOCKProve(sk2, d1, hs)
	if err != nil {
		return Result{}, err
	}
	// wrappers: SPOCKProve = Sign, SPOCKVerifyAgainstData = Verify, non-BLS keys refused
	s1, _ := sk1.Sign(d1, hs)
	if !bytes.Equal(s1, p1) {
		return Result{}, implViolation("SPOCKProve differs from Sign")
	}
	va, e1 := crypto.SPOCKVerifyAgainstData(sk1.PublicKey(), p1, d1, hs)
	vb, e2 := sk1.PublicKey().Verify(p1, d1, hs)
	if va != vb || (e1 == nil) != (e2 == nil) || !va {
		return Result{}, implViolation("SPOCKVerifyAgainstData differs from Verify")
	}
	ek, _ := crypto.GeneratePrivateKey(crypto.ECDSAP256, rbytes(rr, 32))
	if _, e := crypto.SPOCKProve(ek, d1, hs); !crypto.IsNotBLSKeyError(e) {
		return Result{}, implViolation("SPOCKProve accepted a non-BLS key: %v", e)
	}
	if _, e := crypto.SPOCKVerify(ek.PublicKey(), p1, sk2.PublicKey(), p2); !crypto.IsNotBLSKeyError(e) {
		return Result{}, implViolation("SPOCKVerify accepted a non-BLS key: %v", e)
	}
	if _, e := crypto.SPOCKVerifyAgainstData(ek.PublicKey(), p1, d1, hs); !crypto.IsNotBLSKeyError(e) {
		return Result{}, implViolation("SPOCKVerifyAgainstData accepted a non-BLS key: %v", e)
	}
	// the not-a-BLS-key error for a foreign / nil key in EITHER position, whatever else is wrong with the call
	// (wrong-length, nil, malformed proofs, identity key in the other position)
	{
		mal := append([]byte{}, p1...)
		mal[0] &= 0x7F
		others := []crypto.PublicKey{sk2.PublicKey(), crypto.IdentityBLSPublicKey(), ek.PublicKey(), nil}
		for _, foreign := range []crypto.PublicKey{ek.PublicKey(), nil} {
			for _, other := range others {
				for _, pr := range [][2][]byte{{p1, p2}, {p1[:47], p2}, {nil, nil}, {mal, p2}, {p1, append(append([]byte{}, p2...), 0)}} {
					for swap := 0; swap < 2; swap++ {
						a, b := foreign, other
						if swap == 1 {
							a, b = other, foreign
						}
						var ok bool
						var e error
						if pn, m := catch(func() { ok, e = crypto.SPOCKVerify(a, pr[0], b, pr[1]) }); pn {
							return Result{}, implViolation("SPOCKVerify panics with keys (%v, %v) and proofs of %d / %d bytes: %s", a, b, len(pr[0]), len(pr[1]), m)
						}
						if !crypto.IsNotBLSKeyError(e) || ok {
							return Result{}, implViolation("SPOCKVerify with a non-BLS key (keys %v, %v; proofs of %d / %d bytes) = (%v, %v), documented: not-a-BLS-key error", a, b, len(pr[0]), len(pr[1]), ok, e)
						}
					}
				}
			}
		}
		for _, h := range []hash.Hasher{hs, nil, &fixedHasher{make([]byte, 64)}} {
			if sg, e := crypto.SPOCKProve(ek, d1, h); !crypto.IsNotBLSKeyError(e) || sg != nil {
				return Result{}, implViolation("SPOCKProve with a non-BLS key and hasher %v = (%x, %v)", h, sg, e)
			}
			if ok, e := crypto.SPOCKVerifyAgainstData(ek.PublicKey(), p1[:47], d1, h); !crypto.IsNotBLSKeyError(e) || ok {
				return Result{}, implViolation("SPOCKVerifyAgainstData with a non-BLS key and hasher %v = (%v, %v)", h, ok, e)
			}
		}
	}
	// SPOCKProve = Sign and SPOCKVerifyAgainstData = Verify on EVERY kind of argument (other data, other key,
	// identity key, malformed / non-G1 / wrong-length / nil proofs, nil and wrong-size hashers, nil data);
	// the full product in the plain modes only (it does not depend on the mode)
	if in.Mode == "honest" || in.Mode == "different-data" {
		mal := append([]byte{}, p1...)
		mal[0] &= 0x7F
		var plusT []byte
		if P, ok := e1DecompressSafe(p1); ok {
			plusT = e1Compress(e1Add(P, e1Torsion(rr)))
		}
		idDec, _ := crypto.DecodePublicKey(crypto.BLSBLS12381, crypto.IdentityBLSPublicKey().Encode())
		infP := append([]byte{0xC0}, make([]byte, 47)...)
		for _, k := range []crypto.PublicKey{sk1.PublicKey(), sk2.PublicKey(), crypto.IdentityBLSPublicKey(), idDec} {
			for _, pf := range [][]byte{p1, p2, mal, plusT, infP, p1[:47], nil, append(append([]byte{}, p1...), 0)} {
				for _, d := range [][]byte{d1, d2, nil} {
					for _, h := range []hash.Hasher{hs, nil, &fixedHasher{make([]byte, 127)}, &fixedHasher{make([]byte, 129)}, crypto.NewExpandMsgXOFKMAC128(in.Tag + "'")} {
						va, ea := crypto.SPOCKVerifyAgainstData(k, pf, d, h)
						vb, eb := k.Verify(pf, d, h)
						if verdictClass(va, ea) != verdictClass(vb, eb) {
							return Result{}, implViolation("SPOCKVerifyAgainstData = %s but Verify = %s (key %x, proof %x, data %x, hasher %v)", verdictClass(va, ea), verdictClass(vb, eb), k.Encode(), pf, d, h)
						}
					}
				}
			}
		}
		for _, k := range []crypto.PrivateKey{sk1, sk2} {
			for _, d := range [][]byte{d1, d2, nil, make([]byte, 400)} {
				for _, h := range []hash.Hasher{hs, nil, &fixedHasher{make([]byte, 127)}, &fixedHasher{make([]byte, 129)}, &fixedHasher{bytes.Repeat([]byte{0xff}, 128)}} {
					sa, ea := crypto.SPOCKProve(k, d, h)
					sb, eb := k.Sign(d, h)
					if !bytes.Equal(sa, sb) || verdictClass(false, ea) != verdictClass(false, eb) || (sa == nil) != (sb == nil) {
						return Result{}, implViolation("SPOCKProve = (%x, %v) but Sign = (%x, %v) (key %x, data %x, hasher %v)", sa, ea, sb, eb, k.Encode(), d, h)
					}
				}
			}
		}
	}
	pk1, pk2 := sk1.PublicKey(), sk2.PublicKey()
	if in.PkRoute != "" {
		routes := []string{"decoded", "decoded-compressed", "agg-single", "agg-with-identity", "agg-split", "removed", "removed-identity", "via-encoded-sk"}
		next := in.PkRoute
		for i, rt := range routes {
			if rt == in.PkRoute {
				next = routes[(i+3)%len(routes)]
			}
		}
		var e1, e2 error
		pk1, e1 = c01RoutePk(in.PkRoute, sk1, new(big.Int).SetBytes(unhx(in.Sk1)), rr)
		pk2, e2 = c01RoutePk(next, sk2, new(big.Int).SetBytes(unhx(in.Sk2)), rr)
		if e1 != nil || e2 != nil {
			return Result{}, implViolation("public keys through routes %s / %s: %v %v", in.PkRoute, next, e1, e2)
		}
	}
	idKey := func() crypto.PublicKey {
		if in.IdSrc == "zero-sk" {
			z, e := c04ZeroKey(rr)
			if e != nil {
				panic(e)
			}
			return z.PublicKey()
		}
		k, e := c02IdentityKey(in.IdSrc, rr)
		if e != nil {
			panic(e)
		}
		return k
	}
	header := func(b []byte) []byte {
		c := append([]byte{}, b...)
		c[0] &= 0x7F
		return c
	}
	offcurve := func() []byte {
		for {
			xx := new(big.Int).Mod(new(big.Int).SetBytes(rbytes(rr, 48)), blsP)
			if fpSqrt(fpAdd(fpMul(fpMul(xx, xx), xx), e1B)) == nil {
				b := fixed(xx, 48)
				b[0] |= 0x80
				return b
			}
		}
	}
	order3 := func() []byte { return append([]byte{0x80}, make([]byte, 47)...) }
	id1, id2 := false, false
	P1, P2 := e1Decompress(p1), e1Decompress(p2)
	inf := make([]byte, 48)
	inf[0] = 0xC0
	switch in.Mode {
	case "honest", "same-key", "neg-key":
	case "same-key-same-malformed":
		// one key, byte-identical proofs that are not valid encodings
		p1 = append([]byte{}, p1...)
		p1[0] &= 0x7F
		p2 = append([]byte{}, p1...)
	case "same-key-same-plusT", "same-key-two-objects-same-plusT":
		p1 = e1Compress(e1Add(P1, e1Torsion(rr)))
		p2 = append([]byte{}, p1...)
		if in.Mode == "same-key-two-objects-same-plusT" {
			pk2, _ = crypto.DecodePublicKey(crypto.BLSBLS12381, pk1.Encode())
		} else {
			pk2 = pk1
		}
	case "same-key-same-offcurve":
		p1 = make([]byte, 48)
		p1[0], p1[47] = 0x80, 0x01
		p2 = append([]byte{}, p1...)
		pk2 = pk1
	case "same-key-same-valid":
		p2 = append([]byte{}, p1...)
		pk2 = pk1
	case "different-data":
		p2, _ = crypto.SPOCKProve(sk2, d2, hs)
	case "scaled":
		k := big.NewInt(int64(2 + rr.IntN(100000)))
		p1, p2 = e1Compress(e1Mul(k, P1)), e1Compress(e1Mul(k, P2))
	case "neg-both":
		p1, p2 = e1Compress(e1Neg(P1)), e1Compress(e1Neg(P2))
	case "neg-one":
		p1 = e1Compress(e1Neg(P1))
	case "id-key1", "id-key1-id-proof1", "id-key1-id-proof2", "id-key1-malformed2", "id-key1-plusT1":
		pk1, id1 = idKey(), true
		switch in.Mode {
		case "id-key1-id-proof1":
			p1 = inf
		case "id-key1-id-proof2":
			p2 = inf
		case "id-key1-malformed2":
			p2 = header(p2)
		case "id-key1-plusT1":
			p1 = e1Compress(e1Add(P1, e1Torsion(rr)))
		}
	case "id-key2", "id-key2-id-proof2", "id-key2-short1", "id-key2-nil2":
		pk2, id2 = idKey(), true
		switch in.Mode {
		case "id-key2-id-proof2":
			p2 = inf
		case "id-key2-short1":
			p1 = p1[:47]
		case "id-key2-nil2":
			p2 = nil
		}
	case "id-both", "id-both-different-data", "id-both-one-id-proof", "id-both-decoded", "id-both-id-proofs":
		// BOTH keys are the identity: e(p, O) = 1 for every p, so only the explicit refusal of identity
		// keys stands between arbitrary proofs and acceptance
		pk1, id1 = idKey(), true
		pk2, id2 = idKey(), true
		switch in.Mode {
		case "id-both-different-data":
			p2, _ = crypto.SPOCKProve(sk2, d2, hs)
		case "id-both-id-proofs":
			p1, p2 = inf, append([]byte{}, inf...)
		case "id-both-one-id-proof":
			p1 = inf
		case "id-both-decoded":
			pk2, _ = crypto.DecodePublicKey(crypto.BLSBLS12381, crypto.IdentityBLSPublicKey().Encode())
		}
	case "id-proofs":
		p1, p2 = inf, append([]byte{}, inf...)
	case "id-proof1":
		p1 = inf
	case "plusT1":
		p1 = e1Compress(e1Add(P1, e1Torsion(rr)))
	case "plusT-minusT":
		// both proofs leave G1 by opposite cofactor components: their SUM is in G1, each one is not
		T := e1SmallOrder(rr, 3)
		p1, p2 = e1Compress(e1Add(P1, T)), e1Compress(e1Add(P2, e1Neg(T)))
	case "plusT-plusT":
		T := e1Torsion(rr)
		p1, p2 = e1Compress(e1Add(P1, T)), e1Compress(e1Add(P2, T))
	case "plusT2":
		p2 = e1Compress(e1Add(P2, e1SmallOrder(rr, 3)))
	case "malformed1":
		p1 = append([]byte{}, p1...)
		p1[0] &= 0x7F
	case "short1":
		p1 = p1[:47]
	case "long2":
		p2 = append(append([]byte{}, p2...), 0)
	case "other-key":
		k3, _ := crypto.GeneratePrivateKey(crypto.BLSBLS12381, rbytes(rr, 32))
		pk1 = k3.PublicKey()
		in.Sk1 = hx(k3.Encode())
	case "swapped-proofs":
		p1, p2 = p2, p1
	case "bitflip1":
		p1 = append([]byte{}, p1...)
		bit := rr.IntN(384)
		p1[bit/8] ^= 1 << (7 - bit%8)
	case "flags1":
		p1 = append([]byte{}, p1...)
		p1[0] ^= 0x20
	case "nil1":
		p1 = nil
	case "nil2":
		p2 = nil
	case "nil-both":
		p1, p2 = nil, nil
	case "empty-both":
		p1, p2 = []byte{}, []byte{}
	case "short-both":
		p1, p2 = p1[:47], p2[:47]
	case "long1":
		p1 = append(append([]byte{}, p1...), 0)
	case "len96-2":
		p2 = append(append([]byte{}, p2...), p2...)
	case "infstray1":
		p1 = append([]byte{}, inf...)
		p1[1+rr.IntN(47)] = byte(1 + rr.IntN(255))
	case "infstray1-id2@1", "infstray1-id2@24", "infstray1-id2@40", "infstray1-id2@41", "infstray1-id2@44", "infstray1-id2@47",
		"infstray-both@41", "infstray-both@47", "infstray-both@8":
		// a non-canonical infinity encoding next to the canonical one (or another non-canonical one):
		// were it read as the identity the pairing equation would hold trivially
		var pos int
		fmt.Sscanf(in.Mode[strings.Index(in.Mode, "@")+1:], "%d", &pos)
		p1 = append([]byte{}, inf...)
		p1[pos] = byte(1 + rr.IntN(255))
		p2 = append([]byte{}, inf...)
		if strings.HasPrefix(in.Mode, "infstray-both") {
			p2[pos] = byte(1 + rr.IntN(255))
		}
	case "header-e0-2":
		p2 = crypto.BLSInvalidSignature()
	case "flags2":
		p2 = append([]byte{}, p2...)
		p2[0] ^= 0x20
	case "order3-1":
		p1 = order3()
	case "order3-both":
		p1, p2 = order3(), order3()
	case "same-key-same-order3":
		p1, p2 = order3(), order3()
		pk2 = pk1
	case "malformed1-plusT2":
		p1, p2 = header(p1), e1Compress(e1Add(P2, e1Torsion(rr)))
	case "plusT1-malformed2":
		p1, p2 = e1Compress(e1Add(P1, e1SmallOrder(rr, 3))), header(p2)
	case "short1-plusT2":
		p1, p2 = p1[:47], e1Compress(e1Add(P2, e1Torsion(rr)))
	case "malformed-both":
		p1, p2 = header(p1), header(p2)
	case "xgep1-offcurve2":
		p1 = fixed(blsP, 48)
		p1[0] |= 0x80
		p2 = offcurve()
	case "offcurve1":
		p1 = offcurve()
	case "same-proof-different-keys":
		p2 = append([]byte{}, p1...)
	case "neg-one-same-key":
		p2 = e1Compress(e1Neg(P1))
		pk2 = pk1
	case "different-tag":
		p2, _ = crypto.SPOCKProve(sk2, d1, crypto.NewExpandMsgXOFKMAC128(in.Tag+"'"))
	case "scaled-by-zero":
		p1, p2 = e1Compress(e1Mul(blsR, P1)), e1Compress(e1Mul(blsR, P2))
	case "scaled-differently":
		p1, p2 = e1Compress(e1Mul(big.NewInt(int64(2+rr.IntN(1000))), P1)), e1Compress(e1Mul(big.NewInt(int64(1003+rr.IntN(1000))), P2))
	case "honest-after-failures":
		// rejected pairs on the same key objects first: verification keeps no memory of them
		for _, pr := range [][2][]byte{{header(p1), p2}, {p1, e1Compress(e1Neg(P2))}, {p2, p1}, {p1[:47], p2}, {inf, p2}} {
			if ok, e := crypto.SPOCKVerify(pk1, pr[0], pk2, pr[1]); ok || e != nil {
				return Result{}, implViolation("SPOCKVerify accepts / fails on a wrong pair of proofs %x, %x: (%v, %v)", pr[0], pr[1], ok, e)
			}
		}
	case "xgep2":
		x2 := new(big.Int).Add(P2.x, blsP)
		if x2.BitLen() <= 381 {
			b := fixed(x2, 48)
			b[0] |= p2[0] & 0xE0
			p2 = b
		} else {
			p2 = fixed(blsP, 48)
			p2[0] |= 0x80
		}
	}
	p1c, p2c := append([]byte{}, p1...), append([]byte{}, p2...)
	pk1Enc, pk2Enc := pk1.Encode(), pk2.Encode()
	var ok, ok2 bool
	var e, e2s error
	if pn, m := catch(func() {
		ok, e = crypto.SPOCKVerify(pk1, p1, pk2, p2)
		ok2, e2s = crypto.SPOCKVerify(pk2, p2, pk1, p1)
	}); pn {
		return Result{}, implViolation("SPOCKVerify panics (mode %s, proofs %x / %x): %s", in.Mode, p1, p2, m)
	}
	v, vs := verdictClass(ok, e), verdictClass(ok2, e2s)
	// repeatable, arguments read only
	if ok3, e3 := crypto.SPOCKVerify(pk1, p1, pk2, p2); verdictClass(ok3, e3) != v {
		return Result{}, implViolation("SPOCKVerify is not repeatable (mode %s): %s then %s", in.Mode, v, verdictClass(ok3, e3))
	}
	if !bytes.Equal(p1, p1c) || !bytes.Equal(p2, p2c) || !bytes.Equal(pk1.Encode(), pk1Enc) || !bytes.Equal(pk2.Encode(), pk2Enc) {
		return Result{}, implViolation("SPOCKVerify modified its arguments (mode %s)", in.Mode)
	}
	term := fmt.Sprintf("mkCase %s %s %s %s %s %s %s %s", cqs(in.Sk1), cqs(in.Sk2), cqbool(id1), cqbool(id2), cqs(hx(p1)), cqs(hx(p2)), cqs(v), cqs(vs))
	return Result{Coq: term, Key: string(c.Input), Nontrivial: len(p1) == 48 && len(p2) == 48,
		Obs: map[string]any{"p1": hx(p1), "p2": hx(p2), "verdict": v, "swapped": vs}}, nil
}
