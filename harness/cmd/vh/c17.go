package main

import (
	"bytes"
	"encoding/json"
	"fmt"
	"math/big"
	"math/rand/v2"
	"strings"

	"github.com/onflow/crypto"
	"github.com/onflow/crypto/hash"
)

type c17In struct {
	Sk1   string `json:"sk1"`
	Sk2   string `json:"sk2"`
	Data1 string `json:"data1"`
	Data2 string `json:"data2"`
	Tag   string `json:"tag"`
	Mode  string `json:"mode"` // how the two proofs are derived
	Salt  uint64 `json:"salt"`
}

func init() {
	register(&Prop{
		ID:        "C17",
		Header:    "From Coq Require Import ZArith NArith List String.\nFrom V Require Import Lib.Hex Corr.C17Corr.\nImport ListNotations.\nOpen Scope string_scope.\n",
		Check:     "bad_ids",
		PropCheck: "prop_bad_ids",
		Gen:       c17Gen,
		Run:       c17Run,
		Rule:      "pairs of (key, proof): honest proofs over equal / different data, equal / distinct / negated keys, both proofs scaled by a common factor, one or both negated, identity keys, identity proofs, p+T outside G1, malformed and wrong-length proofs, proofs attributed to another key; each case also evaluated with the pairs swapped; non-BLS keys and the Prove/VerifyAgainstData wrappers are checked in the runner; distinct by the full input",
		Shard:     2,
	})
}

func c17Gen(tier string, r *rand.Rand) []Case {
	modes := []string{"honest", "different-data", "scaled", "neg-both", "neg-one", "id-key1", "id-key2", "id-proofs", "id-proof1", "plusT1", "plusT2",
		"malformed1", "short1", "long2", "other-key", "same-key", "neg-key", "swapped-proofs", "bitflip1", "flags1", "xgep2",
		"plusT-minusT", "plusT-plusT", "same-key-same-malformed", "same-key-same-plusT", "same-key-same-offcurve", "same-key-same-valid", "same-key-two-objects-same-plusT",
		"id-both", "id-both-different-data", "id-both-one-id-proof", "id-both-decoded"}
	var cs []Case
	reps := 1
	if tier == "thorough" {
		reps = 12
	}
	for i := 0; i < reps; i++ {
		for _, m := range modes {
			k1 := new(big.Int).Mod(new(big.Int).SetBytes(rbytes(r, 40)), new(big.Int).Sub(blsR, big.NewInt(1)))
			k1.Add(k1, big.NewInt(1))
			k2 := new(big.Int).Mod(new(big.Int).SetBytes(rbytes(r, 40)), new(big.Int).Sub(blsR, big.NewInt(1)))
			k2.Add(k2, big.NewInt(1))
			if strings.HasPrefix(m, "same-key") {
				k2.Set(k1)
			}
			if m == "neg-key" {
				k2.Sub(blsR, k1)
			}
			d1 := rbytes(r, r.IntN(64))
			d2 := append(append([]byte{}, d1...), 0x01)
			cs = append(cs, mkcase(m, c17In{hx(fixed(k1, 32)), hx(fixed(k2, 32)), hx(d1), hx(d2), fmt.Sprintf("spock-%d", r.IntN(100)), m, r.Uint64()}))
		}
	}
	return cs
}

func c17Run(c Case) (Result, error) {
	var in c17In
	if err := json.Unmarshal(c.Input, &in); err != nil {
		return Result{}, err
	}
	rr := rand.New(rand.NewPCG(in.Salt, 0x17))
	sk1, err := crypto.DecodePrivateKey(crypto.BLSBLS12381, unhx(in.Sk1))
	if err != nil {
		return Result{}, err
	}
	sk2, err := crypto.DecodePrivateKey(crypto.BLSBLS12381, unhx(in.Sk2))
	if err != nil {
		return Result{}, err
	}
	var hs hash.Hasher = crypto.NewExpandMsgXOFKMAC128(in.Tag)
	d1, d2 := unhx(in.Data1), unhx(in.Data2)
	p1, err := crypto.SPOCKProve(sk1, d1, hs)
	if err != nil {
		return Result{}, err
	}
	p2, err := crypto.SPOCKProve(sk2, d1, hs)
	if err != nil {
		return Result{}, err
	}
	// wrappers: SPOCKProve = Sign, SPOCKVerifyAgainstData = Verify, non-BLS keys refused
	s1, _ := sk1.Sign(d1, hs)
	if !bytes.Equal(s1, p1) {
		return Result{}, implViolation("SPOCKProve differs from Sign")
	}
	va, e1 := crypto.SPOCKVerifyAgainstData(sk1.PublicKey(), p1, d1, hs)
	vb, e2 := sk1.PublicKey().Verify(p1, d1, hs)
	if va != vb || (e1 == nil) != (e2 == nil) || !va {
		return Result{}, implViolation("SPOCKVerifyAgainstData differs from Verify")
	}
	ek, _ := crypto.GeneratePrivateKey(crypto.ECDSAP256, rbytes(rr, 32))
	if _, e := crypto.SPOCKProve(ek, d1, hs); !crypto.IsNotBLSKeyError(e) {
		return Result{}, implViolation("SPOCKProve accepted a non-BLS key: %v", e)
	}
	if _, e := crypto.SPOCKVerify(ek.PublicKey(), p1, sk2.PublicKey(), p2); !crypto.IsNotBLSKeyError(e) {
		return Result{}, implViolation("SPOCKVerify accepted a non-BLS key: %v", e)
	}
	if _, e := crypto.SPOCKVerifyAgainstData(ek.PublicKey(), p1, d1, hs); !crypto.IsNotBLSKeyError(e) {
		return Result{}, implViolation("SPOCKVerifyAgainstData accepted a non-BLS key: %v", e)
	}
	pk1, pk2 := sk1.PublicKey(), sk2.PublicKey()
	id1, id2 := false, false
	P1, P2 := e1Decompress(p1), e1Decompress(p2)
	inf := make([]byte, 48)
	inf[0] = 0xC0
	switch in.Mode {
	case "honest", "same-key", "neg-key":
	case "same-key-same-malformed":
		// one key, byte-identical proofs that are not valid encodings
		p1 = append([]byte{}, p1...)
		p1[0] &= 0x7F
		p2 = append([]byte{}, p1...)
	case "same-key-same-plusT", "same-key-two-objects-same-plusT":
		p1 = e1Compress(e1Add(P1, e1Torsion(rr)))
		p2 = append([]byte{}, p1...)
		if in.Mode == "same-key-two-objects-same-plusT" {
			pk2, _ = crypto.DecodePublicKey(crypto.BLSBLS12381, pk1.Encode())
		} else {
			pk2 = pk1
		}
	case "same-key-same-offcurve":
		p1 = make([]byte, 48)
		p1[0], p1[47] = 0x80, 0x01
		p2 = append([]byte{}, p1...)
		pk2 = pk1
	case "same-key-same-valid":
		p2 = append([]byte{}, p1...)
		pk2 = pk1
	case "different-data":
		p2, _ = crypto.SPOCKProve(sk2, d2, hs)
	case "scaled":
		k := big.NewInt(int64(2 + rr.IntN(100000)))
		p1, p2 = e1Compress(e1Mul(k, P1)), e1Compress(e1Mul(k, P2))
	case "neg-both":
		p1, p2 = e1Compress(e1Neg(P1)), e1Compress(e1Neg(P2))
	case "neg-one":
		p1 = e1Compress(e1Neg(P1))
	case "id-key1":
		pk1, id1 = crypto.IdentityBLSPublicKey(), true
	case "id-key2":
		pk2, id2 = crypto.IdentityBLSPublicKey(), true
	case "id-both", "id-both-different-data", "id-both-one-id-proof", "id-both-decoded":
		// BOTH keys are the identity: e(p, O) = 1 for every p, so only the explicit refusal of identity
		// keys stands between arbitrary proofs and acceptance
		pk1, id1 = crypto.IdentityBLSPublicKey(), true
		pk2, id2 = crypto.IdentityBLSPublicKey(), true
		switch in.Mode {
		case "id-both-different-data":
			p2, _ = crypto.SPOCKProve(sk2, d2, hs)
		case "id-both-one-id-proof":
			p1 = inf
		case "id-both-decoded":
			pk2, _ = crypto.DecodePublicKey(crypto.BLSBLS12381, crypto.IdentityBLSPublicKey().Encode())
		}
	case "id-proofs":
		p1, p2 = inf, append([]byte{}, inf...)
	case "id-proof1":
		p1 = inf
	case "plusT1":
		p1 = e1Compress(e1Add(P1, e1Torsion(rr)))
	case "plusT-minusT":
		// both proofs leave G1 by opposite cofactor components: their SUM is in G1, each one is not
		T := e1SmallOrder(rr, 3)
		p1, p2 = e1Compress(e1Add(P1, T)), e1Compress(e1Add(P2, e1Neg(T)))
	case "plusT-plusT":
		T := e1Torsion(rr)
		p1, p2 = e1Compress(e1Add(P1, T)), e1Compress(e1Add(P2, T))
	case "plusT2":
		p2 = e1Compress(e1Add(P2, e1SmallOrder(rr, 3)))
	case "malformed1":
		p1 = append([]byte{}, p1...)
		p1[0] &= 0x7F
	case "short1":
		p1 = p1[:47]
	case "long2":
		p2 = append(append([]byte{}, p2...), 0)
	case "other-key":
		k3, _ := crypto.GeneratePrivateKey(crypto.BLSBLS12381, rbytes(rr, 32))
		pk1 = k3.PublicKey()
		in.Sk1 = hx(k3.Encode())
	case "swapped-proofs":
		p1, p2 = p2, p1
	case "bitflip1":
		p1 = append([]byte{}, p1...)
		bit := rr.IntN(384)
		p1[bit/8] ^= 1 << (7 - bit%8)
	case "flags1":
		p1 = append([]byte{}, p1...)
		p1[0] ^= 0x20
	case "xgep2":
		x2 := new(big.Int).Add(P2.x, blsP)
		if x2.BitLen() <= 381 {
			b := fixed(x2, 48)
			b[0] |= p2[0] & 0xE0
			p2 = b
		} else {
			p2 = fixed(blsP, 48)
			p2[0] |= 0x80
		}
	}
	ok, e := crypto.SPOCKVerify(pk1, p1, pk2, p2)
	ok2, e2s := crypto.SPOCKVerify(pk2, p2, pk1, p1)
	v, vs := verdictClass(ok, e), verdictClass(ok2, e2s)
	term := fmt.Sprintf("mkCase %s %s %s %s %s %s %s %s", cqs(in.Sk1), cqs(in.Sk2), cqbool(id1), cqbool(id2), cqs(hx(p1)), cqs(hx(p2)), cqs(v), cqs(vs))
	return Result{Coq: term, Key: string(c.Input), Nontrivial: len(p1) == 48 && len(p2) == 48,
		Obs: map[string]any{"p1": hx(p1), "p2": hx(p2), "verdict": v, "swapped": vs}}, nil
}
