package main

import (
	"time"
	"bufio"
	"bytes"
	"encoding/json"
	"fmt"
	"math/rand/v2"
	"os"
	"os/exec"
	"path/filepath"
	"strings"
	"sync"

	"github.com/onflow/crypto"
	"github.com/onflow/crypto/hash"
)

// C20: one transcript program (harness/cmd/transcript) built in several build configurations.

type c20In struct {
	Config string `json:"config"` // default | portable | purego | nocgo
	Seed   uint64 `json:"seed"`
	N      int    `json:"n"`
}

type trLine struct {
	Op  string `json:"op"`
	In  string `json:"in"`
	Out string `json:"out"`
}

var c20Configs = map[string]struct {
	env  []string
	args []string
}{
	"default":  {nil, nil},
	"portable": {[]string{"CGO_CFLAGS=-O2 -D__BLST_PORTABLE__"}, nil},
	"purego":   {nil, []string{"-tags", "purego"}},
	"nocgo":    {[]string{"CGO_ENABLED=0"}, []string{"-tags", "no_cgo"}},
}

func init() {
	register(&Prop{
		ID:        "C20",
		Header:    "From Coq Require Import ZArith NArith List String.\nFrom V Require Import Lib.Hex Corr.C20Corr.\nImport ListNotations.\nOpen Scope string_scope.\n",
		Check:     "bad_ids",
		PropCheck: "prop_bad_ids",
		Gen:       c20Gen,
		Run:       c20Run,
		Rule:      "one seeded transcript of deterministic operations (SHA2/SHA3/Keccak digests incl. split writes, KMAC128, ChaCha20 PRG reads / UintN / permutations / Store, ECDSA key generation, encodings, decoding and verification on both curves, BLS key generation, signing, verification verdicts, PoP, aggregation, aggregate and batch verification, SPoCK, threshold key generation and reconstruction, two seeded Joint-Feldman runs (3 and 6 participants) with every message and the final keys; plus, always: the one-shot helpers ComputeSHA3_256 / ComputeSHA2_256 at block boundaries from unaligned memory, byte-by-byte and 8-byte-chunk writes from every address alignment, hasher objects reused after SumHash / ComputeHash / Reset, nil writes, a 3000-byte message, KMAC128 through SumHash with split writes / after Reset / continued after SumHash for output sizes 0, 1, 32, 167..169, 400 and keys of 16, 32, 163, 331 bytes, PRG reads of 0..1000 bytes on both paths, Store / Restore and every sampler (SubPermutation, Shuffle, Samples over 2^40, Permutation(300), UintN) on the restored generator, ECDSA private-key decoding at the scalars n-2..n+1, 0..3, 2^255-2..2^255+1 on both curves, compressed-key round trips incl. the other square root, Sign -> Verify round trips under six hashers (32, 48, 64 bytes), malformed signatures (r or s = 0 or n, wrong lengths, nil), BLS key removal for every cut incl. removing all, identity key and identity signature, doubled key, aggregate verification over distinct messages with per-index hashers and repeated keys, SPoCK against data, compressed BLS keys, threshold reconstruction (stateless and stateful) with 10, 14 and 21 signers taken from the highest of 20, 64 and 254 indices) executed by the same program built four ways: default (ADX assembly, amd64 Keccak assembly), CGO_CFLAGS=-D__BLST_PORTABLE__, -tags purego, CGO_ENABLED=0 -tags no_cgo (non-BLS part); a case is one build configuration; distinct by configuration",
		CaseTimeout: 40 * time.Minute,
		Shard:     1,
	})
}

func c20Gen(tier string, r *rand.Rand) []Case {
	n := 3
	if tier == "thorough" {
		n = 40
	}
	seed := r.Uint64()
	var cs []Case
	for _, cfg := range []string{"default", "portable", "purego", "nocgo"} {
		cs = append(cs, mkcase(cfg, c20In{cfg, seed, n}))
	}
	return cs
}

var (
	c20mu    sync.Mutex
	c20cache = map[string][]trLine{}
)

func c20Transcript(cfg string, seed uint64, n int) ([]trLine, error) {
	c20mu.Lock()
	defer c20mu.Unlock()
	key := fmt.Sprintf("%s-%d-%d", cfg, seed, n)
	if t, ok := c20cache[key]; ok {
		return t, nil
	}
	root := os.Getenv("VERIF_ROOT")
	if root == "" {
		root = "/verif"
	}
	bdir := filepath.Join(root, "work", "C20bin")
	if err := os.MkdirAll(bdir, 0o755); err != nil {
		return nil, err
	}
	bin := filepath.Join(bdir, "transcript_"+cfg)
	c := c20Configs[cfg]
	args := append([]string{"build"}, c.args...)
	args = append(args, "-o", bin, "./cmd/transcript")
	cmd := exec.Command("go", args...)
	cmd.Dir = filepath.Join(root, "harness")
	cmd.Env = append(os.Environ(), c.env...)
	if out, err := cmd.CombinedOutput(); err != nil {
		return nil, fmt.Errorf("build %s failed: %v\n%s", cfg, err, out)
	}
	// input: seed, size, and ECDSA vectors generated once by this (default-build) process
	type vec struct {
		Algo int    `json:"algo"`
		Pk   string `json:"pk"`
		Sig  string `json:"sig"`
		Msg  string `json:"msg"`
	}
	rr := rand.New(rand.NewPCG(seed, 0x2020))
	var vecs []vec
	inPath := filepath.Join(bdir, fmt.Sprintf("input_%d_%d.json", seed, n))
	if _, err := os.Stat(inPath); err != nil {
		for _, alg := range []crypto.SigningAlgorithm{crypto.ECDSAP256, crypto.ECDSASecp256k1} {
			for i := 0; i < 2; i++ {
				sk, err := crypto.GeneratePrivateKey(alg, rbytes(rr, 32))
				if err != nil {
					return nil, err
				}
				msg := rbytes(rr, 20)
				sig, err := sk.Sign(msg, hash.NewSHA3_256())
				if err != nil {
					return nil, err
				}
				vecs = append(vecs, vec{int(alg), hx(sk.PublicKey().Encode()), hx(sig), hx(msg)})
			}
		}
		b, _ := json.Marshal(map[string]any{"seed": seed, "n": n, "ecdsa": vecs})
		if err := os.WriteFile(inPath, b, 0o644); err != nil {
			return nil, err
		}
	}
	var stdout, stderr bytes.Buffer
	run := exec.Command(bin, inPath)
	run.Stdout, run.Stderr = &stdout, &stderr
	if err := run.Run(); err != nil {
		return nil, fmt.Errorf("transcript %s failed: %v\n%s", cfg, err, stderr.String())
	}
	var lines []trLine
	sc := bufio.NewScanner(&stdout)
	sc.Buffer(make([]byte, 1<<20), 1<<26)
	for sc.Scan() {
		var l trLine
		if err := json.Unmarshal(sc.Bytes(), &l); err != nil {
			return nil, err
		}
		lines = append(lines, l)
	}
	c20cache[key] = lines
	return lines, nil
}

func c20Run(c Case) (Result, error) {
	var in c20In
	if err := json.Unmarshal(c.Input, &in); err != nil {
		return Result{}, err
	}
	def, err := c20Transcript("default", in.Seed, in.N)
	if err != nil {
		return Result{}, err
	}
	mine, err := c20Transcript(in.Config, in.Seed, in.N)
	if err != nil {
		return Result{}, err
	}
	// align: the no-cgo transcript lacks the BLS lines
	defByKey := map[string][]string{}
	for _, l := range def {
		k := l.Op + "|" + l.In
		defByKey[k] = append(defByKey[k], l.Out)
	}
	var items []string
	diffs := 0
	missing := 0
	for _, l := range mine {
		k := l.Op + "|" + l.In
		d := "<missing>"
		if q := defByKey[k]; len(q) > 0 {
			d = q[0]
			defByKey[k] = q[1:]
		} else {
			missing++
		}
		if d != l.Out {
			diffs++
		}
		op := l.Op
		if strings.HasPrefix(op, "dkg_msg") {
			op = "dkg_msg"
		}
		items = append(items, fmt.Sprintf("(%s, %s, %s, %s)", cqs(op), cqs(l.In), cqs(l.Out), cqs(d)))
	}
	expectLines := len(def)
	if in.Config == "nocgo" {
		expectLines = 0
		for _, l := range def {
			if !strings.HasPrefix(l.Op, "bls_") && !strings.HasPrefix(l.Op, "dkg_") && !strings.HasPrefix(l.Op, "edge_") {
				expectLines++
			}
		}
	}
	term := fmt.Sprintf("BuildCase %s %d%%nat %s", cqs(in.Config), expectLines, cqlist(items))
	return Result{Coq: term, Key: in.Config, Nontrivial: len(mine) > 0,
		Obs: map[string]any{"lines": len(mine), "differences_from_default": diffs, "missing_in_default": missing}}, nil
}
