package main

import (
	"bytes"
	"encoding/json"
	"fmt"
	"math/big"
	"math/rand/v2"
	"strconv"
	"strings"

	"github.com/onflow/crypto"
	"github.com/onflow/crypto/hash"
)

// C11 case.
//   op "verify": a fresh signature sk.Sign(msg, signing hasher) is mutated as described by Mut and
//     verified with pk.Verify(sig', msg', hasher); Sign is randomized, so the case records the
//     derivation, not the signature bytes.
//   op "signguard": sk.Sign(msg, hasher) with a nil or short hasher.
//   op "decpub": DecodePublicKey / DecodePublicKeyCompressed on In.
type c11In struct {
	Op     string `json:"op"`
	Curve  string `json:"curve"`            // p256 | k1
	SK     string `json:"sk,omitempty"`     // 32-byte private key
	Msg    string `json:"msg,omitempty"`    // hex message
	Hasher string `json:"hasher,omitempty"` // sha2_256 sha3_256 sha2_384 sha3_384 keccak_256 kmac128_<n> nil
	Mut    string `json:"mut,omitempty"`    // none twin flip:<bit> swap setr:<hex> sets:<hex> len:<n> othermsg otherkey othercurve
	Comp   bool   `json:"comp,omitempty"`
	In     string `json:"in,omitempty"`
	// where the key objects come from: "" = DecodePrivateKey(SK) and its PublicKey(); "pk-decoded-raw" /
	// "pk-decoded-comp" = that public key encoded and decoded again; "sk-generated" = GeneratePrivateKey(seed SK)
	Route string `json:"route,omitempty"`
}

func init() {
	register(&Prop{
		ID:        "C11",
		Header:    "From Coq Require Import ZArith NArith List String.\nFrom V Require Import Lib.Hex Corr.C11Corr.\nImport ListNotations.\nOpen Scope string_scope.\n",
		Check:     "bad_ids",
		PropCheck: "prop_bad_ids",
		Gen:       c11Gen,
		Run:       c11Run,
		Rule:      "both curves x {SHA2-256, SHA3-256, SHA2-384, SHA3-384, Keccak-256, KMAC128/32, KMAC128/64}: signatures from Sign, the (r,n-s) twin, single-bit flips, r/s swapped, r or s in {0,n,n+1,2^256-1}, lengths 0..130, other message/key/curve, nil and short hashers; public-key decoders on crafted strings (all 256 prefix bytes, x >= p, off-curve, all-zero, lengths); key objects from every constructor and then used (public key decoded from its raw / compressed encoding, private key from GeneratePrivateKey); private keys 1, 2, 3, n-1, n-2, 2^128, 2^255 and keys with 1-3 leading zero bytes; signed with one hasher and verified with another; crafted signatures for which u1*G + u2*Q is the point at infinity (rejected) or a doubling (valid); lengths that are 64 only modulo 256 / 2^16 and a nil signature; empty messages; hashers of 33, 100 and 200 bytes, fixed-output hashers of 31 and 0 bytes; digests of chosen shape through Sign; every Verify is called twice (same answer, arguments unmodified) and SignatureFormatCheck is called with the unsupported algorithms (documented invalid-input error); non-trivial if the implementation returned a verdict or an error; distinct by case description; hashers handed to Sign / Verify hold written bytes or a finished computation in every other case; zero bytes inserted before r, between r and s, around both, after s; decoder inputs overwritten after decoding",
		Shard:     c11Shard,
	})
}

var c11Orders = map[string]string{
	"p256": "ffffffff00000000ffffffffffffffffbce6faada7179e84f3b9cac2fc632551",
	"k1":   "fffffffffffffffffffffffffffffffebaaedce6af48a03bbfd25e8cd0364141",
}
var c11Primes = map[string]string{
	"p256": "ffffffff00000001000000000000000000000000ffffffffffffffffffffffff",
	"k1":   "fffffffffffffffffffffffffffffffffffffffffffffffffffffffefffffc2f",
}

func c11Algo(c string) crypto.SigningAlgorithm {
	if c == "p256" {
		return crypto.ECDSAP256
	}
	return crypto.ECDSASecp256k1
}

func c11Hasher(name string) (hash.Hasher, error) {
	switch name {
	case "nil":
		return nil, nil
	case "sha2_256":
		return hash.NewSHA2_256(), nil
	case "sha3_256":
		return hash.NewSHA3_256(), nil
	case "sha2_384":
		return hash.NewSHA2_384(), nil
	case "sha3_384":
		return hash.NewSHA3_384(), nil
	case "keccak_256":
		return hash.NewKeccak_256(), nil
	}
	if strings.HasPrefix(name, "fixed:") {
		return &c11Fixed{unhx(name[len("fixed:"):])}, nil
	}
	if strings.HasPrefix(name, "kmac128_") {
		n, err := strconv.Atoi(name[len("kmac128_"):])
		if err != nil {
			return nil, err
		}
		return hash.NewKMAC_128([]byte("0123456789abcdef-key"), []byte("C11"), n)
	}
	return nil, fmt.Errorf("unknown hasher %q", name)
}

// fixed-output hasher (the library only requires Size() >= 32)
type c11Fixed struct{ o []byte }

func (f *c11Fixed) Algorithm() hash.HashingAlgorithm { return hash.UnknownHashingAlgorithm }
func (f *c11Fixed) Size() int                         { return len(f.o) }
func (f *c11Fixed) ComputeHash([]byte) hash.Hash      { return append([]byte{}, f.o...) }
func (f *c11Fixed) Write(b []byte) (int, error)       { return len(b), nil }
func (f *c11Fixed) SumHash() hash.Hash                { return append([]byte{}, f.o...) }
func (f *c11Fixed) Reset()                            {}

func c11ErrClass(err error) uint64 {
	switch {
	case err == nil:
		return 0
	case crypto.IsNilHasherError(err):
		return 3
	case crypto.IsInvalidHasherSizeError(err):
		return 4
	case crypto.IsInvalidInputsError(err):
		return 1
	}
	return 9
}

func c11Scalar(r *rand.Rand, curve string) []byte {
	n, _ := new(big.Int).SetString(c11Orders[curve], 16)
	for {
		d := new(big.Int).SetBytes(rbytes(r, 32))
		if d.Sign() > 0 && d.Cmp(n) < 0 {
			return d.FillBytes(make([]byte, 32))
		}
	}
}

func c11Gen(tier string, r *rand.Rand) []Case {
	var cs []Case
	thorough := tier == "thorough"
	curves := []string{"p256", "k1"}
	hashers := []string{"sha2_256", "sha3_256", "sha2_384", "sha3_384", "keccak_256", "kmac128_32", "kmac128_64"}
	v := func(kind, curve, hasher, mut string, msgLen int) {
		cs = append(cs, mkcase(kind, c11In{Op: "verify", Curve: curve, SK: hx(c11Scalar(r, curve)), Msg: hx(rbytes(r, msgLen)), Hasher: hasher, Mut: mut}))
	}
	for ci, c := range curves {
		n, _ := new(big.Int).SetString(c11Orders[c], 16)
		// signatures from Sign must verify: every hasher
		for _, h := range hashers {
			v("sign-verify", c, h, "none", r.IntN(100))
			if thorough {
				for i := 0; i < 6; i++ {
					v("sign-verify", c, h, "none", r.IntN(300))
				}
			}
		}
		// twin (r, n-s)
		for i, h := range hashers {
			if thorough || i%4 == ci {
				v("twin", c, h, "twin", r.IntN(64))
			}
		}
		// other message / key / curve, r and s swapped
		v("other-message", c, "sha2_256", "othermsg", 20)
		v("other-key", c, "sha3_256", "otherkey", 20)
		v("other-curve", c, "sha2_256", "othercurve", 20)
		v("swap", c, "sha3_256", "swap", 20)
		if thorough {
			for _, h := range hashers {
				v("other-message", c, h, "othermsg", r.IntN(100))
				v("other-key", c, h, "otherkey", r.IntN(100))
				v("other-curve", c, h, "othercurve", r.IntN(100))
				v("swap", c, h, "swap", r.IntN(100))
			}
		}
		// single-bit flips of the 64-byte signature
		if thorough {
			// all 512 positions, dealt alternately to the two curves (plus 32 extra per curve)
			for bit := 0; bit < 512; bit++ {
				if bit%2 == ci || bit%16 == 3 {
					v("bit-flip", c, hashers[bit%len(hashers)], fmt.Sprintf("flip:%d", bit), 32)
				}
			}
		} else {
			for _, bit := range []int{0, 255, 256, 511, r.IntN(512)} {
				v("bit-flip", c, hashers[bit%len(hashers)], fmt.Sprintf("flip:%d", bit), 32)
			}
		}
		// r or s in {0, n, n+1, 2^256-1} (and 1, n-1: in range, wrong)
		max := new(big.Int).Sub(new(big.Int).Lsh(big.NewInt(1), 256), big.NewInt(1))
		vals := []*big.Int{big.NewInt(0), n, new(big.Int).Add(n, big.NewInt(1)), max}
		for _, x := range vals {
			xs := hx(x.FillBytes(make([]byte, 32)))
			v("scalar-out-of-range", c, "sha2_256", "setr:"+xs, 16)
			v("scalar-out-of-range", c, "sha3_256", "sets:"+xs, 16)
		}
		v("scalar-edge-in-range", c, "sha2_256", "setr:"+hx(big.NewInt(1).FillBytes(make([]byte, 32))), 16)
		v("scalar-edge-in-range", c, "sha2_256", "sets:"+hx(new(big.Int).Sub(n, big.NewInt(1)).FillBytes(make([]byte, 32))), 16)
		// valid signatures with s at the ends of its range (and mid-range), digest solved for
		for _, sv := range []string{"1", "nm1", "2", hx(c11Scalar(r, c))} {
			v("crafted-valid", c, "sha2_256", "craft:"+hx(c11Scalar(r, c))+":"+sv, 8)
		}
		v("crafted-valid", c, "sha2_256", "craft:"+hx(c11Scalar(r, c))+":nm1:"+hx(rbytes(r, 16)), 8)
		for _, sv := range []string{"1", "2", hx(append(make([]byte, 20), rbytes(r, 12)...))} {
			v("crafted-s-plus-n", c, "sha2_256", "craftplusn:"+hx(c11Scalar(r, c))+":"+sv, 8)
		}
		// every other length 0..130
		for l := 0; l <= 130; l++ {
			if l == 64 {
				continue
			}
			v("length", c, "sha2_256", fmt.Sprintf("len:%d", l), 8)
		}
		for _, where := range []string{"front", "mid", "both", "end"} {
			for _, k := range []int{1, 2, 32, 64} {
				v("padded", c, "sha2_256", fmt.Sprintf("pad:%s:%d", where, k), 8)
			}
		}
		// Sign then Verify with digests of special shapes (fixed-output hashers): leading zero bytes,
		// all zero, all 0xff, longer than 32 bytes with a zero first byte (only the leftmost 32 bytes count)
		for _, dg := range [][]byte{
			append([]byte{0}, rbytes(r, 31)...), append([]byte{0, 0, 0}, rbytes(r, 29)...),
			append([]byte{0}, rbytes(r, 47)...), append([]byte{0, 0}, rbytes(r, 62)...),
			make([]byte, 32), make([]byte, 48), bytes.Repeat([]byte{0xff}, 32), bytes.Repeat([]byte{0xff}, 64),
			append(rbytes(r, 32), 0, 0, 0, 0),
		} {
			v("sign-verify-digest-shape", c, "fixed:"+hx(dg), "none", 8)
		}
		// the hasher is judged first, whatever the signature looks like: wrong-length signatures with
		// refused hashers
		for _, h := range []string{"nil", "kmac128_31", "kmac128_1"} {
			for _, l := range []int{0, 1, 32, 63, 65, 128} {
				v("length-and-hasher-guard", c, h, fmt.Sprintf("len:%d", l), 8)
			}
		}
		// hasher guards on Verify and Sign
		for _, h := range []string{"nil", "kmac128_16", "kmac128_31", "kmac128_1"} {
			v("hasher-guard", c, h, "none", 8)
			cs = append(cs, mkcase("sign-guard", c11In{Op: "signguard", Curve: c, SK: hx(c11Scalar(r, c)), Msg: hx(rbytes(r, 8)), Hasher: h}))
		}
	}
	for _, c := range curves {
		n, _ := new(big.Int).SetString(c11Orders[c], 16)
		b32 := func(x *big.Int) string { return hx(x.FillBytes(make([]byte, 32))) }
		vk := func(kind, sk, hasher, mut, route string, msgLen int) {
			cs = append(cs, mkcase(kind, c11In{Op: "verify", Curve: c, SK: sk, Msg: hx(rbytes(r, msgLen)), Hasher: hasher, Mut: mut, Route: route}))
		}
		// key objects from every constructor, then used: decoded (raw, compressed) public keys, generated private keys
		for _, route := range []string{"pk-decoded-raw", "pk-decoded-comp", "sk-generated"} {
			vk("key-route", hx(c11Scalar(r, c)), "sha2_256", "none", route, 12)
			vk("key-route", hx(c11Scalar(r, c)), "sha3_384", fmt.Sprintf("flip:%d", r.IntN(512)), route, 12)
			vk("key-route", hx(c11Scalar(r, c)), "keccak_256", "twin", route, 12)
		}
		// all private keys in [1, n-1]: the ends of the range, small keys, leading zero bytes
		edge := []*big.Int{big.NewInt(1), big.NewInt(2), big.NewInt(3), new(big.Int).Sub(n, big.NewInt(1)), new(big.Int).Sub(n, big.NewInt(2)),
			new(big.Int).Lsh(big.NewInt(1), 128), new(big.Int).Lsh(big.NewInt(1), 255)}
		for z := 1; z <= 3; z++ {
			b := rbytes(r, 32)
			for j := 0; j < z; j++ {
				b[j] = 0
			}
			edge = append(edge, new(big.Int).SetBytes(b))
		}
		for i, d := range edge {
			vk("edge-key", b32(d), hashers[i%len(hashers)], "none", "", 9)
		}
		vk("edge-key", b32(big.NewInt(1)), "sha2_256", "twin", "", 9)
		vk("edge-key", b32(new(big.Int).Sub(n, big.NewInt(1))), "sha3_256", "otherkey", "", 9)
		// the hasher is an argument of each call: signed with one, verified with another
		vk("other-hasher", hx(c11Scalar(r, c)), "sha2_256", "otherhasher:sha3_256", "", 20)
		vk("other-hasher", hx(c11Scalar(r, c)), "sha2_384", "otherhasher:sha2_256", "", 20)
		vk("other-hasher", hx(c11Scalar(r, c)), "kmac128_64", "otherhasher:kmac128_32", "", 20)
		// algebraic coincidences inside the verification equation u1*G + u2*Q: the sum is the point at
		// infinity (must be rejected) or a doubling (a valid signature), digest solved for
		for i := 0; i < 2; i++ {
			vk("crafted-infinity", hx(c11Scalar(r, c)), "sha2_256", "craft:"+hx(c11Scalar(r, c))+":inf:"+hx(c11Scalar(r, c)), "", 8)
			vk("crafted-doubling", hx(c11Scalar(r, c)), "sha2_256", "craft:"+hx(c11Scalar(r, c))+":dbl", "", 8)
		}
		vk("crafted-doubling", b32(big.NewInt(1)), "sha2_256", "craft:"+hx(c11Scalar(r, c))+":dbl", "", 8)
		// lengths that are 64 only modulo 256 / 2^16 (a genuine signature followed by more bytes), nil signature
		for _, l := range []int{64 + 256, 64 + 512, 128 + 256} { // (64 + 2^16 and 64 + 2^32 mod 2^16: judged by the runner, see "len:")
			vk("length-wide", hx(c11Scalar(r, c)), "sha2_256", fmt.Sprintf("len:%d", l), "", 8)
		}
		vk("length-wide", hx(c11Scalar(r, c)), "sha2_256", "nilsig", "", 8)
		vk("length-wide", hx(c11Scalar(r, c)), "nil", "nilsig", "", 8)
		// empty message
		vk("empty-message", hx(c11Scalar(r, c)), "sha2_256", "none", "", 0)
		vk("empty-message", hx(c11Scalar(r, c)), "kmac128_32", "othermsg", "", 0)
		// hasher sizes around the required 32 bytes (and far above), fixed-output hashers of 31 / 0 bytes
		for _, h := range []string{"kmac128_33", "kmac128_200", "fixed:" + hx(rbytes(r, 33)), "fixed:" + hx(rbytes(r, 100))} {
			vk("hasher-size", hx(c11Scalar(r, c)), h, "none", "", 8)
			vk("hasher-size", hx(c11Scalar(r, c)), h, "flip:300", "", 8)
		}
		for _, h := range []string{"fixed:" + hx(rbytes(r, 31)), "fixed:", "kmac128_30"} {
			vk("hasher-guard", hx(c11Scalar(r, c)), h, "none", "", 8)
			cs = append(cs, mkcase("sign-guard", c11In{Op: "signguard", Curve: c, SK: hx(c11Scalar(r, c)), Msg: hx(rbytes(r, 8)), Hasher: h}))
		}
	}
	cs = append(cs, c11GenDecoders(tier, r)...)
	// the full verifications are contiguous in generation order: deal the cases round-robin
	// over the shards so that every Coq file gets its share of them
	nsh := (len(cs) + c11Shard - 1) / c11Shard
	buckets := make([][]Case, nsh)
	for i, c := range cs {
		buckets[i%nsh] = append(buckets[i%nsh], c)
	}
	var out []Case
	for _, b := range buckets {
		out = append(out, b...)
	}
	return out
}

const c11Shard = 70

// public-key decoder cases
func c11GenDecoders(tier string, r *rand.Rand) []Case {
	var cs []Case
	add := func(kind, curve string, comp bool, in []byte) {
		cs = append(cs, mkcase(kind, c11In{Op: "decpub", Curve: curve, Comp: comp, In: hx(in)}))
	}
	for _, c := range []string{"p256", "k1"} {
		alg := c11Algo(c)
		p, _ := new(big.Int).SetString(c11Primes[c], 16)
		max := new(big.Int).Sub(new(big.Int).Lsh(big.NewInt(1), 256), big.NewInt(1))
		nkeys := 3
		if tier == "thorough" {
			nkeys = 12
		}
		var raw, comp []byte
		for i := 0; i < nkeys; i++ {
			sk, err := crypto.DecodePrivateKey(alg, c11Scalar(r, c))
			if err != nil {
				panic(err)
			}
			raw = sk.PublicKey().Encode()
			comp = sk.PublicKey().EncodeCompressed()
			add("decode-valid", c, false, raw)
			add("decode-valid", c, true, comp)
			// the other root: same x, opposite prefix
			alt := append([]byte{}, comp...)
			alt[0] ^= 1
			add("decode-valid", c, true, alt)
			// off-curve neighbours
			b := append([]byte{}, raw...)
			b[63] ^= 1
			add("decode-off-curve", c, false, b)
			b = append([]byte{}, raw...)
			b[31] ^= 1
			add("decode-off-curve", c, false, b)
			// negated y is on the curve
			y := new(big.Int).SetBytes(raw[32:])
			ny := new(big.Int).Sub(p, y)
			add("decode-valid", c, false, append(append([]byte{}, raw[:32]...), ny.FillBytes(make([]byte, 32))...))
		}
		// all 256 prefix bytes on a valid x
		for pre := 0; pre < 256; pre++ {
			b := append([]byte{}, comp...)
			b[0] = byte(pre)
			add("decode-prefix", c, true, b)
		}
		// small x: on the curve or not (non-residue), and the non-canonical x + p
		found := 0
		for x := int64(0); x < 40; x++ {
			xb := big.NewInt(x).FillBytes(make([]byte, 32))
			add("decode-small-x", c, true, append([]byte{2}, xb...))
			pk, err := crypto.DecodePublicKeyCompressed(alg, append([]byte{3}, xb...))
			xp := new(big.Int).Add(big.NewInt(x), p).FillBytes(make([]byte, 32))
			add("decode-x-ge-p", c, true, append([]byte{2}, xp...))
			if err == nil && found < 6 {
				found++
				enc := pk.Encode()
				add("decode-valid", c, false, enc)
				add("decode-x-ge-p", c, false, append(append([]byte{}, xp...), enc[32:]...))
				// y + p when it fits in 32 bytes
				yp := new(big.Int).Add(new(big.Int).SetBytes(enc[32:]), p)
				if yp.Cmp(max) <= 0 {
					add("decode-y-ge-p", c, false, append(append([]byte{}, enc[:32]...), yp.FillBytes(make([]byte, 32))...))
				}
			}
		}
		for _, x := range []*big.Int{p, new(big.Int).Add(p, big.NewInt(1)), max} {
			xb := x.FillBytes(make([]byte, 32))
			add("decode-x-ge-p", c, true, append([]byte{2}, xb...))
			add("decode-x-ge-p", c, true, append([]byte{3}, xb...))
			add("decode-x-ge-p", c, false, append(append([]byte{}, xb...), raw[32:]...))
			add("decode-y-ge-p", c, false, append(append([]byte{}, raw[:32]...), xb...))
		}
		// infinity / all-zero, all-ff, random
		add("decode-zero", c, false, make([]byte, 64))
		add("decode-zero", c, true, make([]byte, 33))
		add("decode-zero", c, true, append([]byte{2}, make([]byte, 32)...))
		add("decode-random", c, false, rbytes(r, 64))
		ff := make([]byte, 64)
		for i := range ff {
			ff[i] = 0xff
		}
		add("decode-random", c, false, ff)
		// lengths
		for l := 0; l <= 70; l++ {
			if l != 64 {
				b := append(append([]byte{}, raw...), rbytes(r, 8)...)[:l]
				add("decode-length", c, false, b)
			}
			if l != 33 && l <= 40 {
				b := append(append([]byte{}, comp...), rbytes(r, 8)...)[:l]
				add("decode-length", c, true, b)
			}
		}
		add("decode-length", c, false, append([]byte{4}, raw...))
		add("decode-length", c, true, append([]byte{4}, raw...))
	}
	return cs
}

func c11Run(c Case) (Result, error) {
	var in c11In
	if err := json.Unmarshal(c.Input, &in); err != nil {
		return Result{}, err
	}
	cid := map[string]string{"p256": "P", "k1": "K"}[in.Curve]
	alg := c11Algo(in.Curve)
	switch in.Op {
	case "decpub":
		var pk crypto.PublicKey
		var err error
		inp := unhx(in.In)
		panicked, pmsg := catch(func() {
			if in.Comp {
				pk, err = crypto.DecodePublicKeyCompressed(alg, inp)
			} else {
				pk, err = crypto.DecodePublicKey(alg, inp)
			}
		})
		if panicked {
			return Result{}, implViolation("decoder panic: %s", pmsg)
		}
		// decoded objects are values: the caller's buffer is overwritten before the object is used
		for i := range inp {
			inp[i] ^= 0xff
		}
		ok := err == nil
		enc, encc := "", ""
		if ok {
			enc, encc = hx(pk.Encode()), hx(pk.EncodeCompressed())
		}
		invalid := err != nil && crypto.IsInvalidInputsError(err)
		term := fmt.Sprintf("CDecPub %s %s %s %s %s %s %s", cid, cqbool(in.Comp), cqs(in.In), cqbool(ok), cqbool(invalid), cqs(enc), cqs(encc))
		return Result{Coq: term, Key: string(c.Input), Nontrivial: true,
			Obs: map[string]any{"ok": ok, "invalid_input_error": invalid, "encode": enc, "encode_compressed": encc}}, nil
	case "signguard":
		sk, err := crypto.DecodePrivateKey(alg, unhx(in.SK))
		if err != nil {
			return Result{}, err
		}
		h, err := c11Hasher(in.Hasher)
		if err != nil {
			return Result{}, err
		}
		var serr error
		var sig crypto.Signature
		panicked, pmsg := catch(func() { sig, serr = sk.Sign(unhx(in.Msg), h) })
		if panicked {
			return Result{}, implViolation("Sign panic: %s", pmsg)
		}
		size, nilh := 0, h == nil
		if h != nil {
			size = h.Size()
		}
		if serr == nil {
			return Result{}, implViolation("Sign accepted hasher %s (signature %x)", in.Hasher, []byte(sig))
		}
		term := fmt.Sprintf("CSignGuard %s %s %s %s", cid, cqnat(size), cqbool(nilh), cqN(c11ErrClass(serr)))
		return Result{Coq: term, Key: string(c.Input), Nontrivial: true, Obs: map[string]any{"error_class": c11ErrClass(serr), "error": serr.Error()}}, nil
	case "verify":
		var sk crypto.PrivateKey
		var err error
		if in.Route == "sk-generated" {
			sk, err = crypto.GeneratePrivateKey(alg, unhx(in.SK))
			if err == nil {
				in.SK = hx(sk.Encode())
			}
		} else {
			sk, err = crypto.DecodePrivateKey(alg, unhx(in.SK))
		}
		if err != nil {
			return Result{}, err
		}
		h, err := c11Hasher(in.Hasher)
		if err != nil {
			return Result{}, err
		}
		msg := unhx(in.Msg)
		// sign with the hasher under test, or with SHA2-256 when that hasher is refused
		signH := h
		if h == nil || h.Size() < 32 {
			signH = hash.NewSHA2_256()
		}
		// the caller's hasher is not fresh in every other case: bytes written earlier (and a ComputeHash on it)
		// must not reach the digest that is signed or verified
		dirty := func(hh hash.Hasher) {
			if hh != nil && (len(msg)+len(in.Mut))%2 == 1 {
				if len(msg)%3 == 0 {
					_ = hh.ComputeHash([]byte("x")) // a finished computation left in the object
				} else {
					_, _ = hh.Write([]byte("left over from an earlier use"))
				}
			}
		}
		dirty(signH)
		sig, err := sk.Sign(msg, signH)
		if err != nil {
			return Result{}, implViolation("Sign failed: %v", err)
		}
		n, _ := new(big.Int).SetString(c11Orders[in.Curve], 16)
		pk := sk.PublicKey()
		switch in.Route {
		case "pk-decoded-raw":
			pk, err = crypto.DecodePublicKey(alg, pk.Encode())
		case "pk-decoded-comp":
			pk, err = crypto.DecodePublicKeyCompressed(alg, pk.EncodeCompressed())
		}
		if err != nil {
			return Result{}, implViolation("re-decoding the public key of %s failed: %v", in.SK, err)
		}
		expect := 0
		vmsg := msg
		switch {
		case in.Mut == "nilsig":
			sig = nil
		case strings.HasPrefix(in.Mut, "otherhasher:"):
			if h, err = c11Hasher(in.Mut[len("otherhasher:"):]); err != nil {
				return Result{}, err
			}
		case in.Mut == "none":
			expect = 1
		case in.Mut == "twin":
			s := new(big.Int).SetBytes(sig[32:])
			s.Sub(n, s)
			sig = append(append([]byte{}, sig[:32]...), s.FillBytes(make([]byte, 32))...)
			expect = 1
		case strings.HasPrefix(in.Mut, "flip:"):
			bit, _ := strconv.Atoi(in.Mut[5:])
			sig = append([]byte{}, sig...)
			sig[bit/8] ^= 1 << (7 - bit%8)
		case in.Mut == "swap":
			sig = append(append([]byte{}, sig[32:]...), sig[:32]...)
		case strings.HasPrefix(in.Mut, "setr:"):
			sig = append(unhx(in.Mut[5:]), sig[32:]...)
		case strings.HasPrefix(in.Mut, "sets:"):
			sig = append(append([]byte{}, sig[:32]...), unhx(in.Mut[5:])...)
		case strings.HasPrefix(in.Mut, "len:"):
			l, _ := strconv.Atoi(in.Mut[4:])
			ext := append(append([]byte{}, sig...), sig...)
			for len(ext) < l {
				ext = append(ext, sig...)
			}
			sig = ext[:l]
			if l > 64 && l%256 == 64 {
				// the same with 64 + 2^16 bytes (too long for a Coq literal): the contract is (false, nil) / false
				wide := append(append([]byte{}, sig[:64]...), make([]byte, 65536)...)
				hw := h
				if hw == nil || hw.Size() < 32 {
					hw = hash.NewSHA2_256()
				}
				if v, e := pk.Verify(wide, msg, hw); v || e != nil {
					return Result{}, implViolation("Verify of a %d-byte signature (a genuine one followed by zeros) returned (%v, %v)", len(wide), v, e)
				}
				if v, e := crypto.SignatureFormatCheck(alg, wide); v || e != nil {
					return Result{}, implViolation("SignatureFormatCheck of a %d-byte signature returned (%v, %v)", len(wide), v, e)
				}
			}
		case strings.HasPrefix(in.Mut, "pad:"):
			// zero bytes inserted before r, between r and s, or after s: the integers r and s a lenient parser
			// reads may be unchanged, the string is not 64 bytes
			parts := strings.Split(in.Mut, ":")
			k, _ := strconv.Atoi(parts[2])
			z := make([]byte, k)
			switch parts[1] {
			case "front":
				sig = append(z, sig...)
			case "mid":
				sig = append(append(append([]byte{}, sig[:32]...), z...), sig[32:]...)
			case "both":
				sig = append(append(append(append([]byte{}, z...), sig[:32]...), z...), sig[32:]...)
			default:
				sig = append(append([]byte{}, sig...), z...)
			}
		case strings.HasPrefix(in.Mut, "craft:"), strings.HasPrefix(in.Mut, "craftplusn:"):
			// a VALID signature with a chosen s (1, n-1, ...): pick the nonce k, take r from k*G
			// (the public key of k), and solve the ECDSA equation for the digest e = s*k - r*d mod n,
			// which a fixed-output hasher then returns (any hasher of >= 32 bytes is admissible)
			parts := strings.Split(in.Mut, ":")
			kb := unhx(parts[1])
			ksk, err := crypto.DecodePrivateKey(alg, kb)
			if err != nil {
				return Result{}, err
			}
			rr := new(big.Int).SetBytes(ksk.PublicKey().Encode()[:32])
			rr.Mod(rr, n)
			var sv *big.Int
			dd := new(big.Int).SetBytes(unhx(in.SK))
			if parts[2] == "inf" || parts[2] == "dbl" {
				var e *big.Int
				if parts[2] == "inf" {
					// u1*G + u2*Q = ((e + r*d)/s)*G is the point at infinity: e = -r*d, any s
					sv = new(big.Int).SetBytes(unhx(parts[3]))
					e = new(big.Int).Mul(rr, dd)
					e.Neg(e).Mod(e, n)
				} else {
					// u1*G = u2*Q = (k/2)*G, so the sum k*G is computed by a doubling: s = 2*d*r/k, e = d*r
					sv = new(big.Int).Mul(big.NewInt(2), dd)
					sv.Mul(sv, rr).Mul(sv, new(big.Int).ModInverse(new(big.Int).SetBytes(kb), n)).Mod(sv, n)
					e = new(big.Int).Mul(rr, dd)
					e.Mod(e, n)
					expect = 1
				}
				h = &c11Fixed{e.FillBytes(make([]byte, 32))}
				sig = append(rr.FillBytes(make([]byte, 32)), sv.FillBytes(make([]byte, 32))...)
				if rr.Sign() == 0 || sv.Sign() == 0 {
					expect = 0
				}
				break
			}
			switch parts[2] {
			case "1":
				sv = big.NewInt(1)
			case "nm1":
				sv = new(big.Int).Sub(n, big.NewInt(1))
			case "2":
				sv = big.NewInt(2)
			default:
				sv = new(big.Int).SetBytes(unhx(parts[2]))
			}
			d := new(big.Int).SetBytes(unhx(in.SK))
			e := new(big.Int).Mul(sv, new(big.Int).SetBytes(kb))
			e.Sub(e, new(big.Int).Mul(rr, d))
			e.Mod(e, n)
			out := e.FillBytes(make([]byte, 32))
			if len(parts) > 3 { // longer digest: only the leftmost 32 bytes count
				out = append(out, unhx(parts[3])...)
			}
			h = &c11Fixed{out}
			sig = append(rr.FillBytes(make([]byte, 32)), sv.FillBytes(make([]byte, 32))...)
			expect = 1
			if rr.Sign() == 0 {
				expect = 0
			}
			if strings.HasPrefix(in.Mut, "craftplusn:") {
				// the same valid signature with n added to s (fits in 32 bytes because s is small):
				// congruent mod n, out of range as an integer
				sn := new(big.Int).Add(sv, n)
				if sn.BitLen() <= 256 {
					sig = append(rr.FillBytes(make([]byte, 32)), sn.FillBytes(make([]byte, 32))...)
					expect = 0
				}
			}
		case in.Mut == "othermsg":
			vmsg = append(append([]byte{}, msg...), 0x01)
		case in.Mut == "otherkey":
			d := new(big.Int).SetBytes(unhx(in.SK))
			d.Add(d, big.NewInt(1))
			if d.Cmp(n) >= 0 {
				d.SetInt64(1)
			}
			sk2, err := crypto.DecodePrivateKey(alg, d.FillBytes(make([]byte, 32)))
			if err != nil {
				return Result{}, err
			}
			pk = sk2.PublicKey()
		case in.Mut == "othercurve":
			oc := "k1"
			if in.Curve == "k1" {
				oc = "p256"
			}
			n2, _ := new(big.Int).SetString(c11Orders[oc], 16)
			d := new(big.Int).SetBytes(unhx(in.SK))
			d.Mod(d, new(big.Int).Sub(n2, big.NewInt(1)))
			d.Add(d, big.NewInt(1))
			sk2, err := crypto.DecodePrivateKey(c11Algo(oc), d.FillBytes(make([]byte, 32)))
			if err != nil {
				return Result{}, err
			}
			pk = sk2.PublicKey()
			cid = map[string]string{"p256": "P", "k1": "K"}[oc]
			alg = c11Algo(oc)
		default:
			return Result{}, fmt.Errorf("unknown mutation %q", in.Mut)
		}
		if in.Hasher == "nil" || (h != nil && h.Size() < 32) {
			expect = 2
		}
		var ok, ok2 bool
		var verr, verr2 error
		sig0, vmsg0 := append([]byte{}, sig...), append([]byte{}, vmsg...)
		panicked, pmsg := catch(func() {
			dirty(h)
			ok, verr = pk.Verify(sig, vmsg, h)
			dirty(h)
			ok2, verr2 = pk.Verify(sig, vmsg, h)
		})
		if panicked {
			return Result{}, implViolation("Verify panic: %s", pmsg)
		}
		if ok != ok2 || c11ErrClass(verr) != c11ErrClass(verr2) {
			return Result{}, implViolation("Verify is not a function of its arguments: (%v, %v) then (%v, %v) for signature %x", ok, verr, ok2, verr2, sig)
		}
		if !bytes.Equal(sig, sig0) || !bytes.Equal(vmsg, vmsg0) {
			return Result{}, implViolation("Verify modified its arguments (signature %x)", sig0)
		}
		fmtOK, ferr := crypto.SignatureFormatCheck(alg, sig)
		if ferr != nil {
			return Result{}, ferr
		}
		// the format check is only defined for the ECDSA algorithms: documented error for the others
		for _, other := range []crypto.SigningAlgorithm{crypto.BLSBLS12381, crypto.UnknownSigningAlgorithm, crypto.SigningAlgorithm(200)} {
			if v, e := crypto.SignatureFormatCheck(other, sig); v || !crypto.IsInvalidInputsError(e) {
				return Result{}, implViolation("SignatureFormatCheck(%v) returned (%v, %v), documented: (false, invalid-input error)", other, v, e)
			}
		}
		size, nilh, digest := 0, h == nil, ""
		if h != nil {
			size = h.Size()
			digest = hx(h.ComputeHash(vmsg))
		}
		term := fmt.Sprintf("CVerify %s %s %s %s %s %s %s %s %s %s", cid, cqs(hx(pk.Encode())), cqs(hx(sig)), cqs(digest),
			cqnat(size), cqbool(nilh), cqbool(ok), cqN(c11ErrClass(verr)), cqbool(fmtOK), cqN(uint64(expect)))
		errs := ""
		if verr != nil {
			errs = verr.Error()
		}
		return Result{Coq: term, Key: string(c.Input), Nontrivial: true,
			Obs: map[string]any{"pk": hx(pk.Encode()), "sig": hx(sig), "digest": digest, "hasher_size": size, "verify": ok, "error": errs, "format_check": fmtOK, "property_demands": expect}}, nil
	}
	return Result{}, fmt.Errorf("unknown op %q", in.Op)
}
