package main

import (
	"bytes"
	"encoding/json"
	"fmt"
	"math/big"
	"math/rand/v2"
	"sort"

	"github.com/onflow/crypto"
	"github.com/onflow/crypto/hash"
)

type c04In struct {
	Scalars []string `json:"scalars"`
	Points  []string `json:"points"` // kinds of extra E1 points to aggregate: "g1", "torsion", "random", "inf", "neg-prev"
	Tag     string   `json:"tag"`
	Msg     string   `json:"msg"`
	Salt    uint64   `json:"salt"`
	// a scalar 00..00 stands for the ZERO private key (only obtainable as AggregateBLSPrivateKeys of x and -x),
	// whose public key is the identity key and whose signature is the identity signature
	// PkRoutes: the public key objects are taken from every constructor in turn (decoded, aggregated, removed, ...;
	// identity keys: constant, decoded, aggregated, removed, PublicKey() of the zero private key)
	PkRoutes bool `json:"pk_routes,omitempty"`
	// Out: fixed-output hasher (e.g. an output whose curve image is the point at infinity: every signature
	// is then the identity signature)
	Out    string `json:"out,omitempty"`
	NilMsg bool   `json:"nil_msg,omitempty"`
}

func init() {
	register(&Prop{
		ID:        "C04",
		Header:    "From Coq Require Import ZArith NArith List String.\nFrom V Require Import Lib.Hex Corr.C04Corr.\nImport ListNotations.\nOpen Scope string_scope.\n",
		Check:     "bad_ids",
		PropCheck: "prop_bad_ids",
		Gen:       c04Gen,
		Run:       c04Run,
		Rule:      "multisets of private scalars (duplicates, additive inverses, sums hitting 0, sizes 1..N) and lists of arbitrary E1 encodings (in G1, cofactor torsion, random curve points, infinity, cancelling pairs); the runner also checks permuted and nested aggregation, pk(agg sk) = agg(pks), sig by agg sk = agg(sigs), Remove(Agg(A+B),B) = Agg(A), empty lists, non-BLS keys, malformed signatures at each position; added by the generator audit: the zero private key (aggregate of x and -x), the identity public key from every constructor and the identity signature INSIDE the lists (first, last, middle, several, alone); public key objects from every constructor (decoded, decoded compressed, aggregate of two halves / of one key / with identity keys, removed from an aggregate, re-decoded private key) as aggregation and removal inputs; private key objects whose public key was never / partly computed before aggregation; E1 sums with doubling (also outside G1), the order-3 point three times, the running sum hitting infinity mid-list, infinity first; hasher outputs whose curve image is the point at infinity (every signature is the identity signature) and with equal halves, nil message, empty tag; every aggregated / nested / left-nested chain / removed-from (at once, key by key, from a decoded copy, from the package identity constant, of identity keys, of keys outside the aggregate and added back) key must encode AND behave as its point (verifies the signature of its keys iff not the identity, the identity signature only if H(m) is infinity); IsBLSSignatureIdentity on non-canonical and wrong-length identity encodings; typed errors with nil and empty lists, non-BLS and nil keys inserted first / middle / last (also as the key removed from), every kind of non-point string (nil, empty, 47/49/96 bytes, flag combinations, infinity with stray bytes incl. the last, x = p, off-curve x) at first / middle / last position and two kinds together with a non-G1 point; earlier results unchanged after later calls, all inputs unmodified, no panic; distinct by input; non-trivial if at least two keys or two points",
		Shard:     2,
	})
}

func c04Gen(tier string, r *rand.Rand) []Case {
	var cs []Case
	maxN, reps := 8, 6
	if tier == "thorough" {
		maxN, reps = 64, 40
	}
	rs := func() *big.Int {
		k := new(big.Int).Mod(new(big.Int).SetBytes(rbytes(r, 40)), new(big.Int).Sub(blsR, big.NewInt(1)))
		return k.Add(k, big.NewInt(1))
	}
	kinds := []string{"g1", "torsion", "random", "inf", "neg-prev"}
	mk := func(fam string, ks []*big.Int, pts []string) {
		var s []string
		for _, k := range ks {
			s = append(s, hx(fixed(k, 32)))
		}
		cs = append(cs, mkcase(fam, c04In{Scalars: s, Points: pts, Tag: fmt.Sprintf("t%d", r.IntN(50)), Msg: hx(rbytes(r, r.IntN(40))), Salt: r.Uint64()}))
	}
	mkIn := func(fam string, ks []*big.Int, in c04In) {
		for _, k := range ks {
			in.Scalars = append(in.Scalars, hx(fixed(k, 32)))
		}
		in.Salt = r.Uint64()
		if in.Tag == "" {
			in.Tag = fmt.Sprintf("t%d", r.IntN(50))
		}
		cs = append(cs, mkcase(fam, in))
	}
	a, b := rs(), rs()
	// more than 256 keys / signatures in one aggregation
	{
		var ks []*big.Int
		for i := 0; i < 257+r.IntN(30); i++ {
			ks = append(ks, rs())
		}
		mk("large", ks, []string{"g1", "random"})
	}
	mk("single", []*big.Int{a}, []string{"g1"})
	mk("duplicates", []*big.Int{a, a, a}, []string{"g1", "neg-prev"})
	mk("inverse-pair", []*big.Int{a, new(big.Int).Sub(blsR, a)}, []string{"torsion", "neg-prev"})
	mk("sum-zero-3", []*big.Int{a, b, new(big.Int).Mod(new(big.Int).Neg(new(big.Int).Add(a, b)), blsR)}, []string{"inf", "inf"})
	mk("edge", []*big.Int{big.NewInt(1), new(big.Int).Sub(blsR, big.NewInt(1)), big.NewInt(2)}, []string{"random", "g1", "inf"})
	// algebraic coincidences inside RemoveBLSPublicKeys(Agg(A+B), B): the aggregated key equals minus the sum
	// of the removed keys (the subtraction is a doubling), equals that sum (result is the identity), or the
	// removed keys sum to the identity
	negm := func(x *big.Int, m int64) *big.Int {
		return new(big.Int).Mod(new(big.Int).Neg(new(big.Int).Mul(x, big.NewInt(m))), blsR)
	}
	mk("remove-doubling", []*big.Int{negm(b, 2), b}, []string{"g1"})
	mk("remove-doubling", []*big.Int{negm(big.NewInt(1), 2), big.NewInt(1)}, []string{"g1"})
	ab := new(big.Int).Mod(new(big.Int).Add(a, b), blsR)
	mk("remove-doubling-many", []*big.Int{negm(ab, 2), a, b}, []string{"g1"})
	mk("remove-to-identity", []*big.Int{negm(a, 1), a, b}, []string{"g1"})
	mk("remove-cancelling-set", []*big.Int{b, a, negm(a, 1)}, []string{"g1"})
	// ---- families added by the generator audit ----
	z := big.NewInt(0)
	// the zero private key / identity public key / identity signature INSIDE the lists, first, last, in the
	// middle, twice, alone; with the public keys taken from every constructor
	mkIn("zero-key-inside", []*big.Int{z, a}, c04In{Points: []string{"inf", "g1"}, Msg: "01", PkRoutes: true})
	mkIn("zero-key-inside", []*big.Int{a, z}, c04In{Points: []string{"g1", "inf"}, Msg: "02"})
	mkIn("zero-key-inside", []*big.Int{z, a, b, z, rs()}, c04In{Points: []string{"inf", "inf", "random", "inf"}, Msg: "03", PkRoutes: true})
	mkIn("zero-key-inside", []*big.Int{a, z, new(big.Int).Sub(blsR, a)}, c04In{Points: []string{"torsion", "inf", "neg-prev"}, Msg: "04", PkRoutes: true})
	mkIn("zero-key-only", []*big.Int{z}, c04In{Points: []string{"inf"}, Msg: "05"})
	mkIn("zero-key-only", []*big.Int{z, z, z}, c04In{Points: []string{"inf", "inf", "inf"}, Msg: "06", PkRoutes: true})
	// public key objects from every constructor as aggregation inputs
	mkIn("key-routes", []*big.Int{rs(), rs(), rs(), rs(), rs(), rs(), rs(), rs(), rs()}, c04In{Points: []string{"g1"}, Msg: "07", PkRoutes: true})
	mkIn("key-routes", []*big.Int{a, a, new(big.Int).Sub(blsR, a), b}, c04In{Points: []string{"g1", "dup-prev"}, Msg: "08", PkRoutes: true})
	// E1 coincidences in the signature sum: doubling (also of points outside G1), the order-3 point three times,
	// the running sum hitting infinity in the middle of the list, infinity first
	mkIn("points-coincidences", []*big.Int{a}, c04In{Points: []string{"g1", "dup-prev", "dup-prev"}, Msg: "09"})
	mkIn("points-coincidences", []*big.Int{a}, c04In{Points: []string{"torsion", "dup-prev", "random", "dup-prev"}, Msg: "0a"})
	mkIn("points-coincidences", []*big.Int{a}, c04In{Points: []string{"order3", "dup-prev", "dup-prev", "g1"}, Msg: "0b"})
	mkIn("points-coincidences", []*big.Int{a, b}, c04In{Points: []string{"order3", "dup-prev"}, Msg: "0c"})
	mkIn("points-coincidences", []*big.Int{a, b}, c04In{Points: []string{"g1", "random", "neg-sum", "g1", "neg-sum"}, Msg: "0d"})
	mkIn("points-coincidences", []*big.Int{a, b}, c04In{Points: []string{"inf", "random", "neg-sum", "inf", "torsion"}, Msg: "0e"})
	mkIn("points-coincidences", []*big.Int{a}, c04In{Points: []string{"random"}, Msg: "0f"})
	// hasher outputs of chosen shape: H(m) is the point at infinity (u1 = -u0), so every signature and every
	// aggregate is the identity signature; equal halves; nil message and empty tag
	{
		u := new(big.Int).Mod(new(big.Int).SetBytes(rbytes(r, 64)), blsP)
		infOut := append(fixed(u, 64), fixed(new(big.Int).Sub(blsP, u), 64)...)
		eqOut := append(fixed(u, 64), fixed(u, 64)...)
		mkIn("hasher-output-shapes", []*big.Int{a, b, rs()}, c04In{Points: []string{"g1", "g1", "inf"}, Out: hx(infOut)})
		mkIn("hasher-output-shapes", []*big.Int{a, new(big.Int).Sub(blsR, a)}, c04In{Points: []string{"g1"}, Out: hx(eqOut)})
		mkIn("hasher-output-shapes", []*big.Int{a, b}, c04In{Points: []string{"g1"}, NilMsg: true, Tag: "-"})
	}
	for i := 0; i < reps; i++ {
		ks := []*big.Int{}
		for j := 0; j < 2+r.IntN(maxN); j++ {
			switch r.IntN(6) {
			case 0:
				ks = append(ks, z)
			case 1:
				if len(ks) > 0 {
					ks = append(ks, new(big.Int).Mod(new(big.Int).Neg(ks[r.IntN(len(ks))]), blsR))
					break
				}
				fallthrough
			default:
				ks = append(ks, rs())
			}
		}
		var pts []string
		allKinds := append(append([]string{}, kinds...), "dup-prev", "order3", "neg-sum")
		for j := 0; j < 1+r.IntN(6); j++ {
			pts = append(pts, allKinds[r.IntN(len(allKinds))])
		}
		mkIn("random-with-routes", ks, c04In{Points: pts, Msg: hx(rbytes(r, r.IntN(40))), PkRoutes: true})
	}
	for i := 0; i < reps; i++ {
		n := 1 + r.IntN(maxN)
		var ks []*big.Int
		for j := 0; j < n; j++ {
			ks = append(ks, rs())
		}
		var pts []string
		for j := 0; j < 1+r.IntN(5); j++ {
			pts = append(pts, kinds[r.IntN(len(kinds))])
		}
		mk("random", ks, pts)
	}
	return cs
}

// c04ZeroKey returns the zero private key (the package offers it only as an aggregate of x and -x)
func c04ZeroKey(rr *rand.Rand) (crypto.PrivateKey, error) {
	x := new(big.Int).Mod(new(big.Int).SetBytes(rbytes(rr, 40)), new(big.Int).Sub(blsR, big.NewInt(1)))
	x.Add(x, big.NewInt(1))
	a, e1 := crypto.DecodePrivateKey(crypto.BLSBLS12381, fixed(x, 32))
	b, e2 := crypto.DecodePrivateKey(crypto.BLSBLS12381, fixed(new(big.Int).Sub(blsR, x), 32))
	if e1 != nil || e2 != nil {
		return nil, fmt.Errorf("%v %v", e1, e2)
	}
	return crypto.AggregateBLSPrivateKeys([]crypto.PrivateKey{a, b})
}

func c04Run(c Case) (Result, error) {
	var in c04In
	if err := json.Unmarshal(c.Input, &in); err != nil {
		return Result{}, err
	}
	rr := rand.New(rand.NewPCG(in.Salt, 0x04))
	tag := in.Tag
	if tag == "-" {
		tag = ""
	}
	var hs hash.Hasher = crypto.NewExpandMsgXOFKMAC128(tag)
	if in.Out != "" {
		hs = &fixedHasher{unhx(in.Out)}
	}
	msg := unhx(in.Msg)
	if in.NilMsg {
		msg = nil
	}
	var sks []crypto.PrivateKey
	var pks []crypto.PublicKey
	var sigs []crypto.Signature
	idRoutes := []string{"", "decoded", "aggregated", "removed", "zero-sk"}
	keyRoutes := []string{"", "decoded", "agg-split", "removed", "agg-single", "agg-with-identity", "removed-identity", "via-encoded-sk", "decoded-compressed"}
	for i, s := range in.Scalars {
		var sk crypto.PrivateKey
		var err error
		sc := new(big.Int).SetBytes(unhx(s))
		if sc.Sign() == 0 {
			sk, err = c04ZeroKey(rr)
		} else {
			sk, err = crypto.DecodePrivateKey(crypto.BLSBLS12381, unhx(s))
		}
		if err != nil {
			return Result{}, err
		}
		var pk crypto.PublicKey = sk.PublicKey()
		if in.PkRoutes {
			if sc.Sign() == 0 {
				if rt := idRoutes[i%len(idRoutes)]; rt != "zero-sk" {
					pk, err = c02IdentityKey(rt, rr)
				}
			} else if rt := keyRoutes[i%len(keyRoutes)]; rt != "" {
				pk, err = c01RoutePk(rt, sk, sc, rr)
			}
			if err != nil {
				return Result{}, implViolation("public key %d through a package constructor: %v", i, err)
			}
		}
		sks = append(sks, sk)
		pks = append(pks, pk)
		sg, err := sk.Sign(msg, hs)
		if err != nil {
			return Result{}, implViolation("Sign with key %s: %v", s, err)
		}
		sigs = append(sigs, sg)
	}
	one, _ := crypto.DecodePrivateKey(crypto.BLSBLS12381, fixed(big.NewInt(1), 32))
	hEnc, _ := one.Sign(msg, hs)
	idEnc := crypto.IdentityBLSPublicKey().Encode()
	idSig := append([]byte{0xC0}, make([]byte, 47)...)
	hIsInf := bytes.Equal(hEnc, idSig)
	// snapshots: arguments are read only
	var pkEnc0, skEnc0, sigs0 [][]byte
	for i := range sks {
		pkEnc0, skEnc0, sigs0 = append(pkEnc0, pks[i].Encode()), append(skEnc0, sks[i].Encode()), append(sigs0, append([]byte{}, sigs[i]...))
	}
	aggSk, err := crypto.AggregateBLSPrivateKeys(sks)
	if err != nil {
		return Result{}, err
	}
	aggPk, err := crypto.AggregateBLSPublicKeys(pks)
	if err != nil {
		return Result{}, err
	}
	aggSig, err := crypto.AggregateBLSSignatures(sigs)
	if err != nil {
		return Result{}, err
	}
	aggSkEnc0, aggPkEnc0, aggSig0 := aggSk.Encode(), aggPk.Encode(), append([]byte{}, aggSig...)
	var why []string
	consistent := true
	fail := func(s string) { consistent = false; why = append(why, s) }
	// pk of the aggregated key / signature by the aggregated key
	if !aggSk.PublicKey().Equals(aggPk) || !bytes.Equal(aggSk.PublicKey().Encode(), aggPk.Encode()) {
		fail("pk(agg sk) != agg(pks)")
	}
	// ... also when the input private keys are fresh objects whose public keys were never / partly computed
	for _, mask := range []int{0, 0x55555555, 0x2aaaaaaa, 1 << (uint(len(in.Scalars)-1) % 31), 0x7fffffff &^ 1, 1} {
		var fresh []crypto.PrivateKey
		for i, s := range in.Scalars {
			var sk crypto.PrivateKey
			if new(big.Int).SetBytes(unhx(s)).Sign() == 0 {
				sk, _ = c04ZeroKey(rr)
			} else {
				sk, _ = crypto.DecodePrivateKey(crypto.BLSBLS12381, unhx(s))
			}
			if mask>>(uint(i)%31)&1 == 1 {
				_ = sk.PublicKey()
			}
			fresh = append(fresh, sk)
		}
		f, err := crypto.AggregateBLSPrivateKeys(fresh)
		if err != nil || !bytes.Equal(f.Encode(), aggSkEnc0) || !bytes.Equal(f.PublicKey().Encode(), aggPkEnc0) || !f.PublicKey().Equals(aggPk) {
			fail(fmt.Sprintf("aggregate of fresh private key objects (public keys computed before: mask %x) differs", mask))
		} else if fs, _ := f.Sign(msg, hs); !bytes.Equal(fs, aggSig0) {
			fail("signature by the aggregate of fresh private key objects differs from agg(sigs)")
		}
	}
	sAgg, _ := aggSk.Sign(msg, hs)
	if !bytes.Equal(sAgg, aggSig) {
		fail("sign(agg sk) != agg(sigs)")
	}
	// permutation and nesting
	perm := rr.Perm(len(sks))
	var psk []crypto.PrivateKey
	var ppk []crypto.PublicKey
	var psg []crypto.Signature
	for _, i := range perm {
		psk, ppk, psg = append(psk, sks[i]), append(ppk, pks[i]), append(psg, sigs[i])
	}
	x1, _ := crypto.AggregateBLSPrivateKeys(psk)
	x2, _ := crypto.AggregateBLSPublicKeys(ppk)
	x3, _ := crypto.AggregateBLSSignatures(psg)
	if !x1.Equals(aggSk) || !x2.Equals(aggPk) || !bytes.Equal(x3, aggSig) || !bytes.Equal(x1.Encode(), aggSkEnc0) || !bytes.Equal(x2.Encode(), aggPkEnc0) {
		fail("aggregation depends on the order")
	}
	isId := bytes.Equal(aggPk.Encode(), idEnc)
	// the aggregated key as an OBJECT: what it verifies (expected: agg(sigs) iff it is not the identity key; the
	// identity signature only if moreover H(m) is the point at infinity)
	behaves := func(name string, k crypto.PublicKey, keyIsId bool, goodSig []byte) {
		if ok, e := k.Verify(goodSig, msg, hs); e != nil || ok == keyIsId {
			fail(fmt.Sprintf("%s: the signature of its keys verifies=%v (%v), key is identity=%v", name, ok, e, keyIsId))
		}
		if ok, _ := k.Verify(idSig, msg, hs); ok != (!keyIsId && (hIsInf || bytes.Equal(goodSig, idSig))) {
			fail(fmt.Sprintf("%s: identity signature verifies=%v, key is identity=%v, H(m) is infinity=%v", name, ok, keyIsId, hIsInf))
		}
	}
	behaves("permuted aggregate", x2, isId, aggSig)
	if len(sks) >= 2 {
		cut := 1 + rr.IntN(len(sks)-1)
		l1, _ := crypto.AggregateBLSPrivateKeys(sks[:cut])
		l2, _ := crypto.AggregateBLSPrivateKeys(sks[cut:])
		n1, _ := crypto.AggregateBLSPrivateKeys([]crypto.PrivateKey{l1, l2})
		p1, _ := crypto.AggregateBLSPublicKeys(pks[:cut])
		p2, _ := crypto.AggregateBLSPublicKeys(pks[cut:])
		n2, _ := crypto.AggregateBLSPublicKeys([]crypto.PublicKey{p1, p2})
		s1, _ := crypto.AggregateBLSSignatures(sigs[:cut])
		s2, _ := crypto.AggregateBLSSignatures(sigs[cut:])
		n3, _ := crypto.AggregateBLSSignatures([]crypto.Signature{s1, s2})
		if !n1.Equals(aggSk) || !n2.Equals(aggPk) || !bytes.Equal(n3, aggSig) || !bytes.Equal(n1.Encode(), aggSkEnc0) || !bytes.Equal(n2.Encode(), aggPkEnc0) {
			fail("nested aggregation differs from flat aggregation")
		}
		behaves("nested aggregate", n2, isId, aggSig)
		// three levels, one element at a time from the left (aggregates of aggregates)
		accK, accP, accS := sks[0], pks[0], sigs[0]
		for i := 1; i < len(sks) && i < 12; i++ {
			accK, _ = crypto.AggregateBLSPrivateKeys([]crypto.PrivateKey{accK, sks[i]})
			accP, _ = crypto.AggregateBLSPublicKeys([]crypto.PublicKey{accP, pks[i]})
			accS, _ = crypto.AggregateBLSSignatures([]crypto.Signature{accS, sigs[i]})
		}
		if len(sks) <= 12 && (!bytes.Equal(accK.Encode(), aggSkEnc0) || !bytes.Equal(accP.Encode(), aggPkEnc0) || !bytes.Equal(accS, aggSig0)) {
			fail("left-nested chain of pairwise aggregations differs from flat aggregation")
		}
		// Remove(Agg(A+B), B) = Agg(A), for the random cut and for every cut position
		for c2 := 1; c2 < len(pks); c2++ {
			if c2 != cut && len(pks) > 6 {
				continue
			}
			pa, _ := crypto.AggregateBLSPublicKeys(pks[:c2])
			rem, err := crypto.RemoveBLSPublicKeys(aggPk, pks[c2:])
			if err != nil || !rem.Equals(pa) || !bytes.Equal(rem.Encode(), pa.Encode()) {
				fail(fmt.Sprintf("Remove(Agg(A+B),B) != Agg(A) at cut %d", c2))
			}
			// ... as a key OBJECT too: it verifies what Agg(A) verifies (a cached identity flag that does
			// not match the point shows here, not in Equals / Encode)
			if err == nil {
				partSig, _ := crypto.AggregateBLSSignatures(sigs[:c2])
				behaves(fmt.Sprintf("Remove(Agg(A+B),B) at cut %d", c2), rem, bytes.Equal(rem.Encode(), idEnc), partSig)
				// chained removal, one key at a time, and removal from a DECODED copy of the aggregate
				ch := aggPk
				for _, k := range pks[c2:] {
					if ch, err = crypto.RemoveBLSPublicKeys(ch, []crypto.PublicKey{k}); err != nil {
						break
					}
				}
				if err != nil || !bytes.Equal(ch.Encode(), pa.Encode()) || !ch.Equals(rem) {
					fail(fmt.Sprintf("removing B key by key differs from Remove(Agg(A+B),B) at cut %d", c2))
				} else {
					behaves(fmt.Sprintf("key-by-key removal at cut %d", c2), ch, bytes.Equal(ch.Encode(), idEnc), partSig)
				}
				if dec, e := crypto.DecodePublicKey(crypto.BLSBLS12381, aggPkEnc0); e == nil {
					if r2, e := crypto.RemoveBLSPublicKeys(dec, pks[c2:]); e != nil || !bytes.Equal(r2.Encode(), pa.Encode()) {
						fail(fmt.Sprintf("Remove from a decoded copy of the aggregate differs at cut %d", c2))
					} else {
						behaves(fmt.Sprintf("Remove from a decoded aggregate at cut %d", c2), r2, bytes.Equal(r2.Encode(), idEnc), partSig)
					}
					if !bytes.Equal(dec.Encode(), aggPkEnc0) {
						fail("RemoveBLSPublicKeys modified the key it removes from (decoded copy)")
					}
				} else {
					fail("the aggregated key's encoding does not decode")
				}
				// removing keys that are not part of the aggregate, then adding them back
				if r3, e := crypto.RemoveBLSPublicKeys(pa, pks[c2:]); e == nil {
					back, e2 := crypto.AggregateBLSPublicKeys(append([]crypto.PublicKey{r3}, pks[c2:]...))
					if e2 != nil || !bytes.Equal(back.Encode(), pa.Encode()) {
						fail(fmt.Sprintf("Agg(Remove(A,B)+B) != A at cut %d", c2))
					}
				} else {
					fail("Remove of keys outside the aggregate failed")
				}
			}
		}
	}
	// removing every key leaves the identity KEY (which verifies nothing, not even the identity signature)
	if all, err := crypto.RemoveBLSPublicKeys(aggPk, pks); err != nil || !bytes.Equal(all.Encode(), idEnc) {
		fail("Remove(Agg(A),A) is not the identity key")
	} else {
		if ok, _ := all.Verify(idSig, msg, hs); ok {
			fail("Remove(Agg(A),A) accepts the identity signature")
		}
		if ok, _ := all.Verify(aggSig, msg, hs); ok {
			fail("Remove(Agg(A),A) accepts agg(sigs)")
		}
		if !all.Equals(crypto.IdentityBLSPublicKey()) {
			fail("Remove(Agg(A),A) is not Equal to the identity key")
		}
	}
	// removal from the package's identity key (a shared object) gives -sum and leaves that object alone
	if neg, err := crypto.RemoveBLSPublicKeys(crypto.IdentityBLSPublicKey(), pks); err != nil {
		fail("Remove from the identity key failed")
	} else {
		back, e2 := crypto.AggregateBLSPublicKeys([]crypto.PublicKey{neg, aggPk})
		if e2 != nil || !bytes.Equal(back.Encode(), idEnc) {
			fail("Remove(identity, A) + Agg(A) is not the identity key")
		}
		behaves("Remove(identity, A)", neg, isId, e1CompressNegSafe(aggSig))
		if !bytes.Equal(crypto.IdentityBLSPublicKey().Encode(), idEnc) {
			fail("RemoveBLSPublicKeys modified the package's identity key")
		}
		if ok, _ := crypto.IdentityBLSPublicKey().Verify(e1CompressNegSafe(aggSig), msg, hs); ok {
			fail("the package's identity key verifies a signature after Remove(identity, A)")
		}
	}
	same, err := crypto.RemoveBLSPublicKeys(aggPk, nil)
	if err != nil || same != aggPk {
		fail("Remove with an empty list must return the same key")
	}
	if same, err := crypto.RemoveBLSPublicKeys(aggPk, []crypto.PublicKey{}); err != nil || !bytes.Equal(same.Encode(), aggPkEnc0) {
		fail("Remove with an empty (non-nil) list must return the same key")
	}
	// removing identity keys from every constructor changes nothing
	{
		var ids []crypto.PublicKey
		for _, rt := range []string{"", "decoded", "aggregated", "removed"} {
			k, e := c02IdentityKey(rt, rr)
			if e != nil {
				return Result{}, implViolation("identity key through route %q: %v", rt, e)
			}
			ids = append(ids, k)
		}
		if r4, e := crypto.RemoveBLSPublicKeys(aggPk, ids); e != nil || !bytes.Equal(r4.Encode(), aggPkEnc0) {
			fail("removing identity keys changes the key")
		} else {
			behaves("Remove(Agg(A), identity keys)", r4, isId, aggSig)
		}
		if r5, e := crypto.AggregateBLSPublicKeys(append(append([]crypto.PublicKey{ids[1]}, pks...), ids[2], ids[0])); e != nil || !bytes.Equal(r5.Encode(), aggPkEnc0) {
			fail("aggregating additional identity keys (first and last) changes the key")
		} else {
			behaves("Agg(identity, A, identity, identity)", r5, isId, aggSig)
		}
		idOnly, e := crypto.AggregateBLSPublicKeys(ids)
		if e != nil || !bytes.Equal(idOnly.Encode(), idEnc) {
			fail("aggregate of identity keys is not the identity key")
		} else if ok, _ := idOnly.Verify(idSig, msg, hs); ok {
			fail("aggregate of identity keys accepts the identity signature")
		}
	}
	// identity consistency
	if isId != aggPk.Equals(crypto.IdentityBLSPublicKey()) {
		fail("identity key comparison inconsistent")
	}
	behaves("aggregated key", aggPk, isId, aggSig)
	// the public key OF the aggregated private key (and of fresh aggregates whose inputs never computed theirs)
	// is the same point reached by another route: it must behave like it
	behaves("PublicKey() of the aggregated private key", aggSk.PublicKey(), isId, aggSig)
	if fsk, e := crypto.AggregateBLSPrivateKeys(append([]crypto.PrivateKey{}, sks...)); e == nil {
		behaves("PublicKey() of a second aggregate of the private keys", fsk.PublicKey(), isId, aggSig)
	}
	if crypto.IsBLSSignatureIdentity(aggSig) != bytes.Equal(aggSig, idSig) {
		fail("IsBLSSignatureIdentity(agg(sigs)) inconsistent with the encoding")
	}
	for _, b := range [][]byte{nil, {}, {0xC0}, idSig[:47], append(append([]byte{}, idSig...), 0), append([]byte{0x40}, make([]byte, 47)...), append(append([]byte{0xC0}, make([]byte, 46)...), 1), append([]byte{0xE0}, make([]byte, 47)...)} {
		if crypto.IsBLSSignatureIdentity(b) {
			fail(fmt.Sprintf("IsBLSSignatureIdentity accepts %x", b))
		}
	}
	if !crypto.IsBLSSignatureIdentity(idSig) {
		fail("IsBLSSignatureIdentity rejects the identity signature")
	}
	// documented errors
	for _, l := range [][]crypto.Signature{nil, {}} {
		if _, e := crypto.AggregateBLSSignatures(l); !crypto.IsBLSAggregateEmptyListError(e) {
			fail("empty signature list")
		}
	}
	for _, l := range [][]crypto.PrivateKey{nil, {}} {
		if _, e := crypto.AggregateBLSPrivateKeys(l); !crypto.IsBLSAggregateEmptyListError(e) {
			fail("empty private key list")
		}
	}
	for _, l := range [][]crypto.PublicKey{nil, {}} {
		if _, e := crypto.AggregateBLSPublicKeys(l); !crypto.IsBLSAggregateEmptyListError(e) {
			fail("empty public key list")
		}
	}
	ek, _ := crypto.GeneratePrivateKey(crypto.ECDSAP256, rbytes(rr, 32))
	n := len(sks)
	positions := []int{0, n / 2, n} // insertion points: first, middle, last
	for _, pos := range positions {
		for _, foreignSk := range []crypto.PrivateKey{ek, nil} {
			l := append(append(append([]crypto.PrivateKey{}, sks[:pos]...), foreignSk), sks[pos:]...)
			var e error
			var k crypto.PrivateKey
			if pn, m := catch(func() { k, e = crypto.AggregateBLSPrivateKeys(l) }); pn {
				fail(fmt.Sprintf("AggregateBLSPrivateKeys panics with a non-BLS key (%v) at index %d: %s", foreignSk, pos, m))
			} else if !crypto.IsNotBLSKeyError(e) || k != nil {
				fail(fmt.Sprintf("non-BLS private key (%v) at index %d of %d: (%v, %v)", foreignSk, pos, n+1, k, e))
			}
		}
		for _, foreignPk := range []crypto.PublicKey{ek.PublicKey(), nil} {
			l := append(append(append([]crypto.PublicKey{}, pks[:pos]...), foreignPk), pks[pos:]...)
			var e error
			var k crypto.PublicKey
			if pn, m := catch(func() { k, e = crypto.AggregateBLSPublicKeys(l) }); pn {
				fail(fmt.Sprintf("AggregateBLSPublicKeys panics with a non-BLS key (%v) at index %d: %s", foreignPk, pos, m))
			} else if !crypto.IsNotBLSKeyError(e) || k != nil {
				fail(fmt.Sprintf("non-BLS public key (%v) at index %d of %d: (%v, %v)", foreignPk, pos, n+1, k, e))
			}
			if pn, m := catch(func() { k, e = crypto.RemoveBLSPublicKeys(aggPk, l) }); pn {
				fail(fmt.Sprintf("RemoveBLSPublicKeys panics with a non-BLS key (%v) at index %d: %s", foreignPk, pos, m))
			} else if !crypto.IsNotBLSKeyError(e) || k != nil {
				fail(fmt.Sprintf("non-BLS key (%v) to remove at index %d of %d: (%v, %v)", foreignPk, pos, n+1, k, e))
			}
		}
	}
	if _, e := crypto.RemoveBLSPublicKeys(aggPk, []crypto.PublicKey{ek.PublicKey()}); !crypto.IsNotBLSKeyError(e) {
		fail("non-BLS key to remove")
	}
	for _, l := range [][]crypto.PublicKey{nil, {}, pks} {
		for _, from := range []crypto.PublicKey{ek.PublicKey(), nil} {
			var e error
			var k crypto.PublicKey
			if pn, m := catch(func() { k, e = crypto.RemoveBLSPublicKeys(from, l) }); pn {
				fail(fmt.Sprintf("RemoveBLSPublicKeys panics when removing %d keys from a non-BLS key (%v): %s", len(l), from, m))
			} else if !crypto.IsNotBLSKeyError(e) || k != nil {
				fail(fmt.Sprintf("removing %d keys from a non-BLS key (%v): (%v, %v)", len(l), from, k, e))
			}
		}
	}
	// every kind of string that is not an encoding of a curve point, alone at the first, a middle and the last
	// position, and two different kinds together
	T := e1Compress(e1Torsion(rr))
	xgep := fixed(blsP, 48)
	xgep[0] |= 0x80
	var offc []byte
	for {
		xx := new(big.Int).Mod(new(big.Int).SetBytes(rbytes(rr, 48)), blsP)
		if fpSqrt(fpAdd(fpMul(fpMul(xx, xx), xx), e1B)) == nil {
			offc = fixed(xx, 48)
			offc[0] |= 0x80
			break
		}
	}
	hdr := append([]byte{}, sigs[0]...)
	hdr[0] &= 0x7F
	stray := append([]byte{}, idSig...)
	stray[1+rr.IntN(47)] = byte(1 + rr.IntN(255))
	strayLast := append([]byte{}, idSig...)
	strayLast[47] = 1
	infUncompressed := append([]byte{0x40}, make([]byte, 47)...)
	infSign := append([]byte{0xE0}, make([]byte, 47)...)
	badKinds := map[string][]byte{"47 bytes": sigs[0][:47], "nil": nil, "empty": {}, "49 bytes": append(append([]byte{}, sigs[0]...), 0), "96 bytes": append(append([]byte{}, sigs[0]...), sigs[0]...),
		"compression flag cleared": hdr, "infinity with a stray byte": stray, "infinity with a non-zero last byte": strayLast, "infinity flag without compression flag": infUncompressed,
		"infinity with the sign flag": infSign, "x = p": xgep, "x not on the curve": offc}
	names := make([]string, 0, len(badKinds))
	for k := range badKinds {
		names = append(names, k)
	}
	sort.Strings(names)
	for ni, name := range names {
		for pi, pos := range []int{0, n / 2, n - 1} {
			if n > 8 && (ni+pi)%3 != 0 {
				continue
			}
			bad := append([]crypto.Signature{}, sigs...)
			bad[pos] = badKinds[name]
			var e error
			var sg crypto.Signature
			if pn, m := catch(func() { sg, e = crypto.AggregateBLSSignatures(bad) }); pn {
				fail(fmt.Sprintf("AggregateBLSSignatures panics on a signature (%s) at index %d of %d: %s", name, pos, n, m))
			} else if !crypto.IsInvalidSignatureError(e) || sg != nil {
				fail(fmt.Sprintf("signature that is no point encoding (%s: %x) at index %d of %d: (%x, %v)", name, badKinds[name], pos, n, sg, e))
			}
			// together with a second defect of another kind and with a point outside G1
			bad = append(bad, T, badKinds[names[(ni+1)%len(names)]])
			if sg, e := crypto.AggregateBLSSignatures(bad); !crypto.IsInvalidSignatureError(e) || sg != nil {
				fail(fmt.Sprintf("two invalid signatures (%s at %d, %s last) not reported: (%x, %v)", name, pos, names[(ni+1)%len(names)], sg, e))
			}
		}
	}
	// wrong lengths that cancel over the list (47 + 49, 0 + 96, 40 + 56 next to a good one): the bytes are
	// those of valid signatures cut elsewhere, so that every 48-byte window of the concatenation decodes
	if len(sigs) >= 2 {
		cat := append(append([]byte{}, sigs[0]...), sigs[1]...)
		for _, cut := range []int{47, 49, 0, 96, 40, 1} {
			l := []crypto.Signature{cat[:cut], cat[cut:]}
			if sg, e := crypto.AggregateBLSSignatures(l); !crypto.IsInvalidSignatureError(e) || sg != nil {
				fail(fmt.Sprintf("signatures of %d and %d bytes (two valid signatures cut at byte %d): (%x, %v), documented: invalid-signature error", cut, 96-cut, cut, sg, e))
			}
			l3 := []crypto.Signature{sigs[0], cat[:cut], cat[cut:]}
			if cut != 48 {
				if sg, e := crypto.AggregateBLSSignatures(l3); !crypto.IsInvalidSignatureError(e) || sg != nil {
					fail(fmt.Sprintf("a valid signature followed by signatures of %d and %d bytes: (%x, %v), documented: invalid-signature error", cut, 96-cut, sg, e))
				}
			}
		}
	}
	// arbitrary E1 points
	var pts []crypto.Signature
	var ptsHex []string
	var prev e1pt
	prev, _ = e1DecompressSafe(sigs[0])
	sum := e1pt{inf: true}
	for _, kind := range in.Points {
		var p e1pt
		switch kind {
		case "g1":
			p, _ = e1DecompressSafe(sigs[rr.IntN(len(sigs))])
			if p.x == nil {
				p = e1pt{inf: true}
			}
		case "torsion":
			p = e1Torsion(rr)
		case "random":
			p = e1Random(rr)
		case "inf":
			p = e1pt{inf: true}
		case "neg-prev":
			p = e1Neg(prev)
		case "dup-prev":
			p = prev
		case "order3":
			p = e1pt{x: big.NewInt(0), y: big.NewInt(2)}
		case "neg-sum":
			p = e1Neg(sum)
		}
		if p.x == nil {
			p = e1pt{inf: true}
		}
		prev = p
		sum = e1Add(sum, p)
		b := e1Compress(p)
		pts = append(pts, b)
		ptsHex = append(ptsHex, cqs(hx(b)))
	}
	aggPts, err := crypto.AggregateBLSSignatures(pts)
	if err != nil {
		return Result{}, implViolation("aggregating valid encodings failed: %v", err)
	}
	ptsId := crypto.IsBLSSignatureIdentity(aggPts)
	// results are values, arguments are read only
	if !bytes.Equal(aggSig, aggSig0) || !bytes.Equal(aggSk.Encode(), aggSkEnc0) || !bytes.Equal(aggPk.Encode(), aggPkEnc0) {
		return Result{}, implViolation("an earlier aggregation result changed after later calls: signature %x (was %x), private key %x (was %x), public key %x (was %x)", aggSig, aggSig0, aggSk.Encode(), aggSkEnc0, aggPk.Encode(), aggPkEnc0)
	}
	for i := range sks {
		if !bytes.Equal(pks[i].Encode(), pkEnc0[i]) || !bytes.Equal(sks[i].Encode(), skEnc0[i]) || !bytes.Equal(sigs[i], sigs0[i]) {
			return Result{}, implViolation("the aggregation functions modified input %d: public key %x (was %x), private key %x (was %x), signature %x (was %x)", i, pks[i].Encode(), pkEnc0[i], sks[i].Encode(), skEnc0[i], sigs[i], sigs0[i])
		}
	}
	var sch []string
	for _, s := range in.Scalars {
		sch = append(sch, cqs(s))
	}
	term := fmt.Sprintf("mkCase %s %s %s %s %s %s %s %s %s", cqlist(sch), cqs(hx(hEnc)), cqs(hx(aggSk.Encode())), cqs(hx(aggPk.Encode())),
		cqs(hx(aggSig)), cqlist(ptsHex), cqs(hx(aggPts)), cqbool(ptsId), cqbool(consistent))
	return Result{Coq: term, Key: string(c.Input), Nontrivial: len(sks) >= 2 || len(pts) >= 2,
		Obs: map[string]any{"agg_sk": hx(aggSk.Encode()), "agg_pk": hx(aggPk.Encode()), "agg_sig": hx(aggSig), "agg_points": hx(aggPts), "inconsistencies": why}}, nil
}

// e1CompressNegSafe returns the encoding of -P for a valid compressed encoding of P (the input itself otherwise)
func e1CompressNegSafe(b []byte) []byte {
	P, ok := e1DecompressSafe(b)
	if !ok {
		return b
	}
	return e1Compress(e1Neg(P))
}
