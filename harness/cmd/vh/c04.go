package main

import (
	"bytes"
	"encoding/json"
	"fmt"
	"math/big"
	"math/rand/v2"

	"github.com/onflow/crypto"
)

type c04In struct {
	Scalars []string `json:"scalars"`
	Points  []string `json:"points"` // kinds of extra E1 points to aggregate: "g1", "torsion", "random", "inf", "neg-prev"
	Tag     string   `json:"tag"`
	Msg     string   `json:"msg"`
	Salt    uint64   `json:"salt"`
}

func init() {
	register(&Prop{
		ID:        "C04",
		Header:    "From Coq Require Import ZArith NArith List String.\nFrom V Require Import Lib.Hex Corr.C04Corr.\nImport ListNotations.\nOpen Scope string_scope.\n",
		Check:     "bad_ids",
		PropCheck: "prop_bad_ids",
		Gen:       c04Gen,
		Run:       c04Run,
		Rule:      "multisets of private scalars (duplicates, additive inverses, sums hitting 0, sizes 1..N) and lists of arbitrary E1 encodings (in G1, cofactor torsion, random curve points, infinity, cancelling pairs); the runner also checks permuted and nested aggregation, pk(agg sk) = agg(pks), sig by agg sk = agg(sigs), Remove(Agg(A+B),B) = Agg(A), empty lists, non-BLS keys, malformed signatures at each position; distinct by input; non-trivial if at least two keys or two points",
		Shard:     2,
	})
}

func c04Gen(tier string, r *rand.Rand) []Case {
	var cs []Case
	maxN, reps := 8, 6
	if tier == "thorough" {
		maxN, reps = 64, 40
	}
	rs := func() *big.Int {
		k := new(big.Int).Mod(new(big.Int).SetBytes(rbytes(r, 40)), new(big.Int).Sub(blsR, big.NewInt(1)))
		return k.Add(k, big.NewInt(1))
	}
	kinds := []string{"g1", "torsion", "random", "inf", "neg-prev"}
	mk := func(fam string, ks []*big.Int, pts []string) {
		var s []string
		for _, k := range ks {
			s = append(s, hx(fixed(k, 32)))
		}
		cs = append(cs, mkcase(fam, c04In{s, pts, fmt.Sprintf("t%d", r.IntN(50)), hx(rbytes(r, r.IntN(40))), r.Uint64()}))
	}
	a, b := rs(), rs()
	// more than 256 keys / signatures in one aggregation
	{
		var ks []*big.Int
		for i := 0; i < 257+r.IntN(30); i++ {
			ks = append(ks, rs())
		}
		mk("large", ks, []string{"g1", "random"})
	}
	mk("single", []*big.Int{a}, []string{"g1"})
	mk("duplicates", []*big.Int{a, a, a}, []string{"g1", "neg-prev"})
	mk("inverse-pair", []*big.Int{a, new(big.Int).Sub(blsR, a)}, []string{"torsion", "neg-prev"})
	mk("sum-zero-3", []*big.Int{a, b, new(big.Int).Mod(new(big.Int).Neg(new(big.Int).Add(a, b)), blsR)}, []string{"inf", "inf"})
	mk("edge", []*big.Int{big.NewInt(1), new(big.Int).Sub(blsR, big.NewInt(1)), big.NewInt(2)}, []string{"random", "g1", "inf"})
	// algebraic coincidences inside RemoveBLSPublicKeys(Agg(A+B), B): the aggregated key equals minus the sum
	// of the removed keys (the subtraction is a doubling), equals that sum (result is the identity), or the
	// removed keys sum to the identity
	negm := func(x *big.Int, m int64) *big.Int { return new(big.Int).Mod(new(big.Int).Neg(new(big.Int).Mul(x, big.NewInt(m))), blsR) }
	mk("remove-doubling", []*big.Int{negm(b, 2), b}, []string{"g1"})
	mk("remove-doubling", []*big.Int{negm(big.NewInt(1), 2), big.NewInt(1)}, []string{"g1"})
	ab := new(big.Int).Mod(new(big.Int).Add(a, b), blsR)
	mk("remove-doubling-many", []*big.Int{negm(ab, 2), a, b}, []string{"g1"})
	mk("remove-to-identity", []*big.Int{negm(a, 1), a, b}, []string{"g1"})
	mk("remove-cancelling-set", []*big.Int{b, a, negm(a, 1)}, []string{"g1"})
	for i := 0; i < reps; i++ {
		n := 1 + r.IntN(maxN)
		var ks []*big.Int
		for j := 0; j < n; j++ {
			ks = append(ks, rs())
		}
		var pts []string
		for j := 0; j < 1+r.IntN(5); j++ {
			pts = append(pts, kinds[r.IntN(len(kinds))])
		}
		mk("random", ks, pts)
	}
	return cs
}

func c04Run(c Case) (Result, error) {
	var in c04In
	if err := json.Unmarshal(c.Input, &in); err != nil {
		return Result{}, err
	}
	rr := rand.New(rand.NewPCG(in.Salt, 0x04))
	hs := crypto.NewExpandMsgXOFKMAC128(in.Tag)
	msg := unhx(in.Msg)
	var sks []crypto.PrivateKey
	var pks []crypto.PublicKey
	var sigs []crypto.Signature
	for _, s := range in.Scalars {
		sk, err := crypto.DecodePrivateKey(crypto.BLSBLS12381, unhx(s))
		if err != nil {
			return Result{}, err
		}
		sks = append(sks, sk)
		pks = append(pks, sk.PublicKey())
		sg, _ := sk.Sign(msg, hs)
		sigs = append(sigs, sg)
	}
	one, _ := crypto.DecodePrivateKey(crypto.BLSBLS12381, fixed(big.NewInt(1), 32))
	hEnc, _ := one.Sign(msg, hs)
	idEnc := crypto.IdentityBLSPublicKey().Encode()
	idSig := append([]byte{0xC0}, make([]byte, 47)...)
	aggSk, err := crypto.AggregateBLSPrivateKeys(sks)
	if err != nil {
		return Result{}, err
	}
	aggPk, err := crypto.AggregateBLSPublicKeys(pks)
	if err != nil {
		return Result{}, err
	}
	aggSig, err := crypto.AggregateBLSSignatures(sigs)
	if err != nil {
		return Result{}, err
	}
	var why []string
	consistent := true
	fail := func(s string) { consistent = false; why = append(why, s) }
	// pk of the aggregated key / signature by the aggregated key
	if !aggSk.PublicKey().Equals(aggPk) || !bytes.Equal(aggSk.PublicKey().Encode(), aggPk.Encode()) {
		fail("pk(agg sk) != agg(pks)")
	}
	sAgg, _ := aggSk.Sign(msg, hs)
	if !bytes.Equal(sAgg, aggSig) {
		fail("sign(agg sk) != agg(sigs)")
	}
	// permutation and nesting
	perm := rr.Perm(len(sks))
	var psk []crypto.PrivateKey
	var ppk []crypto.PublicKey
	var psg []crypto.Signature
	for _, i := range perm {
		psk, ppk, psg = append(psk, sks[i]), append(ppk, pks[i]), append(psg, sigs[i])
	}
	x1, _ := crypto.AggregateBLSPrivateKeys(psk)
	x2, _ := crypto.AggregateBLSPublicKeys(ppk)
	x3, _ := crypto.AggregateBLSSignatures(psg)
	if !x1.Equals(aggSk) || !x2.Equals(aggPk) || !bytes.Equal(x3, aggSig) {
		fail("aggregation depends on the order")
	}
	if len(sks) >= 2 {
		cut := 1 + rr.IntN(len(sks)-1)
		l1, _ := crypto.AggregateBLSPrivateKeys(sks[:cut])
		l2, _ := crypto.AggregateBLSPrivateKeys(sks[cut:])
		n1, _ := crypto.AggregateBLSPrivateKeys([]crypto.PrivateKey{l1, l2})
		p1, _ := crypto.AggregateBLSPublicKeys(pks[:cut])
		p2, _ := crypto.AggregateBLSPublicKeys(pks[cut:])
		n2, _ := crypto.AggregateBLSPublicKeys([]crypto.PublicKey{p1, p2})
		s1, _ := crypto.AggregateBLSSignatures(sigs[:cut])
		s2, _ := crypto.AggregateBLSSignatures(sigs[cut:])
		n3, _ := crypto.AggregateBLSSignatures([]crypto.Signature{s1, s2})
		if !n1.Equals(aggSk) || !n2.Equals(aggPk) || !bytes.Equal(n3, aggSig) {
			fail("nested aggregation differs from flat aggregation")
		}
		// Remove(Agg(A+B), B) = Agg(A), for the random cut and for every cut position
		for c2 := 1; c2 < len(pks); c2++ {
			if c2 != cut && len(pks) > 6 {
				continue
			}
			pa, _ := crypto.AggregateBLSPublicKeys(pks[:c2])
			rem, err := crypto.RemoveBLSPublicKeys(aggPk, pks[c2:])
			if err != nil || !rem.Equals(pa) || !bytes.Equal(rem.Encode(), pa.Encode()) {
				fail(fmt.Sprintf("Remove(Agg(A+B),B) != Agg(A) at cut %d", c2))
			}
			// ... as a key OBJECT too: it verifies what Agg(A) verifies (a cached identity flag that does
			// not match the point shows here, not in Equals / Encode)
			if err == nil {
				partSig, _ := crypto.AggregateBLSSignatures(sigs[:c2])
				remIsId := bytes.Equal(rem.Encode(), idEnc)
				if ok, e := rem.Verify(partSig, msg, hs); e != nil || ok == remIsId {
					fail(fmt.Sprintf("Remove(Agg(A+B),B) at cut %d: signature of A's keys verifies=%v, key is identity=%v", c2, ok, remIsId))
				}
				if ok, _ := rem.Verify(idSig, msg, hs); ok {
					fail(fmt.Sprintf("Remove(Agg(A+B),B) at cut %d accepts the identity signature", c2))
				}
			}
		}
	}
	// removing every key leaves the identity KEY (which verifies nothing, not even the identity signature)
	if all, err := crypto.RemoveBLSPublicKeys(aggPk, pks); err != nil || !bytes.Equal(all.Encode(), idEnc) {
		fail("Remove(Agg(A),A) is not the identity key")
	} else {
		if ok, _ := all.Verify(idSig, msg, hs); ok {
			fail("Remove(Agg(A),A) accepts the identity signature")
		}
		if !all.Equals(crypto.IdentityBLSPublicKey()) {
			fail("Remove(Agg(A),A) is not Equal to the identity key")
		}
	}
	same, err := crypto.RemoveBLSPublicKeys(aggPk, nil)
	if err != nil || same != aggPk {
		fail("Remove with an empty list must return the same key")
	}
	// identity consistency
	isId := bytes.Equal(aggPk.Encode(), crypto.IdentityBLSPublicKey().Encode())
	if isId != aggPk.Equals(crypto.IdentityBLSPublicKey()) {
		fail("identity key comparison inconsistent")
	}
	if ok, _ := aggPk.Verify(aggSig, msg, hs); ok == isId {
		fail("aggregated signature must verify under the aggregated key iff the key is not the identity")
	}
	// documented errors
	if _, e := crypto.AggregateBLSSignatures(nil); !crypto.IsBLSAggregateEmptyListError(e) {
		fail("empty signature list")
	}
	if _, e := crypto.AggregateBLSPrivateKeys(nil); !crypto.IsBLSAggregateEmptyListError(e) {
		fail("empty private key list")
	}
	if _, e := crypto.AggregateBLSPublicKeys(nil); !crypto.IsBLSAggregateEmptyListError(e) {
		fail("empty public key list")
	}
	ek, _ := crypto.GeneratePrivateKey(crypto.ECDSAP256, rbytes(rr, 32))
	if _, e := crypto.AggregateBLSPrivateKeys(append(append([]crypto.PrivateKey{}, sks...), ek)); !crypto.IsNotBLSKeyError(e) {
		fail("non-BLS private key")
	}
	if _, e := crypto.AggregateBLSPublicKeys(append([]crypto.PublicKey{ek.PublicKey()}, pks...)); !crypto.IsNotBLSKeyError(e) {
		fail("non-BLS public key")
	}
	if _, e := crypto.RemoveBLSPublicKeys(aggPk, []crypto.PublicKey{ek.PublicKey()}); !crypto.IsNotBLSKeyError(e) {
		fail("non-BLS key to remove")
	}
	pos := rr.IntN(len(sigs))
	bad := append([]crypto.Signature{}, sigs...)
	bad[pos] = bad[pos][:47]
	if _, e := crypto.AggregateBLSSignatures(bad); !crypto.IsInvalidSignatureError(e) {
		fail("short signature in the list")
	}
	bad[pos] = append([]byte{}, sigs[pos]...)
	bad[pos][0] &= 0x7F
	if _, e := crypto.AggregateBLSSignatures(bad); !crypto.IsInvalidSignatureError(e) {
		fail("malformed signature in the list")
	}
	// arbitrary E1 points
	var pts []crypto.Signature
	var ptsHex []string
	var prev e1pt
	prev = e1Decompress(sigs[0])
	for _, kind := range in.Points {
		var p e1pt
		switch kind {
		case "g1":
			p = e1Decompress(sigs[rr.IntN(len(sigs))])
		case "torsion":
			p = e1Torsion(rr)
		case "random":
			p = e1Random(rr)
		case "inf":
			p = e1pt{inf: true}
		case "neg-prev":
			p = e1Neg(prev)
		}
		prev = p
		b := e1Compress(p)
		pts = append(pts, b)
		ptsHex = append(ptsHex, cqs(hx(b)))
	}
	aggPts, err := crypto.AggregateBLSSignatures(pts)
	if err != nil {
		return Result{}, implViolation("aggregating valid encodings failed: %v", err)
	}
	ptsId := crypto.IsBLSSignatureIdentity(aggPts)
	var sch []string
	for _, s := range in.Scalars {
		sch = append(sch, cqs(s))
	}
	term := fmt.Sprintf("mkCase %s %s %s %s %s %s %s %s %s", cqlist(sch), cqs(hx(hEnc)), cqs(hx(aggSk.Encode())), cqs(hx(aggPk.Encode())),
		cqs(hx(aggSig)), cqlist(ptsHex), cqs(hx(aggPts)), cqbool(ptsId), cqbool(consistent))
	return Result{Coq: term, Key: string(c.Input), Nontrivial: len(sks) >= 2 || len(pts) >= 2,
		Obs: map[string]any{"agg_sk": hx(aggSk.Encode()), "agg_pk": hx(aggPk.Encode()), "agg_sig": hx(aggSig), "agg_points": hx(aggPts), "inconsistencies": why}}, nil
}
