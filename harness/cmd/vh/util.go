package main

import (
	"encoding/hex"
	"encoding/json"
	"fmt"
	"math/rand/v2"
	"strings"
)

func hx(b []byte) string { return hex.EncodeToString(b) }

func unhx(s string) []byte {
	b, err := hex.DecodeString(s)
	if err != nil {
		panic(err)
	}
	return b
}

// coq string literal of hex
func cqs(s string) string { return "\"" + s + "\"" }

func cqbool(b bool) string {
	if b {
		return "true"
	}
	return "false"
}

func cqlist(items []string) string { return "[" + strings.Join(items, "; ") + "]" }

func rbytes(r *rand.Rand, n int) []byte {
	b := make([]byte, n)
	for i := range b {
		b[i] = byte(r.Uint32())
	}
	return b
}

func mkcase(kind string, in any) Case {
	b, err := json.Marshal(in)
	if err != nil {
		panic(err)
	}
	return Case{Kind: kind, Input: b}
}

func cqnat(n int) string { return fmt.Sprintf("%d%%nat", n) }
func cqN(n uint64) string { return fmt.Sprintf("%d%%N", n) }

// run f and report whether it panicked
func catch(f func()) (panicked bool, msg string) {
	defer func() {
		if r := recover(); r != nil {
			panicked = true
			msg = fmt.Sprint(r)
		}
	}()
	f()
	return
}
