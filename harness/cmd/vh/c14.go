package main

import (
	"encoding/binary"
	"fmt"
	"math/rand/v2"
	"encoding/json"

	"github.com/onflow/crypto/random"
)

// C14 case: constructor inputs and a list of operations on the generator.
type c14Op struct {
	Op    string `json:"op"`              // read | store | restore | restorebytes | fork | derived
	N     int    `json:"n,omitempty"`     // read size; derived: UintN argument
	State string `json:"state,omitempty"` // restorebytes: hex state
	Nil   bool   `json:"nil,omitempty"`   // read: pass a nil buffer (N must be 0)
	K     int    `json:"k,omitempty"`     // derived: Permutation / SubPermutation size
}
type c14In struct {
	Seed string  `json:"seed"`
	Cust string  `json:"cust"`
	Ops  []c14Op `json:"ops"`
	// NilArgs: seed and customizer are passed as nil slices (Seed and Cust must be empty)
	NilArgs bool `json:"nilargs,omitempty"`
}

func init() {
	register(&Prop{
		ID:     "C14",
		Header: "From Coq Require Import NArith List String.\nFrom V Require Import Lib.Hex Corr.C14Corr.\nImport ListNotations.\nOpen Scope string_scope.\n",
		Check:  "bad_ids",
		PropCheck: "prop_bad_ids",
		Gen:    c14Gen,
		Run:    c14Run,
		Rule:   "structured op sequences (read sizes around the 64-byte block and path boundary incl. nil and 255..257 / 1024 / 4096-byte buffers, Store/Restore at every offset, crafted states with large counters, constructor/restore length errors incl. nil, lengths that are valid only modulo 256, and a rejected restore followed by more output of the untouched generator); fork: a generator restored from a checkpoint runs NEXT TO the original, which keeps being used, both must give the same bytes under different read chunkings and the same Store(); derived: UintN / Permutation / SubPermutation / Shuffle on the generator and on one restored from the checkpoint taken just before must agree, and the raw stream afterwards must continue at the position Store() reports; every buffer given to the constructor / RestoreChacha20PRG must come back unmodified and is overwritten by the harness right after the call; states returned by Store() are kept un-copied and re-read at the end; a case is non-trivial if it produced at least one output byte or exercised a rejection; distinct by (seed, customizer, op list); sampler sizes 256..700 and samplers run first after a checkpoint for odd sizes",
		Shard:  20,
	})
}

func c14Gen(tier string, r *rand.Rand) []Case {
	var cs []Case
	sizes := []int{0, 1, 63, 64, 65, 127, 128, 129, 200}
	maxOff := 130
	nrand := 60
	if tier == "thorough" {
		maxOff = 260
		nrand = 1500
	}
	// every store offset x read size after restore
	for off := 0; off <= maxOff; off++ {
		seed := rbytes(r, 32)
		cust := rbytes(r, r.IntN(13))
		ops := []c14Op{{Op: "read", N: off}, {Op: "store"}, {Op: "restore"}}
		for _, s := range sizes {
			if tier != "thorough" && (off+s)%3 != 0 {
				continue
			}
			ops = append(ops, c14Op{Op: "read", N: s})
		}
		ops = append(ops, c14Op{Op: "store"})
		cs = append(cs, mkcase("store-offset", c14In{Seed: hx(seed), Cust: hx(cust), Ops: ops}))
	}
	// constructor length grid
	for sl := 30; sl <= 34; sl++ {
		for cl := 0; cl <= 14; cl++ {
			cs = append(cs, mkcase("ctor-lengths", c14In{Seed: hx(rbytes(r, sl)), Cust: hx(rbytes(r, cl)), Ops: []c14Op{{Op: "read", N: 70}, {Op: "store"}}}))
		}
	}
	// restore from crafted state bytes: lengths and large counters
	for l := 49; l <= 55; l++ {
		cs = append(cs, mkcase("restore-lengths", c14In{Seed: hx(rbytes(r, 32)), Ops: []c14Op{{Op: "restorebytes", State: hx(rbytes(r, l))}}}))
	}
	counters := []uint64{0, 1, 63, 64, 65, 1 << 20, (1 << 32) - 1, 1 << 32, (1<<32)*64 - 200, (1<<38) - 65, (1 << 38) + 5, (1 << 40) + 64*7 + 3, 1<<63 + 129, ^uint64(0) - 70000}
	for _, ctr := range counters {
		st := rbytes(r, 52)
		binary.LittleEndian.PutUint64(st[44:], ctr)
		ops := []c14Op{{Op: "restorebytes", State: hx(st)}, {Op: "read", N: 1}, {Op: "read", N: 64}, {Op: "store"}, {Op: "restore"}, {Op: "read", N: 65}, {Op: "store"}}
		cs = append(cs, mkcase("restore-counter", c14In{Seed: hx(rbytes(r, 32)), Ops: ops}))
	}
	// lengths far from the accepted one, nil, and lengths that equal the accepted one only modulo 256 / 65536
	ctorLens := [][2]int{{0, 0}, {-1, -1}, {16, 0}, {64, 12}, {32 + 256, 0}, {32 + 256, 12}, {32, 13}, {32, 24}, {32, 256}, {32, 256 + 5}, {32, 256 + 12}, {32 + 512, 256 + 3}}
	if tier == "thorough" {
		// (strings of 2^16 bytes and more overflow the stack of the Coq evaluator: not generated)
		ctorLens = append(ctorLens, [2]int{32 + 1024, 3}, [2]int{32, 1024 + 4}, [2]int{32, 512}, [2]int{31 + 256, 1}, [2]int{33 + 256, 12})
	}
	for _, l := range ctorLens {
		in := c14In{Ops: []c14Op{{Op: "read", N: 70}, {Op: "store"}}}
		if l[0] >= 0 {
			in.Seed, in.Cust = hx(rbytes(r, l[0])), hx(rbytes(r, l[1]))
		} else {
			in.NilArgs = true
		}
		cs = append(cs, mkcase("ctor-lengths-wide", in))
	}
	for _, l := range []int{0, 1, 44, 51, 53, 60, 104, 52 + 256, 52 + 512} {
		// a running generator, a rejected restore, and more output of the (untouched) generator
		ops := []c14Op{{Op: "read", N: 10 + l%60}, {Op: "restorebytes", State: hx(rbytes(r, l))}, {Op: "read", N: 65}, {Op: "store"}, {Op: "restore"}, {Op: "read", N: 3}}
		cs = append(cs, mkcase("restore-rejected-then-use", c14In{Seed: hx(rbytes(r, 32)), Cust: hx(rbytes(r, l%13)), Ops: ops}))
	}
	// buffer sizes at narrowing boundaries and large in-place reads, nil buffers
	big := []int{255, 256, 257, 1024, 4096}
	if tier == "thorough" {
		big = append(big, 511, 512, 513, 8191, 8192, 8193)
	}
	for i, n := range big {
		ops := []c14Op{{Op: "read", N: i * 13 % 64}, {Op: "read", Nil: true}, {Op: "read", N: n}, {Op: "store"}, {Op: "restore"}, {Op: "read", N: 0}, {Op: "read", N: 66}, {Op: "store"}}
		cs = append(cs, mkcase("read-sizes-wide", c14In{Seed: hx(rbytes(r, 32)), Cust: hx(rbytes(r, r.IntN(13))), Ops: ops}))
	}
	// fork: the original generator and generators restored from its checkpoints are used side by side
	nfork := 10
	if tier == "thorough" {
		nfork = 150
	}
	for i := 0; i < nfork; i++ {
		ops := []c14Op{{Op: "read", N: []int{0, 1, 63, 64, 65, 130}[i%6]}, {Op: "fork"}}
		for j := 0; j < 3+r.IntN(4); j++ {
			ops = append(ops, c14Op{Op: "read", N: sizes[r.IntN(len(sizes))]})
			switch r.IntN(4) {
			case 0:
				ops = append(ops, c14Op{Op: "fork"})
			case 1:
				ops = append(ops, c14Op{Op: "store"})
			}
		}
		ops = append(ops, c14Op{Op: "store"})
		cs = append(cs, mkcase("fork", c14In{Seed: hx(rbytes(r, 32)), Cust: hx(rbytes(r, r.IntN(13))), Ops: ops}))
	}
	// derived samplers between raw reads: they consume the same stream, Store() must account for it
	nder := 10
	if tier == "thorough" {
		nder = 150
	}
	for i := 0; i < nder; i++ {
		ns := []int{1, 2, 3, 255, 256, 257, 1000, 65537, 1 << 33}
		ops := []c14Op{{Op: "read", N: []int{0, 5, 64, 61}[i%4]}}
		for j := 0; j < 2+r.IntN(3); j++ {
			k := r.IntN(40)
			if r.IntN(3) == 0 {
				k = []int{256, 257, 258, 301, 513, 700}[r.IntN(6)] // the population counter crosses one byte inside the call
			}
			ops = append(ops, c14Op{Op: "derived", N: ns[r.IntN(len(ns))], K: k}, c14Op{Op: "read", N: sizes[r.IntN(len(sizes))]}, c14Op{Op: "store"})
			if r.IntN(3) == 0 {
				ops = append(ops, c14Op{Op: "restore"})
			}
		}
		cs = append(cs, mkcase("derived", c14In{Seed: hx(rbytes(r, 32)), Cust: hx(rbytes(r, r.IntN(13))), Ops: ops}))
	}
	// random mixes
	for i := 0; i < nrand; i++ {
		var ops []c14Op
		n := 1 + r.IntN(8)
		for j := 0; j < n; j++ {
			switch r.IntN(6) {
			case 0:
				ops = append(ops, c14Op{Op: "store"})
			case 1:
				ops = append(ops, c14Op{Op: "store"}, c14Op{Op: "restore"})
			default:
				sz := sizes[r.IntN(len(sizes))]
				if r.IntN(3) == 0 {
					sz = r.IntN(300)
				}
				ops = append(ops, c14Op{Op: "read", N: sz})
			}
		}
		cs = append(cs, mkcase("random-mix", c14In{Seed: hx(rbytes(r, 32)), Cust: hx(rbytes(r, r.IntN(13))), Ops: ops}))
	}
	return cs
}

func c14Scribble(b []byte) {
	for i := range b {
		b[i] ^= 0x5A
	}
}

func c14Run(c Case) (Result, error) {
	var in c14In
	if err := json.Unmarshal(c.Input, &in); err != nil {
		return Result{}, err
	}
	type obsOp struct {
		Op  string `json:"op"`
		Out string `json:"out,omitempty"`
		Ok  bool   `json:"ok"`
	}
	var obs []obsOp
	var coqOps []string
	type keptState struct {
		raw []byte
		hex string
	}
	var kept []keptState
	produced := 0
	rejected := false
	viol := "" // first contract violation the runner can judge by itself
	fail := func(f string, a ...any) {
		if viol == "" {
			viol = fmt.Sprintf(f, a...)
		}
	}
	var seedB, custB []byte
	var sentinelBuf []byte
	sentinelFrom := 0
	if !in.NilArgs {
		// the two arguments are views into ONE buffer, customizer || seed || sentinel, each with spare
		// capacity reaching into what follows it: an append on either argument inside the library
		// would overwrite its neighbour (message layouts like this are what decoders hand out)
		cb, sb := unhx(in.Cust), unhx(in.Seed)
		buf := make([]byte, len(cb)+len(sb)+16)
		copy(buf, cb)
		copy(buf[len(cb):], sb)
		for i := len(cb) + len(sb); i < len(buf); i++ {
			buf[i] = 0xA5
		}
		custB = buf[:len(cb)]
		seedB = buf[len(cb) : len(cb)+len(sb)]
		sentinelFrom, sentinelBuf = len(cb)+len(sb), buf
	}
	prg, err := random.NewChacha20PRG(seedB, custB)
	for i := sentinelFrom; i < len(sentinelBuf); i++ {
		if sentinelBuf[i] != 0xA5 {
			fail("NewChacha20PRG wrote past the end of the caller's seed")
		}
	}
	if hx(seedB) != in.Seed || hx(custB) != in.Cust {
		fail("NewChacha20PRG modified the caller's seed or customizer buffer")
	}
	// the caller owns these buffers: reusing them must not change the generator
	c14Scribble(seedB)
	c14Scribble(custB)
	ctorOK := err == nil
	var cur random.Rand
	if ctorOK {
		cur = prg
	} else {
		rejected = true
		if prg != nil {
			fail("NewChacha20PRG returned an error (%v) together with a non-nil generator", err)
		}
	}
	// restore from a private copy of the state bytes, which is overwritten as soon as the call returned
	restoreFrom := func(st []byte) (random.Rand, error) {
		b := append([]byte{}, st...)
		if st == nil {
			b = nil
		}
		p2, err := random.RestoreChacha20PRG(b)
		if hx(b) != hx(st) {
			fail("RestoreChacha20PRG modified the state bytes it was given")
		}
		c14Scribble(b)
		if err != nil {
			if p2 != nil {
				fail("RestoreChacha20PRG returned an error (%v) together with a non-nil generator", err)
			}
			return nil, err
		}
		return p2, nil
	}
	var sibs []random.Rand // generators restored from checkpoints of cur, at the same position as cur
	for _, op := range in.Ops {
		switch op.Op {
		case "read":
			if cur == nil {
				continue
			}
			var buf []byte
			if !op.Nil {
				buf = make([]byte, op.N)
			} else if op.N != 0 {
				return Result{}, fmt.Errorf("nil read with a size")
			}
			for i := range buf {
				buf[i] = 0xA5 // dirty buffer: Read must overwrite it
			}
			cur.Read(buf)
			produced += op.N
			obs = append(obs, obsOp{"read", hx(buf), true})
			coqOps = append(coqOps, fmt.Sprintf("ORead %d %s", op.N, cqs(hx(buf))))
			for k, sb := range sibs {
				// the same bytes in two pieces (cut position differs per sibling)
				cut := op.N / 2
				if k%2 == 1 && op.N > 0 {
					cut = 1
				}
				b2 := make([]byte, op.N)
				sb.Read(b2[:cut])
				sb.Read(b2[cut:])
				if hx(b2) != hx(buf) {
					fail("a generator restored from an earlier checkpoint and read up to the same offset returns %s where the original returns %s (read of %d bytes)", hx(b2), hx(buf), op.N)
				}
			}
		case "store":
			if cur == nil {
				continue
			}
			st := cur.Store()
			kept = append(kept, keptState{st, hx(st)}) // NOT copied: a checkpoint must stay valid
			obs = append(obs, obsOp{"store", hx(st), true})
			coqOps = append(coqOps, "OStore "+cqs(hx(st)))
			for _, sb := range sibs {
				if s2 := sb.Store(); hx(s2) != hx(st) {
					fail("Store() of a restored generator at the same offset is %s, of the original %s", hx(s2), hx(st))
				}
			}
		case "restore":
			if cur == nil {
				continue
			}
			p2, err := restoreFrom(cur.Store())
			obs = append(obs, obsOp{"restore", "", err == nil})
			coqOps = append(coqOps, "ORestore "+cqbool(err == nil))
			if err == nil {
				cur = p2
			}
		case "restorebytes":
			var stb []byte
			if !op.Nil {
				stb = unhx(op.State)
			}
			p2, err := restoreFrom(stb)
			obs = append(obs, obsOp{"restorebytes", "", err == nil})
			coqOps = append(coqOps, fmt.Sprintf("ORestoreBytes %s %s", cqs(op.State), cqbool(err == nil)))
			if err == nil {
				cur = p2
				sibs = nil
			} else {
				rejected = true
			}
		case "fork":
			// cur stays the ORIGINAL object; the restored one runs next to it from now on
			if cur == nil {
				continue
			}
			p2, err := restoreFrom(cur.Store())
			if err != nil {
				fail("RestoreChacha20PRG(Store()) failed: %v", err)
				continue
			}
			sibs = append(sibs, p2)
		case "derived":
			// samplers consume the same stream: run them on cur and on a generator restored from the
			// checkpoint taken just before; then tell the Coq side the position Store() now reports
			if cur == nil {
				continue
			}
			p2, err := restoreFrom(cur.Store())
			if err != nil {
				fail("RestoreChacha20PRG(Store()) failed: %v", err)
				continue
			}
			draw := func(g random.Rand) string {
				var sw [][2]int
				// odd K: the samplers come first, so that whatever scratch memory the ORIGINAL generator carries
				// from before the checkpoint (the restored one starts clean) is still there when they run
				var v uint64
				if op.K%2 == 0 {
					v = g.UintN(uint64(op.N))
				}
				pm, e1 := g.Permutation(op.K)
				sp, e2 := g.SubPermutation(op.K+3, op.K/2)
				e3 := g.Shuffle(op.K/3, func(i, j int) { sw = append(sw, [2]int{i, j}) })
				if op.K%2 == 1 {
					v = g.UintN(uint64(op.N))
				}
				return fmt.Sprint(v, pm, e1, sp, e2, sw, e3, hx(g.Store()))
			}
			a, b := draw(cur), draw(p2)
			if a != b {
				fail("UintN(%d)/Permutation(%d)/SubPermutation/Shuffle on a generator and on one restored from its checkpoint differ: %s vs %s", op.N, op.K, a, b)
			}
			sibs = nil // siblings are not advanced through the samplers
			st := cur.Store()
			obs = append(obs, obsOp{"derived", hx(st), true})
			coqOps = append(coqOps, fmt.Sprintf("ORestoreBytes %s true", cqs(hx(st))))
		default:
			return Result{}, fmt.Errorf("unknown op %q", op.Op)
		}
	}
	if viol != "" {
		return Result{}, implViolation("%s", viol)
	}
	// every state returned by Store() is a value: later calls on the generator must not change it
	for k, ks := range kept {
		if hx(ks.raw) != ks.hex {
			return Result{}, implViolation("the state returned by Store() call #%d (%s) reads %s after later calls on the same generator: Restore of an earlier checkpoint no longer resumes at its offset", k, ks.hex, hx(ks.raw))
		}
	}
	term := fmt.Sprintf("mkCase %s %s %s %s", cqs(in.Seed), cqs(in.Cust), cqbool(ctorOK), cqlist(coqOps))
	return Result{Coq: term, Key: string(c.Input), Nontrivial: produced > 0 || rejected, Obs: map[string]any{"ctor_ok": ctorOK, "ops": obs}}, nil
}
