package main

import (
	"encoding/binary"
	"fmt"
	"math/rand/v2"
	"encoding/json"

	"github.com/onflow/crypto/random"
)

// C14 case: constructor inputs and a list of operations on the generator.
type c14Op struct {
	Op    string `json:"op"`              // read | store | restore | restorebytes
	N     int    `json:"n,omitempty"`     // read size
	State string `json:"state,omitempty"` // restorebytes: hex state
}
type c14In struct {
	Seed string  `json:"seed"`
	Cust string  `json:"cust"`
	Ops  []c14Op `json:"ops"`
}

func init() {
	register(&Prop{
		ID:     "C14",
		Header: "From Coq Require Import NArith List String.\nFrom V Require Import Lib.Hex Corr.C14Corr.\nImport ListNotations.\nOpen Scope string_scope.\n",
		Check:  "bad_ids",
		PropCheck: "prop_bad_ids",
		Gen:    c14Gen,
		Run:    c14Run,
		Rule:   "structured op sequences (read sizes around the 64-byte block and path boundary, Store/Restore at every offset, crafted states with large counters, constructor/restore length errors); a case is non-trivial if it produced at least one output byte or exercised a rejection; distinct by (seed, customizer, op list)",
		Shard:  20,
	})
}

func c14Gen(tier string, r *rand.Rand) []Case {
	var cs []Case
	sizes := []int{0, 1, 63, 64, 65, 127, 128, 129, 200}
	maxOff := 130
	nrand := 60
	if tier == "thorough" {
		maxOff = 260
		nrand = 1500
	}
	// every store offset x read size after restore
	for off := 0; off <= maxOff; off++ {
		seed := rbytes(r, 32)
		cust := rbytes(r, r.IntN(13))
		ops := []c14Op{{Op: "read", N: off}, {Op: "store"}, {Op: "restore"}}
		for _, s := range sizes {
			if tier != "thorough" && (off+s)%3 != 0 {
				continue
			}
			ops = append(ops, c14Op{Op: "read", N: s})
		}
		ops = append(ops, c14Op{Op: "store"})
		cs = append(cs, mkcase("store-offset", c14In{hx(seed), hx(cust), ops}))
	}
	// constructor length grid
	for sl := 30; sl <= 34; sl++ {
		for cl := 0; cl <= 14; cl++ {
			cs = append(cs, mkcase("ctor-lengths", c14In{hx(rbytes(r, sl)), hx(rbytes(r, cl)), []c14Op{{Op: "read", N: 70}, {Op: "store"}}}))
		}
	}
	// restore from crafted state bytes: lengths and large counters
	for l := 49; l <= 55; l++ {
		cs = append(cs, mkcase("restore-lengths", c14In{hx(rbytes(r, 32)), "", []c14Op{{Op: "restorebytes", State: hx(rbytes(r, l))}}}))
	}
	counters := []uint64{0, 1, 63, 64, 65, 1 << 20, (1 << 32) - 1, 1 << 32, (1<<32)*64 - 200, (1<<38) - 65, (1 << 38) + 5, (1 << 40) + 64*7 + 3, 1<<63 + 129, ^uint64(0) - 70000}
	for _, ctr := range counters {
		st := rbytes(r, 52)
		binary.LittleEndian.PutUint64(st[44:], ctr)
		ops := []c14Op{{Op: "restorebytes", State: hx(st)}, {Op: "read", N: 1}, {Op: "read", N: 64}, {Op: "store"}, {Op: "restore"}, {Op: "read", N: 65}, {Op: "store"}}
		cs = append(cs, mkcase("restore-counter", c14In{hx(rbytes(r, 32)), "", ops}))
	}
	// random mixes
	for i := 0; i < nrand; i++ {
		var ops []c14Op
		n := 1 + r.IntN(8)
		for j := 0; j < n; j++ {
			switch r.IntN(6) {
			case 0:
				ops = append(ops, c14Op{Op: "store"})
			case 1:
				ops = append(ops, c14Op{Op: "store"}, c14Op{Op: "restore"})
			default:
				sz := sizes[r.IntN(len(sizes))]
				if r.IntN(3) == 0 {
					sz = r.IntN(300)
				}
				ops = append(ops, c14Op{Op: "read", N: sz})
			}
		}
		cs = append(cs, mkcase("random-mix", c14In{hx(rbytes(r, 32)), hx(rbytes(r, r.IntN(13))), ops}))
	}
	return cs
}

func c14Run(c Case) (Result, error) {
	var in c14In
	if err := json.Unmarshal(c.Input, &in); err != nil {
		return Result{}, err
	}
	type obsOp struct {
		Op  string `json:"op"`
		Out string `json:"out,omitempty"`
		Ok  bool   `json:"ok"`
	}
	var obs []obsOp
	var coqOps []string
	type keptState struct {
		raw []byte
		hex string
	}
	var kept []keptState
	produced := 0
	rejected := false
	prg, err := random.NewChacha20PRG(unhx(in.Seed), unhx(in.Cust))
	ctorOK := err == nil
	var cur random.Rand
	if ctorOK {
		cur = prg
	} else {
		rejected = true
	}
	for _, op := range in.Ops {
		switch op.Op {
		case "read":
			if cur == nil {
				continue
			}
			buf := make([]byte, op.N)
			for i := range buf {
				buf[i] = 0xA5 // dirty buffer: Read must overwrite it
			}
			cur.Read(buf)
			produced += op.N
			obs = append(obs, obsOp{"read", hx(buf), true})
			coqOps = append(coqOps, fmt.Sprintf("ORead %d %s", op.N, cqs(hx(buf))))
		case "store":
			if cur == nil {
				continue
			}
			st := cur.Store()
			kept = append(kept, keptState{st, hx(st)}) // NOT copied: a checkpoint must stay valid
			obs = append(obs, obsOp{"store", hx(st), true})
			coqOps = append(coqOps, "OStore "+cqs(hx(st)))
		case "restore":
			if cur == nil {
				continue
			}
			p2, err := random.RestoreChacha20PRG(cur.Store())
			obs = append(obs, obsOp{"restore", "", err == nil})
			coqOps = append(coqOps, "ORestore "+cqbool(err == nil))
			if err == nil {
				cur = p2
			}
		case "restorebytes":
			p2, err := random.RestoreChacha20PRG(unhx(op.State))
			obs = append(obs, obsOp{"restorebytes", "", err == nil})
			coqOps = append(coqOps, fmt.Sprintf("ORestoreBytes %s %s", cqs(op.State), cqbool(err == nil)))
			if err == nil {
				cur = p2
			} else {
				rejected = true
			}
		default:
			return Result{}, fmt.Errorf("unknown op %q", op.Op)
		}
	}
	// every state returned by Store() is a value: later calls on the generator must not change it
	for k, ks := range kept {
		if hx(ks.raw) != ks.hex {
			return Result{}, implViolation("the state returned by Store() call #%d (%s) reads %s after later calls on the same generator: Restore of an earlier checkpoint no longer resumes at its offset", k, ks.hex, hx(ks.raw))
		}
	}
	term := fmt.Sprintf("mkCase %s %s %s %s", cqs(in.Seed), cqs(in.Cust), cqbool(ctorOK), cqlist(coqOps))
	return Result{Coq: term, Key: string(c.Input), Nontrivial: produced > 0 || rejected, Obs: map[string]any{"ctor_ok": ctorOK, "ops": obs}}, nil
}
