package main

// C07: honest DKG participants agree on the verdict and on consistent keys.  Same network
// simulator and scenario generator as C08 (dkgsim.go, c08.go) without the plain-VSS family;
// the property oracle compares the End results and the disqualification callbacks of all
// honest participants of a run.

import "math/rand/v2"

func init() {
	register(&Prop{
		ID:        "C07",
		Header:    simHeader,
		Check:     "bad_ids",
		PropCheck: "c07_prop_bad_ids",
		Gen:       func(tier string, r *rand.Rand) []Case { return simGen(tier, r, "C07") },
		Run:       simRunBehave,
		Rule:      "network simulations of Feldman-VSS-Qual and Joint-Feldman (n real instances for the honest participants, <= t scripted Byzantine participants, random admissible delivery orders with order hints): dealer faults, complainer faults, > t / exactly t complaints, unsolicited answers, random mixtures; audit families as in C08 (defect position inside the vector, wrong-then-right / duplicated shares and answers, colluding complainer answered in every way, per-receiver defects, polynomial with a root at a participant's point, two faulty dealers, two dealers with one polynomial, t >= n/2, n = 254); runner-side: when all honest participants return the same keys the key OBJECTS are used: each private share signs verifiably under its public share as returned to another participant, two different sets of t+1 shares reconstruct the same threshold signature and it verifies under the group key; byte-slice arguments unmodified; non-trivial if an event was emitted; distinct by scenario",
		Shard:     12,
	})
}
