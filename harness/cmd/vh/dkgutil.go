package main

// Shared helpers of the DKG properties C10, C08, C07: scalar arithmetic mod r,
// the scalar <-> G2 encoding dictionary (built with the library itself), recovery of a
// dealer's polynomial from its seed, a recording DKGProcessor and the abstraction of real
// message bytes into the message view of coq/Model/DkgVss.v.

import (
	"fmt"
	"math/big"
	"strings"

	"github.com/onflow/crypto"
)

var dkgR, _ = new(big.Int).SetString("73eda753299d7d483339d80809a1d80553bda402fffe5bfeffffffff00000001", 16)

const (
	dkgTagShare     = 0
	dkgTagVec       = 1
	dkgTagComplaint = 2
	dkgTagAnswer    = 3
	dkgG2Len        = 96
	dkgFrLen        = 32
)

func dkgMod(x *big.Int) *big.Int { return new(big.Int).Mod(x, dkgR) }

func dkgScalarBytes(s *big.Int) []byte {
	b := make([]byte, dkgFrLen)
	s.FillBytes(b)
	return b
}

// dictionary: scalar (decimal string) -> encoding of s.g2, and back
var dkgEnc = map[string][]byte{}
var dkgLog = map[string]*big.Int{}

func dkgInfinityG2() []byte {
	b := make([]byte, dkgG2Len)
	b[0] = 0xC0
	return b
}

// encoding of s.g2 computed by the library
func dkgEncG2(s *big.Int) []byte {
	s = dkgMod(s)
	k := s.String()
	if e, ok := dkgEnc[k]; ok {
		return e
	}
	var e []byte
	if s.Sign() == 0 {
		e = dkgInfinityG2()
	} else {
		sk, err := crypto.DecodePrivateKey(crypto.BLSBLS12381, dkgScalarBytes(s))
		if err != nil {
			panic(err)
		}
		e = sk.PublicKey().Encode()
	}
	dkgEnc[k] = e
	dkgLog[string(e)] = s
	return e
}

func dkgPeval(a []*big.Int, x int64) *big.Int {
	acc := new(big.Int)
	bx := big.NewInt(x)
	for i := len(a) - 1; i >= 0; i-- {
		acc.Mul(acc, bx)
		acc.Add(acc, a[i])
		acc.Mod(acc, dkgR)
	}
	return acc
}

// Lagrange interpolation mod r: the coefficients of the polynomial of degree < len(xs)
// through (xs[i], ys[i])
func dkgInterpolate(xs []int64, ys []*big.Int) []*big.Int {
	k := len(xs)
	res := make([]*big.Int, k)
	for i := range res {
		res[i] = new(big.Int)
	}
	for i := 0; i < k; i++ {
		// basis polynomial numerator prod_{j != i} (X - x_j), as coefficients
		num := []*big.Int{big.NewInt(1)}
		den := big.NewInt(1)
		for j := 0; j < k; j++ {
			if j == i {
				continue
			}
			nn := make([]*big.Int, len(num)+1)
			for q := range nn {
				nn[q] = new(big.Int)
			}
			for q, c := range num {
				nn[q+1].Add(nn[q+1], c)
				tmp := new(big.Int).Mul(c, big.NewInt(xs[j]))
				nn[q].Sub(nn[q], tmp)
			}
			for q := range nn {
				nn[q].Mod(nn[q], dkgR)
			}
			num = nn
			den.Mul(den, big.NewInt(xs[i]-xs[j]))
			den.Mod(den, dkgR)
		}
		inv := new(big.Int).ModInverse(den, dkgR)
		f := new(big.Int).Mul(ys[i], inv)
		f.Mod(f, dkgR)
		for q, c := range num {
			tmp := new(big.Int).Mul(c, f)
			res[q].Add(res[q], tmp)
			res[q].Mod(res[q], dkgR)
		}
	}
	return res
}

// ---- recording processor ----
type dkgEvent struct {
	Kind   string `json:"kind"` // send | bcast | disq | flag
	Target int    `json:"target"`
	Data   string `json:"data,omitempty"`
}

type dkgProc struct{ events []dkgEvent }

func (p *dkgProc) PrivateSend(dest int, data []byte) {
	p.events = append(p.events, dkgEvent{"send", dest, hx(data)})
}
func (p *dkgProc) Broadcast(data []byte) { p.events = append(p.events, dkgEvent{"bcast", -1, hx(data)}) }
func (p *dkgProc) Disqualify(i int, _ string) {
	p.events = append(p.events, dkgEvent{"disq", i, ""})
}
func (p *dkgProc) FlagMisbehavior(i int, _ string) {
	p.events = append(p.events, dkgEvent{"flag", i, ""})
}
func (p *dkgProc) take() []dkgEvent {
	e := p.events
	p.events = nil
	return e
}

func dkgErrClass(err error) string {
	switch {
	case err == nil:
		return "ok"
	case crypto.IsInvalidInputsError(err):
		return "invalid-input"
	case crypto.IsDKGInvalidStateTransitionError(err):
		return "state"
	case crypto.IsDKGFailureError(err):
		return "failure"
	}
	return "other"
}

// ---- the polynomial a dealer derives from a seed ----
var dkgPolyCache = map[string][]*big.Int{}

// runs a throw-away plain Feldman VSS dealer (size t+2, index 0) on the seed, collects the
// t+1 shares it sends and its own share from End, interpolates and cross-checks the result
// against the broadcast verification vector through the dictionary.
func dkgPolyOfSeed(seed []byte, t int) ([]*big.Int, error) {
	key := fmt.Sprintf("%d/%x", t, seed)
	if a, ok := dkgPolyCache[key]; ok {
		return a, nil
	}
	p := &dkgProc{}
	n := t + 2
	d, err := crypto.NewFeldmanVSS(n, t, 0, p, 0)
	if err != nil {
		return nil, err
	}
	if err := d.Start(seed); err != nil {
		return nil, err
	}
	ev := p.take()
	var xs []int64
	var ys []*big.Int
	var vec []byte
	for _, e := range ev {
		switch e.Kind {
		case "send":
			b := unhx(e.Data)
			xs = append(xs, int64(e.Target+1))
			ys = append(ys, new(big.Int).SetBytes(b[1:]))
		case "bcast":
			vec = unhx(e.Data)
		}
	}
	x, _, _, err := d.End()
	if err != nil {
		return nil, err
	}
	xs = append(xs, 1)
	ys = append(ys, new(big.Int).SetBytes(x.Encode()))
	a := dkgInterpolate(xs[:t+1], ys[:t+1])
	for i := range xs {
		if dkgPeval(a, xs[i]).Cmp(ys[i]) != 0 {
			return nil, fmt.Errorf("polyOfSeed: shares are not on one polynomial of degree %d", t)
		}
	}
	if len(vec) != 1+dkgG2Len*(t+1) {
		return nil, fmt.Errorf("polyOfSeed: vector length %d", len(vec))
	}
	for k := 0; k <= t; k++ {
		if string(dkgEncG2(a[k])) != string(vec[1+dkgG2Len*k:1+dkgG2Len*(k+1)]) {
			return nil, fmt.Errorf("polyOfSeed: vector entry %d does not match the interpolated coefficient", k)
		}
	}
	dkgPolyCache[key] = a
	return a, nil
}

// ---- Coq terms ----
func cqZ(z *big.Int) string {
	if z.Sign() < 0 || z.BitLen() <= 62 {
		return "(" + z.String() + ")%Z"
	}
	h := z.Text(16)
	if len(h)%2 == 1 {
		h = "0" + h
	}
	return "(zh \"" + h + "\")"
}
func cqZi(z int) string     { return fmt.Sprintf("(%d)%%Z", z) }
func cqZlist(l []*big.Int) string {
	s := make([]string, len(l))
	for i, z := range l {
		s[i] = cqZ(z)
	}
	return "[" + strings.Join(s, "; ") + "]"
}

// view of message bytes as coq/Model/DkgVss.v sees them: MEmpty or classify t tag raw
func dkgAbsMsg(data []byte, t int) (string, error) {
	if len(data) == 0 {
		return "MEmpty", nil
	}
	body := data[1:]
	first := 0
	if len(body) > 0 {
		first = int(body[0])
	}
	s0, s1 := new(big.Int), new(big.Int)
	if len(body) == dkgFrLen {
		s0.SetBytes(body)
	}
	if len(body) == dkgFrLen+1 {
		s1.SetBytes(body[1:])
	}
	vec := "VBadLen"
	if len(body) == dkgG2Len*(t+1) {
		var logs []*big.Int
		bad := false
		for k := 0; k <= t; k++ {
			ch := body[dkgG2Len*k : dkgG2Len*(k+1)]
			if s, ok := dkgLog[string(ch)]; ok {
				logs = append(logs, s)
				continue
			}
			if _, err := crypto.DecodePublicKey(crypto.BLSBLS12381, ch); err != nil {
				bad = true
				break
			}
			return "", fmt.Errorf("abstraction: a valid G2 point with unknown discrete log in a verification vector")
		}
		if bad {
			vec = "(VBad 1)"
		} else {
			vec = "(VOk " + cqZlist(logs) + ")"
		}
	}
	return fmt.Sprintf("(classify %d %s (mkRaw %d %s %s %s %s))", t, cqZi(int(data[0])), len(body), cqZi(first), cqZ(s0), cqZ(s1), vec), nil
}

func dkgAbsEvents(ev []dkgEvent, t int) (string, error) {
	var items []string
	for _, e := range ev {
		switch e.Kind {
		case "send":
			m, err := dkgAbsMsg(unhx(e.Data), t)
			if err != nil {
				return "", err
			}
			items = append(items, fmt.Sprintf("EvSend %d %s", e.Target, m))
		case "bcast":
			m, err := dkgAbsMsg(unhx(e.Data), t)
			if err != nil {
				return "", err
			}
			items = append(items, "EvBcast "+m)
		case "disq":
			items = append(items, fmt.Sprintf("EvDisq %d", e.Target))
		case "flag":
			items = append(items, fmt.Sprintf("EvFlag %d", e.Target))
		}
	}
	return cqlist(items), nil
}

// discrete log of an encoded public key among the candidate scalars
func dkgLogOf(enc []byte, cands []*big.Int) (*big.Int, bool) {
	if s, ok := dkgLog[string(enc)]; ok {
		return s, true
	}
	for _, c := range cands {
		if string(dkgEncG2(c)) == string(enc) {
			return dkgMod(c), true
		}
	}
	return nil, false
}

// all sums over non-empty subsets of the polynomials, evaluated at x (x = 0 is the constant term)
func dkgSubsetSums(polys [][]*big.Int, x int64) []*big.Int {
	var vals []*big.Int
	for _, p := range polys {
		if p != nil { // unknown polynomials take part in no sum
			vals = append(vals, dkgPeval(p, x))
		}
	}
	var res []*big.Int
	for m := 1; m < 1<<len(vals); m++ {
		s := new(big.Int)
		ok := true
		for i, v := range vals {
			if m>>i&1 == 1 {
				if v == nil {
					ok = false
					break
				}
				s.Add(s, v)
			}
		}
		if ok {
			res = append(res, dkgMod(s))
		}
	}
	return res
}

// End() keys as a Coq result term; the logs of the public keys are searched among the
// subset sums of the known polynomials
func dkgKeysTerm(x crypto.PrivateKey, Y crypto.PublicKey, ys []crypto.PublicKey, polys [][]*big.Int) (string, map[string]any, error) {
	xs := new(big.Int).SetBytes(x.Encode())
	// a key whose discrete log is none of the expected sums is reported as -1: the model cannot
	// produce it, so the case shows up as a disagreement (and fails the oracles) instead of
	// stopping the run
	unknown := big.NewInt(-1)
	Ylog, ok := dkgLogOf(Y.Encode(), dkgSubsetSums(polys, 0))
	if !ok {
		Ylog = unknown
	}
	var ylogs []*big.Int
	var yhex []string
	for j, y := range ys {
		l, ok := dkgLogOf(y.Encode(), dkgSubsetSums(polys, int64(j+1)))
		if !ok {
			l = unknown
		}
		ylogs = append(ylogs, l)
		yhex = append(yhex, hx(y.Encode()))
	}
	obs := map[string]any{"x": hx(x.Encode()), "Y": hx(Y.Encode()), "y": yhex}
	return fmt.Sprintf("(RKeys %s %s %s)", cqZ(xs), cqZ(Ylog), cqZlist(ylogs)), obs, nil
}

// ---- message builders (scripted senders) ----
func dkgMsgVec(a []*big.Int) []byte {
	b := []byte{dkgTagVec}
	for _, c := range a {
		b = append(b, dkgEncG2(c)...)
	}
	return b
}
func dkgMsgShare(s *big.Int) []byte { return append([]byte{dkgTagShare}, dkgScalarBytes(s)...) }
func dkgMsgComplaint(complainee int) []byte {
	return []byte{dkgTagComplaint, byte(complainee)}
}
func dkgMsgAnswer(complainer int, s *big.Int) []byte {
	return append([]byte{dkgTagAnswer, byte(complainer)}, dkgScalarBytes(s)...)
}

// ---- API calls on a real instance and their observation ----
type dkgCall struct {
	Op   string `json:"op"` // start | timeout | end | running | bcast | priv | force
	Seed string `json:"seed,omitempty"`
	Orig int    `json:"orig,omitempty"`
	Msg  string `json:"msg,omitempty"`
	Nil  bool   `json:"nil,omitempty"` // pass a nil slice (Msg / Seed must be empty) instead of an empty one
}

// the byte-slice argument of a call: nil when asked for, a fresh copy otherwise
func (c dkgCall) bytes(h string) []byte {
	if c.Nil && h == "" {
		return nil
	}
	return unhx(h)
}

type dkgObs struct {
	Class   string         `json:"class"` // ok | invalid-input | state | failure | keys | panic | true | false
	Running bool           `json:"running"`
	Events  []dkgEvent     `json:"events,omitempty"`
	Keys    map[string]any `json:"keys,omitempty"`
	keys    [3]any
}

func dkgExec(d crypto.DKGState, p *dkgProc, c dkgCall) (o dkgObs) {
	var err error
	var x crypto.PrivateKey
	var Y crypto.PublicKey
	var ys []crypto.PublicKey
	isEnd := false
	// the caller's slices are arguments, not scratch space: they are compared with a copy after the call
	seed, msg := c.bytes(c.Seed), c.bytes(c.Msg)
	panicked, _ := catch(func() {
		switch c.Op {
		case "start":
			err = d.Start(seed)
		case "timeout":
			err = d.NextTimeout()
		case "end":
			isEnd = true
			x, Y, ys, err = d.End()
		case "running":
			o.Class = fmt.Sprint(d.Running())
		case "bcast":
			err = d.HandleBroadcastMsg(c.Orig, msg)
		case "priv":
			err = d.HandlePrivateMsg(c.Orig, msg)
		case "force":
			err = d.ForceDisqualify(c.Orig)
		}
	})
	o.Events = p.take()
	if panicked {
		o.Class = "panic"
		return
	}
	if hx(seed) != c.Seed || hx(msg) != c.Msg {
		o.Class = "argument-modified" // no documented class: RUndef for the model and the oracles
		return
	}
	// ... and they are the caller's memory again once the call returns: overwritten here, so that an instance
	// that kept a reference to a seed or a message would behave differently later in the run
	for i := range seed {
		seed[i] ^= 0xa5
	}
	for i := range msg {
		msg[i] ^= 0x5a
	}
	if o.Class == "" {
		o.Class = dkgErrClass(err)
		if isEnd && err == nil {
			o.Class = "keys"
			o.keys = [3]any{x, Y, ys}
		}
	}
	o.Running = d.Running()
	return
}

// End's results are values: the keys an End call returned are encoded again at the end of the run (after
// every later call on the instance) and compared with what they encoded when they were returned.
func dkgKeysStable(obs []dkgObs) error {
	for i, o := range obs {
		if o.Class != "keys" || o.Keys == nil {
			continue
		}
		x, Y, ys := o.keys[0].(crypto.PrivateKey), o.keys[1].(crypto.PublicKey), o.keys[2].([]crypto.PublicKey)
		yhex, _ := o.Keys["y"].([]string)
		if hx(x.Encode()) != o.Keys["x"] || hx(Y.Encode()) != o.Keys["Y"] || len(yhex) != len(ys) {
			return implViolation("the keys returned by End (call %d) encode differently after the later calls on the instance", i)
		}
		for j, y := range ys {
			if hx(y.Encode()) != yhex[j] {
				return implViolation("public key share %d returned by End (call %d) encodes differently after the later calls on the instance", j, i)
			}
		}
	}
	return nil
}

func dkgRefused(o dkgObs) bool { return o.Class == "state" || o.Class == "invalid-input" }

func dkgSameObs(a, b dkgObs) bool {
	if a.Class != b.Class || a.Running != b.Running || len(a.Events) != len(b.Events) {
		return false
	}
	for i := range a.Events {
		if a.Events[i] != b.Events[i] {
			return false
		}
	}
	if a.Class == "keys" {
		ax, bx := a.keys[0].(crypto.PrivateKey), b.keys[0].(crypto.PrivateKey)
		aY, bY := a.keys[1].(crypto.PublicKey), b.keys[1].(crypto.PublicKey)
		ay, by := a.keys[2].([]crypto.PublicKey), b.keys[2].([]crypto.PublicKey)
		if !ax.Equals(bx) || !aY.Equals(bY) || len(ay) != len(by) {
			return false
		}
		for i := range ay {
			if !ay[i].Equals(by[i]) {
				return false
			}
		}
	}
	return true
}


// runs one call on the instance; returns the Coq term "(call, mkObs result running events)"
// and the observation.  known: polynomials whose subset sums End's public keys may be.
func dkgStep(d crypto.DKGState, p *dkgProc, call dkgCall, t int, known [][]*big.Int) (string, dkgObs, error) {
	var ct string
	switch call.Op {
	case "start":
		seed := unhx(call.Seed)
		if len(seed) < crypto.KeyGenSeedMinLen {
			ct = "CStart SeedShort"
		} else {
			a, err := dkgPolyOfSeed(seed, t)
			if err != nil {
				return "", dkgObs{}, err
			}
			ct = "CStart (SeedOk " + cqZlist(a) + ")"
		}
	case "timeout":
		ct = "CNextTimeout"
	case "end":
		ct = "CEnd"
	case "running":
		ct = "CRunning"
	case "bcast", "priv":
		m, err := dkgAbsMsg(unhx(call.Msg), t)
		if err != nil {
			return "", dkgObs{}, err
		}
		if call.Op == "bcast" {
			ct = fmt.Sprintf("CBroadcast %s %s", cqZi(call.Orig), m)
		} else {
			ct = fmt.Sprintf("CPrivate %s %s", cqZi(call.Orig), m)
		}
	case "force":
		ct = "CForce " + cqZi(call.Orig)
	default:
		return "", dkgObs{}, fmt.Errorf("unknown op %q", call.Op)
	}
	o := dkgExec(d, p, call)
	var rt string
	switch o.Class {
	case "ok":
		rt = "ROk"
	case "invalid-input":
		rt = "RInvalidInput"
	case "state":
		rt = "RStateErr"
	case "failure":
		rt = "RFailure"
	case "panic":
		rt = "RPanic"
	case "true", "false":
		rt = "(RBool " + o.Class + ")"
	case "keys":
		tm, ko, err := dkgKeysTerm(o.keys[0].(crypto.PrivateKey), o.keys[1].(crypto.PublicKey), o.keys[2].([]crypto.PublicKey), known)
		if err != nil {
			return "", dkgObs{}, err
		}
		rt, o.Keys = tm, ko
	default:
		rt = "RUndef" // an error of no documented class
	}
	evt, err := dkgAbsEvents(o.Events, t)
	if err != nil {
		return "", dkgObs{}, err
	}
	return fmt.Sprintf("(%s, mkObs %s %s %s)", ct, rt, cqbool(o.Running), evt), o, nil
}
