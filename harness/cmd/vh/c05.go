package main

import (
	"bytes"
	"encoding/json"
	"fmt"
	"math/big"
	"math/rand/v2"
	"strings"
	"sync"

	"github.com/onflow/crypto"
	"github.com/onflow/crypto/hash"
)

type c05In struct {
	Kind  string `json:"kind"` // sk | pk | sig | pkzcash | produced
	Bytes string `json:"bytes"` // the byte string; for "produced": the seed of the recipe
	// "produced": an object the package produces (route named here) must encode to bytes that decode
	// back to an Equal object; the encoding then goes through the same Coq oracles as a crafted string
	Recipe string `json:"recipe,omitempty"`
}

var (
	blsP, _ = new(big.Int).SetString("1a0111ea397fe69a4b1ba7b6434bacd764774b84f38512bf6730d2a0f6b0f6241eabfffeb153ffffb9feffffffffaaab", 16)
	blsR, _ = new(big.Int).SetString("73eda753299d7d483339d80809a1d80553bda402fffe5bfeffffffff00000001", 16)
)

func init() {
	register(&Prop{
		ID:        "C05",
		Header:    "From Coq Require Import NArith List String.\nFrom V Require Import Lib.Hex Corr.C05Corr Corr.C05AllCorr.\nFrom V Require Corr.C11Corr Corr.C12Corr.\nImport ListNotations.\nOpen Scope string_scope.\n",
		Check:     "C05AllCorr.bad_ids",
		PropCheck: "C05AllCorr.prop_bad_ids",
		Gen:       c05GenAll,
		Run:       c05RunAll,
		Rule:      "structured byte strings for the BLS private-key, public-key and signature decoders (valid encodings, all flag combinations, coordinates 0,1,p-1,p,p+1,2^381-1, non-residue x, on-curve points outside the subgroup, infinity with a stray byte at each position, single-bit flips, scalars 0,1,r-1,r,r+1,2^256-1, lengths 0..200); plus the ECDSA decoders of both curves: raw and X9.62-compressed public keys (valid, other root, off-curve, all 256 prefix bytes, x or y >= p, small x, lengths 0..70 incl. SEC1 uncompressed/hybrid forms given to the compressed decoder) and private keys (0, 1, n-1, n, n+1, leading zeros, lengths); scalars with zero low limbs (2^64, 2^128, 2^192, r +- 2^64), both F_p^2 halves out of range; DecodePublicKey and DecodePublicKeyCompressed called independently on every string (same verdict, error class, Equal keys); every signature string also taken through every place that parses a signature - AggregateBLSSignatures at the first / middle / last position, twice, after the identity; stateless reconstruction at each share position; TrustedAdd + ThresholdSignature (twice), VerifyShare, VerifyAndAdd, Verify, VerifyBLSSignatureOneMessage / ManyMessages, batch verification between two genuine signatures, SPOCKVerify(AgainstData), BLSVerifyPOP, VerifyThresholdSignature, IsBLSSignatureIdentity - which must accept exactly when the plain parser does, with errInvalidSignature / (false, nil) otherwise; objects produced by every constructor (generated, public key of a decoded / aggregated private key, aggregated, cancelling aggregate = identity, removed-from, removed-all, identity constant, threshold key shares and group key, Sign, PoP, SPoCK proof, aggregated and cancelling signatures, stateless and stateful threshold signature, BLSInvalidSignature) encode to bytes that decode to an Equal object and are then judged like any other string; cases dealt round-robin over the shards; non-trivial = any case whose length is the decoder's expected length; distinct by (decoder, bytes); every decoder's input buffer is overwritten right after the call, before the decoded object is used",
		Shard:     12,
	})
}

func fixed(x *big.Int, n int) []byte {
	b := x.Bytes()
	if len(b) > n {
		b = b[len(b)-n:]
	}
	out := make([]byte, n)
	copy(out[n-len(b):], b)
	return out
}

func blsSk(r *rand.Rand) crypto.PrivateKey {
	sk, err := crypto.GeneratePrivateKey(crypto.BLSBLS12381, rbytes(r, 48))
	if err != nil {
		panic(err)
	}
	return sk
}

func blsSkFromInt(k *big.Int) crypto.PrivateKey {
	sk, err := crypto.DecodePrivateKey(crypto.BLSBLS12381, fixed(k, 32))
	if err != nil {
		panic(err)
	}
	return sk
}

func c05Gen(tier string, r *rand.Rand) []Case {
	var cs []Case
	add := func(fam, kind string, b []byte) {
		cs = append(cs, mkcase(fam, c05In{Kind: kind, Bytes: hx(b)}))
	}
	thorough := tier == "thorough"
	one := big.NewInt(1)
	// ---- scalars ----
	two256 := new(big.Int).Lsh(one, 256)
	for _, v := range []*big.Int{big.NewInt(0), one, big.NewInt(2), new(big.Int).Sub(blsR, one), blsR, new(big.Int).Add(blsR, one), new(big.Int).Sub(two256, one), new(big.Int).Lsh(one, 255), new(big.Int).Lsh(one, 248)} {
		add("sk-edge", "sk", fixed(v, 32))
	}
	// scalars with zero low limbs (a zero test that looks at one limb only) and just below r in the top limb
	for _, sh := range []uint{64, 128, 192} {
		add("sk-edge", "sk", fixed(new(big.Int).Lsh(one, sh), 32))
	}
	add("sk-edge", "sk", fixed(new(big.Int).Sub(blsR, new(big.Int).Lsh(one, 64)), 32))
	add("sk-edge", "sk", fixed(new(big.Int).Add(blsR, new(big.Int).Lsh(one, 64)), 32))
	for i := 0; i < 6; i++ {
		add("sk-random", "sk", rbytes(r, 32))
		add("sk-valid", "sk", blsSk(r).Encode())
	}
	for _, l := range []int{0, 1, 31, 33, 48, 64} {
		add("sk-length", "sk", rbytes(r, l))
	}
	if thorough {
		for l := 0; l <= 200; l++ {
			add("sk-length", "sk", rbytes(r, l))
		}
	}
	// ---- signatures (E1 codec without membership check) ----
	msg := []byte("c05")
	h := crypto.NewExpandMsgXOFKMAC128("c05tag")
	var sigs [][]byte
	nsig := 3
	if thorough {
		nsig = 12
	}
	for i := 0; i < nsig; i++ {
		s, err := blsSk(r).Sign(msg, h)
		if err != nil {
			panic(err)
		}
		sigs = append(sigs, s)
		add("sig-valid", "sig", s)
	}
	s0 := sigs[0]
	for f := 0; f < 8; f++ { // all combinations of the three flag bits
		b := append([]byte{}, s0...)
		b[0] = (b[0] & 0x1F) | byte(f<<5)
		add("sig-flags", "sig", b)
	}
	two381 := new(big.Int).Lsh(one, 381)
	for _, x := range []*big.Int{big.NewInt(0), one, big.NewInt(2), big.NewInt(3), big.NewInt(4), new(big.Int).Sub(blsP, one), blsP, new(big.Int).Add(blsP, one), new(big.Int).Sub(two381, one)} {
		for _, hdr := range []byte{0x80, 0xA0} {
			b := fixed(x, 48)
			b[0] |= hdr
			add("sig-xedge", "sig", b)
		}
	}
	nrx := 8
	if thorough {
		nrx = 60
	}
	for i := 0; i < nrx; i++ { // random x < p: half are non-residues, the others on-curve points outside G1
		xb := rbytes(r, 48)
		xb[0] &= 0x0F
		xb[0] |= 0x80 | byte(r.IntN(2)<<5)
		add("sig-randomx", "sig", xb)
	}
	// infinity with one stray byte at each position, and stray header bits
	positions := []int{1, 2, 23, 46, 47}
	if thorough {
		positions = nil
		for i := 1; i < 48; i++ {
			positions = append(positions, i)
		}
	}
	inf := make([]byte, 48)
	inf[0] = 0xC0
	add("sig-infinity", "sig", inf)
	for _, pos := range positions {
		b := append([]byte{}, inf...)
		b[pos] = byte(1 + r.IntN(255))
		add("sig-infinity-stray", "sig", b)
	}
	for _, hb := range []byte{0xC1, 0xE0, 0xD0, 0x40, 0xFF} {
		b := append([]byte{}, inf...)
		b[0] = hb
		add("sig-infinity-header", "sig", b)
	}
	nflip := 10
	if thorough {
		nflip = 384
	}
	for i := 0; i < nflip; i++ {
		b := append([]byte{}, s0...)
		bit := r.IntN(384)
		if thorough {
			bit = i
		}
		b[bit/8] ^= 1 << (7 - bit%8)
		add("sig-bitflip", "sig", b)
	}
	for _, l := range []int{0, 1, 47, 49, 96} {
		add("sig-length", "sig", rbytes(r, l))
	}
	// ---- public keys (E2 codec + G2 membership) ----
	npk := 2
	if thorough {
		npk = 10
	}
	var pks [][]byte
	for i := 0; i < npk; i++ {
		pk := blsSk(r).PublicKey().Encode()
		pks = append(pks, pk)
		add("pk-valid", "pk", pk)
	}
	add("pk-valid", "pk", blsSkFromInt(one).PublicKey().Encode())
	add("pk-valid", "pk", blsSkFromInt(new(big.Int).Sub(blsR, one)).PublicKey().Encode())
	add("pk-identity", "pk", crypto.IdentityBLSPublicKey().Encode())
	pk0 := pks[0]
	for f := 0; f < 8; f++ {
		b := append([]byte{}, pk0...)
		b[0] = (b[0] & 0x1F) | byte(f<<5)
		add("pk-flags", "pk", b)
	}
	for _, x := range []*big.Int{big.NewInt(0), one, new(big.Int).Sub(blsP, one), blsP, new(big.Int).Sub(two381, one)} {
		for _, which := range []int{0, 1} { // coordinate in the first or second half
			b := make([]byte, 96)
			copy(b[48*which:], fixed(x, 48))
			copy(b[48*(1-which):], pk0[48*(1-which):48*(1-which)+48])
			b[0] = (b[0] & 0x1F) | 0x80
			add("pk-xedge", "pk", b)
		}
	}
	// both halves out of range / p+1 in either half
	for _, xy := range [][2]*big.Int{{blsP, blsP}, {new(big.Int).Add(blsP, one), big.NewInt(0)}, {big.NewInt(0), new(big.Int).Add(blsP, one)}} {
		b := append(fixed(xy[0], 48), fixed(xy[1], 48)...)
		b[0] = (b[0] & 0x1F) | 0x80
		add("pk-xedge", "pk", b)
	}
	nrp := 4
	if thorough {
		nrp = 40
	}
	for i := 0; i < nrp; i++ { // random x in Fp2: on-curve (outside G2) about half of the time
		b := rbytes(r, 96)
		b[0] = (b[0] & 0x0F) | 0x80 | byte(r.IntN(2)<<5)
		b[48] &= 0x0F
		add("pk-randomx", "pk", b)
	}
	inf2 := make([]byte, 96)
	inf2[0] = 0xC0
	pos2 := []int{1, 47, 48, 94, 95}
	if thorough {
		pos2 = nil
		for i := 1; i < 96; i++ {
			pos2 = append(pos2, i)
		}
	}
	for _, pos := range pos2 {
		b := append([]byte{}, inf2...)
		b[pos] = byte(1 + r.IntN(255))
		add("pk-infinity-stray", "pk", b)
	}
	for _, hb := range []byte{0xC1, 0xE0, 0x40} {
		b := append([]byte{}, inf2...)
		b[0] = hb
		add("pk-infinity-header", "pk", b)
	}
	nflip2 := 6
	if thorough {
		nflip2 = 200
	}
	for i := 0; i < nflip2; i++ {
		b := append([]byte{}, pk0...)
		bit := r.IntN(768)
		b[bit/8] ^= 1 << (7 - bit%8)
		add("pk-bitflip", "pk", b)
	}
	for _, l := range []int{0, 1, 48, 95, 97, 192} {
		add("pk-length", "pk", rbytes(r, l))
	}
	// ---- objects the package produces, from every constructor: encode, decode, Equal ----
	for _, rc := range c05Recipes {
		reps := 1
		if thorough {
			reps = 4
		}
		for k := 0; k < reps; k++ {
			cs = append(cs, mkcase("produced-"+rc, c05In{Kind: "produced", Bytes: hx(rbytes(r, 32)), Recipe: rc}))
		}
	}
	for _, curve := range []string{"p256", "k1"} {
		for _, comp := range []bool{false, true} {
			cs = append(cs, mkcase("produced-ecdsa-generated", c05In{Kind: "produced-ecdsa", Bytes: hx(rbytes(r, 32+r.IntN(100))), Recipe: fmt.Sprintf("%s:%v", curve, comp)}))
		}
	}
	// ---- probe against the cited ZCash format: the standard G2 generator, imaginary part first ----
	gen := unhx("93e02b6052719f607dacd3a088274f65596bd0d09920b61ab5da61bbdc7f5049334cf11213945d57e5ac7d055d042b7e024aa2b2f08f0a91260805272dc51051c6e47ad4fa403b02b4510b647ae3d1770bac0326a805bbefd48056c8c121bdb8")
	c := mkcase("pk-zcash-generator", c05In{Kind: "pkzcash", Bytes: hx(gen)})
	c.Finding = "g2-fp2-order"
	cs = append(cs, c)
	c2 := mkcase("pk-zcash-generator", c05In{Kind: "pkzcash", Bytes: hx(blsSkFromInt(one).PublicKey().Encode())})
	c2.Finding = "g2-fp2-order"
	cs = append(cs, c2)
	return cs
}

func c05Run(c Case) (Result, error) {
	var in c05In
	if err := json.Unmarshal(c.Input, &in); err != nil {
		return Result{}, err
	}
	if in.Kind == "produced" {
		var kind, complaint string
		var enc []byte
		if p, m := catch(func() {
			var obj any
			kind, obj = c05Produce(in.Recipe, unhx(in.Bytes))
			enc, complaint = c05RoundTrip(kind, obj)
		}); p {
			return Result{}, implViolation("producing / re-decoding an object (%s) panicked: %s", in.Recipe, m)
		}
		if complaint != "" {
			return Result{}, implViolation("%s: %s (encoding %x)", in.Recipe, complaint, enc)
		}
		// from here on the encoding is judged like any other byte string (it must be in the acceptance set
		// of the reference format, except the documented invalid constant)
		in = c05In{Kind: kind, Bytes: hx(enc), Recipe: in.Recipe}
	}
	b := unhx(in.Bytes)
	ok := false
	var reenc []byte
	var kind string
	expected := 0
	routeComplaint := ""
	panicked, pmsg := catch(func() {
		switch in.Kind {
		case "sk":
			kind, expected = "KSk", 32
			// decoded objects are values: the caller's buffer is overwritten before the object is used
			bb := append([]byte{}, b...)
			sk, err := crypto.DecodePrivateKey(crypto.BLSBLS12381, bb)
			for i := range bb {
				bb[i] ^= 0xff
			}
			if err == nil {
				ok, reenc = true, sk.Encode()
			} else if !crypto.IsInvalidInputsError(err) {
				panic("unexpected error class: " + err.Error())
			}
		case "pk", "pkzcash":
			kind, expected = "KPk", 96
			if in.Kind == "pkzcash" {
				kind = "KPkZcashProbe"
			}
			bb, bb2 := append([]byte{}, b...), append([]byte{}, b...)
			pk, err := crypto.DecodePublicKey(crypto.BLSBLS12381, bb)
			// the two decoders are called independently: same verdict, same error class, Equal keys
			pk2, err2 := crypto.DecodePublicKeyCompressed(crypto.BLSBLS12381, bb2)
			// decoded objects are values: both input buffers are overwritten before the objects are used
			for i := range bb {
				bb[i] ^= 0xff
			}
			for i := range bb2 {
				bb2[i] = byte(i)
			}
			if (err == nil) != (err2 == nil) {
				routeComplaint = fmt.Sprintf("DecodePublicKey accepted=%v but DecodePublicKeyCompressed accepted=%v", err == nil, err2 == nil)
			} else if err2 != nil && !crypto.IsInvalidInputsError(err2) {
				routeComplaint = "DecodePublicKeyCompressed: unexpected error class: " + err2.Error()
			}
			if err == nil {
				ok, reenc = true, pk.Encode()
				if err2 == nil && (!pk.Equals(pk2) || !pk2.Equals(pk) || !bytes.Equal(pk2.Encode(), reenc) || !bytes.Equal(pk.EncodeCompressed(), reenc)) {
					routeComplaint = "DecodePublicKeyCompressed disagrees with DecodePublicKey"
				}
			} else if !crypto.IsInvalidInputsError(err) {
				panic("unexpected error class: " + err.Error())
			}
		case "sig":
			kind, expected = "KSig", 48
			out, err := crypto.AggregateBLSSignatures([]crypto.Signature{b})
			if err == nil {
				ok, reenc = true, out
			} else if !crypto.IsInvalidSignatureError(err) {
				routeComplaint = "AggregateBLSSignatures: error is not errInvalidSignature: " + err.Error()
			}
			if routeComplaint == "" {
				routeComplaint = c05SigRoutes(b, ok)
			}
		}
	})
	if panicked {
		// a panic is reported as an impossible observation: accepted with an empty re-encoding
		return Result{Coq: fmt.Sprintf("mkCase %s %s true %s", kindOr(kind, in.Kind), cqs(in.Bytes), cqs("ff")), Key: string(c.Input), Nontrivial: true,
			Obs: map[string]any{"panic": pmsg}}, nil
	}
	if routeComplaint != "" {
		return Result{}, implViolation("%s on input %s", routeComplaint, in.Bytes)
	}
	if in.Recipe != "" && in.Recipe != "sig-invalid-const" && !ok {
		return Result{}, implViolation("%s: the produced encoding %s is rejected by the decoder", in.Recipe, in.Bytes)
	}
	term := fmt.Sprintf("mkCase %s %s %s %s", kind, cqs(in.Bytes), cqbool(ok), cqs(hx(reenc)))
	return Result{Coq: term, Key: string(c.Input), Nontrivial: len(b) == expected, Obs: map[string]any{"ok": ok, "reenc": hx(reenc), "bytes": in.Bytes}}, nil
}

func kindOr(k, raw string) string {
	if k != "" {
		return k
	}
	switch raw {
	case "sk":
		return "KSk"
	case "sig":
		return "KSig"
	case "pkzcash":
		return "KPkZcashProbe"
	}
	return "KPk"
}

// C05 = the BLS decoders (this file) + the ECDSA public-key decoders (generator and runner of c11.go,
// evaluated by Corr/C11Corr.v) + the ECDSA private-key decoder (decode cases of c12.go, Corr/C12Corr.v).
func c05GenAll(tier string, r *rand.Rand) []Case {
	cs := c05Gen(tier, r)
	for _, c := range c11GenDecoders(tier, r) {
		c.Kind = "ecdsa-pub-" + c.Kind
		cs = append(cs, c)
	}
	for _, c := range c12Gen(tier, r) {
		var in c12In
		if json.Unmarshal(c.Input, &in) == nil && in.Op == "decode" {
			c.Kind = "ecdsa-priv-" + c.Kind
			cs = append(cs, c)
		}
	}
	// the BLS decodings (square roots, subgroup checks) are the expensive ones for the Coq evaluator and
	// are contiguous in generation order: deal the cases round-robin over the shards
	const shard = 12
	nsh := (len(cs) + shard - 1) / shard
	buckets := make([][]Case, nsh)
	for i, c := range cs {
		buckets[i%nsh] = append(buckets[i%nsh], c)
	}
	var out []Case
	for _, b := range buckets {
		out = append(out, b...)
	}
	return out
}

func c05RunAll(c Case) (Result, error) {
	switch {
	case strings.HasPrefix(c.Kind, "ecdsa-pub-"):
		res, err := c11Run(c)
		if err != nil {
			return res, err
		}
		t := strings.Replace(res.Coq, "CDecPub P ", "C11Corr.CDecPub C11Corr.P ", 1)
		t = strings.Replace(t, "CDecPub K ", "C11Corr.CDecPub C11Corr.K ", 1)
		res.Coq = "AEcdsaPub (" + t + ")"
		return res, nil
	case strings.HasPrefix(c.Kind, "ecdsa-priv-"):
		res, err := c12Run(c)
		if err != nil {
			return res, err
		}
		t := strings.Replace(res.Coq, "mkCase ", "C12Corr.mkCase ", 1)
		for _, a := range []string{"ABls", "AP256", "AK1"} {
			t = strings.Replace(t, " "+a+" ", " C12Corr."+a+" ", 1)
		}
		res.Coq = "AEcdsaPriv (" + t + ")"
		return res, nil
	}
	if c.Kind == "produced-ecdsa-generated" {
		return c05EcdsaProduced(c)
	}
	res, err := c05Run(c)
	if err != nil {
		return res, err
	}
	res.Coq = "ABlsDec (" + res.Coq + ")"
	return res, nil
}

// ---------------------------------------------------------------------------------------------
// Every object the package produces, by constructor ("every object the package produces encodes to
// bytes that decode back to an Equal object").
var c05Recipes = []string{
	"pk-generated", "pk-of-decoded-sk", "pk-aggregate2", "pk-aggregate-cancel", "pk-remove", "pk-remove-all",
	"pk-identity-const", "pk-threshold-share", "pk-threshold-group", "pk-of-aggregated-sk",
	"sk-generated", "sk-aggregated", "sk-threshold-share",
	"sig-sign", "sig-pop", "sig-spock", "sig-aggregate2", "sig-aggregate-cancel", "sig-reconstruct",
	"sig-threshold-stateful", "sig-invalid-const",
}

func c05Must[T any](v T, err error) T {
	if err != nil {
		panic("recipe: " + err.Error())
	}
	return v
}

// c05Produce builds the object of a recipe from a 32-byte seed.  Returns the decoder kind and the object.
func c05Produce(recipe string, seed []byte) (kind string, obj any) {
	rr := rand.New(rand.NewPCG(uint64(seed[0])<<8|uint64(seed[1]), 0x05))
	gen := func() crypto.PrivateKey { return c05Must(crypto.GeneratePrivateKey(crypto.BLSBLS12381, rbytes(rr, 32+rr.IntN(40)))) }
	neg := func(sk crypto.PrivateKey) crypto.PrivateKey {
		k := new(big.Int).SetBytes(sk.Encode())
		return blsSkFromInt(k.Sub(blsR, k))
	}
	h := crypto.NewExpandMsgXOFKMAC128("c05-produced")
	msg := seed[:7]
	a, b := gen(), gen()
	switch recipe {
	case "pk-generated":
		return "pk", a.PublicKey()
	case "pk-of-decoded-sk":
		return "pk", c05Must(crypto.DecodePrivateKey(crypto.BLSBLS12381, a.Encode())).PublicKey()
	case "pk-aggregate2":
		return "pk", c05Must(crypto.AggregateBLSPublicKeys([]crypto.PublicKey{a.PublicKey(), b.PublicKey()}))
	case "pk-aggregate-cancel":
		return "pk", c05Must(crypto.AggregateBLSPublicKeys([]crypto.PublicKey{a.PublicKey(), neg(a).PublicKey()}))
	case "pk-remove":
		agg := c05Must(crypto.AggregateBLSPublicKeys([]crypto.PublicKey{a.PublicKey(), b.PublicKey()}))
		return "pk", c05Must(crypto.RemoveBLSPublicKeys(agg, []crypto.PublicKey{b.PublicKey()}))
	case "pk-remove-all":
		agg := c05Must(crypto.AggregateBLSPublicKeys([]crypto.PublicKey{a.PublicKey(), b.PublicKey()}))
		return "pk", c05Must(crypto.RemoveBLSPublicKeys(agg, []crypto.PublicKey{b.PublicKey(), a.PublicKey()}))
	case "pk-identity-const":
		return "pk", crypto.IdentityBLSPublicKey()
	case "pk-of-aggregated-sk":
		return "pk", c05Must(crypto.AggregateBLSPrivateKeys([]crypto.PrivateKey{a, b})).PublicKey()
	case "sk-generated":
		return "sk", a
	case "sk-aggregated":
		return "sk", c05Must(crypto.AggregateBLSPrivateKeys([]crypto.PrivateKey{a, b}))
	case "sig-sign":
		return "sig", c05Must(a.Sign(msg, h))
	case "sig-pop":
		return "sig", c05Must(crypto.BLSGeneratePOP(a))
	case "sig-spock":
		return "sig", c05Must(crypto.SPOCKProve(a, msg, h))
	case "sig-aggregate2":
		return "sig", c05Must(crypto.AggregateBLSSignatures([]crypto.Signature{c05Must(a.Sign(msg, h)), c05Must(b.Sign(msg, h))}))
	case "sig-aggregate-cancel":
		return "sig", c05Must(crypto.AggregateBLSSignatures([]crypto.Signature{c05Must(a.Sign(msg, h)), c05Must(neg(a).Sign(msg, h))}))
	case "sig-invalid-const":
		return "sig", crypto.BLSInvalidSignature()
	}
	// threshold outputs
	n, t := 3+rr.IntN(3), 1+rr.IntN(2)
	sks, pks, gpk, err := crypto.BLSThresholdKeyGen(n, t, seed)
	if err != nil {
		panic("recipe: " + err.Error())
	}
	switch recipe {
	case "pk-threshold-share":
		return "pk", pks[rr.IntN(n)]
	case "pk-threshold-group":
		return "pk", gpk
	case "sk-threshold-share":
		return "sk", sks[rr.IntN(n)]
	}
	tag := "c05-thr"
	th := crypto.NewExpandMsgXOFKMAC128(tag)
	var shares []crypto.Signature
	var signers []int
	for i := 0; i <= t; i++ {
		shares = append(shares, c05Must(sks[i].Sign(msg, th)))
		signers = append(signers, i)
	}
	switch recipe {
	case "sig-reconstruct":
		return "sig", c05Must(crypto.BLSReconstructThresholdSignature(n, t, shares, signers))
	case "sig-threshold-stateful":
		insp := c05Must(crypto.NewBLSThresholdSignatureInspector(gpk, pks, t, msg, tag))
		for i := 0; i <= t; i++ {
			if _, err := insp.TrustedAdd(i, shares[i]); err != nil {
				panic("recipe: " + err.Error())
			}
		}
		return "sig", c05Must(insp.ThresholdSignature())
	}
	panic("unknown recipe " + recipe)
}

// c05RoundTrip: encode -> decode -> Equal (both directions), stable re-encoding; returns "" or a complaint.
func c05RoundTrip(kind string, obj any) (enc []byte, complaint string) {
	switch kind {
	case "pk":
		pk := obj.(crypto.PublicKey)
		enc = pk.Encode()
		encc := pk.EncodeCompressed()
		if !bytes.Equal(enc, encc) {
			return enc, "Encode and EncodeCompressed of a BLS public key differ"
		}
		for _, dec := range []func(crypto.SigningAlgorithm, []byte) (crypto.PublicKey, error){crypto.DecodePublicKey, crypto.DecodePublicKeyCompressed} {
			pk2, err := dec(crypto.BLSBLS12381, append([]byte{}, enc...))
			if err != nil {
				return enc, "produced public key does not decode: " + err.Error()
			}
			if !pk2.Equals(pk) || !pk.Equals(pk2) {
				return enc, "decoded public key is not Equal to the produced one"
			}
			if !bytes.Equal(pk2.Encode(), enc) {
				return enc, "decoded public key re-encodes differently"
			}
		}
		if !bytes.Equal(pk.Encode(), enc) {
			return enc, "Encode is not stable across calls"
		}
	case "sk":
		sk := obj.(crypto.PrivateKey)
		enc = sk.Encode()
		sk2, err := crypto.DecodePrivateKey(crypto.BLSBLS12381, append([]byte{}, enc...))
		if err != nil {
			return enc, "produced private key does not decode: " + err.Error()
		}
		if !sk2.Equals(sk) || !sk.Equals(sk2) || !bytes.Equal(sk2.Encode(), enc) {
			return enc, "decoded private key is not Equal to the produced one"
		}
		if !sk2.PublicKey().Equals(sk.PublicKey()) {
			return enc, "decoded private key has a different public key"
		}
	case "sig":
		enc = obj.(crypto.Signature)
	}
	return enc, ""
}

// ---------------------------------------------------------------------------------------------
// The same 48 bytes through every place where the package parses a signature.  acc = the verdict of
// the plain parser (AggregateBLSSignatures of one element).  Judged here: every aggregation /
// reconstruction route accepts exactly when acc (with errInvalidSignature otherwise, at every position
// of the list), and no verification route returns true or an error for a string that is not the
// genuine signature.
type c05RouteEnv struct {
	sk        crypto.PrivateKey
	pk        crypto.PublicKey
	msg       []byte
	h         hash.Hasher
	good      crypto.Signature
	tsks      []crypto.PrivateKey
	tpks      []crypto.PublicKey
	tgpk      crypto.PublicKey
	tshares   []crypto.Signature
	thrTag    string
	identSig  []byte
}

var (
	c05EnvOnce sync.Once
	c05Env     c05RouteEnv
)

func c05Routes() *c05RouteEnv {
	c05EnvOnce.Do(func() {
		e := &c05Env
		e.sk = blsSkFromInt(big.NewInt(0x0c05c05))
		e.pk = e.sk.PublicKey()
		e.msg = []byte("c05 routes")
		e.thrTag = "c05-routes"
		e.h = crypto.NewExpandMsgXOFKMAC128(e.thrTag)
		e.good = c05Must(e.sk.Sign(e.msg, e.h))
		var err error
		e.tsks, e.tpks, e.tgpk, err = crypto.BLSThresholdKeyGen(3, 1, bytes.Repeat([]byte{0x5c}, 32))
		if err != nil {
			panic(err)
		}
		for _, k := range e.tsks {
			e.tshares = append(e.tshares, c05Must(k.Sign(e.msg, e.h)))
		}
		e.identSig = make([]byte, 48)
		e.identSig[0] = 0xC0
	})
	return &c05Env
}

func c05SigRoutes(b []byte, acc bool) string {
	e := c05Routes()
	orig := append([]byte{}, b...)
	cp := func() crypto.Signature { return append([]byte{}, b...) }
	g := func() crypto.Signature { return append([]byte{}, e.good...) }
	// aggregation: every position
	for name, list := range map[string][]crypto.Signature{
		"first": {cp(), g()}, "last": {g(), cp()}, "middle": {g(), cp(), g()}, "twice": {cp(), cp()}, "after-identity": {e.identSig, cp()},
	} {
		_, err := crypto.AggregateBLSSignatures(list)
		if (err == nil) != acc {
			return fmt.Sprintf("AggregateBLSSignatures (string %s in the list) accepted=%v, alone accepted=%v", name, err == nil, acc)
		}
		if err != nil && !crypto.IsInvalidSignatureError(err) {
			return fmt.Sprintf("AggregateBLSSignatures (string %s in the list): error %v is not errInvalidSignature", name, err)
		}
	}
	if crypto.IsBLSSignatureIdentity(b) != bytes.Equal(b, e.identSig) {
		return "IsBLSSignatureIdentity disagrees with the canonical identity encoding"
	}
	// threshold reconstruction, stateless: at both positions among the first t+1, and past them (not read)
	if len(b) == crypto.SignatureLenBLSBLS12381 {
		for pos := 0; pos < 2; pos++ {
			sh := []crypto.Signature{append([]byte{}, e.tshares[0]...), append([]byte{}, e.tshares[1]...)}
			sh[pos] = cp()
			_, err := crypto.BLSReconstructThresholdSignature(3, 1, sh, []int{0, 1})
			if (err == nil) != acc {
				return fmt.Sprintf("BLSReconstructThresholdSignature (string at share %d) accepted=%v, plain parser accepted=%v", pos, err == nil, acc)
			}
			if err != nil && !crypto.IsInvalidSignatureError(err) {
				return fmt.Sprintf("BLSReconstructThresholdSignature (string at share %d): error %v is not errInvalidSignature", pos, err)
			}
		}
	}
	// stateful: added unverified, reconstruction must fail with the documented class; verified add refuses it
	insp := c05Must(crypto.NewBLSThresholdSignatureInspector(e.tgpk, e.tpks, 1, e.msg, e.thrTag))
	isShare0 := bytes.Equal(b, e.tshares[0])
	if v, err := insp.VerifyShare(0, cp()); err != nil || v != isShare0 {
		return fmt.Sprintf("VerifyShare returned (%v, %v)", v, err)
	}
	if v, _, err := insp.VerifyAndAdd(0, cp()); err != nil || v != isShare0 {
		return fmt.Sprintf("VerifyAndAdd returned valid=%v err=%v", v, err)
	}
	if !isShare0 {
		if has, _ := insp.HasShare(0); has {
			return "VerifyAndAdd retained a share that is not the signer's signature"
		}
		_, _ = insp.TrustedAdd(0, cp())
		_, _ = insp.TrustedAdd(1, append([]byte{}, e.tshares[1]...))
		for call := 0; call < 2; call++ {
			out, err := insp.ThresholdSignature()
			switch {
			case err == nil:
				return fmt.Sprintf("ThresholdSignature returned %x from a pool containing a string that is not the signer's share", []byte(out))
			case !acc && !crypto.IsInvalidSignatureError(err):
				return fmt.Sprintf("ThresholdSignature with a malformed share: %v is not errInvalidSignature", err)
			case acc && !crypto.IsInvalidInputsError(err):
				return fmt.Sprintf("ThresholdSignature with a well-formed wrong share: %v is not an invalid-input error", err)
			}
		}
	}
	// verification routes: false, no error
	isGood := bytes.Equal(b, e.good)
	type vr struct {
		name string
		f    func() (bool, error)
	}
	routes := []vr{
		{"Verify", func() (bool, error) { return e.pk.Verify(cp(), e.msg, e.h) }},
		{"VerifyBLSSignatureOneMessage", func() (bool, error) {
			return crypto.VerifyBLSSignatureOneMessage([]crypto.PublicKey{e.pk}, cp(), e.msg, e.h)
		}},
		{"VerifyBLSSignatureManyMessages", func() (bool, error) {
			return crypto.VerifyBLSSignatureManyMessages([]crypto.PublicKey{e.pk}, cp(), [][]byte{e.msg}, []hash.Hasher{e.h})
		}},
		{"SPOCKVerifyAgainstData", func() (bool, error) { return crypto.SPOCKVerifyAgainstData(e.pk, cp(), e.msg, e.h) }},
		{"BatchVerifyBLSSignaturesOneMessage", func() (bool, error) {
			v, err := crypto.BatchVerifyBLSSignaturesOneMessage([]crypto.PublicKey{e.pk, e.pk, e.pk}, []crypto.Signature{g(), cp(), g()}, e.msg, e.h)
			if err == nil && (len(v) != 3 || !v[0] || !v[2]) {
				return false, fmt.Errorf("genuine neighbours judged %v", v)
			}
			if err != nil {
				return false, err
			}
			return v[1], nil
		}},
		{"VerifyThresholdSignature", func() (bool, error) { return insp.VerifyThresholdSignature(cp()) }},
	}
	for _, rt := range routes {
		v, err := rt.f()
		if err != nil {
			return fmt.Sprintf("%s returned an error for a 48-byte-or-other string: %v", rt.name, err)
		}
		want := isGood && rt.name != "VerifyThresholdSignature"
		if v != want {
			return fmt.Sprintf("%s returned %v (plain parser accepted=%v, genuine=%v)", rt.name, v, acc, isGood)
		}
	}
	if v, err := crypto.BLSVerifyPOP(e.pk, cp()); err != nil || v {
		return fmt.Sprintf("BLSVerifyPOP returned (%v, %v)", v, err)
	}
	// SPoCK consistency of the string with itself: true needs a parsable string
	if v, err := crypto.SPOCKVerify(e.pk, cp(), e.pk, cp()); err != nil || (v && !acc) {
		return fmt.Sprintf("SPOCKVerify returned (%v, %v) on a string the plain parser judges accepted=%v", v, err, acc)
	}
	if !bytes.Equal(b, orig) {
		return "input modified"
	}
	return ""
}

// an ECDSA key pair from GeneratePrivateKey: private key, raw and compressed public key each decode back
// to an Equal object; the public-key encoding is then judged by the ECDSA decoder oracle
func c05EcdsaProduced(c Case) (Result, error) {
	var in c05In
	if err := json.Unmarshal(c.Input, &in); err != nil {
		return Result{}, err
	}
	parts := strings.Split(in.Recipe, ":")
	curve, comp := parts[0], parts[1] == "true"
	alg := c11Algo(curve)
	var enc []byte
	complaint := ""
	if p, m := catch(func() {
		sk, err := crypto.GeneratePrivateKey(alg, unhx(in.Bytes))
		if err != nil {
			complaint = "GeneratePrivateKey failed: " + err.Error()
			return
		}
		sk2, err := crypto.DecodePrivateKey(alg, sk.Encode())
		if err != nil || !sk2.Equals(sk) || !sk.Equals(sk2) || !bytes.Equal(sk2.Encode(), sk.Encode()) {
			complaint = fmt.Sprintf("generated private key %x does not decode to an Equal key (%v)", sk.Encode(), err)
			return
		}
		pk := sk.PublicKey()
		raw, cmp := pk.Encode(), pk.EncodeCompressed()
		p1, e1 := crypto.DecodePublicKey(alg, raw)
		p2, e2 := crypto.DecodePublicKeyCompressed(alg, cmp)
		if e1 != nil || e2 != nil || !p1.Equals(pk) || !pk.Equals(p1) || !p2.Equals(pk) || !pk.Equals(p2) || !p1.Equals(p2) ||
			!bytes.Equal(p2.Encode(), raw) || !bytes.Equal(p1.EncodeCompressed(), cmp) || !sk2.PublicKey().Equals(pk) {
			complaint = fmt.Sprintf("generated public key %x / %x does not decode to an Equal key (%v, %v)", raw, cmp, e1, e2)
			return
		}
		enc = raw
		if comp {
			enc = cmp
		}
	}); p {
		return Result{}, implViolation("ECDSA key generation / re-decoding panicked: %s", m)
	}
	if complaint != "" {
		return Result{}, implViolation("%s (seed %s)", complaint, in.Bytes)
	}
	sub := mkcase("ecdsa-pub-produced", c11In{Op: "decpub", Curve: curve, Comp: comp, In: hx(enc)})
	res, err := c05RunAll(sub)
	res.Key = string(c.Input)
	return res, err
}
