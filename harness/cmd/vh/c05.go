package main

import (
	"strings"
	"encoding/json"
	"fmt"
	"math/big"
	"math/rand/v2"

	"github.com/onflow/crypto"
)

type c05In struct {
	Kind  string `json:"kind"` // sk | pk | sig | pkzcash
	Bytes string `json:"bytes"`
}

var (
	blsP, _ = new(big.Int).SetString("1a0111ea397fe69a4b1ba7b6434bacd764774b84f38512bf6730d2a0f6b0f6241eabfffeb153ffffb9feffffffffaaab", 16)
	blsR, _ = new(big.Int).SetString("73eda753299d7d483339d80809a1d80553bda402fffe5bfeffffffff00000001", 16)
)

func init() {
	register(&Prop{
		ID:        "C05",
		Header:    "From Coq Require Import NArith List String.\nFrom V Require Import Lib.Hex Corr.C05Corr Corr.C05AllCorr.\nFrom V Require Corr.C11Corr Corr.C12Corr.\nImport ListNotations.\nOpen Scope string_scope.\n",
		Check:     "C05AllCorr.bad_ids",
		PropCheck: "C05AllCorr.prop_bad_ids",
		Gen:       c05GenAll,
		Run:       c05RunAll,
		Rule:      "structured byte strings for the BLS private-key, public-key and signature decoders (valid encodings, all flag combinations, coordinates 0,1,p-1,p,p+1,2^381-1, non-residue x, on-curve points outside the subgroup, infinity with a stray byte at each position, single-bit flips, scalars 0,1,r-1,r,r+1,2^256-1, lengths 0..200); plus the ECDSA decoders of both curves: raw and X9.62-compressed public keys (valid, other root, off-curve, all 256 prefix bytes, x or y >= p, small x, lengths 0..70 incl. SEC1 uncompressed/hybrid forms given to the compressed decoder) and private keys (0, 1, n-1, n, n+1, leading zeros, lengths); non-trivial = any case whose length is the decoder's expected length; distinct by (decoder, bytes)",
		Shard:     12,
	})
}

func fixed(x *big.Int, n int) []byte {
	b := x.Bytes()
	if len(b) > n {
		b = b[len(b)-n:]
	}
	out := make([]byte, n)
	copy(out[n-len(b):], b)
	return out
}

func blsSk(r *rand.Rand) crypto.PrivateKey {
	sk, err := crypto.GeneratePrivateKey(crypto.BLSBLS12381, rbytes(r, 48))
	if err != nil {
		panic(err)
	}
	return sk
}

func blsSkFromInt(k *big.Int) crypto.PrivateKey {
	sk, err := crypto.DecodePrivateKey(crypto.BLSBLS12381, fixed(k, 32))
	if err != nil {
		panic(err)
	}
	return sk
}

func c05Gen(tier string, r *rand.Rand) []Case {
	var cs []Case
	add := func(fam, kind string, b []byte) {
		cs = append(cs, mkcase(fam, c05In{kind, hx(b)}))
	}
	thorough := tier == "thorough"
	one := big.NewInt(1)
	// ---- scalars ----
	two256 := new(big.Int).Lsh(one, 256)
	for _, v := range []*big.Int{big.NewInt(0), one, big.NewInt(2), new(big.Int).Sub(blsR, one), blsR, new(big.Int).Add(blsR, one), new(big.Int).Sub(two256, one), new(big.Int).Lsh(one, 255), new(big.Int).Lsh(one, 248)} {
		add("sk-edge", "sk", fixed(v, 32))
	}
	for i := 0; i < 6; i++ {
		add("sk-random", "sk", rbytes(r, 32))
		add("sk-valid", "sk", blsSk(r).Encode())
	}
	for _, l := range []int{0, 1, 31, 33, 48, 64} {
		add("sk-length", "sk", rbytes(r, l))
	}
	if thorough {
		for l := 0; l <= 200; l++ {
			add("sk-length", "sk", rbytes(r, l))
		}
	}
	// ---- signatures (E1 codec without membership check) ----
	msg := []byte("c05")
	h := crypto.NewExpandMsgXOFKMAC128("c05tag")
	var sigs [][]byte
	nsig := 3
	if thorough {
		nsig = 12
	}
	for i := 0; i < nsig; i++ {
		s, err := blsSk(r).Sign(msg, h)
		if err != nil {
			panic(err)
		}
		sigs = append(sigs, s)
		add("sig-valid", "sig", s)
	}
	s0 := sigs[0]
	for f := 0; f < 8; f++ { // all combinations of the three flag bits
		b := append([]byte{}, s0...)
		b[0] = (b[0] & 0x1F) | byte(f<<5)
		add("sig-flags", "sig", b)
	}
	two381 := new(big.Int).Lsh(one, 381)
	for _, x := range []*big.Int{big.NewInt(0), one, big.NewInt(2), big.NewInt(3), big.NewInt(4), new(big.Int).Sub(blsP, one), blsP, new(big.Int).Add(blsP, one), new(big.Int).Sub(two381, one)} {
		for _, hdr := range []byte{0x80, 0xA0} {
			b := fixed(x, 48)
			b[0] |= hdr
			add("sig-xedge", "sig", b)
		}
	}
	nrx := 8
	if thorough {
		nrx = 60
	}
	for i := 0; i < nrx; i++ { // random x < p: half are non-residues, the others on-curve points outside G1
		xb := rbytes(r, 48)
		xb[0] &= 0x0F
		xb[0] |= 0x80 | byte(r.IntN(2)<<5)
		add("sig-randomx", "sig", xb)
	}
	// infinity with one stray byte at each position, and stray header bits
	positions := []int{1, 2, 23, 46, 47}
	if thorough {
		positions = nil
		for i := 1; i < 48; i++ {
			positions = append(positions, i)
		}
	}
	inf := make([]byte, 48)
	inf[0] = 0xC0
	add("sig-infinity", "sig", inf)
	for _, pos := range positions {
		b := append([]byte{}, inf...)
		b[pos] = byte(1 + r.IntN(255))
		add("sig-infinity-stray", "sig", b)
	}
	for _, hb := range []byte{0xC1, 0xE0, 0xD0, 0x40, 0xFF} {
		b := append([]byte{}, inf...)
		b[0] = hb
		add("sig-infinity-header", "sig", b)
	}
	nflip := 10
	if thorough {
		nflip = 384
	}
	for i := 0; i < nflip; i++ {
		b := append([]byte{}, s0...)
		bit := r.IntN(384)
		if thorough {
			bit = i
		}
		b[bit/8] ^= 1 << (7 - bit%8)
		add("sig-bitflip", "sig", b)
	}
	for _, l := range []int{0, 1, 47, 49, 96} {
		add("sig-length", "sig", rbytes(r, l))
	}
	// ---- public keys (E2 codec + G2 membership) ----
	npk := 2
	if thorough {
		npk = 10
	}
	var pks [][]byte
	for i := 0; i < npk; i++ {
		pk := blsSk(r).PublicKey().Encode()
		pks = append(pks, pk)
		add("pk-valid", "pk", pk)
	}
	add("pk-valid", "pk", blsSkFromInt(one).PublicKey().Encode())
	add("pk-valid", "pk", blsSkFromInt(new(big.Int).Sub(blsR, one)).PublicKey().Encode())
	add("pk-identity", "pk", crypto.IdentityBLSPublicKey().Encode())
	pk0 := pks[0]
	for f := 0; f < 8; f++ {
		b := append([]byte{}, pk0...)
		b[0] = (b[0] & 0x1F) | byte(f<<5)
		add("pk-flags", "pk", b)
	}
	for _, x := range []*big.Int{big.NewInt(0), one, new(big.Int).Sub(blsP, one), blsP, new(big.Int).Sub(two381, one)} {
		for _, which := range []int{0, 1} { // coordinate in the first or second half
			b := make([]byte, 96)
			copy(b[48*which:], fixed(x, 48))
			copy(b[48*(1-which):], pk0[48*(1-which):48*(1-which)+48])
			b[0] = (b[0] & 0x1F) | 0x80
			add("pk-xedge", "pk", b)
		}
	}
	nrp := 4
	if thorough {
		nrp = 40
	}
	for i := 0; i < nrp; i++ { // random x in Fp2: on-curve (outside G2) about half of the time
		b := rbytes(r, 96)
		b[0] = (b[0] & 0x0F) | 0x80 | byte(r.IntN(2)<<5)
		b[48] &= 0x0F
		add("pk-randomx", "pk", b)
	}
	inf2 := make([]byte, 96)
	inf2[0] = 0xC0
	pos2 := []int{1, 47, 48, 94, 95}
	if thorough {
		pos2 = nil
		for i := 1; i < 96; i++ {
			pos2 = append(pos2, i)
		}
	}
	for _, pos := range pos2 {
		b := append([]byte{}, inf2...)
		b[pos] = byte(1 + r.IntN(255))
		add("pk-infinity-stray", "pk", b)
	}
	for _, hb := range []byte{0xC1, 0xE0, 0x40} {
		b := append([]byte{}, inf2...)
		b[0] = hb
		add("pk-infinity-header", "pk", b)
	}
	nflip2 := 6
	if thorough {
		nflip2 = 200
	}
	for i := 0; i < nflip2; i++ {
		b := append([]byte{}, pk0...)
		bit := r.IntN(768)
		b[bit/8] ^= 1 << (7 - bit%8)
		add("pk-bitflip", "pk", b)
	}
	for _, l := range []int{0, 1, 48, 95, 97, 192} {
		add("pk-length", "pk", rbytes(r, l))
	}
	// ---- probe against the cited ZCash format: the standard G2 generator, imaginary part first ----
	gen := unhx("93e02b6052719f607dacd3a088274f65596bd0d09920b61ab5da61bbdc7f5049334cf11213945d57e5ac7d055d042b7e024aa2b2f08f0a91260805272dc51051c6e47ad4fa403b02b4510b647ae3d1770bac0326a805bbefd48056c8c121bdb8")
	c := mkcase("pk-zcash-generator", c05In{"pkzcash", hx(gen)})
	c.Finding = "g2-fp2-order"
	cs = append(cs, c)
	c2 := mkcase("pk-zcash-generator", c05In{"pkzcash", hx(blsSkFromInt(one).PublicKey().Encode())})
	c2.Finding = "g2-fp2-order"
	cs = append(cs, c2)
	return cs
}

func c05Run(c Case) (Result, error) {
	var in c05In
	if err := json.Unmarshal(c.Input, &in); err != nil {
		return Result{}, err
	}
	b := unhx(in.Bytes)
	ok := false
	var reenc []byte
	var kind string
	expected := 0
	panicked, pmsg := catch(func() {
		switch in.Kind {
		case "sk":
			kind, expected = "KSk", 32
			sk, err := crypto.DecodePrivateKey(crypto.BLSBLS12381, b)
			if err == nil {
				ok, reenc = true, sk.Encode()
			} else if !crypto.IsInvalidInputsError(err) {
				panic("unexpected error class: " + err.Error())
			}
		case "pk", "pkzcash":
			kind, expected = "KPk", 96
			if in.Kind == "pkzcash" {
				kind = "KPkZcashProbe"
			}
			pk, err := crypto.DecodePublicKey(crypto.BLSBLS12381, b)
			if err == nil {
				ok, reenc = true, pk.Encode()
				pk2, err2 := crypto.DecodePublicKeyCompressed(crypto.BLSBLS12381, b)
				if err2 != nil || !pk.Equals(pk2) {
					panic("DecodePublicKeyCompressed disagrees with DecodePublicKey")
				}
			} else if !crypto.IsInvalidInputsError(err) {
				panic("unexpected error class: " + err.Error())
			}
		case "sig":
			kind, expected = "KSig", 48
			out, err := crypto.AggregateBLSSignatures([]crypto.Signature{b})
			if err == nil {
				ok, reenc = true, out
			}
		}
	})
	if panicked {
		// a panic is reported as an impossible observation: accepted with an empty re-encoding
		return Result{Coq: fmt.Sprintf("mkCase %s %s true %s", kindOr(kind, in.Kind), cqs(in.Bytes), cqs("ff")), Key: string(c.Input), Nontrivial: true,
			Obs: map[string]any{"panic": pmsg}}, nil
	}
	term := fmt.Sprintf("mkCase %s %s %s %s", kind, cqs(in.Bytes), cqbool(ok), cqs(hx(reenc)))
	return Result{Coq: term, Key: string(c.Input), Nontrivial: len(b) == expected, Obs: map[string]any{"ok": ok, "reenc": hx(reenc)}}, nil
}

func kindOr(k, raw string) string {
	if k != "" {
		return k
	}
	switch raw {
	case "sk":
		return "KSk"
	case "sig":
		return "KSig"
	case "pkzcash":
		return "KPkZcashProbe"
	}
	return "KPk"
}

// C05 = the BLS decoders (this file) + the ECDSA public-key decoders (generator and runner of c11.go,
// evaluated by Corr/C11Corr.v) + the ECDSA private-key decoder (decode cases of c12.go, Corr/C12Corr.v).
func c05GenAll(tier string, r *rand.Rand) []Case {
	cs := c05Gen(tier, r)
	for _, c := range c11GenDecoders(tier, r) {
		c.Kind = "ecdsa-pub-" + c.Kind
		cs = append(cs, c)
	}
	for _, c := range c12Gen(tier, r) {
		var in c12In
		if json.Unmarshal(c.Input, &in) == nil && in.Op == "decode" {
			c.Kind = "ecdsa-priv-" + c.Kind
			cs = append(cs, c)
		}
	}
	return cs
}

func c05RunAll(c Case) (Result, error) {
	switch {
	case strings.HasPrefix(c.Kind, "ecdsa-pub-"):
		res, err := c11Run(c)
		if err != nil {
			return res, err
		}
		t := strings.Replace(res.Coq, "CDecPub P ", "C11Corr.CDecPub C11Corr.P ", 1)
		t = strings.Replace(t, "CDecPub K ", "C11Corr.CDecPub C11Corr.K ", 1)
		res.Coq = "AEcdsaPub (" + t + ")"
		return res, nil
	case strings.HasPrefix(c.Kind, "ecdsa-priv-"):
		res, err := c12Run(c)
		if err != nil {
			return res, err
		}
		t := strings.Replace(res.Coq, "mkCase ", "C12Corr.mkCase ", 1)
		for _, a := range []string{"ABls", "AP256", "AK1"} {
			t = strings.Replace(t, " "+a+" ", " C12Corr."+a+" ", 1)
		}
		res.Coq = "AEcdsaPriv (" + t + ")"
		return res, nil
	}
	res, err := c05Run(c)
	if err != nil {
		return res, err
	}
	res.Coq = "ABlsDec (" + res.Coq + ")"
	return res, nil
}
