// extract: the translator. Regenerates from /repo's current sources the parts of
// the Coq model that are facts about the source rather than algorithms:
// constants (Go consts incl. function-local ones, C #define arithmetic), and a
// normalised digest of every function (used to decide the search budget).
package main

import (
	"bytes"
	"crypto/sha256"
	"encoding/hex"
	"encoding/json"
	"flag"
	"fmt"
	"go/ast"
	"go/constant"
	"go/parser"
	"go/printer"
	"go/token"
	"os"
	"path/filepath"
	"sort"
	"strings"
)

type cval struct {
	v    constant.Value
	from string
}

type pkgConsts struct {
	name string
	vals map[string]cval
	// unevaluated specs for lazy resolution
	specs map[string]specRef
}

type specRef struct {
	expr ast.Expr
	iota int64
	file string
}

var cenvG = &cenv{m: map[string]cmacro{}}

func (p *pkgConsts) eval(e ast.Expr, iota int64, local map[string]constant.Value, depth int) (constant.Value, error) {
	if depth > 50 {
		return nil, fmt.Errorf("too deep")
	}
	switch x := e.(type) {
	case *ast.BasicLit:
		v := constant.MakeFromLiteral(x.Value, x.Kind, 0)
		if v.Kind() == constant.Unknown {
			return nil, fmt.Errorf("bad literal")
		}
		return v, nil
	case *ast.ParenExpr:
		return p.eval(x.X, iota, local, depth+1)
	case *ast.Ident:
		if x.Name == "iota" {
			return constant.MakeInt64(iota), nil
		}
		if x.Name == "true" {
			return constant.MakeBool(true), nil
		}
		if x.Name == "false" {
			return constant.MakeBool(false), nil
		}
		if local != nil {
			if v, ok := local[x.Name]; ok {
				return v, nil
			}
		}
		if v, ok := p.vals[x.Name]; ok {
			return v.v, nil
		}
		if s, ok := p.specs[x.Name]; ok {
			v, err := p.eval(s.expr, s.iota, nil, depth+1)
			if err == nil {
				p.vals[x.Name] = cval{v, s.file}
			}
			return v, err
		}
		return nil, fmt.Errorf("unknown ident %s", x.Name)
	case *ast.SelectorExpr:
		if id, ok := x.X.(*ast.Ident); ok {
			if id.Name == "C" {
				v, err := cenvG.eval(x.Sel.Name, nil, 0)
				if err != nil {
					return nil, err
				}
				return constant.MakeInt64(v), nil
			}
			if v, ok := externalConsts[id.Name+"."+x.Sel.Name]; ok {
				return constant.MakeInt64(v), nil
			}
		}
		return nil, fmt.Errorf("unknown selector")
	case *ast.UnaryExpr:
		v, err := p.eval(x.X, iota, local, depth+1)
		if err != nil {
			return nil, err
		}
		return constant.UnaryOp(x.Op, v, 0), nil
	case *ast.BinaryExpr:
		a, err := p.eval(x.X, iota, local, depth+1)
		if err != nil {
			return nil, err
		}
		b, err := p.eval(x.Y, iota, local, depth+1)
		if err != nil {
			return nil, err
		}
		switch x.Op {
		case token.SHL, token.SHR:
			s, ok := constant.Uint64Val(b)
			if !ok {
				return nil, fmt.Errorf("bad shift")
			}
			return constant.Shift(a, x.Op, uint(s)), nil
		case token.EQL, token.NEQ, token.LSS, token.LEQ, token.GTR, token.GEQ:
			return constant.MakeBool(constant.Compare(a, x.Op, b)), nil
		case token.QUO:
			if a.Kind() == constant.Int && b.Kind() == constant.Int {
				if constant.Sign(b) == 0 {
					return nil, fmt.Errorf("div by zero")
				}
				return constant.BinaryOp(a, token.QUO_ASSIGN, b), nil
			}
		}
		if a.Kind() != b.Kind() {
			return nil, fmt.Errorf("kind mismatch")
		}
		return constant.BinaryOp(a, x.Op, b), nil
	case *ast.CallExpr:
		if len(x.Args) != 1 {
			return nil, fmt.Errorf("call")
		}
		if id, ok := x.Fun.(*ast.Ident); ok {
			switch id.Name {
			case "len":
				v, err := p.eval(x.Args[0], iota, local, depth+1)
				if err != nil {
					return nil, err
				}
				if v.Kind() == constant.String {
					return constant.MakeInt64(int64(len(constant.StringVal(v)))), nil
				}
				return nil, fmt.Errorf("len of non-string")
			case "int", "int64", "int32", "uint", "uint64", "uint32", "uint8", "byte", "index", "uint16", "int16", "int8":
				return p.eval(x.Args[0], iota, local, depth+1)
			}
			// named integer types of the package (SigningAlgorithm(…), dkgMsgTag(…), …)
			return p.eval(x.Args[0], iota, local, depth+1)
		}
		if sel, ok := x.Fun.(*ast.SelectorExpr); ok {
			if id, ok := sel.X.(*ast.Ident); ok && id.Name == "C" {
				return p.eval(x.Args[0], iota, local, depth+1)
			}
		}
		return nil, fmt.Errorf("call")
	}
	return nil, fmt.Errorf("unsupported expr %T", e)
}

// constants of external packages the sources refer to (part of the trusted base).
var externalConsts = map[string]int64{
	"chacha20.KeySize":   32,
	"chacha20.NonceSize": 12,
	"sha256.Size":        32,
	"sha512.Size384":     48,
	"sha512.Size":        64,
	"sha256.BlockSize":   64,
	"sha512.BlockSize":   128,
	// package math: integer limits (a limit "borrowed" from math instead of a literal must still
	// reach the model as a number)
	"math.MaxInt8": 1<<7 - 1, "math.MinInt8": -1 << 7, "math.MaxUint8": 1<<8 - 1,
	"math.MaxInt16": 1<<15 - 1, "math.MinInt16": -1 << 15, "math.MaxUint16": 1<<16 - 1,
	"math.MaxInt32": 1<<31 - 1, "math.MinInt32": -1 << 31, "math.MaxUint32": 1<<32 - 1,
	"math.MaxInt64": 1<<63 - 1, "math.MinInt64": -1 << 63, "math.MaxInt": 1<<63 - 1, "math.MinInt": -1 << 63,
	"bits.UintSize": 64,
}

func coqIdent(s string) string {
	s = strings.Map(func(r rune) rune {
		if r >= 'a' && r <= 'z' || r >= 'A' && r <= 'Z' || r >= '0' && r <= '9' || r == '_' {
			return r
		}
		return '_'
	}, s)
	return s
}

func emitConst(sb *strings.Builder, name string, v constant.Value, from string) {
	switch v.Kind() {
	case constant.Int:
		fmt.Fprintf(sb, "Definition %s : Z := (%s)%%Z. (* %s *)\n", name, v.ExactString(), from)
	case constant.String:
		s := constant.StringVal(v)
		var items []string
		for _, b := range []byte(s) {
			items = append(items, fmt.Sprintf("%d", b))
		}
		fmt.Fprintf(sb, "Definition %s : list N := [%s]%%N. (* %q %s *)\n", name, strings.Join(items, "; "), s, from)
	case constant.Bool:
		fmt.Fprintf(sb, "Definition %s : bool := %v. (* %s *)\n", name, constant.BoolVal(v), from)
	}
}

func constDecl(p *pkgConsts, gd *ast.GenDecl, file string, local map[string]constant.Value, prefix string, out map[string]cval) {
	var lastExprs []ast.Expr
	for i, sp := range gd.Specs {
		vs := sp.(*ast.ValueSpec)
		exprs := vs.Values
		if len(exprs) == 0 {
			exprs = lastExprs
		} else {
			lastExprs = exprs
		}
		for j, n := range vs.Names {
			if n.Name == "_" || j >= len(exprs) {
				continue
			}
			if local == nil {
				p.specs[n.Name] = specRef{exprs[j], int64(i), file}
			} else {
				v, err := p.eval(exprs[j], int64(i), local, 0)
				if err == nil {
					local[n.Name] = v
					out[prefix+n.Name] = cval{v, file}
				}
			}
		}
	}
}

func funcName(fd *ast.FuncDecl) string {
	if fd.Recv != nil && len(fd.Recv.List) > 0 {
		t := fd.Recv.List[0].Type
		if st, ok := t.(*ast.StarExpr); ok {
			t = st.X
		}
		if id, ok := t.(*ast.Ident); ok {
			return id.Name + "." + fd.Name.Name
		}
	}
	return fd.Name.Name
}

func digestNode(fset *token.FileSet, n ast.Node) string {
	var buf bytes.Buffer
	cfg := printer.Config{Mode: printer.RawFormat}
	_ = cfg.Fprint(&buf, token.NewFileSet(), n) // fresh fileset: positions/comments dropped
	_ = fset
	norm := strings.Join(strings.Fields(buf.String()), " ")
	h := sha256.Sum256([]byte(norm))
	return hex.EncodeToString(h[:8])
}

// crude top-level C function splitter: comments stripped, whitespace normalised.
func cFunctions(src string) map[string]string {
	// strip comments
	var sb strings.Builder
	for i := 0; i < len(src); {
		if strings.HasPrefix(src[i:], "//") {
			for i < len(src) && src[i] != '\n' {
				i++
			}
		} else if strings.HasPrefix(src[i:], "/*") {
			j := strings.Index(src[i+2:], "*/")
			if j < 0 {
				break
			}
			i += j + 4
		} else {
			sb.WriteByte(src[i])
			i++
		}
	}
	s := sb.String()
	out := map[string]string{}
	depth := 0
	start := 0
	hdrStart := 0
	for i := 0; i < len(s); i++ {
		switch s[i] {
		case '{':
			if depth == 0 {
				start = i
			}
			depth++
		case '}':
			depth--
			if depth == 0 {
				hdr := s[hdrStart:start]
				if k := strings.Index(hdr, "("); k > 0 && !strings.Contains(hdr, "=") {
					f := strings.Fields(hdr[:k])
					if len(f) > 0 {
						name := strings.TrimLeft(f[len(f)-1], "*")
						body := strings.Join(strings.Fields(hdr+s[start:i+1]), " ")
						h := sha256.Sum256([]byte(body))
						out[name] = hex.EncodeToString(h[:8])
					}
				}
				hdrStart = i + 1
			}
		case ';':
			if depth == 0 {
				hdrStart = i + 1
			}
		case '#':
			if depth == 0 {
				// skip preprocessor line
				for i < len(s) && s[i] != '\n' {
					i++
				}
				hdrStart = i + 1
			}
		}
	}
	return out
}

// extra emitters (one file per concern, registered from init()): each regenerates
// further coq/Generated/*.v files from the sources.
var extraEmitters []func(repo, outDir string) error

func main() {
	repo := flag.String("repo", "/repo", "")
	outDir := flag.String("out", "/verif/coq/Generated", "")
	digOut := flag.String("digests", "/verif/work/digests.json", "")
	flag.Parse()

	for _, h := range []string{"bls12381_utils.h", "bls_include.h", "bls_thresholdsign_include.h", "dkg_include.h", "bls_thresholdsign_core.c", "dkg_core.c", "bls_core.c", "bls12381_utils.c"} {
		cenvG.load(filepath.Join(*repo, h))
	}

	digests := map[string]string{}
	var sb strings.Builder
	sb.WriteString("(* GENERATED by harness/cmd/extract from /repo - do not edit. *)\nFrom Coq Require Import ZArith NArith List.\nImport ListNotations.\n\n")

	// C macros that evaluate to integers
	var cnames []string
	for n, m := range cenvG.m {
		if !m.fn && m.body != "" {
			cnames = append(cnames, n)
		}
	}
	sort.Strings(cnames)
	for _, n := range cnames {
		if v, err := cenvG.eval(n, nil, 0); err == nil {
			fmt.Fprintf(&sb, "Definition C_%s : Z := (%d)%%Z.\n", coqIdent(n), v)
		}
	}
	sb.WriteString("\n")

	dirs := []struct{ dir, pkg string }{{"", "crypto"}, {"hash", "hash"}, {"random", "random"}}
	for _, d := range dirs {
		fset := token.NewFileSet()
		files, _ := filepath.Glob(filepath.Join(*repo, d.dir, "*.go"))
		sort.Strings(files)
		p := &pkgConsts{name: d.pkg, vals: map[string]cval{}, specs: map[string]specRef{}}
		var parsed []*ast.File
		var names []string
		for _, f := range files {
			if strings.HasSuffix(f, "_test.go") || strings.HasSuffix(f, "sign_test_utils.go") {
				continue
			}
			af, err := parser.ParseFile(fset, f, nil, parser.SkipObjectResolution)
			if err != nil {
				fmt.Fprintf(os.Stderr, "extract: parse %s: %v\n", f, err)
				continue
			}
			// skip the no_cgo stubs for constants: they shadow the cgo definitions
			base := filepath.Base(f)
			parsed = append(parsed, af)
			names = append(names, base)
			if base == "no_cgo.go" {
				continue
			}
			for _, dcl := range af.Decls {
				if gd, ok := dcl.(*ast.GenDecl); ok && gd.Tok == token.CONST {
					constDecl(p, gd, base, nil, "", nil)
				}
			}
		}
		var cn []string
		for n := range p.specs {
			cn = append(cn, n)
		}
		sort.Strings(cn)
		for _, n := range cn {
			s := p.specs[n]
			v, err := p.eval(s.expr, s.iota, nil, 0)
			if err != nil {
				continue
			}
			emitConst(&sb, coqIdent(d.pkg+"_"+n), v, s.file)
		}
		// function-local constants and digests
		for i, af := range parsed {
			for _, dcl := range af.Decls {
				fd, ok := dcl.(*ast.FuncDecl)
				if !ok || fd.Body == nil {
					continue
				}
				fn := funcName(fd)
				key := d.pkg + "." + fn
				if names[i] == "no_cgo.go" || strings.HasPrefix(names[i], "xor_") || strings.HasPrefix(names[i], "keccakf") {
					key = d.pkg + "." + names[i] + ":" + fn
				}
				digests[key] = digestNode(fset, fd)
				local := map[string]constant.Value{}
				outc := map[string]cval{}
				ast.Inspect(fd.Body, func(n ast.Node) bool {
					if ds, ok := n.(*ast.DeclStmt); ok {
						if gd, ok := ds.Decl.(*ast.GenDecl); ok && gd.Tok == token.CONST {
							constDecl(p, gd, names[i], local, "", outc)
						}
					}
					return true
				})
				var ln []string
				for n := range outc {
					ln = append(ln, n)
				}
				sort.Strings(ln)
				for _, n := range ln {
					if names[i] == "no_cgo.go" {
						continue
					}
					emitConst(&sb, coqIdent(d.pkg+"_"+strings.ReplaceAll(fn, ".", "_")+"__"+n), outc[n].v, names[i])
				}
			}
		}
		sb.WriteString("\n")
	}
	for _, cf := range []string{"bls_core.c", "bls12381_utils.c", "bls_thresholdsign_core.c", "dkg_core.c"} {
		b, err := os.ReadFile(filepath.Join(*repo, cf))
		if err != nil {
			continue
		}
		for n, h := range cFunctions(string(b)) {
			digests["C."+cf+":"+n] = h
		}
	}

	writeIfChanged(filepath.Join(*outDir, "Consts.v"), sb.String())
	for _, em := range extraEmitters {
		if err := em(*repo, *outDir); err != nil {
			fmt.Fprintln(os.Stderr, "extract:", err)
			os.Exit(1)
		}
	}
	db, _ := json.MarshalIndent(digests, "", " ")
	_ = os.MkdirAll(filepath.Dir(*digOut), 0o755)
	_ = os.WriteFile(*digOut, db, 0o644)
}

func writeIfChanged(path, content string) {
	old, err := os.ReadFile(path)
	if err == nil && string(old) == content {
		return
	}
	_ = os.MkdirAll(filepath.Dir(path), 0o755)
	if err := os.WriteFile(path, []byte(content), 0o644); err != nil {
		panic(err)
	}
}
