// risk_walk.go: the statement / expression walker of the C09 risk skeletons.
package main

import (
	"fmt"
	"go/ast"
	"go/constant"
	"go/token"
	"math/big"
	"strings"
)

// ---- terms, conditions, events ----

type rterm struct {
	k    string // Len Var Const Add Sub Mul Byte Opaque
	x    string
	z    *big.Int
	a, b *rterm
}

func tConst(n int64) *rterm   { return &rterm{k: "Const", z: big.NewInt(n)} }
func tVar(x string) *rterm    { return &rterm{k: "Var", x: x} }
func tLen(x string) *rterm    { return &rterm{k: "Len", x: x} }
func tOpaque(x string) *rterm { return &rterm{k: "Opaque", x: x} }
func tBin(k string, a, b *rterm) *rterm {
	if a.k == "Const" && b.k == "Const" {
		z := new(big.Int)
		switch k {
		case "Add":
			z.Add(a.z, b.z)
		case "Sub":
			z.Sub(a.z, b.z)
		case "Mul":
			z.Mul(a.z, b.z)
		}
		return &rterm{k: "Const", z: z}
	}
	if b.k == "Const" && b.z.Sign() == 0 && (k == "Add" || k == "Sub") {
		return a
	}
	if a.k == "Const" && a.z.Sign() == 0 && k == "Add" {
		return b
	}
	return &rterm{k: k, a: a, b: b}
}

func (t *rterm) coq() string {
	switch t.k {
	case "Len", "Var", "Opaque":
		return fmt.Sprintf("T%s %s", t.k, cqStr(t.x))
	case "Const":
		if t.z.Sign() < 0 {
			return fmt.Sprintf("TConst (%s)", t.z.String())
		}
		return "TConst " + t.z.String()
	case "Byte":
		return "TByte (" + t.a.coq() + ")"
	}
	return fmt.Sprintf("T%s (%s) (%s)", t.k, t.a.coq(), t.b.coq())
}

func (t *rterm) names(out map[string]bool) {
	if t == nil {
		return
	}
	switch t.k {
	case "Len", "Var", "Opaque":
		out[t.x] = true
	}
	t.a.names(out)
	t.b.names(out)
}

type rcond struct {
	k    string // Lt Le Eq Ne Gt Ge Or And Not Nil True False Unknown
	ta   *rterm
	tb   *rterm
	a, b *rcond
	x    string
}

func cUnknown(s string) *rcond { return &rcond{k: "Unknown", x: s} }
func cNot(c *rcond) *rcond {
	switch c.k {
	case "True":
		return &rcond{k: "False"}
	case "False":
		return &rcond{k: "True"}
	case "Not":
		return c.a
	case "Lt", "Le", "Eq", "Ne", "Gt", "Ge":
		d := *c
		d.k = map[string]string{"Lt": "Ge", "Le": "Gt", "Eq": "Ne", "Ne": "Eq", "Gt": "Le", "Ge": "Lt"}[c.k]
		return &d
	}
	return &rcond{k: "Not", a: c}
}

func (c *rcond) coq() string {
	switch c.k {
	case "Lt", "Le", "Eq", "Ne", "Gt", "Ge":
		return fmt.Sprintf("C%s (%s) (%s)", c.k, c.ta.coq(), c.tb.coq())
	case "Or", "And":
		return fmt.Sprintf("C%s (%s) (%s)", c.k, c.a.coq(), c.b.coq())
	case "Not":
		return "CNot (" + c.a.coq() + ")"
	case "Nil":
		return "CNil " + cqStr(c.x)
	case "True", "False":
		return "C" + c.k
	}
	return "CUnknown " + cqStr(c.x)
}

func (c *rcond) names(out map[string]bool) {
	if c == nil {
		return
	}
	c.ta.names(out)
	c.tb.names(out)
	c.a.names(out)
	c.b.names(out)
	if c.k == "Nil" {
		out[c.x] = true
	}
}

type rbind struct {
	p string
	t *rterm
}

type rev struct {
	k      string // Risk If Ret LoopRange LoopN LoopWhile Break SetLen Reslice Havoc Call Dyn Ext Note Unknown
	risk   string // Idx Slice Make Assert Deref Div Panic
	x, y   string
	t1, t2 *rterm
	ts     []*rterm
	c      *rcond
	a, b   []*rev
	binds  []rbind
	res    []string
	callee *rfunc
	decl   bool // assignment that declares its variable (:=, var)
	aux    bool // ESetLen that only restates the length of a fixed-size array
	loopID int
}

func cqStr(s string) string {
	s = strings.Join(strings.Fields(s), " ")
	var sb strings.Builder
	sb.WriteByte('"')
	for _, r := range s {
		switch {
		case r == '"':
			sb.WriteString("\"\"")
		case r < 32 || r > 126:
			sb.WriteByte('?')
		default:
			sb.WriteRune(r)
		}
	}
	sb.WriteByte('"')
	return sb.String()
}

func compact(n ast.Node) string {
	return strings.Join(strings.Fields(srcOf(n)), " ")
}

// ---- walker ----

type rwalker struct {
	w       *rworld
	fn      *rfunc
	p       *rpkg
	vars    map[string]rtype
	lconst  map[string]constant.Value
	closures map[string]*rfunc
	loops   int
	oracles map[string]int
	extra   *[]*rfunc // synthetic functions (closures) discovered while walking
	nonNil  map[string]bool // map entries assigned a fresh &T{} in the current block
}

func (rw *rwalker) unk(what string, n ast.Node) *rev {
	s := what
	if n != nil {
		s += ": " + compact(n)
	}
	if len(s) > 120 {
		s = s[:120] + "..."
	}
	return &rev{k: "Unknown", x: s}
}

func (rw *rwalker) oracle(base string) string {
	if len(base) > 80 {
		base = base[:80] + "..."
	}
	rw.oracles[base]++
	if n := rw.oracles[base]; n > 1 {
		return fmt.Sprintf("%s#%d", base, n)
	}
	return base
}

// name under which an expression lives in the environment
func (rw *rwalker) nameOf(e ast.Expr) string {
	switch x := e.(type) {
	case *ast.ParenExpr:
		return rw.nameOf(x.X)
	case *ast.UnaryExpr:
		if x.Op == token.AND {
			return rw.nameOf(x.X)
		}
	case *ast.StarExpr:
		return rw.nameOf(x.X)
	case *ast.SelectorExpr:
		// drop embedded struct fields from the path: s.feldmanVSSstate.x is s.x
		if t := rw.typeOf(x.X); t.ok() {
			if ft, emb, ok := rw.w.fieldType(t, x.Sel.Name, 0); ok && emb {
				if _, _, isS := rw.w.structOf(ft); isS {
					return rw.nameOf(x.X)
				}
			}
		}
		return rw.nameOf(x.X) + "." + x.Sel.Name
	case *ast.IndexExpr:
		return rw.nameOf(x.X) + "[" + compact(x.Index) + "]"
	case *ast.Ident:
		return x.Name
	}
	return compact(e)
}

func (rw *rwalker) evalConst(e ast.Expr) (constant.Value, bool) {
	// cross-package constants of the three packages
	if se, ok := e.(*ast.SelectorExpr); ok {
		if id, ok := se.X.(*ast.Ident); ok {
			if q, ok := rw.w.pkgs[id.Name]; ok && q != rw.p {
				if _, shadow := rw.vars[id.Name]; !shadow {
					v, err := q.consts.eval(se.Sel, 0, nil, 0)
					if err == nil {
						return v, true
					}
					return nil, false
				}
			}
		}
	}
	if id, ok := e.(*ast.Ident); ok {
		if _, shadow := rw.vars[id.Name]; shadow {
			if _, lc := rw.lconst[id.Name]; !lc {
				return nil, false
			}
		}
	}
	// any identifier inside that is a local variable makes it non-constant
	nonconst := false
	ast.Inspect(e, func(n ast.Node) bool {
		switch x := n.(type) {
		case *ast.Ident:
			if _, v := rw.vars[x.Name]; v {
				if _, lc := rw.lconst[x.Name]; !lc {
					nonconst = true
				}
			}
		case *ast.SelectorExpr:
			if id, ok := x.X.(*ast.Ident); ok {
				if _, v := rw.vars[id.Name]; v {
					nonconst = true
				}
				if q, ok := rw.w.pkgs[id.Name]; ok && q != rw.p {
					nonconst = true // handled above only at top level; inner ones go through term()
				}
			}
			return false
		case *ast.CallExpr:
			if id, ok := x.Fun.(*ast.Ident); ok && id.Name == "len" {
				// len of a constant string is fine, anything else is not constant
				if len(x.Args) == 1 {
					if _, isLit := x.Args[0].(*ast.BasicLit); !isLit {
						if aid, ok := x.Args[0].(*ast.Ident); !ok || rw.p.consts.specs[aid.Name].expr == nil {
							nonconst = true
						}
					}
				}
			}
		}
		return true
	})
	if nonconst {
		return nil, false
	}
	v, err := rw.p.consts.eval(e, 0, rw.lconst, 0)
	if err != nil {
		return nil, false
	}
	return v, true
}

// package-level variable with a constant initialiser that is never assigned
func (rw *rwalker) constVar(name string) (*rterm, bool) {
	if _, shadow := rw.vars[name]; shadow {
		return nil, false
	}
	init, ok := rw.p.ginit[name]
	if !ok || rw.p.gassigned[name] {
		return nil, false
	}
	v, err := rw.p.consts.eval(init, 0, nil, 0)
	if err != nil || v.Kind() != constant.Int {
		return nil, false
	}
	z, _ := new(big.Int).SetString(v.ExactString(), 10)
	return &rterm{k: "Const", z: z}, true
}

func constTerm(v constant.Value) (*rterm, bool) {
	switch v.Kind() {
	case constant.Int:
		z, ok := new(big.Int).SetString(v.ExactString(), 10)
		if !ok {
			return nil, false
		}
		return &rterm{k: "Const", z: z}, true
	case constant.Bool:
		if constant.BoolVal(v) {
			return tConst(1), true
		}
		return tConst(0), true
	}
	return nil, false
}

// ---- types of expressions (best effort) ----

func (rw *rwalker) typeOf(e ast.Expr) rtype {
	switch x := e.(type) {
	case *ast.ParenExpr:
		return rw.typeOf(x.X)
	case *ast.Ident:
		if t, ok := rw.vars[x.Name]; ok {
			return t
		}
		if t, ok := rw.p.gvars[x.Name]; ok {
			if t != nil {
				return rtype{t, rw.p}
			}
			if in, ok := rw.p.ginit[x.Name]; ok {
				sub := &rwalker{w: rw.w, fn: rw.fn, p: rw.p, vars: map[string]rtype{}, lconst: map[string]constant.Value{}, oracles: map[string]int{}}
				return sub.typeOf(in)
			}
		}
	case *ast.SelectorExpr:
		if id, ok := x.X.(*ast.Ident); ok {
			if _, isVar := rw.vars[id.Name]; !isVar {
				if q, ok := rw.w.pkgs[id.Name]; ok {
					if t, ok := q.gvars[x.Sel.Name]; ok && t != nil {
						return rtype{t, q}
					}
					return rtype{}
				}
			}
		}
		if t := rw.typeOf(x.X); t.ok() {
			if ft, _, ok := rw.w.fieldType(t, x.Sel.Name, 0); ok {
				return ft
			}
		}
	case *ast.IndexExpr:
		if t := rw.typeOf(x.X); t.ok() {
			return rw.w.elemType(t)
		}
	case *ast.SliceExpr:
		if t := rw.typeOf(x.X); t.ok() {
			u := rw.w.under(rw.w.deref(t))
			if at, ok := u.e.(*ast.ArrayType); ok {
				return rtype{&ast.ArrayType{Elt: at.Elt}, u.p}
			}
			return t
		}
	case *ast.StarExpr:
		if t := rw.typeOf(x.X); t.ok() {
			if s, ok := t.e.(*ast.StarExpr); ok {
				return rtype{s.X, t.p}
			}
		}
	case *ast.UnaryExpr:
		if x.Op == token.AND {
			if t := rw.typeOf(x.X); t.ok() {
				return rtype{&ast.StarExpr{X: t.e}, t.p}
			}
		}
		return rw.typeOf(x.X)
	case *ast.CompositeLit:
		if x.Type != nil {
			return rtype{x.Type, rw.p}
		}
	case *ast.TypeAssertExpr:
		if x.Type != nil {
			return rtype{x.Type, rw.p}
		}
	case *ast.BasicLit:
		switch x.Kind {
		case token.INT, token.CHAR:
			return rtype{ast.NewIdent("int"), rw.p}
		case token.STRING:
			return rtype{ast.NewIdent("string"), rw.p}
		}
	case *ast.BinaryExpr:
		switch x.Op {
		case token.EQL, token.NEQ, token.LSS, token.LEQ, token.GTR, token.GEQ, token.LAND, token.LOR:
			return rtype{ast.NewIdent("bool"), rw.p}
		}
		if t := rw.typeOf(x.X); t.ok() {
			return t
		}
		return rw.typeOf(x.Y)
	case *ast.CallExpr:
		if t, ok := rw.w.typeExpr(x.Fun, rw.p); ok && len(x.Args) == 1 && !rw.isFuncName(x.Fun) {
			return t
		}
		if id, ok := x.Fun.(*ast.Ident); ok {
			switch id.Name {
			case "make":
				if len(x.Args) > 0 {
					return rtype{x.Args[0], rw.p}
				}
			case "new":
				if len(x.Args) > 0 {
					return rtype{&ast.StarExpr{X: x.Args[0]}, rw.p}
				}
			case "append":
				if len(x.Args) > 0 {
					return rw.typeOf(x.Args[0])
				}
			case "len", "cap", "min", "max", "copy":
				return rtype{ast.NewIdent("int"), rw.p}
			}
		}
		if f, kind, _ := rw.resolveCall(x); kind == mStatic && f != nil && len(f.results) > 0 {
			return rtype{f.results[0], f.pkg}
		}
	}
	return rtype{}
}

func (rw *rwalker) isFuncName(e ast.Expr) bool {
	switch x := e.(type) {
	case *ast.Ident:
		if _, v := rw.vars[x.Name]; v {
			return true
		}
		_, ok := rw.p.funcs[x.Name]
		return ok
	case *ast.ParenExpr:
		return rw.isFuncName(x.X)
	}
	return false
}

// resolve a call: (callee, kind, receiver expression)
func (rw *rwalker) resolveCall(c *ast.CallExpr) (*rfunc, int, ast.Expr) {
	switch f := c.Fun.(type) {
	case *ast.ParenExpr:
		c2 := *c
		c2.Fun = f.X
		return rw.resolveCall(&c2)
	case *ast.Ident:
		if cl, ok := rw.closures[f.Name]; ok {
			return cl, mStatic, nil
		}
		if _, v := rw.vars[f.Name]; v {
			return nil, mDyn, nil // function-typed variable / parameter: a callback
		}
		if rf, ok := rw.p.funcs[f.Name]; ok {
			return rf, mStatic, nil
		}
		return nil, mNone, nil
	case *ast.SelectorExpr:
		if id, ok := f.X.(*ast.Ident); ok {
			if _, v := rw.vars[id.Name]; !v {
				if id.Name == "C" {
					return nil, mForeign, nil
				}
				if q, ok := rw.w.pkgs[id.Name]; ok && q != rw.p {
					if rf, ok := q.funcs[f.Sel.Name]; ok {
						return rf, mStatic, nil
					}
					return nil, mNone, nil
				}
				if _, ok := rw.p.imports[id.Name]; ok {
					if _, g := rw.p.gvars[id.Name]; !g {
						return nil, mForeign, nil
					}
				}
			}
		}
		// pkg.Var.Method(...) of an imported package
		root := f.X
		for {
			if se, ok := stripParens(root).(*ast.SelectorExpr); ok {
				root = se.X
				continue
			}
			break
		}
		if rid, ok := stripParens(root).(*ast.Ident); ok && root != f.X {
			if _, v := rw.vars[rid.Name]; !v {
				if _, imp := rw.p.imports[rid.Name]; imp {
					if _, g := rw.p.gvars[rid.Name]; !g {
						return nil, mForeign, nil
					}
				}
			}
		}
		t := rw.typeOf(f.X)
		if !t.ok() {
			return nil, mNone, f.X
		}
		// function-typed field?
		if ft, _, ok := rw.w.fieldType(t, f.Sel.Name, 0); ok {
			if _, isFn := ft.e.(*ast.FuncType); isFn {
				return nil, mDyn, f.X
			}
		}
		rf, k := rw.w.method(t, f.Sel.Name, 0)
		return rf, k, f.X
	}
	return nil, mNone, nil
}

// ---- terms ----

func (rw *rwalker) lenTerm(e ast.Expr) *rterm {
	if v, ok := rw.evalConst(e); ok && v.Kind() == constant.String {
		return tConst(int64(len(constant.StringVal(v))))
	}
	if t := rw.typeOf(e); t.ok() {
		if n, ok := rw.w.arrayLen(t); ok {
			if ct, ok := constTerm(n); ok {
				return ct
			}
		}
	}
	switch x := e.(type) {
	case *ast.ParenExpr:
		return rw.lenTerm(x.X)
	case *ast.SliceExpr:
		lo, hi := rw.sliceBounds(x)
		return tBin("Sub", hi, lo)
	case *ast.CallExpr:
		if id, ok := x.Fun.(*ast.Ident); ok && id.Name == "make" && len(x.Args) >= 2 {
			if _, shadow := rw.vars["make"]; !shadow {
				return rw.termOr(x.Args[1])
			}
		}
		// []byte(x), string(x), Hash(x) ...: same length as x
		if t, ok := rw.w.typeExpr(x.Fun, rw.p); ok && len(x.Args) == 1 && !rw.isFuncName(x.Fun) && rw.w.isSliceLike(t) {
			return rw.lenTerm(x.Args[0])
		}
		if t, ok := rw.callTerm(x); ok {
			return t
		}
		return tOpaque("len(" + compact(e) + ")")
	case *ast.CompositeLit:
		if n, ok := litLen(x); ok {
			return tConst(int64(n))
		}
	}
	return tLen(rw.nameOf(e))
}

func litLen(x *ast.CompositeLit) (int, bool) {
	if _, ok := x.Type.(*ast.ArrayType); !ok {
		return 0, false
	}
	for _, el := range x.Elts {
		if _, kv := el.(*ast.KeyValueExpr); kv {
			return 0, false
		}
	}
	return len(x.Elts), true
}

func (rw *rwalker) sliceBounds(x *ast.SliceExpr) (lo, hi *rterm) {
	lo = tConst(0)
	if x.Low != nil {
		lo = rw.termOr(x.Low)
	}
	if x.High != nil {
		hi = rw.termOr(x.High)
	} else {
		hi = rw.lenTerm(x.X)
	}
	return
}

func (rw *rwalker) termOr(e ast.Expr) *rterm {
	if t, ok := rw.term(e); ok {
		return t
	}
	return tOpaque(compact(e))
}

func isNilIdent(e ast.Expr) bool {
	id, ok := e.(*ast.Ident)
	return ok && id.Name == "nil"
}

// integer value of an expression, if it can be expressed
func (rw *rwalker) term(e ast.Expr) (*rterm, bool) {
	if v, ok := rw.evalConst(e); ok {
		if t, ok := constTerm(v); ok {
			return t, true
		}
	}
	switch x := e.(type) {
	case *ast.ParenExpr:
		return rw.term(x.X)
	case *ast.Ident:
		if x.Name == "nil" {
			return tConst(0), true
		}
		if x.Name == "true" {
			return tConst(1), true
		}
		if x.Name == "false" {
			return tConst(0), true
		}
		if t, ok := rw.constVar(x.Name); ok {
			return t, true
		}
		if _, isVar := rw.vars[x.Name]; !isVar {
			if _, isG := rw.p.gvars[x.Name]; !isG {
				if _, isF := rw.p.funcs[x.Name]; isF {
					return nil, false
				}
			}
		}
		return tVar(x.Name), true
	case *ast.SelectorExpr:
		if id, ok := x.X.(*ast.Ident); ok {
			if _, v := rw.vars[id.Name]; !v {
				if _, imp := rw.p.imports[id.Name]; imp || id.Name == "C" {
					return nil, false
				}
			}
		}
		return tVar(rw.nameOf(x)), true
	case *ast.IndexExpr:
		// an element of a byte slice / array is a value in 0..255
		if t := rw.typeOf(x.X); t.ok() && !rw.w.isMap(t) {
			if et := rw.w.elemType(t); et.ok() && rw.w.isByteType(et) {
				return &rterm{k: "Byte", a: tVar(rw.nameOf(x))}, true
			}
		}
		return tVar(rw.nameOf(x)), true
	case *ast.StarExpr:
		return rw.term(x.X)
	case *ast.UnaryExpr:
		switch x.Op {
		case token.SUB:
			if t, ok := rw.term(x.X); ok {
				return tBin("Sub", tConst(0), t), true
			}
		case token.ADD:
			return rw.term(x.X)
		}
		return nil, false
	case *ast.BinaryExpr:
		var k string
		switch x.Op {
		case token.ADD:
			k = "Add"
		case token.SUB:
			k = "Sub"
		case token.MUL:
			k = "Mul"
		default:
			return nil, false
		}
		a, ok1 := rw.term(x.X)
		b, ok2 := rw.term(x.Y)
		if ok1 && ok2 {
			return tBin(k, a, b), true
		}
		return nil, false
	case *ast.CallExpr:
		if id, ok := x.Fun.(*ast.Ident); ok {
			if _, shadow := rw.vars[id.Name]; !shadow {
				switch id.Name {
				case "len":
					if len(x.Args) == 1 {
						return rw.lenTerm(x.Args[0]), true
					}
				case "cap":
					return tOpaque(compact(e)), true
				}
			}
		}
		// conversions
		if t, ok := rw.w.typeExpr(x.Fun, rw.p); ok && len(x.Args) == 1 && !rw.isFuncName(x.Fun) {
			if rw.w.isSliceLike(t) {
				return rw.lenTerm(x.Args[0]), true
			}
			a, ok := rw.term(x.Args[0])
			if !ok {
				return nil, false
			}
			if rw.w.isByteType(t) {
				if a.k == "Const" && a.z.Sign() >= 0 && a.z.Cmp(big.NewInt(256)) < 0 {
					return a, true
				}
				// a value that is already a byte stays what it is
				if at := rw.typeOf(x.Args[0]); at.ok() && rw.w.isByteType(at) {
					return a, true
				}
				return &rterm{k: "Byte", a: a}, true
			}
			if rw.w.isIntType(t) || t.e != nil {
				return a, true
			}
		}
		return rw.callTerm(x)
	}
	return nil, false
}

// value of a call to a function of the three packages: an inlined getter, or the
// variable that receives the first result of the ECall emitted by expr()
func (rw *rwalker) callTerm(c *ast.CallExpr) (*rterm, bool) {
	f, kind, recv := rw.resolveCall(c)
	if kind != mStatic || f == nil {
		return nil, false
	}
	if t, _, ok := rw.inlineGetter(f, c, recv); ok && t != nil {
		return t, true
	}
	if len(f.results) == 0 {
		return nil, false
	}
	return tVar(retName(c, 0)), true
}

func retName(c *ast.CallExpr, i int) string {
	s := compact(c)
	if len(s) > 70 {
		s = s[:70] + "..."
	}
	if i == 0 {
		return "ret:" + s
	}
	return fmt.Sprintf("ret%d:%s", i, s)
}

// a function without parameters whose body is a single "return expr": expr as a term
// or a condition, in the caller's name space
func (rw *rwalker) inlineGetter(f *rfunc, c *ast.CallExpr, recv ast.Expr) (*rterm, *rcond, bool) {
	if len(c.Args) != 0 || len(f.params) != 0 || len(f.body.List) != 1 || len(f.results) != 1 {
		return nil, nil, false
	}
	rs, ok := f.body.List[0].(*ast.ReturnStmt)
	if !ok || len(rs.Results) != 1 {
		return nil, nil, false
	}
	sub := &rwalker{w: rw.w, fn: f, p: f.pkg, vars: map[string]rtype{}, lconst: map[string]constant.Value{}, oracles: map[string]int{}, closures: map[string]*rfunc{}}
	sub.bindSig()
	if hasCall(rs.Results[0]) {
		return nil, nil, false
	}
	from, to := "", ""
	if f.recvName != "" && recv != nil {
		from, to = f.recvName, rw.nameOf(recv)
	}
	if t, ok := sub.term(rs.Results[0]); ok {
		if bt := (rtype{f.results[0], f.pkg}); !isBoolType(bt) {
			return renameTerm(t, from, to), nil, true
		}
	}
	if cd := sub.cond(rs.Results[0]); cd.k != "Unknown" {
		return nil, renameCond(cd, from, to), true
	}
	return nil, nil, false
}

func isBoolType(t rtype) bool {
	id, ok := t.e.(*ast.Ident)
	return ok && id.Name == "bool"
}

func hasCall(e ast.Expr) bool {
	found := false
	ast.Inspect(e, func(n ast.Node) bool {
		if c, ok := n.(*ast.CallExpr); ok {
			if id, ok := c.Fun.(*ast.Ident); ok && (id.Name == "len" || id.Name == "int" || id.Name == "bool") {
				return true
			}
			found = true
		}
		return true
	})
	return found
}

func renameName(n, from, to string) string {
	if from == "" || from == to {
		return n
	}
	if n == from {
		return to
	}
	if strings.HasPrefix(n, from+".") {
		return to + n[len(from):]
	}
	return n
}

func renameTerm(t *rterm, from, to string) *rterm {
	if t == nil {
		return nil
	}
	c := *t
	c.x = renameName(t.x, from, to)
	c.a = renameTerm(t.a, from, to)
	c.b = renameTerm(t.b, from, to)
	return &c
}

func renameCond(c *rcond, from, to string) *rcond {
	if c == nil {
		return nil
	}
	d := *c
	d.x = renameName(c.x, from, to)
	d.ta = renameTerm(c.ta, from, to)
	d.tb = renameTerm(c.tb, from, to)
	d.a = renameCond(c.a, from, to)
	d.b = renameCond(c.b, from, to)
	return &d
}

// ---- conditions ----

func (rw *rwalker) cond(e ast.Expr) *rcond {
	if v, ok := rw.evalConst(e); ok && v.Kind() == constant.Bool {
		if constant.BoolVal(v) {
			return &rcond{k: "True"}
		}
		return &rcond{k: "False"}
	}
	switch x := e.(type) {
	case *ast.ParenExpr:
		return rw.cond(x.X)
	case *ast.UnaryExpr:
		if x.Op == token.NOT {
			return cNot(rw.cond(x.X))
		}
	case *ast.BinaryExpr:
		switch x.Op {
		case token.LAND:
			return &rcond{k: "And", a: rw.cond(x.X), b: rw.cond(x.Y)}
		case token.LOR:
			return &rcond{k: "Or", a: rw.cond(x.X), b: rw.cond(x.Y)}
		case token.EQL, token.NEQ, token.LSS, token.LEQ, token.GTR, token.GEQ:
			// comparison with nil
			if isNilIdent(x.Y) || isNilIdent(x.X) {
				o := x.X
				if isNilIdent(x.X) {
					o = x.Y
				}
				if t := rw.typeOf(o); t.ok() && rw.w.isSliceLike(t) && (x.Op == token.EQL || x.Op == token.NEQ) {
					if _, fixed := rw.w.arrayLen(t); !fixed {
						c := &rcond{k: "Nil", x: rw.nameOf(o)}
						if x.Op == token.NEQ {
							return cNot(c)
						}
						return c
					}
				}
			}
			a, ok1 := rw.term(x.X)
			b, ok2 := rw.term(x.Y)
			if ok1 && ok2 {
				k := map[token.Token]string{token.EQL: "Eq", token.NEQ: "Ne", token.LSS: "Lt", token.LEQ: "Le", token.GTR: "Gt", token.GEQ: "Ge"}[x.Op]
				return &rcond{k: k, ta: a, tb: b}
			}
		}
	case *ast.Ident, *ast.SelectorExpr, *ast.IndexExpr:
		if t, ok := rw.term(e); ok {
			return &rcond{k: "Ne", ta: t, tb: tConst(0)}
		}
	case *ast.CallExpr:
		// bool(x)
		if id, ok := x.Fun.(*ast.Ident); ok && id.Name == "bool" && len(x.Args) == 1 {
			return rw.cond(x.Args[0])
		}
		if f, kind, recv := rw.resolveCall(x); kind == mStatic && f != nil {
			if _, c, ok := rw.inlineGetter(f, x, recv); ok && c != nil {
				return c
			}
			if len(f.results) > 0 {
				return &rcond{k: "Ne", ta: tVar(retName(x, 0)), tb: tConst(0)}
			}
		}
	}
	return cUnknown(compact(e))
}

func (rw *rwalker) bindSig() {
	f := rw.fn
	if f.closure != nil {
		for k, v := range f.closure {
			rw.vars[k] = rtype{v, f.pkg}
		}
	}
	if f.recvName != "" && f.fd != nil && f.fd.Recv != nil {
		rw.vars[f.recvName] = rtype{f.fd.Recv.List[0].Type, f.pkg}
	}
	for i, p := range f.params {
		if p != "_" {
			rw.vars[p] = rtype{f.ptypes[i], f.pkg}
		}
	}
	for i, p := range f.resNames {
		if p != "" {
			rw.vars[p] = rtype{f.results[i], f.pkg}
		}
	}
}
