// skeleton_effects.go: effect skeletons for C19.  For the listed operations and
// every function of the package they (may) call, the writes through the receiver,
// arguments and package-level variables, the method/function/cgo calls, and for
// every argument where it comes from (fresh local buffer / derived from a receiver
// field, argument or global).  Flow-insensitive, syntactic, conservative:
// a value derived from shared data stays "shared"; unknown syntax => EUnknown.
package main

import (
	"fmt"
	"go/ast"
	"go/token"
	"path/filepath"
	"sort"
	"strings"
)

// operations listed by property C19
var effectListed = []string{
	"kmac128.ComputeHash",
	"prKeyBLSBLS12381.Sign", "pubKeyBLSBLS12381.Verify",
	"BLSVerifyPOP", "SPOCKVerify", "SPOCKVerifyAgainstData",
	"VerifyBLSSignatureOneMessage", "VerifyBLSSignatureManyMessages", "BatchVerifyBLSSignaturesOneMessage",
	"prKeyECDSA.Sign", "pubKeyECDSA.Verify",
}

// receiver types considered when a method is called through an interface value
// (PublicKey, PrivateKey, hash.Hasher): the key types of the property and KMAC128,
// the only hasher the property allows to be shared between goroutines.
var effectDispatchTypes = []string{"kmac128", "prKeyBLSBLS12381", "pubKeyBLSBLS12381", "prKeyECDSA", "pubKeyECDSA",
	"pointE2", "pointE1", "scalar", "blsBLS12381Algo", "ecdsaAlgo"}

const (
	pvFresh = iota
	pvScalar
	pvShared
	pvUnknown
)

type pv struct {
	kind int
	root string
	path string
}

func (p pv) coq() string {
	switch p.kind {
	case pvFresh:
		return "PFresh"
	case pvScalar:
		return "PScalar"
	case pvShared:
		return "PShared " + coqStr(p.root) + " " + coqStr(p.path)
	}
	return "PUnknown " + coqStr(p.path)
}

// pp: provenance of the memory an expression denotes / points to (self) and of
// what is stored in it or was derived into it (elem).  Writes and C out-parameters
// are judged on self; everything read out of a container is judged on the join.
type pp struct{ self, elem pv }

func freshPP() pp       { return pp{pv{kind: pvFresh}, pv{kind: pvFresh}} }
func both(p pv) pp      { return pp{p, p} }
func (p pp) full() pv   { return joinPv(p.self, p.elem) }
func joinPP(a, b pp) pp { return pp{joinPv(a.self, b.self), joinPv(a.elem, b.elem)} }
func (p pp) withPath(s string) pp {
	if p.self.kind == pvShared {
		p.self.path = s
	}
	if p.elem.kind == pvShared {
		p.elem.path = s
	}
	return p
}

func joinPv(a, b pv) pv {
	if b.kind > a.kind {
		return b
	}
	if a.kind == pvScalar && b.kind == pvFresh {
		return b
	}
	return a
}

type efunc struct {
	pkg, name, display string
	fd                 *ast.FuncDecl
	recvName, recvType string
}

type effIndex struct {
	funcs   map[string]*efunc // pkg + ":" + name
	types   map[string]bool   // pkg:T
	ifaces  map[string]bool   // pkg:T is an interface type
	vars    map[string]bool   // pkg:v package-level variables
	imports map[string]bool   // import names (any file)
	byDisp  map[string]*efunc
	fieldT  map[string]ast.Expr // pkg:T.f -> declared type of field f (embedded fields by their type name)
}

var basicTypes = map[string]bool{"byte": true, "int": true, "int8": true, "int16": true, "int32": true, "int64": true,
	"uint": true, "uint8": true, "uint16": true, "uint32": true, "uint64": true, "uintptr": true, "string": true, "bool": true,
	"float64": true, "float32": true, "rune": true, "error": true, "any": true}

func buildEffIndex(repo string) (*effIndex, error) {
	ix := &effIndex{funcs: map[string]*efunc{}, types: map[string]bool{}, ifaces: map[string]bool{}, vars: map[string]bool{},
		imports: map[string]bool{}, byDisp: map[string]*efunc{}, fieldT: map[string]ast.Expr{}}
	for _, d := range []struct{ dir, pkg string }{{"", "crypto"}, {"hash", "hash"}} {
		_, files, err := parseDir(repo, d.dir)
		if err != nil {
			return nil, err
		}
		for _, af := range files {
			for _, im := range af.Imports {
				p := strings.Trim(im.Path.Value, "\"")
				n := p[strings.LastIndex(p, "/")+1:]
				if im.Name != nil {
					n = im.Name.Name
				}
				ix.imports[n] = true
			}
			for _, dcl := range af.Decls {
				switch x := dcl.(type) {
				case *ast.FuncDecl:
					if x.Body == nil {
						continue
					}
					typ, rn := recvTypeName(x)
					name := x.Name.Name
					if typ != "" {
						name = typ + "." + name
					}
					ix.funcs[d.pkg+":"+name] = &efunc{pkg: d.pkg, name: name, fd: x, recvName: rn, recvType: typ}
				case *ast.GenDecl:
					for _, sp := range x.Specs {
						switch s := sp.(type) {
						case *ast.TypeSpec:
							ix.types[d.pkg+":"+s.Name.Name] = true
							if _, ok := s.Type.(*ast.InterfaceType); ok {
								ix.ifaces[d.pkg+":"+s.Name.Name] = true
							}
							if st, ok := s.Type.(*ast.StructType); ok {
								for _, f := range st.Fields.List {
									for _, n := range f.Names {
										ix.fieldT[d.pkg+":"+s.Name.Name+"."+n.Name] = f.Type
									}
									if len(f.Names) == 0 { // embedded
										t := f.Type
										if se, ok := t.(*ast.StarExpr); ok {
											t = se.X
										}
										switch e := t.(type) {
										case *ast.Ident:
											ix.fieldT[d.pkg+":"+s.Name.Name+"."+e.Name] = f.Type
										case *ast.SelectorExpr:
											ix.fieldT[d.pkg+":"+s.Name.Name+"."+e.Sel.Name] = f.Type
										}
									}
								}
							}
						case *ast.ValueSpec:
							if x.Tok == token.VAR {
								for _, n := range s.Names {
									ix.vars[d.pkg+":"+n.Name] = true
								}
							}
						}
					}
				}
			}
		}
	}
	for k, f := range ix.funcs {
		f.display = f.name
		if f.pkg != "crypto" {
			if _, clash := ix.funcs["crypto:"+f.name]; clash {
				f.display = f.pkg + "." + f.name
			}
		}
		_ = k
		ix.byDisp[f.display] = f
	}
	return ix, nil
}

type effWalker struct {
	ix     *effIndex
	fn     *efunc
	protos map[string]cProto
	vars   map[string]pp
	vtype  map[string]string
	funcv  map[string]bool // local variables bound to function literals
	emit   bool
	ev     []string
	calls  map[string]bool
	cgo    map[string]bool
}

func (w *effWalker) add(s string) {
	if w.emit {
		w.ev = append(w.ev, s)
	}
}

func pvList(ps []pv) string {
	var q []string
	for _, p := range ps {
		q = append(q, p.coq())
	}
	return "[" + strings.Join(q, "; ") + "]"
}

func strList(ss []string) string {
	var q []string
	for _, s := range ss {
		q = append(q, coqStr(s))
	}
	return "[" + strings.Join(q, "; ") + "]"
}

// in-package named type of a declared type expression ("" if unknown / external)
func (w *effWalker) declType(t ast.Expr) string {
	if st, ok := t.(*ast.StarExpr); ok {
		t = st.X
	}
	switch x := t.(type) {
	case *ast.Ident:
		if w.ix.types[w.fn.pkg+":"+x.Name] {
			if w.ix.ifaces[w.fn.pkg+":"+x.Name] {
				return ""
			}
			return x.Name
		}
	case *ast.SelectorExpr:
		if id, ok := x.X.(*ast.Ident); ok {
			if w.ix.ifaces[id.Name+":"+x.Sel.Name] {
				return ""
			}
			if w.ix.types[id.Name+":"+x.Sel.Name] {
				return x.Sel.Name
			}
			return "ext:" + id.Name + "." + x.Sel.Name
		}
	}
	return ""
}

func (w *effWalker) isLocal(name string) bool {
	_, ok := w.vars[name]
	return ok
}

func (w *effWalker) bind(name string, p pp, typ string) {
	if name == "_" {
		return
	}
	if old, ok := w.vars[name]; ok {
		p = joinPP(old, p)
		if w.vtype[name] != typ {
			typ = ""
		}
	}
	w.vars[name] = p
	w.vtype[name] = typ
}

func (w *effWalker) typeOf(e ast.Expr) string {
	e = stripParens(e)
	switch x := e.(type) {
	case *ast.Ident:
		return w.vtype[x.Name]
	case *ast.UnaryExpr:
		if x.Op == token.AND {
			return w.typeOf(x.X)
		}
	case *ast.StarExpr:
		return w.typeOf(x.X)
	case *ast.TypeAssertExpr:
		if x.Type != nil {
			return w.declType(x.Type)
		}
	case *ast.CompositeLit:
		if x.Type != nil {
			return w.declType(x.Type)
		}
	case *ast.SelectorExpr:
		if t := w.typeOf(x.X); t != "" && !strings.HasPrefix(t, "ext:") {
			for _, pk := range []string{w.fn.pkg, "crypto", "hash"} {
				if ft, ok := w.ix.fieldT[pk+":"+t+"."+x.Sel.Name]; ok {
					return w.declType(ft)
				}
			}
		}
	case *ast.CallExpr:
		// x.Clone() has the type of x
		if se, ok := x.Fun.(*ast.SelectorExpr); ok && se.Sel.Name == "Clone" && len(x.Args) == 0 {
			return w.typeOf(se.X)
		}
	}
	return ""
}

// root identifier of a selector chain a.b.c
func selRoot(e ast.Expr) (*ast.Ident, bool) {
	for {
		switch x := e.(type) {
		case *ast.Ident:
			return x, true
		case *ast.SelectorExpr:
			e = x.X
		default:
			return nil, false
		}
	}
}

func (w *effWalker) isTypeExpr(e ast.Expr) bool {
	switch x := e.(type) {
	case *ast.ParenExpr:
		return w.isTypeExpr(x.X)
	case *ast.ArrayType, *ast.MapType, *ast.InterfaceType, *ast.FuncType, *ast.ChanType, *ast.StructType:
		return true
	case *ast.StarExpr:
		return w.isTypeExpr(x.X)
	case *ast.Ident:
		if w.isLocal(x.Name) {
			return false
		}
		return basicTypes[x.Name] || w.ix.types[w.fn.pkg+":"+x.Name]
	case *ast.SelectorExpr:
		if id, ok := x.X.(*ast.Ident); ok && id.Name == "C" && !w.isLocal("C") {
			_, isFn := w.protos[x.Sel.Name]
			return !isFn
		}
	}
	return false
}

func (w *effWalker) expr(e ast.Expr) pp {
	switch x := e.(type) {
	case nil:
		return freshPP()
	case *ast.BasicLit:
		return freshPP()
	case *ast.Ident:
		if p, ok := w.vars[x.Name]; ok {
			return p
		}
		if w.ix.vars[w.fn.pkg+":"+x.Name] {
			return both(pv{pvShared, "global:" + x.Name, x.Name})
		}
		return freshPP() // constant, nil, true/false, function value
	case *ast.ParenExpr:
		return w.expr(x.X)
	case *ast.SelectorExpr:
		if id, ok := x.X.(*ast.Ident); ok && !w.isLocal(id.Name) {
			if id.Name == "C" {
				return freshPP()
			}
			if w.ix.imports[id.Name] && !w.ix.vars[w.fn.pkg+":"+id.Name] {
				// pkg.Name: without types a variable of another package cannot be told
				// from a constant: treat as a shared global
				return both(pv{pvShared, "global:" + id.Name + "." + x.Sel.Name, srcOf(x)})
			}
		}
		p := w.expr(x.X)
		return both(p.full()).withPath(srcOf(x))
	case *ast.IndexExpr:
		p := w.expr(x.X)
		w.expr(x.Index)
		return both(p.full())
	case *ast.SliceExpr:
		p := w.expr(x.X)
		w.expr(x.Low)
		w.expr(x.High)
		w.expr(x.Max)
		return p
	case *ast.StarExpr:
		p := w.expr(x.X)
		return both(p.full())
	case *ast.TypeAssertExpr:
		return w.expr(x.X)
	case *ast.UnaryExpr:
		if x.Op == token.ARROW {
			w.add("EUnknown " + coqStr("channel receive"))
			return both(pv{kind: pvUnknown, path: srcOf(x)})
		}
		p := w.expr(x.X)
		if x.Op == token.AND {
			return p
		}
		if p.full().kind == pvUnknown {
			return p
		}
		return freshPP()
	case *ast.BinaryExpr:
		w.expr(x.X)
		w.expr(x.Y)
		return freshPP() // numeric / boolean value or a new string
	case *ast.KeyValueExpr:
		return w.expr(x.Value)
	case *ast.CompositeLit:
		el := pv{kind: pvFresh}
		for _, e2 := range x.Elts {
			el = joinPv(el, w.expr(e2).full())
		}
		return pp{pv{kind: pvFresh}, el} // a new object holding (copies of / pointers to) its elements
	case *ast.FuncLit:
		w.block(x.Body.List)
		return freshPP()
	case *ast.ArrayType, *ast.MapType, *ast.InterfaceType, *ast.FuncType, *ast.ChanType, *ast.StructType:
		return freshPP()
	case *ast.CallExpr:
		return w.call(x)
	}
	w.add("EUnknown " + coqStr("expression: "+srcOf(e)))
	return both(pv{kind: pvUnknown, path: srcOf(e)})
}

// provenance of an argument handed to C
func (w *effWalker) cgoArg(a ast.Expr) pv {
	a = stripParens(a)
	if id, ok := a.(*ast.Ident); ok && id.Name == "nil" && !w.isLocal("nil") {
		return pv{kind: pvFresh}
	}
	if c, ok := a.(*ast.CallExpr); ok && len(c.Args) == 1 && w.isTypeExpr(c.Fun) {
		f := stripParens(c.Fun)
		in := w.expr(c.Args[0])
		if _, ptr := f.(*ast.StarExpr); ptr {
			inner := in.self // the memory the pointer designates
			if inner.kind == pvShared {
				inner.path = srcOf(c.Args[0])
			}
			if inner.kind == pvScalar {
				inner.kind = pvFresh
			}
			return inner
		}
		if in.full().kind == pvUnknown {
			return in.full()
		}
		return pv{kind: pvScalar}
	}
	w.expr(a)
	return pv{kind: pvUnknown, path: "C argument without an explicit conversion: " + srcOf(a)}
}

// arguments of a Go call: the callee may write anything reachable from them
func (w *effWalker) args(as []ast.Expr) ([]pv, pv) {
	var ps []pv
	j := pv{kind: pvFresh}
	for _, a := range as {
		p := w.expr(a).full()
		if p.kind == pvShared {
			p.path = srcOf(a)
		}
		ps = append(ps, p)
		j = joinPv(j, p)
	}
	return ps, j
}

func resultPP(j pv, name, src string) pp {
	if j.kind == pvFresh || j.kind == pvScalar {
		return both(pv{pvShared, "result:" + name, src})
	}
	return both(j)
}

func (w *effWalker) call(c *ast.CallExpr) pp {
	fun := stripParens(c.Fun)
	// conversion
	if len(c.Args) == 1 && w.isTypeExpr(c.Fun) {
		return w.expr(c.Args[0])
	}
	switch f := fun.(type) {
	case *ast.Ident:
		if builtinFuncs[f.Name] && !w.isLocal(f.Name) {
			switch f.Name {
			case "make", "new", "len", "cap", "min", "max":
				for _, a := range c.Args {
					if !w.isTypeExpr(a) {
						w.expr(a)
					}
				}
				return freshPP()
			case "append":
				if len(c.Args) == 0 {
					return freshPP()
				}
				r := w.expr(c.Args[0])
				// append writes into the spare capacity of its first argument's backing array when there
				// is room: an effect on that object (harmless for fresh/local slices, a shared write if
				// the slice is reachable from the receiver or an argument)
				if root, ok := rootIdent(c.Args[0]); ok {
					if p, bound := w.vars[root]; bound && p.self.kind == pvShared {
						t := p.self
						t.path = srcOf(c.Args[0])
						w.add(fmt.Sprintf("EWrite (%s) %s", t.coq(), coqStr("append may write the spare capacity of "+srcOf(c.Args[0]))))
					}
				}
				for _, a := range c.Args[1:] {
					r.elem = joinPv(r.elem, w.expr(a).full())
				}
				return r
			case "copy":
				if len(c.Args) == 2 {
					d := w.expr(c.Args[0])
					sfull := w.expr(c.Args[1]).full()
					w.add(fmt.Sprintf("EWrite (%s) %s", d.self.coq(), coqStr("copy into "+srcOf(c.Args[0]))))
					w.absorb(c.Args[0], sfull)
				}
				return freshPP()
			case "delete", "clear":
				if len(c.Args) > 0 {
					d := w.expr(c.Args[0])
					for _, a := range c.Args[1:] {
						w.expr(a)
					}
					w.add(fmt.Sprintf("EWrite (%s) %s", d.self.coq(), coqStr(f.Name+" "+srcOf(c.Args[0]))))
				}
				return freshPP()
			default:
				w.args(c.Args)
				return freshPP()
			}
		}
		ps, j := w.args(c.Args)
		if w.funcv[f.Name] {
			return both(j) // body was walked where the literal is defined
		}
		if w.isLocal(f.Name) {
			w.add("EUnknown " + coqStr("call of a function value: "+f.Name))
			return both(pv{kind: pvUnknown, path: f.Name})
		}
		disp := f.Name
		if fn, ok := w.ix.funcs[w.fn.pkg+":"+f.Name]; ok {
			disp = fn.display
			w.calls[disp] = true
		}
		w.add(fmt.Sprintf("ECallF %s %s", coqStr(disp), pvList(ps)))
		return resultPP(j, disp, srcOf(c))
	case *ast.SelectorExpr:
		root, ok := selRoot(f.X)
		if ok && !w.isLocal(root.Name) && root.Name == "C" {
			var ps []pv
			for _, a := range c.Args {
				ps = append(ps, w.cgoArg(a))
			}
			w.cgo[f.Sel.Name] = true
			w.add(fmt.Sprintf("ECgo %s %s", coqStr(f.Sel.Name), pvList(ps)))
			return freshPP()
		}
		if ok && !w.isLocal(root.Name) && w.ix.imports[root.Name] && !w.ix.vars[w.fn.pkg+":"+root.Name] {
			ps, j := w.args(c.Args)
			name := srcOf(f)
			// a function of the sibling package of the module is resolved like a local one
			if id, isId := f.X.(*ast.Ident); isId {
				if fn, ok2 := w.ix.funcs[id.Name+":"+f.Sel.Name]; ok2 {
					w.calls[fn.display] = true
					w.add(fmt.Sprintf("ECallF %s %s", coqStr(fn.display), pvList(ps)))
					return resultPP(j, fn.display, srcOf(c))
				}
			}
			w.add(fmt.Sprintf("EExt %s %s", coqStr(name), pvList(ps)))
			return resultPP(j, name, srcOf(c))
		}
		// method call: a mutating method modifies the memory the receiver designates
		rpp := w.expr(f.X)
		rp := rpp.self
		if rp.kind == pvShared {
			rp.path = srcOf(f.X)
		}
		ps, j := w.args(c.Args)
		typ := w.typeOf(f.X)
		var cands []string
		switch {
		case strings.HasPrefix(typ, "ext:"):
		case typ != "":
			for _, pk := range []string{w.fn.pkg, "crypto", "hash"} {
				if fn, ok := w.ix.funcs[pk+":"+typ+"."+f.Sel.Name]; ok {
					cands = append(cands, fn.display)
					break
				}
			}
		default:
			for _, t := range effectDispatchTypes {
				for _, pk := range []string{"crypto", "hash"} {
					if fn, ok := w.ix.funcs[pk+":"+t+"."+f.Sel.Name]; ok {
						cands = append(cands, fn.display)
					}
				}
			}
		}
		for _, cd := range cands {
			w.calls[cd] = true
		}
		w.add(fmt.Sprintf("ECallM (%s) %s %s %s", rp.coq(), strList(cands), coqStr(f.Sel.Name), pvList(ps)))
		if f.Sel.Name == "Clone" && len(c.Args) == 0 {
			return freshPP() // a copy of the receiver's state
		}
		return resultPP(joinPv(rpp.full(), j), f.Sel.Name, srcOf(c))
	case *ast.FuncLit:
		_, j := w.args(c.Args)
		w.block(f.Body.List)
		return both(j)
	}
	w.args(c.Args)
	w.add("EUnknown " + coqStr("callee: "+srcOf(c.Fun)))
	return both(pv{kind: pvUnknown, path: srcOf(c.Fun)})
}

// absorb: what is stored into a local container becomes part of what it holds
func (w *effWalker) absorb(target ast.Expr, v pv) {
	e := stripParens(target)
	for {
		switch x := e.(type) {
		case *ast.IndexExpr:
			e = stripParens(x.X)
			continue
		case *ast.SliceExpr:
			e = stripParens(x.X)
			continue
		case *ast.SelectorExpr:
			e = stripParens(x.X)
			continue
		case *ast.StarExpr:
			e = stripParens(x.X)
			continue
		case *ast.Ident:
			if p, ok := w.vars[x.Name]; ok {
				p.elem = joinPv(p.elem, v)
				w.vars[x.Name] = p
			}
		}
		return
	}
}

// assignment through a non-identifier target (or to a global)
func (w *effWalker) write(l ast.Expr, what string, v pv) {
	l = stripParens(l)
	if id, ok := l.(*ast.Ident); ok {
		if id.Name == "_" || w.isLocal(id.Name) {
			return
		}
		if w.ix.vars[w.fn.pkg+":"+id.Name] {
			w.add(fmt.Sprintf("EWrite (PShared %s %s) %s", coqStr("global:"+id.Name), coqStr(id.Name), coqStr(what+srcOf(l))))
			return
		}
		w.add("EUnknown " + coqStr("assignment to undeclared "+id.Name))
		return
	}
	var base ast.Expr
	switch x := l.(type) {
	case *ast.IndexExpr:
		w.expr(x.Index)
		base = x.X
	case *ast.SelectorExpr:
		base = x.X
	case *ast.StarExpr:
		base = x.X
	case *ast.SliceExpr:
		base = x.X
	default:
		w.add("EUnknown " + coqStr("assignment target: "+srcOf(l)))
		return
	}
	bp := w.expr(base)
	t := bp.self // slot of the object the base designates
	if _, plain := stripParens(base).(*ast.Ident); !plain {
		t = bp.full()
	}
	if t.kind == pvShared {
		t.path = srcOf(base)
	}
	w.add(fmt.Sprintf("EWrite (%s) %s", t.coq(), coqStr(what+srcOf(l))))
	w.absorb(l, v)
}

func (w *effWalker) block(list []ast.Stmt) {
	for _, s := range list {
		w.stmt(s)
	}
}

func (w *effWalker) stmt(s ast.Stmt) {
	switch x := s.(type) {
	case nil, *ast.EmptyStmt, *ast.BranchStmt:
	case *ast.ExprStmt:
		w.expr(x.X)
	case *ast.AssignStmt:
		var rp []pp
		var rt []string
		for _, r := range x.Rhs {
			rp = append(rp, w.expr(r))
			rt = append(rt, w.typeOf(r))
		}
		for i, l := range x.Lhs {
			p, t := freshPP(), ""
			if len(x.Rhs) == len(x.Lhs) {
				p, t = rp[i], rt[i]
			} else if len(rp) == 1 {
				p = rp[0]
				if i == 0 {
					t = rt[0]
				}
			}
			if x.Tok != token.ASSIGN && x.Tok != token.DEFINE {
				p = freshPP() // op-assign on values
			}
			id, isId := stripParens(l).(*ast.Ident)
			if isId && (x.Tok == token.DEFINE || w.isLocal(id.Name) || id.Name == "_") {
				if len(x.Rhs) == len(x.Lhs) {
					if _, ok := x.Rhs[i].(*ast.FuncLit); ok {
						w.funcv[id.Name] = true
					}
				}
				w.bind(id.Name, p, t)
				continue
			}
			w.write(l, "", p.full())
		}
	case *ast.IncDecStmt:
		w.write(x.X, "inc/dec ", pv{kind: pvFresh})
	case *ast.DeclStmt:
		gd, ok := x.Decl.(*ast.GenDecl)
		if !ok {
			w.add("EUnknown " + coqStr("declaration"))
			return
		}
		for _, sp := range gd.Specs {
			vs, ok := sp.(*ast.ValueSpec)
			if !ok || gd.Tok != token.VAR {
				if ok && gd.Tok == token.CONST {
					for _, n := range vs.Names {
						w.bind(n.Name, freshPP(), "")
					}
				}
				continue
			}
			t := ""
			if vs.Type != nil {
				t = w.declType(vs.Type)
			}
			for i, n := range vs.Names {
				p := freshPP()
				if i < len(vs.Values) {
					p = w.expr(vs.Values[i])
				} else if len(vs.Values) == 1 {
					p = w.expr(vs.Values[0])
				}
				w.bind(n.Name, p, t)
			}
		}
	case *ast.DeferStmt:
		w.call(x.Call)
	case *ast.GoStmt:
		w.add("EUnknown " + coqStr("go statement"))
		w.call(x.Call)
	case *ast.ReturnStmt:
		for _, r := range x.Results {
			w.expr(r)
		}
	case *ast.BlockStmt:
		w.block(x.List)
	case *ast.IfStmt:
		w.stmt(x.Init)
		w.expr(x.Cond)
		w.block(x.Body.List)
		w.stmt(x.Else)
	case *ast.ForStmt:
		w.stmt(x.Init)
		w.expr(x.Cond)
		w.block(x.Body.List)
		w.stmt(x.Post)
	case *ast.RangeStmt:
		p := both(w.expr(x.X).full())
		for _, kv := range []ast.Expr{x.Key, x.Value} {
			if kv == nil {
				continue
			}
			if id, ok := kv.(*ast.Ident); ok && (x.Tok == token.DEFINE || w.isLocal(id.Name)) {
				w.bind(id.Name, p, "")
			} else {
				w.write(kv, "range ", p.full())
			}
		}
		w.block(x.Body.List)
	case *ast.SwitchStmt:
		w.stmt(x.Init)
		w.expr(x.Tag)
		for _, cc := range x.Body.List {
			cl := cc.(*ast.CaseClause)
			for _, ce := range cl.List {
				w.expr(ce)
			}
			w.block(cl.Body)
		}
	case *ast.TypeSwitchStmt:
		w.stmt(x.Init)
		switch a := x.Assign.(type) {
		case *ast.AssignStmt:
			p := w.expr(a.Rhs[0])
			if id, ok := a.Lhs[0].(*ast.Ident); ok {
				w.bind(id.Name, p, "")
			}
		case *ast.ExprStmt:
			w.expr(a.X)
		}
		for _, cc := range x.Body.List {
			w.block(cc.(*ast.CaseClause).Body)
		}
	case *ast.LabeledStmt:
		w.stmt(x.Stmt)
	default:
		w.add("EUnknown " + coqStr("statement: "+srcOf(s)))
	}
}

func walkEffFunc(ix *effIndex, fn *efunc, protos map[string]cProto) (params []string, events []string, calls, cgo map[string]bool) {
	w := &effWalker{ix: ix, fn: fn, protos: protos, vars: map[string]pp{}, vtype: map[string]string{}, funcv: map[string]bool{},
		calls: map[string]bool{}, cgo: map[string]bool{}}
	if fn.recvName != "" {
		params = append(params, fn.recvName)
		w.vars[fn.recvName] = both(pv{pvShared, fn.recvName, fn.recvName})
		w.vtype[fn.recvName] = fn.recvType
	} else if fn.recvType != "" {
		params = append(params, "_recv")
	}
	for i, f := range fn.fd.Type.Params.List {
		t := w.declType(f.Type)
		if len(f.Names) == 0 {
			params = append(params, fmt.Sprintf("_%d", i))
		}
		for _, n := range f.Names {
			params = append(params, n.Name)
			if n.Name != "_" {
				w.vars[n.Name] = both(pv{pvShared, n.Name, n.Name})
				w.vtype[n.Name] = t
			}
		}
	}
	if fn.fd.Type.Results != nil {
		for _, f := range fn.fd.Type.Results.List {
			for _, n := range f.Names {
				w.bind(n.Name, freshPP(), "")
			}
		}
	}
	// provenance of locals to a fixpoint (flow-insensitive), then emit
	for i := 0; i < 3; i++ {
		w.block(fn.fd.Body.List)
	}
	w.emit = true
	w.block(fn.fd.Body.List)
	return params, w.ev, w.calls, w.cgo
}

func emitEffectSkel(repo, outDir string, protos map[string]cProto) (map[string]bool, error) {
	ix, err := buildEffIndex(repo)
	if err != nil {
		return nil, err
	}
	var sb strings.Builder
	sb.WriteString("(* GENERATED by harness/cmd/extract (skeleton_effects.go) from /repo - do not edit.\n")
	sb.WriteString("   Effect skeletons of the operations listed by C19 and of every function of the module they may call. *)\n")
	sb.WriteString("From Coq Require Import List String.\nFrom V Require Import Model.Skel.\nImport ListNotations.\nOpen Scope string_scope.\n\n")
	done := map[string]bool{}
	queue := append([]string{}, effectListed...)
	var order []string
	called := map[string]bool{}
	for len(queue) > 0 {
		n := queue[0]
		queue = queue[1:]
		if done[n] {
			continue
		}
		done[n] = true
		order = append(order, n)
		fn, ok := ix.byDisp[n]
		dn := "eff_" + coqIdent(n)
		if !ok {
			fmt.Fprintf(&sb, "Definition %s : efn := mkEfn %s [] [EUnknown %s].\n\n", dn, coqStr(n), coqStr("function not found in the sources"))
			continue
		}
		params, events, calls, cgo := walkEffFunc(ix, fn, protos)
		for c := range cgo {
			called[c] = true
		}
		var cs []string
		for c := range calls {
			cs = append(cs, c)
		}
		sort.Strings(cs)
		queue = append(queue, cs...)
		fmt.Fprintf(&sb, "Definition %s : efn := mkEfn %s %s\n  [%s].\n\n", dn, coqStr(n), strList(params), strings.Join(events, ";\n   "))
	}
	var q []string
	for _, n := range order {
		q = append(q, "eff_"+coqIdent(n))
	}
	fmt.Fprintf(&sb, "Definition effect_skels : list efn :=\n  [%s].\n\n", strings.Join(q, "; "))
	fmt.Fprintf(&sb, "Definition effect_listed : list string :=\n  %s.\n\n", strList(effectListed))
	fmt.Fprintf(&sb, "(* receiver types considered for calls through interface values *)\nDefinition effect_dispatch_types : list string :=\n  %s.\n", strList(effectDispatchTypes))
	writeIfChanged(filepath.Join(outDir, "EffectSkel.v"), sb.String())
	return called, nil
}

// rootIdent: x, x.f, x.f.g (selector chains only) -> x
func rootIdent(e ast.Expr) (string, bool) {
	e = stripParens(e)
	for {
		switch x := e.(type) {
		case *ast.Ident:
			return x.Name, true
		case *ast.SelectorExpr:
			e = stripParens(x.X)
		default:
			return "", false
		}
	}
}
