// risk_emit.go: havoc instrumentation, reachability and Coq output of the C09 risk skeletons.
package main

import (
	"fmt"
	"go/constant"
	"path/filepath"
	"sort"
	"strings"
)

func rootOf(name string) string {
	for i, r := range name {
		if r == '.' || r == '[' {
			return name[:i]
		}
	}
	return name
}

func (f *rfunc) walk(w *rworld, extra *[]*rfunc) {
	rw := &rwalker{w: w, fn: f, p: f.pkg, vars: map[string]rtype{}, lconst: map[string]constant.Value{},
		closures: map[string]*rfunc{}, oracles: map[string]int{}, extra: extra}
	rw.bindSig()
	var evs []*rev
	// fixed-size array parameters and receivers
	if f.recvName != "" && f.fd != nil {
		evs = append(evs, rw.arrayLenEv(f.fd.Recv.List[0].Names[0])...)
	}
	for i, p := range f.params {
		if p == "_" {
			continue
		}
		if n, ok := w.arrayLen(rtype{f.ptypes[i], f.pkg}); ok {
			if ct, ok := constTerm(n); ok {
				evs = append(evs, &rev{k: "SetLen", x: p, t1: ct, decl: true})
			}
		}
	}
	f.evs = append(evs, rw.block(f.body.List)...)
}

// names an event list assigns (deep), split into declared-here and others
func assigned(evs []*rev, out map[string]bool, declared map[string]bool) {
	for _, e := range evs {
		switch e.k {
		case "SetLen", "Havoc", "Reslice":
			if e.aux {
				break
			}
			if e.decl {
				declared[e.x] = true
			} else {
				out[e.x] = true
			}
		case "Call":
			for _, r := range e.res {
				if r != "" && !strings.HasPrefix(r, "ret") {
					out[r] = true
				}
			}
		case "LoopRange", "LoopN":
			declared[e.x] = true
		}
		assigned(e.a, out, declared)
		assigned(e.b, out, declared)
	}
}

func (f *rfunc) visibleWrite(name string) bool {
	root := rootOf(name)
	if root == name {
		_, g := f.pkg.gvars[name]
		if !g {
			return false
		}
		for _, p := range f.params {
			if p == name {
				return false
			}
		}
		return name != f.recvName
	}
	if root == f.recvName && f.recvName != "" {
		return true
	}
	for _, p := range f.params {
		if p == root {
			return true
		}
	}
	_, g := f.pkg.gvars[root]
	return g
}

// a callee's visible write, in the caller's name space ("" = not expressible: dropped)
func callerName(e *rev, n string) string {
	f := e.callee
	root := rootOf(n)
	if f.recvName != "" && root == f.recvName {
		if e.y == "" {
			return ""
		}
		return e.y + n[len(root):]
	}
	for _, b := range e.binds {
		if b.p == root {
			if b.t.k == "Var" || b.t.k == "Len" {
				return b.t.x + n[len(root):]
			}
			return ""
		}
	}
	return n
}

func computeWrites(funcs []*rfunc) {
	for _, f := range funcs {
		a, d := map[string]bool{}, map[string]bool{}
		assigned(f.evs, a, d)
		for n := range a {
			if f.visibleWrite(n) {
				f.writes[n] = true
			}
		}
		for n := range d {
			if strings.ContainsAny(n, ".[") && f.visibleWrite(n) {
				f.writes[n] = true
			}
		}
	}
	var calls func(evs []*rev, fn func(*rev))
	calls = func(evs []*rev, fn func(*rev)) {
		for _, e := range evs {
			if e.k == "Call" {
				fn(e)
			}
			calls(e.a, fn)
			calls(e.b, fn)
		}
	}
	for changed := true; changed; {
		changed = false
		for _, f := range funcs {
			calls(f.evs, func(e *rev) {
				for n := range e.callee.writes {
					cn := callerName(e, n)
					if cn != "" && f.visibleWrite(cn) && !f.writes[cn] {
						f.writes[cn] = true
						changed = true
					}
				}
			})
		}
	}
}

type instr struct {
	f   *rfunc
	cnt map[string]int
}

func (in *instr) orc(base string) string {
	in.cnt[base]++
	if n := in.cnt[base]; n > 1 {
		return fmt.Sprintf("%s#%d", base, n)
	}
	return base
}

func (in *instr) list(evs []*rev) []*rev {
	var out []*rev
	for _, e := range evs {
		e.a = in.list(e.a)
		e.b = in.list(e.b)
		switch e.k {
		case "Call":
			out = append(out, e)
			var ws []string
			for n := range e.callee.writes {
				if cn := callerName(e, n); cn != "" {
					ws = append(ws, cn)
				}
			}
			sort.Strings(ws)
			for _, n := range ws {
				out = append(out, &rev{k: "Havoc", x: n, y: in.orc(n + "@" + e.callee.key)})
			}
			continue
		case "LoopRange", "LoopN", "LoopWhile":
			a, d := map[string]bool{}, map[string]bool{}
			assigned(e.a, a, d)
			var ms []string
			for n := range a {
				if !d[n] && n != e.x {
					ms = append(ms, n)
				}
			}
			sort.Strings(ms)
			var head []*rev
			for _, n := range ms {
				head = append(head, &rev{k: "Havoc", x: n, y: fmt.Sprintf("%s@L%d", n, e.loopID)})
			}
			e.a = append(head, e.a...)
			out = append(out, e)
			for _, n := range ms {
				out = append(out, &rev{k: "Havoc", x: n, y: fmt.Sprintf("%s@E%d", n, e.loopID)})
			}
			continue
		}
		out = append(out, e)
	}
	return out
}

func usedNames(evs []*rev, out map[string]bool) {
	for _, e := range evs {
		e.t1.names(out)
		e.t2.names(out)
		for _, t := range e.ts {
			t.names(out)
		}
		e.c.names(out)
		for _, b := range e.binds {
			b.t.names(out)
		}
		switch e.k {
		case "Risk":
			if e.risk == "Idx" || e.risk == "Slice" {
				out[e.x] = true
			}
		case "LoopRange":
			out[e.y] = true
		case "Reslice":
			out[e.x] = true
		case "Havoc":
			// the oracle is not a program variable
		}
		usedNames(e.a, out)
		usedNames(e.b, out)
	}
}

func dropUnused(evs []*rev, used map[string]bool) []*rev {
	var out []*rev
	for _, e := range evs {
		e.a = dropUnused(e.a, used)
		e.b = dropUnused(e.b, used)
		if (e.k == "SetLen" || e.k == "Havoc") && !strings.ContainsAny(e.x, ".[:") && !used[e.x] {
			continue
		}
		out = append(out, e)
	}
	return out
}

// ---- Coq output ----

func coqList(items []string) string { return "[" + strings.Join(items, "; ") + "]" }

func (e *rev) coq(ind string, sb *strings.Builder) {
	sub := func(l []*rev) {
		if len(l) == 0 {
			sb.WriteString("[]")
			return
		}
		sb.WriteString("[\n")
		for i, x := range l {
			sb.WriteString(ind + "  ")
			x.coq(ind+"  ", sb)
			if i < len(l)-1 {
				sb.WriteString(";")
			}
			sb.WriteString("\n")
		}
		sb.WriteString(ind + "]")
	}
	switch e.k {
	case "Risk":
		switch e.risk {
		case "Idx":
			fmt.Fprintf(sb, "ERisk (RIdx %s (%s))", cqStr(e.x), e.t1.coq())
		case "Slice":
			fmt.Fprintf(sb, "ERisk (RSlice %s (%s) (%s))", cqStr(e.x), e.t1.coq(), e.t2.coq())
		case "Make":
			fmt.Fprintf(sb, "ERisk (RMake (%s))", e.t1.coq())
		case "Div":
			fmt.Fprintf(sb, "ERisk (RDiv (%s))", e.t1.coq())
		default:
			fmt.Fprintf(sb, "ERisk (R%s %s)", e.risk, cqStr(e.x))
		}
	case "If":
		fmt.Fprintf(sb, "EIf (%s) ", e.c.coq())
		sub(e.a)
		sb.WriteString(" ")
		sub(e.b)
	case "Ret":
		var ts []string
		for _, t := range e.ts {
			ts = append(ts, t.coq())
		}
		fmt.Fprintf(sb, "ERet %s %s", cqStr(e.x), coqList(ts))
	case "LoopRange":
		fmt.Fprintf(sb, "ELoopRange %s %s ", cqStr(e.x), cqStr(e.y))
		sub(e.a)
	case "LoopN":
		fmt.Fprintf(sb, "ELoopN %s (%s) (%s) ", cqStr(e.x), e.t1.coq(), e.t2.coq())
		sub(e.a)
	case "LoopWhile":
		fmt.Fprintf(sb, "ELoopWhile (%s) ", e.c.coq())
		sub(e.a)
	case "Break":
		sb.WriteString("EBreak")
	case "Assume":
		fmt.Fprintf(sb, "EAssume (%s)", e.c.coq())
	case "SetLen":
		fmt.Fprintf(sb, "ESetLen %s (%s)", cqStr(e.x), e.t1.coq())
	case "Reslice":
		fmt.Fprintf(sb, "EReslice %s (%s)", cqStr(e.x), e.t1.coq())
	case "Havoc":
		fmt.Fprintf(sb, "EHavoc %s %s", cqStr(e.x), cqStr(e.y))
	case "Call":
		var bs, rs []string
		for _, b := range e.binds {
			bs = append(bs, fmt.Sprintf("(%s, %s)", cqStr(b.p), b.t.coq()))
		}
		for _, r := range e.res {
			rs = append(rs, cqStr(r))
		}
		from, to := "", ""
		if e.callee.recvName != "" && e.y != "" {
			from, to = e.callee.recvName+".", e.y+"."
		}
		fmt.Fprintf(sb, "ECall %s %s %s %s %s", cqStr(e.x), coqList(bs), cqStr(from), cqStr(to), coqList(rs))
	case "Dyn", "Ext", "Note", "Unknown":
		fmt.Fprintf(sb, "E%s %s", e.k, cqStr(e.x))
	default:
		fmt.Fprintf(sb, "EUnknown %s", cqStr("internal: "+e.k))
	}
}

func countKinds(evs []*rev, risks, unknowns *int) {
	for _, e := range evs {
		if e.k == "Risk" || e.k == "Reslice" {
			*risks++
		}
		if e.k == "Unknown" {
			*unknowns++
		}
		countKinds(e.a, risks, unknowns)
		countKinds(e.b, risks, unknowns)
	}
}

func emitRisk(repo, outDir string) error {
	w, err := loadRiskWorld(repo)
	if err != nil {
		return err
	}
	var all []*rfunc
	for _, d := range riskDirs {
		p := w.pkgs[d.pkg]
		var names []string
		for n := range p.funcs {
			names = append(names, n)
		}
		sort.Strings(names)
		for _, n := range names {
			all = append(all, p.funcs[n])
		}
	}
	byKey := map[string]*rfunc{}
	var extra []*rfunc
	for i := 0; i < len(all); i++ {
		f := all[i]
		byKey[f.key] = f
		if _, op := riskOpaque[f.key]; op {
			continue
		}
		f.walk(w, &extra)
		all = append(all, extra...)
		extra = nil
	}
	computeWrites(all)
	for _, f := range all {
		in := &instr{f: f, cnt: map[string]int{}}
		f.evs = in.list(f.evs)
	}
	// closures read the variables of the enclosing function: keep everything there
	hasClosure := map[string]bool{}
	for _, f := range all {
		if i := strings.Index(f.name, "$"); i > 0 {
			hasClosure[f.name[:i]] = true
		}
	}
	for _, f := range all {
		if hasClosure[f.name] {
			continue
		}
		for i := 0; i < 3; i++ {
			used := map[string]bool{}
			usedNames(f.evs, used)
			f.evs = dropUnused(f.evs, used)
		}
	}
	// reachability from the exported functions and methods
	reach := map[string]bool{}
	dynT := map[string]bool{}
	var roots []string
	var visit func(f *rfunc)
	var scan func(evs []*rev)
	visit = func(f *rfunc) {
		if reach[f.key] {
			return
		}
		reach[f.key] = true
		scan(f.evs)
	}
	scan = func(evs []*rev) {
		for _, e := range evs {
			switch e.k {
			case "Call":
				visit(e.callee)
			case "Dyn":
				m := e.x[strings.LastIndex(e.x, ".")+1:]
				for _, g := range all {
					if g.recvType != "" && g.fd != nil && g.fd.Name.Name == m {
						dynT[g.key] = true
						visit(g)
					}
				}
			case "Ext":
				if g, ok := byKey[e.x]; ok {
					reach[g.key] = true
				}
			}
			scan(e.a)
			scan(e.b)
		}
	}
	for _, f := range all {
		if f.exported && f.fd != nil {
			roots = append(roots, f.key)
			visit(f)
		}
	}
	sort.Strings(roots)

	var sb strings.Builder
	sb.WriteString("(* GENERATED by harness/cmd/extract (risk.go) from /repo - do not edit.\n   Control skeletons with every operation that can panic, for each function of the root\n   package, hash/ and random/ reachable from an exported function or method. *)\n")
	sb.WriteString("From Coq Require Import ZArith List String.\nFrom V Require Import Model.Risk.\nImport ListNotations.\nOpen Scope string_scope.\nOpen Scope Z_scope.\n\n")
	var keys []string
	for _, f := range all {
		if reach[f.key] {
			keys = append(keys, f.key)
		}
	}
	sort.Strings(keys)
	var table, sigs, stats, opq []string
	for _, k := range keys {
		f := byKey[k]
		id := "skel_" + coqIdent(k)
		if why, op := riskOpaque[k]; op {
			opq = append(opq, fmt.Sprintf("(%s, %s)", cqStr(k), cqStr(why)))
			continue
		}
		fmt.Fprintf(&sb, "(* %s: %s *)\nDefinition %s : list ev :=\n  ", f.file, k, id)
		top := &rev{a: f.evs}
		var b strings.Builder
		if len(top.a) == 0 {
			b.WriteString("[]")
		} else {
			b.WriteString("[\n")
			for i, x := range top.a {
				b.WriteString("    ")
				x.coq("    ", &b)
				if i < len(top.a)-1 {
					b.WriteString(";")
				}
				b.WriteString("\n")
			}
			b.WriteString("  ]")
		}
		sb.WriteString(b.String())
		sb.WriteString(".\n\n")
		table = append(table, fmt.Sprintf("(%s, %s)", cqStr(k), id))
		var ps []string
		if f.recvName != "" {
			ps = append(ps, cqStr(f.recvName))
		}
		for _, p := range f.params {
			ps = append(ps, cqStr(p))
		}
		sigs = append(sigs, fmt.Sprintf("(%s, %s)", cqStr(k), coqList(ps)))
		r, u := 0, 0
		countKinds(f.evs, &r, &u)
		stats = append(stats, fmt.Sprintf("(%s, (%d, %d))", cqStr(k), r, u))
	}
	wrap := func(name, typ string, items []string) {
		fmt.Fprintf(&sb, "Definition %s : %s :=\n  [", name, typ)
		sb.WriteString(strings.Join(items, ";\n   "))
		sb.WriteString("].\n\n")
	}
	wrap("risk_table", "list (string * list ev)", table)
	sb.WriteString("Definition risk_prog : string -> option (list ev) := lookup risk_table.\n\n")
	wrap("risk_sigs", "list (string * list string)", sigs)
	sb.WriteString("(* per function: (number of risky operations, number of EUnknown events) *)\n")
	wrap("risk_stats", "list (string * (Z * Z))", stats)
	var rs, ds []string
	for _, r := range roots {
		rs = append(rs, cqStr(r))
	}
	var dk []string
	for k := range dynT {
		dk = append(dk, k)
	}
	sort.Strings(dk)
	for _, k := range dk {
		ds = append(ds, cqStr(k))
	}
	sb.WriteString("(* exported functions and methods *)\n")
	wrap("risk_roots", "list string", rs)
	sb.WriteString("(* methods reachable through an interface call (EDyn) of a walked function *)\n")
	wrap("risk_dyn_targets", "list string", ds)
	sb.WriteString("(* reachable functions that are not walked, with the reason *)\n")
	wrap("risk_opaque", "list (string * string)", opq)
	writeIfChanged(filepath.Join(outDir, "RiskSkel.v"), sb.String())
	return nil
}
