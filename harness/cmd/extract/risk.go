// risk.go: "risk skeletons" for C09.  For every function of the root package, hash/ and
// random/ that is reachable from an exported function or method, the control skeleton
// with every operation that can panic on its operands (index, slice, make, type
// assertion, explicit panic, division) is regenerated from the current sources into
// coq/Generated/RiskSkel.v.  The Coq types and their semantics are in coq/Model/Risk.v.
// go/parser only, no type checker: types are followed syntactically (declarations,
// struct fields, results of package functions); whatever is not understood becomes an
// explicit EUnknown / CUnknown / TOpaque, never silence.
//
// This file: package index and syntactic types.  risk_walk.go: the walker.
// risk_emit.go: havoc instrumentation, reachability, Coq output.
package main

import (
	"fmt"
	"go/ast"
	"go/constant"
	"go/parser"
	"go/token"
	"path/filepath"
	"sort"
	"strings"
)

func init() { extraEmitters = append(extraEmitters, emitRisk) }

type rfunc struct {
	pkg      *rpkg
	name     string // "Recv.Name" or "Name"
	key      string // skeleton key: name for the root package, "pkg.name" otherwise
	file     string
	fd       *ast.FuncDecl
	ftype    *ast.FuncType
	body     *ast.BlockStmt
	recvName string
	recvType string
	params   []string
	ptypes   []ast.Expr
	results  []ast.Expr
	resNames []string
	exported bool
	evs      []*rev
	writes   map[string]bool // receiver fields / globals assigned (callee namespace), transitive
	closure  map[string]ast.Expr // closure: variable types captured from the enclosing function
}

type rpkg struct {
	name      string
	dir       string
	consts    *pkgConsts
	funcs     map[string]*rfunc
	structs   map[string]*ast.StructType
	ifaces    map[string]*ast.InterfaceType
	named     map[string]ast.Expr // other named types -> underlying syntax
	gvars     map[string]ast.Expr // package-level variables -> declared type (may be nil)
	ginit     map[string]ast.Expr // package-level variables -> initialiser
	gassigned map[string]bool     // package-level variables assigned somewhere in a function
	imports   map[string]string   // import name -> path
}

type rworld struct {
	pkgs   map[string]*rpkg
	protos map[string]cProto
}

var riskDirs = []struct{ dir, pkg string }{{"", "crypto"}, {"hash", "hash"}, {"random", "random"}}

// functions that are deliberately not walked, with the reason (emitted as risk_opaque)
var riskOpaque = map[string]string{
	"hash.keccakF1600":        "unrolled Keccak-f[1600]: only constant indices into a *[25]uint64 and a fixed round-constant table (checked by the Go compiler)",
	"hash.keccakF1600Generic": "unrolled Keccak-f[1600]: only constant indices into a *[25]uint64 and a fixed round-constant table (checked by the Go compiler)",
}

func loadRiskWorld(repo string) (*rworld, error) {
	w := &rworld{pkgs: map[string]*rpkg{}, protos: parseCProtos(repo)}
	for _, d := range riskDirs {
		p := &rpkg{name: d.pkg, dir: d.dir, funcs: map[string]*rfunc{}, structs: map[string]*ast.StructType{},
			ifaces: map[string]*ast.InterfaceType{}, named: map[string]ast.Expr{}, gvars: map[string]ast.Expr{},
			ginit: map[string]ast.Expr{}, gassigned: map[string]bool{}, imports: map[string]string{},
			consts: &pkgConsts{name: d.pkg, vals: map[string]cval{}, specs: map[string]specRef{}}}
		files, _ := filepath.Glob(filepath.Join(repo, d.dir, "*.go"))
		sort.Strings(files)
		fset := token.NewFileSet()
		for _, f := range files {
			base := filepath.Base(f)
			if strings.HasSuffix(base, "_test.go") || base == "no_cgo.go" || strings.HasSuffix(base, "test_utils.go") || base == "verif_hooks.go" {
				continue
			}
			af, err := parser.ParseFile(fset, f, nil, parser.SkipObjectResolution)
			if err != nil {
				return nil, fmt.Errorf("risk: parse %s: %v", f, err)
			}
			testOnly := false
			for _, im := range af.Imports {
				path := strings.Trim(im.Path.Value, "\"")
				if path == "testing" {
					testOnly = true
				}
				n := path[strings.LastIndex(path, "/")+1:]
				if im.Name != nil {
					n = im.Name.Name
				}
				p.imports[n] = path
			}
			if testOnly {
				continue
			}
			// architecture-specific duplicates: keep the generic variants only
			if strings.HasSuffix(base, "_asm.go") || strings.HasSuffix(base, "_unaligned.go") {
				continue
			}
			for _, dcl := range af.Decls {
				switch x := dcl.(type) {
				case *ast.FuncDecl:
					if x.Body == nil {
						continue
					}
					rf := &rfunc{pkg: p, fd: x, ftype: x.Type, body: x.Body, file: base, writes: map[string]bool{}}
					rf.recvType, rf.recvName = recvTypeName(x)
					rf.name = x.Name.Name
					if rf.recvType != "" {
						rf.name = rf.recvType + "." + rf.name
					}
					rf.key = rf.name
					if p.name != "crypto" {
						rf.key = p.name + "." + rf.name
					}
					rf.exported = ast.IsExported(x.Name.Name)
					rf.fillSig()
					p.funcs[rf.name] = rf
				case *ast.GenDecl:
					switch x.Tok {
					case token.CONST:
						constDecl(p.consts, x, base, nil, "", nil)
					case token.TYPE:
						for _, sp := range x.Specs {
							ts := sp.(*ast.TypeSpec)
							switch t := ts.Type.(type) {
							case *ast.StructType:
								p.structs[ts.Name.Name] = t
							case *ast.InterfaceType:
								p.ifaces[ts.Name.Name] = t
							default:
								p.named[ts.Name.Name] = ts.Type
							}
						}
					case token.VAR:
						for _, sp := range x.Specs {
							vs := sp.(*ast.ValueSpec)
							for i, n := range vs.Names {
								p.gvars[n.Name] = vs.Type
								if i < len(vs.Values) {
									p.ginit[n.Name] = vs.Values[i]
								}
							}
						}
					}
				}
			}
		}
		// which package-level variables are ever assigned inside a function
		for _, rf := range p.funcs {
			ast.Inspect(rf.body, func(n ast.Node) bool {
				switch s := n.(type) {
				case *ast.AssignStmt:
					if s.Tok != token.DEFINE {
						for _, l := range s.Lhs {
							if id, ok := l.(*ast.Ident); ok {
								if _, g := p.gvars[id.Name]; g {
									p.gassigned[id.Name] = true
								}
							}
						}
					}
				case *ast.IncDecStmt:
					if id, ok := s.X.(*ast.Ident); ok {
						if _, g := p.gvars[id.Name]; g {
							p.gassigned[id.Name] = true
						}
					}
				case *ast.UnaryExpr:
					if s.Op == token.AND {
						if id, ok := s.X.(*ast.Ident); ok {
							if _, g := p.gvars[id.Name]; g {
								p.gassigned[id.Name] = true // address taken: may be written
							}
						}
					}
				}
				return true
			})
		}
		w.pkgs[d.pkg] = p
	}
	return w, nil
}

func (f *rfunc) fillSig() {
	f.params, f.ptypes, f.results, f.resNames = nil, nil, nil, nil
	if f.ftype.Params != nil {
		for _, fl := range f.ftype.Params.List {
			if len(fl.Names) == 0 {
				f.params = append(f.params, "_")
				f.ptypes = append(f.ptypes, fl.Type)
			}
			for _, n := range fl.Names {
				f.params = append(f.params, n.Name)
				f.ptypes = append(f.ptypes, fl.Type)
			}
		}
	}
	if f.ftype.Results != nil {
		for _, fl := range f.ftype.Results.List {
			if len(fl.Names) == 0 {
				f.results = append(f.results, fl.Type)
				f.resNames = append(f.resNames, "")
			}
			for _, n := range fl.Names {
				f.results = append(f.results, fl.Type)
				f.resNames = append(f.resNames, n.Name)
			}
		}
	}
}

// ---------------------------------------------------------------------------
// syntactic types
// ---------------------------------------------------------------------------

// a type together with the package its identifiers are to be resolved in
type rtype struct {
	e ast.Expr
	p *rpkg
}

func (t rtype) ok() bool { return t.e != nil }

func (w *rworld) deref(t rtype) rtype {
	for t.e != nil {
		switch x := t.e.(type) {
		case *ast.StarExpr:
			t.e = x.X
		case *ast.ParenExpr:
			t.e = x.X
		default:
			return t
		}
	}
	return t
}

// resolve named non-struct types to their underlying syntax (one package hop for pkg.T)
func (w *rworld) under(t rtype) rtype {
	for i := 0; i < 10 && t.e != nil; i++ {
		switch x := t.e.(type) {
		case *ast.ParenExpr:
			t.e = x.X
		case *ast.Ident:
			if u, ok := t.p.named[x.Name]; ok {
				t.e = u
				continue
			}
			return t
		case *ast.SelectorExpr:
			if id, ok := x.X.(*ast.Ident); ok {
				if q, ok := w.pkgs[id.Name]; ok && id.Name != t.p.name {
					t = rtype{x.Sel, q}
					continue
				}
			}
			return t
		default:
			return t
		}
	}
	return t
}

func (w *rworld) isSliceLike(t rtype) bool {
	t = w.under(w.deref(t))
	switch x := t.e.(type) {
	case *ast.ArrayType:
		return true
	case *ast.Ident:
		return x.Name == "string"
	}
	return false
}

func (w *rworld) isMap(t rtype) bool {
	t = w.under(w.deref(t))
	_, ok := t.e.(*ast.MapType)
	return ok
}

func (w *rworld) isIface(t rtype) (string, bool) {
	t = w.under(t)
	switch x := t.e.(type) {
	case *ast.InterfaceType:
		return "", true
	case *ast.Ident:
		if _, ok := t.p.ifaces[x.Name]; ok {
			return x.Name, true
		}
		if x.Name == "error" || x.Name == "any" {
			return x.Name, true
		}
	}
	return "", false
}

// struct name of a (pointer to a) struct type of one of the three packages
func (w *rworld) structOf(t rtype) (string, *rpkg, bool) {
	t = w.under(w.deref(t))
	if id, ok := t.e.(*ast.Ident); ok {
		if _, ok := t.p.structs[id.Name]; ok {
			return id.Name, t.p, true
		}
		// named non-struct type with methods (scalar, pointE2, Signature, SigningAlgorithm ...)
		if _, ok := t.p.named[id.Name]; ok {
			return id.Name, t.p, true
		}
	}
	return "", nil, false
}

// named type (before resolving to the underlying type), for method lookup
func (w *rworld) namedOf(t rtype) (string, *rpkg, bool) {
	t = w.deref(t)
	switch x := t.e.(type) {
	case *ast.Ident:
		if _, ok := t.p.structs[x.Name]; ok {
			return x.Name, t.p, true
		}
		if _, ok := t.p.named[x.Name]; ok {
			return x.Name, t.p, true
		}
		if _, ok := t.p.ifaces[x.Name]; ok {
			return x.Name, t.p, true
		}
	case *ast.SelectorExpr:
		if id, ok := x.X.(*ast.Ident); ok {
			if q, ok := w.pkgs[id.Name]; ok {
				return w.namedOf(rtype{x.Sel, q})
			}
		}
	}
	return "", nil, false
}

// fixed array length, if t is (a pointer to) [N]T with a constant N
func (w *rworld) arrayLen(t rtype) (constant.Value, bool) {
	t = w.under(w.deref(t))
	at, ok := t.e.(*ast.ArrayType)
	if !ok || at.Len == nil {
		return nil, false
	}
	if _, ell := at.Len.(*ast.Ellipsis); ell {
		return nil, false
	}
	v, err := t.p.consts.eval(at.Len, 0, nil, 0)
	if err != nil || v.Kind() != constant.Int {
		return nil, false
	}
	return v, true
}

func (w *rworld) elemType(t rtype) rtype {
	t = w.under(w.deref(t))
	switch x := t.e.(type) {
	case *ast.ArrayType:
		return rtype{x.Elt, t.p}
	case *ast.MapType:
		return rtype{x.Value, t.p}
	case *ast.Ident:
		if x.Name == "string" {
			return rtype{ast.NewIdent("byte"), t.p}
		}
	}
	return rtype{}
}

// field of a struct, looking through embedded structs; embedded reports whether the
// field itself is an embedded one
func (w *rworld) fieldType(t rtype, name string, depth int) (rtype, bool, bool) {
	if depth > 6 {
		return rtype{}, false, false
	}
	sn, p, ok := w.structOf(t)
	if !ok {
		return rtype{}, false, false
	}
	st, ok := p.structs[sn]
	if !ok {
		return rtype{}, false, false
	}
	for _, f := range st.Fields.List {
		for _, n := range f.Names {
			if n.Name == name {
				return rtype{f.Type, p}, false, true
			}
		}
		if len(f.Names) == 0 && embeddedName(f.Type) == name {
			return rtype{f.Type, p}, true, true
		}
	}
	for _, f := range st.Fields.List {
		if len(f.Names) == 0 {
			if ft, emb, ok := w.fieldType(rtype{f.Type, p}, name, depth+1); ok {
				return ft, emb, true
			}
		}
	}
	return rtype{}, false, false
}

func embeddedName(t ast.Expr) string {
	if s, ok := t.(*ast.StarExpr); ok {
		t = s.X
	}
	switch x := t.(type) {
	case *ast.Ident:
		return x.Name
	case *ast.SelectorExpr:
		return x.Sel.Name
	}
	return ""
}

const (
	mStatic  = iota // method of one of the three packages, statically resolved
	mDyn            // method of an interface of the three packages
	mForeign        // method of a type of another package
	mNone
)

// resolve method m on a value of type t
func (w *rworld) method(t rtype, m string, depth int) (*rfunc, int) {
	if depth > 6 || !t.ok() {
		return nil, mNone
	}
	if _, ok := w.isIface(t); ok {
		return nil, mDyn
	}
	n, p, ok := w.namedOf(t)
	if !ok {
		d := w.deref(t)
		if _, sel := d.e.(*ast.SelectorExpr); sel {
			return nil, mForeign
		}
		return nil, mNone
	}
	if f, ok := p.funcs[n+"."+m]; ok {
		return f, mStatic
	}
	if _, ok := p.ifaces[n]; ok {
		return nil, mDyn
	}
	if st, ok := p.structs[n]; ok {
		for _, f := range st.Fields.List {
			if len(f.Names) == 0 {
				if rf, k := w.method(rtype{f.Type, p}, m, depth+1); k != mNone {
					return rf, k
				}
			}
		}
	}
	return nil, mNone
}

// byte-sized named or basic types: conversions to them reduce modulo 256
func (w *rworld) isByteType(t rtype) bool {
	t = w.under(t)
	if id, ok := t.e.(*ast.Ident); ok {
		return id.Name == "byte" || id.Name == "uint8"
	}
	if se, ok := t.e.(*ast.SelectorExpr); ok {
		if id, ok := se.X.(*ast.Ident); ok && id.Name == "C" {
			return se.Sel.Name == "uint8_t" || se.Sel.Name == "uchar"
		}
	}
	return false
}

var basicIntTypes = map[string]bool{"int": true, "int8": true, "int16": true, "int32": true, "int64": true, "uint": true,
	"uint8": true, "uint16": true, "uint32": true, "uint64": true, "uintptr": true, "byte": true, "rune": true}

func (w *rworld) isIntType(t rtype) bool {
	t = w.under(t)
	if id, ok := t.e.(*ast.Ident); ok {
		return basicIntTypes[id.Name]
	}
	if se, ok := t.e.(*ast.SelectorExpr); ok {
		if id, ok := se.X.(*ast.Ident); ok && id.Name == "C" {
			return true
		}
	}
	return false
}

// is e (an identifier / selector / parenthesised type expression) a type in package p?
func (w *rworld) typeExpr(e ast.Expr, p *rpkg) (rtype, bool) {
	switch x := e.(type) {
	case *ast.ParenExpr:
		return w.typeExpr(x.X, p)
	case *ast.StarExpr:
		if t, ok := w.typeExpr(x.X, p); ok {
			return rtype{&ast.StarExpr{X: t.e}, t.p}, true
		}
	case *ast.ArrayType, *ast.MapType, *ast.InterfaceType, *ast.FuncType, *ast.ChanType, *ast.StructType:
		return rtype{e, p}, true
	case *ast.Ident:
		if basicIntTypes[x.Name] || x.Name == "string" || x.Name == "bool" || x.Name == "float64" || x.Name == "error" {
			return rtype{e, p}, true
		}
		if _, ok := p.structs[x.Name]; ok {
			return rtype{e, p}, true
		}
		if _, ok := p.named[x.Name]; ok {
			return rtype{e, p}, true
		}
		if _, ok := p.ifaces[x.Name]; ok {
			return rtype{e, p}, true
		}
	case *ast.SelectorExpr:
		if id, ok := x.X.(*ast.Ident); ok {
			if id.Name == "C" {
				if _, isFn := w.protos[x.Sel.Name]; !isFn {
					return rtype{e, p}, true
				}
				return rtype{}, false
			}
			if q, ok := w.pkgs[id.Name]; ok {
				if t, ok := w.typeExpr(x.Sel, q); ok {
					return t, true
				}
			}
		}
	}
	return rtype{}, false
}
