// risk_walk2.go: evaluation events of expressions, calls and statements (C09 risk skeletons).
package main

import (
	"go/ast"
	"go/constant"
	"go/token"
	"strings"
)

var dkgProcessorMethods = map[string]bool{"PrivateSend": true, "Broadcast": true, "Disqualify": true, "FlagMisbehavior": true}

// encoding/binary accessors: minimum length of the buffer argument
var binaryMinLen = map[string]int64{"Uint16": 2, "PutUint16": 2, "Uint32": 4, "PutUint32": 4, "Uint64": 8, "PutUint64": 8}

func riskEv(kind, x string, t1, t2 *rterm) *rev { return &rev{k: "Risk", risk: kind, x: x, t1: t1, t2: t2} }

func (rw *rwalker) isPkgIdent(e ast.Expr) bool {
	id, ok := e.(*ast.Ident)
	if !ok {
		return false
	}
	if _, v := rw.vars[id.Name]; v {
		return false
	}
	if id.Name == "C" {
		return true
	}
	if _, ok := rw.w.pkgs[id.Name]; ok && rw.w.pkgs[id.Name] != rw.p {
		return true
	}
	_, imp := rw.p.imports[id.Name]
	_, g := rw.p.gvars[id.Name]
	return imp && !g
}

// events of evaluating e (risks and calls, in evaluation order)
func (rw *rwalker) expr(e ast.Expr) []*rev {
	switch x := e.(type) {
	case nil:
		return nil
	case *ast.BasicLit, *ast.Ident, *ast.ArrayType, *ast.MapType, *ast.InterfaceType, *ast.FuncType, *ast.StructType, *ast.ChanType, *ast.Ellipsis:
		return nil
	case *ast.ParenExpr:
		return rw.expr(x.X)
	case *ast.SelectorExpr:
		if rw.isPkgIdent(x.X) {
			return nil
		}
		evs := rw.expr(x.X)
		// field access through the pointer a map lookup returned
		if ix, ok := stripParens(x.X).(*ast.IndexExpr); ok {
			if t := rw.typeOf(ix.X); t.ok() && rw.w.isMap(t) {
				if et := rw.w.elemType(t); et.ok() {
					if _, ptr := et.e.(*ast.StarExpr); ptr && !rw.nonNil[compact(x.X)] {
						evs = append(evs, riskEv("Deref", compact(x.X), nil, nil))
					}
				}
			}
		}
		return evs
	case *ast.StarExpr:
		return rw.expr(x.X)
	case *ast.UnaryExpr:
		return rw.expr(x.X)
	case *ast.BinaryExpr:
		l := rw.expr(x.X)
		r := rw.expr(x.Y)
		switch x.Op {
		case token.LAND:
			if len(r) > 0 {
				l = append(l, &rev{k: "If", c: rw.cond(x.X), a: r})
			}
			return l
		case token.LOR:
			if len(r) > 0 {
				l = append(l, &rev{k: "If", c: rw.cond(x.X), b: r})
			}
			return l
		case token.QUO, token.REM:
			l = append(l, r...)
			if v, ok := rw.evalConst(x.Y); ok {
				if v.Kind() == constant.Float || (v.Kind() == constant.Int && constant.Sign(v) != 0) {
					return l
				}
			}
			if t := rw.typeOf(x.Y); t.ok() {
				if id, ok := rw.w.under(t).e.(*ast.Ident); ok && strings.HasPrefix(id.Name, "float") {
					return l
				}
			}
			return append(l, riskEv("Div", "", rw.termOr(x.Y), nil))
		}
		return append(l, r...)
	case *ast.IndexExpr:
		evs := append(rw.expr(x.X), rw.expr(x.Index)...)
		t := rw.typeOf(x.X)
		if t.ok() && rw.w.isMap(t) {
			return evs
		}
		name := rw.nameOf(x.X)
		if t.ok() {
			if n, ok := rw.w.arrayLen(t); ok {
				if ct, ok := constTerm(n); ok {
					if it, ok := rw.term(x.Index); ok && it.k == "Const" && it.z.Sign() >= 0 && it.z.Cmp(ct.z) < 0 {
						return evs // constant index into a fixed-size array: checked by the compiler
					}
					evs = append(evs, &rev{k: "SetLen", x: name, t1: ct, aux: true})
				}
			}
		}
		return append(evs, riskEv("Idx", name, rw.termOr(x.Index), nil))
	case *ast.SliceExpr:
		evs := rw.expr(x.X)
		evs = append(evs, rw.expr(x.Low)...)
		evs = append(evs, rw.expr(x.High)...)
		evs = append(evs, rw.expr(x.Max)...)
		name := rw.nameOf(x.X)
		if t := rw.typeOf(x.X); t.ok() {
			if n, ok := rw.w.arrayLen(t); ok {
				if ct, ok := constTerm(n); ok {
					evs = append(evs, &rev{k: "SetLen", x: name, t1: ct, aux: true})
				}
			}
		}
		lo, hi := rw.sliceBounds(x)
		if x.High == nil {
			hi = tLen(name)
			if t := rw.typeOf(x.X); t.ok() {
				if n, ok := rw.w.arrayLen(t); ok {
					if ct, ok := constTerm(n); ok {
						hi = ct
					}
				}
			}
		}
		if x.Low == nil && x.High == nil {
			return evs // x[:] cannot fail
		}
		return append(evs, riskEv("Slice", name, lo, hi))
	case *ast.TypeAssertExpr:
		evs := rw.expr(x.X)
		if x.Type == nil {
			return evs // type switch guard
		}
		return append(evs, riskEv("Assert", compact(x), nil, nil))
	case *ast.CallExpr:
		return rw.call(x, nil)
	case *ast.CompositeLit:
		var evs []*rev
		for _, el := range x.Elts {
			if kv, ok := el.(*ast.KeyValueExpr); ok {
				evs = append(evs, rw.expr(kv.Value)...)
			} else {
				evs = append(evs, rw.expr(el)...)
			}
		}
		return evs
	case *ast.KeyValueExpr:
		return rw.expr(x.Value)
	}
	return []*rev{rw.unk("expression", e)}
}

func (rw *rwalker) bindTerm(a ast.Expr) *rterm {
	if c, ok := stripParens(a).(*ast.CallExpr); ok {
		if id, ok := c.Fun.(*ast.Ident); ok && id.Name == "make" && len(c.Args) >= 2 {
			return rw.termOr(c.Args[1])
		}
	}
	if t := rw.typeOf(a); t.ok() && rw.w.isSliceLike(t) {
		return rw.lenTerm(a)
	}
	if cl, ok := stripParens(a).(*ast.CompositeLit); ok {
		if n, ok := litLen(cl); ok {
			return tConst(int64(n))
		}
	}
	if _, ok := stripParens(a).(*ast.SliceExpr); ok {
		return rw.lenTerm(a)
	}
	if t, ok := rw.term(a); ok {
		return t
	}
	return tOpaque("arg:" + compact(a))
}

func (rw *rwalker) anyMethodNamed(m string) bool {
	for _, p := range rw.w.pkgs {
		for n := range p.funcs {
			if strings.HasSuffix(n, "."+m) {
				return true
			}
		}
	}
	return false
}

// events of a call; res = names that receive the results (nil: expression context)
func (rw *rwalker) call(c *ast.CallExpr, res []string) []*rev {
	var evs []*rev
	args := func() {
		for _, a := range c.Args {
			evs = append(evs, rw.expr(a)...)
		}
	}
	if id, ok := stripParens(c.Fun).(*ast.Ident); ok {
		if _, shadow := rw.vars[id.Name]; !shadow {
			if _, isF := rw.p.funcs[id.Name]; !isF {
				switch id.Name {
				case "len", "cap", "append", "copy", "min", "max", "delete", "clear", "print", "println", "real", "imag", "complex":
					args()
					return evs
				case "new":
					return nil
				case "make":
					for _, a := range c.Args[1:] {
						evs = append(evs, rw.expr(a)...)
					}
					if len(c.Args) >= 2 {
						if t, ok := rw.w.typeExpr(c.Args[0], rw.p); ok && rw.w.isSliceLike(t) {
							n := rw.termOr(c.Args[1])
							if !(n.k == "Const" && n.z.Sign() >= 0) && n.k != "Len" {
								evs = append(evs, riskEv("Make", "", n, nil))
							}
						}
					}
					return evs
				case "panic":
					args()
					txt := "panic"
					if len(c.Args) == 1 {
						txt = compact(c.Args[0])
					}
					return append(evs, riskEv("Panic", txt, nil, nil))
				case "recover":
					return []*rev{{k: "Ext", x: "recover"}}
				}
			}
		}
	}
	// conversion
	if _, ok := rw.w.typeExpr(c.Fun, rw.p); ok && len(c.Args) == 1 && !rw.isFuncName(c.Fun) {
		return rw.expr(c.Args[0])
	}
	f, kind, recv := rw.resolveCall(c)
	if recv != nil {
		evs = append(evs, rw.expr(recv)...)
	}
	name := compact(c.Fun)
	switch kind {
	case mStatic:
		if _, _, ok := rw.inlineGetter(f, c, recv); ok {
			return evs
		}
		args()
		if why, op := riskOpaque[f.key]; op {
			_ = why
			return append(evs, &rev{k: "Ext", x: f.key})
		}
		if strings.HasSuffix(f.name, "Errorf") {
			return append(evs, &rev{k: "Ext", x: f.key})
		}
		ev := &rev{k: "Call", x: f.key, callee: f}
		if f.recvName != "" && recv != nil {
			ev.y = rw.nameOf(recv)
			ev.binds = append(ev.binds, rbind{f.recvName, rw.bindTerm(recv)})
		}
		variadic := false
		if n := len(f.ptypes); n > 0 {
			_, variadic = f.ptypes[n-1].(*ast.Ellipsis)
		}
		for i, p := range f.params {
			if p == "_" {
				continue
			}
			if i < len(c.Args) && !(variadic && i == len(f.params)-1) {
				ev.binds = append(ev.binds, rbind{p, rw.bindTerm(c.Args[i])})
			} else {
				ev.binds = append(ev.binds, rbind{p, tOpaque("arg:" + p)})
			}
		}
		if res == nil && len(f.results) > 0 {
			res = []string{retName(c, 0)}
		}
		ev.res = res
		return append(evs, ev)
	case mDyn:
		args()
		if se, ok := stripParens(c.Fun).(*ast.SelectorExpr); ok && dkgProcessorMethods[se.Sel.Name] {
			if t := rw.typeOf(se.X); t.ok() {
				if n, ok := rw.w.isIface(t); ok && n == "DKGProcessor" {
					return append(evs, &rev{k: "Note", x: se.Sel.Name})
				}
			}
		}
		return append(evs, &rev{k: "Dyn", x: name})
	case mForeign:
		args()
		if se, ok := stripParens(c.Fun).(*ast.SelectorExpr); ok {
			if n, ok := binaryMinLen[se.Sel.Name]; ok && strings.HasPrefix(name, "binary.") && len(c.Args) >= 1 {
				evs = append(evs, rw.arrayLenEv(c.Args[0])...)
				evs = append(evs, riskEv("Idx", rw.sliceArgName(c.Args[0], &evs), tConst(n-1), nil))
			}
		}
		return append(evs, &rev{k: "Ext", x: name})
	}
	args()
	if se, ok := stripParens(c.Fun).(*ast.SelectorExpr); ok {
		if rw.anyMethodNamed(se.Sel.Name) {
			return append(evs, &rev{k: "Dyn", x: name})
		}
		return append(evs, &rev{k: "Ext", x: "?" + name})
	}
	if _, ok := stripParens(c.Fun).(*ast.FuncLit); ok {
		return append(evs, rw.unk("call of a function literal", c))
	}
	return append(evs, &rev{k: "Ext", x: "?" + name})
}

func (rw *rwalker) arrayLenEv(a ast.Expr) []*rev {
	if t := rw.typeOf(a); t.ok() {
		if n, ok := rw.w.arrayLen(t); ok {
			if ct, ok := constTerm(n); ok {
				return []*rev{{k: "SetLen", x: rw.nameOf(a), t1: ct, aux: true}}
			}
		}
	}
	return nil
}

// name of a slice-valued argument; a slice expression gets a temporary
func (rw *rwalker) sliceArgName(a ast.Expr, evs *[]*rev) string {
	if se, ok := stripParens(a).(*ast.SliceExpr); ok {
		tmp := "tmp:" + compact(a)
		lo, hi := rw.sliceBounds(se)
		*evs = append(*evs, &rev{k: "SetLen", x: tmp, t1: tBin("Sub", hi, lo)})
		return tmp
	}
	return rw.nameOf(a)
}

// ---- statements ----

func (rw *rwalker) block(list []ast.Stmt) []*rev {
	var evs []*rev
	saved := rw.nonNil
	rw.nonNil = map[string]bool{}
	for k := range saved {
		rw.nonNil[k] = true
	}
	for _, s := range list {
		evs = append(evs, rw.stmt(s)...)
		// m[k] = &T{...}: the entry is non-nil for the rest of the block
		if as, ok := s.(*ast.AssignStmt); ok && len(as.Lhs) == 1 && len(as.Rhs) == 1 {
			if ix, ok := stripParens(as.Lhs[0]).(*ast.IndexExpr); ok {
				if u, ok := stripParens(as.Rhs[0]).(*ast.UnaryExpr); ok && u.Op == token.AND {
					if _, ok := u.X.(*ast.CompositeLit); ok {
						rw.nonNil[compact(ix)] = true
					}
				}
			}
		}
	}
	rw.nonNil = saved
	return evs
}

func retHead(e ast.Expr) string {
	switch x := stripParens(e).(type) {
	case *ast.Ident:
		return x.Name
	case *ast.CallExpr:
		h := compact(x.Fun)
		if h == "fmt.Errorf" && len(x.Args) > 0 {
			if bl, ok := x.Args[0].(*ast.BasicLit); ok && strings.Contains(bl.Value, "%w") {
				return "fmt.Errorf%w"
			}
		}
		return h
	case *ast.UnaryExpr:
		return x.Op.String() + retHead(x.X)
	case *ast.BasicLit:
		return x.Value
	case *ast.CompositeLit:
		return "lit"
	}
	s := compact(e)
	if len(s) > 30 {
		s = s[:30]
	}
	return s
}

func (rw *rwalker) isErrorValue(e ast.Expr) bool {
	switch x := stripParens(e).(type) {
	case *ast.CallExpr:
		h := compact(x.Fun)
		return strings.HasSuffix(h, "Errorf") || h == "errors.New"
	case *ast.Ident:
		if _, v := rw.vars[x.Name]; v {
			return false
		}
		if in, ok := rw.p.ginit[x.Name]; ok && !rw.p.gassigned[x.Name] {
			if c, ok := in.(*ast.CallExpr); ok {
				h := compact(c.Fun)
				return h == "errors.New" || h == "fmt.Errorf"
			}
		}
	}
	return false
}

func (rw *rwalker) resultTerm(e ast.Expr) *rterm {
	if rw.isErrorValue(e) {
		return tConst(1)
	}
	if t := rw.typeOf(e); t.ok() && rw.w.isSliceLike(t) {
		return rw.lenTerm(e)
	}
	if cl, ok := stripParens(e).(*ast.CompositeLit); ok {
		if n, ok := litLen(cl); ok {
			return tConst(int64(n))
		}
	}
	if t, ok := rw.term(e); ok {
		return t
	}
	if t := rw.typeOf(e); t.ok() && isBoolType(t) {
		// boolean expression: cannot be a term
		return tOpaque("ret:" + compact(e))
	}
	return tOpaque("ret:" + compact(e))
}

func (rw *rwalker) ret(s *ast.ReturnStmt) []*rev {
	var evs []*rev
	nres := len(rw.fn.results)
	if len(s.Results) == 0 {
		ev := &rev{k: "Ret", x: ""}
		for _, n := range rw.fn.resNames {
			if n != "" {
				ev.ts = append(ev.ts, tVar(n))
			}
		}
		return []*rev{ev}
	}
	if len(s.Results) == 1 && nres > 1 {
		// return f(...)
		c, ok := stripParens(s.Results[0]).(*ast.CallExpr)
		if !ok {
			return []*rev{rw.unk("return", s)}
		}
		var names []string
		ev := &rev{k: "Ret", x: "call:" + compact(c.Fun)}
		for i := 0; i < nres; i++ {
			names = append(names, retName(c, i))
		}
		f, kind, _ := rw.resolveCall(c)
		evs = append(evs, rw.call(c, names)...)
		for i := 0; i < nres; i++ {
			if kind == mStatic && f != nil && len(f.results) == nres {
				ev.ts = append(ev.ts, tVar(names[i]))
			} else {
				ev.ts = append(ev.ts, tOpaque(names[i]))
			}
		}
		return append(evs, ev)
	}
	var heads []string
	ev := &rev{k: "Ret"}
	for _, r := range s.Results {
		evs = append(evs, rw.expr(r)...)
		heads = append(heads, retHead(r))
		ev.ts = append(ev.ts, rw.resultTerm(r))
	}
	ev.x = strings.Join(heads, ",")
	return append(evs, ev)
}

// assignment of r to the variable / field / element l
func (rw *rwalker) assignOne(l, r ast.Expr, decl bool) []*rev {
	if id, ok := l.(*ast.Ident); ok && id.Name == "_" {
		return nil
	}
	if _, isIdx := stripParens(l).(*ast.IndexExpr); isIdx {
		return nil // element store: no length changes (the index risk is in the lhs events)
	}
	name := rw.nameOf(l)
	rt := rw.typeOf(r)
	if id, ok := l.(*ast.Ident); ok && (decl || !rw.vars[id.Name].ok()) && rt.ok() {
		rw.vars[id.Name] = rt
	} else if id, ok := l.(*ast.Ident); ok && decl {
		rw.vars[id.Name] = rtype{}
	}
	set := func(t *rterm) []*rev { return []*rev{{k: "SetLen", x: name, t1: t, decl: decl}} }
	switch x := stripParens(r).(type) {
	case *ast.CallExpr:
		if id, ok := x.Fun.(*ast.Ident); ok {
			if _, shadow := rw.vars[id.Name]; !shadow {
				switch id.Name {
				case "make":
					if len(x.Args) >= 2 {
						return set(rw.termOr(x.Args[1]))
					}
					if t, ok := rw.w.typeExpr(x.Args[0], rw.p); ok && rw.w.isSliceLike(t) {
						return set(tConst(0))
					}
					return nil
				case "append":
					if len(x.Args) >= 1 {
						tot := rw.lenTerm(x.Args[0])
						for i, a := range x.Args[1:] {
							if x.Ellipsis.IsValid() && i == len(x.Args)-2 {
								tot = tBin("Add", tot, rw.lenTerm(a))
							} else {
								tot = tBin("Add", tot, tConst(1))
							}
						}
						return set(tot)
					}
				}
			}
		}
	case *ast.CompositeLit:
		if n, ok := litLen(x); ok {
			return set(tConst(int64(n)))
		}
	case *ast.FuncLit:
		if id, ok := l.(*ast.Ident); ok {
			cl := &rfunc{pkg: rw.p, name: rw.fn.name + "$" + id.Name, file: rw.fn.file, ftype: x.Type, body: x.Body,
				writes: map[string]bool{}, closure: map[string]ast.Expr{}}
			cl.key = cl.name
			if rw.p.name != "crypto" {
				cl.key = rw.p.name + "." + cl.name
			}
			for k, v := range rw.vars {
				if v.ok() && v.p == rw.p {
					cl.closure[k] = v.e
				}
			}
			cl.fillSig()
			rw.closures[id.Name] = cl
			rw.vars[id.Name] = rtype{x.Type, rw.p}
			*rw.extra = append(*rw.extra, cl)
			return nil
		}
	}
	if rt.ok() && rw.w.isSliceLike(rt) {
		return set(rw.lenTerm(r))
	}
	if t, ok := rw.term(r); ok {
		return set(t)
	}
	return []*rev{{k: "Havoc", x: name, y: rw.oracle(name + ":=" + compact(r)), decl: decl}}
}

func (rw *rwalker) assign(s *ast.AssignStmt) []*rev {
	var evs []*rev
	decl := s.Tok == token.DEFINE
	lhsEvents := func() {
		for _, l := range s.Lhs {
			switch x := stripParens(l).(type) {
			case *ast.Ident:
			default:
				evs = append(evs, rw.expr(x)...)
			}
		}
	}
	// x op= y
	if s.Tok != token.ASSIGN && s.Tok != token.DEFINE {
		evs = append(evs, rw.expr(s.Rhs[0])...)
		lhsEvents()
		if s.Tok == token.QUO_ASSIGN || s.Tok == token.REM_ASSIGN {
			if v, ok := rw.evalConst(s.Rhs[0]); !ok || constant.Sign(v) == 0 {
				evs = append(evs, riskEv("Div", "", rw.termOr(s.Rhs[0]), nil))
			}
		}
		if _, isIdx := stripParens(s.Lhs[0]).(*ast.IndexExpr); isIdx {
			return evs
		}
		name := rw.nameOf(s.Lhs[0])
		a, ok1 := rw.term(s.Lhs[0])
		b, ok2 := rw.term(s.Rhs[0])
		k := map[token.Token]string{token.ADD_ASSIGN: "Add", token.SUB_ASSIGN: "Sub", token.MUL_ASSIGN: "Mul"}[s.Tok]
		if ok1 && ok2 && k != "" {
			return append(evs, &rev{k: "SetLen", x: name, t1: tBin(k, a, b)})
		}
		return append(evs, &rev{k: "Havoc", x: name, y: rw.oracle(name + ":" + compact(s))})
	}
	if len(s.Lhs) == len(s.Rhs) {
		// x = x[k:]
		if len(s.Lhs) == 1 {
			if se, ok := stripParens(s.Rhs[0]).(*ast.SliceExpr); ok && se.High == nil && se.Low != nil && se.Max == nil {
				if rw.nameOf(se.X) == rw.nameOf(s.Lhs[0]) {
					if _, fixed := rw.w.arrayLen(rw.typeOf(se.X)); !fixed || !rw.typeOf(se.X).ok() {
						evs = append(evs, rw.expr(se.X)...)
						evs = append(evs, rw.expr(se.Low)...)
						return append(evs, &rev{k: "Reslice", x: rw.nameOf(s.Lhs[0]), t1: rw.termOr(se.Low)})
					}
				}
			}
		}
		// single call with one result that is a function of the packages: bind its result
		for i := range s.Rhs {
			if c, ok := stripParens(s.Rhs[i]).(*ast.CallExpr); ok {
				if f, kind, recv := rw.resolveCall(c); kind == mStatic && f != nil && len(f.results) == 1 && !rw.isConversion(c) {
					if _, _, inl := rw.inlineGetter(f, c, recv); !inl {
						if _, isIdx := stripParens(s.Lhs[i]).(*ast.IndexExpr); !isIdx {
							if id, ok := s.Lhs[i].(*ast.Ident); !ok || id.Name != "_" {
								evs = append(evs, rw.call(c, []string{rw.nameOf(s.Lhs[i])})...)
								if id, ok := s.Lhs[i].(*ast.Ident); ok {
									rw.vars[id.Name] = rtype{f.results[0], f.pkg}
								}
								continue
							}
						}
					}
				}
			}
			if _, isLit := stripParens(s.Rhs[i]).(*ast.FuncLit); isLit {
				continue
			}
			evs = append(evs, rw.expr(s.Rhs[i])...)
		}
		lhsEvents()
		for i := range s.Lhs {
			if c, ok := stripParens(s.Rhs[i]).(*ast.CallExpr); ok {
				if f, kind, recv := rw.resolveCall(c); kind == mStatic && f != nil && len(f.results) == 1 && !rw.isConversion(c) {
					if _, _, inl := rw.inlineGetter(f, c, recv); !inl {
						if _, isIdx := stripParens(s.Lhs[i]).(*ast.IndexExpr); !isIdx {
							if id, ok := s.Lhs[i].(*ast.Ident); !ok || id.Name != "_" {
								continue // already bound by the ECall
							}
						}
					}
				}
			}
			evs = append(evs, rw.assignOne(s.Lhs[i], s.Rhs[i], decl)...)
		}
		return evs
	}
	// multi-value right-hand side
	if len(s.Rhs) != 1 {
		return []*rev{rw.unk("assignment", s)}
	}
	names := make([]string, len(s.Lhs))
	for i, l := range s.Lhs {
		if id, ok := l.(*ast.Ident); ok && id.Name == "_" {
			names[i] = ""
		} else if _, isIdx := stripParens(l).(*ast.IndexExpr); isIdx {
			names[i] = ""
		} else {
			names[i] = rw.nameOf(l)
		}
	}
	setType := func(i int, t rtype) {
		if id, ok := s.Lhs[i].(*ast.Ident); ok && id.Name != "_" {
			rw.vars[id.Name] = t
		}
	}
	switch x := stripParens(s.Rhs[0]).(type) {
	case *ast.CallExpr:
		f, kind, _ := rw.resolveCall(x)
		if kind == mStatic && f != nil && len(f.results) == len(s.Lhs) {
			evs = append(evs, rw.call(x, names)...)
			for i := range s.Lhs {
				setType(i, rtype{f.results[i], f.pkg})
			}
			lhsEvents()
			return evs
		}
		evs = append(evs, rw.call(x, nil)...)
		lhsEvents()
		for i := range s.Lhs {
			setType(i, rtype{})
			if names[i] != "" {
				evs = append(evs, &rev{k: "Havoc", x: names[i], y: rw.oracle(names[i] + ":=" + compact(x)), decl: decl})
			}
		}
		return evs
	case *ast.TypeAssertExpr:
		evs = append(evs, rw.expr(x.X)...)
		setType(0, rtype{x.Type, rw.p})
		if len(s.Lhs) == 2 {
			setType(1, rtype{ast.NewIdent("bool"), rw.p})
		}
	case *ast.IndexExpr: // v, ok := m[k]
		evs = append(evs, rw.expr(x.X)...)
		evs = append(evs, rw.expr(x.Index)...)
		if t := rw.typeOf(x.X); t.ok() {
			setType(0, rw.w.elemType(t))
		}
		if len(s.Lhs) == 2 {
			setType(1, rtype{ast.NewIdent("bool"), rw.p})
		}
	default:
		evs = append(evs, rw.expr(s.Rhs[0])...)
	}
	lhsEvents()
	for i := range s.Lhs {
		if names[i] != "" {
			evs = append(evs, &rev{k: "Havoc", x: names[i], y: rw.oracle(names[i] + ":=" + compact(s.Rhs[0])), decl: decl})
		}
	}
	return evs
}

func (rw *rwalker) isConversion(c *ast.CallExpr) bool {
	_, ok := rw.w.typeExpr(c.Fun, rw.p)
	return ok && len(c.Args) == 1 && !rw.isFuncName(c.Fun)
}

func (rw *rwalker) stmt(s ast.Stmt) []*rev {
	switch x := s.(type) {
	case nil, *ast.EmptyStmt:
		return nil
	case *ast.BlockStmt:
		return rw.block(x.List)
	case *ast.ExprStmt:
		return rw.expr(x.X)
	case *ast.AssignStmt:
		return rw.assign(x)
	case *ast.IncDecStmt:
		evs := rw.expr(x.X)
		if _, isIdx := stripParens(x.X).(*ast.IndexExpr); isIdx {
			return evs
		}
		k := "Add"
		if x.Tok == token.DEC {
			k = "Sub"
		}
		if t, ok := rw.term(x.X); ok {
			return append(evs, &rev{k: "SetLen", x: rw.nameOf(x.X), t1: tBin(k, t, tConst(1))})
		}
		return append(evs, rw.unk("inc/dec", s))
	case *ast.DeclStmt:
		gd, ok := x.Decl.(*ast.GenDecl)
		if !ok {
			return []*rev{rw.unk("declaration", s)}
		}
		switch gd.Tok {
		case token.CONST:
			out := map[string]cval{}
			constDecl(rw.p.consts, gd, rw.fn.file, rw.lconst, "", out)
			for n := range out {
				rw.vars[n] = rtype{ast.NewIdent("int"), rw.p}
			}
			return nil
		case token.TYPE:
			return nil
		case token.VAR:
			var evs []*rev
			for _, sp := range gd.Specs {
				vs := sp.(*ast.ValueSpec)
				for i, n := range vs.Names {
					if vs.Type != nil {
						rw.vars[n.Name] = rtype{vs.Type, rw.p}
					} else {
						rw.vars[n.Name] = rtype{}
					}
					if i < len(vs.Values) {
						evs = append(evs, rw.expr(vs.Values[i])...)
						evs = append(evs, rw.assignOne(n, vs.Values[i], true)...)
						if vs.Type != nil {
							rw.vars[n.Name] = rtype{vs.Type, rw.p}
						}
					} else if vs.Type != nil {
						t := rtype{vs.Type, rw.p}
						if al, ok := rw.w.arrayLen(t); ok {
							if ct, ok := constTerm(al); ok {
								evs = append(evs, &rev{k: "SetLen", x: n.Name, t1: ct, decl: true})
							}
						} else if rw.w.isSliceLike(t) || rw.w.isIntType(t) || isBoolType(rw.w.under(t)) {
							evs = append(evs, &rev{k: "SetLen", x: n.Name, t1: tConst(0), decl: true})
						}
					}
				}
			}
			return evs
		}
	case *ast.ReturnStmt:
		return rw.ret(x)
	case *ast.IfStmt:
		evs := rw.stmt(x.Init)
		evs = append(evs, rw.expr(x.Cond)...)
		c := rw.cond(x.Cond)
		ev := &rev{k: "If", c: c, a: rw.block(x.Body.List)}
		if x.Else != nil {
			ev.b = rw.stmt(x.Else)
		}
		return append(evs, ev)
	case *ast.SwitchStmt:
		return rw.switchStmt(x)
	case *ast.TypeSwitchStmt:
		evs := rw.stmt(x.Init)
		var cur *[]*rev = &evs
		for _, cc := range x.Body.List {
			cl := cc.(*ast.CaseClause)
			ev := &rev{k: "If", c: cUnknown("type switch " + compact(x.Assign)), a: rw.block(cl.Body)}
			*cur = append(*cur, ev)
			cur = &ev.b
		}
		return evs
	case *ast.ForStmt:
		return rw.forStmt(x)
	case *ast.RangeStmt:
		return rw.rangeStmt(x)
	case *ast.BranchStmt:
		if x.Label == nil && (x.Tok == token.BREAK || x.Tok == token.CONTINUE) {
			return []*rev{{k: "Break", x: x.Tok.String()}}
		}
		return []*rev{rw.unk("branch", s)}
	case *ast.DeferStmt:
		// arguments are evaluated here; the body runs at function exit on the same slice headers
		return rw.call(x.Call, nil)
	case *ast.LabeledStmt:
		return append([]*rev{rw.unk("label", nil)}, rw.stmt(x.Stmt)...)
	}
	return []*rev{rw.unk("statement", s)}
}

func (rw *rwalker) switchStmt(x *ast.SwitchStmt) []*rev {
	evs := rw.stmt(x.Init)
	var tag *rterm
	tagOK := false
	if x.Tag != nil {
		evs = append(evs, rw.expr(x.Tag)...)
		tag, tagOK = rw.term(x.Tag)
	}
	var deflt []*rev
	hasDefault := false
	type arm struct {
		c    *rcond
		body []*rev
	}
	var arms []arm
	for _, cc := range x.Body.List {
		cl := cc.(*ast.CaseClause)
		for _, st := range cl.Body {
			if b, ok := st.(*ast.BranchStmt); ok && b.Tok == token.FALLTHROUGH {
				return append(evs, rw.unk("switch with fallthrough", nil))
			}
		}
		// a break inside a switch arm leaves the switch, not an enclosing loop
		body := rw.block(cl.Body)
		body = switchBreaks(body)
		if cl.List == nil {
			deflt = body
			hasDefault = true
			continue
		}
		var c *rcond
		for _, e := range cl.List {
			evs = append(evs, rw.expr(e)...)
			var ci *rcond
			if x.Tag == nil {
				ci = rw.cond(e)
			} else if t, ok := rw.term(e); ok && tagOK {
				ci = &rcond{k: "Eq", ta: tag, tb: t}
			} else {
				ci = cUnknown(compact(x.Tag) + " == " + compact(e))
			}
			if c == nil {
				c = ci
			} else {
				c = &rcond{k: "Or", a: c, b: ci}
			}
		}
		arms = append(arms, arm{c, body})
	}
	_ = hasDefault
	var cur *[]*rev = &evs
	for _, a := range arms {
		ev := &rev{k: "If", c: a.c, a: a.body}
		*cur = append(*cur, ev)
		cur = &ev.b
	}
	*cur = append(*cur, deflt...)
	return evs
}

// "break" directly inside a switch arm (not nested in a loop) ends the arm: since it can
// only be the last effective statement of a path, and the arms are if/else branches, it is
// expressed by dropping what follows it in its block.
func switchBreaks(evs []*rev) []*rev {
	var out []*rev
	for _, e := range evs {
		switch e.k {
		case "Break":
			if e.x == "break" {
				return out
			}
		case "If":
			hasBreak := containsSwitchBreak(e.a) || containsSwitchBreak(e.b)
			if hasBreak {
				return append(out, &rev{k: "Unknown", x: "conditional break inside a switch arm"})
			}
		}
		out = append(out, e)
	}
	return out
}

func containsSwitchBreak(evs []*rev) bool {
	for _, e := range evs {
		if e.k == "Break" && e.x == "break" {
			return true
		}
		if e.k == "If" && (containsSwitchBreak(e.a) || containsSwitchBreak(e.b)) {
			return true
		}
	}
	return false
}

func (rw *rwalker) forStmt(x *ast.ForStmt) []*rev {
	rw.loops++
	id := rw.loops
	// for i := lo; i < hi; i++ with i not assigned in the body
	if as, ok := x.Init.(*ast.AssignStmt); ok && as.Tok == token.DEFINE && len(as.Lhs) == 1 && len(as.Rhs) == 1 {
		if iv, ok := as.Lhs[0].(*ast.Ident); ok {
			if inc, ok := x.Post.(*ast.IncDecStmt); ok && inc.Tok == token.INC {
				if pid, ok := inc.X.(*ast.Ident); ok && pid.Name == iv.Name && !assignsIdent(x.Body, iv.Name) {
					if be, ok := stripParens(x.Cond).(*ast.BinaryExpr); ok && (be.Op == token.LSS || be.Op == token.LEQ) {
						evs := rw.expr(as.Rhs[0])
						rw.vars[iv.Name] = rw.typeOf(as.Rhs[0])
						if lt, ok := rw.term(be.X); ok && lt.k == "Var" && lt.x == iv.Name {
							lo, ok1 := rw.term(as.Rhs[0])
							hi, ok2 := rw.term(be.Y)
							if ok1 && ok2 && len(rw.expr(be.Y)) == 0 {
								if be.Op == token.LEQ {
									hi = tBin("Add", hi, tConst(1))
								}
								body := rw.block(x.Body.List)
								return append(evs, &rev{k: "LoopN", x: iv.Name, t1: lo, t2: hi, a: body, loopID: id})
							}
						}
					}
				}
			}
		}
	}
	evs := rw.stmt(x.Init)
	c := &rcond{k: "True"}
	var cev []*rev
	if x.Cond != nil {
		cev = rw.expr(x.Cond)
		c = rw.cond(x.Cond)
	}
	evs = append(evs, cev...)
	var body []*rev
	if x.Cond != nil {
		// the condition holds at the head of every iteration that runs
		body = append(body, cev...)
		body = append(body, &rev{k: "If", c: cNot(c), a: []*rev{{k: "Break", x: "cond"}}})
	}
	inner := rw.block(x.Body.List)
	body = append(body, inner...)
	body = append(body, rw.stmt(x.Post)...)
	evs = append(evs, &rev{k: "LoopWhile", c: c, a: body, loopID: id})
	if x.Cond != nil && !hasLoopExit(inner) {
		// the loop is only left when its condition is false (re-evaluated after the havocs
		// the instrumentation inserts right after the loop)
		evs = append(evs, &rev{k: "Assume", c: cNot(c), loopID: id})
	}
	return evs
}

// does the body leave the loop other than through its condition (break; returns end the function)
func hasLoopExit(evs []*rev) bool {
	for _, e := range evs {
		if e.k == "Break" && e.x == "break" {
			return true
		}
		if e.k == "Unknown" {
			return true
		}
		if e.k == "If" && (hasLoopExit(e.a) || hasLoopExit(e.b)) {
			return true
		}
	}
	return false
}

func assignsIdent(b *ast.BlockStmt, name string) bool {
	found := false
	ast.Inspect(b, func(n ast.Node) bool {
		switch s := n.(type) {
		case *ast.AssignStmt:
			for _, l := range s.Lhs {
				if id, ok := l.(*ast.Ident); ok && id.Name == name {
					found = true
				}
			}
		case *ast.IncDecStmt:
			if id, ok := s.X.(*ast.Ident); ok && id.Name == name {
				found = true
			}
		case *ast.UnaryExpr:
			if s.Op == token.AND {
				if id, ok := s.X.(*ast.Ident); ok && id.Name == name {
					found = true
				}
			}
		}
		return true
	})
	return found
}

func (rw *rwalker) rangeStmt(x *ast.RangeStmt) []*rev {
	rw.loops++
	id := rw.loops
	evs := rw.expr(x.X)
	t := rw.typeOf(x.X)
	keyName := ""
	if k, ok := x.Key.(*ast.Ident); ok && k.Name != "_" {
		keyName = k.Name
	}
	valName := ""
	if v, ok := x.Value.(*ast.Ident); ok && v.Name != "_" {
		valName = v.Name
	}
	if (x.Key != nil && keyName == "" && !isBlank(x.Key)) || (x.Value != nil && valName == "" && !isBlank(x.Value)) {
		return append(evs, rw.unk("range with non-identifier variables", x.Key))
	}
	var head []*rev
	switch {
	case t.ok() && rw.w.isMap(t):
		if keyName != "" {
			if mt, ok := rw.w.under(rw.w.deref(t)).e.(*ast.MapType); ok {
				rw.vars[keyName] = rtype{mt.Key, t.p}
			}
			head = append(head, &rev{k: "Havoc", x: keyName, y: keyName + "@key" + itoa(id), decl: true})
		}
		if valName != "" {
			rw.vars[valName] = rw.w.elemType(t)
			head = append(head, &rev{k: "Havoc", x: valName, y: valName + "@val" + itoa(id), decl: true})
		}
		body := append(head, rw.block(x.Body.List)...)
		return append(evs, &rev{k: "LoopWhile", c: cUnknown("range " + compact(x.X)), a: body, loopID: id})
	case t.ok() && rw.w.isIntType(t) && !rw.w.isSliceLike(t):
		if keyName == "" {
			keyName = "_i" + itoa(id)
		}
		rw.vars[keyName] = t
		hi := rw.termOr(x.X)
		body := rw.block(x.Body.List)
		return append(evs, &rev{k: "LoopN", x: keyName, t1: tConst(0), t2: hi, a: body, loopID: id})
	case t.ok() && rw.w.isSliceLike(t):
		if keyName == "" {
			keyName = "_i" + itoa(id)
		}
		rw.vars[keyName] = rtype{ast.NewIdent("int"), rw.p}
		name := rw.nameOf(x.X)
		if _, isSl := stripParens(x.X).(*ast.SliceExpr); isSl {
			name = rw.sliceArgName(x.X, &evs)
		} else if _, isCall := stripParens(x.X).(*ast.CallExpr); isCall {
			name = "tmp:" + compact(x.X)
			evs = append(evs, &rev{k: "SetLen", x: name, t1: rw.lenTerm(x.X)})
		} else {
			evs = append(evs, rw.arrayLenEv(x.X)...)
		}
		if valName != "" {
			rw.vars[valName] = rw.w.elemType(t)
			head = append(head, &rev{k: "Havoc", x: valName, y: valName + "@val" + itoa(id), decl: true})
		}
		body := append(head, rw.block(x.Body.List)...)
		return append(evs, &rev{k: "LoopRange", x: keyName, y: name, a: body, loopID: id})
	}
	return append(evs, rw.unk("range over an expression of unknown type", x.X))
}

func isBlank(e ast.Expr) bool {
	id, ok := e.(*ast.Ident)
	return ok && id.Name == "_"
}

func itoa(n int) string {
	return strings.TrimSpace(strings.Replace(strings.Repeat(" ", 0)+formatInt(n), " ", "", -1))
}

func formatInt(n int) string {
	if n == 0 {
		return "0"
	}
	neg := n < 0
	if neg {
		n = -n
	}
	var b []byte
	for n > 0 {
		b = append([]byte{byte('0' + n%10)}, b...)
		n /= 10
	}
	if neg {
		b = append([]byte{'-'}, b...)
	}
	return string(b)
}
