// skeleton.go: event skeletons for C18 (lock discipline of the threshold-signature
// object) regenerated from /repo's sources on every run.  Parsing only (go/parser,
// no type checking).  Anything the walker does not understand becomes an
// `Unknown` event, which every Coq-side checker rejects.
//
// Companion files: skeleton_effects.go (C19 effect skeletons), skeleton_cprotos.go
// (C prototypes with const-ness).
package main

import (
	"bytes"
	"fmt"
	"go/ast"
	"go/parser"
	"go/printer"
	"go/token"
	"path/filepath"
	"sort"
	"strings"
)

func init() { extraEmitters = append(extraEmitters, emitSkeletons) }

func emitSkeletons(repo, outDir string) error {
	if err := emitLockSkel(repo, outDir); err != nil {
		return err
	}
	protos := parseCProtos(repo)
	called, err := emitEffectSkel(repo, outDir, protos)
	if err != nil {
		return err
	}
	emitCProtos(outDir, protos, called)
	return nil
}

func coqStr(s string) string {
	s = strings.Join(strings.Fields(s), " ")
	s = strings.ReplaceAll(s, "\"", "'")
	if len(s) > 90 {
		s = s[:90] + "..."
	}
	return "\"" + s + "\""
}

func srcOf(n ast.Node) string {
	var buf bytes.Buffer
	_ = printer.Fprint(&buf, token.NewFileSet(), n)
	return buf.String()
}

func parseDir(repo, dir string) (*token.FileSet, []*ast.File, error) {
	fset := token.NewFileSet()
	files, _ := filepath.Glob(filepath.Join(repo, dir, "*.go"))
	sort.Strings(files)
	var out []*ast.File
	for _, f := range files {
		base := filepath.Base(f)
		if strings.HasSuffix(base, "_test.go") || base == "no_cgo.go" || strings.HasSuffix(base, "test_utils.go") {
			continue
		}
		af, err := parser.ParseFile(fset, f, nil, parser.SkipObjectResolution)
		if err != nil {
			return nil, nil, fmt.Errorf("parse %s: %v", f, err)
		}
		out = append(out, af)
	}
	return fset, out, nil
}

// ---------------------------------------------------------------------------
// C18: lock skeletons
// ---------------------------------------------------------------------------

var lockTypes = []string{"blsThresholdSignatureInspector", "blsThresholdSignatureParticipant"}

// fields whose value is a reference to mutable guarded data: must not escape or be aliased
var guardedRefFields = map[string]bool{"shares": true, "thresholdSignature": true}

type lockWalker struct {
	recv    string
	fields  map[string]bool
	methods map[string]bool
	name    string
	params  map[string]bool
	notes   *[]string // informational: guarded state aliasing memory of the caller
}

func (w *lockWalker) note(what string) {
	if w.notes != nil {
		*w.notes = append(*w.notes, fmt.Sprintf("(%s, %s)", coqStr(w.name), coqStr(what)))
	}
}

func seqCoq(items []string) string {
	var keep []string
	for _, it := range items {
		if it != "SSkip" {
			keep = append(keep, it)
		}
	}
	if len(keep) == 0 {
		return "SSkip"
	}
	if len(keep) == 1 {
		return keep[0]
	}
	return "(" + strings.Join(keep, " ;; ") + ")"
}

func unk(what string, n ast.Node) string {
	s := what
	if n != nil {
		s += ": " + srcOf(n)
	}
	return "Unknown " + coqStr(s)
}

func stripParens(e ast.Expr) ast.Expr {
	for {
		p, ok := e.(*ast.ParenExpr)
		if !ok {
			return e
		}
		e = p.X
	}
}

// recvField returns the field name if e is `recv.f`
func (w *lockWalker) recvField(e ast.Expr) (string, bool) {
	e = stripParens(e)
	if se, ok := e.(*ast.SelectorExpr); ok {
		if id, ok := se.X.(*ast.Ident); ok && id.Name == w.recv {
			return se.Sel.Name, true
		}
	}
	return "", false
}

// lockCall recognises recv.lock.<Op>()
func (w *lockWalker) lockCall(c *ast.CallExpr) (string, bool) {
	se, ok := c.Fun.(*ast.SelectorExpr)
	if !ok || len(c.Args) != 0 {
		return "", false
	}
	if f, ok := w.recvField(se.X); ok && f == "lock" {
		return se.Sel.Name, true
	}
	return "", false
}

var builtinFuncs = map[string]bool{"len": true, "cap": true, "make": true, "new": true, "append": true, "copy": true,
	"delete": true, "panic": true, "min": true, "max": true, "clear": true, "print": true, "println": true}

func (w *lockWalker) expr(e ast.Expr, out *[]string) {
	switch x := e.(type) {
	case nil:
	case *ast.BasicLit:
	case *ast.Ident:
		if x.Name == w.recv {
			*out = append(*out, unk("receiver used as a value", nil))
		}
	case *ast.ParenExpr:
		w.expr(x.X, out)
	case *ast.SelectorExpr:
		if f, ok := w.recvField(x); ok {
			switch {
			case w.fields[f]:
				*out = append(*out, "Read "+coqStr(f))
			default:
				*out = append(*out, unk("receiver selector that is not a data field", x))
			}
			return
		}
		w.expr(x.X, out)
	case *ast.IndexExpr:
		w.expr(x.X, out)
		w.expr(x.Index, out)
	case *ast.SliceExpr:
		w.expr(x.X, out)
		w.expr(x.Low, out)
		w.expr(x.High, out)
		w.expr(x.Max, out)
	case *ast.StarExpr:
		w.expr(x.X, out)
	case *ast.TypeAssertExpr:
		w.expr(x.X, out)
	case *ast.BinaryExpr:
		w.expr(x.X, out)
		w.expr(x.Y, out)
	case *ast.KeyValueExpr:
		w.expr(x.Value, out)
	case *ast.CompositeLit:
		for _, el := range x.Elts {
			w.expr(el, out)
		}
	case *ast.UnaryExpr:
		if x.Op == token.AND {
			if _, ok := w.recvField(x.X); ok {
				*out = append(*out, unk("address of a receiver field", x))
				return
			}
		}
		if x.Op == token.ARROW {
			*out = append(*out, unk("channel receive", x))
			return
		}
		w.expr(x.X, out)
	case *ast.ArrayType, *ast.MapType, *ast.InterfaceType, *ast.FuncType, *ast.StructType, *ast.ChanType:
		// a type in expression position (conversion, make)
	case *ast.CallExpr:
		w.call(x, out)
	default:
		*out = append(*out, unk("expression", e))
	}
}

func (w *lockWalker) call(c *ast.CallExpr, out *[]string) {
	if op, ok := w.lockCall(c); ok {
		switch op {
		case "Lock", "RLock", "Unlock", "RUnlock":
			*out = append(*out, op)
		default:
			*out = append(*out, unk("lock operation", c))
		}
		return
	}
	// method of the same receiver
	if se, ok := c.Fun.(*ast.SelectorExpr); ok {
		if id, ok := se.X.(*ast.Ident); ok && id.Name == w.recv {
			for _, a := range c.Args {
				w.arg(a, false, out)
			}
			if w.methods[se.Sel.Name] {
				*out = append(*out, "Call "+coqStr(se.Sel.Name))
			} else {
				*out = append(*out, unk("call of an unknown method of the receiver", c))
			}
			return
		}
	}
	if id, ok := c.Fun.(*ast.Ident); ok && builtinFuncs[id.Name] {
		switch id.Name {
		case "delete", "clear":
			if len(c.Args) > 0 {
				if f, ok := w.recvField(c.Args[0]); ok && w.fields[f] {
					for _, a := range c.Args[1:] {
						w.expr(a, out)
					}
					*out = append(*out, "Write "+coqStr(f))
					return
				}
			}
		case "copy":
			if len(c.Args) == 2 {
				w.expr(c.Args[1], out)
				w.lhs(c.Args[0], false, out)
				return
			}
		case "append":
			// append(recv.f, ...) may write the backing array of recv.f
			if len(c.Args) > 0 {
				if f, ok := w.recvField(c.Args[0]); ok && w.fields[f] {
					for _, a := range c.Args[1:] {
						w.expr(a, out)
					}
					*out = append(*out, "Read "+coqStr(f), "Write "+coqStr(f))
					return
				}
			}
		}
		for _, a := range c.Args {
			w.arg(a, true, out)
		}
		return
	}
	// any other call: callee expression, then arguments
	switch f := c.Fun.(type) {
	case *ast.SelectorExpr:
		w.expr(f.X, out)
	case *ast.Ident:
		if f.Name == w.recv {
			*out = append(*out, unk("receiver called", c))
		}
	case *ast.ParenExpr, *ast.ArrayType, *ast.StarExpr, *ast.MapType:
		// conversion
	case *ast.FuncLit:
		*out = append(*out, unk("function literal", nil))
	default:
		*out = append(*out, unk("callee", c.Fun))
	}
	for _, a := range c.Args {
		w.arg(a, false, out)
	}
}

// arg walks a call argument; guarded reference fields must not be handed to
// non-builtin callees (they could keep or write them outside the lock).
func (w *lockWalker) arg(a ast.Expr, builtin bool, out *[]string) {
	if f, ok := w.recvField(a); ok && guardedRefFields[f] && !builtin {
		*out = append(*out, unk("guarded field escapes to a call", a))
		return
	}
	if _, ok := a.(*ast.FuncLit); ok {
		*out = append(*out, unk("function literal", nil))
		return
	}
	w.expr(a, out)
}

// lhs walks an assignment target
func (w *lockWalker) lhs(e ast.Expr, alsoRead bool, out *[]string) {
	e = stripParens(e)
	if f, ok := w.recvField(e); ok {
		if !w.fields[f] {
			*out = append(*out, unk("assignment to a non-data field of the receiver", e))
			return
		}
		if alsoRead {
			*out = append(*out, "Read "+coqStr(f))
		}
		*out = append(*out, "Write "+coqStr(f))
		return
	}
	switch x := e.(type) {
	case *ast.Ident:
		if x.Name == w.recv {
			*out = append(*out, unk("assignment to the receiver", nil))
		}
	case *ast.IndexExpr:
		w.expr(x.Index, out)
		if f, ok := w.recvField(x.X); ok && w.fields[f] {
			// element of a map/slice field: a write of that field
			if alsoRead {
				*out = append(*out, "Read "+coqStr(f))
			}
			*out = append(*out, "Write "+coqStr(f))
			return
		}
		w.lhs(x.X, alsoRead, out)
	case *ast.SelectorExpr:
		w.lhs(x.X, alsoRead, out)
	case *ast.StarExpr:
		w.lhs(x.X, alsoRead, out)
	case *ast.SliceExpr:
		w.lhs(x.X, alsoRead, out)
	default:
		*out = append(*out, unk("assignment target", e))
	}
}

func (w *lockWalker) rhs(e ast.Expr, out *[]string) {
	if f, ok := w.recvField(e); ok && guardedRefFields[f] {
		*out = append(*out, unk("alias of a guarded field", e))
		return
	}
	if _, ok := e.(*ast.FuncLit); ok {
		*out = append(*out, unk("function literal", nil))
		return
	}
	w.expr(e, out)
}

func (w *lockWalker) block(list []ast.Stmt) string {
	var items []string
	for _, s := range list {
		items = append(items, w.stmt(s))
	}
	return seqCoq(items)
}

func (w *lockWalker) stmt(s ast.Stmt) string {
	var ev []string
	switch x := s.(type) {
	case nil, *ast.EmptyStmt:
		return "SSkip"
	case *ast.ExprStmt:
		w.expr(x.X, &ev)
	case *ast.AssignStmt:
		for _, r := range x.Rhs {
			w.rhs(r, &ev)
		}
		opAssign := x.Tok != token.ASSIGN && x.Tok != token.DEFINE
		for i, l := range x.Lhs {
			if len(x.Rhs) == len(x.Lhs) {
				if id, ok := stripParens(x.Rhs[i]).(*ast.Ident); ok && w.params[id.Name] {
					base := stripParens(l)
					if ix, ok := base.(*ast.IndexExpr); ok {
						base = ix.X
					}
					if f, ok := w.recvField(base); ok && guardedRefFields[f] {
						w.note("stores the parameter " + id.Name + " into the guarded field " + f + " without copying it")
					}
				}
			}
			w.lhs(l, opAssign, &ev)
		}
	case *ast.IncDecStmt:
		w.lhs(x.X, true, &ev)
	case *ast.DeclStmt:
		gd, ok := x.Decl.(*ast.GenDecl)
		if !ok {
			return unk("declaration", s)
		}
		for _, sp := range gd.Specs {
			if vs, ok := sp.(*ast.ValueSpec); ok && gd.Tok == token.VAR {
				for _, v := range vs.Values {
					w.rhs(v, &ev)
				}
			}
		}
	case *ast.DeferStmt:
		if op, ok := w.lockCall(x.Call); ok && (op == "Unlock" || op == "RUnlock") {
			return "Defer" + op
		}
		return unk("defer", s)
	case *ast.ReturnStmt:
		for _, r := range x.Results {
			if f, ok := w.recvField(r); ok && guardedRefFields[f] {
				w.note("returns the guarded field " + f + " by reference (no copy)")
			}
			w.expr(r, &ev) // returning the cached signature is a read of the field
		}
		ev = append(ev, "Return")
	case *ast.BlockStmt:
		return w.block(x.List)
	case *ast.IfStmt:
		ev = append(ev, w.stmt(x.Init))
		w.expr(x.Cond, &ev)
		els := "SSkip"
		if x.Else != nil {
			els = w.stmt(x.Else)
		}
		ev = append(ev, "SIf "+paren(w.block(x.Body.List))+" "+paren(els))
	case *ast.ForStmt:
		ev = append(ev, w.stmt(x.Init))
		var cond []string
		w.expr(x.Cond, &cond)
		ev = append(ev, cond...)
		body := []string{w.block(x.Body.List), w.stmt(x.Post)}
		body = append(body, cond...)
		if hasBranchStmt(x.Body) {
			ev = append(ev, unk("break/continue/goto in a loop", nil))
		}
		ev = append(ev, "SLoop "+paren(seqCoq(body)))
	case *ast.RangeStmt:
		var rx []string
		w.expr(x.X, &rx)
		ev = append(ev, rx...)
		var lh []string
		if x.Tok == token.ASSIGN {
			if x.Key != nil {
				w.lhs(x.Key, false, &lh)
			}
			if x.Value != nil {
				w.lhs(x.Value, false, &lh)
			}
		}
		body := append(append([]string{}, rx...), lh...)
		body = append(body, w.block(x.Body.List))
		if hasBranchStmt(x.Body) {
			ev = append(ev, unk("break/continue/goto in a loop", nil))
		}
		ev = append(ev, "SLoop "+paren(seqCoq(body)))
	case *ast.SwitchStmt:
		ev = append(ev, w.stmt(x.Init))
		w.expr(x.Tag, &ev)
		// all case expressions may be evaluated; then one clause body runs
		var bodies []string
		hasDefault := false
		for _, cc := range x.Body.List {
			cl := cc.(*ast.CaseClause)
			if cl.List == nil {
				hasDefault = true
			}
			for _, ce := range cl.List {
				w.expr(ce, &ev)
			}
			if hasBranchStmt(&ast.BlockStmt{List: cl.Body}) {
				ev = append(ev, unk("break/fallthrough in a switch", nil))
			}
			bodies = append(bodies, w.block(cl.Body))
		}
		if !hasDefault {
			bodies = append(bodies, "SSkip")
		}
		alt := "SSkip"
		for i := len(bodies) - 1; i >= 0; i-- {
			if i == len(bodies)-1 {
				alt = bodies[i]
			} else {
				alt = "SIf " + paren(bodies[i]) + " " + paren(alt)
			}
		}
		ev = append(ev, alt)
	default:
		return unk("statement", s)
	}
	return seqCoq(ev)
}

func paren(s string) string {
	if strings.HasPrefix(s, "(") || !strings.Contains(s, " ") {
		return s
	}
	return "(" + s + ")"
}

// break / continue / goto / fallthrough directly in this body (not inside a nested
// function literal): they change the control flow the structured skeleton assumes.
func hasBranchStmt(b *ast.BlockStmt) bool {
	found := false
	ast.Inspect(b, func(n ast.Node) bool {
		switch n.(type) {
		case *ast.BranchStmt:
			found = true
		case *ast.FuncLit:
			return false
		}
		return !found
	})
	return found
}

func recvTypeName(fd *ast.FuncDecl) (typ, name string) {
	if fd.Recv == nil || len(fd.Recv.List) == 0 {
		return "", ""
	}
	t := fd.Recv.List[0].Type
	if st, ok := t.(*ast.StarExpr); ok {
		t = st.X
	}
	if id, ok := t.(*ast.Ident); ok {
		typ = id.Name
	}
	if len(fd.Recv.List[0].Names) > 0 {
		name = fd.Recv.List[0].Names[0].Name
	}
	return
}

func emitLockSkel(repo, outDir string) error {
	_, files, err := parseDir(repo, "")
	if err != nil {
		return err
	}
	isLockType := map[string]bool{}
	for _, t := range lockTypes {
		isLockType[t] = true
	}
	// struct fields, in declaration order
	var fieldOrder []string
	fields := map[string]bool{}
	var lockFields []string
	for _, af := range files {
		for _, d := range af.Decls {
			gd, ok := d.(*ast.GenDecl)
			if !ok || gd.Tok != token.TYPE {
				continue
			}
			for _, sp := range gd.Specs {
				ts := sp.(*ast.TypeSpec)
				st, ok := ts.Type.(*ast.StructType)
				if !ok || !isLockType[ts.Name.Name] {
					continue
				}
				for _, f := range st.Fields.List {
					isMutex := strings.Contains(srcOf(f.Type), "Mutex")
					for _, n := range f.Names {
						if isMutex {
							lockFields = append(lockFields, n.Name)
							continue
						}
						if !fields[n.Name] {
							fields[n.Name] = true
							fieldOrder = append(fieldOrder, n.Name)
						}
					}
				}
			}
		}
	}
	type meth struct {
		typ, name, recv string
		fd              *ast.FuncDecl
	}
	var ms []meth
	methods := map[string]bool{}
	for _, af := range files {
		for _, d := range af.Decls {
			fd, ok := d.(*ast.FuncDecl)
			if !ok || fd.Body == nil {
				continue
			}
			typ, rn := recvTypeName(fd)
			if !isLockType[typ] {
				continue
			}
			ms = append(ms, meth{typ, fd.Name.Name, rn, fd})
			methods[fd.Name.Name] = true
		}
	}
	var sb strings.Builder
	sb.WriteString("(* GENERATED by harness/cmd/extract (skeleton.go) from /repo/bls_thresholdsign.go - do not edit.\n")
	sb.WriteString("   Lock / field-access skeletons of every method of " + strings.Join(lockTypes, " and ") + ". *)\n")
	sb.WriteString("From Coq Require Import List String.\nFrom V Require Import Model.Skel.\nImport ListNotations.\nOpen Scope string_scope.\n\n")
	var q []string
	for _, f := range fieldOrder {
		q = append(q, coqStr(f))
	}
	fmt.Fprintf(&sb, "(* data fields of the two structs, declaration order (the mutex field is not a data field) *)\nDefinition lock_fields : list string := [%s].\n", strings.Join(q, "; "))
	q = nil
	for _, f := range lockFields {
		q = append(q, coqStr(f))
	}
	fmt.Fprintf(&sb, "Definition lock_mutex_fields : list string := [%s].\n\n", strings.Join(q, "; "))
	var entries []string
	var aliasNotes []string
	seen := map[string]bool{}
	for _, m := range ms {
		w := &lockWalker{recv: m.recv, fields: fields, methods: methods, name: m.name, params: map[string]bool{}, notes: &aliasNotes}
		for _, f := range m.fd.Type.Params.List {
			for _, n := range f.Names {
				w.params[n.Name] = true
			}
		}
		var body string
		if m.recv == "" {
			body = "SSkip"
		} else {
			body = w.block(m.fd.Body.List)
		}
		dn := "skel_" + coqIdent(m.typ) + "_" + coqIdent(m.name)
		fmt.Fprintf(&sb, "Definition %s : stmt :=\n  %s.\n\n", dn, body)
		key := m.name
		if seen[key] {
			// two receiver types define the same method name: the checker must not pick one silently
			fmt.Fprintf(&sb, "Definition %s_dup : stmt := Unknown %s.\n", dn, coqStr("duplicate method name "+key))
			entries = append(entries, fmt.Sprintf("(%s, %s_dup)", coqStr(key), dn))
		}
		seen[key] = true
		entries = append(entries, fmt.Sprintf("(%s, %s)", coqStr(key), dn))
	}
	fmt.Fprintf(&sb, "Definition lock_skels : list (string * stmt) :=\n  [%s].\n\n", strings.Join(entries, ";\n   "))
	// exported methods: the entry points other goroutines can call
	var exported, unexported []string
	for _, m := range ms {
		if ast.IsExported(m.name) {
			exported = append(exported, m.name)
		} else {
			unexported = append(unexported, m.name)
		}
	}
	fmt.Fprintf(&sb, "(* exported methods = entry points callable from any goroutine *)\nDefinition lock_exported : list string := %s.\n\n", strList(exported))
	// unexported (lock-free) helpers must only be called from methods of the same receiver types:
	// list every other call site `x.<helper>(` in the package (by name; no type information)
	isHelper := map[string]bool{}
	for _, u := range unexported {
		isHelper[u] = true
	}
	var outside []string
	for _, af := range files {
		for _, d := range af.Decls {
			fd, ok := d.(*ast.FuncDecl)
			if !ok || fd.Body == nil {
				continue
			}
			if typ, _ := recvTypeName(fd); isLockType[typ] {
				continue
			}
			ast.Inspect(fd.Body, func(n ast.Node) bool {
				if c, ok := n.(*ast.CallExpr); ok {
					if se, ok := c.Fun.(*ast.SelectorExpr); ok && isHelper[se.Sel.Name] {
						outside = append(outside, funcName(fd)+" calls "+se.Sel.Name)
					}
				}
				return true
			})
		}
	}
	fmt.Fprintf(&sb, "(* informational (not part of the lock discipline): places where the guarded state shares memory with the caller *)\nDefinition lock_alias_notes : list (string * string) :=\n  [%s].\n\n", strings.Join(aliasNotes, ";\n   "))
	fmt.Fprintf(&sb, "(* calls of the unexported helpers from functions that are not methods of the two types *)\nDefinition lock_helper_calls_outside : list string := %s.\n", strList(outside))
	writeIfChanged(filepath.Join(outDir, "LockSkel.v"), sb.String())
	return nil
}
