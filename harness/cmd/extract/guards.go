package main

// guards.go: "check skeletons". For the verification entry points of the BLS code it
// regenerates, from the current sources, the ORDER in which the validation steps occur
// (length checks, identity-key checks, point deserialisation, subgroup membership,
// pairing calls) and whether each one guards an early return. The Coq models of
// Verify / SPoCK / PoP / aggregate verification are assembled from these lists, so a
// deleted or reordered check changes the model the theorems are proved about.

import (
	"bytes"
	"fmt"
	"go/ast"
	"go/parser"
	"go/printer"
	"go/token"
	"os"
	"path/filepath"
	"regexp"
	"sort"
	"strings"
)

type guardSpec struct {
	file  string
	fn    string // Go: "Recv.Name" or "Name"; C: function name
	vocab []string
}

var guardSpecs = []guardSpec{
	{"bls.go", "pubKeyBLSBLS12381.Verify", []string{"checkBLSHasher(", "len(s) != SignatureLenBLSBLS12381", "pk.isIdentity", "ComputeHash(", "C.bls_verify("}},
	{"bls.go", "prKeyBLSBLS12381.Sign", []string{"checkBLSHasher(", "ComputeHash(", "C.bls_sign("}},
	{"bls.go", "blsBLS12381Algo.decodePublicKey", []string{"len(publicKeyBytes) != PubKeyLenBLSBLS12381", "readPointE2(", "C.E2_in_G2(", "isInfinity()"}},
	{"bls.go", "blsBLS12381Algo.decodePrivateKey", []string{"len(privateKeyBytes) != PrKeyLenBLSBLS12381", "readScalarFrStar("}},
	{"bls.go", "checkBLSHasher", []string{"hasher == nil", "hasher.Size() != expandMsgOutput"}},
	{"bls_multisig.go", "BLSVerifyPOP", []string{".(*pubKeyBLSBLS12381)", "Encode()", "popKMAC", ".Verify("}},
	{"bls_multisig.go", "BLSGeneratePOP", []string{".(*prKeyBLSBLS12381)", "Encode()", "popKMAC", ".Sign("}},
	{"spock.go", "SPOCKVerify", []string{".(*pubKeyBLSBLS12381)", "len(proof1) != g1BytesLen", "len(proof2) != g1BytesLen", "isIdentity", "C.bls_spock_verify("}},
	{"spock.go", "SPOCKProve", []string{".(*prKeyBLSBLS12381)", ".Sign("}},
	{"spock.go", "SPOCKVerifyAgainstData", []string{".(*pubKeyBLSBLS12381)", ".Verify("}},
	{"bls_core.c", "bls_verify", []string{"E1_read_bytes(", "E1_in_G1(", "map_to_G1(", "bls_verify_E1("}},
	{"bls_core.c", "bls_verify_E1", []string{"BLS12_381_minus_g2", "Fp12_multi_pairing(", "Fp12_is_one("}},
	{"bls_core.c", "bls_sign", []string{"map_to_G1(", "bls_sign_E1("}},
	{"bls_core.c", "bls_sign_E1", []string{"E1_mult(", "E1_write_bytes("}},
	{"bls_core.c", "bls_spock_verify", []string{"E1_read_bytes(", "E1_in_G1(", "E1_neg(", "E2_neg(", "Fp12_multi_pairing(", "Fp12_is_one("}},
	{"bls_core.c", "bls_verifyPerDistinctMessage", []string{"E1_read_bytes(", "E1_in_G1(", "BLS12_381_minus_g2", "map_to_G1(", "E2_sum_vector(", "Fp12_multi_pairing(", "Fp12_is_one("}},
	{"bls_core.c", "bls_verifyPerDistinctKey", []string{"E1_read_bytes(", "E1_in_G1(", "BLS12_381_minus_g2", "map_to_G1(", "E1_sum_vector(", "Fp12_multi_pairing(", "Fp12_is_one("}},
}

var ifRe = regexp.MustCompile(`\bif\b`)
var retRe = regexp.MustCompile(`\breturn\b`)
var staticRe = regexp.MustCompile(`^static\b`)
var followRe = regexp.MustCompile(`^\s*if (err != nil|!ok)\b`)

type hit struct {
	pos   int
	name  string
	guard bool
}

func scanGuards(text string, vocab []string) []hit {
	var hits []hit
	for _, v := range vocab {
		from := 0
		for {
			i := strings.Index(text[from:], v)
			if i < 0 {
				break
			}
			p := from + i
			// statement start: previous ';', '{' or '}'
			st := strings.LastIndexAny(text[:p], ";{}")
			seg := text[st+1 : p]
			guard := ifRe.MatchString(seg)
			if !guard {
				// Go idiom: "x, err := f(...)" / "_, ok := v.(T)" followed by "if err != nil" / "if !ok"
				q := p + len(v)
				if strings.HasSuffix(v, "(") {
					depth := 1
					for q < len(text) && depth > 0 {
						switch text[q] {
						case '(':
							depth++
						case ')':
							depth--
						}
						q++
					}
				}
				if followRe.MatchString(text[q:]) {
					guard = true
				}
			}
			hits = append(hits, hit{p, v, guard})
			from = p + len(v)
		}
	}
	sort.Slice(hits, func(a, b int) bool { return hits[a].pos < hits[b].pos })
	return hits
}

func stripCCommentsG(src string) string {
	var sb strings.Builder
	for i := 0; i < len(src); {
		if strings.HasPrefix(src[i:], "//") {
			for i < len(src) && src[i] != '\n' {
				i++
			}
		} else if strings.HasPrefix(src[i:], "/*") {
			j := strings.Index(src[i+2:], "*/")
			if j < 0 {
				break
			}
			i += j + 4
		} else {
			sb.WriteByte(src[i])
			i++
		}
	}
	return sb.String()
}

// body text of a top-level C function
func cFunctionBody(src, name string) (string, bool) {
	s := stripCCommentsG(src)
	re := regexp.MustCompile(`(?m)^[A-Za-z_][A-Za-z0-9_ \*]*\b` + regexp.QuoteMeta(name) + `\s*\(`)
	loc := re.FindStringIndex(s)
	if loc == nil {
		return "", false
	}
	i := strings.Index(s[loc[1]:], "{")
	if i < 0 {
		return "", false
	}
	start := loc[1] + i
	// a prototype (";" before "{") is not a definition
	if semi := strings.Index(s[loc[1]:], ";"); semi >= 0 && semi < i {
		rest := s[loc[1]+semi:]
		loc2 := re.FindStringIndex(rest)
		if loc2 == nil {
			return "", false
		}
		base := loc[1] + semi
		i2 := strings.Index(rest[loc2[1]:], "{")
		if i2 < 0 {
			return "", false
		}
		start = base + loc2[1] + i2
	}
	depth := 0
	for j := start; j < len(s); j++ {
		switch s[j] {
		case '{':
			depth++
		case '}':
			depth--
			if depth == 0 {
				return strings.Join(strings.Fields(s[start:j+1]), " "), true
			}
		}
	}
	return "", false
}

func goFunctionBody(path, fn string) (string, bool) {
	fset := token.NewFileSet()
	af, err := parser.ParseFile(fset, path, nil, parser.SkipObjectResolution)
	if err != nil {
		return "", false
	}
	for _, d := range af.Decls {
		fd, ok := d.(*ast.FuncDecl)
		if !ok || fd.Body == nil || funcName(fd) != fn {
			continue
		}
		var buf bytes.Buffer
		cfg := printer.Config{Mode: printer.RawFormat}
		_ = cfg.Fprint(&buf, token.NewFileSet(), fd.Body)
		return strings.Join(strings.Fields(buf.String()), " "), true
	}
	return "", false
}

func emitGuards(repo, outDir string) error {
	var sb strings.Builder
	sb.WriteString("(* GENERATED by harness/cmd/extract (guards.go) from /repo - do not edit. *)\nFrom Coq Require Import String List.\nImport ListNotations.\nOpen Scope string_scope.\n\n")
	sb.WriteString("Inductive ev := Guard (name : string) | Call (name : string) | Missing.\n\n")
	for _, g := range guardSpecs {
		path := filepath.Join(repo, g.file)
		var body string
		var ok bool
		if strings.HasSuffix(g.file, ".go") {
			body, ok = goFunctionBody(path, g.fn)
		} else {
			b, err := os.ReadFile(path)
			if err == nil {
				body, ok = cFunctionBody(string(b), g.fn)
			}
		}
		name := "skel_" + coqIdent(strings.TrimSuffix(strings.TrimSuffix(g.file, ".go"), ".c")+"_"+g.fn)
		if !ok {
			fmt.Fprintf(&sb, "Definition %s : list ev := [Missing].\n", name)
			fmt.Fprintf(&sb, "Definition nret_%s : nat := 0.\n", strings.TrimPrefix(name, "skel_"))
			continue
		}
		var items []string
		for _, h := range scanGuards(body, g.vocab) {
			k := "Call"
			if h.guard {
				k = "Guard"
			}
			items = append(items, fmt.Sprintf("%s \"%s\"", k, strings.ReplaceAll(h.name, "\"", "'")))
		}
		fmt.Fprintf(&sb, "Definition %s : list ev := [%s].\n", name, strings.Join(items, "; "))
		// number of return statements: a tripwire for added or removed early exits
		fmt.Fprintf(&sb, "Definition nret_%s : nat := %d.\n", strings.TrimPrefix(name, "skel_"), len(retRe.FindAllString(body, -1)))
	}
	// mutable function-local static storage in the C glue (shared between concurrent calls)
	var statics []string
	for _, cf := range []string{"bls_core.c", "bls12381_utils.c", "bls_thresholdsign_core.c", "dkg_core.c"} {
		b, err := os.ReadFile(filepath.Join(repo, cf))
		if err != nil {
			continue
		}
		src := stripCCommentsG(string(b))
		depth := 0
		for _, ln := range strings.Split(src, "\n") {
			t := strings.TrimSpace(ln)
			if depth > 0 && staticRe.MatchString(t) && !strings.Contains(t, "const") && !strings.Contains(t, "(") {
				statics = append(statics, fmt.Sprintf("\"%s: %s\"", cf, strings.ReplaceAll(t, "\"", "'")))
			}
			depth += strings.Count(ln, "{") - strings.Count(ln, "}")
		}
	}
	fmt.Fprintf(&sb, "Definition c_static_mutable_locals : list string := [%s].\n", strings.Join(statics, "; "))
	// package-level variables of the Go packages (state shared by every call and every goroutine);
	// blank identifiers and error sentinels built by errors.New / fmt.Errorf are not state
	fmt.Fprintf(&sb, "Definition go_package_state : list string := [%s].\n", strings.Join(goPackageState(repo), "; "))
	writeIfChanged(filepath.Join(outDir, "Guards.v"), sb.String())
	return nil
}

func init() { extraEmitters = append(extraEmitters, emitGuards) }

// goPackageState lists "dir/file.go: name" for every package-level var of the library's
// non-test Go files (all build configurations), skipping "_" and error sentinels.
func goPackageState(repo string) []string {
	var out []string
	for _, dir := range []string{".", "hash", "random"} {
		ents, err := os.ReadDir(filepath.Join(repo, dir))
		if err != nil {
			continue
		}
		for _, e := range ents {
			n := e.Name()
			if e.IsDir() || !strings.HasSuffix(n, ".go") || strings.HasSuffix(n, "_test.go") || n == "verif_hooks.go" {
				continue
			}
			fset := token.NewFileSet()
			f, err := parser.ParseFile(fset, filepath.Join(repo, dir, n), nil, 0)
			if err != nil {
				out = append(out, fmt.Sprintf("\"%s/%s: unparsable\"", dir, n))
				continue
			}
			for _, d := range f.Decls {
				gd, ok := d.(*ast.GenDecl)
				if !ok || gd.Tok != token.VAR {
					continue
				}
				for _, sp := range gd.Specs {
					vs := sp.(*ast.ValueSpec)
					for i, id := range vs.Names {
						if id.Name == "_" {
							continue
						}
						if i < len(vs.Values) {
							if ce, ok := vs.Values[i].(*ast.CallExpr); ok {
								if se, ok := ce.Fun.(*ast.SelectorExpr); ok {
									if x, ok := se.X.(*ast.Ident); ok && ((x.Name == "errors" && se.Sel.Name == "New") || (x.Name == "fmt" && se.Sel.Name == "Errorf")) {
										continue
									}
								}
							}
						}
						out = append(out, fmt.Sprintf("\"%s/%s: %s\"", dir, n, id.Name))
					}
				}
			}
		}
	}
	return out
}
