package main

import (
	"fmt"
	"os"
	"regexp"
	"strconv"
	"strings"
)

// Minimal evaluator for the integer #define arithmetic of the C glue headers.
type cmacro struct {
	params []string // nil for object-like
	body   string
	fn     bool
}

type cenv struct{ m map[string]cmacro }

var defRe = regexp.MustCompile(`^\s*#\s*define\s+([A-Za-z_][A-Za-z0-9_]*)(\(([^)]*)\))?\s*(.*)$`)

func (e *cenv) load(path string) {
	b, err := os.ReadFile(path)
	if err != nil {
		return
	}
	src := strings.ReplaceAll(string(b), "\\\n", " ")
	for _, ln := range strings.Split(src, "\n") {
		if i := strings.Index(ln, "//"); i >= 0 {
			ln = ln[:i]
		}
		m := defRe.FindStringSubmatch(ln)
		if m == nil {
			continue
		}
		name := m[1]
		if _, dup := e.m[name]; dup {
			continue // first definition wins (ifdef variants: keep the first)
		}
		mc := cmacro{body: strings.TrimSpace(m[4])}
		if m[2] != "" && strings.HasPrefix(ln[strings.Index(ln, name)+len(name):], "(") {
			mc.fn = true
			for _, p := range strings.Split(m[3], ",") {
				mc.params = append(mc.params, strings.TrimSpace(p))
			}
		} else if m[2] != "" {
			// "#define X (expr)" : object-like with parenthesised body
			mc.body = strings.TrimSpace(m[2] + " " + m[4])
		}
		e.m[name] = mc
	}
}

type cparser struct {
	toks []string
	pos  int
	env  *cenv
	bind map[string]int64
	dep  int
}

var tokRe = regexp.MustCompile(`\s*(0[xX][0-9a-fA-F]+|[0-9]+|[A-Za-z_][A-Za-z0-9_]*|<<|>>|<=|>=|==|!=|&&|\|\||[-+*/%^&|()?:<>,~!])`)

func ctokens(s string) ([]string, error) {
	var out []string
	for len(strings.TrimSpace(s)) > 0 {
		m := tokRe.FindStringSubmatchIndex(s)
		if m == nil || m[0] != 0 {
			return nil, fmt.Errorf("cannot tokenize %q", s)
		}
		out = append(out, s[m[2]:m[3]])
		s = s[m[1]:]
	}
	return out, nil
}

func (e *cenv) eval(expr string, bind map[string]int64, dep int) (int64, error) {
	if dep > 40 {
		return 0, fmt.Errorf("macro recursion")
	}
	toks, err := ctokens(expr)
	if err != nil {
		return 0, err
	}
	if len(toks) == 0 {
		return 0, fmt.Errorf("empty")
	}
	p := &cparser{toks: toks, env: e, bind: bind, dep: dep}
	v, err := p.ternary()
	if err != nil {
		return 0, err
	}
	if p.pos != len(p.toks) {
		return 0, fmt.Errorf("trailing tokens in %q", expr)
	}
	return v, nil
}

func (p *cparser) peek() string {
	if p.pos < len(p.toks) {
		return p.toks[p.pos]
	}
	return ""
}
func (p *cparser) next() string { t := p.peek(); p.pos++; return t }

func (p *cparser) ternary() (int64, error) {
	c, err := p.binary(0)
	if err != nil {
		return 0, err
	}
	if p.peek() == "?" {
		p.next()
		a, err := p.ternary()
		if err != nil {
			return 0, err
		}
		if p.next() != ":" {
			return 0, fmt.Errorf("expected :")
		}
		b, err := p.ternary()
		if err != nil {
			return 0, err
		}
		if c != 0 {
			return a, nil
		}
		return b, nil
	}
	return c, nil
}

var prec = map[string]int{"||": 1, "&&": 2, "|": 3, "^": 4, "&": 5, "==": 6, "!=": 6, "<": 7, ">": 7, "<=": 7, ">=": 7, "<<": 8, ">>": 8, "+": 9, "-": 9, "*": 10, "/": 10, "%": 10}

func b2i(b bool) int64 {
	if b {
		return 1
	}
	return 0
}

func (p *cparser) binary(min int) (int64, error) {
	l, err := p.unary()
	if err != nil {
		return 0, err
	}
	for {
		op := p.peek()
		pr, ok := prec[op]
		if !ok || pr < min {
			return l, nil
		}
		p.next()
		r, err := p.binary(pr + 1)
		if err != nil {
			return 0, err
		}
		switch op {
		case "+":
			l += r
		case "-":
			l -= r
		case "*":
			l *= r
		case "/":
			if r == 0 {
				return 0, fmt.Errorf("div by zero")
			}
			l /= r
		case "%":
			if r == 0 {
				return 0, fmt.Errorf("mod by zero")
			}
			l %= r
		case "<<":
			l <<= uint(r)
		case ">>":
			l >>= uint(r)
		case "^":
			l ^= r
		case "&":
			l &= r
		case "|":
			l |= r
		case "==":
			l = b2i(l == r)
		case "!=":
			l = b2i(l != r)
		case "<":
			l = b2i(l < r)
		case ">":
			l = b2i(l > r)
		case "<=":
			l = b2i(l <= r)
		case ">=":
			l = b2i(l >= r)
		case "&&":
			l = b2i(l != 0 && r != 0)
		case "||":
			l = b2i(l != 0 || r != 0)
		}
	}
}

func (p *cparser) unary() (int64, error) {
	t := p.next()
	switch {
	case t == "(":
		v, err := p.ternary()
		if err != nil {
			return 0, err
		}
		if p.next() != ")" {
			return 0, fmt.Errorf("expected )")
		}
		return v, nil
	case t == "-":
		v, err := p.unary()
		return -v, err
	case t == "~":
		v, err := p.unary()
		return ^v, err
	case t == "!":
		v, err := p.unary()
		return b2i(v == 0), err
	case t == "":
		return 0, fmt.Errorf("unexpected end")
	case t[0] >= '0' && t[0] <= '9':
		v, err := strconv.ParseInt(t, 0, 64)
		return v, err
	}
	// identifier
	if v, ok := p.bind[t]; ok {
		return v, nil
	}
	mc, ok := p.env.m[t]
	if !ok {
		return 0, fmt.Errorf("unknown identifier %s", t)
	}
	if !mc.fn {
		return p.env.eval(mc.body, nil, p.dep+1)
	}
	if p.next() != "(" {
		return 0, fmt.Errorf("macro %s needs arguments", t)
	}
	bind := map[string]int64{}
	for i := range mc.params {
		v, err := p.ternary()
		if err != nil {
			return 0, err
		}
		bind[mc.params[i]] = v
		if i < len(mc.params)-1 {
			if p.next() != "," {
				return 0, fmt.Errorf("expected ,")
			}
		}
	}
	if p.next() != ")" {
		return 0, fmt.Errorf("expected ) after macro args")
	}
	return p.env.eval(mc.body, bind, p.dep+1)
}
