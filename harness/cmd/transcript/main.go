// transcript: runs a fixed, seeded list of DETERMINISTIC operations of onflow/crypto and prints
// one JSON line per operation (op, input, output). The same program is built in several build
// configurations (default, portable blst, purego, no cgo) by `vh C20`; their transcripts must be
// identical (the no-cgo one on the non-BLS part).
package main

import (
	"crypto/sha256"
	"encoding/hex"
	"encoding/json"
	"fmt"
	"math/big"
	"math/rand/v2"
	"os"
	"unsafe"

	"github.com/onflow/crypto"
	"github.com/onflow/crypto/hash"
	"github.com/onflow/crypto/random"
)

type line struct {
	Op  string `json:"op"`
	In  string `json:"in"`
	Out string `json:"out"`
}

type input struct {
	Seed  uint64 `json:"seed"`
	N     int    `json:"n"`
	Ecdsa []struct {
		Algo int    `json:"algo"`
		Pk   string `json:"pk"`
		Sig  string `json:"sig"`
		Msg  string `json:"msg"`
	} `json:"ecdsa"`
}

var out []line

func emit(op string, in []byte, o []byte) {
	out = append(out, line{op, hex.EncodeToString(in), hex.EncodeToString(o)})
}
// emitx: the line's key is a short digest of the input (long inputs would only be parsed by Coq, not used)
func emitx(op string, in []byte, o []byte) {
	d := sha256.Sum256(in)
	if len(o) > 64 { // long outputs are compared through their digest
		od := sha256.Sum256(o)
		o = append([]byte{byte(len(o) >> 8), byte(len(o))}, od[:]...)
	}
	emit(op, append([]byte{byte(len(in) >> 8), byte(len(in))}, d[:8]...), o)
}
func emits(op string, in []byte, s string) { out = append(out, line{op, hex.EncodeToString(in), s}) }

func rb(r *rand.Rand, n int) []byte {
	b := make([]byte, n)
	for i := range b {
		b[i] = byte(r.Uint32())
	}
	return b
}

func main() {
	var in input
	b, err := os.ReadFile(os.Args[1])
	if err != nil {
		panic(err)
	}
	if err := json.Unmarshal(b, &in); err != nil {
		panic(err)
	}
	r := rand.New(rand.NewPCG(in.Seed, 0x20))
	// ---- hashing at the block boundaries (k * rate, +-1), one-shot, split in two, and byte by byte ----
	for _, rate := range []int{136, 104} {
		for k := 1; k <= 3; k++ {
			for _, d := range []int{-1, 0, 1} {
				m := rb(r, k*rate+d)
				emit("sha3_256", m, hash.NewSHA3_256().ComputeHash(m))
				emit("sha3_384", m, hash.NewSHA3_384().ComputeHash(m))
				emit("keccak_256", m, hash.NewKeccak_256().ComputeHash(m))
				for hi, mk := range []func() hash.Hasher{hash.NewSHA3_256, hash.NewSHA3_384, hash.NewKeccak_256} {
					name := []string{"sha3_256", "sha3_384", "keccak_256"}[hi]
					h := mk()
					_, _ = h.Write(m[:7])
					_, _ = h.Write(m[7:])
					emit(name, m, h.SumHash())
					h = mk()
					_, _ = h.Write(m)
					emit(name, m, h.SumHash())
					h = mk()
					cut := rate
					if cut > len(m) {
						cut = len(m)
					}
					_, _ = h.Write(m[:cut])
					_, _ = h.Write(m[cut:])
					emit(name, m, h.SumHash())
				}
			}
		}
	}
	hashExtras(r)
	prgExtras(r)
	ecdsaExtras(r)
	for i := 0; i < in.N; i++ {
		// ---- hashing ----
		lens := []int{0, 1, 55, 56, 64, 103, 104, 105, 135, 136, 137, 272, 1000}
		m := rb(r, lens[r.IntN(len(lens))]+r.IntN(3))
		emit("sha2_256", m, hash.NewSHA2_256().ComputeHash(m))
		emit("sha2_384", m, hash.NewSHA2_384().ComputeHash(m))
		emit("sha3_256", m, hash.NewSHA3_256().ComputeHash(m))
		emit("sha3_384", m, hash.NewSHA3_384().ComputeHash(m))
		emit("keccak_256", m, hash.NewKeccak_256().ComputeHash(m))
		h3 := hash.NewSHA3_256()
		cut := 0
		if len(m) > 0 {
			cut = r.IntN(len(m))
		}
		_, _ = h3.Write(m[:cut])
		_, _ = h3.Write(m[cut:])
		emit("sha3_256_split", m, h3.SumHash())
		// the same bytes in a buffer that is NOT 8-byte aligned, and a short header followed by a long body
		// (the unaligned xorIn variant reinterprets the caller's buffer as 64-bit words)
		big := rb(r, 300+r.IntN(500))
		for off := 1; off < 8; off += 1 + r.IntN(3) {
			buf := make([]byte, len(big)+8)
			copy(buf[off:], big)
			ub := buf[off : off+len(big)]
			emit("sha3_256", big, hash.NewSHA3_256().ComputeHash(ub))
			emit("sha3_384", big, hash.NewSHA3_384().ComputeHash(ub))
			emit("keccak_256", big, hash.NewKeccak_256().ComputeHash(ub))
		}
		hb := hash.NewSHA3_384()
		_, _ = hb.Write(big[:3])
		_, _ = hb.Write(big[3:])
		emit("sha3_384", big, hb.SumHash())
		hk := hash.NewKeccak_256()
		_, _ = hk.Write(big[:5])
		_, _ = hk.Write(big[5:])
		emit("keccak_256", big, hk.SumHash())
		key := rb(r, 16+r.IntN(200))
		cust := rb(r, r.IntN(20))
		k, err := hash.NewKMAC_128(key, cust, 32+r.IntN(100))
		if err != nil {
			panic(err)
		}
		emit("kmac128", append(append(append([]byte{byte(len(key))}, key...), cust...), m...), k.ComputeHash(m))
		// ---- PRG ----
		seed := rb(r, 32)
		pc := rb(r, r.IntN(13))
		prg, err := random.NewChacha20PRG(seed, pc)
		if err != nil {
			panic(err)
		}
		buf := make([]byte, 1+r.IntN(200))
		prg.Read(buf)
		emit("prg_read", append(append([]byte{}, seed...), pc...), buf)
		emits("prg_uintn", seed, fmt.Sprint(prg.UintN(1+r.Uint64N(1<<40))))
		perm, _ := prg.Permutation(1 + r.IntN(20))
		emits("prg_perm", seed, fmt.Sprint(perm))
		emit("prg_store", seed, prg.Store())
		// ---- ECDSA (deterministic parts) ----
		for _, alg := range []crypto.SigningAlgorithm{crypto.ECDSAP256, crypto.ECDSASecp256k1} {
			ks := rb(r, 32+r.IntN(64))
			sk, err := crypto.GeneratePrivateKey(alg, ks)
			if err != nil {
				panic(err)
			}
			emit(fmt.Sprintf("ecdsa_keygen_%d", alg), ks, sk.Encode())
			emit(fmt.Sprintf("ecdsa_pk_%d", alg), ks, sk.PublicKey().Encode())
			emit(fmt.Sprintf("ecdsa_pkc_%d", alg), ks, sk.PublicKey().EncodeCompressed())
			junk := rb(r, 64)
			_, e := crypto.DecodePublicKey(alg, junk)
			emits(fmt.Sprintf("ecdsa_decode_junk_%d", alg), junk, fmt.Sprint(e == nil))
		}
	}
	for _, v := range in.Ecdsa {
		pkb, _ := hex.DecodeString(v.Pk)
		sig, _ := hex.DecodeString(v.Sig)
		msg, _ := hex.DecodeString(v.Msg)
		pk, err := crypto.DecodePublicKey(crypto.SigningAlgorithm(v.Algo), pkb)
		if err != nil {
			panic(err)
		}
		ok, err := pk.Verify(sig, msg, hash.NewSHA3_256())
		emits(fmt.Sprintf("ecdsa_verify_%d", v.Algo), append(append([]byte{}, sig...), msg...), fmt.Sprint(ok, err == nil))
		bad := append([]byte{}, sig...)
		bad[len(bad)-1] ^= 1
		ok, err = pk.Verify(bad, msg, hash.NewSHA3_256())
		emits(fmt.Sprintf("ecdsa_verify_bad_%d", v.Algo), append(append([]byte{}, bad...), msg...), fmt.Sprint(ok, err == nil))
	}
	blsTranscript(r, in.N)
	enc := json.NewEncoder(os.Stdout)
	for _, l := range out {
		_ = enc.Encode(l)
	}
}

// unaligned returns a copy of b whose first byte sits at an address = off (mod 8)
func unaligned(b []byte, off int) []byte {
	buf := make([]byte, len(b)+16)
	o := 0
	for ; o < 8; o++ {
		if (uintptr(unsafe.Pointer(&buf[o]))&7) == uintptr(off&7) {
			break
		}
	}
	copy(buf[o:], b)
	return buf[o : o+len(b)]
}

// hashExtras: the entry points and write patterns the main loop does not reach: one-shot helpers,
// byte-by-byte and 8-byte-chunk writes from unaligned memory, objects reused after SumHash / ComputeHash /
// Reset, a long message, KMAC128 through SumHash with split writes, output sizes around the cSHAKE rate
// and keys whose encoding fills whole blocks.
func hashExtras(r *rand.Rand) {
	names := []string{"sha3_256", "sha3_384", "keccak_256", "sha2_256", "sha2_384"}
	mks := []func() hash.Hasher{hash.NewSHA3_256, hash.NewSHA3_384, hash.NewKeccak_256, hash.NewSHA2_256, hash.NewSHA2_384}
	for _, l := range []int{0, 1, 8, 63, 64, 135, 136, 137, 272, 273, 500} {
		m := rb(r, l)
		var o3, o2 [32]byte
		hash.ComputeSHA3_256(&o3, unaligned(m, l))
		hash.ComputeSHA2_256(&o2, unaligned(m, l+3))
		emit("sha3_256", m, o3[:])
		emit("sha2_256", m, o2[:])
	}
	long := rb(r, 3000+r.IntN(64))
	for hi, mk := range mks {
		// "_x": compared between the builds only (the specification check in Coq is applied to the
		// main-loop lines and to the one-shot helpers above; it would cost a minute on these)
		name := names[hi] + "_x"
		for _, l := range []int{1, 103, 104, 136, 137, 209, 272} {
			m := rb(r, l+r.IntN(2))
			h := mk()
			for i := range m { // byte by byte, every address alignment
				_, _ = h.Write(unaligned(m[i:i+1], i))
			}
			emitx(name, m, h.SumHash())
			// the same object again without Reset: ComputeHash, then Reset + 8-byte chunks from odd addresses
			emitx(name, m, h.ComputeHash(unaligned(m, 1)))
			emitx(name, m, h.ComputeHash(unaligned(m, 5)))
			h.Reset()
			for i := 0; i < len(m); i += 8 {
				e := i + 8
				if e > len(m) {
					e = len(m)
				}
				_, _ = h.Write(unaligned(m[i:e], 3))
			}
			_, _ = h.Write(nil)
			emitx(name, m, h.SumHash())
		}
		h := mk()
		_, _ = h.Write(long[:1])
		_, _ = h.Write(unaligned(long[1:], 7))
		emitx(name, long, h.SumHash())
		emitx(name, long, mk().ComputeHash(unaligned(long, 2)))
	}
	for _, kl := range []int{16, 32, 163, 331} {
		for _, ol := range []int{0, 1, 32, 167, 168, 169, 400} {
			key, cust, m := rb(r, kl), rb(r, r.IntN(40)), rb(r, 150+r.IntN(400))
			k, err := hash.NewKMAC_128(key, cust, ol)
			if err != nil {
				panic(err)
			}
			id := append(append(append([]byte{byte(kl), byte(kl >> 8), byte(ol), byte(ol >> 8), byte(len(cust))}, key...), cust...), m...)
			cut := r.IntN(len(m))
			_, _ = k.Write(unaligned(m[:cut], 1))
			_, _ = k.Write(unaligned(m[cut:], 6))
			emitx("kmac128_sum", id, k.SumHash())
			emitx("kmac128", id, k.ComputeHash(unaligned(m, 3)))
			_, _ = k.Write(m[:1]) // the stream continues after SumHash
			emitx("kmac128_sum_more", id, k.SumHash())
			k.Reset()
			_, _ = k.Write(m)
			emitx("kmac128_sum", id, k.SumHash())
		}
	}
}

// prgExtras: read sizes on both paths, Store / Restore, and every derived sampler
func prgExtras(r *rand.Rand) {
	for i := 0; i < 4; i++ {
		seed, pc := rb(r, 32), rb(r, []int{0, 1, 11, 12}[i])
		id := append(append([]byte{}, seed...), pc...)
		prg, err := random.NewChacha20PRG(seed, pc)
		if err != nil {
			panic(err)
		}
		var all []byte
		for _, n := range []int{0, 1, 63, 64, 65, 128, 129, 1000} {
			buf := make([]byte, n)
			prg.Read(buf)
			all = append(all, buf...)
		}
		if i == 0 {
			emit("prg_read", id, all) // Reads concatenate: checked against the keystream from position 0
		} else {
			emitx("prg_read_x", id, all)
		}
		st := prg.Store()
		emit("prg_store", id, st)
		p2, err := random.RestoreChacha20PRG(st)
		if err != nil {
			panic(err)
		}
		var sw [][2]int
		sp, e1 := p2.SubPermutation(30, 7)
		e2 := p2.Shuffle(9, func(a, b int) { sw = append(sw, [2]int{a, b}) })
		e3 := p2.Samples(1<<40+3, 4, func(a, b int) { sw = append(sw, [2]int{a, b}) })
		pm, e4 := p2.Permutation(300)
		emits("prg_samplers", id, fmt.Sprint(sp, e1, sw, e2, e3, pm, e4, p2.UintN(257), p2.UintN(1<<63+5), p2.UintN(1)))
		emit("prg_store", id, p2.Store())
		buf := make([]byte, 70)
		p2.Read(buf)
		emit("prg_read_after_samplers", id, buf)
	}
}

// ecdsaExtras: deterministic parts of ECDSA beyond key generation: boundary scalars through the decoders,
// compressed encodings, Sign -> Verify round trips under hashers of every admissible size (verdict only,
// signing is randomised), malformed signatures.
func ecdsaExtras(r *rand.Rand) {
	orders := map[crypto.SigningAlgorithm]string{
		crypto.ECDSAP256:      "ffffffff00000000ffffffffffffffffbce6faada7179e84f3b9cac2fc632551",
		crypto.ECDSASecp256k1: "fffffffffffffffffffffffffffffffebaaedce6af48a03bbfd25e8cd0364141",
	}
	kmac, _ := hash.NewKMAC_128(rb(r, 16), nil, 64)
	hashers := []hash.Hasher{hash.NewSHA2_256(), hash.NewSHA2_384(), hash.NewSHA3_256(), hash.NewSHA3_384(), hash.NewKeccak_256(), kmac}
	for _, alg := range []crypto.SigningAlgorithm{crypto.ECDSAP256, crypto.ECDSASecp256k1} {
		n, _ := new(big.Int).SetString(orders[alg], 16)
		for _, d := range []int64{-2, -1, 0, 1} {
			for _, base := range []*big.Int{n, big.NewInt(2), new(big.Int).Lsh(big.NewInt(1), 255)} {
				b := new(big.Int).Add(base, big.NewInt(d)).FillBytes(make([]byte, 32))
				sk, err := crypto.DecodePrivateKey(alg, b)
				if err != nil {
					emits(fmt.Sprintf("ecdsa_sk_decode_%d", alg), b, "error")
					continue
				}
				emit(fmt.Sprintf("ecdsa_sk_decode_%d", alg), b, append(sk.Encode(), sk.PublicKey().Encode()...))
			}
		}
		sk, err := crypto.GeneratePrivateKey(alg, rb(r, 40))
		if err != nil {
			panic(err)
		}
		pk := sk.PublicKey()
		pc := pk.EncodeCompressed()
		pk2, err := crypto.DecodePublicKeyCompressed(alg, pc)
		if err != nil {
			emits(fmt.Sprintf("ecdsa_pkc_roundtrip_%d", alg), pc, "error")
		} else {
			emit(fmt.Sprintf("ecdsa_pkc_roundtrip_%d", alg), pc, pk2.Encode())
		}
		flip := append([]byte{}, pc...)
		flip[0] ^= 1 // the other square root
		if pk3, err := crypto.DecodePublicKeyCompressed(alg, flip); err != nil {
			emits(fmt.Sprintf("ecdsa_pkc_roundtrip_%d", alg), flip, "error")
		} else {
			emit(fmt.Sprintf("ecdsa_pkc_roundtrip_%d", alg), flip, pk3.Encode())
		}
		m := rb(r, 50)
		for hi, h := range hashers {
			sig, err := sk.Sign(m, h)
			if err != nil {
				emits(fmt.Sprintf("ecdsa_roundtrip_%d", alg), []byte{byte(hi)}, "sign error")
				continue
			}
			ok, err := pk.Verify(sig, m, h)
			ok2, _ := pk.Verify(sig, append([]byte{1}, m...), h)
			emits(fmt.Sprintf("ecdsa_roundtrip_%d", alg), []byte{byte(hi)}, fmt.Sprint(len(sig), ok, err == nil, ok2))
		}
		good, _ := sk.Sign(m, hashers[0])
		nb := n.FillBytes(make([]byte, 32))
		zero := make([]byte, 32)
		for bi, bad := range [][]byte{
			append(append([]byte{}, zero...), good[32:]...), append(append([]byte{}, good[:32]...), zero...),
			append(append([]byte{}, nb...), good[32:]...), append(append([]byte{}, good[:32]...), nb...),
			good[:63], append(append([]byte{}, good...), 0), nil, make([]byte, 64),
		} {
			ok, err := pk.Verify(bad, m, hashers[0])
			tag := []byte{byte(bi), byte(len(bad))} // (the signature bytes are randomised: not part of the line's key)
			emits(fmt.Sprintf("ecdsa_verify_malformed_%d", alg), tag, fmt.Sprint(ok, err == nil))
		}
	}
}
