// transcript: runs a fixed, seeded list of DETERMINISTIC operations of onflow/crypto and prints
// one JSON line per operation (op, input, output). The same program is built in several build
// configurations (default, portable blst, purego, no cgo) by `vh C20`; their transcripts must be
// identical (the no-cgo one on the non-BLS part).
package main

import (
	"encoding/hex"
	"encoding/json"
	"fmt"
	"math/rand/v2"
	"os"

	"github.com/onflow/crypto"
	"github.com/onflow/crypto/hash"
	"github.com/onflow/crypto/random"
)

type line struct {
	Op  string `json:"op"`
	In  string `json:"in"`
	Out string `json:"out"`
}

type input struct {
	Seed  uint64 `json:"seed"`
	N     int    `json:"n"`
	Ecdsa []struct {
		Algo int    `json:"algo"`
		Pk   string `json:"pk"`
		Sig  string `json:"sig"`
		Msg  string `json:"msg"`
	} `json:"ecdsa"`
}

var out []line

func emit(op string, in []byte, o []byte) {
	out = append(out, line{op, hex.EncodeToString(in), hex.EncodeToString(o)})
}
func emits(op string, in []byte, s string) { out = append(out, line{op, hex.EncodeToString(in), s}) }

func rb(r *rand.Rand, n int) []byte {
	b := make([]byte, n)
	for i := range b {
		b[i] = byte(r.Uint32())
	}
	return b
}

func main() {
	var in input
	b, err := os.ReadFile(os.Args[1])
	if err != nil {
		panic(err)
	}
	if err := json.Unmarshal(b, &in); err != nil {
		panic(err)
	}
	r := rand.New(rand.NewPCG(in.Seed, 0x20))
	// ---- hashing at the block boundaries (k * rate, +-1), one-shot, split in two, and byte by byte ----
	for _, rate := range []int{136, 104} {
		for k := 1; k <= 3; k++ {
			for _, d := range []int{-1, 0, 1} {
				m := rb(r, k*rate+d)
				emit("sha3_256", m, hash.NewSHA3_256().ComputeHash(m))
				emit("sha3_384", m, hash.NewSHA3_384().ComputeHash(m))
				emit("keccak_256", m, hash.NewKeccak_256().ComputeHash(m))
				for hi, mk := range []func() hash.Hasher{hash.NewSHA3_256, hash.NewSHA3_384, hash.NewKeccak_256} {
					name := []string{"sha3_256", "sha3_384", "keccak_256"}[hi]
					h := mk()
					_, _ = h.Write(m[:7])
					_, _ = h.Write(m[7:])
					emit(name, m, h.SumHash())
					h = mk()
					_, _ = h.Write(m)
					emit(name, m, h.SumHash())
					h = mk()
					cut := rate
					if cut > len(m) {
						cut = len(m)
					}
					_, _ = h.Write(m[:cut])
					_, _ = h.Write(m[cut:])
					emit(name, m, h.SumHash())
				}
			}
		}
	}
	for i := 0; i < in.N; i++ {
		// ---- hashing ----
		lens := []int{0, 1, 55, 56, 64, 103, 104, 105, 135, 136, 137, 272, 1000}
		m := rb(r, lens[r.IntN(len(lens))]+r.IntN(3))
		emit("sha2_256", m, hash.NewSHA2_256().ComputeHash(m))
		emit("sha2_384", m, hash.NewSHA2_384().ComputeHash(m))
		emit("sha3_256", m, hash.NewSHA3_256().ComputeHash(m))
		emit("sha3_384", m, hash.NewSHA3_384().ComputeHash(m))
		emit("keccak_256", m, hash.NewKeccak_256().ComputeHash(m))
		h3 := hash.NewSHA3_256()
		cut := 0
		if len(m) > 0 {
			cut = r.IntN(len(m))
		}
		_, _ = h3.Write(m[:cut])
		_, _ = h3.Write(m[cut:])
		emit("sha3_256_split", m, h3.SumHash())
		// the same bytes in a buffer that is NOT 8-byte aligned, and a short header followed by a long body
		// (the unaligned xorIn variant reinterprets the caller's buffer as 64-bit words)
		big := rb(r, 300+r.IntN(500))
		for off := 1; off < 8; off += 1 + r.IntN(3) {
			buf := make([]byte, len(big)+8)
			copy(buf[off:], big)
			ub := buf[off : off+len(big)]
			emit("sha3_256", big, hash.NewSHA3_256().ComputeHash(ub))
			emit("sha3_384", big, hash.NewSHA3_384().ComputeHash(ub))
			emit("keccak_256", big, hash.NewKeccak_256().ComputeHash(ub))
		}
		hb := hash.NewSHA3_384()
		_, _ = hb.Write(big[:3])
		_, _ = hb.Write(big[3:])
		emit("sha3_384", big, hb.SumHash())
		hk := hash.NewKeccak_256()
		_, _ = hk.Write(big[:5])
		_, _ = hk.Write(big[5:])
		emit("keccak_256", big, hk.SumHash())
		key := rb(r, 16+r.IntN(200))
		cust := rb(r, r.IntN(20))
		k, err := hash.NewKMAC_128(key, cust, 32+r.IntN(100))
		if err != nil {
			panic(err)
		}
		emit("kmac128", append(append(append([]byte{byte(len(key))}, key...), cust...), m...), k.ComputeHash(m))
		// ---- PRG ----
		seed := rb(r, 32)
		pc := rb(r, r.IntN(13))
		prg, err := random.NewChacha20PRG(seed, pc)
		if err != nil {
			panic(err)
		}
		buf := make([]byte, 1+r.IntN(200))
		prg.Read(buf)
		emit("prg_read", append(append([]byte{}, seed...), pc...), buf)
		emits("prg_uintn", seed, fmt.Sprint(prg.UintN(1+r.Uint64N(1<<40))))
		perm, _ := prg.Permutation(1 + r.IntN(20))
		emits("prg_perm", seed, fmt.Sprint(perm))
		emit("prg_store", seed, prg.Store())
		// ---- ECDSA (deterministic parts) ----
		for _, alg := range []crypto.SigningAlgorithm{crypto.ECDSAP256, crypto.ECDSASecp256k1} {
			ks := rb(r, 32+r.IntN(64))
			sk, err := crypto.GeneratePrivateKey(alg, ks)
			if err != nil {
				panic(err)
			}
			emit(fmt.Sprintf("ecdsa_keygen_%d", alg), ks, sk.Encode())
			emit(fmt.Sprintf("ecdsa_pk_%d", alg), ks, sk.PublicKey().Encode())
			emit(fmt.Sprintf("ecdsa_pkc_%d", alg), ks, sk.PublicKey().EncodeCompressed())
			junk := rb(r, 64)
			_, e := crypto.DecodePublicKey(alg, junk)
			emits(fmt.Sprintf("ecdsa_decode_junk_%d", alg), junk, fmt.Sprint(e == nil))
		}
	}
	for _, v := range in.Ecdsa {
		pkb, _ := hex.DecodeString(v.Pk)
		sig, _ := hex.DecodeString(v.Sig)
		msg, _ := hex.DecodeString(v.Msg)
		pk, err := crypto.DecodePublicKey(crypto.SigningAlgorithm(v.Algo), pkb)
		if err != nil {
			panic(err)
		}
		ok, err := pk.Verify(sig, msg, hash.NewSHA3_256())
		emits(fmt.Sprintf("ecdsa_verify_%d", v.Algo), append(append([]byte{}, sig...), msg...), fmt.Sprint(ok, err == nil))
		bad := append([]byte{}, sig...)
		bad[len(bad)-1] ^= 1
		ok, err = pk.Verify(bad, msg, hash.NewSHA3_256())
		emits(fmt.Sprintf("ecdsa_verify_bad_%d", v.Algo), append(append([]byte{}, bad...), msg...), fmt.Sprint(ok, err == nil))
	}
	blsTranscript(r, in.N)
	enc := json.NewEncoder(os.Stdout)
	for _, l := range out {
		_ = enc.Encode(l)
	}
}
