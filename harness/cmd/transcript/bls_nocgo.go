//go:build !cgo && no_cgo

package main

import "math/rand/v2"

// the BLS part is absent in a build without cgo; the random stream is not consumed, the
// non-BLS transcript lines come first and are compared as a prefix
func blsTranscript(r *rand.Rand, n int) {}
