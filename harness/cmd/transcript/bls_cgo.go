//go:build cgo && !no_cgo

package main

import (
	"encoding/hex"
	"fmt"
	"math/big"
	"math/rand/v2"

	"github.com/onflow/crypto"
	"github.com/onflow/crypto/hash"
)

// recording DKG processor for a deterministic in-process run
type proc struct {
	id   int
	net  *network
	logs *[]string
}
type msg struct {
	from, to int // to = -1: broadcast
	data     []byte
}
type network struct{ queue []msg }

func (p *proc) PrivateSend(dest int, data []byte) {
	p.net.queue = append(p.net.queue, msg{p.id, dest, append([]byte{}, data...)})
}
func (p *proc) Broadcast(data []byte) {
	p.net.queue = append(p.net.queue, msg{p.id, -1, append([]byte{}, data...)})
}
func (p *proc) Disqualify(i int, _ string)      { *p.logs = append(*p.logs, fmt.Sprintf("%d disq %d", p.id, i)) }
func (p *proc) FlagMisbehavior(i int, _ string) { *p.logs = append(*p.logs, fmt.Sprintf("%d flag %d", p.id, i)) }

func blsTranscript(r *rand.Rand, n int) {
	for i := 0; i < n; i++ {
		seed := rb(r, 32+r.IntN(32))
		sk, err := crypto.GeneratePrivateKey(crypto.BLSBLS12381, seed)
		if err != nil {
			panic(err)
		}
		emit("bls_keygen", seed, sk.Encode())
		emit("bls_pk", seed, sk.PublicKey().Encode())
		m := rb(r, r.IntN(100))
		tag := fmt.Sprintf("tag%d", r.IntN(5))
		hs := crypto.NewExpandMsgXOFKMAC128(tag)
		s, _ := sk.Sign(m, hs)
		emit("bls_sign", append(append([]byte{}, seed...), m...), s)
		ok, _ := sk.PublicKey().Verify(s, m, hs)
		bad := append([]byte{}, s...)
		bad[5] ^= 4
		ok2, _ := sk.PublicKey().Verify(bad, m, hs)
		emits("bls_verify", s, fmt.Sprint(ok, ok2))
		pop, _ := crypto.BLSGeneratePOP(sk)
		okp, _ := crypto.BLSVerifyPOP(sk.PublicKey(), pop)
		emit("bls_pop", seed, pop)
		emits("bls_pop_verify", pop, fmt.Sprint(okp))
		// aggregation over a few keys
		var sks []crypto.PrivateKey
		var pks []crypto.PublicKey
		var sigs []crypto.Signature
		var msgs [][]byte
		var hss []hash.Hasher
		for j := 0; j < 2+r.IntN(3); j++ {
			k, _ := crypto.GeneratePrivateKey(crypto.BLSBLS12381, rb(r, 32))
			sg, _ := k.Sign(m, hs)
			sks, pks, sigs = append(sks, k), append(pks, k.PublicKey()), append(sigs, sg)
			msgs, hss = append(msgs, m), append(hss, hs)
		}
		ask, _ := crypto.AggregateBLSPrivateKeys(sks)
		apk, _ := crypto.AggregateBLSPublicKeys(pks)
		asg, _ := crypto.AggregateBLSSignatures(sigs)
		emit("bls_agg_sk", seed, ask.Encode())
		emit("bls_agg_pk", seed, apk.Encode())
		emit("bls_agg_sig", seed, asg)
		v1, _ := crypto.VerifyBLSSignatureOneMessage(pks, asg, m, hs)
		v2, _ := crypto.VerifyBLSSignatureManyMessages(pks, asg, msgs, hss)
		bv, _ := crypto.BatchVerifyBLSSignaturesOneMessage(pks, sigs, m, hs)
		emits("bls_agg_verify", asg, fmt.Sprint(v1, v2, bv))
		// SPoCK
		p1, _ := crypto.SPOCKProve(sks[0], m, hs)
		p2, _ := crypto.SPOCKProve(sks[1], m, hs)
		sv, _ := crypto.SPOCKVerify(pks[0], p1, pks[1], p2)
		emits("bls_spock", p1, fmt.Sprint(sv))
		// threshold
		tn := 3 + r.IntN(4)
		tt := 1 + r.IntN(tn-1)
		tsk, tpk, gpk, err := crypto.BLSThresholdKeyGen(tn, tt, seed)
		if err != nil {
			panic(err)
		}
		var sh []crypto.Signature
		var idx []int
		for j := 0; j <= tt; j++ {
			sj, _ := tsk[j].Sign(m, hs)
			sh, idx = append(sh, sj), append(idx, j)
		}
		rec, _ := crypto.BLSReconstructThresholdSignature(tn, tt, sh, idx)
		emit("bls_threshold_group_pk", seed, gpk.Encode())
		emit("bls_threshold_share_pk", seed, tpk[tn-1].Encode())
		emit("bls_threshold_reconstruct", seed, rec)
	}
	blsEdgeTranscript(r)
	blsExtras(r)
	// seeded Joint-Feldman runs, synchronous delivery
	dkgRun(r, 3, 1)
	dkgRun(r, 6, 2)
	dkgWide(r)
}

// dkgWide: one dealer, the largest group (254), a few simulated receivers incl. the highest indices: every
// receiver derives all 254 public key shares from the vector (small-exponent multiplications by 1..254 in G2)
func dkgWide(r *rand.Rand) {
	const dn, dt = 254, 3
	var logs []string
	net := &network{}
	ids := []int{0, 1, 127, 128, 169, 170, 171, 200, 253}
	inst := map[int]crypto.DKGState{}
	for _, i := range ids {
		d, err := crypto.NewFeldmanVSS(dn, dt, i, &proc{i, net, &logs}, 0)
		if err != nil {
			panic(err)
		}
		inst[i] = d
	}
	seed := rb(r, 32)
	for _, i := range ids {
		if err := inst[i].Start(seed); err != nil {
			panic(err)
		}
	}
	for _, mm := range net.queue {
		for _, j := range ids {
			if j == mm.from {
				continue
			}
			if mm.to == -1 {
				_ = inst[j].HandleBroadcastMsg(mm.from, mm.data)
			} else if mm.to == j {
				_ = inst[j].HandlePrivateMsg(mm.from, mm.data)
			}
		}
	}
	for _, i := range ids {
		x, Y, ys, err := inst[i].End()
		if err != nil {
			emits(fmt.Sprintf("dkg_wide_end_%d", i), seed, "error: "+err.Error())
			continue
		}
		all := ""
		for _, y := range ys {
			all += hex.EncodeToString(y.Encode()[:6])
		}
		emits(fmt.Sprintf("dkg_wide_end_%d", i), seed, hex.EncodeToString(x.Encode())+" "+hex.EncodeToString(Y.Encode()[:12])+" "+all)
	}
	emits("dkg_wide_logs", seed, fmt.Sprint(logs))
}

func dkgRun(r *rand.Rand, dn, dt int) {
	var logs []string
	net := &network{}
	var inst []crypto.DKGState
	for i := 0; i < dn; i++ {
		d, err := crypto.NewJointFeldman(dn, dt, i, &proc{i, net, &logs})
		if err != nil {
			panic(err)
		}
		inst = append(inst, d)
	}
	deliver := func() {
		for len(net.queue) > 0 {
			q := net.queue
			net.queue = nil
			for _, mm := range q {
				emit(fmt.Sprintf("dkg_msg_%d_%d", mm.from, mm.to), nil, mm.data)
				for j := 0; j < dn; j++ {
					if j == mm.from {
						continue
					}
					if mm.to == -1 {
						_ = inst[j].HandleBroadcastMsg(mm.from, mm.data)
					} else if mm.to == j {
						_ = inst[j].HandlePrivateMsg(mm.from, mm.data)
					}
				}
			}
		}
	}
	for i := 0; i < dn; i++ {
		if err := inst[i].Start(rb(r, 32)); err != nil {
			panic(err)
		}
	}
	deliver()
	for i := 0; i < dn; i++ {
		_ = inst[i].NextTimeout()
	}
	deliver()
	for i := 0; i < dn; i++ {
		_ = inst[i].NextTimeout()
	}
	deliver()
	for i := 0; i < dn; i++ {
		x, Y, ys, err := inst[i].End()
		if err != nil {
			emits(fmt.Sprintf("dkg_end_%d", i), nil, "error")
			continue
		}
		emit(fmt.Sprintf("dkg_end_share_%d", i), nil, x.Encode())
		emit(fmt.Sprintf("dkg_end_group_%d", i), nil, Y.Encode())
		emit(fmt.Sprintf("dkg_end_pk0_%d", i), nil, ys[0].Encode())
	}
	emits("dkg_logs", nil, fmt.Sprint(logs))
}

// blsEdgeTranscript feeds boundary encodings (field elements p-1, p, p+1, 2^381-1, 0..3; scalars
// r-1, r, r+1, 0; every header-bit combination; infinity variants) to every decoding entry point,
// including the ones that read G1 points without a subgroup check, and records values and error
// texts: range checks and decoders are where limb-level code differs between builds.
func blsEdgeTranscript(r *rand.Rand) {
	p, _ := new(big.Int).SetString("1a0111ea397fe69a4b1ba7b6434bacd764774b84f38512bf6730d2a0f6b0f6241eabfffeb153ffffb9feffffffffaaab", 16)
	q, _ := new(big.Int).SetString("73eda753299d7d483339d80809a1d80553bda402fffe5bfeffffffff00000001", 16)
	res := func(v []byte, err error) string {
		if err != nil {
			return "error: " + err.Error()
		}
		return hex.EncodeToString(v)
	}
	var xs []*big.Int
	for _, d := range []int64{-2, -1, 0, 1, 2} {
		xs = append(xs, new(big.Int).Add(p, big.NewInt(d)))
	}
	for _, v := range []int64{0, 1, 2, 3, 4} {
		xs = append(xs, big.NewInt(v))
	}
	xs = append(xs, new(big.Int).Sub(new(big.Int).Lsh(big.NewInt(1), 381), big.NewInt(1)),
		new(big.Int).Lsh(big.NewInt(1), 380), new(big.Int).Rsh(p, 1), new(big.Int).Add(new(big.Int).Rsh(p, 1), big.NewInt(1)))
	for i := 0; i < 4; i++ {
		xs = append(xs, new(big.Int).Mod(new(big.Int).SetBytes(rb(r, 60)), p))
	}
	hs := crypto.NewExpandMsgXOFKMAC128("edge")
	sk, _ := crypto.GeneratePrivateKey(crypto.BLSBLS12381, rb(r, 32))
	good, _ := sk.Sign([]byte("m"), hs)
	for _, x := range xs {
		for _, hdr := range []byte{0x80, 0xa0, 0x00, 0xc0, 0xe0, 0x40} {
			g1 := x.FillBytes(make([]byte, 48))
			g1[0] |= hdr
			// G1 readers without a subgroup check
			a, err := crypto.AggregateBLSSignatures([]crypto.Signature{g1, good})
			emits("edge_g1_aggregate", g1, res(a, err))
			rec, err := crypto.BLSReconstructThresholdSignature(3, 1, []crypto.Signature{g1, good}, []int{0, 2})
			emits("edge_g1_reconstruct", g1, res(rec, err))
			ok, err := sk.PublicKey().Verify(g1, []byte("m"), hs)
			emits("edge_g1_verify", g1, fmt.Sprint(ok, err))
			sp, err := crypto.SPOCKVerify(sk.PublicKey(), g1, sk.PublicKey(), g1)
			emits("edge_g1_spock", g1, fmt.Sprint(sp, err))
			// G2: the edge value in either coefficient
			for pos := 0; pos < 2; pos++ {
				g2 := make([]byte, 96)
				x.FillBytes(g2[pos*48 : pos*48+48])
				if pos == 1 {
					g2[47] = 1
				}
				g2[0] |= hdr
				pk, err := crypto.DecodePublicKey(crypto.BLSBLS12381, g2)
				if err != nil {
					emits("edge_g2_decode", g2, "error: "+err.Error())
				} else {
					emit("edge_g2_decode", g2, pk.Encode())
				}
			}
		}
	}
	for _, d := range []int64{-2, -1, 0, 1} {
		for _, base := range []*big.Int{q, big.NewInt(2), new(big.Int).Lsh(big.NewInt(1), 255)} {
			v := new(big.Int).Add(base, big.NewInt(d))
			b := v.FillBytes(make([]byte, 32))
			k, err := crypto.DecodePrivateKey(crypto.BLSBLS12381, b)
			if err != nil {
				emits("edge_sk_decode", b, "error: "+err.Error())
				continue
			}
			emit("edge_sk_decode", b, append(k.Encode(), k.PublicKey().Encode()...))
			sg, err := k.Sign([]byte("edge"), hs)
			emits("edge_sk_sign", b, res(sg, err))
		}
	}
	// aggregation where the running sum EQUALS the next summand (the addition is a doubling) or its
	// negative: the same signature twice, s1, s2, s1+s2, s1, -s1 ...; the same (key, message) pair
	// repeated in a many-messages verification (hash images under one key are summed)
	{
		m1, m2 := []byte("dup message 1"), []byte("dup message 2")
		ska, _ := crypto.GeneratePrivateKey(crypto.BLSBLS12381, rb(r, 32))
		skb, _ := crypto.GeneratePrivateKey(crypto.BLSBLS12381, rb(r, 32))
		a1, _ := ska.Sign(m1, hs)
		a2, _ := ska.Sign(m2, hs)
		b1, _ := skb.Sign(m1, hs)
		ab, _ := crypto.AggregateBLSSignatures([]crypto.Signature{a1, b1})
		for i, l := range [][]crypto.Signature{{a1, a1}, {a1, a1, b1}, {a1, b1, ab}, {a1, a1, a1, a1}, {b1, a1, a1}, {a1, b1, a1, b1}} {
			g, err := crypto.AggregateBLSSignatures(l)
			emits(fmt.Sprintf("edge_agg_dup_%d", i), a1, res(g, err))
		}
		pka, pkb := ska.PublicKey(), skb.PublicKey()
		g1, _ := crypto.AggregateBLSSignatures([]crypto.Signature{a1, a1, b1})
		v1, e1 := crypto.VerifyBLSSignatureOneMessage([]crypto.PublicKey{pka, pka, pkb}, g1, m1, hs)
		emits("edge_verify_dup_one", g1, fmt.Sprint(v1, e1))
		g2, _ := crypto.AggregateBLSSignatures([]crypto.Signature{a1, a1, a2})
		v2, e2 := crypto.VerifyBLSSignatureManyMessages([]crypto.PublicKey{pka, pka, pka}, g2, [][]byte{m1, m1, m2}, []hash.Hasher{hs, hs, hs})
		emits("edge_verify_dup_many", g2, fmt.Sprint(v2, e2))
		g3, _ := crypto.AggregateBLSSignatures([]crypto.Signature{a1, b1, a1, b1})
		v3, e3 := crypto.VerifyBLSSignatureManyMessages([]crypto.PublicKey{pka, pkb, pka, pkb}, g3, [][]byte{m1, m1, m1, m1}, []hash.Hasher{hs, hs, hs, hs})
		emits("edge_verify_dup_pairs", g3, fmt.Sprint(v3, e3))
		dk, _ := crypto.AggregateBLSPublicKeys([]crypto.PublicKey{pka, pka, pkb, pka})
		emit("edge_agg_pk_dup", a1, dk.Encode())
		bv, be := crypto.BatchVerifyBLSSignaturesOneMessage([]crypto.PublicKey{pka, pka, pkb}, []crypto.Signature{a1, a1, b1}, m1, hs)
		emits("edge_batch_dup", a1, fmt.Sprint(bv, be))
	}
	// fixed-output hashers: halves equal, >= p, zero (the two field elements of hash-to-curve)
	for _, fill := range []byte{0x00, 0x01, 0xff, 0x1a} {
		o := make([]byte, 128)
		for i := range o {
			o[i] = fill
		}
		fh := &fixedHasher{o}
		sg, err := sk.Sign([]byte("x"), fh)
		emits("edge_fixed_hasher_sign", o[:4], res(sg, err))
	}
	pb := p.FillBytes(make([]byte, 64))
	fh := &fixedHasher{append(append([]byte{}, pb...), pb...)}
	sg, err := sk.Sign([]byte("x"), fh)
	emits("edge_fixed_hasher_sign", pb[:4], res(sg, err))
}

type fixedHasher struct{ o []byte }

func (f *fixedHasher) Algorithm() hash.HashingAlgorithm { return hash.KMAC128 }
func (f *fixedHasher) Size() int                         { return len(f.o) }
func (f *fixedHasher) ComputeHash([]byte) hash.Hash      { return append([]byte{}, f.o...) }
func (f *fixedHasher) Write(b []byte) (int, error)       { return len(b), nil }
func (f *fixedHasher) SumHash() hash.Hash                { return append([]byte{}, f.o...) }
func (f *fixedHasher) Reset()                            {}

// blsExtras: entry points of the C glue the main loop does not reach: key removal (E2 subtraction) incl.
// removing everything, identity key and signature, aggregate verification over DISTINCT messages with
// hashers that differ per index and repeated keys, SPoCK against data, compressed-key round trip, and
// threshold reconstruction from more than 8 signers with high indices (Lagrange coefficients in Fr).
func blsExtras(r *rand.Rand) {
	res := func(v []byte, err error) string {
		if err != nil {
			return "error: " + err.Error()
		}
		return hex.EncodeToString(v)
	}
	h1, h2 := crypto.NewExpandMsgXOFKMAC128("extras-1"), crypto.NewExpandMsgXOFKMAC128("extras-2")
	id := rb(r, 8)
	var sks []crypto.PrivateKey
	var pks []crypto.PublicKey
	for j := 0; j < 5; j++ {
		k, _ := crypto.GeneratePrivateKey(crypto.BLSBLS12381, rb(r, 32))
		sks, pks = append(sks, k), append(pks, k.PublicKey())
	}
	agg, _ := crypto.AggregateBLSPublicKeys(pks)
	for cut := 0; cut <= len(pks); cut++ {
		rem, err := crypto.RemoveBLSPublicKeys(agg, pks[:cut])
		if err != nil {
			emits("bls_remove", append([]byte{byte(cut)}, id...), "error: "+err.Error())
			continue
		}
		rest, err2 := crypto.AggregateBLSPublicKeys(pks[cut:])
		same := err2 == nil && rem.Equals(rest)
		emits("bls_remove", append([]byte{byte(cut)}, id...), hex.EncodeToString(rem.Encode())+fmt.Sprint(" ", same, rem.Equals(crypto.IdentityBLSPublicKey())))
	}
	// key objects that are the RESULT of a removal (held in Jacobian coordinates, Z != 1) used as inputs of
	// every group operation on keys: removed again, aggregated, encoded both ways, compared, verified under
	for cut := 1; cut < len(pks); cut++ {
		rem1, err := crypto.RemoveBLSPublicKeys(agg, pks[:cut]) // = sum of pks[cut:]
		if err != nil {
			continue
		}
		tag := append([]byte{byte(cut)}, id...)
		back, e1 := crypto.RemoveBLSPublicKeys(agg, []crypto.PublicKey{rem1}) // = sum of pks[:cut]
		front, _ := crypto.AggregateBLSPublicKeys(pks[:cut])
		if e1 == nil {
			emits("bls_remove_chain", tag, hex.EncodeToString(back.Encode())+fmt.Sprint(" ", back.Equals(front)))
			// a chain: remove a removal's result and a plain key together, then the result of that once more
			if cut >= 2 {
				two, e2 := crypto.RemoveBLSPublicKeys(agg, []crypto.PublicKey{rem1, pks[0]})
				if e2 == nil {
					rest, _ := crypto.AggregateBLSPublicKeys(pks[1:cut])
					three, e3 := crypto.RemoveBLSPublicKeys(agg, []crypto.PublicKey{two, back})
					emits("bls_remove_chain2", tag, hex.EncodeToString(two.Encode())+fmt.Sprint(" ", two.Equals(rest), e3 == nil && three.Equals(rem1)))
					if e3 == nil {
						emit("bls_remove_chain3", tag, three.Encode())
					}
				}
			}
		}
		sum, e4 := crypto.AggregateBLSPublicKeys([]crypto.PublicKey{rem1, front, rem1})
		if e4 == nil {
			emits("bls_agg_of_removed", tag, hex.EncodeToString(sum.Encode())+" "+hex.EncodeToString(sum.EncodeCompressed()))
		}
		emits("bls_removed_encodings", tag, hex.EncodeToString(rem1.Encode())+" "+hex.EncodeToString(rem1.EncodeCompressed()))
		// a signature by the remaining signers verifies under the removal's result
		var part []crypto.Signature
		for _, k := range sks[cut:] {
			sg, _ := k.Sign(id, h1)
			part = append(part, sg)
		}
		as, e5 := crypto.AggregateBLSSignatures(part)
		if e5 == nil {
			okR, errR := rem1.Verify(as, id, h1)
			okM, errM := crypto.VerifyBLSSignatureOneMessage([]crypto.PublicKey{rem1}, as, id, h1)
			as2, _ := crypto.AggregateBLSSignatures([]crypto.Signature{as, as})
			okN, errN := crypto.VerifyBLSSignatureManyMessages([]crypto.PublicKey{rem1, rem1}, as2, [][]byte{id, id}, []hash.Hasher{h1, h1})
			emits("bls_verify_under_removed", tag, fmt.Sprint(okR, errR, okM, errM, okN, errN))
		}
	}
	idk := crypto.IdentityBLSPublicKey()
	idsig := append([]byte{0xc0}, make([]byte, 47)...)
	emit("bls_identity_pk", id, idk.Encode())
	okA, errA := idk.Verify(idsig, []byte("m"), h1)
	okB, errB := pks[0].Verify(idsig, []byte("m"), h1)
	okC, errC := crypto.BLSVerifyPOP(idk, idsig)
	emits("bls_identity_verify", id, fmt.Sprint(okA, errA, okB, errB, okC, errC, crypto.IsBLSSignatureIdentity(idsig), crypto.IsBLSSignatureIdentity(crypto.BLSInvalidSignature())))
	dbl, err := crypto.AggregateBLSPublicKeys([]crypto.PublicKey{pks[0], pks[0], idk})
	if err == nil {
		emit("bls_agg_pk_double", id, dbl.Encode())
	}
	// distinct messages, per-index hashers, repeated keys and repeated messages
	var mpks []crypto.PublicKey
	var msgs [][]byte
	var hss []hash.Hasher
	var sigs []crypto.Signature
	base := [][]byte{rb(r, 0), rb(r, 1), rb(r, 40), rb(r, 200)}
	for j := 0; j < 9; j++ {
		k := j % 3
		m := base[(j*7/2)%len(base)]
		hh := h1
		if j%4 == 1 {
			hh = h2
		}
		sg, _ := sks[k].Sign(m, hh)
		mpks, msgs, hss, sigs = append(mpks, pks[k]), append(msgs, m), append(hss, hh), append(sigs, sg)
	}
	asg, _ := crypto.AggregateBLSSignatures(sigs)
	emit("bls_many_agg_sig", id, asg)
	v1, e1 := crypto.VerifyBLSSignatureManyMessages(mpks, asg, msgs, hss)
	hss[1], hss[0] = hss[0], hss[1]
	v2, e2 := crypto.VerifyBLSSignatureManyMessages(mpks, asg, msgs, hss)
	v3, e3 := crypto.VerifyBLSSignatureManyMessages(mpks[:8], asg, msgs[:8], hss[:8])
	emits("bls_many_verify", id, fmt.Sprint(v1, e1, v2, e2, v3, e3))
	// many DISTINCT keys and messages in one call: the number of pairs in the multi-pairing crosses the
	// batch sizes of the Miller loop (8, 16, 32 pairs and one more) and the key / message grouping tables
	{
		var wk []crypto.PrivateKey
		var wp []crypto.PublicKey
		var wm [][]byte
		var wh []hash.Hasher
		var ws []crypto.Signature
		for j := 0; j < 41; j++ {
			k, _ := crypto.GeneratePrivateKey(crypto.BLSBLS12381, rb(r, 32))
			m := append(rb(r, 5), byte(j))
			sg, _ := k.Sign(m, h1)
			wk, wp, wm, wh, ws = append(wk, k), append(wp, k.PublicKey()), append(wm, m), append(wh, h1), append(ws, sg)
		}
		out := ""
		for _, k := range []int{1, 6, 7, 8, 9, 14, 15, 16, 17, 23, 30, 31, 32, 33, 40, 41} {
			a, err := crypto.AggregateBLSSignatures(ws[:k])
			if err != nil {
				out += " error"
				continue
			}
			v, e := crypto.VerifyBLSSignatureManyMessages(wp[:k], a, wm[:k], wh[:k])
			// one wrong message among them
			wm2 := append([][]byte{}, wm[:k]...)
			wm2[k-1] = []byte("another")
			v2, e2 := crypto.VerifyBLSSignatureManyMessages(wp[:k], a, wm2, wh[:k])
			out += fmt.Sprint(" ", k, v, e, v2, e2)
		}
		emits("bls_many_wide", id, out)
	}
	// SPoCK against data, compressed keys
	pr, _ := crypto.SPOCKProve(sks[0], base[2], h1)
	s1, e1 := crypto.SPOCKVerifyAgainstData(pks[0], pr, base[2], h1)
	s2, e2 := crypto.SPOCKVerifyAgainstData(pks[1], pr, base[2], h1)
	s3, e3 := crypto.SPOCKVerifyAgainstData(pks[0], pr, base[3], h1)
	emits("bls_spock_data", pr, fmt.Sprint(s1, e1, s2, e2, s3, e3))
	pc := pks[0].EncodeCompressed()
	emit("bls_pk_compressed", id, pc)
	if p2, err := crypto.DecodePublicKeyCompressed(crypto.BLSBLS12381, pc); err == nil {
		emit("bls_pk_compressed_roundtrip", id, p2.Encode())
	} else {
		emits("bls_pk_compressed_roundtrip", id, "error: "+err.Error())
	}
	// threshold signature with many participants: signers are the HIGHEST indices, more than 8 of them
	for _, nt := range [][2]int{{20, 9}, {64, 13}, {254, 20}} {
		tn, tt := nt[0], nt[1]
		seed := rb(r, 32)
		tsk, tpk, gpk, err := crypto.BLSThresholdKeyGen(tn, tt, seed)
		if err != nil {
			panic(err)
		}
		m := rb(r, 33)
		var sh []crypto.Signature
		var idx []int
		for j := tn - 1; j >= tn-1-tt; j-- {
			sj, _ := tsk[j].Sign(m, h1)
			sh, idx = append(sh, sj), append(idx, j)
		}
		rec, err := crypto.BLSReconstructThresholdSignature(tn, tt, sh, idx)
		emits("bls_threshold_big", seed, res(rec, err))
		ok, _ := gpk.Verify(rec, m, h1)
		emits("bls_threshold_big_verify", seed, fmt.Sprint(ok, hex.EncodeToString(tpk[tn-1].Encode()[:8]), hex.EncodeToString(tsk[0].Encode())))
		// the stateful API on the same shares
		ts, err := crypto.NewBLSThresholdSignatureInspector(gpk, tpk, tt, m, "extras-1")
		if err != nil {
			emits("bls_threshold_stateful", seed, "error: "+err.Error())
			continue
		}
		for k := range sh {
			_, _ = ts.TrustedAdd(idx[k], sh[k])
		}
		tsig, err := ts.ThresholdSignature()
		emits("bls_threshold_stateful", seed, res(tsig, err))
	}
}
